package main

// Hub mode of the solicitsys engine: ONE real solicitation controller (the hub, on its own real
// controller bus) with 2–3 links to DIFFERENT peers — over one transport uuid, or over different
// ones — each link ending at a spoke with its own real controller and bus. The hub's
// SolicitProtocol directives are shared by all its links; what the hub offers on a link must
// depend on that link's remote peer / transport and on the directive set only.
//
// Model: Bifrost.SolicitHub (driver op solicitsys.hub) — per link the two-sided exchange of
// Bifrost.SolicitSys (side A = the hub), a hub directive change being one step on every link
// (Props.C30Hub: hub_link_is_exchange, hub_wire_only_admitted, hub_recv_admits, …). After every
// environment action every link that is up is compared with the model; at quiescence — and, when
// the comparison fails, after a model-free drain of the real system — the model-independent
// monitors state the clauses per link: a directive whose peer / transport constraint does not
// admit link L's remote never receives a stream on L and its hash is never put on L's wire; one
// that admits it has its hash in the list last offered on L and is connected with the spoke's
// equal solicitation.

import (
	"bytes"
	"context"
	"encoding/hex"
	"errors"
	"fmt"
	"sort"
	"strings"
	"sync"
	"time"

	"github.com/aperturerobotics/bifrost/link"
	link_solicit "github.com/aperturerobotics/bifrost/link/solicit"
	link_solicit_controller "github.com/aperturerobotics/bifrost/link/solicit/controller"
	"github.com/aperturerobotics/bifrost/peer"
	"github.com/aperturerobotics/bifrost/protocol"
	"github.com/aperturerobotics/bifrost/testbed"
	"github.com/aperturerobotics/controllerbus/bus"
	"github.com/aperturerobotics/controllerbus/directive"

	"verif/harness/lib"
	"verif/harness/quiet"
)

type skey struct{ link, id int } // id < 0: -2 errored value, -3 nil stream, -4 not revealed

type hrecv struct {
	dir int
	val link_solicit.SolicitMountedStream
}

type hdir struct {
	id    int
	spec  dirSpec
	di    directive.Instance
	ref   directive.Reference
	early map[int]bool // per link index: its hash had never been on this node's wire of that link when it was added
	late  map[int]bool // per link index: a stream for its hash had already been resolved on this node when it was added
	n     *hnode
}

func (d *hdir) HandleValueAdded(_ directive.Instance, v directive.AttachedValue) {
	sv, ok := v.GetValue().(link_solicit.SolicitMountedStream)
	d.n.mtx.Lock()
	if !ok {
		d.n.bad = append(d.n.bad, fmt.Sprintf("directive %d of %s received a value that is not a SolicitMountedStream", d.id, d.n.name))
	} else {
		d.n.recv = append(d.n.recv, hrecv{d.id, sv})
	}
	d.n.mtx.Unlock()
}
func (d *hdir) HandleValueRemoved(directive.Instance, directive.AttachedValue) {}
func (d *hdir) HandleInstanceDisposed(directive.Instance)                      {}

type hnode struct {
	hw   *hubWorld
	name string
	peer peer.ID
	tb   *testbed.Testbed
	ctrl *link_solicit_controller.Controller
	lc   *linkCtrl
	maxH uint32

	mtx       sync.Mutex
	dirs      map[int]*hdir
	gone      map[int]*hdir
	nextDir   int
	recv      []hrecv
	bad       []string
	valStream map[link_solicit.SolicitMountedStream]skey
	valTaken  map[link_solicit.SolicitMountedStream]int
	accepted  map[[2]any]bool
}

// hlink is one link of the hub: end 0 = the hub, end 1 = the spoke.
type hlink struct {
	j    int
	uuid uint64
	ml   [2]*fakeML
	end  [2]*hnode
	up   bool
	// dead: the link was removed on both ends (a re-established link is a NEW hlink — a new link of
	// the model, sharing both ends' directive sets — with the same uuid)
	dead  bool
	slot  int       // which link of the scenario this is an incarnation of
	valID [2]uint32 // the link values on the two buses

	ctrl     *pipe
	ctrlFrom int
	ctrlN    int
	reqs     []*openReq
	streams  []*streamRec
	arriving [2][]int
	viol     []string
}

type hubWorld struct {
	e     *engine
	ctx   context.Context
	stop  context.CancelFunc
	hub   *hnode
	links []*hlink
	mtx   sync.Mutex // guards the links' ctrl / reqs / streams / arriving
	byML  map[*fakeML][2]int
}

type hubScen struct {
	label   string
	hubPeer peer.ID
	spokes  []peer.ID
	tptH    []uint64 // the hub's transport uuid per link
	tptS    []uint64
	maxHub  uint32
	maxS    []uint32
	poolH   []dirSpec
	poolS   [][]dirSpec
	script  []string
	steps   int
	// share[j] = i < j: link j ends at the SAME spoke node (one controller, one bus) as link i —
	// parallel links between two nodes; -1 / absent: its own node
	share []int
	downs bool // random schedule: links also go down and come up again
}

func (e *engine) newHubNode(hw *hubWorld, name string, p peer.ID, maxH uint32) (*hnode, error) {
	tb, err := testbed.NewTestbed(hw.ctx, e.le, testbed.TestbedOpts{NoPeer: true, NoEcho: true})
	if err != nil {
		return nil, err
	}
	n := &hnode{hw: hw, name: name, peer: p, tb: tb, maxH: effMax(maxH), dirs: map[int]*hdir{}, gone: map[int]*hdir{},
		valStream: map[link_solicit.SolicitMountedStream]skey{}, valTaken: map[link_solicit.SolicitMountedStream]int{},
		accepted: map[[2]any]bool{}}
	n.lc = &linkCtrl{rhs: map[peer.ID]directive.ResolverHandler{}}
	if _, err := tb.Bus.AddController(hw.ctx, n.lc, nil); err != nil {
		return nil, err
	}
	ctrl, err := link_solicit_controller.NewController(e.le, &link_solicit_controller.Config{MaxHashes: maxH})
	if err != nil {
		return nil, err
	}
	n.ctrl = ctrl
	if _, err := tb.Bus.AddController(hw.ctx, ctrl, nil); err != nil {
		return nil, err
	}
	return n, nil
}

func (e *engine) newHubWorld(sc hubScen) (*hubWorld, error) {
	ctx, cancel := context.WithCancel(context.Background())
	hw := &hubWorld{e: e, ctx: ctx, stop: cancel, byML: map[*fakeML][2]int{}}
	hub, err := e.newHubNode(hw, "H", sc.hubPeer, sc.maxHub)
	if err != nil {
		cancel()
		return nil, err
	}
	hw.hub = hub
	for j, sp := range sc.spokes {
		var sn *hnode
		if j < len(sc.share) && sc.share[j] >= 0 && sc.share[j] < j {
			sn = hw.links[sc.share[j]].end[1]
		} else {
			var err error
			sn, err = e.newHubNode(hw, fmt.Sprintf("S%d", j), sp, sc.maxS[j])
			if err != nil {
				cancel()
				return nil, err
			}
		}
		hw.newLink(j, 7000+uint64(j)*10, sn, sc.tptH[j], sc.tptS[j])
	}
	return hw, nil
}

// newLink appends a link (or a new incarnation of link `slot`) between the hub and spoke node sn.
func (hw *hubWorld) newLink(slot int, uuid uint64, sn *hnode, tptH, tptS uint64) *hlink {
	j := len(hw.links)
	l := &hlink{j: j, slot: slot, uuid: uuid, end: [2]*hnode{hw.hub, sn}, ctrlFrom: -1}
	l.ml[0] = &fakeML{uuid: uuid, tpt: tptH, rtpt: tptS, local: hw.hub.peer, remote: sn.peer, open: hw.onOpen}
	l.ml[1] = &fakeML{uuid: uuid, tpt: tptS, rtpt: tptH, local: sn.peer, remote: hw.hub.peer, open: hw.onOpen}
	hw.mtx.Lock()
	hw.byML[l.ml[0]] = [2]int{j, 0}
	hw.byML[l.ml[1]] = [2]int{j, 1}
	hw.links = append(hw.links, l)
	hw.mtx.Unlock()
	return l
}

func (hw *hubWorld) close() {
	hw.stop()
	hw.hub.tb.Release()
	done := map[*hnode]bool{}
	for _, l := range hw.links {
		if !done[l.end[1]] {
			done[l.end[1]] = true
			l.end[1].tb.Release()
		}
	}
}

// onOpen is OpenMountedStream of every fake link end of the hub world.
func (hw *hubWorld) onOpen(ctx context.Context, f *fakeML, pid protocol.ID) (link.MountedStream, error) {
	hw.mtx.Lock()
	k := hw.byML[f]
	l, side := hw.links[k[0]], k[1]
	hw.mtx.Unlock()
	if pid == link_solicit_controller.ControlProtocolID {
		p := newPipe(true, -1)
		p.link = l.j
		hw.mtx.Lock()
		l.ctrlN++
		first := l.ctrl == nil
		if first {
			l.ctrl = p
			l.ctrlFrom = side
		}
		hw.mtx.Unlock()
		if first {
			go hw.dispatch(l, 1-side, pid, p.ends[1])
		}
		return &fakeMS{strm: p.ends[0], pid: pid, ml: f, peer: f.remote}, nil
	}
	r := &openReq{side: side, pid: pid, ml: f, release: make(chan *fakeMS, 1)}
	hw.mtx.Lock()
	l.reqs = append(l.reqs, r)
	hw.mtx.Unlock()
	select {
	case ms := <-r.release:
		return ms, nil
	case <-ctx.Done():
		// the caller gave up (its link was removed): the request is withdrawn
		hw.mtx.Lock()
		for i, q := range l.reqs {
			if q == r {
				l.reqs = append(l.reqs[:i], l.reqs[i+1:]...)
				break
			}
		}
		hw.mtx.Unlock()
		select {
		case ms := <-r.release: // released at the same moment
			return ms, nil
		default:
		}
		return nil, ctx.Err()
	case <-hw.ctx.Done():
		return nil, hw.ctx.Err()
	}
}

// dispatch hands an incoming stream of link l to the node at `side` the way the transport
// controller does: HandleMountedStream directive -> MountedStreamHandler.
func (hw *hubWorld) dispatch(l *hlink, side int, pid protocol.ID, end *pipeEnd) string {
	n, ml := l.end[side], l.ml[side]
	dir := link.NewHandleMountedStream(pid, ml.GetLocalPeer(), ml.GetRemotePeer())
	hctx, cancel := context.WithTimeout(hw.ctx, waitLimit)
	val, _, ref, err := bus.ExecOneOff(hctx, n.tb.Bus, dir, nil, nil)
	cancel()
	if err != nil {
		end.Close()
		return "no-handler"
	}
	defer ref.Release()
	h, ok := val.GetValue().(link.MountedStreamHandler)
	if !ok {
		end.Close()
		return "bad-handler"
	}
	ms := &fakeMS{strm: end, pid: pid, ml: ml, peer: ml.GetRemotePeer()}
	if err := h.HandleMountedStream(hw.ctx, ms); err != nil {
		end.Close()
		return "handler-error"
	}
	return "ok"
}

func (n *hnode) addLinkValue(ml *fakeML) (uint32, error) {
	if _, _, err := n.tb.Bus.AddDirective(link.NewEstablishLinkWithPeer("", ml.remote), nil); err != nil {
		return 0, err
	}
	var rh directive.ResolverHandler
	if !waitUntil(func() bool { rh = n.lc.handler(ml.remote); return rh != nil }) {
		return 0, errors.New("EstablishLinkWithPeer resolver did not start")
	}
	id, ok := rh.AddValue(link.MountedLink(ml))
	if !ok {
		return 0, errors.New("link value refused")
	}
	return id, nil
}

// ---------------------------------------------------------------------------------------------
// observation

// endIdx: index of side's end on link l's control pipe.
func (l *hlink) endIdx(side int) int {
	if l.ctrlFrom == side {
		return 0
	}
	return 1
}

// wireLog: every list `side` has sent on link l's control stream, and the lists in flight towards it.
func (hw *hubWorld) wireLog(l *hlink, side int) (sent, inflight [][][]byte, ok bool) {
	hw.mtx.Lock()
	p := l.ctrl
	ei := l.endIdx(side)
	hw.mtx.Unlock()
	if p == nil {
		return nil, nil, true
	}
	p.mtx.Lock()
	defer p.mtx.Unlock()
	ok = true
	for _, pkt := range p.sent[ei] {
		x, good := decodeExchange(pkt)
		ok = ok && good
		sent = append(sent, x)
	}
	for _, pkt := range p.pending[ei] {
		x, good := decodeExchange(pkt)
		ok = ok && good
		inflight = append(inflight, x)
	}
	return sent, inflight, ok
}

func (n *hnode) snapshot(uuid uint64) (specs []dirSpec, lo linkObs) {
	sols, links := link_solicit_controller.VerifSnapshot(n.ctrl)
	for _, s := range sols {
		specs = append(specs, dirSpec{string(s.SolicitProtocolID()), s.SolicitProtocolContext(), s.SolicitProtocolPeerID(), s.SolicitProtocolTransportID()})
	}
	lo.nlinks = len(links)
	for _, x := range links {
		if x.UUID == uuid {
			lo = linkObs{found: true, sid: x.SessionID, lower: x.LocalIsLower, remote: x.RemoteHashes, matched: x.Matched, nlinks: len(links)}
		}
	}
	return specs, lo
}

func (n *hnode) presentDirs() []*hdir {
	n.mtx.Lock()
	defer n.mtx.Unlock()
	var l []*hdir
	for _, d := range n.dirs {
		l = append(l, d)
	}
	sort.Slice(l, func(i, j int) bool { return l[i].id < l[j].id })
	return l
}

func (n *hnode) everDirs() []*hdir {
	n.mtx.Lock()
	defer n.mtx.Unlock()
	var l []*hdir
	for _, d := range n.dirs {
		l = append(l, d)
	}
	for _, d := range n.gone {
		l = append(l, d)
	}
	sort.Slice(l, func(i, j int) bool { return l[i].id < l[j].id })
	return l
}

// observeValues: every directive that received a value calls AcceptMountedStream on it once;
// exactly one call per value may return the stream, which reveals link and stream id.
func (n *hnode) observeValues() {
	n.mtx.Lock()
	evs := append([]hrecv(nil), n.recv...)
	n.mtx.Unlock()
	for _, ev := range evs {
		n.mtx.Lock()
		k := [2]any{ev.dir, ev.val}
		done := n.accepted[k]
		n.accepted[k] = true
		n.mtx.Unlock()
		if done {
			continue
		}
		ms, already, err := ev.val.AcceptMountedStream()
		n.mtx.Lock()
		switch {
		case err != nil:
			if _, ok := n.valStream[ev.val]; !ok {
				n.valStream[ev.val] = skey{-1, -2}
			}
		case already:
		default:
			n.valTaken[ev.val]++
			if ms == nil {
				n.valStream[ev.val] = skey{-1, -3}
			} else if pe, ok := ms.GetStream().(*pipeEnd); ok {
				n.valStream[ev.val] = skey{pe.p.link, pe.p.id}
			}
		}
		n.mtx.Unlock()
	}
}

// recvPairs: (directive id, stream id) of the values received on link j (values whose stream
// could not be attributed to a link are listed on every link, with a negative id).
func (n *hnode) recvPairs(j int) [][2]int {
	n.observeValues()
	n.mtx.Lock()
	defer n.mtx.Unlock()
	var ps [][2]int
	for _, ev := range n.recv {
		k, ok := n.valStream[ev.val]
		if !ok {
			k = skey{-1, -4}
		}
		if k.id >= 0 && k.link != j {
			continue
		}
		ps = append(ps, [2]int{ev.dir, k.id})
	}
	sort.Slice(ps, func(a, b int) bool {
		if ps[a][0] != ps[b][0] {
			return ps[a][0] < ps[b][0]
		}
		return ps[a][1] < ps[b][1]
	})
	return ps
}

func (hw *hubWorld) streamEnd(l *hlink, s, side int) *pipeEnd {
	hw.mtx.Lock()
	defer hw.mtx.Unlock()
	sr := l.streams[s]
	if sr.opener == side {
		return sr.p.ends[0]
	}
	return sr.p.ends[1]
}

func (hw *hubWorld) closedAt(l *hlink, side int) []int {
	hw.mtx.Lock()
	n := len(l.streams)
	hw.mtx.Unlock()
	var out []int
	for s := 0; s < n; s++ {
		if hw.streamEnd(l, s, side).isClosed() {
			out = append(out, s)
		}
	}
	return out
}

func (hw *hubWorld) pendingReqs(l *hlink, side int) []string {
	hw.mtx.Lock()
	defer hw.mtx.Unlock()
	var out []string
	for _, r := range l.reqs {
		if r.side != side {
			continue
		}
		p := string(r.pid)
		if strings.HasPrefix(p, "solicit:") {
			p = p[len("solicit:"):]
		} else {
			p = "badpid(" + p + ")"
		}
		out = append(out, p)
	}
	sort.Strings(out)
	return out
}

// observeLink renders the observable state of link l in the format of the model's answer.
func (hw *hubWorld) observeLink(l *hlink) string {
	var sb strings.Builder
	var los [2]linkObs
	var dirsStr, earlyStr [2]string
	for i, n := range l.end {
		specs, lo := n.snapshot(l.uuid)
		los[i] = lo
		pres := n.presentDirs()
		have := map[string]int{}
		for _, s := range specs {
			have[specKey(s)]++
		}
		okd := len(specs) == len(pres)
		var ids, early []int
		for _, d := range pres {
			if have[specKey(d.spec)] == 0 {
				okd = false
			}
			have[specKey(d.spec)]--
			ids = append(ids, d.id)
			if d.early[l.j] {
				early = append(early, d.id)
			}
		}
		if okd {
			dirsStr[i] = intList(ids)
		} else {
			dirsStr[i] = fmt.Sprintf("mismatch(registered=%d,present=%d)", len(specs), len(pres))
		}
		earlyStr[i] = intList(early)
	}
	sidOf := func(lo linkObs) string {
		if !lo.found {
			return "nolink"
		}
		return lib.Hex(lo.sid)
	}
	lower := "-"
	switch {
	case los[0].found && los[1].found && los[0].lower && los[1].lower:
		lower = "AB"
	case los[0].found && los[0].lower:
		lower = "A"
	case los[1].found && los[1].lower:
		lower = "B"
	}
	fmt.Fprintf(&sb, "ok sid=%s sidb=%s lower=%s", sidOf(los[0]), sidOf(los[1]), lower)
	for i, n := range l.end {
		p := sidePfx(i)
		sent, inflight, okw := hw.wireLog(l, i)
		last := "_"
		if len(sent) > 0 {
			last = hexList(sent[len(sent)-1])
		}
		if !okw {
			last = "undecodable"
		}
		var inb []string
		for _, x := range inflight {
			inb = append(inb, hexList(x))
		}
		inbox := "_"
		if len(inb) > 0 {
			inbox = strings.Join(inb, "|")
		}
		hw.mtx.Lock()
		arr := intList(l.arriving[i])
		hw.mtx.Unlock()
		var rp []string
		for _, pr := range n.recvPairs(l.j) {
			rp = append(rp, fmt.Sprintf("%d:%d", pr[0], pr[1]))
		}
		fmt.Fprintf(&sb, " %s.dirs=%s %s.early=%s %s.sent=%s %s.remote=%s %s.matched=%s %s.pend=%s %s.inbox=%s %s.arr=%s %s.recv=%s %s.closed=%s",
			p, dirsStr[i], p, earlyStr[i], p, last, p, hexList(los[i].remote), p, strList(los[i].matched),
			p, strList(hw.pendingReqs(l, i)), p, inbox, p, arr, p, strList(rp), p, intList(hw.closedAt(l, i)))
	}
	hw.mtx.Lock()
	var ss []string
	for _, sr := range l.streams {
		ss = append(ss, lib.Hex(sr.hash)+":"+sideName(sr.opener))
	}
	hw.mtx.Unlock()
	fmt.Fprintf(&sb, " streams=%s", strList(ss))
	return sb.String()
}

// ---------------------------------------------------------------------------------------------
// runner

// hop is one entry of the history. A directive change on a spoke NODE is a change of side B of
// every link that ends at that node — including incarnations of a link that come up later (their
// model state starts from the node's whole directive history): rendered when the model is asked.
type hop struct {
	s string
	n *hnode // non-nil: spoke directive change "aB:…" / "rB:…", to be prefixed with every link of n
}

type hubRunner struct {
	e      *engine
	hw     *hubWorld
	sc     hubScen
	ops    []hop
	cur    []int // slot -> index of its current incarnation in hw.links
	byPool map[string]int // "H:k" / "S<j>:k" -> present directive id
	kvs    []map[string]string
	q      bool
	failed bool
	hits   map[string]bool
	last   string
	ends   map[[2]int]bool
}

func (r *hubRunner) render() []string {
	var out []string
	for _, o := range r.ops {
		if o.n == nil {
			out = append(out, o.s)
			continue
		}
		for _, l := range r.hw.links {
			if l.end[1] == o.n {
				out = append(out, fmt.Sprintf("L%d.%s", l.j, o.s))
			}
		}
	}
	return out
}

func (r *hubRunner) op(s string) { r.ops = append(r.ops, hop{s: s}) }

func (e *engine) queryHub(hw *hubWorld, ops []string) (line, ans string) {
	opl := "_"
	if len(ops) > 0 {
		opl = strings.Join(ops, ",")
	}
	var ls []string
	for _, l := range hw.links {
		ls = append(ls, fmt.Sprintf("%s:%s:%d:%d:%d:%d", lib.Hex([]byte(l.ml[0].local)), lib.Hex([]byte(l.ml[0].remote)), l.ml[0].tpt, l.ml[1].tpt, l.end[0].maxH, l.end[1].maxH))
	}
	for {
		var tab []string
		for k, v := range e.orc {
			tab = append(tab, k+":"+hex.EncodeToString(v))
		}
		sort.Strings(tab)
		t := "_"
		if len(tab) > 0 {
			t = strings.Join(tab, ",")
		}
		line = fmt.Sprintf("solicitsys.hub links=%s ops=%s", strings.Join(ls, ";"), opl)
		ans = e.m.Query(line + " orc=" + t)
		if !strings.HasPrefix(ans, "need ") {
			return line, ans
		}
		for _, p := range strings.Split(ans[5:], ",") {
			pre := lib.Unhex(p)
			if len(pre) == 0 {
				e.orc["-"] = b3(nil)
			} else {
				e.orc[hex.EncodeToString(pre)] = b3(pre)
			}
		}
	}
}

// check compares every link that is up with the model after the ops so far.
func (r *hubRunner) check(branch string) bool {
	line, ans := r.e.queryHub(r.hw, r.render())
	r.last = line
	parts := strings.Split(ans, " | ")
	r.kvs = nil
	r.q = true
	var want, got []string
	for j, p := range parts {
		r.kvs = append(r.kvs, kvmap(p))
		if j < len(r.hw.links) && r.hw.links[j].up && !r.hw.links[j].dead {
			want = append(want, canon(p))
			if r.kvs[j]["q"] != "1" {
				r.q = false
			}
		}
	}
	obs := func() []string {
		var g []string
		for _, l := range r.hw.links {
			if l.up && !l.dead {
				g = append(g, r.hw.observeLink(l))
			}
		}
		return g
	}
	// wait until the real links show the model's state — or until the real system has been at rest
	// in ANOTHER state for a while (nothing runnable, observation unchanged for ≥ 400 ms): then it
	// will not get there, and waiting out the full limit only slows a failing run down
	w := strings.Join(want, " | ")
	lastObs, since := "", time.Now()
	waitUntil(func() bool {
		got = obs()
		g := strings.Join(got, " | ")
		if g == w {
			return true
		}
		if g != lastObs || quiet.Busy() != 0 {
			lastObs, since = g, time.Now()
			return false
		}
		return time.Since(since) > 400*time.Millisecond
	})
	g := strings.Join(got, " | ")
	mon, key := "", "solicitsys.hubstep:"+branch
	if w != g {
		r.failed = true
		// the model no longer describes the run: let the real system come to rest on its own and
		// ask the model-independent monitors what, if anything, it violates
		r.freeDrain()
		mon, key = r.violated(true)
		if key == "" {
			key = "solicitsys.hubstep"
		}
	}
	r.e.rep.Compare(r.sc.label+" "+line, w, g, "hub."+branch, key, mon)
	return w == g
}

func (r *hubRunner) specOf(tok string) (n *hnode, pool []dirSpec, who string, j int) {
	if tok[1] == 'H' {
		return r.hw.hub, r.sc.poolH, "H", -1
	}
	fmt.Sscanf(tok[2:], "%d", &j)
	n = r.hw.links[j].end[1]
	root := j
	for i, l := range r.hw.links {
		if l.end[1] == n {
			root = i
			break
		}
	}
	return n, r.sc.poolS[root], n.name, root
}

// linksOf: the links node n is an end of, with its side.
func (r *hubRunner) linksOf(n *hnode) (ls []*hlink, side int) {
	if n == r.hw.hub {
		return r.hw.links, 0
	}
	for _, l := range r.hw.links {
		if l.end[1] == n {
			ls = append(ls, l)
		}
	}
	return ls, 1
}

func (r *hubRunner) addDir(n *hnode, spec dirSpec, who string, j int, k int) {
	ls, side := r.linksOf(n)
	early, late := map[int]bool{}, map[int]bool{}
	for _, l := range ls {
		sid := sessionDirect([]byte(l.ml[0].local), []byte(l.ml[0].remote))
		h := hashDirect(sid, spec.pid, spec.ctx)
		sent, _, _ := r.hw.wireLog(l, side)
		e := true
		for _, x := range sent {
			for _, y := range x {
				if bytes.Equal(y, h) {
					e = false
				}
			}
		}
		early[l.j] = e
		// late: a stream of this link for this hash was already resolved on this node
		r.hw.mtx.Lock()
		for s, sr := range l.streams {
			if !bytes.Equal(sr.hash, h) {
				continue
			}
			inFlight := false
			for _, x := range l.arriving[side] {
				inFlight = inFlight || x == s
			}
			if sr.opener == side || !inFlight {
				late[l.j] = true
			}
		}
		r.hw.mtx.Unlock()
	}
	n.mtx.Lock()
	id := n.nextDir
	n.nextDir++
	ds := &hdir{id: id, spec: spec, early: early, late: late, n: n}
	n.dirs[id] = ds
	n.mtx.Unlock()
	di, ref, err := n.tb.Bus.AddDirective(link_solicit.NewSolicitProtocol(protocol.ID(spec.pid), spec.ctx, spec.peer, spec.tpt), ds)
	if err != nil {
		panic(err)
	}
	ds.di, ds.ref = di, ref
	r.byPool[fmt.Sprintf("%s:%d", who, k)] = id
	args := fmt.Sprintf("%s:%s:%s:%d", lib.Hex([]byte(spec.pid)), lib.Hex(spec.ctx), lib.Hex([]byte(spec.peer)), spec.tpt)
	if j < 0 {
		r.op("aH:" + args)
		for _, l := range ls {
			if l.up && !l.dead {
				r.op(fmt.Sprintf("L%d.sA", l.j))
			}
		}
	} else {
		r.ops = append(r.ops, hop{s: "aB:" + args, n: n})
		for _, l := range ls {
			if l.up && !l.dead {
				r.op(fmt.Sprintf("L%d.sB", l.j))
			}
		}
	}
}

func (r *hubRunner) removeDir(n *hnode, who string, j int, k int) {
	key := fmt.Sprintf("%s:%d", who, k)
	id := r.byPool[key]
	delete(r.byPool, key)
	n.mtx.Lock()
	ds := n.dirs[id]
	delete(n.dirs, id)
	n.gone[id] = ds
	n.mtx.Unlock()
	ds.di.Close()
	ls, _ := r.linksOf(n)
	if j < 0 {
		r.op(fmt.Sprintf("rH:%d", id))
		for _, l := range ls {
			if l.up && !l.dead {
				r.op(fmt.Sprintf("L%d.sA", l.j))
			}
		}
	} else {
		r.ops = append(r.ops, hop{s: fmt.Sprintf("rB:%d", id), n: n})
		for _, l := range ls {
			if l.up && !l.dead {
				r.op(fmt.Sprintf("L%d.sB", l.j))
			}
		}
	}
}

func (r *hubRunner) linkUp(j int) {
	l := r.hw.links[j]
	order := []int{0, 1}
	if r.e.rng.Intn(2) == 0 {
		order = []int{1, 0}
	}
	for _, side := range order {
		id, err := l.end[side].addLinkValue(l.ml[side])
		if err != nil {
			panic(err)
		}
		l.valID[side] = id
	}
	l.up = true
	r.op(fmt.Sprintf("L%d.sA", j))
	r.op(fmt.Sprintf("L%d.sB", j))
}

// linkDown removes link j on both ends (the link value of the EstablishLinkWithPeer directive goes
// away: removeLink). Direct clauses: both controllers drop the link state, both ends of the control
// stream are closed, open requests of the link are withdrawn, a solicited stream still in flight
// towards an end (or, if there is none, a probe stream for an offered hash) is refused — closed and
// handed to nobody. The link takes no further step; when the slot comes up again it is a NEW link.
func (r *hubRunner) linkDown(j int) bool {
	hw, l := r.hw, r.hw.links[j]
	order := []int{0, 1}
	if r.e.rng.Intn(2) == 0 {
		order = []int{1, 0}
	}
	before := [2]int{}
	for side := 0; side < 2; side++ {
		l.end[side].observeValues()
		l.end[side].mtx.Lock()
		before[side] = len(l.end[side].recv)
		l.end[side].mtx.Unlock()
	}
	for _, side := range order {
		rh := l.end[side].lc.handler(l.ml[side].remote)
		if rh == nil {
			panic("linkDown: no resolver handler")
		}
		rh.RemoveValue(l.valID[side])
	}
	l.dead = true
	gone := waitUntil(func() bool {
		for side := 0; side < 2; side++ {
			if _, lo := l.end[side].snapshot(l.uuid); lo.found {
				return false
			}
		}
		return true
	})
	ctrlClosed := true
	hw.mtx.Lock()
	cp := l.ctrl
	hw.mtx.Unlock()
	if cp != nil {
		ctrlClosed = waitUntil(func() bool { return cp.ends[0].isClosed() && cp.ends[1].isClosed() })
	}
	withdrawn := waitUntil(func() bool {
		hw.mtx.Lock()
		defer hw.mtx.Unlock()
		return len(l.reqs) == 0
	})
	// streams in flight arrive now, on a link the controllers no longer track
	refused := true
	type probe struct {
		side int
		end  *pipeEnd
		pid  protocol.ID
	}
	var probes []probe
	hw.mtx.Lock()
	for side := 0; side < 2; side++ {
		for _, s := range l.arriving[side] {
			probes = append(probes, probe{side, l.streams[s].p.ends[1], protocol.ID("solicit:" + hex.EncodeToString(l.streams[s].hash))})
		}
		l.arriving[side] = nil
	}
	hw.mtx.Unlock()
	if len(probes) == 0 {
		side := r.e.rng.Intn(2)
		h := hashDirect(sessionDirect([]byte(l.ml[0].local), []byte(l.ml[0].remote)), "hub/any", []byte("c"))
		if sent, _, _ := hw.wireLog(l, side); len(sent) > 0 && len(sent[len(sent)-1]) > 0 {
			h = sent[len(sent)-1][0]
		}
		p := newPipe(false, -1)
		p.link = l.j
		probes = append(probes, probe{side, p.ends[1], protocol.ID("solicit:" + hex.EncodeToString(h))})
	}
	for _, pr := range probes {
		hw.dispatch(l, pr.side, pr.pid, pr.end)
		if !waitUntil(pr.end.isClosed) {
			refused = false
		}
	}
	for side := 0; side < 2; side++ {
		l.end[side].observeValues()
		l.end[side].mtx.Lock()
		if len(l.end[side].recv) != before[side] {
			refused = false
		}
		l.end[side].mtx.Unlock()
	}
	mon := ""
	switch {
	case !gone:
		mon = fmt.Sprintf("link %d was removed on both ends but a controller still tracks it", l.j)
	case !ctrlClosed:
		mon = fmt.Sprintf("link %d was removed on both ends but its control stream was not closed at both ends", l.j)
	case !withdrawn:
		mon = fmt.Sprintf("link %d was removed but an OpenMountedStream call for it is still waiting", l.j)
	case !refused:
		mon = fmt.Sprintf("a solicited stream arriving on link %d after the link was removed was not refused (closed, handed to nobody)", l.j)
	}
	r.e.rep.Compare(fmt.Sprintf("%s linkdown link=%d %s", r.sc.label, l.j, r.last), "removed", map[bool]string{true: "removed", false: "not-removed"}[mon == ""], "hub.linkdown", "solicitsys.probe:linkremoved", mon)
	return mon == ""
}

// reincarnate: the slot's link comes up again — same peers, same uuid (link uuids are derived from
// the addresses), same transports: a NEW link of both nodes. Directives that exist are, for it,
// "early" (nothing was ever offered on it) and not "late".
func (r *hubRunner) reincarnate(slot int) int {
	old := r.hw.links[r.cur[slot]]
	l := r.hw.newLink(slot, old.uuid, old.end[1], old.ml[0].tpt, old.ml[1].tpt)
	r.cur[slot] = l.j
	for _, n := range l.end {
		n.mtx.Lock()
		for _, d := range n.dirs {
			d.early[l.j] = true
		}
		for _, d := range n.gone {
			d.early[l.j] = true
		}
		n.mtx.Unlock()
	}
	r.e.rep.Branches["hub.relink"]++
	return l.j
}

func (r *hubRunner) deliver(j, side int) {
	l := r.hw.links[j]
	r.hw.mtx.Lock()
	p, ei := l.ctrl, l.endIdx(side)
	r.hw.mtx.Unlock()
	p.deliver(ei)
	r.op(fmt.Sprintf("L%d.d%s", j, sideName(side)))
}

func (r *hubRunner) open(j, side int, hashHex string) {
	hw, l := r.hw, r.hw.links[j]
	hw.mtx.Lock()
	var req *openReq
	for i, q := range l.reqs {
		if q.side == side && string(q.pid) == "solicit:"+hashHex {
			req = q
			l.reqs = append(l.reqs[:i], l.reqs[i+1:]...)
			break
		}
	}
	if req == nil {
		hw.mtx.Unlock()
		panic("hub open: no such request")
	}
	id := len(l.streams)
	p := newPipe(false, id)
	p.link = j
	hb, _ := hex.DecodeString(hashHex)
	l.streams = append(l.streams, &streamRec{hash: hb, opener: side, p: p})
	l.arriving[1-side] = append(l.arriving[1-side], id)
	hw.mtx.Unlock()
	req.release <- &fakeMS{strm: p.ends[0], pid: req.pid, ml: req.ml, peer: req.ml.remote}
	r.op(fmt.Sprintf("L%d.o%s:%s", j, sideName(side), hashHex))
}

func (r *hubRunner) arrive(j, side, s int) {
	hw, l := r.hw, r.hw.links[j]
	hw.mtx.Lock()
	for i, x := range l.arriving[side] {
		if x == s {
			l.arriving[side] = append(l.arriving[side][:i], l.arriving[side][i+1:]...)
			break
		}
	}
	sr := l.streams[s]
	hw.mtx.Unlock()
	pid := protocol.ID("solicit:" + hex.EncodeToString(sr.hash))
	if res := hw.dispatch(l, side, pid, sr.p.ends[1]); res != "ok" {
		hw.mtx.Lock()
		l.viol = append(l.viol, "incoming solicited stream was not handled: "+res)
		hw.mtx.Unlock()
	}
	r.op(fmt.Sprintf("L%d.v%s:%d", j, sideName(side), s))
}

// enabledNet: the network actions the MODEL state allows. Tokens: d<j>.<side> o<j>.<side>:<hash> v<j>.<side>:<s>
func (r *hubRunner) enabledNet() []string {
	var out []string
	for j, l := range r.hw.links {
		if !l.up || l.dead || j >= len(r.kvs) {
			continue
		}
		for i := 0; i < 2; i++ {
			p := sidePfx(i)
			if r.kvs[j][p+".inbox"] != "_" {
				out = append(out, fmt.Sprintf("d%d.%d", j, i))
			}
			for _, h := range splitList(r.kvs[j][p+".pend"]) {
				out = append(out, fmt.Sprintf("o%d.%d:%s", j, i, h))
			}
			for _, s := range splitList(r.kvs[j][p+".arr"]) {
				out = append(out, fmt.Sprintf("v%d.%d:%s", j, i, s))
			}
		}
	}
	return out
}

// realEnabled: the network actions the REAL system offers.
func (r *hubRunner) realEnabled() []string {
	hw := r.hw
	var out []string
	for j, l := range hw.links {
		if l.dead {
			continue
		}
		hw.mtx.Lock()
		p := l.ctrl
		for _, q := range l.reqs {
			if strings.HasPrefix(string(q.pid), "solicit:") {
				out = append(out, fmt.Sprintf("o%d.%d:%s", j, q.side, string(q.pid)[len("solicit:"):]))
			}
		}
		for i := 0; i < 2; i++ {
			for _, s := range l.arriving[i] {
				out = append(out, fmt.Sprintf("v%d.%d:%d", j, i, s))
			}
		}
		e0, e1 := l.endIdx(0), l.endIdx(1)
		hw.mtx.Unlock()
		if p != nil {
			p.mtx.Lock()
			if len(p.pending[e0]) > 0 {
				out = append(out, fmt.Sprintf("d%d.0", j))
			}
			if len(p.pending[e1]) > 0 {
				out = append(out, fmt.Sprintf("d%d.1", j))
			}
			p.mtx.Unlock()
		}
	}
	sort.Strings(out)
	return out
}

func (r *hubRunner) netAction(tok string) {
	var j, side, s int
	switch tok[0] {
	case 'd':
		fmt.Sscanf(tok[1:], "%d.%d", &j, &side)
		r.deliver(j, side)
	case 'o':
		i := strings.IndexByte(tok, ':')
		fmt.Sscanf(tok[1:i], "%d.%d", &j, &side)
		r.open(j, side, tok[i+1:])
	case 'v':
		fmt.Sscanf(tok[1:], "%d.%d:%d", &j, &side, &s)
		r.arrive(j, side, s)
	}
}

func (r *hubRunner) settleReal() {
	last, stable := "", 0
	deadline := time.Now().Add(waitLimit)
	for stable < 4 && time.Now().Before(deadline) {
		time.Sleep(300 * time.Microsecond)
		var sb strings.Builder
		for _, l := range r.hw.links {
			if l.up && !l.dead {
				sb.WriteString(r.hw.observeLink(l))
			}
		}
		sb.WriteString(strings.Join(r.realEnabled(), ","))
		cur := sb.String()
		if cur == last && quiet.Busy() == 0 {
			stable++
		} else {
			stable, last = 0, cur
		}
	}
}

// freeDrain: every action the real system offers, in a seeded random order, until it is at rest.
func (r *hubRunner) freeDrain() {
	r.e.rep.Branches["hub.freerun"]++
	for i := 0; i < 400; i++ {
		r.settleReal()
		en := r.realEnabled()
		if len(en) == 0 {
			return
		}
		r.netAction(en[r.e.rng.Intn(len(en))])
	}
}

// do performs one token and checks. Tokens: aH:<k> rH:<k> aS<j>:<k> rS<j>:<k> up<j>, the
// network tokens, q (drain + monitors).
func (r *hubRunner) do(tok string) bool {
	switch {
	case tok == "q":
		if !r.drain() {
			return false
		}
		r.monitors()
		return true
	case strings.HasPrefix(tok, "up"):
		var slot int
		fmt.Sscanf(tok[2:], "%d", &slot)
		j := r.cur[slot]
		if r.hw.links[j].up && !r.hw.links[j].dead {
			return true
		}
		if r.hw.links[j].dead {
			j = r.reincarnate(slot)
		}
		r.linkUp(j)
		r.e.rep.Branches["hub.linkup"]++
		return r.check("linkup")
	case strings.HasPrefix(tok, "down"):
		var slot int
		fmt.Sscanf(tok[4:], "%d", &slot)
		j := r.cur[slot]
		if !r.hw.links[j].up || r.hw.links[j].dead {
			return true
		}
		if !r.linkDown(j) {
			r.failed = true
			return false
		}
		// the other links (and nothing else) are as before
		return r.check("linkdown")
	case tok[0] == 'a' || tok[0] == 'r':
		n, pool, who, j := r.specOf(tok)
		var k int
		fmt.Sscanf(tok[strings.IndexByte(tok, ':')+1:], "%d", &k)
		if k >= len(pool) {
			return true
		}
		_, present := r.byPool[fmt.Sprintf("%s:%d", who, k)]
		if tok[0] == 'a' {
			if present {
				return true
			}
			r.addDir(n, pool[k], who, j, k)
			return r.check("add")
		}
		if !present {
			return true
		}
		r.removeDir(n, who, j, k)
		return r.check("remove")
	}
	r.netAction(tok)
	switch tok[0] {
	case 'd':
		return r.check("deliver")
	case 'o':
		return r.check("open")
	}
	return r.check("arrive")
}

func (r *hubRunner) drain() bool {
	for i := 0; i < 600; i++ {
		en := r.enabledNet()
		if len(en) == 0 {
			return true
		}
		if !r.do(en[r.e.rng.Intn(len(en))]) {
			return false
		}
	}
	return false
}

// ---------------------------------------------------------------------------------------------
// monitors: statements about the real observations only (BLAKE3 called directly)

func admitsML(d dirSpec, ml *fakeML) bool {
	return (len(d.peer) == 0 || d.peer == ml.remote) && (d.tpt == 0 || d.tpt == ml.tpt)
}

func (n *hnode) dirByID(id int) *dirSpec {
	n.mtx.Lock()
	defer n.mtx.Unlock()
	if d, ok := n.dirs[id]; ok {
		return &d.spec
	}
	if d, ok := n.gone[id]; ok {
		return &d.spec
	}
	return nil
}

// violated evaluates the per-link clauses. atRest: the system is quiescent, so the clauses
// about what must have happened are evaluated too. Returns the first finding ("" = none).
func (r *hubRunner) violated(atRest bool) (string, string) {
	fs := r.findings(atRest)
	for _, f := range fs {
		if relevant(r.e.a.Prop, f.key) && f.key != "solicitsys.match:late-solicitation" {
			return f.what, f.key
		}
	}
	return "", ""
}

func (r *hubRunner) findings(atRest bool) []finding {
	hw := r.hw
	var out []finding
	for _, l := range hw.links {
		if !l.up {
			// a link that is not up: nothing may have been opened on it
			hw.mtx.Lock()
			if l.ctrl != nil || len(l.reqs) > 0 {
				out = append(out, finding{fmt.Sprintf("link %d: a stream was opened on a link that was never announced", l.j), "solicitsys.hub:link-not-up"})
			}
			hw.mtx.Unlock()
			continue
		}
		name := fmt.Sprintf("link %d (hub %x — %s %x, hub transport %d)", l.j, []byte(l.ml[0].local), l.end[1].name, []byte(l.ml[0].remote), l.ml[0].tpt)
		sid := sessionDirect([]byte(l.ml[0].local), []byte(l.ml[0].remote))
		lowerSide := 0
		if bytes.Compare([]byte(l.ml[0].local), []byte(l.ml[0].remote)) > 0 {
			lowerSide = 1
		}
		hw.mtx.Lock()
		for _, s := range l.viol {
			out = append(out, finding{name + ": " + s, "solicitsys.link:protocol"})
		}
		ctrlN := l.ctrlN
		streams := append([]*streamRec(nil), l.streams...)
		reqs := append([]*openReq(nil), l.reqs...)
		arriving := [2]map[int]bool{{}, {}}
		for i := 0; i < 2; i++ {
			for _, s := range l.arriving[i] {
				arriving[i][s] = true
			}
		}
		hw.mtx.Unlock()
		if ctrlN > 1 {
			out = append(out, finding{fmt.Sprintf("%s: %d control streams were opened", name, ctrlN), "solicitsys.link:control-dup"})
		}
		var sent [2][][][]byte
		var los [2]linkObs
		var recv [2][][2]int
		formatOK := true
		for i, n := range l.end {
			sent[i], _, _ = hw.wireLog(l, i)
			_, los[i] = n.snapshot(l.uuid)
			recv[i] = n.recvPairs(l.j)
			who := "the hub"
			if i == 1 {
				who = "spoke " + n.name
			}
			// session id
			if los[i].found && !bytes.Equal(los[i].sid, sid) {
				out = append(out, finding{fmt.Sprintf("%s: %s's session identifier is not BLAKE3(lower peer ‖ higher peer) of this link's two peers", name, who), "solicitsys.session:value"})
			}
			if los[i].found && los[i].lower != (i == lowerSide) {
				out = append(out, finding{fmt.Sprintf("%s: %s has localIsLower=%v", name, who, los[i].lower), "solicitsys.lower:wrong"})
			}
			// (1) a directive whose peer / transport constraint does not admit this link never receives a stream on it
			for _, p := range recv[i] {
				if p[1] < 0 {
					continue
				}
				if d := n.dirByID(p[0]); d != nil && !admitsML(*d, l.ml[i]) {
					out = append(out, finding{fmt.Sprintf("%s: solicitation %v of %s received stream %d of this link although its peer / transport constraint does not admit the link's remote (peer %x, transport %d)",
						name, *d, who, p[1], []byte(l.ml[i].remote), l.ml[i].tpt), "solicitsys.hub:recv-not-admitted"})
				}
			}
			// (2) … and its hash is never put on this link's wire: every hash ever offered here is the
			// hash, under THIS link's session, of a solicitation of this node that admits the link
			admitted := map[string]bool{}
			anyDir := map[string]bool{}
			for _, d := range n.everDirs() {
				h := string(hashDirect(sid, d.spec.pid, d.spec.ctx))
				anyDir[h] = true
				if admitsML(d.spec, l.ml[i]) {
					admitted[h] = true
				}
			}
			for _, lst := range sent[i] {
				for _, h := range lst {
					if !anyDir[string(h)] {
						formatOK = false // not the hash of any of this node's solicitations under this link's session
					}
				}
			}
			for _, lst := range sent[i] {
				for _, h := range lst {
					if anyDir[string(h)] && !admitted[string(h)] {
						var ds []string
						for _, d := range n.everDirs() {
							if bytes.Equal(hashDirect(sid, d.spec.pid, d.spec.ctx), h) {
								ds = append(ds, d.spec.String())
							}
						}
						out = append(out, finding{fmt.Sprintf("%s: %s put hash %x… on this link's wire; it is the hash of %s, whose peer / transport constraint does not admit this link's remote (peer %x, transport %d)",
							name, who, h[:4], strings.Join(ds, " / "), []byte(l.ml[i].remote), l.ml[i].tpt), "solicitsys.hub:wire-not-admitted"})
					}
				}
			}
			if !formatOK {
				// a hash on the wire that is no solicitation's hash under this link's session at all:
				// computed for another link (another session), or another hash format
				for _, lst := range sent[i] {
					for _, h := range lst {
						if anyDir[string(h)] {
							continue
						}
						for _, o := range hw.links {
							if o == l {
								continue
							}
							osid := sessionDirect([]byte(o.ml[0].local), []byte(o.ml[0].remote))
							for _, d := range n.everDirs() {
								if bytes.Equal(hashDirect(osid, d.spec.pid, d.spec.ctx), h) {
									out = append(out, finding{fmt.Sprintf("%s: %s put hash %x… on this link's wire, which is the hash of %v under the session of link %d", name, who, h[:4], d.spec, o.j), "solicitsys.hub:wire-other-session"})
								}
							}
						}
					}
				}
			}
			n.mtx.Lock()
			for _, k := range n.valTaken {
				if k > 1 {
					out = append(out, finding{fmt.Sprintf("%s: one solicited stream was handed to %d accepting directives of %s", name, k, who), "solicitsys.value:multi-owner"})
				}
			}
			for _, b := range n.bad {
				out = append(out, finding{b, "solicitsys.value:type"})
			}
			n.mtx.Unlock()
		}
		everSent := func(i int, h []byte) bool {
			for _, lst := range sent[i] {
				for _, x := range lst {
					if bytes.Equal(x, h) {
						return true
					}
				}
			}
			return false
		}
		// solicited streams: by the lower peer, one per hash, only for a hash both ends offered
		seen := map[string]int{}
		type oreq struct {
			side int
			hash string
		}
		var all []oreq
		for _, sr := range streams {
			all = append(all, oreq{sr.opener, hex.EncodeToString(sr.hash)})
		}
		for _, q := range reqs {
			p := string(q.pid)
			if !strings.HasPrefix(p, "solicit:") {
				out = append(out, finding{fmt.Sprintf("%s: a stream with protocol id %q was opened", name, p), "solicitsys.open:pid"})
				continue
			}
			all = append(all, oreq{q.side, p[len("solicit:"):]})
		}
		for _, o := range all {
			if o.side != lowerSide {
				out = append(out, finding{fmt.Sprintf("%s: the HIGHER peer opened a solicited stream for hash %s…", name, trunc8(o.hash)), "solicitsys.open:by-higher"})
			}
			seen[o.hash]++
			hb, err := hex.DecodeString(o.hash)
			if err != nil {
				continue
			}
			if !everSent(0, hb) || !everSent(1, hb) {
				out = append(out, finding{fmt.Sprintf("%s: a solicited stream was opened for hash %s… which one end never offered", name, trunc8(o.hash)), "solicitsys.open:not-offered"})
			}
		}
		for h, k := range seen {
			if k > 1 {
				out = append(out, finding{fmt.Sprintf("%s: %d solicited streams were opened for the same matched hash %s…", name, k, trunc8(h)), "solicitsys.open:duplicate"})
			}
		}
		// matched ⇒ same protocol id and context, constraints admit (both ends)
		for _, ra := range recv[0] {
			for _, rb := range recv[1] {
				if ra[1] < 0 || ra[1] != rb[1] {
					continue
				}
				da, db := l.end[0].dirByID(ra[0]), l.end[1].dirByID(rb[0])
				if da == nil || db == nil {
					continue
				}
				if da.pid != db.pid || !bytes.Equal(da.ctx, db.ctx) {
					out = append(out, finding{fmt.Sprintf("%s: solicitations %v of the hub and %v of the spoke were matched (stream %d) although they differ in protocol id / context", name, *da, *db, ra[1]), "solicitsys.match:unsound"})
				} else if !admitsML(*da, l.ml[0]) || !admitsML(*db, l.ml[1]) {
					out = append(out, finding{fmt.Sprintf("%s: solicitations %v of the hub and %v of the spoke were matched (stream %d) although a peer / transport constraint does not admit the link", name, *da, *db, ra[1]), "solicitsys.match:unsound"})
				}
			}
		}
		if l.dead {
			// a removed link: nothing may happen on it any more
			hw.mtx.Lock()
			nreq := len(l.reqs)
			hw.mtx.Unlock()
			if nreq > 0 {
				out = append(out, finding{fmt.Sprintf("%s: an OpenMountedStream call was made on the link after it was removed", name), "solicitsys.hub:dead-link-activity"})
			}
			continue
		}
		if !atRest {
			continue
		}
		// at rest: every stream that reached an end is handed over xor closed
		closed := [2]map[int]bool{{}, {}}
		for i := 0; i < 2; i++ {
			for _, s := range hw.closedAt(l, i) {
				closed[i][s] = true
			}
		}
		for s, sr := range streams {
			for i := 0; i < 2; i++ {
				if i != sr.opener && arriving[i][s] {
					continue
				}
				owned := false
				for _, p := range recv[i] {
					if p[1] == s {
						owned = true
					}
				}
				switch {
				case !owned && !closed[i][s]:
					out = append(out, finding{fmt.Sprintf("%s: stream %d reached end %d where no solicitation takes it, and was neither handed over nor closed", name, s, i), "solicitsys.stream:unowned-not-closed"})
				case owned && closed[i][s]:
					out = append(out, finding{fmt.Sprintf("%s: stream %d was handed to a solicitation at end %d and closed by the controller", name, s, i), "solicitsys.stream:owned-closed"})
				}
			}
		}
		if !formatOK {
			continue // the clauses below restate the hash format
		}
		// (3) a solicitation that admits the link DOES have its hash in the list last offered on it
		trunc := false
		var pres [2][]*hdir
		for i, n := range l.end {
			pres[i] = n.presentDirs()
			var want [][]byte
			for _, d := range pres[i] {
				if admitsML(d.spec, l.ml[i]) {
					want = append(want, hashDirect(sid, d.spec.pid, d.spec.ctx))
				}
			}
			sort.Slice(want, func(a, b int) bool { return bytes.Compare(want[a], want[b]) < 0 })
			if len(want) > int(l.end[0].maxH) || len(want) > int(l.end[1].maxH) {
				trunc = true
			}
			if len(want) > int(n.maxH) {
				want = want[:n.maxH]
			}
			var last [][]byte
			if len(sent[i]) > 0 {
				last = sent[i][len(sent[i])-1]
			}
			if hexList(last) != hexList(want) {
				missing := ""
				for _, d := range pres[i] {
					if !admitsML(d.spec, l.ml[i]) {
						continue
					}
					h, in := hashDirect(sid, d.spec.pid, d.spec.ctx), false
					for _, x := range last {
						in = in || bytes.Equal(x, h)
					}
					if !in {
						missing = fmt.Sprintf(": the hash of %v, which admits this link, is not in it", d.spec)
						break
					}
				}
				out = append(out, finding{fmt.Sprintf("%s: end %d last offered %d hashes, not the %d hashes of its solicitations admitting this link%s", name, i, len(last), len(want), missing), "solicitsys.offer:list"})
			}
		}
		if trunc {
			r.e.rep.Branches["hub.truncated"]++
			continue
		}
		// (4) … and is connected with the spoke's solicitation of the same protocol and context
		connected := func(a, b int) bool {
			for _, ra := range recv[0] {
				if ra[0] != a || ra[1] < 0 {
					continue
				}
				for _, rb := range recv[1] {
					if rb[0] == b && rb[1] == ra[1] {
						return true
					}
				}
			}
			return false
		}
		for _, da := range pres[0] {
			for _, db := range pres[1] {
				crit := da.spec.pid == db.spec.pid && bytes.Equal(da.spec.ctx, db.spec.ctx) && admitsML(da.spec, l.ml[0]) && admitsML(db.spec, l.ml[1])
				if !crit {
					continue
				}
				if connected(da.id, db.id) {
					r.e.rep.Branches["hub.connected"]++
					continue
				}
				what := fmt.Sprintf("%s: solicitations %v of the hub and %v of the spoke name the same protocol and context and their constraints admit the link, yet at quiescence no stream connects them", name, da.spec, db.spec)
				if !da.late[l.j] && !db.late[l.j] {
					out = append(out, finding{what, "solicitsys.match:missed"})
				} else {
					out = append(out, finding{what + " (the one stream of this hash had been resolved on the link before the later of the two was added; the hash stays in ls.matched)", "solicitsys.match:late-solicitation"})
				}
			}
		}
	}
	sort.Slice(out, func(i, j int) bool { return out[i].key+out[i].what < out[j].key+out[j].what })
	return out
}

// endsCheck: the values of a matched pair are the two ends of one stream of that link.
func (r *hubRunner) endsCheck() []finding {
	var out []finding
	for _, l := range r.hw.links {
		if !l.up || l.dead {
			continue
		}
		var have [2]map[int]bool
		for i, n := range l.end {
			have[i] = map[int]bool{}
			for _, p := range n.recvPairs(l.j) {
				if p[1] >= 0 {
					have[i][p[1]] = true
				}
			}
		}
		for s := range have[0] {
			if !have[1][s] || r.ends[[2]int{l.j, s}] {
				continue
			}
			r.ends[[2]int{l.j, s}] = true
			ea, eb := r.hw.streamEnd(l, s, 0), r.hw.streamEnd(l, s, 1)
			if ea.isClosed() || eb.isClosed() {
				continue
			}
			r.e.rep.Branches["hub.ends"]++
			ta, tb := []byte(fmt.Sprintf("H>%d.%03d", l.j, s)), []byte(fmt.Sprintf("S>%d.%03d", l.j, s))
			ea.Write(ta)
			eb.Write(tb)
			ga, erra := eb.readToken(len(ta))
			gb, errb := ea.readToken(len(tb))
			if erra != nil || errb != nil || !bytes.Equal(ga, ta) || !bytes.Equal(gb, tb) {
				out = append(out, finding{fmt.Sprintf("link %d: the two ends of solicited stream %d are not connected", l.j, s), "solicitsys.match:ends"})
			}
		}
	}
	return out
}

// monitors evaluates every clause on a quiescent state.
func (r *hubRunner) monitors() {
	r.e.rep.Branches["hub.quiescent"]++
	fs := append(r.findings(true), r.endsCheck()...)
	for _, f := range fs {
		if !relevant(r.e.a.Prop, f.key) {
			continue
		}
		if f.key == "solicitsys.match:late-solicitation" {
			r.e.rep.Branches["known.late"]++
		}
		if r.hits[f.key+f.what] {
			continue
		}
		r.hits[f.key+f.what] = true
		r.e.rep.Disagree(libDisagreement(r.sc.label+" "+r.last, f))
	}
}

// ---------------------------------------------------------------------------------------------
// scenarios

func (e *engine) runHub(sc hubScen) {
	hw, err := e.newHubWorld(sc)
	if err != nil {
		panic(err)
	}
	defer hw.close()
	r := &hubRunner{e: e, hw: hw, sc: sc, byPool: map[string]int{}, hits: map[string]bool{}, ends: map[[2]int]bool{}}
	for j := range sc.spokes {
		r.cur = append(r.cur, j)
	}
	for j := range sc.spokes {
		if j < len(sc.share) && sc.share[j] >= 0 && sc.share[j] < j {
			e.rep.Branches["hub.parallel-links"]++
			break
		}
	}
	e.rep.Branches["hub.scenario"]++
	same := true
	for _, t := range sc.tptH {
		if t != sc.tptH[0] {
			same = false
		}
	}
	if same {
		e.rep.Branches["hub.same-transport"]++
	} else {
		e.rep.Branches["hub.other-transport"]++
	}
	if len(sc.spokes) >= 3 {
		e.rep.Branches["hub.three-links"]++
	}
	if sc.script != nil {
		for _, tok := range sc.script {
			if !r.do(tok) {
				return
			}
		}
	} else {
		for i := 0; i < sc.steps; i++ {
			var tok string
			en := r.enabledNet()
			x := e.rng.Intn(100)
			switch {
			case len(en) > 0 && x < 55:
				tok = en[e.rng.Intn(len(en))]
			case x < 65:
				tok = fmt.Sprintf("up%d", e.rng.Intn(len(sc.spokes)))
				if sc.downs && x < 59 {
					tok = fmt.Sprintf("down%d", e.rng.Intn(len(sc.spokes)))
				}
			case x < 85:
				k := e.rng.Intn(len(sc.poolH))
				if _, ok := r.byPool[fmt.Sprintf("H:%d", k)]; ok {
					if e.rng.Intn(100) < 40 {
						tok = fmt.Sprintf("rH:%d", k)
					}
				} else {
					tok = fmt.Sprintf("aH:%d", k)
				}
			default:
				j := e.rng.Intn(len(sc.spokes))
				k := e.rng.Intn(len(sc.poolS[j]))
				_, _, who, _ := r.specOf(fmt.Sprintf("aS%d:0", j))
				if _, ok := r.byPool[fmt.Sprintf("%s:%d", who, k)]; ok {
					if e.rng.Intn(100) < 40 {
						tok = fmt.Sprintf("rS%d:%d", j, k)
					}
				} else {
					tok = fmt.Sprintf("aS%d:%d", j, k)
				}
			}
			if tok == "" {
				continue
			}
			if !r.do(tok) {
				return
			}
			if i%8 == 7 {
				if !r.do("q") {
					return
				}
			}
		}
		for j := range sc.spokes {
			if !r.do(fmt.Sprintf("up%d", j)) {
				return
			}
		}
	}
	if !r.do("q") {
		return
	}
	time.Sleep(2 * time.Millisecond)
	if r.check("final") {
		r.monitors()
	}
}

// hubPools: directives of the hub constrained to each spoke, to each transport, to a wrong peer,
// unconstrained; per spoke the same (pid, ctx) pairs, some constrained to the hub.
func hubPools(sc *hubScen) {
	sc.poolH = []dirSpec{
		{"hub/any", []byte("c"), "", 0},
		{"hub/dex", []byte("b1"), sc.spokes[0], 0},
		{"hub/dex", []byte("b1"), "", sc.tptH[len(sc.tptH)-1]},
		{"hub/p2", nil, sc.spokes[len(sc.spokes)-1], 0},
		{"hub/p2", nil, "", 0},
		{"hub/p3", []byte("x"), "nobody-peer", 0},
		{"hub/dex", []byte("b2"), sc.spokes[0], sc.tptH[0]},
		{"hub/p4", nil, sc.spokes[len(sc.spokes)-1], sc.tptH[0]},
		// both halves of a separator-ambiguous pair on the hub; each spoke solicits one half
		{"hub/am", []byte("big"), "", 0},
		{"hub/ambig", nil, "", 0},
	}
	for j := range sc.spokes {
		amb := dirSpec{"hub/am", []byte("big"), "", 0}
		if j%2 == 1 {
			amb = dirSpec{"hub/ambig", nil, "", 0}
		}
		sc.poolS = append(sc.poolS, []dirSpec{
			{"hub/any", []byte("c"), "", 0},
			{"hub/dex", []byte("b1"), "", 0},
			{"hub/p2", nil, sc.hubPeer, 0},
			{"hub/p3", []byte("x"), "", 0},
			{"hub/dex", []byte("b2"), "", 0},
			{"hub/p4", nil, "", 0},
			amb,
			// admitted only on the link the spoke mounted on ITS last transport (parallel links: one of them)
			{"hub/any", []byte("c"), "", sc.tptS[len(sc.tptS)-1]},
		})
	}
}

func (e *engine) hubScenarios(n int) []hubScen {
	var out []hubScen
	mk := func(label string, hubPeer peer.ID, spokes []peer.ID, tptH []uint64, script []string) hubScen {
		sc := hubScen{label: label, hubPeer: hubPeer, spokes: spokes, tptH: tptH, maxHub: 16, script: script}
		for j := range spokes {
			sc.tptS = append(sc.tptS, 900+uint64(j))
			sc.maxS = append(sc.maxS, 16)
		}
		hubPools(&sc)
		return sc
	}
	x, y, z := peer.ID("spoke-x"), peer.ID("spoke-y"), peer.ID("spoke-z")
	// a solicitation constrained to spoke X; X's link first, Y's link comes up afterwards (same transport)
	out = append(out, mk("hub-constrained-then-second-link", "hub-h", []peer.ID{x, y}, []uint64{7, 7},
		[]string{"up0", "aH:0", "aH:1", "aS0:1", "aS0:0", "q", "up1", "aS1:1", "aS1:0", "q"}))
	// the other order: Y's link is up when the solicitation constrained to X is registered; X's link comes afterwards
	out = append(out, mk("hub-second-link-first", "hub-h", []peer.ID{x, y}, []uint64{7, 7},
		[]string{"up1", "aH:0", "aH:1", "aS1:1", "aS1:0", "q", "up0", "aS0:1", "aS0:0", "q"}))
	// both links up before any solicitation; the hub is the HIGHER peer of both links
	out = append(out, mk("hub-both-up-hub-higher", "zz-hub", []peer.ID{x, y}, []uint64{7, 7},
		[]string{"up0", "up1", "aS0:1", "aS1:1", "aH:1", "q", "aH:3", "aS0:2", "aS1:2", "q", "rH:1", "q"}))
	// different transports, transport-constrained solicitation; three links, two of them sharing a transport
	out = append(out, mk("hub-three-links-transports", "hub-h", []peer.ID{x, y, z}, []uint64{7, 8, 8},
		[]string{"up0", "aH:2", "aH:6", "up1", "aS0:1", "aS1:1", "aS2:1", "q", "up2", "aS0:4", "aS2:4", "q"}))
	// two links to the SAME peer over different transports (one session id, two link states): the
	// transport-constrained solicitations must be offered on their own transport's link only
	out = append(out, mk("hub-same-peer-two-transports", "hub-h", []peer.ID{x, x}, []uint64{7, 8},
		[]string{"up0", "aH:2", "aH:6", "aS0:1", "aS1:1", "aS0:4", "aS1:4", "q", "up1", "q", "aH:0", "aS0:0", "aS1:0", "q"}))
	// PARALLEL links: two links between the hub and ONE spoke node (one controller at each end, both
	// directive sets shared by both links, one session id), over different transports: every pair is
	// connected once per link; a transport-constrained solicitation (of the hub, of the spoke) only on
	// the link over that transport
	par := mk("hub-parallel-links", "hub-h", []peer.ID{x, x}, []uint64{7, 8},
		[]string{"up0", "aH:0", "aS0:0", "q", "up1", "q", "aH:2", "aS0:1", "q", "aS0:7", "q", "rH:0", "aH:4", "aS0:2", "q"})
	par.share = []int{-1, 0}
	out = append(out, par)
	// a link is REMOVED on both ends and RE-ESTABLISHED (same uuid): the solicitations both nodes
	// still hold are matched again on the new link; the other link is not disturbed
	out = append(out, mk("hub-link-removed-and-reestablished", "hub-h", []peer.ID{x, y}, []uint64{7, 7},
		[]string{"up0", "up1", "aH:0", "aS0:0", "aS1:0", "q", "down0", "q", "aH:4", "aS0:2", "up0", "q", "aS0:1", "aH:1", "q", "down1", "down0", "up1", "up0", "q"}))
	// the same with a stream still in flight / an open still pending when the link goes away, on parallel links
	par2 := mk("hub-parallel-link-removed", "zz-hub", []peer.ID{x, x}, []uint64{7, 8},
		[]string{"up0", "up1", "aH:0", "aS0:0", "down1", "q", "aH:4", "aS0:2", "down0", "up1", "q", "up0", "q"})
	par2.share = []int{-1, 0}
	out = append(out, par2)
	for k := 0; k < n; k++ {
		ns := 2 + e.rng.Intn(2)
		spokes := []peer.ID{x, y, z}[:ns]
		if k%3 == 1 {
			spokes = []peer.ID{e.realisticID(), e.realisticID(), e.realisticID()}[:ns]
		}
		hubPeer := peer.ID("hub-h")
		switch k % 4 {
		case 1:
			hubPeer = "zz-hub"
		case 2:
			hubPeer = "spoke-xx" // between the spokes: lower on some links, higher on others
		case 3:
			hubPeer = e.realisticID()
		}
		tptH := make([]uint64, ns)
		for j := range tptH {
			tptH[j] = 7
			if k%2 == 1 && j == ns-1 {
				tptH[j] = 8
			}
		}
		if k%6 == 5 {
			// two of the links go to the same peer, over different transports
			spokes = append([]peer.ID(nil), spokes...)
			spokes[ns-1] = spokes[0]
			tptH[ns-1] = 9
		}
		sc := mk(fmt.Sprintf("hub%d", k), hubPeer, spokes, tptH, nil)
		sc.steps = 22 + e.rng.Intn(14)
		if k%6 == 5 && k%4 == 1 {
			sc.share = make([]int, ns)
			for j := range sc.share {
				sc.share[j] = -1
			}
			sc.share[ns-1] = 0 // the two links to the same peer end at ONE node: parallel links
		}
		sc.downs = k%3 == 2
		if k%5 == 4 {
			sc.maxHub = 2
		}
		out = append(out, sc)
	}
	return out
}
