// Command solicitsys is the correspondence engine for the two-sided solicitation exchange
// (C30, with the C31 and C32 clauses that show on it): TWO real link/solicit/controller
// Controllers (NewController + Execute through bus.AddController) on two real controller buses,
// joined by a fake link pair. Each side sees a link.MountedLink with its own local / remote peer,
// link uuid and transport uuid; OpenMountedStream on one side makes an in-memory pipe and hands
// the other end to the other bus exactly as the transport controller does (HandleMountedStream
// directive -> MountedStreamHandler). The engine owns the environment: it adds and removes real
// SolicitProtocol directives on both buses, decides when each exchange packet of the control
// stream is delivered (FIFO per direction), when each OpenMountedStream("solicit:…") call of a
// controller proceeds and when the opened stream reaches the other side. After every step the
// observable state (lists on the wire, ls.remoteHashes / ls.matched via VerifSnapshot, open
// requests, which directive references hold which value, both stream ends, closed ends) is
// compared with the Lean model Bifrost.SolicitSys, and at every quiescent point the
// model-independent monitors state the clauses of the property directly (BLAKE3 = zeebo/blake3).
package main

import (
	"bytes"
	"context"
	"encoding/binary"
	"errors"
	"fmt"
	"io"
	"runtime"
	"sort"
	"strings"
	"sync"
	"time"

	"github.com/aperturerobotics/bifrost/link"
	link_solicit "github.com/aperturerobotics/bifrost/link/solicit"
	link_solicit_controller "github.com/aperturerobotics/bifrost/link/solicit/controller"
	"github.com/aperturerobotics/bifrost/peer"
	"github.com/aperturerobotics/bifrost/protocol"
	"github.com/aperturerobotics/bifrost/stream"
	"github.com/aperturerobotics/bifrost/testbed"
	"github.com/aperturerobotics/controllerbus/bus"
	"github.com/aperturerobotics/controllerbus/controller"
	"github.com/aperturerobotics/controllerbus/directive"
	"github.com/blang/semver/v4"
	"github.com/sirupsen/logrus"
	"github.com/zeebo/blake3"

	"verif/harness/lib"
)

var waitLimit = 20 * time.Second

func b3(b []byte) []byte {
	h := blake3.Sum256(b)
	return h[:]
}

// ---------------------------------------------------------------------------------------------
// in-memory stream pair

type pipeEnd struct {
	p      *pipe
	idx    int // 0 / 1
	in     []byte
	closed bool // Close() was called on THIS end
}

// pipe is a bidirectional in-memory stream. A gated pipe queues every Write as one packet until
// the engine delivers it.
type pipe struct {
	link    int // hub engine: index of the link the stream belongs to
	mtx     sync.Mutex
	cond    *sync.Cond
	gated   bool
	ends    [2]*pipeEnd
	pending [2][][]byte // pending[i]: packets written TOWARDS end i, not yet delivered
	sent    [2][][]byte // sent[i]: every packet written BY end i
	id      int         // solicited stream id (-1: control / probe stream)
}

func newPipe(gated bool, id int) *pipe {
	p := &pipe{gated: gated, id: id}
	p.cond = sync.NewCond(&p.mtx)
	p.ends[0] = &pipeEnd{p: p, idx: 0}
	p.ends[1] = &pipeEnd{p: p, idx: 1}
	return p
}

func (e *pipeEnd) Read(b []byte) (int, error) {
	p := e.p
	p.mtx.Lock()
	defer p.mtx.Unlock()
	for {
		if e.closed {
			return 0, io.ErrClosedPipe
		}
		if len(e.in) > 0 {
			n := copy(b, e.in)
			e.in = e.in[n:]
			return n, nil
		}
		if p.ends[1-e.idx].closed {
			return 0, io.EOF
		}
		p.cond.Wait()
	}
}

func (e *pipeEnd) Write(b []byte) (int, error) {
	p := e.p
	p.mtx.Lock()
	defer p.mtx.Unlock()
	if e.closed || p.ends[1-e.idx].closed {
		return 0, io.ErrClosedPipe
	}
	c := append([]byte(nil), b...)
	p.sent[e.idx] = append(p.sent[e.idx], c)
	if p.gated {
		p.pending[1-e.idx] = append(p.pending[1-e.idx], c)
	} else {
		o := p.ends[1-e.idx]
		o.in = append(o.in, c...)
	}
	p.cond.Broadcast()
	return len(b), nil
}

func (e *pipeEnd) SetReadDeadline(time.Time) error  { return nil }
func (e *pipeEnd) SetWriteDeadline(time.Time) error { return nil }
func (e *pipeEnd) SetDeadline(time.Time) error      { return nil }
func (e *pipeEnd) Close() error {
	p := e.p
	p.mtx.Lock()
	e.closed = true
	p.cond.Broadcast()
	p.mtx.Unlock()
	return nil
}

func (e *pipeEnd) isClosed() bool {
	e.p.mtx.Lock()
	defer e.p.mtx.Unlock()
	return e.closed
}

// deliver moves the oldest pending packet towards end i into its read buffer.
func (p *pipe) deliver(i int) bool {
	p.mtx.Lock()
	defer p.mtx.Unlock()
	if len(p.pending[i]) == 0 {
		return false
	}
	p.ends[i].in = append(p.ends[i].in, p.pending[i][0]...)
	p.pending[i] = p.pending[i][1:]
	p.cond.Broadcast()
	return true
}

// readToken reads n bytes with a deadline (engine side only).
func (e *pipeEnd) readToken(n int) ([]byte, error) {
	res := make(chan []byte, 1)
	go func() {
		buf := make([]byte, n)
		if _, err := io.ReadFull(e, buf); err != nil {
			res <- nil
			return
		}
		res <- buf
	}()
	select {
	case b := <-res:
		if b == nil {
			return nil, errors.New("read failed")
		}
		return b, nil
	case <-time.After(waitLimit):
		return nil, errors.New("read timed out")
	}
}

// ---------------------------------------------------------------------------------------------
// fake mounted link / stream

type fakeML struct {
	n             *node
	uuid, tpt     uint64
	rtpt          uint64 // the transport uuid under which the OTHER end mounted the link (0: unknown)
	local, remote peer.ID
	stub          bool // link to the third peer: nobody on the other end
	// open, when set, is OpenMountedStream of this link (hub engine)
	open func(ctx context.Context, f *fakeML, pid protocol.ID) (link.MountedStream, error)
}

func (f *fakeML) GetLinkUUID() uint64            { return f.uuid }
func (f *fakeML) GetTransportUUID() uint64       { return f.tpt }
func (f *fakeML) GetRemoteTransportUUID() uint64 {
	if f.rtpt != 0 {
		return f.rtpt
	}
	return f.tpt + 1000
}
func (f *fakeML) GetLocalPeer() peer.ID          { return f.local }
func (f *fakeML) GetRemotePeer() peer.ID         { return f.remote }
func (f *fakeML) OpenMountedStream(ctx context.Context, pid protocol.ID, o stream.OpenOpts) (link.MountedStream, error) {
	if f.open != nil {
		return f.open(ctx, f, pid)
	}
	return f.n.w.onOpen(ctx, f, pid)
}

type fakeMS struct {
	strm *pipeEnd
	pid  protocol.ID
	ml   link.MountedLink
	peer peer.ID
}

func (m *fakeMS) GetStream() stream.Stream     { return m.strm }
func (m *fakeMS) GetProtocolID() protocol.ID   { return m.pid }
func (m *fakeMS) GetOpenOpts() stream.OpenOpts { return stream.OpenOpts{} }
func (m *fakeMS) GetPeerID() peer.ID           { return m.peer }
func (m *fakeMS) GetLink() link.MountedLink    { return m.ml }

// linkCtrl resolves EstablishLinkWithPeer directives and hands the ResolverHandler to the
// engine, which adds / removes the link value.
type linkCtrl struct {
	mtx sync.Mutex
	rhs map[peer.ID]directive.ResolverHandler
}

func (c *linkCtrl) GetControllerInfo() *controller.Info {
	return controller.NewInfo("verif/solicitsys-links", semver.MustParse("0.0.1"), "emits link values")
}
func (c *linkCtrl) Execute(ctx context.Context) error { return nil }
func (c *linkCtrl) Close() error                      { return nil }
func (c *linkCtrl) HandleDirective(ctx context.Context, di directive.Instance) ([]directive.Resolver, error) {
	d, ok := di.GetDirective().(link.EstablishLinkWithPeer)
	if !ok {
		return nil, nil
	}
	target := d.EstablishLinkTargetPeerId()
	return directive.Resolvers(directive.NewFuncResolver(func(rctx context.Context, rh directive.ResolverHandler) error {
		c.mtx.Lock()
		c.rhs[target] = rh
		c.mtx.Unlock()
		rh.MarkIdle(true)
		<-rctx.Done()
		return nil
	})), nil
}
func (c *linkCtrl) handler(target peer.ID) directive.ResolverHandler {
	c.mtx.Lock()
	defer c.mtx.Unlock()
	return c.rhs[target]
}

// ---------------------------------------------------------------------------------------------
// world

type dirSpec struct {
	pid  string
	ctx  []byte
	peer peer.ID
	tpt  uint64
}

func (d dirSpec) String() string {
	if len(d.pid) > 64 || len(d.ctx) > 64 {
		sh := func(b []byte) string {
			if len(b) <= 64 {
				return fmt.Sprintf("%x", b)
			}
			return fmt.Sprintf("[%d bytes %x…%x]", len(b), b[:4], b[len(b)-4:])
		}
		return fmt.Sprintf("(pid=%s,ctx=%s,peer=%x,tpt=%d)", sh([]byte(d.pid)), sh(d.ctx), []byte(d.peer), d.tpt)
	}
	return fmt.Sprintf("(%q,%x,peer=%x,tpt=%d)", d.pid, d.ctx, []byte(d.peer), d.tpt)
}

type dirState struct {
	id    int
	spec  dirSpec
	di    directive.Instance
	ref   directive.Reference
	early bool // engine's own notion: its hash had never been on this side's wire when it was added
	// late: when the directive was added, a solicited stream for its hash had ALREADY been handed to
	// resolveMatch on this side (opened by this side, or arrived here). Only such a solicitation can
	// be left unmatched by the matched-once rule (known finding solicit-matched-once); every other
	// one is present when the single stream of its hash is resolved.
	late bool
	n     *node
}

type recvEv struct {
	dir int
	val link_solicit.SolicitMountedStream
}

func (d *dirState) HandleValueAdded(_ directive.Instance, v directive.AttachedValue) {
	sv, ok := v.GetValue().(link_solicit.SolicitMountedStream)
	d.n.mtx.Lock()
	if !ok {
		d.n.bad = append(d.n.bad, fmt.Sprintf("directive %d received a value that is not a SolicitMountedStream", d.id))
	} else {
		d.n.recv = append(d.n.recv, recvEv{d.id, sv})
	}
	d.n.mtx.Unlock()
}
func (d *dirState) HandleValueRemoved(directive.Instance, directive.AttachedValue) {}
func (d *dirState) HandleInstanceDisposed(directive.Instance)                      {}

type openReq struct {
	side    int
	pid     protocol.ID
	ml      *fakeML
	release chan *fakeMS
}

type node struct {
	w       *world
	side    int // 0 = A, 1 = B
	name    string
	tb      *testbed.Testbed
	ctrl    *link_solicit_controller.Controller
	lc      *linkCtrl
	ml      *fakeML
	stubML  *fakeML
	linkVal uint32
	maxH    uint32

	mtx     sync.Mutex
	dirs    map[int]*dirState // present
	gone    map[int]*dirState // removed
	nextDir int
	recv    []recvEv
	bad     []string
	// value object -> solicited stream id (learned by accepting the value once)
	valStream map[link_solicit.SolicitMountedStream]int
	valTaken  map[link_solicit.SolicitMountedStream]int // how many accepts returned the stream
	valEnd    map[link_solicit.SolicitMountedStream]*pipeEnd
	accepted  map[[2]any]bool
}

type streamRec struct {
	hash   []byte
	opener int
	p      *pipe // ends[opener] is the opener's end
}

type world struct {
	e    *engine
	ctx  context.Context
	stop context.CancelFunc
	n    [2]*node
	peer [2]peer.ID
	pC   peer.ID
	tpt  [2]uint64
	uuid uint64

	mtx      sync.Mutex
	ctrl     *pipe // control stream; ends[lowerSide] is the opener's end
	ctrlFrom int   // side that opened the control stream (-1: not yet)
	ctrlN    int   // how many control streams were opened on the A-B link
	reqs     []*openReq
	streams  []*streamRec
	arriving [2][]int // stream ids opened towards side i, not yet dispatched
	viol     []string // protocol violations seen by the fake link (wrong opener, …)
	linkGone bool     // the removeLink probe ran: the control stream is closed on purpose
	stubCtrl int
}

func sideName(i int) string { return string(rune('A' + i)) }

// onOpen is OpenMountedStream of a fake link.
func (w *world) onOpen(ctx context.Context, f *fakeML, pid protocol.ID) (link.MountedStream, error) {
	if f.stub {
		w.mtx.Lock()
		if pid == link_solicit_controller.ControlProtocolID {
			w.stubCtrl++
		} else {
			w.viol = append(w.viol, fmt.Sprintf("side %s opened stream %q on the link to the third peer, with which nothing was exchanged", sideName(f.n.side), pid))
		}
		w.mtx.Unlock()
		p := newPipe(false, -1)
		return &fakeMS{strm: p.ends[0], pid: pid, ml: f, peer: f.remote}, nil
	}
	side := f.n.side
	if pid == link_solicit_controller.ControlProtocolID {
		p := newPipe(true, -1)
		w.mtx.Lock()
		w.ctrlN++
		first := w.ctrl == nil
		if first {
			w.ctrl = p
			w.ctrlFrom = side
		}
		w.mtx.Unlock()
		if first {
			other := w.n[1-side]
			go other.dispatch(pid, p.ends[1])
		}
		return &fakeMS{strm: p.ends[0], pid: pid, ml: f, peer: f.remote}, nil
	}
	r := &openReq{side: side, pid: pid, ml: f, release: make(chan *fakeMS, 1)}
	w.mtx.Lock()
	w.reqs = append(w.reqs, r)
	w.mtx.Unlock()
	select {
	case ms := <-r.release:
		return ms, nil
	case <-ctx.Done():
		return nil, ctx.Err()
	case <-w.ctx.Done():
		return nil, w.ctx.Err()
	}
}

// dispatch hands an incoming stream to the node the way transport/controller does: a
// HandleMountedStream directive yields the MountedStreamHandler, which gets the stream.
func (n *node) dispatchOn(pid protocol.ID, end *pipeEnd, ml link.MountedLink) string {
	dir := link.NewHandleMountedStream(pid, ml.GetLocalPeer(), ml.GetRemotePeer())
	hctx, cancel := context.WithTimeout(n.w.ctx, waitLimit)
	val, _, ref, err := bus.ExecOneOff(hctx, n.tb.Bus, dir, nil, nil)
	cancel()
	if err != nil {
		end.Close()
		return "no-handler"
	}
	defer ref.Release()
	h, ok := val.GetValue().(link.MountedStreamHandler)
	if !ok {
		end.Close()
		return "bad-handler"
	}
	ms := &fakeMS{strm: end, pid: pid, ml: ml, peer: ml.GetRemotePeer()}
	if err := h.HandleMountedStream(n.w.ctx, ms); err != nil {
		end.Close()
		return "handler-error"
	}
	return "ok"
}

func (n *node) dispatch(pid protocol.ID, end *pipeEnd) string { return n.dispatchOn(pid, end, n.ml) }

// ---------------------------------------------------------------------------------------------
// engine

type engine struct {
	a   *lib.Args
	rng *lib.Rng
	m   *lib.Model
	rep *lib.Report
	le  *logrus.Entry
	orc map[string][]byte // preimage hex -> digest
}

type cfg struct {
	peers      [2]peer.ID
	pC         peer.ID
	tpt        [2]uint64
	max        [2]uint32
	uuid       uint64
	lateLink   bool // the higher side learns the link from the control stream, not from EstablishLinkWithPeer
	stub       bool // both nodes also have a link to a third peer
	removeLink bool // end with removeLink + unknown-link probe
	ambig      bool // both halves of the separator-ambiguous pair (and the un-split string) on each node
}

// wireCap: how many hashes ONE exchange message can carry — a message is at most maxMessageSize
// bytes and every hash takes 32 bytes plus a 2-byte field header (tag, length).
func wireCap() uint32 { return link_solicit_controller.VerifMaxMessageSize() / 34 }

// effMax: the limit a controller configured with maxHashes = m works with: a list longer than one
// message can carry would be rejected by the peer's reader, so the limit is at most wireCap.
func effMax(m uint32) uint32 {
	if m == 0 {
		m = 256
	}
	if m > wireCap() {
		return wireCap()
	}
	return m
}

func (e *engine) newWorld(c cfg) (*world, error) {
	ctx, cancel := context.WithCancel(context.Background())
	w := &world{e: e, ctx: ctx, stop: cancel, peer: c.peers, pC: c.pC, tpt: c.tpt, uuid: c.uuid, ctrlFrom: -1}
	for i := 0; i < 2; i++ {
		tb, err := testbed.NewTestbed(ctx, e.le, testbed.TestbedOpts{NoPeer: true, NoEcho: true})
		if err != nil {
			cancel()
			return nil, err
		}
		n := &node{w: w, side: i, name: sideName(i), tb: tb, maxH: effMax(c.max[i]), dirs: map[int]*dirState{}, gone: map[int]*dirState{},
			valStream: map[link_solicit.SolicitMountedStream]int{}, valTaken: map[link_solicit.SolicitMountedStream]int{},
			valEnd: map[link_solicit.SolicitMountedStream]*pipeEnd{}, accepted: map[[2]any]bool{}}
		n.ml = &fakeML{n: n, uuid: c.uuid, tpt: c.tpt[i], rtpt: c.tpt[1-i], local: c.peers[i], remote: c.peers[1-i]}
		n.stubML = &fakeML{n: n, uuid: c.uuid + 1 + uint64(i), tpt: c.tpt[i], local: c.peers[i], remote: c.pC, stub: true}
		n.lc = &linkCtrl{rhs: map[peer.ID]directive.ResolverHandler{}}
		if _, err := tb.Bus.AddController(ctx, n.lc, nil); err != nil {
			cancel()
			return nil, err
		}
		ctrl, err := link_solicit_controller.NewController(e.le, &link_solicit_controller.Config{MaxHashes: c.max[i]})
		if err != nil {
			cancel()
			return nil, err
		}
		n.ctrl = ctrl
		if _, err := tb.Bus.AddController(ctx, ctrl, nil); err != nil {
			cancel()
			return nil, err
		}
		w.n[i] = n
	}
	return w, nil
}

func (w *world) close() {
	w.stop()
	for _, n := range w.n {
		if n != nil && n.tb != nil {
			n.tb.Release()
		}
	}
}

// addLinkValue makes the link visible on node n through an EstablishLinkWithPeer directive.
func (n *node) addLinkValue(ml *fakeML) (uint32, error) {
	if _, _, err := n.tb.Bus.AddDirective(link.NewEstablishLinkWithPeer("", ml.remote), nil); err != nil {
		return 0, err
	}
	var rh directive.ResolverHandler
	if !waitUntil(func() bool { rh = n.lc.handler(ml.remote); return rh != nil }) {
		return 0, errors.New("EstablishLinkWithPeer resolver did not start")
	}
	id, ok := rh.AddValue(link.MountedLink(ml))
	if !ok {
		return 0, errors.New("link value refused")
	}
	return id, nil
}

func waitUntil(f func() bool) bool {
	deadline := time.Now().Add(waitLimit)
	for i := 0; ; i++ {
		if f() {
			return true
		}
		if time.Now().After(deadline) {
			return false
		}
		if i < 50 {
			runtime.Gosched()
		} else {
			time.Sleep(50 * time.Microsecond)
		}
	}
}

// decodeExchange decodes one control packet: 4-byte LE length + SolicitationExchange (field 1,
// repeated bytes). Decoded by hand: the monitor does not rely on bifrost code.
func decodeExchange(pkt []byte) ([][]byte, bool) {
	if len(pkt) < 4 || int(binary.LittleEndian.Uint32(pkt)) != len(pkt)-4 {
		return nil, false
	}
	b := pkt[4:]
	var out [][]byte
	for len(b) > 0 {
		if b[0] != 0x0a {
			return nil, false
		}
		l, n := binary.Uvarint(b[1:])
		if n <= 0 || int(l) > len(b)-1-n {
			return nil, false
		}
		out = append(out, append([]byte(nil), b[1+n:1+n+int(l)]...))
		b = b[1+n+int(l):]
	}
	return out, true
}

func hexList(l [][]byte) string { return lib.HexList(l) }

func sortedHexSet(l [][]byte) string {
	c := make([][]byte, len(l))
	copy(c, l)
	sort.Slice(c, func(i, j int) bool { return bytes.Compare(c[i], c[j]) < 0 })
	return hexList(c)
}

func intList(l []int) string {
	if len(l) == 0 {
		return "_"
	}
	s := make([]string, len(l))
	c := append([]int(nil), l...)
	sort.Ints(c)
	for i, x := range c {
		s[i] = fmt.Sprint(x)
	}
	return strings.Join(s, ",")
}

// wireLog returns every list side i has sent on the control stream and the lists still in flight towards i.
func (w *world) wireLog(i int) (sent [][][]byte, inflight [][][]byte, ok bool) {
	w.mtx.Lock()
	p, from := w.ctrl, w.ctrlFrom
	w.mtx.Unlock()
	if p == nil {
		return nil, nil, true
	}
	// end index of side i on the control pipe
	ei := 0
	if from != i {
		ei = 1
	}
	p.mtx.Lock()
	defer p.mtx.Unlock()
	ok = true
	for _, pkt := range p.sent[ei] {
		l, good := decodeExchange(pkt)
		ok = ok && good
		sent = append(sent, l)
	}
	for _, pkt := range p.pending[ei] {
		l, good := decodeExchange(pkt)
		ok = ok && good
		inflight = append(inflight, l)
	}
	return sent, inflight, ok
}

// observe learns which stream each delivered value wraps: every directive that received a value
// calls AcceptMountedStream on it once. Exactly one call per value may return the stream.
func (n *node) observeValues() {
	n.mtx.Lock()
	evs := append([]recvEv(nil), n.recv...)
	n.mtx.Unlock()
	for _, ev := range evs {
		n.mtx.Lock()
		k := [2]any{ev.dir, ev.val}
		done := n.accepted[k]
		n.accepted[k] = true
		n.mtx.Unlock()
		if done {
			continue
		}
		ms, already, err := ev.val.AcceptMountedStream()
		n.mtx.Lock()
		switch {
		case err != nil:
			if _, ok := n.valStream[ev.val]; !ok {
				n.valStream[ev.val] = -2 // errored value
			}
		case already:
		default:
			n.valTaken[ev.val]++
			if ms == nil {
				n.valStream[ev.val] = -3
			} else if pe, ok := ms.GetStream().(*pipeEnd); ok {
				n.valStream[ev.val] = pe.p.id
				n.valEnd[ev.val] = pe
			}
		}
		n.mtx.Unlock()
	}
}
