package main

import (
	"net"
	"sync"
	"time"
)

// ---- in-memory packet network (same construction as engine quictable) ------------------------------

type memAddr string

func (a memAddr) Network() string { return "mem" }
func (a memAddr) String() string  { return string(a) }

type memPkt struct {
	data []byte
	from net.Addr
}

// memConn is one end of an in-memory packet pipe. The address the other end sees as the source
// of its packets is `local` — chosen freely by the engine, so several remote endpoints (with
// different keys) can present the same address string over time.
type memConn struct {
	local   memAddr
	in      chan memPkt
	peer    *memConn
	closed  chan struct{}
	once    sync.Once
	mu      sync.Mutex
	rd      time.Time
	changed chan struct{}
}

func newMemPair(a, b string) (*memConn, *memConn) {
	x := &memConn{local: memAddr(a), in: make(chan memPkt, 256), closed: make(chan struct{}), changed: make(chan struct{})}
	y := &memConn{local: memAddr(b), in: make(chan memPkt, 256), closed: make(chan struct{}), changed: make(chan struct{})}
	x.peer, y.peer = y, x
	return x, y
}

type timeoutErr struct{}

func (timeoutErr) Error() string   { return "i/o timeout" }
func (timeoutErr) Timeout() bool   { return true }
func (timeoutErr) Temporary() bool { return true }

func (c *memConn) ReadFrom(p []byte) (int, net.Addr, error) {
	for {
		c.mu.Lock()
		rd, changed := c.rd, c.changed
		c.mu.Unlock()
		var tm <-chan time.Time
		var t *time.Timer
		if !rd.IsZero() {
			t = time.NewTimer(time.Until(rd))
			tm = t.C
		}
		select {
		case pk := <-c.in:
			if t != nil {
				t.Stop()
			}
			return copy(p, pk.data), pk.from, nil
		case <-c.closed:
			if t != nil {
				t.Stop()
			}
			return 0, nil, net.ErrClosed
		case <-tm:
			return 0, nil, timeoutErr{}
		case <-changed:
			if t != nil {
				t.Stop()
			}
		}
	}
}

func (c *memConn) WriteTo(p []byte, _ net.Addr) (int, error) {
	select {
	case <-c.closed:
		return 0, net.ErrClosed
	default:
	}
	select {
	case c.peer.in <- memPkt{append([]byte(nil), p...), c.local}:
	default: // queue full: drop
	}
	return len(p), nil
}
func (c *memConn) Close() error                       { c.once.Do(func() { close(c.closed) }); return nil }
func (c *memConn) LocalAddr() net.Addr                { return c.local }
func (c *memConn) SetDeadline(t time.Time) error      { return c.SetReadDeadline(t) }
func (c *memConn) SetWriteDeadline(t time.Time) error { return nil }
func (c *memConn) SetReadDeadline(t time.Time) error {
	c.mu.Lock()
	c.rd = t
	close(c.changed)
	c.changed = make(chan struct{})
	c.mu.Unlock()
	return nil
}
