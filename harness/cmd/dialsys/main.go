// Command dialsys is the correspondence engine for the system half of C05: it drives the REAL
// dialing subsystem of one transport — transport_controller.Controller (DialPeerAddr, DialTptAddr
// and EstablishLinkWithPeer resolvers, link dialers, flushEstablishedLink) on top of the real
// transport_quic.Transport (DialPeer, Dialer, HandleSession, handleLinkLost) with real QUIC/TLS
// handshakes over an in-memory packet network — and validates every history against the Lean LTS
// Bifrost.DialSys.
//
// The environment is the engine: every dial attempt of the transport (`dialFn`) parks until the
// engine decides who answers at that address (the intended peer, an impostor with another key,
// or nobody); several remote endpoints can present the same address string over time; sessions
// are killed from the remote side. The asynchronous bodies are scheduled by the engine:
// `go HandleLinkEstablished` / `HandleLinkLost` through a gate wrapped around the controller's
// handler, `go handleLinkLost` at the verif gate "quic.lost.enter", and the link dialer's
// `l.lnk.SetValue(lnk)` at the verif store gate. Every engine action and every gate release is a
// token of the history; the Lean driver replays the history (every observed event must be an
// enabled transition; `settle` = the un-gated routine steps to their fixpoint) and the settled
// state of the model — containers per key, `t.dialers`, address table, controller tables, what
// every caller got — is compared with the real one. Model-independent monitors state the
// clauses of the property on the real observations alone.
package main

import (
	"context"
	"encoding/hex"
	"errors"
	"fmt"
	"io"
	"net"
	"os"
	"sort"
	"strconv"
	"strings"
	"sync"
	"sync/atomic"
	"time"

	"github.com/aperturerobotics/bifrost/crypto"
	"github.com/aperturerobotics/bifrost/link"
	"github.com/aperturerobotics/bifrost/peer"
	"github.com/aperturerobotics/bifrost/testbed"
	"github.com/aperturerobotics/bifrost/tptaddr"
	"github.com/aperturerobotics/bifrost/transport"
	"github.com/aperturerobotics/bifrost/transport/common/dialer"
	transport_quic "github.com/aperturerobotics/bifrost/transport/common/quic"
	transport_controller "github.com/aperturerobotics/bifrost/transport/controller"
	"github.com/aperturerobotics/controllerbus/bus"
	"github.com/aperturerobotics/controllerbus/controller"
	"github.com/aperturerobotics/controllerbus/directive"
	"github.com/aperturerobotics/util/backoff"
	"github.com/blang/semver/v4"
	"github.com/quic-go/quic-go"
	"github.com/sirupsen/logrus"

	"verif/harness/lib"
	"verif/harness/quiet"
)

const backoffMs = 4

func fastBackoff() *backoff.Backoff {
	return &backoff.Backoff{BackoffKind: backoff.BackoffKind_BackoffKind_CONSTANT, Constant: &backoff.Constant{Interval: backoffMs}}
}

type nullHandler struct{}

func (nullHandler) HandleLinkEstablished(link.Link) {}
func (nullHandler) HandleLinkLost(link.Link)        {}

// dialTpt is the transport under test: the real transport_quic.Transport plus the two
// configuration methods of dialer.TransportDialer (as transport/common/pconn adds them).
type dialTpt struct {
	*transport_quic.Transport
	h *hist
}

func (t *dialTpt) MatchTransportType(tt string) bool { return tt == "mem" }
func (t *dialTpt) GetPeerDialer(ctx context.Context, p peer.ID) (*dialer.DialerOpts, error) {
	t.h.mu.Lock()
	defer t.h.mu.Unlock()
	if a, ok := t.h.peerMap[p]; ok {
		return &dialer.DialerOpts{Address: a, Backoff: t.h.bo()}, nil
	}
	return nil, nil
}

type engine struct {
	a     *lib.Args
	rng   *lib.Rng
	m     *lib.Model
	rep   *lib.Report
	le    *logrus.Entry
	cur   atomic.Pointer[hist]
	nh    int
	stuck atomic.Bool
}

func (e *engine) patience() time.Duration {
	if e.stuck.Load() {
		return 1200 * time.Millisecond
	}
	return 8 * time.Second
}

// attempt is one call of the transport's dialFn, parked until the engine answers it.
type attempt struct {
	addr string
	ch   chan int // who answers (0 = nobody)
	done bool
}

// call is one DialPeerAddr call or one DialTptAddr directive issued by the engine.
type call struct {
	id     int
	tpt    bool
	x      int // requested peer (model number)
	a      int // address number
	cancel context.CancelFunc
	done   bool
	res    string // "link:<id>" | "err"
	lnk    link.Link
	expect bool         // tpt: the property says a value must be possible
	deadAt map[int]bool // links that were closed AND whose loss the controller had processed, at start
}

type storeKey struct {
	p peer.ID
	a string
}

type hist struct {
	e      *engine
	gen    string
	ctx    context.Context
	cancel context.CancelFunc
	tb     *testbed.Testbed
	ctrl   *transport_controller.Controller
	lt     *transport_quic.Transport
	inner  transport.TransportHandler
	remote map[int]*transport_quic.Transport
	peerNo map[peer.ID]int
	peerID map[int]peer.ID

	mu      sync.Mutex
	cond    *sync.Cond
	dead    bool
	peerMap map[peer.ID]string
	addrNo  map[string]int
	// links by id (creation order = order of the "quic.session" gate events)
	links   []*transport_quic.Link
	idOf    map[*transport_quic.Link]int
	addrOfL []int
	peerOfL []int
	rlinks  map[int]*transport_quic.Link
	pendRem []*remoteEnd // remote ends of handshakes whose local link id is not known yet
	closeQ  []int        // "quic.close" events not yet turned into tokens
	// gates
	estGate, lostGate, clostGate map[int]chan struct{}
	estDone, clostDone, lostEv   map[int]bool
	closedEv, killed             map[int]bool
	storeGate                    map[storeKey]chan struct{}
	storeDone                    map[storeKey]int
	attempts                     map[string][]*attempt // per address, in arrival order
	nsess                        int
	calls                        []*call
	boCfg                        func() *backoff.Backoff // the backoff of the dialer options this history uses (nil: fastBackoff)
	ctorGate                     chan struct{}           // non-nil: the transport constructor parks here (the start-up window of the controller)
	ctorAt                       chan struct{}           // closed when the constructor has built the transport
	holds                        map[int]directive.Reference
	holdVals                     map[int]map[uint32]link.MountedLink // per held peer: the values the directive currently has
	holdEvs                      int
	holdBad                      string // a value that is not a link local -> X was handed to a hold
	asyncBad                     string
	conns                        []*memConn
	ctrlMu                       sync.Mutex
	// engine-side record for the monitors
	lateReal    map[int]bool // HandleLinkLost ran before HandleLinkEstablished for the same link
	flushedReal map[int]bool // the controller replaced the (established) link by a newer one with the same address and peer
	storeStale  map[int]bool // SetValue(link) ran after the controller had processed the loss / the replacement of the link

	// model side
	toks  []string
	model string
	bad   string
	steps []string
}

type remoteEnd struct {
	addr string
	ch   chan *transport_quic.Link
}

func (h *hist) note(s string) { h.steps = append(h.steps, s) }

func (h *hist) bo() *backoff.Backoff {
	if h.boCfg != nil {
		return h.boCfg()
	}
	return fastBackoff()
}

// addrName is the address string of address number a. Numbers >= 100 are symbolic NAMES: the dial
// address "mem-hN-name-10k" resolves (in dialFn) to the remote address "mem-hN-addr-k", so the
// string the transport keys t.dialers with differs from the one it keys t.links with.
func addrName(nh, a int) string {
	if a >= 100 {
		return fmt.Sprintf("mem-h%d-name-%d", nh, a)
	}
	return fmt.Sprintf("mem-h%d-addr-%d", nh, a)
}

// resolveAddr is the address resolution of the in-memory network.
func resolveAddr(nh int, as string) string {
	for k := 1; k <= 3; k++ {
		if as == addrName(nh, 100+k) {
			return addrName(nh, k)
		}
	}
	return as
}

func newKey() crypto.PrivKey {
	p, err := peer.NewPeer(nil)
	if err != nil {
		panic(err)
	}
	k, err := p.GetPrivKey(context.Background())
	if err != nil {
		panic(err)
	}
	return k
}

// ---- gates ----------------------------------------------------------------------------------------------

func (e *engine) quicGate(point string, t *transport_quic.Transport, addr string, lnk *transport_quic.Link, rel bool) {
	h := e.cur.Load()
	if h == nil {
		return
	}
	switch point {
	case "quic.session":
		if t != h.lt {
			return
		}
		h.mu.Lock()
		id := len(h.links)
		h.links = append(h.links, lnk)
		h.idOf[lnk] = id
		h.addrOfL = append(h.addrOfL, h.addrNo[addr])
		h.peerOfL = append(h.peerOfL, h.peerNo[lnk.GetRemotePeer()])
		// pair with the remote end of the handshake at this address
		for i, re := range h.pendRem {
			if re.addr == addr {
				h.pendRem = append(h.pendRem[:i], h.pendRem[i+1:]...)
				go func(ch chan *transport_quic.Link) {
					select {
					case rl := <-ch:
						h.mu.Lock()
						h.rlinks[id] = rl
						h.cond.Broadcast()
						h.mu.Unlock()
					case <-h.ctx.Done():
					}
				}(re.ch)
				break
			}
		}
		h.cond.Broadcast()
		h.mu.Unlock()
	case "quic.close":
		h.mu.Lock()
		if id, ok := h.idOf[lnk]; ok && !h.dead {
			if h.closedEv[id] {
				h.asyncBad = fmt.Sprintf("the closedOnce body of link %d ran twice", id)
			}
			h.closedEv[id] = true
			h.closeQ = append(h.closeQ, id)
			h.cond.Broadcast()
		}
		h.mu.Unlock()
	case "quic.lost.enter":
		if t != h.lt {
			return
		}
		h.mu.Lock()
		id, ok := h.idOf[lnk]
		if !ok || h.dead {
			h.mu.Unlock()
			return
		}
		ch := make(chan struct{})
		h.lostGate[id] = ch
		h.cond.Broadcast()
		h.mu.Unlock()
		select {
		case <-ch:
		case <-h.ctx.Done():
		}
	case "quic.lost":
		if t != h.lt {
			return
		}
		h.mu.Lock()
		if id, ok := h.idOf[lnk]; ok && !h.dead {
			h.lostEv[id] = true
			h.cond.Broadcast()
		}
		h.mu.Unlock()
	}
}

// storeGateFn is the verif gate of the link dialer routine, before l.lnk.SetValue(lnk).
func (e *engine) storeGateFn(c *transport_controller.Controller, p peer.ID, addr string, lnk link.Link) {
	h := e.cur.Load()
	if h == nil || c != h.ctrl {
		return
	}
	k := storeKey{p, addr}
	h.mu.Lock()
	if h.dead {
		h.mu.Unlock()
		return
	}
	ch := make(chan struct{})
	h.storeGate[k] = ch
	h.cond.Broadcast()
	h.mu.Unlock()
	select {
	case <-ch:
	case <-h.ctx.Done():
		return
	}
	h.mu.Lock()
	if ql, ok := lnk.(*transport_quic.Link); ok && ql != nil {
		if id, ok := h.idOf[ql]; ok && (h.clostDone[id] || h.flushedReal[id]) {
			h.storeStale[id] = true
		}
	}
	h.storeDone[k]++
	h.cond.Broadcast()
	h.mu.Unlock()
}

// gateHandler wraps the controller's TransportHandler: every call parks until the engine releases it.
type gateHandler struct{ h *hist }

func (g *gateHandler) park(m map[int]chan struct{}, l link.Link) (int, bool) {
	h := g.h
	ql, ok := l.(*transport_quic.Link)
	if !ok {
		return 0, false
	}
	h.mu.Lock()
	id, ok := h.idOf[ql]
	if !ok || h.dead {
		h.mu.Unlock()
		return 0, false
	}
	ch := make(chan struct{})
	m[id] = ch
	h.cond.Broadcast()
	h.mu.Unlock()
	select {
	case <-ch:
	case <-h.ctx.Done():
		return id, false
	}
	return id, true
}

func (g *gateHandler) section(kind string, id int, call func()) {
	h := g.h
	h.ctrlMu.Lock()
	defer h.ctrlMu.Unlock()
	h.mu.Lock()
	if h.dead {
		h.mu.Unlock()
		return
	}
	if kind == "est" {
		if h.clostDone[id] {
			h.lateReal[id] = true
		}
		// the controller replaces (flushes) an established link with the same address and peer
		for i := range h.links {
			if i != id && h.estDone[i] && !h.clostDone[i] && h.addrOfL[i] == h.addrOfL[id] && h.peerOfL[i] == h.peerOfL[id] {
				h.flushedReal[i] = true
			}
		}
	}
	if kind == "clost" && !h.estDone[id] {
		// the loss is processed before the establishment: whenever that comes, it comes late
		h.lateReal[id] = true
	}
	h.mu.Unlock()
	n := transport_controller.VerifOpsDone()
	call()
	deadline := time.Now().Add(h.e.patience())
	for transport_controller.VerifOpsDone() <= n && time.Now().Before(deadline) {
		time.Sleep(20 * time.Microsecond)
	}
	h.mu.Lock()
	if kind == "est" {
		h.estDone[id] = true
	} else {
		h.clostDone[id] = true
	}
	h.cond.Broadcast()
	h.mu.Unlock()
}

func (g *gateHandler) HandleLinkEstablished(l link.Link) {
	id, ok := g.park(g.h.estGate, l)
	if !ok {
		return
	}
	g.section("est", id, func() { g.h.inner.HandleLinkEstablished(l) })
}

func (g *gateHandler) HandleLinkLost(l link.Link) {
	id, ok := g.park(g.h.clostGate, l)
	if !ok {
		return
	}
	g.section("clost", id, func() { g.h.inner.HandleLinkLost(l) })
}

// dialFn is the DialFunc of the transport under test: the attempt parks until the engine says who
// answers; then a real QUIC/TLS handshake with that endpoint runs over a fresh in-memory pipe on
// which the remote end presents the dialed address.
func (h *hist) dialFn(ctx context.Context, as string) (*quic.Conn, net.Addr, error) {
	at := &attempt{addr: as, ch: make(chan int, 1)}
	h.mu.Lock()
	if h.dead {
		h.mu.Unlock()
		return nil, nil, errors.New("mem: history over")
	}
	h.attempts[as] = append(h.attempts[as], at)
	h.nsess++
	n := h.nsess
	h.cond.Broadcast()
	h.mu.Unlock()
	var who int
	select {
	case who = <-at.ch:
	case <-ctx.Done():
		return nil, nil, ctx.Err()
	case <-h.ctx.Done():
		return nil, nil, h.ctx.Err()
	}
	if who == 0 {
		return nil, nil, errors.New("mem: nobody answers at " + as)
	}
	// the dial address is resolved (a name to an address); the remote end presents the resolved address
	ra := resolveAddr(h.e.nh, as)
	lc, rc := newMemPair(fmt.Sprintf("mem-h%d-local-%d", h.e.nh, n), ra)
	re := &remoteEnd{addr: ra, ch: make(chan *transport_quic.Link, 1)}
	h.mu.Lock()
	h.conns = append(h.conns, lc, rc)
	h.pendRem = append(h.pendRem, re)
	h.mu.Unlock()
	hctx, hcancel := context.WithTimeout(h.ctx, 20*time.Second)
	go func() {
		defer hcancel()
		l, _ := h.remote[who].HandleConn(hctx, false, rc, lc.LocalAddr(), "")
		re.ch <- l
	}()
	sess, _, err := transport_quic.DialSession(ctx, h.e.le, &transport_quic.Opts{}, lc, h.lt.GetIdentity(), memAddr(ra), "")
	if err != nil {
		return nil, nil, err
	}
	return sess, memAddr(ra), nil
}

// ---- one history ------------------------------------------------------------------------------------------

func (e *engine) newHist(gen string) *hist { return e.newHistEarly(gen, false) }

// newHistEarly: with early, the transport constructor parks until releaseCtor — directives issued in
// between meet a controller without a transport (resolveDialTptAddr cannot skip; the checks of
// dialTptAddrResolver.Resolve itself decide once the transport exists).
func (e *engine) newHistEarly(gen string, early bool) *hist {
	ctx, cancel := context.WithCancel(context.Background())
	tb, err := testbed.NewTestbed(ctx, e.le, testbed.TestbedOpts{NoEcho: true})
	if err != nil {
		panic(err)
	}
	h := &hist{e: e, gen: gen, ctx: ctx, cancel: cancel, tb: tb,
		remote: map[int]*transport_quic.Transport{}, peerNo: map[peer.ID]int{}, peerID: map[int]peer.ID{},
		peerMap: map[peer.ID]string{}, addrNo: map[string]int{}, idOf: map[*transport_quic.Link]int{},
		rlinks:  map[int]*transport_quic.Link{},
		estGate: map[int]chan struct{}{}, lostGate: map[int]chan struct{}{}, clostGate: map[int]chan struct{}{},
		estDone: map[int]bool{}, clostDone: map[int]bool{}, lostEv: map[int]bool{}, closedEv: map[int]bool{}, killed: map[int]bool{},
		storeGate: map[storeKey]chan struct{}{}, storeDone: map[storeKey]int{}, attempts: map[string][]*attempt{},
		holds: map[int]directive.Reference{}, holdVals: map[int]map[uint32]link.MountedLink{}, lateReal: map[int]bool{}, flushedReal: map[int]bool{}, storeStale: map[int]bool{}}
	h.cond = sync.NewCond(&h.mu)
	h.ctorAt = make(chan struct{})
	if early {
		h.ctorGate = make(chan struct{})
	}
	e.nh++
	for a := 1; a <= 3; a++ {
		h.addrNo[addrName(e.nh, a)] = a
		h.addrNo[addrName(e.nh, 100+a)] = 100 + a
	}
	h.peerNo[tb.PeerID], h.peerID[1] = 1, tb.PeerID
	// remote endpoints 2..4 have their own keys; endpoint 1 presents the LOCAL key (a self-dial)
	for p := 1; p <= 4; p++ {
		key := tb.PrivKey
		if p != 1 {
			key = newKey()
		}
		rt, err := transport_quic.NewTransport(ctx, e.le, 0, nil, key, nullHandler{}, &transport_quic.Opts{}, nil)
		if err != nil {
			panic(err)
		}
		h.remote[p] = rt
		if p != 1 {
			h.peerNo[rt.GetPeerID()], h.peerID[p] = p, rt.GetPeerID()
		}
	}
	e.cur.Store(h)
	ctor := func(cctx context.Context, le *logrus.Entry, pkey crypto.PrivKey, hd transport.TransportHandler) (transport.Transport, error) {
		h.inner = hd
		lt, err := transport_quic.NewTransport(cctx, le, 0, nil, pkey, &gateHandler{h: h}, &transport_quic.Opts{}, h.dialFn)
		if err != nil {
			return nil, err
		}
		h.lt = lt
		close(h.ctorAt)
		if h.ctorGate != nil {
			select {
			case <-h.ctorGate:
			case <-cctx.Done():
				return nil, cctx.Err()
			}
		}
		return &dialTpt{Transport: lt, h: h}, nil
	}
	info := controller.NewInfo("verif/dial-transport", semver.MustParse("0.0.1"), "quic transport under test")
	h.ctrl = transport_controller.NewController(e.le, tb.Bus, info, tb.PeerID, false, ctor)
	go func() { _ = tb.Bus.ExecuteController(ctx, h.ctrl) }()
	if early {
		select {
		case <-h.ctorAt:
		case <-time.After(30 * time.Second):
			panic("controller did not call the transport constructor")
		}
		h.query()
		return h
	}
	h.awaitTransport()
	h.query()
	return h
}

func (h *hist) awaitTransport() {
	gctx, gcancel := context.WithTimeout(h.ctx, 30*time.Second)
	defer gcancel()
	if _, err := h.ctrl.GetTransport(gctx); err != nil {
		panic("controller did not construct the transport: " + err.Error())
	}
}

// releaseCtor ends the start-up window: the constructor returns, Execute publishes the transport.
func (h *hist) releaseCtor() {
	if h.ctorGate != nil {
		close(h.ctorGate)
		h.ctorGate = nil
		h.awaitTransport()
	}
}

// busIdle waits (bounded) until the scheduler reports no runnable goroutine: what was handed to the
// bus has been processed as far as it can be.
func (h *hist) busIdle() {
	quiet.Settle(func() int {
		h.mu.Lock()
		defer h.mu.Unlock()
		return h.nsess
	}, 300*time.Microsecond, 4, 150*time.Millisecond)
}

func (h *hist) fail(s string) {
	if h.bad == "" {
		h.bad = s
	}
}

func (h *hist) waitLocked() {
	t := time.AfterFunc(2*time.Millisecond, func() { h.mu.Lock(); h.cond.Broadcast(); h.mu.Unlock() })
	h.cond.Wait()
	t.Stop()
}

func (h *hist) query() {
	ops := "_"
	if len(h.toks) > 0 {
		ops = strings.Join(h.toks, ",")
	}
	h.model = h.e.m.Query("dialsys.run ops=" + ops)
	if strings.HasPrefix(h.model, "disabled") && h.bad == "" {
		h.bad = "history of the real code is not a run of the model: event #" + lib.KV(h.model, "k") + " (" + h.toks[len(h.toks)-1] + ") is not an enabled transition (" + lib.KV(h.model, "why") + ")"
	}
}

func (h *hist) push(tok string) {
	h.toks = append(h.toks, tok)
	h.query()
}

func parseIDs(s string) []int {
	if s == "_" || s == "" {
		return nil
	}
	var out []int
	for _, t := range strings.Split(s, ",") {
		n, err := strconv.Atoi(t)
		if err != nil {
			panic("bad id list from model: " + s)
		}
		out = append(out, n)
	}
	return out
}

func has(l []int, x int) bool {
	for _, y := range l {
		if y == x {
			return true
		}
	}
	return false
}

func idsStr(m map[int]bool) string {
	var l []int
	for k, v := range m {
		if v {
			l = append(l, k)
		}
	}
	sort.Ints(l)
	if len(l) == 0 {
		return "_"
	}
	s := make([]string, len(l))
	for i := range l {
		s[i] = strconv.Itoa(l[i])
	}
	return strings.Join(s, ",")
}

func joinOr(sep string, l []string) string {
	if len(l) == 0 {
		return "_"
	}
	return strings.Join(l, sep)
}

// mDialer is one entry of the model's dl=<id>:<addr>:<peer>:<state>;… list.
type mDialer struct {
	id, addr, peer int
	state          string
}

func (h *hist) modelDialers() []mDialer {
	var out []mDialer
	s := lib.KV(h.model, "dl")
	if s == "_" || s == "" {
		return nil
	}
	for _, t := range strings.Split(s, ";") {
		f := strings.Split(t, ":")
		id, _ := strconv.Atoi(f[0])
		a, _ := strconv.Atoi(f[1])
		p, _ := strconv.Atoi(f[2])
		out = append(out, mDialer{id, a, p, f[3]})
	}
	return out
}

// attemptOf maps a model dialer id to the real attempt: the k-th dialer created at an address is
// the k-th dialFn call for that address.
func (h *hist) attemptOf(d int) *attempt {
	ds := h.modelDialers()
	var md *mDialer
	for i := range ds {
		if ds[i].id == d {
			md = &ds[i]
		}
	}
	if md == nil {
		return nil
	}
	k := 0
	for _, x := range ds {
		if x.addr == md.addr && x.id < d {
			k++
		}
	}
	as := addrName(h.e.nh, md.addr)
	h.mu.Lock()
	defer h.mu.Unlock()
	if k < len(h.attempts[as]) {
		return h.attempts[as][k]
	}
	return nil
}

// ---- observation of the real system -------------------------------------------------------------------------

type obs struct {
	lds     string // x:a:lnk;…
	dm      string // a:peer,…
	table   string
	links   string
	res     string
	closed  map[int]bool
	ldLinks map[[2]int]link.Link
}

func (h *hist) observe() obs {
	var o obs
	o.ldLinks = map[[2]int]link.Link{}
	type ent struct {
		x, a int
		l    string
	}
	var es []ent
	for _, ld := range h.ctrl.VerifLinkDialers() {
		h.mu.Lock()
		x, a := h.peerNo[ld.PeerID], h.addrNo[ld.Addr]
		l := "-"
		if ld.Link != nil {
			l = "?"
			if ql, ok := ld.Link.(*transport_quic.Link); ok && ql != nil {
				if id, ok := h.idOf[ql]; ok {
					l = strconv.Itoa(id)
				}
			}
			o.ldLinks[[2]int{x, a}] = ld.Link
		}
		h.mu.Unlock()
		es = append(es, ent{x, a, l})
	}
	sort.Slice(es, func(i, j int) bool { return es[i].x < es[j].x || (es[i].x == es[j].x && es[i].a < es[j].a) })
	var ls []string
	for _, e := range es {
		ls = append(ls, fmt.Sprintf("%d:%d:%s", e.x, e.a, e.l))
	}
	o.lds = joinOr(";", ls)
	dm := h.lt.VerifSnapshotDialers()
	tbl := h.lt.VerifSnapshotLinks()
	byUUID, _ := h.ctrl.VerifSnapshot()
	h.mu.Lock()
	defer h.mu.Unlock()
	var ds []string
	var das []int
	dmp := map[int]int{}
	for as, d := range dm {
		dmp[h.addrNo[as]] = h.peerNo[d.PeerID]
		das = append(das, h.addrNo[as])
	}
	sort.Ints(das)
	for _, a := range das {
		ds = append(ds, fmt.Sprintf("%d:%d", a, dmp[a]))
	}
	o.dm = joinOr(",", ds)
	var ts []string
	var tas []int
	tb := map[int]int{}
	for as, l := range tbl {
		tb[h.addrNo[as]] = h.idOf[l]
		tas = append(tas, h.addrNo[as])
	}
	sort.Ints(tas)
	for _, a := range tas {
		ts = append(ts, fmt.Sprintf("%d:%d", a, tb[a]))
	}
	o.table = joinOr(",", ts)
	live := map[int]bool{}
	for _, l := range byUUID {
		if ql, ok := l.(*transport_quic.Link); ok {
			live[h.idOf[ql]] = true
		}
	}
	o.links = idsStr(live)
	var rs []string
	for _, c := range h.calls {
		if c.done && strings.HasPrefix(c.res, "link:") {
			rs = append(rs, fmt.Sprintf("%d:%s", c.id, c.res[5:]))
		}
	}
	o.res = joinOr(",", rs)
	o.closed = map[int]bool{}
	for id := range h.closedEv {
		o.closed[id] = true
	}
	return o
}

// modelObs renders the same observation from the model's state line.
func (h *hist) modelObs() (lds, dm, table, links, res string) {
	var ls []string
	if s := lib.KV(h.model, "lds"); s != "_" && s != "" {
		for _, t := range strings.Split(s, ";") {
			f := strings.Split(t, ":")
			ls = append(ls, fmt.Sprintf("%s:%s:%s", f[0], f[1], f[3]))
		}
	}
	var ds []string
	if s := lib.KV(h.model, "dm"); s != "_" && s != "" {
		for _, t := range strings.Split(s, ",") {
			f := strings.Split(t, ":")
			ds = append(ds, fmt.Sprintf("%s:%s", f[0], f[2]))
		}
	}
	return joinOr(";", ls), joinOr(",", ds), lib.KV(h.model, "table"), lib.KV(h.model, "links"), lib.KV(h.model, "res")
}

// missing reports what the model expects to be parked at a gate and is not (yet).
func (h *hist) missing() string {
	h.mu.Lock()
	defer h.mu.Unlock()
	// pending dial attempts: the number of pending dialers per address = the number of parked attempts
	need := map[int]int{}
	for _, d := range h.modelDialers() {
		if d.state == "p" {
			need[d.addr]++
		}
	}
	for a, n := range need {
		k := 0
		for _, at := range h.attempts[addrName(h.e.nh, a)] {
			if !at.done {
				k++
			}
		}
		if k < n {
			return fmt.Sprintf("the model has %d pending dial attempt(s) at address %d but only %d dialFn call(s) are parked", n, a, k)
		}
	}
	if s := lib.KV(h.model, "gs"); s != "_" && s != "" {
		for _, t := range strings.Split(s, ";") {
			f := strings.Split(t, ":")
			x, _ := strconv.Atoi(f[0])
			a, _ := strconv.Atoi(f[1])
			if h.storeGate[storeKey{h.peerID[x], addrName(h.e.nh, a)}] == nil {
				return fmt.Sprintf("the routine of key (%d,%d) should be about to store a link but has not arrived at the store gate", x, a)
			}
		}
	}
	for _, id := range parseIDs(lib.KV(h.model, "pe")) {
		if h.estGate[id] == nil {
			return fmt.Sprintf("link %d was registered but HandleLinkEstablished was never called for it", id)
		}
	}
	for _, id := range parseIDs(lib.KV(h.model, "pl")) {
		if h.lostGate[id] == nil {
			return fmt.Sprintf("link %d was closed but handleLinkLost was never started for it", id)
		}
	}
	for _, id := range parseIDs(lib.KV(h.model, "pcl")) {
		if h.clostGate[id] == nil {
			return fmt.Sprintf("handleLinkLost ran for link %d but HandleLinkLost was never called for it", id)
		}
	}
	for _, id := range parseIDs(lib.KV(h.model, "pc")) {
		if !h.closedEv[id] {
			return fmt.Sprintf("Close() of link %d was requested but its closedOnce body never ran", id)
		}
	}
	for id := range h.killed {
		if !h.closedEv[id] {
			return fmt.Sprintf("the session of link %d was killed by the remote side but the link was never closed", id)
		}
	}
	return ""
}

// drainCloses turns recorded closedOnce events into model transitions (rc if the model has the
// Close() pending, cl otherwise) and lets invisible Close() calls on closed links run in the model.
func (h *hist) drainCloses() {
	for h.bad == "" {
		h.mu.Lock()
		q := h.closeQ
		h.closeQ = nil
		if h.asyncBad != "" && h.bad == "" {
			h.bad = h.asyncBad
		}
		h.mu.Unlock()
		for _, id := range q {
			if h.bad != "" {
				break
			}
			if has(parseIDs(lib.KV(h.model, "pc")), id) {
				h.push(fmt.Sprintf("rc:%d", id))
			} else {
				h.push(fmt.Sprintf("cl:%d", id))
			}
		}
		progressed := len(q) > 0
		closed := parseIDs(lib.KV(h.model, "closed"))
		for _, id := range parseIDs(lib.KV(h.model, "pc")) {
			if has(closed, id) {
				h.push(fmt.Sprintf("rc:%d", id))
				progressed = true
				break
			}
		}
		if !progressed {
			return
		}
	}
}

// closesPending: a closedOnce event is waiting to be turned into a token, or the model has a
// Close() pending on a closed link (which runs invisibly).
func (h *hist) closesPending() bool {
	h.mu.Lock()
	n := len(h.closeQ)
	h.mu.Unlock()
	if n > 0 {
		return true
	}
	closed := parseIDs(lib.KV(h.model, "closed"))
	for _, id := range parseIDs(lib.KV(h.model, "pc")) {
		if has(closed, id) {
			return true
		}
	}
	return false
}

// settle: the model runs the un-gated routine steps to their fixpoint; the real system must reach
// the same settled state (and stay there).
func (h *hist) settle() {
	if h.bad != "" {
		return
	}
	h.drainCloses()
	if h.bad != "" {
		return
	}
	h.push("settle")
	deadline := time.Now().Add(h.e.patience())
	agreeSince := time.Time{}
	for h.bad == "" {
		if h.closesPending() {
			// closedOnce events that arrive while settling come before the settle token
			h.toks = h.toks[:len(h.toks)-1]
			h.query()
			h.drainCloses()
			if h.bad != "" {
				return
			}
			h.push("settle")
		}
		o := h.observe()
		// which key created the dialer occupying an address is a race between routines: take it from
		// the real t.dialers and hand it to the model as the priority order of the routine steps
		_, mdm, _, _, _ := h.modelObs()
		if o.dm != mdm && o.dm != "_" {
			var pri []string
			for _, t := range strings.Split(o.dm, ",") {
				f := strings.Split(t, ":")
				pri = append(pri, f[1]+"."+f[0])
			}
			h.toks[len(h.toks)-1] = "settle:" + strings.Join(pri, ";")
			h.query()
			if h.bad != "" {
				return
			}
		}
		mlds, mdm, mtable, mlinks, mres := h.modelObs()
		miss := h.missing()
		if o.lds == mlds && o.dm == mdm && o.table == mtable && o.links == mlinks && o.res == mres && miss == "" {
			if agreeSince.IsZero() {
				agreeSince = time.Now()
			} else if time.Since(agreeSince) > 4*backoffMs*time.Millisecond {
				return
			}
		} else {
			agreeSince = time.Time{}
		}
		if time.Now().After(deadline) {
			h.e.stuck.Store(true)
			what := miss
			if what == "" {
				what = fmt.Sprintf("real lds=%s dm=%s table=%s links=%s res=%s / model lds=%s dm=%s table=%s links=%s res=%s", o.lds, o.dm, o.table, o.links, o.res, mlds, mdm, mtable, mlinks, mres)
			}
			h.fail("the real system did not reach the model's settled state: " + what)
			return
		}
		time.Sleep(400 * time.Microsecond)
	}
}

// ---- environment actions -------------------------------------------------------------------------------------

func (h *hist) newCall(c *call) {
	h.mu.Lock()
	c.id = len(h.calls)
	h.calls = append(h.calls, c)
	c.deadAt = map[int]bool{}
	for id := range h.closedEv {
		if h.clostDone[id] {
			c.deadAt[id] = true
		}
	}
	h.mu.Unlock()
}

func (h *hist) finishCall(c *call, lnk link.Link, err error) {
	h.mu.Lock()
	c.done = true
	if err != nil || lnk == nil {
		c.res = "err"
	} else {
		c.lnk = lnk
		c.res = "link:?"
		if ql, ok := lnk.(*transport_quic.Link); ok {
			if id, ok := h.idOf[ql]; ok {
				c.res = fmt.Sprintf("link:%d", id)
			}
		}
	}
	h.cond.Broadcast()
	h.mu.Unlock()
}

// waitKey waits until the link dialer key (x, a) is registered.
func (h *hist) waitKey(x, a int) {
	deadline := time.Now().Add(h.e.patience())
	for time.Now().Before(deadline) {
		for _, ld := range h.ctrl.VerifLinkDialers() {
			if ld.PeerID == h.peerID[x] && ld.Addr == addrName(h.e.nh, a) {
				return
			}
		}
		time.Sleep(200 * time.Microsecond)
	}
}

// dial starts Controller.DialPeerAddr(X, addr a) in a goroutine.
func (h *hist) dial(x, a int) *call {
	c := &call{x: x, a: a}
	if h.bad != "" {
		return c
	}
	h.newCall(c)
	var cctx context.Context
	cctx, c.cancel = context.WithCancel(h.ctx)
	h.note(fmt.Sprintf("call%d=DialPeerAddr(peer %d, addr %d)", c.id, x, a))
	go func() {
		lnk, err := h.ctrl.DialPeerAddr(cctx, h.peerID[x], &dialer.DialerOpts{Address: addrName(h.e.nh, a), Backoff: h.bo()})
		h.finishCall(c, lnk, err)
	}()
	// the reference must have been taken before the history goes on (or the call has returned already)
	deadline := time.Now().Add(h.e.patience())
	for time.Now().Before(deadline) {
		found := false
		for _, ld := range h.ctrl.VerifLinkDialers() {
			if ld.PeerID == h.peerID[x] && ld.Addr == addrName(h.e.nh, a) {
				found = true
			}
		}
		h.mu.Lock()
		done := c.done
		h.mu.Unlock()
		if found || done {
			break
		}
		time.Sleep(200 * time.Microsecond)
	}
	h.push(fmt.Sprintf("call:%d:%d:%d", c.id, x, a))
	h.settle()
	return c
}

// cancelCall cancels the caller's context; the call returns and releases its reference.
func (h *hist) cancelCall(c *call) {
	if h.bad != "" || c.cancel == nil {
		return
	}
	h.note(fmt.Sprintf("cancel(call%d)", c.id))
	c.cancel()
	deadline := time.Now().Add(h.e.patience())
	h.mu.Lock()
	for !c.done && time.Now().Before(deadline) {
		h.waitLocked()
	}
	h.mu.Unlock()
	h.push(fmt.Sprintf("cancel:%d", c.id))
	h.settle()
}

// hold makes the local node want a link to peer x (an EstablishLinkWithPeer directive) with the
// transport's peer dialer map naming address a: the resolver holds a reference to key (x, a).
func (h *hist) hold(x, a int) {
	if h.bad != "" {
		return
	}
	h.note(fmt.Sprintf("hold(peer %d, addr %d)", x, a))
	h.mu.Lock()
	h.peerMap[h.peerID[x]] = addrName(h.e.nh, a)
	h.holdVals[x] = map[uint32]link.MountedLink{}
	h.mu.Unlock()
	// the handler states the clause on every value the directive ever gets: a link local -> X
	want, local := h.peerID[x], h.peerID[1]
	hd := directive.NewCallbackHandler(func(av directive.AttachedValue) {
		ml, ok := av.GetValue().(link.MountedLink)
		h.mu.Lock()
		defer h.mu.Unlock()
		if h.dead {
			return
		}
		if !ok || ml == nil {
			h.holdBad = fmt.Sprintf("the EstablishLinkWithPeer(local, peer %d) directive got a value that is not a link", x)
			return
		}
		if ml.GetRemotePeer() != want || ml.GetLocalPeer() != local {
			h.holdBad = fmt.Sprintf("the EstablishLinkWithPeer(local, peer %d) directive got a link from peer %d to peer %d", x, h.peerNo[ml.GetLocalPeer()], h.peerNo[ml.GetRemotePeer()])
		}
		h.holdVals[x][av.GetValueID()] = ml
		h.holdEvs++
		h.cond.Broadcast()
	}, func(av directive.AttachedValue) {
		h.mu.Lock()
		delete(h.holdVals[x], av.GetValueID())
		h.holdEvs++
		h.cond.Broadcast()
		h.mu.Unlock()
	}, nil)
	_, ref, err := h.tb.Bus.AddDirective(link.NewEstablishLinkWithPeer(h.peerID[1], h.peerID[x]), hd)
	if err != nil {
		h.fail("AddDirective(EstablishLinkWithPeer) failed: " + err.Error())
		return
	}
	h.mu.Lock()
	h.holds[x] = ref
	h.mu.Unlock()
	h.waitKey(x, a)
	h.push(fmt.Sprintf("hold:%d:%d", x, a))
	h.settle()
}

// tptDir issues a DialTptAddr directive (src, dst, address string) and waits for its value in a goroutine.
func (h *hist) tptDir(src, dst int, taddr string, a int, expect bool) *call {
	c := &call{tpt: true, x: dst, a: a, expect: expect}
	if h.bad != "" {
		return c
	}
	h.newCall(c)
	var cctx context.Context
	cctx, c.cancel = context.WithCancel(h.ctx)
	var sp, dp peer.ID
	if src != 0 {
		sp = h.peerID[src]
	}
	if dst != 0 {
		dp = h.peerID[dst]
	}
	h.note(fmt.Sprintf("call%d=DialTptAddr(src %d, dst %d, %q)", c.id, src, dst, strings.ReplaceAll(taddr, addrName(h.e.nh, a), fmt.Sprintf("<addr %d>", a))))
	go func() {
		v, _, ref, err := bus.ExecOneOff(cctx, h.tb.Bus, tptaddr.NewDialTptAddr(&dialer.DialerOpts{Address: taddr, Backoff: fastBackoff()}, sp, dp), nil, nil)
		var lnk link.Link
		if err == nil && v != nil {
			lnk, _ = v.GetValue().(link.Link)
			ref.Release()
		}
		h.finishCall(c, lnk, err)
	}()
	hx := "-"
	if taddr != "" {
		hx = hex.EncodeToString([]byte(taddr))
	}
	if h.ctorGate != nil {
		// start-up window: the directive is with the controller (whose transport does not exist yet)
		h.busIdle()
		h.note("transport-constructed")
		h.releaseCtor()
	}
	if expect {
		h.waitKey(dst, a)
	} else {
		h.busIdle()
	}
	h.push(fmt.Sprintf("tpt:%d:%d:%d:%s", c.id, src, dst, hx))
	h.settle()
	return c
}

// answer lets the parked dial attempt of model dialer d be answered by endpoint who (0 = nobody).
func (h *hist) answer(d, who int) {
	if h.bad != "" {
		return
	}
	at := h.attemptOf(d)
	h.note(fmt.Sprintf("answer(dialer %d, by peer %d)", d, who))
	if at == nil {
		h.fail(fmt.Sprintf("model dialer %d has no parked dial attempt", d))
		return
	}
	h.mu.Lock()
	before := len(h.links)
	at.done = true
	h.mu.Unlock()
	at.ch <- who
	if who != 0 {
		deadline := time.Now().Add(h.e.patience())
		h.mu.Lock()
		for len(h.links) == before && time.Now().Before(deadline) {
			h.waitLocked()
		}
		ok := len(h.links) > before
		h.mu.Unlock()
		if !ok {
			h.e.stuck.Store(true)
			h.fail("the answered dial attempt did not produce a session")
			return
		}
	}
	h.push(fmt.Sprintf("ans:%d:%d", d, who))
	h.settle()
}

// inbound: remote endpoint p connects to us presenting address a.
func (h *hist) inbound(a, p int) {
	if h.bad != "" {
		return
	}
	h.note(fmt.Sprintf("inbound(addr %d, peer %d)", a, p))
	as := addrName(h.e.nh, a)
	h.mu.Lock()
	h.nsess++
	n := h.nsess
	h.mu.Unlock()
	lc, rc := newMemPair(fmt.Sprintf("mem-h%d-local-%d", h.e.nh, n), as)
	re := &remoteEnd{addr: as, ch: make(chan *transport_quic.Link, 1)}
	h.mu.Lock()
	h.conns = append(h.conns, lc, rc)
	h.pendRem = append(h.pendRem, re)
	h.mu.Unlock()
	hctx, hcancel := context.WithTimeout(h.ctx, 20*time.Second)
	defer hcancel()
	go func() {
		l, _ := h.remote[p].HandleConn(hctx, true, rc, lc.LocalAddr(), "")
		re.ch <- l
	}()
	if _, err := h.lt.HandleConn(hctx, false, lc, memAddr(as), ""); err != nil {
		h.fail("inbound handshake failed: " + err.Error())
		return
	}
	h.push(fmt.Sprintf("in:%d:%d", a, p))
	h.settle()
}

// answerStray answers EVERY parked dial attempt (any address string) by endpoint who; reports whether
// there was one. Used where the property says no dial attempt may exist at all.
func (h *hist) answerStray(who int) bool {
	h.mu.Lock()
	var ats []*attempt
	for _, l := range h.attempts {
		for _, at := range l {
			if !at.done {
				at.done = true
				ats = append(ats, at)
			}
		}
	}
	h.mu.Unlock()
	for _, at := range ats {
		h.note(fmt.Sprintf("answer(stray dial attempt at %q, by peer %d)", at.addr, who))
		at.ch <- who
	}
	return len(ats) > 0
}

// closeLocal calls Close on the local link object (a Close() from outside the modelled code).
func (h *hist) closeLocal(id int) {
	if h.bad != "" {
		return
	}
	h.note(fmt.Sprintf("close(link %d)", id))
	h.mu.Lock()
	l := h.links[id]
	h.killed[id] = true
	h.mu.Unlock()
	_ = l.Close()
	deadline := time.Now().Add(h.e.patience())
	h.mu.Lock()
	for !h.closedEv[id] && time.Now().Before(deadline) {
		h.waitLocked()
	}
	h.mu.Unlock()
	h.settle()
}

// kill closes the session of link id from the remote side. (A link the controller has not
// established yet is not watched by anybody: it is closed locally instead.)
func (h *hist) kill(id int) {
	if h.bad != "" {
		return
	}
	h.mu.Lock()
	est := h.estDone[id]
	h.mu.Unlock()
	if !est {
		h.closeLocal(id)
		return
	}
	h.note(fmt.Sprintf("kill(link %d)", id))
	deadline := time.Now().Add(h.e.patience())
	h.mu.Lock()
	for h.rlinks[id] == nil && time.Now().Before(deadline) {
		h.waitLocked()
	}
	rl := h.rlinks[id]
	h.killed[id] = true
	h.mu.Unlock()
	if rl == nil {
		h.fail(fmt.Sprintf("no remote end known for link %d", id))
		return
	}
	_ = rl.Close()
	h.mu.Lock()
	for !h.closedEv[id] && time.Now().Before(deadline) {
		h.waitLocked()
	}
	h.mu.Unlock()
	h.settle()
}

// release lets a parked goroutine run: est | lost | clost (by link id).
func (h *hist) release(kind string, id int) bool {
	if h.bad != "" {
		return false
	}
	h.mu.Lock()
	m := map[string]map[int]chan struct{}{"est": h.estGate, "lost": h.lostGate, "clost": h.clostGate}[kind]
	ch := m[id]
	if ch == nil {
		h.mu.Unlock()
		h.fail(fmt.Sprintf("scripted %s(%d): no such goroutine is parked", kind, id))
		return false
	}
	delete(m, id)
	close(ch)
	done := map[string]map[int]bool{"est": h.estDone, "lost": h.lostEv, "clost": h.clostDone}[kind]
	deadline := time.Now().Add(h.e.patience())
	for !done[id] && time.Now().Before(deadline) {
		h.waitLocked()
	}
	ok := done[id]
	h.mu.Unlock()
	h.note(fmt.Sprintf("run-%s(link %d)", kind, id))
	if !ok {
		h.e.stuck.Store(true)
		h.fail(fmt.Sprintf("released %s(%d) did not complete", kind, id))
		return false
	}
	h.push(fmt.Sprintf("%s:%d", map[string]string{"est": "re", "lost": "rl", "clost": "cL"}[kind], id))
	h.settle()
	return true
}

// store lets the routine of key (x, a) parked at the store gate store its link.
func (h *hist) store(x, a int) bool {
	if h.bad != "" {
		return false
	}
	k := storeKey{h.peerID[x], addrName(h.e.nh, a)}
	h.mu.Lock()
	ch := h.storeGate[k]
	if ch == nil {
		h.mu.Unlock()
		h.fail(fmt.Sprintf("scripted store(%d,%d): the routine is not parked at the store gate", x, a))
		return false
	}
	delete(h.storeGate, k)
	n := h.storeDone[k]
	close(ch)
	deadline := time.Now().Add(h.e.patience())
	for h.storeDone[k] == n && time.Now().Before(deadline) {
		h.waitLocked()
	}
	ok := h.storeDone[k] > n
	h.mu.Unlock()
	h.note(fmt.Sprintf("store(key %d,%d)", x, a))
	if !ok {
		h.fail(fmt.Sprintf("released store(%d,%d) did not complete", x, a))
		return false
	}
	h.push(fmt.Sprintf("st:%d:%d", x, a))
	h.settle()
	return true
}

// parked lists what is parked at the gates and also pending in the model.
func (h *hist) parked() [][3]string {
	var out [][3]string
	h.mu.Lock()
	for _, k := range []struct {
		kind, field string
		m           map[int]chan struct{}
	}{{"est", "pe", h.estGate}, {"lost", "pl", h.lostGate}, {"clost", "pcl", h.clostGate}} {
		for _, id := range parseIDs(lib.KV(h.model, k.field)) {
			if k.m[id] != nil {
				out = append(out, [3]string{k.kind, strconv.Itoa(id), ""})
			}
		}
	}
	if s := lib.KV(h.model, "gs"); s != "_" && s != "" {
		for _, t := range strings.Split(s, ";") {
			f := strings.Split(t, ":")
			x, _ := strconv.Atoi(f[0])
			a, _ := strconv.Atoi(f[1])
			if h.storeGate[storeKey{h.peerID[x], addrName(h.e.nh, a)}] != nil {
				out = append(out, [3]string{"store", f[0], f[1]})
			}
		}
	}
	h.mu.Unlock()
	sort.Slice(out, func(i, j int) bool {
		if out[i][0] != out[j][0] {
			return out[i][0] < out[j][0]
		}
		if out[i][1] != out[j][1] {
			return out[i][1] < out[j][1]
		}
		return out[i][2] < out[j][2]
	})
	return out
}

func (h *hist) run1(p [3]string) {
	switch p[0] {
	case "store":
		x, _ := strconv.Atoi(p[1])
		a, _ := strconv.Atoi(p[2])
		h.store(x, a)
	default:
		id, _ := strconv.Atoi(p[1])
		h.release(p[0], id)
	}
}

// drainGates releases every parked goroutine (order chosen by pick) until nothing is parked.
func (h *hist) drainGates(pick func(n int) int) {
	for i := 0; i < 200 && h.bad == ""; i++ {
		p := h.parked()
		if len(p) == 0 {
			return
		}
		h.run1(p[pick(len(p))])
	}
}

// pendingDialers lists the model's pending dialers.
func (h *hist) pendingDialers() []mDialer {
	var out []mDialer
	for _, d := range h.modelDialers() {
		if d.state == "p" {
			out = append(out, d)
		}
	}
	return out
}

// ---- monitors (the property on the real observations; no model involved) -----------------------------------------

// monitors evaluates the property clauses on the real system. quiet: nothing is parked at the
// est / lost / clost / store gates and no close is in flight.
func (h *hist) monitors(o obs, quiet bool) (string, string) {
	key := "dialsys.hist:" + h.gen
	lds := h.ctrl.VerifLinkDialers()
	tbl := h.lt.VerifSnapshotLinks()
	_, byPeer := h.ctrl.VerifSnapshot()
	peerLinks := map[int][]link.Link{}
	for x, pid := range h.peerID {
		peerLinks[x] = h.ctrl.GetPeerLinks(pid)
	}
	h.mu.Lock()
	defer h.mu.Unlock()
	hist := strings.Join(h.steps, "; ")
	// (a) authenticity: every stored / returned / pushed link is a link to the requested peer
	for _, ld := range lds {
		if ld.Link != nil && ld.Link.GetRemotePeer() != ld.PeerID {
			return fmt.Sprintf("the link dialer of key (peer %d, addr %d) holds a link whose remote peer is %d (history: %s)", h.peerNo[ld.PeerID], h.addrNo[ld.Addr], h.peerNo[ld.Link.GetRemotePeer()], hist), key
		}
	}
	for _, c := range h.calls {
		what := "DialPeerAddr"
		if c.tpt {
			what = "the DialTptAddr directive"
		}
		if c.done && c.lnk != nil && c.lnk.GetRemotePeer() != h.peerID[c.x] {
			return fmt.Sprintf("%s for peer %d yielded a link whose remote peer is %d (history: %s)", what, c.x, h.peerNo[c.lnk.GetRemotePeer()], hist), key
		}
		if c.tpt && c.done && c.lnk != nil && !c.expect {
			return fmt.Sprintf("a DialTptAddr directive that must not be resolved (source / self / address / transport type) got a value (history: %s)", hist), key
		}
		// a caller must not be handed a link whose loss the controller had fully processed before the call
		if c.done && c.lnk != nil {
			if ql, ok := c.lnk.(*transport_quic.Link); ok {
				if id, ok := h.idOf[ql]; ok && c.deadAt[id] {
					kk := key
					if h.lateReal[id] {
						kk = "dialsys.hist:est-after-lost"
					} else if h.storeStale[id] {
						kk = "dialsys.hist:store-after-flush"
					}
					return fmt.Sprintf("call%d (%s) was handed link %d, which was closed and reported lost before the call was made (history: %s)", c.id, what, id, hist), kk
				}
			}
		}
	}
	// (d) "the dial is not counted as a link to X": what the controller files / reports / hands to an
	// EstablishLinkWithPeer(X) directive under X is a link whose authenticated remote peer is X
	if h.holdBad != "" {
		return h.holdBad + " (history: " + hist + ")", key
	}
	for p, ls := range byPeer {
		for _, l := range ls {
			if l.GetRemotePeer() != p {
				return fmt.Sprintf("the controller files a link whose remote peer is %d under peer %d (history: %s)", h.peerNo[l.GetRemotePeer()], h.peerNo[p], hist), key
			}
		}
	}
	for x, pid := range h.peerID {
		for _, l := range peerLinks[x] {
			if l.GetRemotePeer() != pid {
				return fmt.Sprintf("GetPeerLinks(peer %d) reports a link whose remote peer is %d (history: %s)", x, h.peerNo[l.GetRemotePeer()], hist), key
			}
		}
	}
	if !quiet {
		return "", key
	}
	// (e) at quiescence a held EstablishLinkWithPeer(X) directive has exactly the links with X that were
	// established and are not closed: every live one (a request for a link to X is satisfied once X is
	// reachable) and no link that was closed and reported lost
	if v, k := h.holdMonitor(hist, key); v != "" {
		return v, k
	}
	// (c) at quiescence no container holds a closed link
	for k, l := range o.ldLinks {
		if ql, ok := l.(*transport_quic.Link); ok {
			if id, ok := h.idOf[ql]; ok && o.closed[id] {
				kk := key
				if h.lateReal[id] {
					kk = "dialsys.hist:est-after-lost"
				} else if h.storeStale[id] {
					kk = "dialsys.hist:store-after-flush"
				}
				return fmt.Sprintf("at quiescence the link dialer of key (peer %d, addr %d) holds link %d, which is closed and was reported lost; its routine has finished and will not dial again (history: %s)", k[0], k[1], id, hist), kk
			}
		}
	}
	// (b) no stuck state: a registered key without a link must be doing something: a dial attempt parked
	// at the engine, or another peer's link occupying the address (then retrying is what is specified)
	for _, ld := range lds {
		if ld.Link != nil {
			continue
		}
		busy := false
		for _, at := range h.attempts[ld.Addr] {
			if !at.done {
				busy = true
			}
		}
		if l, ok := tbl[ld.Addr]; ok && l.GetRemotePeer() != ld.PeerID {
			busy = true
		}
		if h.storeGate[storeKey{ld.PeerID, ld.Addr}] != nil {
			busy = true
		}
		if !busy {
			return fmt.Sprintf("stuck: the link dialer of key (peer %d, addr %d) has no link, no dial attempt is in progress for it and no other peer occupies the address — its waiting callers can never be satisfied (history: %s)", h.peerNo[ld.PeerID], h.addrNo[ld.Addr], hist), key
		}
	}
	return "", key
}

// holdMonitor (h.mu held): the values of every held EstablishLinkWithPeer(X) directive against the
// engine's own record of the links with X (established by the controller, closed, loss processed).
func (h *hist) holdMonitor(hist, key string) (string, string) {
	for x, vals := range h.holdVals {
		held := map[uint64]bool{}
		for _, ml := range vals {
			held[ml.GetLinkUUID()] = true
		}
		okU := map[uint64]bool{}
		for id, l := range h.links {
			if h.peerOfL[id] != x || !h.estDone[id] {
				continue
			}
			if !(h.closedEv[id] && h.clostDone[id]) {
				okU[l.GetUUID()] = true
			}
			if !h.closedEv[id] && !held[l.GetUUID()] {
				return fmt.Sprintf("the held EstablishLinkWithPeer(local, peer %d) directive lacks link %d, which is established with peer %d and open: the request for a link to that peer is not satisfied although the peer is linked (history: %s)", x, id, x, hist), key
			}
		}
		for id, l := range h.links {
			if h.peerOfL[id] == x && held[l.GetUUID()] && !okU[l.GetUUID()] {
				// link objects at one (address, peer) share the uuid the value is identified by: the value is
				// the one of them the controller still has — the one established after its loss was processed
				// (F25), if there is one
				kk, which := key, id
				for j, l2 := range h.links {
					if l2.GetUUID() == l.GetUUID() && h.lateReal[j] {
						kk, which = "dialsys.hist:est-after-lost", j
					}
				}
				return fmt.Sprintf("the held EstablishLinkWithPeer(local, peer %d) directive still has link %d, which was closed and reported lost (history: %s)", x, which, hist), kk
			}
		}
	}
	return "", key
}

// holdsSettled (no lock held): the resolvers of the held directives emit asynchronously; wait
// (bounded) until the values are what holdMonitor asks for, so that its verdict is about a settled state.
func (h *hist) holdsSettled() {
	deadline := time.Now().Add(h.e.patience())
	for time.Now().Before(deadline) {
		h.mu.Lock()
		v, _ := h.holdMonitor("", "")
		h.mu.Unlock()
		if v == "" {
			return
		}
		// not (yet) what the clause asks for: it is a verdict only once the scheduler itself says that
		// no goroutine of the process is runnable and the values have stopped changing
		if quiet.Settle(func() int { h.mu.Lock(); defer h.mu.Unlock(); return h.holdEvs }, 500*time.Microsecond, 6, 300*time.Millisecond) {
			h.mu.Lock()
			v, _ = h.holdMonitor("", "")
			h.mu.Unlock()
			if v != "" {
				return
			}
		}
	}
}

// compare records one comparison of the settled real system with the model + the monitors.
func (h *hist) compare(branch string) {
	if h.lt == nil || h.ctrl == nil {
		return
	}
	o := h.observe()
	mlds, mdm, mtable, mlinks, mres := h.modelObs()
	want := fmt.Sprintf("lds=%s dm=%s table=%s links=%s res=%s", mlds, mdm, mtable, mlinks, mres)
	impl := fmt.Sprintf("lds=%s dm=%s table=%s links=%s res=%s", o.lds, o.dm, o.table, o.links, o.res)
	quiet := len(h.parked()) == 0 && lib.KV(h.model, "q") == "1" && h.bad == ""
	if h.bad != "" {
		// after a disagreement the model cannot say what is pending: quiet = nothing parked at all
		h.mu.Lock()
		quiet = len(h.estGate)+len(h.lostGate)+len(h.clostGate)+len(h.storeGate) == 0
		h.mu.Unlock()
	}
	if quiet && len(h.holds) > 0 {
		h.holdsSettled()
	}
	mon, key := h.monitors(o, quiet)
	if h.bad != "" && mon == "" {
		impl = impl + " !" + strings.ReplaceAll(h.bad, " ", "_")
	}
	op := "dialsys.run ops=" + strings.Join(h.toks, ",")
	h.e.rep.Compare(op, want, impl, branch, key, mon)
}

// drainAll is used after a disagreement: everything that arrives at a gate is released until
// nothing has arrived for a while, so that the monitors can be evaluated on a quiescent system.
func (h *hist) drainAll() {
	idle := 0
	for i := 0; i < 400 && idle < 12; i++ {
		h.mu.Lock()
		n := 0
		for _, m := range []map[int]chan struct{}{h.estGate, h.lostGate, h.clostGate} {
			for id, ch := range m {
				close(ch)
				delete(m, id)
				n++
			}
		}
		for k, ch := range h.storeGate {
			close(ch)
			delete(h.storeGate, k)
			n++
		}
		h.mu.Unlock()
		if n == 0 {
			idle++
		} else {
			idle = 0
		}
		time.Sleep(5 * time.Millisecond)
	}
}

func (h *hist) finish() {
	if h.bad != "" {
		h.drainAll()
	}
	h.compare("settled.final")
	if strings.HasPrefix(h.model, "ok") {
		for _, b := range strings.Split(lib.KV(h.model, "br"), ",") {
			for _, part := range strings.Split(b, "+") {
				if part != "" && part != "_" {
					h.e.rep.Branches["step."+part]++
				}
			}
		}
	}
	h.mu.Lock()
	h.dead = true
	for _, m := range []map[int]chan struct{}{h.estGate, h.lostGate, h.clostGate} {
		for id, ch := range m {
			close(ch)
			delete(m, id)
		}
	}
	for k, ch := range h.storeGate {
		close(ch)
		delete(h.storeGate, k)
	}
	for _, c := range h.calls {
		if c.cancel != nil {
			c.cancel()
		}
	}
	h.mu.Unlock()
	for _, r := range h.holds {
		r.Release()
	}
	h.e.cur.Store(nil)
	h.cancel()
	h.tb.Release()
	for _, c := range h.conns {
		_ = c.Close()
	}
}

// ---- histories ------------------------------------------------------------------------------------------------

func first(n int) int { return 0 }

func (h *hist) expectRes(c *call, want string) {
	if h.bad != "" {
		return
	}
	h.mu.Lock()
	got := c.res
	done := c.done
	h.mu.Unlock()
	if !done {
		got = "pending"
	}
	if !strings.HasPrefix(got, want) {
		h.fail(fmt.Sprintf("call%d: expected %s, got %s", c.id, want, got))
	}
}

// dialerAt returns the id of the model's pending dialer at address a (-1 if none).
func (h *hist) dialerAt(a int) int {
	for _, d := range h.pendingDialers() {
		if d.addr == a {
			return d.id
		}
	}
	return -1
}

// answerAt answers the pending dial attempt at address a.
func (h *hist) answerAt(a, who int) {
	if h.bad != "" {
		return
	}
	d := h.dialerAt(a)
	if d < 0 {
		h.fail(fmt.Sprintf("no dial attempt is pending at address %d (expected one, to be answered by peer %d)", a, who))
		return
	}
	h.answer(d, who)
}

func (e *engine) scenario(gen string, f func(h *hist)) { e.scenarioEarly(gen, false, f) }

func (e *engine) scenarioEarly(gen string, early bool, f func(h *hist)) {
	h := e.newHistEarly(gen, early)
	defer h.finish()
	defer h.releaseCtor()
	f(h)
	if h.bad == "" {
		h.drainGates(first)
	}
}

const X, Y = 2, 3

func (e *engine) scripted() {
	// 1. dial X; kill the link on X's side; dial X again: a NEW live link, not the dead object
	e.scenario("redial-after-kill", func(h *hist) {
		c := h.dial(X, 1)
		h.answerAt(1, X)
		h.drainGates(first)
		h.expectRes(c, "link:0")
		h.compare("settled.mid")
		h.kill(0)
		h.drainGates(first)
		h.compare("settled.mid")
		c2 := h.dial(X, 1)
		h.answerAt(1, X)
		h.drainGates(first)
		h.expectRes(c2, "link:1")
	})
	// 1b. … and when the second dial comes before the loss has been processed: the dead link is
	// handed out (it is still the address table's entry), then flushed, and the dialer restarts
	e.scenario("redial-before-loss-processed", func(h *hist) {
		h.hold(X, 1)
		h.answerAt(1, X)
		h.drainGates(first)
		h.kill(0) // closed; handleLinkLost parked at the gate
		c2 := h.dial(X, 1)
		h.expectRes(c2, "link:0")
		h.drainGates(first)
		h.compare("settled.mid")
		h.answerAt(1, X)
		h.drainGates(first)
	})
	// 2. address re-served: impostor Y answers at the address; X is requested: keeps retrying, nothing
	// stored; then the listener is swapped to X: resolves to X
	e.scenario("impostor-then-x", func(h *hist) {
		c := h.dial(X, 1)
		h.answerAt(1, Y)
		h.drainGates(first)
		h.compare("settled.mid") // Y's link occupies the address; key (X,1) retries
		h.expectRes(c, "pending")
		h.kill(0)
		h.drainGates(first)
		h.compare("settled.mid")
		h.answerAt(1, X)
		h.drainGates(first)
		h.expectRes(c, "link:1")
	})
	// 2b. alternately by both over time: X, then Y usurps inbound, then Y answers the redial, then X again
	e.scenario("alternating", func(h *hist) {
		h.hold(X, 1)
		h.answerAt(1, X)
		h.drainGates(first)
		h.inbound(1, Y) // Y takes over the address: X's link is usurped, closed, lost; the dialer restarts against Y
		h.drainGates(first)
		h.compare("settled.mid")
		h.kill(1)
		h.drainGates(first)
		h.answerAt(1, Y) // the impostor answers the redial too
		h.drainGates(first)
		h.compare("settled.mid")
		h.kill(2)
		h.drainGates(first)
		h.answerAt(1, X)
		h.drainGates(first)
	})
	// 2b'. EstablishLinkWithPeer(X) whose dial address is answered by an impostor: the impostor's link is
	// filed under the impostor and is no value of the directive; once X answers there, the directive
	// has exactly X's link
	e.scenario("hold-impostor-then-x", func(h *hist) {
		h.hold(X, 1)
		h.answerAt(1, Y)
		h.drainGates(first)
		h.compare("settled.mid")
		h.inbound(2, Y) // a second link with the impostor, from another address
		h.drainGates(first)
		h.compare("settled.mid")
		h.kill(0)
		h.drainGates(first)
		h.answerAt(1, X)
		h.drainGates(first)
		h.compare("settled.mid")
	})
	// 2c. the same with a dial address that is a NAME (the string t.dialers is keyed with differs from
	// the remote address string t.links is keyed with): impostor answers -> impostor leaves -> the intended
	// peer arrives: the pending request and a later one must both be satisfied; a finished dialer must
	// not stay in t.dialers and serve its old result
	e.scenario("named-address-impostor-then-x", func(h *hist) {
		c := h.dial(X, 101)
		h.answerAt(101, Y)
		h.drainGates(first)
		h.compare("settled.mid")
		h.expectRes(c, "pending")
		h.kill(0)
		h.drainGates(first)
		h.compare("settled.mid")
		h.answerAt(101, X)
		h.drainGates(first)
		h.expectRes(c, "link:1")
		c2 := h.dial(X, 101) // a later request: (the check does not see the link under the resolved address) dials again
		h.answerAt(101, X)
		h.drainGates(first)
		h.expectRes(c2, "link:2")
	})
	e.scenario("named-address-redial-after-kill", func(h *hist) {
		c := h.dial(X, 102)
		h.answerAt(102, X)
		h.drainGates(first)
		h.expectRes(c, "link:0")
		h.kill(0)
		h.drainGates(first)
		h.compare("settled.mid")
		c2 := h.dial(X, 102)
		h.answerAt(102, X)
		h.drainGates(first)
		h.expectRes(c2, "link:1")
	})
	// 3. two keys (X, a) and (Y, a) requested concurrently, both orders: the dialer created for one peer
	// is shared by the routine of the other
	for _, order := range [][2]int{{X, Y}, {Y, X}} {
		for _, who := range []int{X, Y} {
			order, who := order, who
			e.scenario("two-keys-one-address", func(h *hist) {
				c1 := h.dial(order[0], 1)
				c2 := h.dial(order[1], 1)
				h.answerAt(1, who)
				h.drainGates(first)
				h.compare("settled.mid")
				for _, c := range []*call{c1, c2} {
					if c.x == who {
						h.expectRes(c, "link:0")
					} else {
						h.expectRes(c, "pending")
						h.cancelCall(c)
					}
				}
			})
		}
	}
	// 4. already connected: an inbound link from X at the address, then DialPeerAddr(X, a); and dialing twice
	e.scenario("inbound-then-dial", func(h *hist) {
		h.inbound(1, X)
		h.drainGates(first)
		c := h.dial(X, 1)
		h.drainGates(first)
		h.expectRes(c, "link:0")
	})
	e.scenario("dial-twice", func(h *hist) {
		c := h.dial(X, 1)
		h.answerAt(1, X)
		h.drainGates(first)
		h.expectRes(c, "link:0")
		c2 := h.dial(X, 1)
		h.drainGates(first)
		h.expectRes(c2, "link:0")
	})
	// 5. a held reference (EstablishLinkWithPeer): the dialed link is replaced by an inbound session of
	// the same peer at the same address, then the replacement is lost: the dialer must dial again
	e.scenario("held-replaced-lost", func(h *hist) {
		h.hold(X, 1)
		h.answerAt(1, X)
		h.drainGates(first)
		h.inbound(1, X)
		h.drainGates(first)
		h.compare("settled.mid")
		c := h.dial(X, 1) // a second waiter on the held key
		h.drainGates(first)
		h.expectRes(c, "link:1")
		h.kill(1)
		h.drainGates(first)
		h.compare("settled.mid")
		h.answerAt(1, X)
		h.drainGates(first)
	})
	// 5a. SEVERAL links with the requested peer (X also connected in from another address / is dialed at
	// two addresses), a long-lived reference on the key of the dialed link, the DIALED link lost first:
	// the dialer of (X, a) must be cleared and restarted although X is still linked — whoever answers
	// at a is checked again (an impostor is refused, X is accepted later), and when the other link is
	// lost too the key is not left holding the dead link.
	for _, second := range []string{"inbound", "dialed"} {
		second := second
		e.scenario("two-links-dialed-lost-first", func(h *hist) {
			h.hold(X, 1)
			h.answerAt(1, X) // L0: dialed at address 1
			h.drainGates(first)
			if second == "inbound" {
				h.inbound(2, X) // L1: X connects in from address 2
			} else {
				h.dial(X, 2) // L1: X dialed at address 2 as well
				h.answerAt(2, X)
			}
			h.drainGates(first)
			h.compare("settled.mid")
			h.kill(0) // the dialed link is lost while X still has L1
			h.drainGates(first)
			h.compare("settled.mid")
			c := h.dial(X, 1)
			h.expectRes(c, "pending") // not the dead L0
			h.answerAt(1, Y)          // an impostor serves address 1 now: refused
			h.drainGates(first)
			h.expectRes(c, "pending")
			h.compare("settled.mid")
			h.kill(1) // X's other link is lost as well
			h.drainGates(first)
			h.kill(2) // the impostor leaves
			h.drainGates(first)
			h.compare("settled.mid")
			h.answerAt(1, X) // X is reachable at address 1 again
			h.drainGates(first)
			h.expectRes(c, "link:3")
			h.compare("settled.mid") // the held EstablishLinkWithPeer(X) has exactly the live link
		})
	}
	// 5b. a cancelled call leaves its dial attempt running: the next call for the same key shares it
	e.scenario("cancel-redial", func(h *hist) {
		c := h.dial(X, 1)
		h.cancelCall(c)
		h.compare("settled.mid")
		c2 := h.dial(X, 1)
		h.answerAt(1, X)
		h.drainGates(first)
		h.expectRes(c2, "link:0")
	})
	// 6. unreachable, then reachable; an inbound session clears the pending dialer entry
	e.scenario("unreachable", func(h *hist) {
		c := h.dial(X, 1)
		h.answerAt(1, 0)
		h.answerAt(1, 0)
		h.compare("settled.mid")
		h.expectRes(c, "pending")
		h.answerAt(1, X)
		h.drainGates(first)
		h.expectRes(c, "link:0")
	})
	e.scenario("inbound-while-dialing", func(h *hist) {
		c := h.dial(X, 1)
		h.inbound(1, X) // HandleSession deletes t.dialers[addr]; the attempt goes on
		h.drainGates(first)
		h.compare("settled.mid")
		h.answer(0, X) // the old attempt completes: a second session at the address usurps the first
		h.drainGates(first)
		h.expectRes(c, "link:1")
	})
	// 7. the known-finding witnesses: a closed link left in a container at quiescence
	e.scenario("est-after-lost", func(h *hist) {
		h.hold(X, 1)
		h.answerAt(1, X)
		h.store(X, 1)
		h.kill(0)
		h.release("lost", 0)
		h.release("clost", 0) // the controller does not know the link yet: nothing to flush
		h.release("est", 0)   // F25: established after lost
		h.drainGates(first)
	})
	e.scenario("store-after-flush", func(h *hist) {
		h.hold(X, 1)
		h.answerAt(1, X) // the routine is parked before l.lnk.SetValue(lnk)
		h.release("est", 0)
		h.kill(0)
		h.release("lost", 0)
		h.release("clost", 0) // flushed: the container is still empty, nothing is restarted
		h.drainGates(first)   // the routine stores the dead link
	})
	// 7b. known finding: a backoff that GIVES UP (max_elapsed_time). The dialer ends with an error, the
	// routine of the key is dead, keyed does not run it again while the references stay as they are: the
	// held EstablishLinkWithPeer(X) is never served although X becomes reachable at the address
	e.scenario("backoff-gives-up", func(h *hist) {
		h.boCfg = func() *backoff.Backoff {
			return &backoff.Backoff{BackoffKind: backoff.BackoffKind_BackoffKind_EXPONENTIAL,
				Exponential: &backoff.Exponential{InitialInterval: 2, MaxInterval: 4, MaxElapsedTime: 20}}
		}
		h.hold(X, 1)
		if h.bad != "" {
			return
		}
		// X is not reachable yet: more than max_elapsed_time passes, then the attempt in progress fails
		d := h.dialerAt(1)
		at := h.attemptOf(d)
		if at == nil {
			h.fail("no dial attempt is pending at address 1")
			return
		}
		h.note("25 ms pass (max_elapsed_time = 20 ms)")
		time.Sleep(25 * time.Millisecond)
		h.mu.Lock()
		at.done = true
		n := len(h.attempts[at.addr])
		h.mu.Unlock()
		h.note(fmt.Sprintf("answer(dialer %d, by peer 0)", d))
		at.ch <- 0
		// does the key dial again? (a new dialFn call; judged when the scheduler reports nothing runnable)
		again := false
		for i := 0; i < 40 && !again; i++ {
			quiet.Settle(func() int { h.mu.Lock(); defer h.mu.Unlock(); return len(h.attempts[at.addr]) }, 500*time.Microsecond, 6, 100*time.Millisecond)
			h.mu.Lock()
			again = len(h.attempts[at.addr]) > n
			h.mu.Unlock()
			if i >= 3 && !again {
				break
			}
		}
		if again {
			// the code retries (the finding is gone): the history goes on as a run of the model
			h.push(fmt.Sprintf("ans:%d:0", d))
			h.settle()
			h.answerAt(1, X)
			h.drainGates(first)
			return
		}
		h.fail("the dialer of key (peer 2, addr 1) gave up (dial backoff max duration exceeded); X is reachable at the address now but nothing dials it")
	})
	// 8. DialTptAddr directives: the resolver's decision
	e.tptMatrix()
}

// tptMatrix: tptaddr.NewDialTptAddr(opts, src, X) with src ∈ {local, other, ""}, X ∈ {honest, self},
// addresses of X and of Y, a wrong transport type, unparsable addresses.
func (e *engine) tptMatrix() {
	type tc struct {
		src, dst int
		form     string // mem | udp | nobar | emptyaddr | emptytype | empty
		answer   int    // who answers at the address
	}
	var cases []tc
	for _, src := range []int{1, Y, 0} {
		for _, dst := range []int{X, 1} {
			cases = append(cases, tc{src, dst, "mem", X})
		}
	}
	cases = append(cases,
		tc{1, X, "mem", Y}, // the address of Y: an impostor answers
		tc{0, X, "mem", Y},
		tc{1, X, "udp", X}, tc{1, X, "nobar", X}, tc{1, X, "emptyaddr", X}, tc{1, X, "emptytype", X}, tc{0, X, "udp", X},
		tc{1, 0, "mem", X}, tc{1, X, "empty", X})
	for i, c := range cases {
		for _, early := range []bool{false, true} {
			c, i, early := c, i, early
			gen := "tptaddr"
			if early {
				gen = "tptaddr-early" // the directive is issued before the controller has its transport
			}
			e.scenarioEarly(gen, early, func(h *hist) {
				a := 1 + i%2
				as := addrName(e.nh, a)
				var taddr string
				switch c.form {
				case "mem":
					taddr = "mem|" + as
				case "udp":
					taddr = "udp|" + as
				case "nobar":
					taddr = "mem" + as
				case "emptyaddr":
					taddr = "mem|"
				case "emptytype":
					taddr = "|" + as
				case "empty":
					taddr = ""
				}
				// the property, stated directly: a value may only come from a directive whose source is the
				// local peer or empty, whose target is another peer, and whose address is mem|<non-empty>
				tid, rest, found := strings.Cut(taddr, "|")
				expect := (c.src == 1 || c.src == 0) && c.dst != 1 && c.dst != 0 && found && tid == "mem" && rest != ""
				call := h.tptDir(c.src, c.dst, taddr, a, expect)
				br := "tpt.no-value"
				if expect {
					h.answerAt(a, c.answer)
					h.drainGates(first)
					if c.answer == c.dst {
						h.expectRes(call, "link:0")
						br = "tpt.value"
					} else {
						h.expectRes(call, "pending")
						br = "tpt.impostor"
						h.compare("settled.mid")
						h.cancelCall(call)
					}
				} else {
					// no dialer may have been started for this directive. If one was, the most favourable
					// environment answers it (the target itself — for a self-dial an endpoint presenting the
					// local key — at whatever address is being dialed) and everything parked is let through:
					// the directive must still not get a value (monitor (a) of the final comparison)
					h.busIdle()
					who := c.dst
					if who == 0 {
						who = X
					}
					if h.answerStray(who) {
						br = "tpt.no-value.dialed"
						h.fail("a DialTptAddr directive that must not be resolved started a dial attempt")
						h.drainAll()
					}
					h.expectRes(call, "pending")
				}
				mon := ""
				h.mu.Lock()
				if expect && c.answer == c.dst && (!call.done || call.lnk == nil) {
					mon = fmt.Sprintf("a DialTptAddr directive (src %d, dst %d, %s address) whose target answers at the address never got a value", c.src, c.dst, c.form)
				}
				if !expect && call.done && call.lnk != nil {
					mon = fmt.Sprintf("a DialTptAddr directive (src %d, dst %d, %s address) that must not be resolved (source / self / address / transport type) got a value", c.src, c.dst, c.form)
				}
				h.mu.Unlock()
				if !expect && call.cancel != nil {
					call.cancel()
				}
				op := fmt.Sprintf("dialsys.tpt src=%d dst=%d form=%s answer=%d early=%v", c.src, c.dst, c.form, c.answer, early)
				if early {
					br += ".early"
				}
				want := strings.TrimSuffix(strings.TrimSuffix(br, ".early"), ".dialed")
				if early {
					want += ".early"
				}
				e.rep.Compare(op, want, br, br, "dialsys.tpt:"+c.form, mon)
			})
		}
	}
	// the decision function alone, model vs a direct reference on generated directives
	n := 200 * e.a.Scale
	for i := 0; i < n; i++ {
		src, dst := e.rng.Intn(4), e.rng.Intn(4)
		parts := []string{"mem", "udp", "", "me|m", "x"}
		addrs := []string{"a1", "", "b|2", "c"}
		var taddr string
		switch e.rng.Intn(6) {
		case 0:
			taddr = parts[e.rng.Intn(len(parts))] + addrs[e.rng.Intn(len(addrs))]
		default:
			taddr = parts[e.rng.Intn(len(parts))] + "|" + addrs[e.rng.Intn(len(addrs))]
		}
		tid, rest, found := strings.Cut(taddr, "|")
		want := "none"
		if (src == 1 || src == 0) && dst != 1 && dst != 0 && found && tid == "mem" && rest != "" {
			want = fmt.Sprintf("key peer=%d addr=%s", dst, hex.EncodeToString([]byte(rest)))
		}
		hx := "-"
		if taddr != "" {
			hx = hex.EncodeToString([]byte(taddr))
		}
		op := fmt.Sprintf("dialsys.resolve src=%d dst=%d tpt=1 addr=%s", src, dst, hx)
		got := e.m.Query(op)
		br := "resolve.key"
		if strings.HasPrefix(got, "none") {
			br = "resolve." + strings.TrimPrefix(lib.KV(got, "br"), "tpt.")
			got = "none"
		}
		e.rep.Compare(op, got, want, br, "dialsys.resolve", "")
	}
}

// random runs a generated history.
func (e *engine) random(eager, multi bool) {
	gen := "random"
	if eager {
		gen = "eager"
	}
	if multi {
		gen += "-multi"
	}
	h := e.newHist(gen)
	defer h.finish()
	pick := func(n int) int { return e.rng.Intn(n) }
	naddr := 1 + e.rng.Intn(2)
	// the addresses callers dial: real addresses, sometimes also a name resolving to address 1
	dialAddrs := []int{1, 2}[:naddr]
	if e.rng.Intn(3) == 0 {
		dialAddrs = append(dialAddrs, 101)
	}
	if multi {
		// topology class: a held reference on (X, 1) whose dialed link exists next to a second link with X
		// (inbound from / dialed at another address); what is lost first, and who answers next, is random
		naddr = 2
		dialAddrs = []int{1, 2}
		h.hold(X, 1)
		h.answerAt(1, X)
		h.drainGates(pick)
		if e.rng.Intn(2) == 0 {
			h.inbound(2, X)
		} else {
			h.dial(X, 2)
			h.answerAt(2, X)
		}
		h.drainGates(pick)
		if h.bad == "" && e.rng.Intn(2) == 0 {
			h.kill(e.rng.Intn(2))
		}
	} else if e.rng.Intn(3) == 0 {
		h.hold(X, 1)
	}
	steps := 7 + e.rng.Intn(8)
	for k := 0; k < steps && h.bad == ""; k++ {
		if eager {
			h.drainGates(pick)
			if h.bad != "" {
				break
			}
		}
		parked := h.parked()
		pend := h.pendingDialers()
		h.mu.Lock()
		var open []int
		for id := range h.links {
			if !h.closedEv[id] && !h.killed[id] {
				open = append(open, id)
			}
		}
		var live []*call
		busyKey := map[[2]int]bool{}
		for _, c := range h.calls {
			if !c.done && !c.tpt {
				live = append(live, c)
				busyKey[[2]int{c.x, c.a}] = true
			}
		}
		nl := len(h.links)
		h.mu.Unlock()
		r := e.rng.Intn(100)
		switch {
		case len(parked) > 0 && r < 30:
			h.run1(parked[pick(len(parked))])
		case len(pend) > 0 && r < 62:
			d := pend[pick(len(pend))]
			who := []int{X, X, Y, 0, X, Y}[e.rng.Intn(6)]
			if nl >= 6 && who != 0 {
				who = 0
			}
			h.answer(d.id, who)
		case r < 78 && len(live) < 3:
			x, a := []int{X, Y}[e.rng.Intn(2)], dialAddrs[e.rng.Intn(len(dialAddrs))]
			if !busyKey[[2]int{x, a}] {
				h.dial(x, a)
			}
		case r < 84 && nl < 6:
			h.inbound(1+e.rng.Intn(naddr), []int{X, Y}[e.rng.Intn(2)])
		case r < 93 && len(open) > 0:
			h.kill(open[pick(len(open))])
		case len(live) > 0 && r >= 96:
			h.cancelCall(live[pick(len(live))])
		default:
			if len(parked) > 0 {
				h.run1(parked[pick(len(parked))])
			}
		}
		if h.bad == "" && e.rng.Intn(3) == 0 {
			h.compare("settled.mid")
		}
	}
	if h.bad == "" {
		h.drainGates(pick)
	}
}

func (e *engine) run() {
	e.rep.Rule = "histories of the real dialing subsystem of one transport (real Controller + real transport_quic.Transport, real QUIC/TLS handshakes over in-memory pipes, 2–3 remote keys presenting 1–2 shared address strings): DialPeerAddr / held EstablishLinkWithPeer / DialTptAddr requests; every dial attempt answered by the intended peer, an impostor or nobody as the engine decides; inbound sessions; remote kills; HandleLinkEstablished / handleLinkLost / HandleLinkLost / the container store forced through gates; every history replayed as a run of Bifrost.DialSys and the settled state compared (containers per key, t.dialers, address table, controller tables, what each caller got); monitors: authenticity of every stored/returned/pushed link, no caller handed a link reported lost before its call, no closed link in a container at quiescence, no unresolved key without a dial attempt in progress, DialTptAddr values only for resolvable directives; distinct = distinct history"
	e.rep.Require(
		"settled.final", "settled.mid", "tpt.value", "tpt.no-value", "tpt.impostor",
		"tpt.value.early", "tpt.no-value.early", "tpt.impostor.early",
		"resolve.key", "resolve.skip-src", "resolve.skip-self", "resolve.skip-parse", "resolve.skip-type", "resolve.skip-empty",
		"step.check.free", "step.check.occupied", "step.check.yield",
		"step.attach.new", "step.attach.share", "step.attach.share-other-peer",
		"step.await.failed", "step.await.impostor", "step.await.ok",
		"step.store.link", "step.store.stale", "step.timer", "step.dexit.removes", "step.dexit.gone",
		"step.answer.fail", "step.answer.link", "step.inbound", "step.inbound.clears-dialer",
		"step.est", "step.est.replace", "step.est.late", "step.adopt", "step.clost.flush", "step.clost.miss", "step.restart",
		"step.ref.new", "step.ref.existing", "step.release.last", "step.release", "step.ret",
		"step.tpt.resolve", "step.tpt.push", "step.tpt.done",
	)
	e.scripted()
	n := 6 * e.a.Scale
	for i := 0; i < n; i++ {
		e.random(i%2 == 0, i%3 == 2)
	}
}

func main() {
	a := lib.ParseArgs()
	lg := logrus.New()
	lg.SetLevel(logrus.PanicLevel)
	lg.SetOutput(io.Discard)
	e := &engine{a: a, rng: lib.NewRng(a.Seed), m: lib.NewModel(a.Driver), le: logrus.NewEntry(lg)}
	e.rep = lib.NewReport("dialsys", a)
	if a.Prop != "C05" {
		fmt.Println("unknown property", a.Prop)
		os.Exit(2)
	}
	transport_quic.VerifSetGate(e.quicGate)
	transport_controller.VerifSetLinkDialerStoreGate(e.storeGateFn)
	e.run()
	e.m.Close()
	e.rep.Write(a.Out)
}
