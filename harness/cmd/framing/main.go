// Command framing is the correspondence engine for C07 (stream establish header),
// C08 (packet framing: rwc.PacketConn, stream_packet.Session) and C09 (rwc.Conn).
// It generates cases, asks the Lean model for its answer, runs the real bifrost
// code on the same case, compares, and evaluates the property monitor directly.
package main

import (
	"context"
	"encoding/binary"
	"errors"
	"fmt"
	"io"
	"net"
	"os"
	"runtime"
	"strconv"
	"strings"
	"sync/atomic"
	"time"
	"unicode/utf8"

	"github.com/aperturerobotics/bifrost/protocol"
	stream_packet "github.com/aperturerobotics/bifrost/stream/packet"
	transport_controller "github.com/aperturerobotics/bifrost/transport/controller"
	"github.com/aperturerobotics/bifrost/util/rwc"
	pbl "github.com/aperturerobotics/protobuf-go-lite"

	"verif/harness/hdrgen"
	"verif/harness/lib"
	"verif/harness/quiet"
)

// chunkReader delivers the scripted chunks, then the end of the stream: err (io.EOF when nil) from
// a read of its own, or — with last — from the same Read call that hands out the final bytes of
// the final chunk (n > 0, err), as the io.Reader contract allows and quic-go does when data and
// FIN arrive together. Every later Read returns (0, err).
type chunkReader struct {
	chunks [][]byte
	last   bool
	err    error
	ended  atomic.Bool // the end of the stream has been handed out
	closes atomic.Int32
}

func (c *chunkReader) endErr() error {
	if c.err != nil {
		return c.err
	}
	return io.EOF
}

func (c *chunkReader) Read(p []byte) (int, error) {
	for len(c.chunks) > 0 && len(c.chunks[0]) == 0 {
		// an empty chunk is a (0, nil) read
		c.chunks = c.chunks[1:]
		if len(c.chunks) == 0 && c.last {
			c.ended.Store(true)
			return 0, c.endErr()
		}
		return 0, nil
	}
	if len(c.chunks) == 0 {
		c.ended.Store(true)
		return 0, c.endErr()
	}
	if len(p) == 0 {
		return 0, nil
	}
	n := copy(p, c.chunks[0])
	if n == len(c.chunks[0]) {
		c.chunks = c.chunks[1:]
	} else {
		c.chunks[0] = c.chunks[0][n:]
	}
	if len(c.chunks) == 0 && c.last {
		c.ended.Store(true)
		return n, c.endErr()
	}
	return n, nil
}
func (c *chunkReader) Write(p []byte) (int, error) { return len(p), nil }
func (c *chunkReader) Close() error                { c.closes.Add(1); return nil }
func (c *chunkReader) rest() []byte {
	var out []byte
	for _, ch := range c.chunks {
		out = append(out, ch...)
	}
	return out
}

// gatedReader delivers chunks only when the harness pushes them (writer bursts vs lagging reader).
type gatedReader struct {
	ch   chan []byte
	left []byte
}

func (g *gatedReader) Read(p []byte) (int, error) {
	if len(g.left) == 0 {
		c, ok := <-g.ch
		if !ok {
			return 0, io.EOF
		}
		g.left = c
	}
	n := copy(p, g.left)
	g.left = g.left[n:]
	return n, nil
}
func (g *gatedReader) Write(p []byte) (int, error) { return len(p), nil }
func (g *gatedReader) Close() error                { return nil }

func cloneChunks(c [][]byte) [][]byte {
	out := make([][]byte, len(c))
	for i := range c {
		out[i] = append([]byte(nil), c[i]...)
	}
	return out
}

type addr string

func (a addr) Network() string { return "verif" }
func (a addr) String() string  { return string(a) }

var _ net.Addr = addr("")

// rawMsg captures the bytes handed to UnmarshalVT. With merge it behaves like a generated
// protobuf-go-lite message that is re-used without a Reset by the caller: UnmarshalVT merges
// into (appends to) what the message already holds; Reset empties it.
type rawMsg struct {
	data   []byte
	reset  bool
	merge  bool
	got    []byte // argument of the last UnmarshalVT since the last clearCalls (nil: none)
	nUnm   int
	nReset int
}

func (m *rawMsg) SizeVT() int { return len(m.data) }
func (m *rawMsg) MarshalToSizedBufferVT(d []byte) (int, error) {
	copy(d[len(d)-len(m.data):], m.data)
	return len(m.data), nil
}
func (m *rawMsg) MarshalVT() ([]byte, error) { return append([]byte(nil), m.data...), nil }
func (m *rawMsg) UnmarshalVT(d []byte) error {
	m.nUnm++
	m.got = append([]byte{}, d...)
	if m.merge {
		m.data = append(m.data, d...)
	} else {
		m.data = append([]byte(nil), d...)
	}
	return nil
}
func (m *rawMsg) Reset()      { m.data = nil; m.reset = true; m.nReset++ }
func (m *rawMsg) clearCalls() { m.got, m.nUnm, m.nReset = nil, 0, 0 }

var _ pbl.Message = (*rawMsg)(nil)

type engine struct {
	a   *lib.Args
	rng *lib.Rng
	m   *lib.Model
	rep *lib.Report
}

// stripKV removes " key=…" tokens from a model answer (fields not observable on the Go side).
func stripKV(s string, keys ...string) string {
	toks := strings.Split(s, " ")
	var out []string
	for _, t := range toks {
		drop := false
		for _, k := range keys {
			if strings.HasPrefix(t, k+"=") {
				drop = true
			}
		}
		if !drop {
			out = append(out, t)
		}
	}
	return strings.Join(out, " ")
}

func coarse(s string) string {
	if strings.HasPrefix(s, "err") {
		return "err"
	}
	return s
}

// ---- C07 ----

func (e *engine) validUTF8(n int) []byte { return hdrgen.ValidUTF8(e.rng, n) }

// lastArg is the op-line suffix naming the end mode of the reader.
func lastArg(last bool) string {
	if last {
		return " last=1"
	}
	return ""
}

// hdrCase runs one header stream; last = the reader returns its final bytes together with io.EOF.
func (e *engine) hdrCase(stream []byte, chunks [][]byte, last bool, expect string, wantPid, wantRest []byte, gen string) {
	max := transport_controller.VerifStreamEstablishMaxPacketSize()
	op := fmt.Sprintf("framing.hdr max=%d chunks=%s%s", max, lib.HexList(chunks), lastArg(last))
	model := e.m.Query(op)
	if last {
		gen += "/final-bytes-with-EOF"
	}
	impl := lib.Recover(func() string {
		r := &chunkReader{chunks: cloneChunks(chunks), last: last}
		est, err := transport_controller.VerifReadStreamEstablishHeader(r)
		if err != nil {
			return "err read"
		}
		pid := protocol.ID(est.GetProtocolId())
		if err := pid.Validate(); err != nil {
			return "err pid"
		}
		return fmt.Sprintf("ok pid=%s rest=%s", lib.Hex([]byte(pid)), lib.Hex(r.rest()))
	})
	branch := "hdr." + strings.ReplaceAll(strings.SplitN(stripKV(model, "pid", "rest", "alloc"), " ", 3)[0]+"."+strings.TrimPrefix(strings.TrimPrefix(model, "err "), "ok "), " ", ".")
	if strings.HasPrefix(model, "ok") {
		branch = "hdr.ok"
	} else {
		branch = "hdr." + strings.TrimPrefix(model, "err ")
	}
	if last {
		branch += ".last"
	}
	e.rep.Case(op, model, impl, branch, true)
	mc := coarse(stripKV(model, "alloc"))
	ic := coarse(impl)
	// property monitor, independent of the model
	mon := ""
	switch expect {
	case "ok":
		want := fmt.Sprintf("ok pid=%s rest=%s", lib.Hex(wantPid), lib.Hex(wantRest))
		if impl != want {
			mon = "valid header (" + gen + ") not decoded exactly: want " + trunc(want) + " got " + trunc(impl)
		}
	case "reject":
		if strings.HasPrefix(impl, "ok") {
			mon = "invalid header (" + gen + ") accepted: " + trunc(impl)
		}
	}
	if strings.HasPrefix(impl, "panic") {
		mon = "panic in header decoder (" + gen + "): " + trunc(impl)
	}
	// allocation bound from the model answer
	if strings.HasPrefix(model, "ok") {
		for _, t := range strings.Split(model, " ") {
			if strings.HasPrefix(t, "alloc=") {
				n, _ := strconv.Atoi(t[6:])
				if uint64(n) > max {
					mon = "model allocates above limit"
				}
			}
		}
	}
	if mc != ic || mon != "" {
		d := lib.Disagreement{Op: op, Model: model, Impl: impl, Branch: branch, Key: "framing.hdr:" + gen}
		if mon != "" {
			d.Monitor = "confirmed"
			d.What = mon
		} else {
			d.Monitor = "unconfirmed"
			d.What = "model and implementation disagree on stream establish header (" + gen + ")"
		}
		e.rep.Disagree(d)
	}
}

func trunc(s string) string {
	if len(s) > 160 {
		return s[:160] + "…"
	}
	return s
}

func (e *engine) runC07() {
	e.rep.Rule = "stream-establish headers: honest (pid length classes around varint boundaries × chunkings × trailing payload) and malformed (zero/oversize/bad varint/truncated/bad protobuf/empty or non-UTF-8 pid/unknown+duplicate fields); every class on a reader that ends with a bare (0, EOF) read AND on one that returns its final bytes together with io.EOF; sentinels: the header alone (opener wrote and closed) in one read / split in the prefix / split in the body ending with data+EOF, and cut at every offset ending the same way; each marshalled header is kept while the next one is marshalled and must not change; distinct = distinct op line"
	e.rep.Require("hdr.ok", "hdr.io", "hdr.badPrefix", "hdr.badLen", "hdr.badProto", "hdr.badPid",
		"hdr.ok.last", "hdr.io.last", "hdr.badPrefix.last", "hdr.badLen.last", "hdr.badProto.last", "hdr.badPid.last", "marshal.retained")
	max := int(transport_controller.VerifStreamEstablishMaxPacketSize())
	lens := []int{1, 2, 3, 4, 5, 60, 124, 125, 126, 127, 128, 129, 130, 200, 16379, 16380, 16381, 16382, 16383, 16384, 16390, 40000, max - 5, max - 4}
	nHonest := 120 * e.a.Scale
	var prevHdr, prevWant, prevPid []byte
	for i := 0; i < nHonest; i++ {
		var n int
		if i < len(lens)*3 {
			n = lens[i%len(lens)]
		} else {
			n = 1 + e.rng.Intn(300)
		}
		pid := e.validUTF8(n)
		for len(pid) > n && n > 4 { // keep exact byte length where possible
			pid = e.validUTF8(n - 3)
			for len(pid) < n {
				pid = append(pid, 'a')
			}
		}
		hdr := transport_controller.VerifMarshalStreamEstablishHeader(transport_controller.NewStreamEstablish(protocol.ID(pid)))
		// history independence of the opener side: the bytes marshalled for the previous ID (which a
		// writer may still be handing to a slow stream) are not touched by marshalling a later header
		if prevHdr != nil && string(prevHdr) != string(prevWant) {
			e.rep.Disagree(lib.Disagreement{Op: "framing.marshal.retained pid=" + lib.Hex(prevPid) + " next=" + lib.Hex(pid), Model: trunc("ok " + lib.Hex(prevWant)), Impl: trunc("ok " + lib.Hex(prevHdr)), Monitor: "confirmed",
				What: "the header bytes returned by marshalStreamEstablishHeader for " + q(prevPid) + " changed when the header for " + q(pid) + " was marshalled: the two results share storage, so a header still being written is overwritten by the next opener's", Key: "framing.marshal:retained", Branch: "marshal.retained"})
		}
		e.rep.Branches["marshal.retained"]++
		prevHdr, prevWant, prevPid = hdr, append([]byte(nil), hdr...), pid
		// marshal agrees with the model
		mm := e.m.Query("framing.marshal pid=" + lib.Hex(pid))
		if mm != "ok "+lib.Hex(hdr) {
			e.rep.Disagree(lib.Disagreement{Op: "framing.marshal pid=" + lib.Hex(pid), Model: trunc(mm), Impl: trunc("ok " + lib.Hex(hdr)), Monitor: "unconfirmed", What: "marshalStreamEstablishHeader differs from model", Key: "framing.marshal", Branch: "marshal"})
		}
		e.rep.Case("framing.marshal pid="+lib.Hex(pid), mm, "ok "+lib.Hex(hdr), "marshal", true)
		rest := e.rng.Bytes(e.rng.Intn(12))
		if e.rng.Intn(3) == 0 {
			rest = nil
		}
		stream := append(append([]byte(nil), hdr...), rest...)
		expect := "ok"
		if len(hdr)-len(sizePrefix(hdr)) > max {
			expect = "reject"
		}
		mode := i % 4
		if len(stream) > 3000 && mode == 1 {
			mode = 3
		}
		chunks := e.rng.Chunk(stream, mode)
		if mode == 2 && e.rng.Intn(4) == 0 {
			// sprinkle an empty read
			k := e.rng.Intn(len(chunks) + 1)
			chunks = append(chunks[:k:k], append([][]byte{{}}, chunks[k:]...)...)
		}
		if len(stream) > 3000 {
			// long headers cost the model's list-append reader quadratic time: one end mode each
			e.hdrCase(stream, chunks, i%2 == 0, expect, pid, rest, "honest")
		} else {
			e.hdrCase(stream, chunks, false, expect, pid, rest, "honest")
			e.hdrCase(stream, chunks, true, expect, pid, rest, "honest")
		}
		if i < 8 {
			// sentinels: the complete header and nothing else (the opener wrote it and closed), in
			// one read / split inside the 4-byte prefix / split inside the body, ending with data+EOF
			// (rejected by a reader that drops the bytes returned with the error); and the same header
			// cut at every offset, ending the same way (accepted, zero-padded, by a reader that takes
			// data+EOF for completion without counting)
			for _, cut := range []int{0, 1 + i%3, min(len(hdr)-1, 4+i)} {
				cs := [][]byte{hdr}
				if cut > 0 && cut < len(hdr) {
					cs = [][]byte{hdr[:cut], hdr[cut:]}
				}
				e.hdrCase(hdr, cs, true, expect, pid, nil, "header-then-end")
				e.hdrCase(hdr, cs, false, expect, pid, nil, "header-then-end")
			}
			if len(hdr) < 400 {
				for k := 1; k < len(hdr); k++ {
					e.hdrCase(hdr[:k], e.rng.Chunk(hdr[:k], e.rng.Intn(3)), true, "reject", nil, nil, "truncated-at-every-offset")
				}
			}
		}
	}
	// malformed
	nBad := 160 * e.a.Scale
	for i := 0; i < nBad; i++ {
		mc := hdrgen.Malformed(e.rng, i, max)
		stream, gen, expect, wantPid, wantRest := mc.Stream, mc.Gen, mc.Expect, mc.WantPid, mc.WantRest
		chunks := e.rng.Chunk(stream, e.rng.Intn(4))
		e.hdrCase(stream, chunks, i%2 == 1, expect, wantPid, wantRest, gen)
	}
	// UTF-8 validity: model vs utf8.Valid
	nU := 400 * e.a.Scale
	for i := 0; i < nU; i++ {
		var b []byte
		switch i % 4 {
		case 0:
			b = e.validUTF8(e.rng.Intn(12))
		case 1:
			b = e.rng.Bytes(1 + e.rng.Intn(6))
		case 2:
			b = e.validUTF8(1 + e.rng.Intn(8))
			b[e.rng.Intn(len(b))] ^= byte(1 << e.rng.Intn(8))
		case 3:
			lead := []byte{0xc0, 0xc1, 0xc2, 0xdf, 0xe0, 0xe1, 0xec, 0xed, 0xee, 0xef, 0xf0, 0xf1, 0xf3, 0xf4, 0xf5, 0xff, 0x7f, 0x80, 0xbf}
			b = append([]byte{lead[e.rng.Intn(len(lead))]}, []byte{0x7f, 0x80, 0x8f, 0x90, 0x9f, 0xa0, 0xbf, 0xc0}[e.rng.Intn(8)], []byte{0x7f, 0x80, 0xbf, 0xc0}[e.rng.Intn(4)], []byte{0x7f, 0x80, 0xbf, 0xc0}[e.rng.Intn(4)])
			b = b[:1+e.rng.Intn(4)]
		}
		op := "framing.utf8 b=" + lib.Hex(b)
		model := e.m.Query(op)
		impl := "ok 0"
		if utf8.Valid(b) {
			impl = "ok 1"
		}
		e.rep.Case(op, model, impl, "utf8."+model[3:], true)
		if model != impl {
			e.rep.Disagree(lib.Disagreement{Op: op, Model: model, Impl: impl, Monitor: "unconfirmed", What: "UTF-8 validity model differs from unicode/utf8", Key: "framing.utf8", Branch: "utf8"})
		}
	}
}

func sizePrefix(h []byte) []byte {
	_, n := pbl.ConsumeVarint(h)
	if n < 0 {
		return nil
	}
	return h[:n]
}

// ---- C08 ----

func le32(n uint32) []byte {
	b := make([]byte, 4)
	binary.LittleEndian.PutUint32(b, n)
	return b
}

// rxOpts says how the underlying reader of a receive-side case ends and how the reader of the
// connection behaves.
type rxOpts struct {
	last   bool      // the final bytes arrive in the same Read as the end of the stream
	endErr *endError // the stream ends with this error instead of io.EOF
	lag    bool      // the consumer lags: it lets the pump reach the end of the stream (queue full) before draining
}

func (o rxOpts) tag() string {
	t := ""
	if o.last {
		t += "/final-bytes-with-error"
	}
	if o.endErr != nil {
		t += "/custom-error"
	}
	if o.lag {
		t += "/lagging-reader"
	}
	return t
}

// waitEnded waits (bounded; synchronisation only, no verdict depends on it) until the underlying
// reader has handed out the end of the stream and the pump goroutine has come to rest.
func waitEnded(r *chunkReader) {
	quiet.Settle(func() int {
		if r.ended.Load() {
			return 1
		}
		return 0
	}, 50*time.Microsecond, 3, 100*time.Millisecond)
}

// endClass canonicalises a terminal error of the receive side: the underlying error itself
// ("src": io.EOF stays "eof"), io.ErrUnexpectedEOF, a deadline, anything else.
func endClass(err error, o rxOpts) string {
	switch {
	case o.endErr != nil && err == error(o.endErr):
		return "src"
	case err == io.EOF:
		return "eof"
	case err == io.ErrUnexpectedEOF:
		return "ueof"
	case err == context.DeadlineExceeded || errors.Is(err, os.ErrDeadlineExceeded):
		return "timeout"
	}
	return "err"
}

// normEndTok maps the model's terminal condition to what the real code reports for it: a length
// error is "err"; when the stream ends with a custom error, io.ReadFull returns that error itself
// where it would have returned io.EOF / io.ErrUnexpectedEOF.
func normEndTok(s string, o rxOpts) string {
	s = strings.Replace(s, "end=zero", "end=err", 1)
	s = strings.Replace(s, "end=large", "end=err", 1)
	if o.endErr != nil {
		s = strings.Replace(s, "end=eof", "end=src", 1)
		s = strings.Replace(s, "end=ueof", "end=src", 1)
	}
	return s
}

const extraCalls = 3 // calls made after the first error: each must fail again

func (e *engine) pktCase(max uint32, chunks [][]byte, bufs []int, gen string, want []string, wantEnd string, o rxOpts) {
	bs := make([]string, len(bufs))
	for i := range bufs {
		bs[i] = strconv.Itoa(bufs[i])
	}
	bl := "_"
	if len(bs) > 0 {
		bl = strings.Join(bs, ",")
	}
	gen += o.tag()
	op := fmt.Sprintf("framing.pkt max=%d chunks=%s bufs=%s%s", max, lib.HexList(chunks), bl, lastArg(o.last))
	model := e.m.Query(op)
	mon := ""
	impl := lib.Recover(func() string {
		ctx, cancel := context.WithCancel(context.Background())
		defer cancel()
		r := &chunkReader{chunks: cloneChunks(chunks), last: o.last}
		if o.endErr != nil {
			r.err = o.endErr
		}
		const queueN = 3
		pc := rwc.NewPacketConn(ctx, r, addr("l"), addr("r"), max, queueN)
		var reads []string
		end := ""
		lagAt := -1
		if o.lag {
			// read until exactly queueN packets can still be queued in front of the last one
			lagAt = max0(len(want) - 1 - queueN)
			if want == nil {
				lagAt = 0
			}
		}
		for i := 0; ; i++ {
			if i == lagAt {
				waitEnded(r)
			}
			bl := 1000000
			if i < len(bufs) {
				bl = bufs[i]
			}
			buf := make([]byte, bl)
			_ = pc.SetReadDeadline(time.Now().Add(10 * time.Second))
			n, _, err := pc.ReadFrom(buf)
			if err == io.ErrShortBuffer {
				reads = append(reads, lib.Hex(buf[:n])+"!")
				continue
			}
			if err != nil {
				end = endClass(err, o)
				// the connection has ended: it stays ended (model-independent)
				for k := 0; k < extraCalls; k++ {
					n2, _, err2 := pc.ReadFrom(buf)
					if (err2 == nil || n2 != 0) && mon == "" {
						mon = fmt.Sprintf("PacketConn.ReadFrom returned %d bytes, error %v AFTER the connection had ended with %q: bytes following the end were framed as a packet", n2, err2, err.Error())
					} else if err2 != err && mon == "" {
						mon = fmt.Sprintf("PacketConn.ReadFrom reported %q, then %q: the terminal error changed", err.Error(), err2.Error())
					}
				}
				break
			}
			reads = append(reads, lib.Hex(buf[:n]))
		}
		rs := "_"
		if len(reads) > 0 {
			rs = strings.Join(reads, ",")
		}
		return fmt.Sprintf("pkts=%s end=%s", rs, end)
	})
	endTok := model[strings.LastIndex(model, "end=")+4:]
	branch := "pkt.end." + endTok
	e.rep.Case(op, model, impl, branch, true)
	if o.last {
		e.rep.Branches["pkt.last"]++
	}
	if o.lag {
		e.rep.Branches["pkt.lag"]++
	}
	if o.endErr != nil {
		e.rep.Branches["pkt.customerr"]++
	}
	if want != nil {
		w := "pkts=_"
		if len(want) > 0 {
			w = "pkts=" + strings.Join(want, ",")
		}
		w += " end=" + wantEnd
		if impl != normEndTok(w, o) && mon == "" {
			mon = "packet stream (" + gen + ") not delivered exactly: want " + trunc(normEndTok(w, o)) + " got " + trunc(impl)
		}
	}
	if strings.HasPrefix(impl, "panic") {
		mon = "panic in packet conn (" + gen + ")"
	}
	if normEndTok(model, o) != impl || mon != "" {
		d := lib.Disagreement{Op: op, Model: model, Impl: impl, Branch: branch, Key: "framing.pkt:" + gen}
		if mon != "" {
			d.Monitor, d.What = "confirmed", mon
		} else {
			d.Monitor, d.What = "unconfirmed", "model and implementation disagree on packet framing ("+gen+")"
		}
		e.rep.Disagree(d)
	}
}

func max0(n int) int {
	if n < 0 {
		return 0
	}
	return n
}

// sessCase: RecvMsg until the first error and extraCalls calls beyond it. reuse = ONE message
// object with merge semantics is handed to every call and never Reset by the caller.
func (e *engine) sessCase(max uint32, chunks [][]byte, gen string, want []string, wantEnd string, o rxOpts, reuse bool) {
	gen += o.tag()
	if reuse {
		gen += "/reused-message"
	}
	op := fmt.Sprintf("framing.sess max=%d chunks=%s%s", max, lib.HexList(chunks), lastArg(o.last))
	model := e.m.Query(op)
	mon := ""
	set := func(m string) {
		if mon == "" {
			mon = m
		}
	}
	var calls []string
	impl := lib.Recover(func() string {
		r := &chunkReader{chunks: cloneChunks(chunks), last: o.last}
		if o.endErr != nil {
			r.err = o.endErr
		}
		s := stream_packet.NewSession(r, max)
		var msgs []string
		end := ""
		var firstErr error
		after := 0
		shared := &rawMsg{merge: true}
		for after < extraCalls {
			m := &rawMsg{}
			var before []byte
			if reuse {
				m = shared
				before = append([]byte(nil), m.data...)
			}
			m.clearCalls()
			err := s.RecvMsg(m)
			if err != nil {
				switch c := endClass(err, o); c {
				case "eof":
					calls = append(calls, "EOF")
				case "ueof":
					calls = append(calls, "UEOF")
				case "src":
					calls = append(calls, "SRC")
				default:
					calls = append(calls, "LARGE")
				}
				if firstErr == nil {
					firstErr = err
					end = endClass(err, o)
				} else {
					after++
				}
				continue
			}
			payload := m.got // what UnmarshalVT was handed; nil = the message was only Reset
			calls = append(calls, lib.Hex(payload))
			if firstErr != nil {
				// model-independent: the session has ended, nothing may be delivered any more
				after++
				set(fmt.Sprintf("Session.RecvMsg returned the message %s AFTER it had failed with %q: the stream was not ended and bytes following the bad prefix are framed as messages", q(payload), firstErr.Error()))
				continue
			}
			msgs = append(msgs, lib.Hex(payload))
			if m.nUnm+m.nReset == 0 {
				set("Session.RecvMsg returned nil without giving the message object anything (neither UnmarshalVT nor Reset)")
			}
			if m.nUnm > 1 {
				set("Session.RecvMsg called UnmarshalVT more than once for one message")
			}
			if reuse {
				// the message object the caller holds after the call: an empty message received
				// leaves it empty; a non-empty one leaves exactly the payload (if the callee resets)
				// or, by the merge convention of UnmarshalVT, the payload merged into what it held
				switch {
				case len(payload) == 0 && len(m.data) != 0:
					set(fmt.Sprintf("an EMPTY message was received into a re-used message object, which still holds the previous message %s afterwards (it was not Reset)", q(m.data)))
				case len(payload) != 0 && string(m.data) != string(payload) && string(m.data) != string(before)+string(payload):
					set(fmt.Sprintf("after receiving %s the re-used message object holds %s", q(payload), q(m.data)))
				}
			}
		}
		ms := "_"
		if len(msgs) > 0 {
			ms = strings.Join(msgs, ",")
		}
		return fmt.Sprintf("msgs=%s end=%s", ms, end)
	})
	endTok := model[strings.LastIndex(model, "end=")+4:]
	branch := "sess.end." + endTok
	e.rep.Case(op, model, impl, branch, true)
	if o.last {
		e.rep.Branches["sess.last"]++
	}
	if reuse {
		e.rep.Branches["sess.reuse"]++
	}
	if want != nil {
		w := "msgs=_"
		if len(want) > 0 {
			w = "msgs=" + strings.Join(want, ",")
		}
		w += " end=" + wantEnd
		if impl != normEndTok(w, o) {
			set("session message stream (" + gen + ") not delivered exactly: want " + trunc(normEndTok(w, o)) + " got " + trunc(impl))
		}
	}
	if strings.HasPrefix(impl, "panic") {
		mon = "panic in session (" + gen + ")"
	}
	// call level: every call, retries after the error included, against the model's recvCalls
	if !strings.HasPrefix(impl, "panic") {
		cop := fmt.Sprintf("framing.sesscalls max=%d chunks=%s n=%d%s", max, lib.HexList(chunks), len(calls), lastArg(o.last))
		cm := e.m.Query(cop)
		ci := "calls=_"
		if len(calls) > 0 {
			ci = "calls=" + strings.Join(calls, ",")
		}
		if o.endErr != nil {
			cm = strings.ReplaceAll(strings.ReplaceAll(cm, "UEOF", "SRC"), "EOF", "SRC")
		}
		e.rep.Case(cop, cm, ci, "sess.calls", true)
		if strings.Contains(cm, "LARGE,LARGE") {
			e.rep.Branches["sess.calls.sticky"]++
		}
		if cm != ci && mon == "" {
			e.rep.Disagree(lib.Disagreement{Op: cop, Model: trunc(cm), Impl: trunc(ci), Branch: "sess.calls", Key: "framing.sess:" + gen, Monitor: "unconfirmed",
				What: "model and implementation disagree on successive RecvMsg calls (" + gen + ")"})
		}
	}
	if normEndTok(model, o) != impl || mon != "" {
		d := lib.Disagreement{Op: op, Model: model, Impl: impl, Branch: branch, Key: "framing.sess:" + gen}
		if mon != "" {
			d.Monitor, d.What = "confirmed", mon
		} else {
			d.Monitor, d.What = "unconfirmed", "model and implementation disagree on session framing ("+gen+")"
		}
		e.rep.Disagree(d)
	}
}

func q(b []byte) string {
	s := lib.Hex(b)
	if len(s) > 48 {
		s = s[:48] + "…"
	}
	return s
}

// writeCapture records what the real writers put on the wire.
type writeCapture struct{ writes [][]byte }

func (w *writeCapture) Read(p []byte) (int, error) { select {} }
func (w *writeCapture) Write(p []byte) (int, error) {
	w.writes = append(w.writes, append([]byte(nil), p...))
	return len(p), nil
}
func (w *writeCapture) Close() error { return nil }

func (e *engine) runC08() {
	e.rep.Rule = "packet streams: 0–40 packets (sizes 1..max incl. max) framed by the real writers, re-chunked 4 ways; corrupted prefixes (zero, over-limit) at a random packet; truncation; small reader buffers; writer side: 3–7 goroutines × 1–12 tagged packets through the real WriteTo (stream that holds the caller's slice over a scheduling point and copies late) and the real SendMsg (stream without atomic writes), single-P forced schedules and free-running, wire read back through the real reader; one underlying Write taking full / n-1 / 0 / header only / random part / failing; receive side also with the final bytes arriving together with io.EOF or a custom error, a consumer lagging behind a full queue until the pump reached the end of the stream, 3 further ReadFrom / RecvMsg calls after the first error (every call compared with the call-level model), an over-limit prefix followed by well-formed frames, one merging message object re-used without Reset, framed bursts against a lagging ReadFrom (queue capacity 1/2/3/32) with WriteTo sharing the arena; distinct = distinct op line"
	e.rep.Require("pkt.end.eof", "pkt.end.ueof", "pkt.end.zero", "pkt.end.large", "sess.end.eof", "sess.end.ueof", "sess.end.large", "frame",
		"pkt.last", "pkt.lag", "pkt.customerr", "sess.last", "sess.reuse", "sess.calls", "sess.calls.sticky")
	n := 100 * e.a.Scale
	for i := 0; i < n; i++ {
		max := uint32(1 + e.rng.Intn(300))
		if i%7 == 0 {
			max = 2000
		}
		np := e.rng.Intn(12)
		if i%10 == 0 {
			np = 40
		}
		var pkts [][]byte
		for j := 0; j < np; j++ {
			l := 1 + e.rng.Intn(int(max))
			if e.rng.Intn(5) == 0 {
				l = int(max)
			}
			pkts = append(pkts, e.rng.Bytes(l))
		}
		// frame with the real writers, one Write per packet
		wc := &writeCapture{}
		ctx, cancel := context.WithCancel(context.Background())
		pc := rwc.NewPacketConn(ctx, wc, addr("l"), addr("r"), max, 3)
		var stream []byte
		for _, p := range pkts {
			before := len(wc.writes)
			_, err := pc.WriteTo(p, addr("r"))
			if err != nil || len(wc.writes) != before+1 {
				e.rep.Disagree(lib.Disagreement{Op: fmt.Sprintf("WriteTo(%d bytes)", len(p)), Impl: fmt.Sprint(err, " writes=", len(wc.writes)-before), Monitor: "confirmed", What: "PacketConn.WriteTo put one packet on the stream in more than one Write: concurrent writers can interleave header and payload, so packet boundaries are not preserved", Key: "framing.pkt:write"})
			}
			var fr []byte // everything this WriteTo put on the wire
			for _, wpart := range wc.writes[before:] {
				fr = append(fr, wpart...)
			}
			mf := e.m.Query("framing.frame p=" + lib.Hex(p))
			e.rep.Case("framing.frame p="+lib.Hex(p), mf, "ok "+lib.Hex(fr), "frame", true)
			if mf != "ok "+lib.Hex(fr) {
				e.rep.Disagree(lib.Disagreement{Op: "framing.frame p=" + lib.Hex(p), Model: trunc(mf), Impl: trunc(lib.Hex(fr)), Monitor: "unconfirmed", What: "WriteTo frame differs from model", Key: "framing.frame"})
			}
			stream = append(stream, fr...)
		}
		cancel()
		var want []string
		for _, p := range pkts {
			want = append(want, lib.Hex(p))
		}
		if want == nil {
			want = []string{}
		}
		variant := i % 6
		wantEnd := "eof"
		gen := "honest"
		var bufs []int
		switch variant {
		case 1: // zero prefix after k packets
			gen = "zero-prefix"
			k := e.rng.Intn(np + 1)
			off := 0
			for j := 0; j < k; j++ {
				off += 4 + len(pkts[j])
			}
			stream = append(append(append([]byte(nil), stream[:off]...), 0, 0, 0, 0), stream[off:]...)
			want = want[:k]
			wantEnd = "err"
		case 2: // over-limit prefix after k packets
			gen = "over-limit-prefix"
			k := e.rng.Intn(np + 1)
			off := 0
			for j := 0; j < k; j++ {
				off += 4 + len(pkts[j])
			}
			stream = append(append(append([]byte(nil), stream[:off]...), le32(max+1+uint32(e.rng.Intn(5)))...), stream[off:]...)
			if e.rng.Intn(3) == 0 {
				stream = append(stream[:off:off], 0xff, 0xff, 0xff, 0xff)
			}
			want = want[:k]
			wantEnd = "err"
		case 3: // truncated
			gen = "truncated"
			if len(stream) > 0 {
				cut := e.rng.Intn(len(stream))
				stream = stream[:cut]
				k, off := 0, 0
				for k < np && off+4+len(pkts[k]) <= cut {
					off += 4 + len(pkts[k])
					k++
				}
				want = want[:k]
				if off == cut {
					wantEnd = "eof"
				} else if cut-off == 4 {
					wantEnd = "eof" // header complete, body read got EOF with nothing read
				} else {
					wantEnd = "ueof"
				}
			}
		case 4: // small reader buffers
			gen = "short-buffer"
			want = nil
			for j := 0; j < np; j++ {
				b := e.rng.Intn(len(pkts[j]) + 2)
				bufs = append(bufs, b)
			}
		}
		chunks := e.rng.Chunk(stream, i%4)
		if variant == 4 {
			// expectation computed directly
			want = []string{}
			for j := 0; j < np; j++ {
				if bufs[j] < len(pkts[j]) {
					want = append(want, lib.Hex(pkts[j][:bufs[j]])+"!")
				} else {
					want = append(want, lib.Hex(pkts[j]))
				}
			}
		}
		o := rxOpts{last: i%2 == 1, lag: i%3 == 0}
		if i%5 == 2 {
			o.endErr = &endError{code: 1 + e.rng.Intn(9)}
		}
		e.pktCase(max, chunks, bufs, gen, want, wantEnd, o)

		// Session: same packets as messages (plus empty messages), framed by SendMsg
		wc2 := &writeCapture{}
		s := stream_packet.NewSession(wc2, max)
		var sstream []byte
		var swant []string
		msgs := pkts
		if i%3 == 0 {
			msgs = append([][]byte{{}}, msgs...)
			if len(msgs) > 2 {
				msgs[2] = nil
			}
		}
		for _, p := range msgs {
			before := len(wc2.writes)
			if err := s.SendMsg(&rawMsg{data: p}); err != nil || len(wc2.writes) != before+1 {
				e.rep.Disagree(lib.Disagreement{Op: "SendMsg", Impl: fmt.Sprint(err), Monitor: "confirmed", What: "SendMsg did not issue exactly one write per message", Key: "framing.sess:write"})
			}
			for _, wpart := range wc2.writes[before:] {
				sstream = append(sstream, wpart...)
			}
			swant = append(swant, lib.Hex(p))
		}
		if swant == nil {
			swant = []string{}
		}
		sEnd := "eof"
		sgen := "honest"
		switch variant {
		case 2:
			sgen = "over-limit-prefix"
			k := e.rng.Intn(len(msgs) + 1)
			off := 0
			for j := 0; j < k; j++ {
				off += 4 + len(msgs[j])
			}
			sstream = append(append(append([]byte(nil), sstream[:off]...), le32(max+1)...), sstream[off:]...)
			swant = swant[:k]
			sEnd = "err"
		case 3:
			sgen = "truncated"
			if len(sstream) > 0 {
				cut := e.rng.Intn(len(sstream))
				sstream = sstream[:cut]
				k, off := 0, 0
				for k < len(msgs) && off+4+len(msgs[k]) <= cut {
					off += 4 + len(msgs[k])
					k++
				}
				swant = swant[:k]
				if off == cut || cut-off == 4 {
					sEnd = "eof"
				} else {
					sEnd = "ueof"
				}
			}
		}
		e.sessCase(max, e.rng.Chunk(sstream, (i+1)%4), sgen, swant, sEnd, rxOpts{last: o.last, endErr: o.endErr}, i%4 < 2)
		if i < 12 {
			// sentinel: an over-limit prefix whose announced "message" consists of well-formed frames.
			// A session that does not end at the bad prefix returns them as messages on the next calls.
			var inner []byte
			for j := 0; j < 3; j++ {
				b := e.rng.Bytes(1 + e.rng.Intn(int(min(max, 6))))
				inner = append(append(inner, le32(uint32(len(b)))...), b...)
			}
			k := e.rng.Intn(len(msgs) + 1)
			off := 0
			for j := 0; j < k; j++ {
				off += 4 + len(msgs[j])
			}
			var good []byte
			var gwant []string
			for j := 0; j < k; j++ {
				good = append(append(good, le32(uint32(len(msgs[j])))...), msgs[j]...)
				gwant = append(gwant, lib.Hex(msgs[j]))
			}
			if gwant == nil {
				gwant = []string{}
			}
			bad := append(append(good, le32(max+uint32(len(inner))+1)...), inner...)
			e.sessCase(max, e.rng.Chunk(bad, i%4), "over-limit-then-frames", gwant, "err", rxOpts{last: i%2 == 0}, i%2 == 1)
		}
	}
}

// ---- C09 ----

func (e *engine) runC09() {
	e.rep.Rule = "buffered conn: random chunk streams (chunk sizes 1..6000, crossing the 2048 pump buffer) read with buffer sizes 0..4096; Conn.Write of 0..7000 bytes against writers taking 1 / 7 / 2047 / 2048 / 2049 / mixed / 0 bytes per call, failing at a random call in a third of the cases; streams ending with io.EOF or a custom error value, alone or in the same Read as the last chunk (chunks up to 5 KiB, empty chunks), read to the end and 3–5 reads beyond; final chunk + error behind a full queue (capacity 1..3, consumer lagging by exactly the capacity); order monitor kept on after reported short buffers; bursts with queue capacity 1/2/3/32; Close and expired read deadlines with data queued; distinct = distinct op line"
	e.rep.Require("conn.short", "conn.noshort", "conn.split")
	n := 150 * e.a.Scale
	for i := 0; i < n; i++ {
		var chunks [][]byte
		nc := 1 + e.rng.Intn(6)
		split := false
		for j := 0; j < nc; j++ {
			l := 1 + e.rng.Intn(30)
			switch e.rng.Intn(6) {
			case 0:
				l = 2040 + e.rng.Intn(20)
			case 1:
				l = 4090 + e.rng.Intn(2000)
			}
			if l > 2048 {
				split = true
			}
			chunks = append(chunks, e.rng.Bytes(l))
		}
		var bufs []int
		nb := 1 + e.rng.Intn(10)
		for j := 0; j < nb; j++ {
			switch e.rng.Intn(5) {
			case 0:
				bufs = append(bufs, e.rng.Intn(8))
			case 1:
				bufs = append(bufs, 2047+e.rng.Intn(3))
			default:
				bufs = append(bufs, 4096)
			}
		}
		if i%3 == 0 {
			for j := range bufs {
				bufs[j] = 2048 + e.rng.Intn(3000)
			}
		}
		bs := make([]string, len(bufs))
		for j := range bufs {
			bs[j] = strconv.Itoa(bufs[j])
		}
		op := fmt.Sprintf("framing.conn k=2048 chunks=%s bufs=%s", lib.HexList(chunks), strings.Join(bs, ","))
		model := stripKV(e.m.Query(op), "queued")
		var all []byte
		for _, c := range chunks {
			all = append(all, c...)
		}
		mon := ""
		impl := lib.Recover(func() string {
			ctx, cancel := context.WithCancel(context.Background())
			defer cancel()
			r := &chunkReader{chunks: cloneChunks(chunks)}
			c := rwc.NewConn(ctx, r, addr("l"), addr("r"), 3)
			var reads []string
			pos, pi := 0, 0
			// where each pump read ends in the stream: one underlying chunk per Read, cut to 2048
			var pieceEnd []int
			off := 0
			for _, ch := range chunks {
				for l := len(ch); l > 0; l -= min(l, 2048) {
					off += min(l, 2048)
					pieceEnd = append(pieceEnd, off)
				}
			}
			for _, bl := range bufs {
				buf := make([]byte, bl)
				_ = c.SetReadDeadline(time.Now().Add(10 * time.Second))
				nr, err := c.Read(buf)
				if err != nil && err != io.ErrShortBuffer {
					if err != io.EOF {
						mon = "conn ended with " + err.Error() + " instead of EOF"
					}
					break
				}
				// property monitor (model-independent): every Read returns the NEXT unread bytes of the
				// written stream; bytes are skipped only by a Read that reported io.ErrShortBuffer, and
				// then no more than the rest of the one pump read (<= 2048 bytes of one underlying
				// chunk) it was serving — so the position after a short read is known too.
				if pi >= len(pieceEnd) {
					mon = "conn read returned data beyond the end of the written stream"
					break
				}
				if pos+nr > len(all) || string(all[pos:pos+nr]) != string(buf[:nr]) {
					if mon == "" {
						mon = fmt.Sprintf("conn read #%d returned bytes that are not the next unread bytes (stream offset %d; every byte skipped so far was covered by a reported short buffer)", pi, pos)
					}
				}
				if err == io.ErrShortBuffer {
					if pos+nr >= pieceEnd[pi] && mon == "" {
						mon = fmt.Sprintf("conn read #%d reported a short buffer although nothing was left to discard", pi)
					}
					reads = append(reads, lib.Hex(buf[:nr])+"!")
				} else {
					if pos+nr != pieceEnd[pi] && mon == "" {
						mon = fmt.Sprintf("conn read #%d returned %d bytes without reporting a short buffer, but the pump read it served holds %d: bytes were dropped or merged silently", pi, nr, pieceEnd[pi]-pos)
					}
					reads = append(reads, lib.Hex(buf[:nr]))
				}
				pos = pieceEnd[pi]
				pi++
			}
			rs := "_"
			if len(reads) > 0 {
				rs = strings.Join(reads, ",")
			}
			return "reads=" + rs
		})
		branch := "conn.noshort"
		if strings.Contains(model, "!") {
			branch = "conn.short"
		}
		e.rep.Case(op, model, impl, branch, true)
		if split {
			e.rep.Branches["conn.split"]++
		}
		if model != impl || mon != "" {
			d := lib.Disagreement{Op: op, Model: trunc(model), Impl: trunc(impl), Branch: branch, Key: "framing.conn"}
			if mon != "" {
				d.Monitor, d.What = "confirmed", mon
			} else {
				d.Monitor, d.What = "unconfirmed", "model and implementation disagree on buffered conn reads"
			}
			e.rep.Disagree(d)
		}
	}
}

// runC09Burst: writer bursts against a lagging reader (buffers recycled through the arena
// while packets are still queued): push / read schedules with the reader buffer always large.
func (e *engine) runC09Burst() {
	e.rep.Require("conn.burst")
	prev := runtime.GOMAXPROCS(1) // sync.Pool is per-P: make buffer recycling deterministic
	defer runtime.GOMAXPROCS(prev)
	n := 30 * e.a.Scale
	for i := 0; i < n; i++ {
		sizes := []int{1500, 548, 2048}
		if i > 0 {
			sizes = nil
			for j := 0; j < 3+e.rng.Intn(6); j++ {
				sizes = append(sizes, []int{1, 100, 500, 548, 1000, 1500, 2047, 2048}[e.rng.Intn(8)])
			}
		}
		var chunks [][]byte
		var all []byte
		for j, sz := range sizes {
			c := make([]byte, sz)
			for k := range c {
				c[k] = byte('A' + j)
			}
			chunks = append(chunks, c)
			all = append(all, c...)
		}
		ctx, cancel := context.WithCancel(context.Background())
		g := &gatedReader{ch: make(chan []byte, 64)}
		c := rwc.NewConn(ctx, g, addr("l"), addr("r"), []int{32, 2, 1, 32, 3}[i%5])
		var got []byte
		mon := ""
		readOne := func() {
			buf := make([]byte, 4096)
			_ = c.SetReadDeadline(time.Now().Add(5 * time.Second))
			nr, err := c.Read(buf)
			if err != nil {
				mon = "read failed: " + err.Error()
				return
			}
			got = append(got, buf[:nr]...)
		}
		// schedule: push first, read it, then push the rest as a burst, let the pump run, then drain
		g.ch <- chunks[0]
		readOne()
		for _, ch := range chunks[1:] {
			g.ch <- ch
			if e.rng.Intn(3) == 0 {
				time.Sleep(200 * time.Microsecond)
			}
		}
		time.Sleep(2 * time.Millisecond)
		for len(got) < len(all) && mon == "" {
			readOne()
		}
		cancel()
		close(g.ch)
		if mon == "" && string(got) != string(all) {
			off := 0
			for off < len(got) && off < len(all) && got[off] == all[off] {
				off++
			}
			mon = fmt.Sprintf("bytes read from the buffered conn differ from the bytes written at offset %d (writer burst with a lagging reader; no short buffer was reported)", off)
		}
		op := fmt.Sprintf("framing.conn.burst sizes=%v", sizes)
		e.rep.Compare(op, "x", "x", "conn.burst", "framing.conn:burst", mon)
	}
}

func main() {
	a := lib.ParseArgs()
	e := &engine{a: a, rng: lib.NewRng(a.Seed), m: lib.NewModel(a.Driver), rep: nil}
	e.rep = lib.NewReport("framing", a)
	switch a.Prop {
	case "C07":
		e.runC07()
	case "C08":
		e.runC08()
		e.runC08Burst()
		e.runC08Writers()
	case "C09":
		e.runC09()
		e.runC09Burst()
		e.runC09Write()
		e.runC09End()
		e.runC09Close()
	default:
		fmt.Println("unknown property", a.Prop)
		return
	}
	e.m.Close()
	e.rep.Write(a.Out)
}
