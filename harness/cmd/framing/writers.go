package main

// Writer side of C08 (concurrent writers on rwc.PacketConn.WriteTo / stream_packet.Session.SendMsg,
// short and failing writes) and of C09 (rwc.Conn.Write against an underlying writer that takes k
// bytes per call or fails midway; end of stream with an underlying error).

import (
	"context"
	"encoding/binary"
	"errors"
	"fmt"
	"io"
	"os"
	"runtime"
	"strconv"
	"strings"
	"sync"
	"sync/atomic"
	"time"

	stream_packet "github.com/aperturerobotics/bifrost/stream/packet"
	"github.com/aperturerobotics/bifrost/util/rwc"

	"verif/harness/lib"
	"verif/harness/quiet"
)

// ---------------------------------------------------------------------------------------------
// recording streams

// recWriter is an underlying stream whose Write is atomic with respect to other writers (the
// assumption PacketConn.WriteTo makes) but, like any real stream, reads the caller's buffer at
// some point DURING the call: it keeps the slice it was handed, lets other goroutines run, and
// only then copies it. A buffer recycled while its Write is still in progress shows up as a
// difference between the copy at entry and the copy at exit.
type recWriter struct {
	mu       sync.Mutex
	entry    [][]byte // copy at entry of each Write, in entry order
	exit     [][]byte // lazy copy (what a stream that copies late would transmit), same index
	order    []int    // indices in completion (= wire) order
	yields   int
	inflight atomic.Int32
	maxIn    atomic.Int32
}

func (w *recWriter) Read(p []byte) (int, error) { select {} }
func (w *recWriter) Close() error               { return nil }
func (w *recWriter) Write(p []byte) (int, error) {
	in := w.inflight.Add(1)
	for {
		m := w.maxIn.Load()
		if in <= m || w.maxIn.CompareAndSwap(m, in) {
			break
		}
	}
	w.mu.Lock()
	idx := len(w.entry)
	w.entry = append(w.entry, append([]byte(nil), p...))
	w.exit = append(w.exit, nil)
	w.mu.Unlock()
	for i := 0; i < w.yields; i++ {
		runtime.Gosched()
	}
	late := append([]byte(nil), p...) // the slice is still ours until we return
	w.mu.Lock()
	w.exit[idx] = late
	w.order = append(w.order, idx)
	w.mu.Unlock()
	w.inflight.Add(-1)
	return len(p), nil
}

// wire returns the frames in wire order (late copies).
func (w *recWriter) wire() [][]byte {
	out := make([][]byte, 0, len(w.order))
	for _, i := range w.order {
		out = append(out, w.exit[i])
	}
	return out
}

// splitWriter is an underlying stream WITHOUT atomic writes: each Write is transmitted in two
// pieces with a scheduling point in between, so two overlapping Write calls interleave their
// bytes on the wire. Session.SendMsg has to serialise its writes itself (sendMtx).
type splitWriter struct {
	mu       sync.Mutex
	wireB    []byte
	calls    int
	yields   int
	inflight atomic.Int32
	maxIn    atomic.Int32
}

func (w *splitWriter) Read(p []byte) (int, error) { select {} }
func (w *splitWriter) Close() error               { return nil }
func (w *splitWriter) Write(p []byte) (int, error) {
	in := w.inflight.Add(1)
	for {
		m := w.maxIn.Load()
		if in <= m || w.maxIn.CompareAndSwap(m, in) {
			break
		}
	}
	h := len(p) / 2
	w.mu.Lock()
	w.calls++
	w.wireB = append(w.wireB, p[:h]...)
	w.mu.Unlock()
	for i := 0; i < w.yields; i++ {
		runtime.Gosched()
	}
	w.mu.Lock()
	w.wireB = append(w.wireB, p[h:]...)
	w.mu.Unlock()
	w.inflight.Add(-1)
	return len(p), nil
}

// parseFrames cuts a wire into length-prefixed frames using encoding/binary only.
func parseFrames(wire []byte) (payloads [][]byte, ok bool) {
	for len(wire) > 0 {
		if len(wire) < 4 {
			return payloads, false
		}
		n := int(binary.LittleEndian.Uint32(wire))
		if len(wire)-4 < n {
			return payloads, false
		}
		payloads = append(payloads, wire[4:4+n])
		wire = wire[4+n:]
	}
	return payloads, true
}

// checkInterleaving is the model-independent statement of the concurrent-writers clause: the
// payloads on the wire are exactly the submitted packets, each once, unmodified, and every
// writer's packets appear in the order that writer submitted them. Returns the schedule
// (writer index per wire position) when it holds.
func checkInterleaving(writers [][][]byte, got [][]byte) (sched []int, verdict string) {
	next := make([]int, len(writers))
	for pos, g := range got {
		// payloads are tagged: byte 0 = writer, byte 1 = sequence number (see genWriters)
		found := -1
		for w := range writers {
			if next[w] < len(writers[w]) && string(writers[w][next[w]]) == string(g) {
				found = w
				break
			}
		}
		if found < 0 {
			// classify
			for w := range writers {
				for k := range writers[w] {
					if string(writers[w][k]) == string(g) {
						if k < next[w] {
							return nil, fmt.Sprintf("packet %d of writer %d is on the wire twice (position %d)", k, w, pos)
						}
						return nil, fmt.Sprintf("packet %d of writer %d is on the wire before that writer's packet %d (position %d)", k, w, next[w], pos)
					}
				}
			}
			return nil, fmt.Sprintf("payload at wire position %d (%d bytes) is none of the submitted packets: %s", pos, len(g), trunc(lib.Hex(g)))
		}
		next[found]++
		sched = append(sched, found)
	}
	for w := range writers {
		if next[w] != len(writers[w]) {
			return nil, fmt.Sprintf("packet %d of writer %d never reached the wire", next[w], w)
		}
	}
	return sched, ""
}

// genWriters builds nw writers × np tagged packets. sameLen > 0 forces one common length.
func (e *engine) genWriters(nw, np int, max uint32, sameLen int, allowEmpty bool) [][][]byte {
	ws := make([][][]byte, nw)
	for w := 0; w < nw; w++ {
		for k := 0; k < np; k++ {
			l := sameLen
			if l == 0 {
				l = 2 + e.rng.Intn(int(max)-1)
				if e.rng.Intn(6) == 0 {
					l = int(max)
				}
			}
			p := e.rng.Bytes(l)
			p[0], p[1] = byte(w), byte(k)
			if allowEmpty && e.rng.Intn(9) == 0 && w == 0 {
				// at most the first writer sends empty messages (they are all equal, so one writer only)
				p = nil
			}
			ws[w] = append(ws[w], p)
		}
	}
	return ws
}

func writersArg(ws [][][]byte) string {
	var sb strings.Builder
	fmt.Fprintf(&sb, "n=%d", len(ws))
	for i, w := range ws {
		fmt.Fprintf(&sb, " w%d=%s", i, lib.HexList(w))
	}
	return sb.String()
}

func intsArg(l []int) string {
	if len(l) == 0 {
		return "_"
	}
	s := make([]string, len(l))
	for i := range l {
		s[i] = strconv.Itoa(l[i])
	}
	return strings.Join(s, ",")
}

// ---------------------------------------------------------------------------------------------
// C08: concurrent writers

// concPkt runs nw goroutines calling the real PacketConn.WriteTo concurrently.
func (e *engine) concPkt(det bool, i int) {
	max := uint32(40 + e.rng.Intn(200))
	nw, np, same := 2+e.rng.Intn(6), 1+e.rng.Intn(12), 0
	yields := e.rng.Intn(3)
	if det {
		// deterministic schedule: one P (sync.Pool is per-P), every Write yields to all other
		// writers while it holds the caller's buffer; equal sizes so that a recycled buffer fits
		nw, np, same = 3+e.rng.Intn(3), 2+e.rng.Intn(3), 8+e.rng.Intn(int(max)-8)
		yields = 4 * nw
	}
	writers := e.genWriters(nw, np, max, same, false)
	rw := &recWriter{yields: yields}
	ctx, cancel := context.WithCancel(context.Background())
	defer cancel()
	pc := rwc.NewPacketConn(ctx, rw, addr("l"), addr("r"), max, 3)
	var mu sync.Mutex
	callMon := ""
	run := func() {
		var wg sync.WaitGroup
		for w := range writers {
			wg.Add(1)
			go func(w int) {
				defer wg.Done()
				for k, p := range writers[w] {
					n, err := pc.WriteTo(p, addr("r"))
					if err != nil || n != len(p) {
						mu.Lock()
						callMon = fmt.Sprintf("WriteTo of packet %d of writer %d (%d bytes) on a stream that takes every write in full returned (%d, %v)", k, w, len(p), n, err)
						mu.Unlock()
					}
				}
			}(w)
		}
		wg.Wait()
	}
	if det {
		prev := runtime.GOMAXPROCS(1)
		run()
		runtime.GOMAXPROCS(prev)
	} else {
		run()
	}
	// model-independent monitor
	mon := callMon
	frames := rw.wire()
	var payloads [][]byte
	var wire []byte
	for k, idx := range rw.order {
		if mon == "" && string(rw.entry[idx]) != string(rw.exit[idx]) {
			mon = fmt.Sprintf("the buffer handed to Write call %d of the underlying stream changed while that Write was still in progress (entry %s, at return %s): a frame buffer was recycled and overwritten by a concurrent writer before its write had completed", idx, trunc(lib.Hex(rw.entry[idx])), trunc(lib.Hex(rw.exit[idx])))
		}
		f := frames[k]
		wire = append(wire, f...)
		if len(f) < 4 || int(binary.LittleEndian.Uint32(f)) != len(f)-4 {
			if mon == "" {
				mon = fmt.Sprintf("Write call %d of the underlying stream is not one whole frame (%d bytes: %s)", idx, len(f), trunc(lib.Hex(f)))
			}
			continue
		}
		payloads = append(payloads, f[4:])
	}
	var sched []int
	if mon == "" {
		var v string
		sched, v = checkInterleaving(writers, payloads)
		if v != "" {
			mon = "concurrent WriteTo: " + v
		}
	}
	gen := "concurrent-free"
	branch := "conc.pkt.free"
	if det {
		gen, branch = "concurrent-det", "conc.pkt.det"
	}
	if rw.maxIn.Load() > 1 {
		e.rep.Branches["conc.pkt.overlap"]++
	}
	op := fmt.Sprintf("framing.wsched %s sched=%s", writersArg(writers), intsArg(sched))
	if mon != "" {
		e.rep.Compare(op, "x", "y", branch, "framing.pkt:"+gen, mon)
		return
	}
	model := e.m.Query(op)
	impl := fmt.Sprintf("order=%s wire=%s left=0", lib.HexList(payloads), lib.Hex(wire))
	e.rep.Compare(op, model, impl, branch, "framing.pkt:"+gen, "")
	// read the recorded wire back through the real reader, re-chunked
	var want []string
	for _, p := range payloads {
		want = append(want, lib.Hex(p))
	}
	e.pktCase(max, e.rng.Chunk(wire, i%4), nil, gen+"-readback", want, "eof", rxOpts{})
}

// concSess runs nw goroutines calling the real Session.SendMsg concurrently on a stream whose
// writes are not atomic.
func (e *engine) concSess(det bool, i int) {
	max := uint32(40 + e.rng.Intn(200))
	nw, np := 2+e.rng.Intn(6), 1+e.rng.Intn(10)
	yields := 1 + e.rng.Intn(3)
	if det {
		nw, np = 3+e.rng.Intn(3), 2+e.rng.Intn(3)
		yields = 4 * nw
	}
	writers := e.genWriters(nw, np, max, 0, true)
	sw := &splitWriter{yields: yields}
	s := stream_packet.NewSession(sw, max)
	var mu sync.Mutex
	callMon := ""
	run := func() {
		var wg sync.WaitGroup
		for w := range writers {
			wg.Add(1)
			go func(w int) {
				defer wg.Done()
				for k, p := range writers[w] {
					if err := s.SendMsg(&rawMsg{data: p}); err != nil {
						mu.Lock()
						callMon = fmt.Sprintf("SendMsg of message %d of writer %d on a stream that takes every write in full returned %v", k, w, err)
						mu.Unlock()
					}
				}
			}(w)
		}
		wg.Wait()
	}
	if det {
		prev := runtime.GOMAXPROCS(1)
		run()
		runtime.GOMAXPROCS(prev)
	} else {
		run()
	}
	mon := callMon
	total := 0
	for _, w := range writers {
		total += len(w)
	}
	payloads, ok := parseFrames(sw.wireB)
	var sched []int
	if mon == "" {
		if !ok {
			mon = fmt.Sprintf("concurrent SendMsg on a stream without atomic writes: the wire is not a sequence of whole frames (%d write calls, up to %d in progress at once): messages were interleaved", sw.calls, sw.maxIn.Load())
		} else if sw.calls != total {
			mon = fmt.Sprintf("concurrent SendMsg: %d messages were sent with %d writes", total, sw.calls)
		} else {
			var v string
			sched, v = checkInterleaving(writers, payloads)
			if v != "" {
				mon = fmt.Sprintf("concurrent SendMsg on a stream without atomic writes (up to %d writes in progress at once): %s", sw.maxIn.Load(), v)
			}
		}
	}
	gen := "concurrent-free"
	branch := "conc.sess.free"
	if det {
		gen, branch = "concurrent-det", "conc.sess.det"
	}
	op := fmt.Sprintf("framing.wsched %s sched=%s", writersArg(writers), intsArg(sched))
	if mon != "" {
		e.rep.Compare(op, "x", "y", branch, "framing.sess:"+gen, mon)
		return
	}
	model := e.m.Query(op)
	impl := fmt.Sprintf("order=%s wire=%s left=0", lib.HexList(payloads), lib.Hex(sw.wireB))
	e.rep.Compare(op, model, impl, branch, "framing.sess:"+gen, "")
	var want []string
	for _, p := range payloads {
		want = append(want, lib.Hex(p))
	}
	e.sessCase(max, e.rng.Chunk(sw.wireB, i%4), gen+"-readback", want, "eof", rxOpts{}, false)
}

// ---------------------------------------------------------------------------------------------
// C08: short / failing writes

var errStub = errors.New("verif: underlying write failed")

// stubWriter takes `accept` bytes of the one Write it expects and reports err.
type stubWriter struct {
	accept int
	err    error
	got    []byte
	calls  int
}

func (w *stubWriter) Read(p []byte) (int, error) { select {} }
func (w *stubWriter) Close() error               { return nil }
func (w *stubWriter) Write(p []byte) (int, error) {
	w.calls++
	n := w.accept
	if n > len(p) {
		n = len(p)
	}
	w.got = append(w.got, p[:n]...)
	return n, w.err
}

func (e *engine) shortWrites() {
	n := 40 * e.a.Scale
	for i := 0; i < n; i++ {
		p := e.rng.Bytes(1 + e.rng.Intn(40))
		full := len(p) + 4
		var accept int
		var werr error
		class := ""
		switch i % 8 {
		case 0:
			accept, class = full, "full"
		case 1:
			accept, class = full-1, "n-1"
		case 2:
			accept, class = 0, "zero"
		case 3:
			accept, class = e.rng.Intn(full), "partial"
		case 4:
			accept, werr, class = e.rng.Intn(full), errStub, "partial-err"
		case 5:
			accept, werr, class = full, errStub, "full-err"
		case 6:
			accept, class = 4, "header-only"
		case 7:
			accept, class = full+3, "full"
		}
		ei := 0
		if werr != nil {
			ei = 1
		}
		// PacketConn.WriteTo
		{
			op := fmt.Sprintf("framing.writeto p=%s acc=%d err=%d", lib.Hex(p), accept, ei)
			model := e.m.Query(op)
			sw := &stubWriter{accept: accept, err: werr}
			var rn int
			var rerr error
			impl := lib.Recover(func() string {
				ctx, cancel := context.WithCancel(context.Background())
				defer cancel()
				pc := rwc.NewPacketConn(ctx, sw, addr("l"), addr("r"), 1000, 3)
				rn, rerr = pc.WriteTo(p, addr("r"))
				st := "ok"
				if rerr != nil {
					st = "err"
				}
				return fmt.Sprintf("%s n=%d wire=%s", st, rn, lib.Hex(sw.got))
			})
			mon := ""
			wantFrame := append(le32(uint32(len(p))), p...)
			switch {
			case strings.HasPrefix(impl, "panic"):
				mon = "WriteTo panicked: " + trunc(impl)
			case rerr == nil && string(sw.got) != string(wantFrame):
				mon = fmt.Sprintf("WriteTo(%d-byte packet) returned (%d, nil) although the underlying stream took only %d of the %d frame bytes (Write returned (%d, %v)): silent truncation, the next frame will be misread", len(p), rn, len(sw.got), full, len(sw.got), werr)
			case rerr == nil && rn != len(p):
				mon = fmt.Sprintf("WriteTo(%d-byte packet) returned (%d, nil)", len(p), rn)
			case rerr != nil && werr == nil && len(sw.got) == full:
				mon = fmt.Sprintf("WriteTo returned error %v although the underlying stream took the whole frame without error", rerr)
			case werr != nil && rerr != werr:
				mon = fmt.Sprintf("underlying write failed with %v but WriteTo returned %v", werr, rerr)
			case sw.calls != 1:
				mon = fmt.Sprintf("WriteTo issued %d writes for one packet", sw.calls)
			}
			br := "write.pkt." + strings.SplitN(model, " ", 2)[0]
			e.rep.Compare(op, model, impl, br, "framing.pkt:write-"+class, mon)
		}
		// Session.SendMsg (empty messages too)
		{
			m := p
			if i%5 == 0 {
				m = nil
				if accept > 4 {
					accept = 4
				}
				if i%8 == 1 || i%8 == 3 {
					accept = e.rng.Intn(4)
				}
			}
			fullm := len(m) + 4
			op := fmt.Sprintf("framing.sendmsg p=%s acc=%d err=%d", lib.Hex(m), accept, ei)
			model := e.m.Query(op)
			sw := &stubWriter{accept: accept, err: werr}
			var rerr error
			impl := lib.Recover(func() string {
				s := stream_packet.NewSession(sw, 1000)
				rerr = s.SendMsg(&rawMsg{data: m})
				st := "ok"
				if rerr != nil {
					st = "err"
				}
				return fmt.Sprintf("%s wire=%s", st, lib.Hex(sw.got))
			})
			mon := ""
			wantFrame := append(le32(uint32(len(m))), m...)
			switch {
			case strings.HasPrefix(impl, "panic"):
				mon = "SendMsg panicked: " + trunc(impl)
			case rerr == nil && string(sw.got) != string(wantFrame):
				mon = fmt.Sprintf("SendMsg(%d-byte message) returned nil although the underlying stream took only %d of the %d frame bytes (Write returned (%d, %v)): silent truncation, the next frame will be misread", len(m), len(sw.got), fullm, len(sw.got), werr)
			case rerr != nil && werr == nil && len(sw.got) == fullm:
				mon = fmt.Sprintf("SendMsg returned error %v although the underlying stream took the whole frame without error", rerr)
			case werr != nil && rerr != werr:
				mon = fmt.Sprintf("underlying write failed with %v but SendMsg returned %v", werr, rerr)
			case sw.calls != 1:
				mon = fmt.Sprintf("SendMsg issued %d writes for one message", sw.calls)
			}
			br := "write.sess." + strings.SplitN(model, " ", 2)[0]
			e.rep.Compare(op, model, impl, br, "framing.sess:write-"+class, mon)
		}
	}
}

func (e *engine) runC08Writers() {
	e.rep.Require("conc.pkt.det", "conc.pkt.free", "conc.sess.det", "conc.sess.free",
		"write.pkt.ok", "write.pkt.err", "write.sess.ok", "write.sess.err")
	n := 8 * e.a.Scale
	for i := 0; i < n; i++ {
		e.concPkt(true, i)
		e.concPkt(false, i)
		e.concSess(true, i)
		e.concSess(false, i)
	}
	e.shortWrites()
}

// ---------------------------------------------------------------------------------------------
// C09: Conn.Write

var errTooManyCalls = errors.New("verif: Write called again after the script was exhausted")

// scriptWriter takes ks[i] bytes on its i-th call and fails there if es[i].
type scriptWriter struct {
	ks    []int
	es    []bool
	pkt   []byte // what the caller was asked to write (for the per-call check)
	got   []byte
	calls int
	bad   string
}

func (w *scriptWriter) Read(p []byte) (int, error) { select {} }
func (w *scriptWriter) Close() error               { return nil }
func (w *scriptWriter) Write(p []byte) (int, error) {
	i := w.calls
	w.calls++
	if w.bad == "" && (len(w.got) > len(w.pkt) || string(p) != string(w.pkt[len(w.got):])) {
		w.bad = fmt.Sprintf("underlying Write call %d was handed %d bytes that are not the %d bytes still unwritten", i, len(p), len(w.pkt)-len(w.got))
	}
	if i >= len(w.ks) {
		return 0, errTooManyCalls
	}
	n := w.ks[i]
	if n > len(p) {
		n = len(p)
	}
	w.got = append(w.got, p[:n]...)
	if w.es[i] {
		return n, errStub
	}
	return n, nil
}

func (e *engine) runC09Write() {
	e.rep.Require("cwrite.ok", "cwrite.err", "cwrite.ok.multi", "cwrite.empty")
	n := 80 * e.a.Scale
	kset := []int{1, 7, 2047, 2048, 2049}
	for i := 0; i < n; i++ {
		k := kset[i%len(kset)]
		var l int
		switch {
		case i%17 == 0:
			l = 0
		case k == 1:
			l = 1 + e.rng.Intn(60)
		case k == 7:
			l = 1 + e.rng.Intn(200)
		default:
			l = []int{1, 2047, 2048, 2049, 4095, 4096, 4097, 6000}[e.rng.Intn(8)]
			if e.rng.Intn(3) == 0 {
				l = 1 + e.rng.Intn(7000)
			}
		}
		pkt := e.rng.Bytes(l)
		var ks []int
		var es []bool
		acc := 0
		for acc < l {
			kk := k
			switch e.rng.Intn(8) {
			case 0:
				kk = 0 // a call that takes nothing (and reports no error): the loop just calls again
			case 1:
				kk = 1 + e.rng.Intn(k+2)
			}
			ks = append(ks, kk)
			es = append(es, false)
			if kk > l-acc {
				kk = l - acc
			}
			acc += kk
		}
		failAt := -1
		if i%3 == 1 && len(ks) > 0 {
			failAt = e.rng.Intn(len(ks))
			es[failAt] = true
		}
		esI := make([]int, len(es))
		for j := range es {
			if es[j] {
				esI[j] = 1
			}
		}
		op := fmt.Sprintf("framing.connwrite pkt=%s ks=%s es=%s", lib.Hex(pkt), intsArg(ks), intsArg(esI))
		model := e.m.Query(op)
		sw := &scriptWriter{ks: ks, es: es, pkt: pkt}
		var rn int
		var rerr error
		done := make(chan string, 1)
		go func() {
			done <- lib.Recover(func() string {
				ctx, cancel := context.WithCancel(context.Background())
				defer cancel()
				c := rwc.NewConn(ctx, sw, addr("l"), addr("r"), 3)
				rn, rerr = c.Write(pkt)
				st := "ok"
				if rerr != nil {
					st = "err"
				}
				return fmt.Sprintf("%s n=%d wire=%s", st, rn, lib.Hex(sw.got))
			})
		}()
		var impl string
		select {
		case impl = <-done:
		case <-time.After(20 * time.Second):
			impl = "hang"
		}
		mon := ""
		switch {
		case impl == "hang":
			mon = "Conn.Write did not return"
		case strings.HasPrefix(impl, "panic"):
			mon = "Conn.Write panicked: " + trunc(impl)
		case sw.bad != "":
			mon = "Conn.Write: " + sw.bad
		case rerr == errTooManyCalls:
			mon = fmt.Sprintf("Conn.Write(%d bytes) kept calling the underlying writer after it had taken all %d bytes", l, len(sw.got))
		case rerr == nil && (string(sw.got) != string(pkt) || rn != l):
			mon = fmt.Sprintf("Conn.Write(%d bytes) returned (%d, nil) but the underlying writer received %d bytes (acceptance pattern %s)", l, rn, len(sw.got), trunc(intsArg(ks)))
		case rerr != nil && failAt < 0:
			mon = fmt.Sprintf("Conn.Write returned error %v although no underlying write failed", rerr)
		case rerr != nil && rerr != errStub:
			mon = fmt.Sprintf("underlying write failed with %v but Conn.Write returned %v", errStub, rerr)
		case rerr != nil && (rn != len(sw.got) || string(sw.got) != string(pkt[:len(sw.got)])):
			mon = fmt.Sprintf("Conn.Write failed midway reporting %d bytes written; the underlying writer received %d bytes (must be the first %d bytes of the packet)", rn, len(sw.got), rn)
		case rerr == nil && failAt >= 0 && sw.calls > failAt:
			mon = "an underlying write failed but Conn.Write returned nil"
		}
		br := "cwrite." + strings.SplitN(model, " ", 2)[0]
		e.rep.Compare(op, model, impl, br, "framing.conn:write", mon)
		if l == 0 {
			e.rep.Branches["cwrite.empty"]++
		}
		if strings.HasPrefix(model, "ok") && sw.calls > 1 {
			e.rep.Branches["cwrite.ok.multi"]++
		}
	}
}

// ---------------------------------------------------------------------------------------------
// C09: end of stream

// endError is the underlying reader's own error value.
type endError struct{ code int }

func (e *endError) Error() string { return "verif: underlying read error " + strconv.Itoa(e.code) }

// endReader delivers the scripted chunks and then ends with err (io.EOF or an *endError); with
// withLast the final chunk and the error are returned by the same Read call.
type endReader struct {
	chunks   [][]byte
	err      error
	withLast bool
	ended    atomic.Bool
}

func (c *endReader) Write(p []byte) (int, error) { return len(p), nil }
func (c *endReader) Close() error                { return nil }
func (c *endReader) Read(p []byte) (int, error) {
	for len(c.chunks) > 0 && len(c.chunks[0]) == 0 {
		c.chunks = c.chunks[1:]
		if len(c.chunks) == 0 && c.withLast {
			c.ended.Store(true)
			return 0, c.err
		}
		return 0, nil
	}
	if len(c.chunks) == 0 {
		c.ended.Store(true)
		return 0, c.err
	}
	n := copy(p, c.chunks[0])
	if n == len(c.chunks[0]) {
		c.chunks = c.chunks[1:]
	} else {
		c.chunks[0] = c.chunks[0][n:]
	}
	if len(c.chunks) == 0 && c.withLast {
		c.ended.Store(true)
		return n, c.err
	}
	return n, nil
}

func (e *engine) runC09End() {
	e.rep.Require("cend.eof", "cend.err", "cend.err.withlast", "cend.err.empty", "cend.eof.withlast", "cend.withlast.multibuf", "cend.fullqueue")
	n := 60 * e.a.Scale
	for i := 0; i < n; i++ {
		var chunks [][]byte
		nc := e.rng.Intn(6)
		if i%11 == 0 {
			nc = 0
		}
		var all []byte
		for j := 0; j < nc; j++ {
			l := 1 + e.rng.Intn(40)
			switch e.rng.Intn(7) {
			case 0:
				l = 2040 + e.rng.Intn(20)
			case 1:
				l = 4090 + e.rng.Intn(1000)
			case 2:
				l = 0
			}
			c := e.rng.Bytes(l)
			chunks = append(chunks, c)
			all = append(all, c...)
		}
		// sentinels: the last chunk, spanning several pump buffers, arrives in the same Read
		// calls as the end of the stream (custom error at i=1, io.EOF at i=9)
		if i == 1 || i == 9 {
			chunks = [][]byte{e.rng.Bytes(11), e.rng.Bytes(4800)}
			all = append(append([]byte(nil), chunks[0]...), chunks[1]...)
			if i == 9 {
				chunks = chunks[1:]
				all = append([]byte(nil), chunks[0]...)
			}
		}
		// full queue: the consumer lags by exactly the queue capacity when the underlying stream
		// hands out its last bytes together with the end (k + queueN one-read chunks, then the
		// final chunk with the error; the consumer takes k of them, lets the pump come to rest
		// holding the final chunk, and only then drains)
		queueN, lagReads := 64, -1
		if i%5 == 3 {
			queueN = 1 + e.rng.Intn(3)
			lagReads = e.rng.Intn(3)
			chunks, all = nil, nil
			for j := 0; j < queueN+lagReads+1; j++ {
				c := e.rng.Bytes(1 + e.rng.Intn(300))
				if e.rng.Intn(4) == 0 {
					c = e.rng.Bytes(2048)
				}
				chunks = append(chunks, c)
				all = append(all, c...)
			}
		}
		endTok := "eof"
		var endErr error = io.EOF
		if i%3 != 0 {
			ee := &endError{code: 1 + e.rng.Intn(9)}
			endErr = ee
			endTok = strconv.Itoa(ee.code)
		}
		withLast := i%4 == 1 || lagReads >= 0
		// reads: enough large buffers to drain, plus extra reads that must all report the end
		nReads := 3 + e.rng.Intn(3)
		for _, c := range chunks {
			nReads += (len(c) + 2047) / 2048
		}
		bufs := make([]int, nReads)
		for j := range bufs {
			bufs[j] = 2048 + e.rng.Intn(2048)
		}
		op := fmt.Sprintf("framing.connend k=2048 chunks=%s bufs=%s end=%s", lib.HexList(chunks), intsArg(bufs), endTok)
		model := stripKV(e.m.Query(op), "queued")
		mon := ""
		impl := lib.Recover(func() string {
			ctx, cancel := context.WithCancel(context.Background())
			defer cancel()
			r := &endReader{chunks: cloneChunks(chunks), err: endErr, withLast: withLast}
			c := rwc.NewConn(ctx, r, addr("l"), addr("r"), queueN)
			if i%2 == 0 && lagReads < 0 {
				// let the pump reach the end of the stream before the first Read, so that the
				// error is already recorded while the queue is still full
				dl := time.Now().Add(time.Second)
				for !r.ended.Load() && time.Now().Before(dl) {
					time.Sleep(50 * time.Microsecond)
				}
				time.Sleep(100 * time.Microsecond)
			}
			var reads []string
			var got []byte
			ended := false
			for ri, bl := range bufs {
				if ri == lagReads {
					// synchronisation only: the pump has handed out the end of the underlying stream
					// (or sits blocked) and no goroutine is runnable
					quiet.Settle(func() int {
						if r.ended.Load() {
							return 1
						}
						return 0
					}, 50*time.Microsecond, 3, 200*time.Millisecond)
				}
				buf := make([]byte, bl)
				_ = c.SetReadDeadline(time.Now().Add(10 * time.Second))
				nr, err := c.Read(buf)
				switch {
				case err == nil:
					if ended && mon == "" {
						mon = "Conn.Read returned data after it had reported the end of the stream"
					}
					got = append(got, buf[:nr]...)
					reads = append(reads, lib.Hex(buf[:nr]))
				case err == io.ErrShortBuffer:
					got = append(got, buf[:nr]...)
					reads = append(reads, lib.Hex(buf[:nr])+"!")
				default:
					// model-independent monitor: the end is reported only once every byte the
					// peer wrote has been returned, and it is the underlying reader's own error
					if !ended && string(got) != string(all) && mon == "" {
						mon = fmt.Sprintf("Conn.Read reported the end of the stream (%v) after returning %d of the %d bytes the peer had written: buffered bytes were lost", err, len(got), len(all))
					}
					ended = true
					if nr != 0 && mon == "" {
						mon = fmt.Sprintf("Conn.Read returned %d bytes together with the end of the stream", nr)
					}
					if err != endErr && mon == "" {
						mon = fmt.Sprintf("the underlying stream ended with %q but Conn.Read reported %q", endErr.Error(), err.Error())
					}
					var ee *endError
					if err == io.EOF {
						reads = append(reads, "EOF")
					} else if errors.As(err, &ee) {
						reads = append(reads, "E"+strconv.Itoa(ee.code))
					} else {
						reads = append(reads, "ERR("+strings.ReplaceAll(err.Error(), " ", "_")+")")
					}
				}
			}
			if !ended && mon == "" {
				mon = "Conn.Read never reported the end of the stream"
			}
			rs := "_"
			if len(reads) > 0 {
				rs = strings.Join(reads, ",")
			}
			return "reads=" + rs
		})
		if strings.HasPrefix(impl, "panic") && mon == "" {
			mon = "Conn panicked at end of stream: " + trunc(impl)
		}
		br := "cend.eof"
		if endTok != "eof" {
			br = "cend.err"
			if withLast {
				e.rep.Branches["cend.err.withlast"]++
			}
			if len(all) == 0 {
				e.rep.Branches["cend.err.empty"]++
			}
		} else if withLast {
			e.rep.Branches["cend.eof.withlast"]++
		}
		if withLast && len(chunks) > 0 && len(chunks[len(chunks)-1]) > 2048 {
			e.rep.Branches["cend.withlast.multibuf"]++
		}
		if lagReads >= 0 {
			e.rep.Branches["cend.fullqueue"]++
		}
		e.rep.Case(op, model, impl, br, true)
		if model != impl || mon != "" {
			d := lib.Disagreement{Op: trunc(op), Model: trunc(model), Impl: trunc(impl), Branch: br, Key: "framing.conn:end"}
			if mon != "" {
				d.Monitor, d.What = "confirmed", mon
			} else {
				d.Monitor, d.What = "unconfirmed", "model and implementation disagree on the reads at the end of the stream"
			}
			e.rep.Disagree(d)
		}
	}
}

// closeReader is an underlying stream that blocks when its script is exhausted until Close is
// called, and then fails with io.ErrClosedPipe (what a pipe or socket does).
type closeReader struct {
	ch      chan []byte
	left    []byte
	closed  chan struct{}
	closes  atomic.Int32
	waiting atomic.Bool
}

func newCloseReader() *closeReader {
	return &closeReader{ch: make(chan []byte, 64), closed: make(chan struct{})}
}

func (g *closeReader) Read(p []byte) (int, error) {
	if len(g.left) == 0 {
		select {
		case c := <-g.ch:
			g.left = c
		default:
			g.waiting.Store(true)
			select {
			case c := <-g.ch:
				g.waiting.Store(false)
				g.left = c
			case <-g.closed:
				return 0, io.ErrClosedPipe
			}
		}
	}
	n := copy(p, g.left)
	g.left = g.left[n:]
	return n, nil
}
func (g *closeReader) Write(p []byte) (int, error) { return len(p), nil }
func (g *closeReader) Close() error {
	if g.closes.Add(1) == 1 {
		close(g.closed)
	}
	return nil
}

// runC09Close: Close and read deadlines on a real Conn with data still queued. Whatever a Read
// with an expired deadline returns (the deadline error or queued data — both are legitimate), no
// byte may be lost or reordered: the successful reads, concatenated, are the written stream; Close
// closes the underlying stream exactly once, the queued bytes remain readable, and then the
// underlying error is reported.
func (e *engine) runC09Close() {
	e.rep.Require("conn.close", "conn.deadline")
	n := 12 * e.a.Scale
	for i := 0; i < n; i++ {
		var chunks [][]byte
		var all []byte
		for j := 0; j < 2+e.rng.Intn(5); j++ {
			c := e.rng.Bytes(1 + e.rng.Intn(600))
			chunks = append(chunks, c)
			all = append(all, c...)
		}
		mon := ""
		set := func(m string) {
			if mon == "" {
				mon = m
			}
		}
		what := "deadline"
		if i%2 == 0 {
			what = "close"
		}
		res := lib.Recover(func() string {
			ctx, cancel := context.WithCancel(context.Background())
			defer cancel()
			g := newCloseReader()
			c := rwc.NewConn(ctx, g, addr("l"), addr("r"), 16)
			for _, ch := range chunks {
				g.ch <- ch
			}
			// synchronisation only: the pump has queued everything and waits for more
			quiet.Settle(func() int {
				if g.waiting.Load() && len(g.ch) == 0 {
					return 1
				}
				return 0
			}, 50*time.Microsecond, 3, 200*time.Millisecond)
			var got []byte
			buf := make([]byte, 4096)
			if what == "deadline" {
				// reads with a deadline that has already passed, data being queued
				_ = c.SetReadDeadline(time.Now().Add(-time.Second))
				for k := 0; k < 1+e.rng.Intn(4); k++ {
					nr, err := c.Read(buf)
					switch {
					case err == nil:
						got = append(got, buf[:nr]...)
					case errors.Is(err, os.ErrDeadlineExceeded):
						if nr != 0 {
							set(fmt.Sprintf("Conn.Read returned %d bytes together with the deadline error", nr))
						}
					default:
						set("Conn.Read with an expired deadline failed with " + err.Error())
					}
				}
				_ = c.SetReadDeadline(time.Time{})
			} else {
				if err := c.Close(); err != nil {
					set("Conn.Close failed: " + err.Error())
				}
				if g.closes.Load() != 1 {
					set(fmt.Sprintf("Conn.Close closed the underlying stream %d times", g.closes.Load()))
				}
			}
			// drain
			var endErr error
			for k := 0; k < len(chunks)+3; k++ {
				if what == "deadline" && len(got) == len(all) {
					break // the stream is still open: the next Read would block
				}
				_ = c.SetReadDeadline(time.Now().Add(10 * time.Second))
				nr, err := c.Read(buf)
				if err != nil {
					if nr != 0 {
						set(fmt.Sprintf("Conn.Read returned %d bytes together with %q", nr, err.Error()))
					}
					endErr = err
					break
				}
				got = append(got, buf[:nr]...)
			}
			if string(got) != string(all) {
				off := 0
				for off < len(got) && off < len(all) && got[off] == all[off] {
					off++
				}
				set(fmt.Sprintf("%s with data queued: the reads returned %d bytes, the peer had written %d; first difference at offset %d (no short buffer was reported)", what, len(got), len(all), off))
			}
			if what == "close" && endErr != io.ErrClosedPipe {
				set(fmt.Sprintf("after Close and draining, Conn.Read reported %v instead of the underlying stream's error (io: read/write on closed pipe)", endErr))
			}
			if what == "deadline" && endErr != nil {
				set("Conn.Read failed with " + endErr.Error() + " although the stream is open and data was queued")
			}
			return "ok"
		})
		if strings.HasPrefix(res, "panic") {
			mon = "Conn panicked (" + what + " with data queued): " + trunc(res)
		}
		e.rep.Compare(fmt.Sprintf("framing.conn.%s #%d chunks=%d", what, i, len(chunks)), "ok", "ok", "conn."+what, "framing.conn:"+what, mon)
	}
}

// runC08Burst: framed packets pushed in bursts against a lagging ReadFrom while WriteTo calls share
// the packet arena (buffers are recycled through the pool while packets are still queued), with
// queue capacities from 1 up. Every packet must come out once, in order, unmodified.
func (e *engine) runC08Burst() {
	e.rep.Require("pkt.burst")
	prev := runtime.GOMAXPROCS(1) // sync.Pool is per-P: make buffer recycling deterministic
	defer runtime.GOMAXPROCS(prev)
	n := 24 * e.a.Scale
	for i := 0; i < n; i++ {
		max := uint32(2048)
		queueN := []int{1, 2, 3, 32}[i%4]
		np := 3 + e.rng.Intn(8)
		var pkts [][]byte
		for j := 0; j < np; j++ {
			sz := []int{1, 100, 500, 548, 1000, 1500, 2044, 2047, 2048}[e.rng.Intn(9)]
			p := make([]byte, sz)
			for k := range p {
				p[k] = byte('A' + j)
			}
			pkts = append(pkts, p)
		}
		ctx, cancel := context.WithCancel(context.Background())
		g := &gatedReader{ch: make(chan []byte, 64)}
		pc := rwc.NewPacketConn(ctx, g, addr("l"), addr("r"), max, queueN)
		mon := ""
		var got [][]byte
		readOne := func() {
			buf := make([]byte, 4096)
			_ = pc.SetReadDeadline(time.Now().Add(5 * time.Second))
			nr, _, err := pc.ReadFrom(buf)
			if err != nil {
				mon = "ReadFrom failed: " + err.Error()
				return
			}
			got = append(got, append([]byte(nil), buf[:nr]...))
		}
		push := func(p []byte) {
			fr := append(le32(uint32(len(p))), p...)
			if e.rng.Intn(2) == 0 {
				k := 1 + e.rng.Intn(len(fr)-1)
				g.ch <- fr[:k]
				g.ch <- fr[k:]
			} else {
				g.ch <- fr
			}
		}
		// schedule: the first packet is pushed and read (its buffer returns to the arena), a WriteTo
		// borrows and returns an arena buffer, the rest arrives as a burst while nobody reads
		push(pkts[0])
		readOne()
		_, _ = pc.WriteTo(e.rng.Bytes(1+e.rng.Intn(1500)), addr("r"))
		for _, p := range pkts[1:] {
			push(p)
		}
		quiet.Settle(func() int { return len(g.ch) }, 50*time.Microsecond, 3, 100*time.Millisecond)
		for len(got) < len(pkts) && mon == "" {
			readOne()
			if e.rng.Intn(3) == 0 {
				_, _ = pc.WriteTo(e.rng.Bytes(1+e.rng.Intn(1500)), addr("r"))
			}
		}
		cancel()
		close(g.ch)
		if mon == "" {
			for j := range pkts {
				if string(got[j]) != string(pkts[j]) {
					mon = fmt.Sprintf("packet #%d read from the PacketConn (%d bytes, first byte %q) differs from the packet written (%d bytes of %q): burst against a lagging reader, queue capacity %d", j, len(got[j]), got[j][:1], len(pkts[j]), pkts[j][:1], queueN)
					break
				}
			}
		}
		e.rep.Compare(fmt.Sprintf("framing.pkt.burst q=%d n=%d #%d", queueN, np, i), "x", "x", "pkt.burst", "framing.pkt:burst", mon)
	}
}
