package main

import (
	"encoding/binary"
	"fmt"
	"strconv"
	"strings"

	"github.com/aperturerobotics/bifrost/envelope"
	"github.com/zeebo/blake3"
	"verif/harness/lib"
)

// Wave 5 (C18): coordinated RE-SPLITS of the byte string the crypto contexts are computed from.
//
// The grants and the payload key are bound to (envelope id, context) by the strings
// buildGrantEncContext / buildKeyDerivationContext make of the two. Binding needs the string to be an
// injective function of the PAIR. A framing that is ambiguous across the id/context boundary — the id
// written without its length, the context without its length, a length in another form, the separator
// elsewhere — maps two different pairs (I, C) and (I', C') onto the same string, and then an envelope
// sealed under (I, C) whose envelope_id is rewritten to I' and whose context_hash is rewritten to
// hash(C') unseals under the DIFFERENT context C'. Each single rewrite alone is still rejected, random
// contexts and random mutations never hit such a pair, and every honest round trip keeps working
// (sealing and unsealing share the builders) — so the pairs are constructed here, one per plausible
// mis-framing
//
//	scope_F(I, C) = I ‖ sep ‖ L(|C|) ‖ C          sep ∈ w5Seps, L ∈ w5LenEncs (incl. "no length")
//
// as   C = filler ‖ sep ‖ L(|C'|) ‖ C'   and   I' = I ‖ sep ‖ L(|C|) ‖ filler,   which gives
// scope_F(I, C) = scope_F(I', C') for EVERY I (derived ids are not known before sealing). The generator
// checks that equation itself for every pair it emits (a generator bug panics).
//
//	forward   sealed under (I, C): I derived or configured;   envelope_id := I', context_hash := hash(C'),
//	          unsealed under C'
//	reverse   (configured ids only) sealed under (I', C') with the LONG id and the SHORT context;
//	          envelope_id := I, context_hash := hash(C), unsealed under C
//
// Monitors (model-independent):
//   - an envelope that was sealed under context C never unseals successfully under a context C' ≠ C,
//     whatever was done to its fields (both / hash only / id only rewritten); no grant share is decrypted
//     under C' either; the id-only rewrite is still a context mismatch; the untouched envelope opens
//     under C (contexts that look like framing are contexts like any other);
//   - the real builders give different strings for the two pairs (VerifBuildKeyDerivationContext,
//     VerifBuildGrantEncContext, same and neighbouring grant index), and the model's strings.

type w5Len struct {
	name string
	f    func(n int) string
}

func w5be(n int, w int) string {
	b := make([]byte, 8)
	binary.BigEndian.PutUint64(b, uint64(n))
	return string(b[8-w:])
}

var w5LenEncs = []w5Len{
	{"dec-colon", func(n int) string { return strconv.Itoa(n) + ":" }}, // the form of the real builders
	{"none", func(n int) string { return "" }},
	{"dec-space", func(n int) string { return strconv.Itoa(n) + " " }},
	{"dec", func(n int) string { return strconv.Itoa(n) }},
	{"hex-colon", func(n int) string { return strconv.FormatInt(int64(n), 16) + ":" }},
	{"u8", func(n int) string { return string([]byte{byte(n)}) }},
	{"u16be", func(n int) string { return w5be(n, 2) }},
	{"u32be", func(n int) string { return w5be(n, 4) }},
	{"u32le", func(n int) string {
		b := make([]byte, 4)
		binary.LittleEndian.PutUint32(b, uint32(n))
		return string(b)
	}},
	{"u64be", func(n int) string { return w5be(n, 8) }},
	{"uvarint", func(n int) string { return string(binary.AppendUvarint(nil, uint64(n))) }},
}

var w5Seps = []struct{ name, s string }{{"space", " "}, {"none", ""}, {"colon", ":"}, {"slash", "/"}, {"nul", "\x00"}, {"bar", "|"}}

func c18w5Branches() []string {
	out := []string{"resplit.derived", "resplit.configured", "resplit.reverse", "resplit.ctxstring", "resplit.ctxstring-pairs", "resplit.honest-opened", "resplit.ctx-index"}
	for _, l := range w5LenEncs {
		out = append(out, "resplit.len."+l.name)
	}
	for _, s := range w5Seps {
		out = append(out, "resplit.sep."+s.name)
	}
	return out
}

// c18Cfg: a configuration sealing accepts, with at least one grant somebody can decrypt (the
// acceptance rule of runC18).
func (e *engine) c18Cfg() cfg {
	for {
		c := e.randCfg()
		ok := false
		for _, g := range c.grants {
			if len(g.idx) > 0 {
				ok = true
			}
		}
		for _, g := range c.grants {
			if g.sc > 12 {
				ok = false
			}
			for _, k := range g.idx {
				if int(k) >= c.nkeys {
					ok = false
				}
			}
		}
		c.total = 0
		if ok {
			av, _ := specReach(c, map[int]bool{0: true, 1: true, 2: true})
			if av >= int(c.t)+1 {
				return c
			}
		}
	}
}

func (e *engine) w5Filler(k int) string {
	switch k % 4 {
	case 0:
		return "session"
	case 1:
		return string(e.rng.Bytes(1 + e.rng.Intn(24)))
	case 2:
		return ""
	}
	return "app-A/" + strconv.Itoa(e.rng.Intn(1000))
}

func (e *engine) w5Target(k int) string {
	switch (k / 4) % 4 {
	case 0:
		return "app-B tokens v1"
	case 1:
		return string(e.rng.Bytes(1 + e.rng.Intn(40)))
	case 2:
		return []string{"ctx A", "x", "bifrost/envelope test v1", "π ✓"}[e.rng.Intn(4)]
	}
	return ""
}

// w5Env: one sealed envelope of the re-split class.
type w5Env struct {
	fr                  string // the mis-framing under which the two pairs coincide
	b                   *built
	id, id2             string // the envelope's id, the id it is re-labelled with
	sealCtx, unsealCtx  string
	collideKd, collideG string // the real builders map the two pairs onto one string (monitor verdict)
}

// w5Seal: one envelope sealed under sealCtx (configured id cfgID, or derived when empty); newID(I) is
// the id it is re-labelled with, unsealCtx the other context. The real builders are asked about the
// two pairs right away (pairwise inequality; model-independent).
func (e *engine) w5Seal(fr, cfgID, sealCtx, unsealCtx string, newID func(id string) string, scope func(id, c string) string) *w5Env {
	c := e.c18Cfg()
	c.id = cfgID
	b := e.buildReal(c, sealCtx, e.rng.Bytes(1+e.rng.Intn(40)))
	if b.err != nil {
		return nil
	}
	x := &w5Env{fr: fr, b: b, id: b.env.GetEnvelopeId(), sealCtx: sealCtx, unsealCtx: unsealCtx}
	x.id2 = newID(x.id)
	if scope(x.id, sealCtx) != scope(x.id2, unsealCtx) || sealCtx == unsealCtx {
		panic(fmt.Sprintf("re-split generator: not a re-split under %s: (%q,%q) (%q,%q)", fr, x.id, sealCtx, x.id2, unsealCtx))
	}
	pairs := fmt.Sprintf("(%q, %q) and (%q, %q)", x.id, sealCtx, x.id2, unsealCtx)
	if envelope.VerifBuildKeyDerivationContext(x.id, sealCtx) == envelope.VerifBuildKeyDerivationContext(x.id2, unsealCtx) {
		x.collideKd = fmt.Sprintf("the key derivation contexts of two different (envelope id, context) pairs are equal (bytes shifted across the id/context boundary: %s): %s", fr, pairs)
	}
	for _, gi := range []int{0, 1, 9, 10, 123} {
		for _, g2 := range []int{gi, gi + 1, gi * 10} {
			if x.collideG == "" && envelope.VerifBuildGrantEncContext(x.id, sealCtx, gi) == envelope.VerifBuildGrantEncContext(x.id2, unsealCtx, g2) {
				x.collideG = fmt.Sprintf("the grant encryption contexts of two different (envelope id, context) pairs are equal (bytes shifted across the id/context boundary: %s; grant %d / %d): %s", fr, gi, g2, pairs)
			}
		}
	}
	e.rep.Branches["resplit.ctxstring-pairs"]++
	return x
}

var w5Variants = []struct {
	gen        string
	id, hash   bool
	mustCtxMis bool
}{{"resplit-id+hash", true, true, false}, {"resplit-hash-only", false, true, false}, {"resplit-id-only", true, false, true}}

// w5Shares: under a context other than the sealing one no grant decrypts, so no share is available and
// the outcome is "locked" with 0 shares — shares counted, or an error that only arises once threshold+1
// shares were put together (payload decryption / recovery failed), mean that grants DID decrypt.
func (e *engine) w5Shares(impl, gen, fr, ctx string, w []byte) {
	got := ""
	switch {
	case strings.HasPrefix(impl, "locked") && lib.KV(impl, "avail") != "0":
		got = "avail=" + lib.KV(impl, "avail")
	case impl == "err decryptionFailed" || impl == "err recover":
		got = impl
	default:
		return
	}
	e.rep.Compare(fmt.Sprintf("envelope.resplit.shares gen=%s ctx=%x env=%x", gen, ctx, w), "avail=0", got, "resplit.shares", "envelope.unlock:"+gen+"/shares",
		fmt.Sprintf("grant shares were decrypted under a context other than the sealing one (%s; %s): %s", gen, fr, impl))
}

// w5Unseal: variant v of x (envelope_id and / or context_hash rewritten), unsealed under the OTHER
// context with every recipient key.
func (e *engine) w5Unseal(x *w5Env, vi int) {
	v := w5Variants[vi]
	t := clone(x.b.env)
	if v.id {
		t.EnvelopeId = x.id2
	}
	if v.hash {
		h := blake3.Sum256([]byte(x.unsealCtx))
		t.ContextHash = h[:]
	}
	w := mustWire(t)
	why := "it was sealed under another context (envelope id and context re-split: " + x.fr + ")"
	impl := e.wireCaseX(w, x.unsealCtx, x.b.keys, x.b.payload, v.gen, "envelope.unlock:"+v.gen, v.mustCtxMis, false, why)
	if !v.mustCtxMis {
		e.w5Shares(impl, v.gen, x.fr, x.unsealCtx, w)
	}
}

// w5Tie: the rest for x — the model's strings for both pairs against the real builders', the untouched
// envelope under its own context, the single-field rewrites.
func (e *engine) w5Tie(x *w5Env) {
	gi := []int{0, 1, 9, 10, 123}[e.rng.Intn(5)]
	for _, p := range [][2]string{{x.id, x.sealCtx}, {x.id2, x.unsealCtx}} {
		op := fmt.Sprintf("envelope.kdctx id=%s ctx=%s", lib.Hex([]byte(p[0])), lib.Hex([]byte(p[1])))
		e.rep.Compare(op, e.m.Query(op), "ok "+lib.Hex([]byte(envelope.VerifBuildKeyDerivationContext(p[0], p[1]))), "resplit.ctxstring", "envelope.kdctx:resplit", "")
		op = fmt.Sprintf("envelope.encctx id=%s ctx=%s gi=%d", lib.Hex([]byte(p[0])), lib.Hex([]byte(p[1])), gi)
		e.rep.Compare(op, e.m.Query(op), "ok "+lib.Hex([]byte(envelope.VerifBuildGrantEncContext(p[0], p[1], gi))), "resplit.ctxstring", "envelope.encctx:resplit", "")
	}
	if strings.HasPrefix(e.wireCase(mustWire(x.b.env), x.sealCtx, x.b.keys, x.b.payload, "resplit-honest", "envelope.unlockwire:resplit-honest", false, true), "opened") {
		e.rep.Branches["resplit.honest-opened"]++
	}
	e.w5Unseal(x, 1)
	e.w5Unseal(x, 2)
}

// c18Resplit runs BEFORE the other C18 cases and in three passes — (1) the pairwise-inequality
// monitor of the real builders, (2) the coordinated rewrite of every envelope, (3) everything else —
// so that a confirmed input is on record before the report's cap on recorded disagreements can be
// used up by model/implementation differences that carry no failing input. It draws from its own
// random stream (the cases that follow keep theirs).
func (e *engine) c18Resplit() {
	saved := e.rng
	e.rng = lib.NewRng(e.a.Seed*1000003 + 0x77355)
	defer func() { e.rng = saved }()
	k := int(((e.a.Seed % 7) + 7) % 7)
	var xs []*w5Env
	add := func(x *w5Env, br string, L w5Len, sep string) {
		if x != nil {
			xs = append(xs, x)
			e.rep.Branches[br]++
			e.rep.Branches["resplit.len."+L.name]++
			e.rep.Branches["resplit.sep."+sep]++
		}
	}
	for rep := 0; rep < e.a.Scale; rep++ {
		for li, L := range w5LenEncs {
			for si, S := range w5Seps {
				k++
				filler, target := e.w5Filler(k), e.w5Target(k)
				L, S := L, S
				fr := "envelope id written without its length, separator " + S.name + ", context length " + L.name
				scope := func(id, c string) string { return id + S.s + L.f(len(c)) + c }
				long := filler + S.s + L.f(len(target)) + target // the context that embeds framing and the other context
				if long == target {
					continue
				}
				grow := func(id string) string { return id + S.s + L.f(len(long)) + filler }
				natural := li == 0 && si == 0 // the builders' own length form and separator: every direction, every run
				// forward: derived / configured id alternate per framing
				if natural || (k+li)%2 == 0 {
					add(e.w5Seal(fr, "", long, target, grow, scope), "resplit.derived", L, S.name)
				}
				if natural || (k+li)%2 == 1 {
					add(e.w5Seal(fr, e.randID(), long, target, grow, scope), "resplit.configured", L, S.name)
				}
				// reverse: the configured id carries the framing, the sealing context is the short one
				if natural || (k+si)%3 == 0 {
					x := e.randID()
					add(e.w5Seal(fr+"; long id sealed, short id substituted", grow(x), target, long, func(string) string { return x }, scope), "resplit.reverse", L, S.name)
				}
			}
		}
	}
	// pass 1: the builders' own verdict (only violations are recorded: there is no model side to it)
	nKd, nG := 0, 0
	for _, x := range xs {
		if x.collideKd != "" {
			if nKd++; nKd <= 3 {
				e.rep.Compare(fmt.Sprintf("envelope.resplit.kdctx a=%x/%x b=%x/%x", x.id, x.sealCtx, x.id2, x.unsealCtx), "different", "equal", "resplit.ctxstring-pairs", "envelope.kdctx:resplit-pair", x.collideKd)
			}
		}
		if x.collideG != "" {
			if nG++; nG <= 3 {
				e.rep.Compare(fmt.Sprintf("envelope.resplit.encctx a=%x/%x b=%x/%x", x.id, x.sealCtx, x.id2, x.unsealCtx), "different", "equal", "resplit.ctxstring-pairs", "envelope.encctx:resplit-pair", x.collideG)
			}
		}
	}
	// pass 2: envelope_id and context_hash rewritten together, unsealed under the other context
	for _, x := range xs {
		e.w5Unseal(x, 0)
	}
	for i := 0; i < 2*e.a.Scale; i++ {
		e.w5CtxIndex(i)
	}
	// pass 3
	for _, x := range xs {
		e.w5Tie(x)
	}
}

// w5CtxIndex: the same re-split at the OTHER boundary of the grant encryption context, context ‖ grant
// index: sealed under T ‖ "1" (T ‖ " 1"), grant 0 moved to index 10 behind ten grants nobody can
// decrypt, context_hash := hash(T), unsealed under T — "T1"‖"0" = "T"‖"10" when neither a length nor a
// separator keeps context and index apart. No share may be decrypted, nothing may open.
func (e *engine) w5CtxIndex(i int) {
	target := e.w5Target(4 * i)
	sealCtx := target + []string{"1", " 1"}[i%2]
	c := e.c18Cfg()
	if i%2 == 1 {
		c.id = e.randID()
	}
	b := e.buildReal(c, sealCtx, e.rng.Bytes(1+e.rng.Intn(40)))
	if b.err != nil {
		return
	}
	t := clone(b.env)
	var gs []*envelope.EnvelopeGrant
	for j := 0; j < 10; j++ {
		gs = append(gs, &envelope.EnvelopeGrant{})
	}
	t.Grants = append(gs, t.Grants...)
	h := blake3.Sum256([]byte(target))
	t.ContextHash = h[:]
	w := mustWire(t)
	gen := "resplit-ctx+index"
	impl := e.wireCaseX(w, target, b.keys, b.payload, gen, "envelope.unlock:"+gen, false, false, "it was sealed under another context (context and grant index re-split)")
	e.w5Shares(impl, gen, "context written without its length and without a separator before the grant index", target, w)
	e.rep.Branches["resplit.ctx-index"]++
}
