// Command envelope is the correspondence engine for C16 (envelopes open exactly when enough
// distinct shares are reachable), C17 (an accepted configuration can be opened by its
// recipients) and C18 (tamper resistance, context binding, no panics).
//
// The Lean model predicts (a) from a configuration alone: accept/reject, share placement and the
// whole EnvelopeUnlockResult for a set of offered keys; (b) on real envelope bytes: the exact
// outcome of UnlockEnvelope, with the primitives answered as oracles by this harness using
// peer.DecryptWithPrivKey (the grant encryption is a parameter of the envelope model),
// zeebo/blake3 and x/crypto/chacha20poly1305 directly. CIRCL's secretsharing is tied separately
// to the model's Lagrange interpolation over Z/l. Property monitors are computed here from the
// configuration / the original payload only, never from the model.
package main

import (
	"bytes"
	"crypto/ecdsa"
	"crypto/ed25519"
	"crypto/elliptic"
	"encoding/hex"
	"errors"
	"fmt"
	"os"
	"os/exec"
	"sort"
	"strconv"
	"strings"
	"time"

	"github.com/aperturerobotics/bifrost/crypto"
	"github.com/aperturerobotics/bifrost/envelope"
	"github.com/aperturerobotics/bifrost/keypem"
	"github.com/aperturerobotics/bifrost/peer"
	"github.com/cloudflare/circl/group"
	"github.com/cloudflare/circl/math/polynomial"
	"github.com/cloudflare/circl/secretsharing"
	"github.com/zeebo/blake3"
	"golang.org/x/crypto/chacha20poly1305"

	"verif/harness/lib"
	"verif/harness/norm"
)

type key struct {
	priv crypto.PrivKey
	pub  crypto.PubKey
	pem  []byte
	// nilKind: 1 = a nil entry of the offered slice, 2 = a nil *Ed25519PrivateKey in the interface
	nilKind int
}

// key pool indexes beyond the recipients (0..3) and the unrelated keys (4, 5)
const (
	kUnsupported = 6  // private key of an unsupported type
	kShadow0     = 7  // 7, 8, 9: shadow of recipient 0, 1, 2 (reports its public key, holds another seed)
	kNil         = 10 // nil crypto.PrivKey
	kTypedNil    = 11 // (*crypto.Ed25519PrivateKey)(nil)
	kPool        = 12
)

type engine struct {
	a    *lib.Args
	rng  *lib.Rng
	m    *lib.Model
	rep  *lib.Report
	keys []*key // 0..3 recipients pool, 4..5 unrelated, 6 a private key of an unsupported type, 7..9 shadow keys, 10/11 nil keys
	// badPub is a public key of a type the envelope code does not support (ECDSA P-256, verify-only adapter)
	badPub crypto.PubKey
	tcN    int // rotates the key-subset class of the C18 tamper cases
	w4N    int // rotates the variants of the C18 context × key-set cases (c18w4.go)
	normAt int // rotates through the normalisations of harness/norm
	// knownOther counts, per class of the known finding C18-unauthenticated-envelope, the cases that opened to another payload
	knownOther map[string]int
}

// fakePriv is a crypto.PrivKey of an unsupported type: its public key cannot be marshalled to PEM,
// so matchPrivKeys must skip it.
type fakePriv struct{ pub crypto.PubKey }

func (f fakePriv) Equals(o crypto.Key) bool    { _, ok := o.(fakePriv); return ok }
func (f fakePriv) Raw() ([]byte, error)        { return nil, crypto.ErrBadKeyType }
func (f fakePriv) Type() crypto.KeyType        { return crypto.KeyType(3) }
func (f fakePriv) Sign([]byte) ([]byte, error) { return nil, crypto.ErrBadKeyType }
func (f fakePriv) GetPublic() crypto.PubKey    { return f.pub }

// unsupportedPub: the P-256 base point as an ECDSA public key behind bifrost's verify-only adapter.
func unsupportedPub() crypto.PubKey {
	p := elliptic.P256().Params()
	return crypto.ECDSAPublicKeyFromStdKey(&ecdsa.PublicKey{Curve: elliptic.P256(), X: p.Gx, Y: p.Gy})
}

// setupKeys draws the key pool from the engine's PRNG.
func (e *engine) setupKeys() {
	for i := 0; i < 6; i++ {
		e.keys = append(e.keys, e.newKey())
	}
	e.badPub = unsupportedPub()
	// the model sees this key under a PEM no envelope keypair can carry
	e.keys = append(e.keys, &key{priv: fakePriv{e.badPub}, pub: e.badPub, pem: bytes.Repeat([]byte{0xfe}, 64)})
	// shadow keys: crypto.UnmarshalEd25519PrivateKey takes a 64-byte key as it comes, so seed ‖ pub
	// of two different keys is a key object that REPORTS recipient i's public key (same PEM) and
	// can decrypt nothing sealed to it
	for i := 0; i < 3; i++ {
		raw := append(ed25519.NewKeyFromSeed(e.rng.Bytes(32))[:32:32], e.keys[i].pub.(*crypto.Ed25519PublicKey).GetStdKey()...)
		sh, err := crypto.UnmarshalEd25519PrivateKey(raw)
		if err != nil {
			panic(err)
		}
		pem, err := keypem.MarshalPubKeyPem(sh.GetPublic())
		if err != nil || !bytes.Equal(pem, e.keys[i].pem) {
			panic("harness: shadow key does not report the recipient's public key")
		}
		e.keys = append(e.keys, &key{priv: sh, pub: sh.GetPublic(), pem: pem})
	}
	e.keys = append(e.keys, &key{nilKind: 1}, &key{priv: (*crypto.Ed25519PrivateKey)(nil), nilKind: 2})
	if len(e.keys) != kPool {
		panic("harness: key pool layout")
	}
}

// modelOffer: the offered key indexes as the abstract model names them (k < 100 toy key k,
// 100+i a shadow of key i, 200.. a nil entry).
func modelOffer(l []int) []int {
	out := make([]int, len(l))
	for i, k := range l {
		switch {
		case k >= kNil:
			out[i] = 200 + k - kNil
		case k >= kShadow0:
			out[i] = 100 + k - kShadow0
		default:
			out[i] = k
		}
	}
	return out
}

type rndReader struct{ r *lib.Rng }

func (r rndReader) Read(p []byte) (int, error) {
	copy(p, r.r.Bytes(len(p)))
	return len(p), nil
}

func (e *engine) newKey() *key {
	std := ed25519.NewKeyFromSeed(e.rng.Bytes(32))
	priv, err := crypto.UnmarshalEd25519PrivateKey(std)
	if err != nil {
		panic(err)
	}
	pem, err := keypem.MarshalPubKeyPem(priv.GetPublic())
	if err != nil {
		panic(err)
	}
	return &key{priv: priv, pub: priv.GetPublic(), pem: pem}
}

// ---- configurations ----

type gcfg struct {
	sc  uint32
	idx []uint32
}

type cfg struct {
	nkeys  int
	t      uint32
	total  uint32
	grants []gcfg
	id     string      // EnvelopeId of the configuration ("" = derived from secret and context)
	nilCfg bool        // a nil *EnvelopeConfig is passed
	empty  bool        // the payload is empty
	bad    []int       // recipient indexes whose public key is of an unsupported type
	dupOf  map[int]int // recipient slot j holds the SAME public key as slot dupOf[j] (not part of args(): the model is told the closure of the offer)
}

func (c cfg) args() string {
	gs := make([]string, len(c.grants))
	for i, g := range c.grants {
		ks := "_"
		if len(g.idx) > 0 {
			p := make([]string, len(g.idx))
			for j, k := range g.idx {
				p[j] = strconv.Itoa(int(k))
			}
			ks = strings.Join(p, ".")
		}
		gs[i] = fmt.Sprintf("%d:%s", g.sc, ks)
	}
	g := "_"
	if len(gs) > 0 {
		g = strings.Join(gs, ";")
	}
	s := fmt.Sprintf("nkeys=%d t=%d total=%d grants=%s", c.nkeys, c.t, c.total, g)
	if c.id != "" {
		s += " id=" + lib.Hex([]byte(c.id))
	}
	if c.nilCfg {
		s += " nil=1"
	}
	if c.empty {
		s += " plen=0"
	}
	if len(c.bad) > 0 {
		s += " badkeys=" + natList(c.bad)
	}
	return s
}

// parseCfgArgs is the inverse of cfg.args (used by the child process of the share-sum wrap cases).
func parseCfgArgs(s string) cfg {
	c := cfg{}
	atoi := func(v string) int {
		n, err := strconv.ParseUint(v, 10, 64)
		if err != nil {
			panic("bad cfg args: " + s)
		}
		return int(n)
	}
	c.nkeys = atoi(lib.KV(s, "nkeys"))
	c.t = uint32(atoi(lib.KV(s, "t")))
	c.total = uint32(atoi(lib.KV(s, "total")))
	if g := lib.KV(s, "grants"); g != "_" {
		for _, gs := range strings.Split(g, ";") {
			f := strings.Split(gs, ":")
			gc := gcfg{sc: uint32(atoi(f[0]))}
			if f[1] != "_" {
				for _, k := range strings.Split(f[1], ".") {
					gc.idx = append(gc.idx, uint32(atoi(k)))
				}
			}
			c.grants = append(c.grants, gc)
		}
	}
	if v := lib.KV(s, "id"); v != "" {
		c.id = string(lib.Unhex(v))
	}
	c.nilCfg = lib.KV(s, "nil") == "1"
	c.empty = lib.KV(s, "plen") == "0"
	if v := lib.KV(s, "badkeys"); v != "" && v != "_" {
		for _, k := range strings.Split(v, ",") {
			c.bad = append(c.bad, atoi(k))
		}
	}
	return c
}

func (c cfg) proto() *envelope.EnvelopeConfig {
	if c.nilCfg {
		return nil
	}
	ec := &envelope.EnvelopeConfig{EnvelopeId: c.id, Threshold: c.t, TotalShares: c.total}
	for _, g := range c.grants {
		ec.GrantConfigs = append(ec.GrantConfigs, &envelope.EnvelopeGrantConfig{ShareCount: g.sc, KeypairIndexes: g.idx})
	}
	return ec
}

// randCfg draws a configuration from the property's bound: 1-3 keys, 1-4 grants, share counts
// 0-2, keypair index lists of length 0-3 (duplicates allowed), thresholds 0-3, overrides 0-5.
// With small probability an index is out of range.
func (e *engine) randCfg() cfg {
	c := cfg{nkeys: 1 + e.rng.Intn(3), t: uint32(e.rng.Intn(4)), total: 0}
	if e.rng.Intn(3) == 0 {
		c.total = uint32(e.rng.Intn(6))
	}
	ng := 1 + e.rng.Intn(4)
	for i := 0; i < ng; i++ {
		g := gcfg{sc: uint32(e.rng.Intn(3))}
		n := []int{1, 1, 1, 2, 2, 3, 0}[e.rng.Intn(7)]
		for j := 0; j < n; j++ {
			k := uint32(e.rng.Intn(c.nkeys))
			if e.rng.Intn(60) == 0 {
				k = uint32(c.nkeys + e.rng.Intn(2))
			}
			g.idx = append(g.idx, k)
		}
		c.grants = append(c.grants, g)
	}
	// the EnvelopeId field: mostly empty (derived id), otherwise set
	if e.rng.Intn(3) == 0 {
		c.id = e.randID()
	}
	// larger share counts (beyond the 0-2 of the stated bound), with thresholds to match
	if e.rng.Intn(8) == 0 {
		sum := 0
		for i := range c.grants {
			c.grants[i].sc = uint32([]int{3, 4, 5, 7, 12, 33, 64}[e.rng.Intn(7)])
			if e.rng.Intn(5) == 0 {
				c.grants[i].sc = uint32(e.rng.Intn(3))
			}
			sum += int(c.grants[i].sc)
		}
		if e.rng.Intn(2) == 0 {
			c.t = uint32(e.rng.Intn(sum + 2))
		}
		if c.total != 0 && e.rng.Intn(2) == 0 {
			c.total = uint32(e.rng.Intn(sum + 3))
		}
	}
	return c
}

// randID draws a value for the EnvelopeId field of a configuration.
func (e *engine) randID() string {
	switch e.rng.Intn(6) {
	case 0:
		return "env-" + strconv.Itoa(e.rng.Intn(1000))
	case 1:
		return hex.EncodeToString(e.rng.Bytes(16)) // looks like a derived id
	case 2:
		return string(e.rng.Bytes(1 + e.rng.Intn(40))) // arbitrary bytes
	case 3:
		return strings.Repeat("long id ", 10+e.rng.Intn(40))
	case 4:
		return []string{"0", " ", "a:b 3:c", "12:x"}[e.rng.Intn(4)]
	}
	return "mailbox/" + hex.EncodeToString(e.rng.Bytes(4))
}

// structural turns a configuration into one that BuildEnvelope must refuse for a structural
// reason: empty payload, nil configuration, a recipient key of an unsupported type.
func (e *engine) structural(c cfg) (cfg, string) {
	switch e.rng.Intn(3) {
	case 0:
		c.empty = true
		return c, "empty-payload"
	case 1:
		c.nilCfg = true
		return c, "nil-config"
	}
	c.bad = []int{e.rng.Intn(c.nkeys)}
	return c, "unsupported-key"
}

// ---- the property, stated independently of the model (monitor side) ----

// specPlaced: shares are numbered 1..total (total = override if > 0, else the sum of the share
// counts, a count of 0 meaning 1) and handed to the grants in order until they run out.
// The counts are uint32 fields and so is their sum (the type of the TotalShares field it
// defaults): a sum of 2^32 or more wraps.
func specTotal(c cfg) int {
	var sum uint32
	for _, g := range c.grants {
		if g.sc == 0 {
			sum++
		} else {
			sum += g.sc
		}
	}
	if c.total > 0 {
		return int(c.total)
	}
	return int(sum)
}

func specPlaced(c cfg) [][]int {
	total := specTotal(c)
	if total > 1<<20 {
		panic("harness: configuration with more than 2^20 shares generated")
	}
	next := 1
	out := make([][]int, len(c.grants))
	for i, g := range c.grants {
		n := int(g.sc)
		if n == 0 {
			n = 1
		}
		for j := 0; j < n && next <= total; j++ {
			out[i] = append(out[i], next)
			next++
		}
	}
	return out
}

// specReach: the grants that the offered recipient indexes can decrypt and the number of
// distinct shares inside them.
func specReach(c cfg, offered map[int]bool) (avail int, unlocked []int) {
	pl := specPlaced(c)
	seen := map[int]bool{}
	for gi, g := range c.grants {
		can := false
		for _, k := range g.idx {
			if offered[int(k)] {
				can = true
			}
		}
		if !can {
			continue
		}
		unlocked = append(unlocked, gi)
		for _, id := range pl[gi] {
			if !seen[id] {
				seen[id] = true
				avail++
			}
		}
	}
	return
}

func natList(l []int) string {
	if len(l) == 0 {
		return "_"
	}
	s := make([]string, len(l))
	for i, v := range l {
		s[i] = strconv.Itoa(v)
	}
	return strings.Join(s, ",")
}

func u32List(l []uint32) string {
	if len(l) == 0 {
		return "_"
	}
	s := make([]string, len(l))
	for i, v := range l {
		s[i] = strconv.Itoa(int(v))
	}
	return strings.Join(s, ",")
}

// ---- running the implementation ----

func buildErrClass(err error) string {
	switch {
	case errors.Is(err, envelope.ErrEmptyPayload):
		return "err emptyPayload"
	case errors.Is(err, envelope.ErrNoKeypairs):
		return "err noKeypairs"
	case errors.Is(err, envelope.ErrNoGrants):
		return "err noGrants"
	case errors.Is(err, envelope.ErrInvalidKeypairIndex):
		return "err invalidKeypairIndex"
	case errors.Is(err, envelope.ErrInvalidThreshold):
		return "err invalidThreshold"
	}
	return "err encrypt"
}

func unlockErrClass(err error) string {
	switch {
	case errors.Is(err, envelope.ErrNoGrants):
		return "err noGrants"
	case errors.Is(err, envelope.ErrNoKeypairs):
		return "err noKeypairs"
	case errors.Is(err, envelope.ErrContextMismatch):
		return "err contextMismatch"
	case errors.Is(err, envelope.ErrDecryptionFailed):
		return "err decryptionFailed"
	}
	return "err recover"
}

func resultStr(r *envelope.EnvelopeUnlockResult) string {
	return fmt.Sprintf("avail=%d needed=%d unlocked=%s", r.GetSharesAvailable(), r.GetSharesNeeded(), u32List(r.GetUnlockedGrantIndexes()))
}

// unlockImpl runs UnlockEnvelope and canonicalises the outcome. orig != nil: payload printed as orig/OTHER.
func unlockImpl(ctx string, env *envelope.Envelope, privs []crypto.PrivKey, orig []byte) string {
	return lib.Recover(func() string {
		p, r, err := envelope.UnlockEnvelope(ctx, env, privs)
		if err != nil {
			// documented: (nil, nil, err). An error that comes with a payload or a result is its own outcome.
			if p != nil {
				return "err-with-payload " + unlockErrClass(err) + " payload=" + lib.Hex(p)
			}
			if r != nil {
				return fmt.Sprintf("err-with-result %s success=%v %s", unlockErrClass(err), r.GetSuccess(), resultStr(r))
			}
			return unlockErrClass(err)
		}
		if !r.GetSuccess() {
			if p != nil {
				return "locked-with-payload " + resultStr(r)
			}
			return "locked " + resultStr(r)
		}
		if orig != nil {
			if bytes.Equal(p, orig) {
				return "opened payload=orig " + resultStr(r)
			}
			return "opened payload=OTHER " + resultStr(r)
		}
		return "opened payload=" + lib.Hex(p) + " " + resultStr(r)
	})
}

// errResultMon: "fails" means no payload and no result are handed out (UnlockEnvelope documents
// (nil, nil, err)); a caller that looks at the payload first must never see one next to an error.
func errResultMon(impl, gen string) string {
	if strings.HasPrefix(impl, "err-with-payload") {
		return "UnlockEnvelope returned an error together with a payload (" + gen + "): " + lib.Trunc(impl)
	}
	if strings.HasPrefix(impl, "err-with-result") {
		return "UnlockEnvelope returned an error together with a result (" + gen + "): " + lib.Trunc(impl)
	}
	return ""
}

func (e *engine) privs(ks []*key) []crypto.PrivKey {
	out := make([]crypto.PrivKey, len(ks))
	for i, k := range ks {
		out[i] = k.priv
	}
	return out
}

// ---- oracle protocol for the wire-level model ----

func kdfKey(kctx string, mat []byte) []byte {
	out := make([]byte, 32)
	blake3.DeriveKey(kctx, mat, out)
	return out
}

func ansHex(b []byte, ok bool) string {
	if !ok {
		return "x"
	}
	return lib.Hex(b)
}

// modelUnlockWire asks the model for the outcome of UnmarshalVT+UnlockEnvelope on wire bytes.
func (e *engine) modelUnlockWire(wire []byte, ctx string, offeredAll []*key) (op string, res string) {
	// nil entries of the offered slice are skipped by matchPrivKeys: the model's key list is the rest
	var offered []*key
	for _, k := range offeredAll {
		if k.nilKind == 0 {
			offered = append(offered, k)
		}
	}
	pems := make([][]byte, len(offered))
	for i, k := range offered {
		pems[i] = k.pem
	}
	h := blake3.Sum256([]byte(ctx))
	op = fmt.Sprintf("envelope.unlockwire env=%s ctx=%s ctxhash=%s pems=%s", lib.Hex(wire), lib.Hex([]byte(ctx)), lib.Hex(h[:]), lib.HexList(pems))
	line := op
	for i := 0; i < 5; i++ {
		ans := e.m.Query(line)
		switch {
		case strings.HasPrefix(ans, "need dec "):
			qs := strings.Split(lib.KV(ans, "q"), ",")
			out := make([]string, len(qs))
			for j, q := range qs {
				f := strings.Split(q, ":")
				ki, _ := strconv.Atoi(f[0])
				ectx := string(lib.Unhex(f[1]))
				ct := lib.Unhex(f[2])
				out[j] = lib.Recover(func() string {
					d, err := peer.DecryptWithPrivKey(offered[ki].priv, ectx, ct)
					return ansHex(d, err == nil)
				})
				if strings.HasPrefix(out[j], "panic") {
					out[j] = "x"
				}
			}
			line += " dec=" + strings.Join(out, ",")
		case strings.HasPrefix(ans, "need kdf "):
			line += " key=" + lib.Hex(kdfKey(string(lib.Unhex(lib.KV(ans, "kctx"))), lib.Unhex(lib.KV(ans, "mat"))))
		case strings.HasPrefix(ans, "need open "):
			aead, err := chacha20poly1305.NewX(lib.Unhex(lib.KV(ans, "key")))
			if err != nil {
				panic(err)
			}
			p, err := aead.Open(nil, lib.Unhex(lib.KV(ans, "nonce")), lib.Unhex(lib.KV(ans, "ct")), nil)
			line += " opened=" + ansHex(p, err == nil)
		default:
			return op, ans
		}
	}
	panic("oracle protocol did not terminate: " + lib.Trunc(op))
}

func implUnlockWire(wire []byte, ctx string, privs []crypto.PrivKey) string {
	return lib.Recover(func() string {
		env := &envelope.Envelope{}
		if err := env.UnmarshalVT(wire); err != nil {
			return "err unmarshal"
		}
		return unlockImpl(ctx, env, privs, nil)
	})
}

func outcomeClass(s string) string {
	f := strings.SplitN(s, " ", 3)
	if f[0] == "err" && len(f) > 1 {
		return "err." + f[1]
	}
	return f[0]
}

// wireCase: model (with oracles) vs implementation on wire bytes, plus the C18 monitor
// (never a panic, never a payload other than orig; mustCtxMismatch: rejected as such).
func (e *engine) wireCase(wire []byte, ctx string, offered []*key, orig []byte, gen string, key string, mustCtxMismatch bool, mustOpen bool) string {
	return e.wireCaseX(wire, ctx, offered, orig, gen, key, mustCtxMismatch, mustOpen, "")
}

// wireCaseX: mustNotOpen != "" states why this envelope / key set must not open at all.
func (e *engine) wireCaseX(wire []byte, ctx string, offered []*key, orig []byte, gen string, key string, mustCtxMismatch bool, mustOpen bool, mustNotOpen string) string {
	op, model := e.modelUnlockWire(wire, ctx, offered)
	impl := implUnlockWire(wire, ctx, e.privs(offered))
	mon := errResultMon(impl, gen)
	switch {
	case mon != "":
	case strings.HasPrefix(impl, "panic"):
		mon = "UnlockEnvelope panics (" + gen + "): " + impl
	case strings.HasPrefix(impl, "opened"):
		if orig != nil && lib.KV(impl, "payload") != lib.Hex(orig) {
			mon = "UnlockEnvelope returned a payload other than the sealed one (" + gen + ")"
			// the two classes of the known finding (no sender authentication): only THIS verdict goes
			// under its key — "opened with keys below the threshold" stays an ordinary violation —
			// and only the first few per run are recorded (the report keeps 200 disagreements)
			for _, cl := range []string{"insider-reseal", "rebuilt-same-id"} {
				if mustNotOpen == "" && (gen == cl || strings.HasPrefix(gen, cl+"/")) {
					key = "envelope.unlock:unauthenticated/" + cl
					e.knownOther[cl]++
					e.rep.Branches["known.unauthenticated."+cl]++
					if e.knownOther[cl] > 3 {
						mon = ""
					}
				}
			}
		}
		if mustCtxMismatch {
			mon = "UnlockEnvelope succeeded under a different context (" + gen + ")"
		}
	case strings.HasPrefix(impl, "locked-with-payload"):
		mon = "UnlockEnvelope returned a payload without success (" + gen + ")"
	}
	if mustCtxMismatch && mon == "" && impl != "err contextMismatch" {
		mon = "different context not rejected as a context mismatch (" + gen + "): " + impl
	}
	if mustOpen && mon == "" && !strings.HasPrefix(impl, "opened") {
		mon = "honest envelope not opened by sufficient keys (" + gen + "): " + impl
	}
	if mustNotOpen != "" && mon == "" && strings.HasPrefix(impl, "opened") {
		mon = "UnlockEnvelope opened an envelope that must stay locked: " + mustNotOpen + " (" + gen + ")"
	}
	e.rep.Compare(op, model, impl, "wire."+outcomeClass(model), key, mon)
	return impl
}

// ---- building ----

type built struct {
	c        cfg
	ctx      string
	payload  []byte
	keys     []*key // recipients
	env      *envelope.Envelope
	err      error
	panicked string
}

func (e *engine) buildReal(c cfg, ctx string, payload []byte) *built {
	b := &built{c: c, ctx: ctx, payload: payload, keys: e.keys[:c.nkeys]}
	pubs := make([]crypto.PubKey, c.nkeys)
	for i := range pubs {
		pubs[i] = e.keys[i].pub
	}
	for _, i := range c.bad {
		pubs[i] = e.badPub
	}
	if len(c.dupOf) > 0 {
		ks := append([]*key(nil), b.keys...)
		for j, i := range c.dupOf {
			pubs[j] = e.keys[i].pub
			ks[j] = e.keys[i]
		}
		b.keys = ks
	}
	if p := lib.Recover(func() string {
		b.env, b.err = envelope.BuildEnvelope(rndReader{e.rng}, ctx, payload, pubs, c.proto())
		return ""
	}); p != "" {
		b.env, b.err, b.panicked = nil, errors.New(p), p
	}
	return b
}

func scalarToInt(b []byte) int {
	// little endian; share IDs are small
	v := 0
	for i := len(b) - 1; i >= 0; i-- {
		if v > 1<<40 {
			return -1
		}
		v = v<<8 | int(b[i])
	}
	return v
}

// observedPlacement decrypts every grant with its first recipient (directly with peer.Decrypt…)
// and lists the share IDs placed in it: "1.2;x;_".
func (e *engine) observedPlacement(b *built) string {
	out := make([]string, len(b.env.GetGrants()))
	for gi, g := range b.env.GetGrants() {
		if len(g.GetKeypairIndexes()) == 0 {
			out[gi] = "x"
			continue
		}
		k := b.keys[g.GetKeypairIndexes()[0]]
		ectx := envelope.VerifBuildGrantEncContext(b.env.GetEnvelopeId(), b.ctx, gi)
		d, err := peer.DecryptWithPrivKey(k.priv, ectx, g.GetCiphertexts()[0])
		if err != nil {
			out[gi] = "undecryptable"
			continue
		}
		inner := &envelope.EnvelopeGrantInner{}
		if err := inner.UnmarshalVT(d); err != nil {
			out[gi] = "badinner"
			continue
		}
		ids := make([]string, len(inner.GetShares()))
		for i, s := range inner.GetShares() {
			ids[i] = strconv.Itoa(scalarToInt(s.GetId()))
		}
		if len(ids) == 0 {
			out[gi] = "_"
		} else {
			out[gi] = strings.Join(ids, ".")
		}
	}
	return strings.Join(out, ";")
}

// recoverSecret reconstructs the sealed secret scalar the way a holder of all recipient keys can:
// the shares of every decryptable grant, CIRCL's Recover; it is the secret iff the key derived
// from it (blake3.DeriveKey, called directly) opens the payload ciphertext (chacha20poly1305, directly).
func (e *engine) recoverSecret(b *built) ([]byte, bool) {
	g := group.Ristretto255
	var shares []secretsharing.Share
	seen := map[string]bool{}
	for gi, gr := range b.env.GetGrants() {
		if len(gr.GetKeypairIndexes()) == 0 || len(gr.GetCiphertexts()) == 0 {
			continue
		}
		k := b.keys[gr.GetKeypairIndexes()[0]]
		d, err := peer.DecryptWithPrivKey(k.priv, envelope.VerifBuildGrantEncContext(b.env.GetEnvelopeId(), b.ctx, gi), gr.GetCiphertexts()[0])
		if err != nil {
			continue
		}
		inner := &envelope.EnvelopeGrantInner{}
		if inner.UnmarshalVT(d) != nil {
			continue
		}
		for _, sh := range inner.GetShares() {
			id, val := g.NewScalar(), g.NewScalar()
			if id.UnmarshalBinary(sh.GetId()) != nil || val.UnmarshalBinary(sh.GetValue()) != nil || seen[string(mb(id))] {
				continue
			}
			seen[string(mb(id))] = true
			shares = append(shares, secretsharing.Share{ID: id, Value: val})
		}
	}
	t := uint(b.env.GetThreshold())
	if uint(len(shares)) <= t {
		return nil, false
	}
	secret := lib.Recover(func() string {
		sc, err := secretsharing.Recover(t, shares)
		if err != nil {
			return ""
		}
		return "ok " + hex.EncodeToString(mb(sc))
	})
	if !strings.HasPrefix(secret, "ok ") {
		return nil, false
	}
	sb, _ := hex.DecodeString(secret[3:])
	ct := b.env.GetCiphertext()
	if len(ct) < 24 {
		return nil, false
	}
	aead, err := chacha20poly1305.NewX(kdfKey(envelope.VerifBuildKeyDerivationContext(b.env.GetEnvelopeId(), b.ctx), sb))
	if err != nil {
		return nil, false
	}
	p, err := aead.Open(nil, ct[:24], ct[24:], nil)
	if err != nil || !bytes.Equal(p, b.payload) {
		return nil, false
	}
	return sb, true
}

func isLowerHex(s string) bool {
	for _, c := range s {
		if !(c >= '0' && c <= '9' || c >= 'a' && c <= 'f') {
			return false
		}
	}
	return true
}

// idMonitor states the envelope-id clause on one sealed envelope: the configured id is the
// envelope's id; an empty one is replaced by the lower-case hex of the first 16 bytes of
// BLAKE3(secret ‖ context), 32 characters. canon is the id as compared with the model: "auto" when
// the id is the one derived from the bytes the model names (oracle request autoid), else its hex.
func (e *engine) idMonitor(b *built) (mon, canon string) {
	id := b.env.GetEnvelopeId()
	canon = lib.Hex([]byte(id))
	if b.c.id != "" {
		if id != b.c.id {
			mon = fmt.Sprintf("BuildEnvelope did not seal the envelope under the configured envelope id: configured %q, envelope carries %q", b.c.id, id)
		}
		return
	}
	if len(id) != 32 || !isLowerHex(id) {
		mon = fmt.Sprintf("auto-generated envelope id is not 32 lower-case hex characters: %q", id)
	}
	secret, ok := e.recoverSecret(b)
	if !ok {
		return
	}
	dw := blake3.Sum256(append(append([]byte(nil), secret...), b.ctx...))
	want := hex.EncodeToString(dw[:16])
	if id != want && mon == "" {
		mon = fmt.Sprintf("auto-generated envelope id %q is not hex(BLAKE3(secret ‖ context)[:16]) = %q", id, want)
	}
	if e.m == nil {
		if id == want {
			canon = "auto"
		}
		return
	}
	// what the model says is hashed, and how much of the digest is kept
	ans := e.m.Query(fmt.Sprintf("envelope.autoid secret=%s ctx=%s", lib.Hex(secret), lib.Hex([]byte(b.ctx))))
	take, _ := strconv.Atoi(lib.KV(ans, "take"))
	d := blake3.Sum256(lib.Unhex(lib.KV(ans, "data")))
	if strings.HasPrefix(ans, "hash ") && take <= 32 && id == hex.EncodeToString(d[:take]) {
		canon = "auto"
	}
	return
}

type planOut struct {
	b    *built
	impl string
	mon  string
	key  string
}

// implPlan runs BuildEnvelope on the configuration and states the C17 clauses and the guards
// of BuildEnvelope on the outcome, independently of the model.
func (e *engine) implPlan(c cfg, ctx string, payload []byte, gen string) planOut {
	b := e.buildReal(c, ctx, payload)
	o := planOut{b: b, key: "envelope.build:" + gen}
	all := map[int]bool{}
	for i := 0; i < c.nkeys; i++ {
		all[i] = true
	}
	validIdx := true
	for _, g := range c.grants {
		for _, k := range g.idx {
			if int(k) >= c.nkeys {
				validIdx = false
			}
		}
	}
	wellFormed := !c.empty && !c.nilCfg && len(c.bad) == 0 && c.nkeys > 0 && len(c.grants) > 0
	availAll := 0
	if !c.nilCfg {
		availAll, _ = specReach(c, all)
	}
	openable := wellFormed && validIdx && availAll >= int(c.t)+1
	switch {
	case b.panicked != "":
		o.impl = b.panicked
		o.mon = "BuildEnvelope panics (" + gen + "): " + b.panicked
	case b.err != nil:
		o.impl = buildErrClass(b.err)
		if openable {
			o.mon = "BuildEnvelope rejects a configuration its recipients could open (" + gen + "): " + b.err.Error()
		}
	case c.empty:
		o.impl = "ok"
		o.mon = "BuildEnvelope sealed an empty payload (documented: ErrEmptyPayload)"
		o.key = "envelope.build:empty-payload-accepted"
	case c.nilCfg:
		o.impl = "ok"
		o.mon = "BuildEnvelope sealed an envelope for a nil configuration (documented: ErrNoGrants)"
		o.key = "envelope.build:nil-config-accepted"
	case len(c.bad) > 0:
		o.impl = "ok"
		o.mon = "BuildEnvelope sealed an envelope although a recipient key is of an unsupported type (peer.EncryptToPubKey supports Ed25519 only)"
		o.key = "envelope.build:unsupported-key-accepted"
	default:
		usable := 0
		pl := specPlaced(c)
		for gi, g := range c.grants {
			if len(g.idx) > 0 {
				usable += len(pl[gi])
			}
		}
		idMon, idCanon := e.idMonitor(b)
		o.impl = fmt.Sprintf("ok t=%d grants=%d total=%d placed=%s usable=%d id=%s", b.env.GetThreshold(), len(b.env.GetGrants()), specTotal(c), e.observedPlacement(b), usable, idCanon)
		// C17: accepted => all recipients together open it and get the payload
		got := unlockImpl(ctx, b.env, e.privs(b.keys), payload)
		if !strings.HasPrefix(got, "opened payload=orig") {
			o.mon = fmt.Sprintf("BuildEnvelope accepted a configuration that all recipient keys together cannot open (%s): %s", c.args(), got)
			o.key = "envelope.build:accepted-unopenable"
		} else if !openable {
			o.mon = "harness spec disagrees: opened although the spec says unreachable (" + gen + ")"
		} else if idMon != "" {
			o.mon = idMon
			o.key = "envelope.build:envelope-id"
		}
	}
	return o
}

func (e *engine) randCtx() string {
	return []string{"ctx A", "", "bifrost/envelope test v1", "π ✓", "a b 3:c"}[e.rng.Intn(5)]
}

func (e *engine) randPayload(c cfg) []byte {
	if c.empty {
		if e.rng.Intn(2) == 0 {
			return nil
		}
		return []byte{}
	}
	return e.rng.Bytes(1 + e.rng.Intn(40))
}

func planBranch(c cfg, model string) string {
	br := "plan." + outcomeClass(model)
	if strings.HasPrefix(model, "ok") {
		for _, p := range specPlaced(c) {
			if len(p) == 0 {
				br = "plan.ok.empty-grant"
			}
		}
	}
	return br
}

// planCase: accept/reject + placement + envelope id, model vs BuildEnvelope; C17 monitor.
func (e *engine) planCase(c cfg, gen string) *built {
	ctx := e.randCtx()
	payload := e.randPayload(c)
	op := "envelope.plan " + c.args()
	model := e.m.Query(op)
	o := e.implPlan(c, ctx, payload, gen)
	e.rep.Compare(op, model, o.impl, planBranch(c, model), o.key, o.mon)
	if o.b.err == nil && !c.empty && !c.nilCfg && len(c.bad) == 0 {
		if c.id == "" {
			e.rep.Branches["id.auto"]++
		} else {
			e.rep.Branches["id.configured"]++
		}
	}
	return o.b
}

// freshCase: the derived id is fresh: two envelopes sealed from the same configuration, context
// and payload (new secret each time) do not share it; a configured id is shared.
func (e *engine) freshCase(b *built) {
	if b.err != nil || b.env == nil {
		return
	}
	b2 := e.buildReal(b.c, b.ctx, b.payload)
	if b2.err != nil {
		return
	}
	op := "envelope.fresh " + b.c.args()
	same := b.env.GetEnvelopeId() == b2.env.GetEnvelopeId()
	want := "same"
	if b.c.id == "" {
		want = "different"
	}
	impl := "different"
	if same {
		impl = "same"
	}
	mon := ""
	if b.c.id == "" && same {
		mon = fmt.Sprintf("two envelopes sealed separately carry the same auto-generated id %q", b.env.GetEnvelopeId())
	}
	if b.c.id != "" && !same {
		mon = "two envelopes sealed under the same configured id carry different ids"
	}
	e.rep.Compare(op, want, impl, "id.fresh", "envelope.build:envelope-id-fresh", mon)
}

// childPlanCase runs one plan case in a child process (configurations whose share counts sum to
// 2^32 or more: a code change that stops the uint32 wrap would try to create billions of shares).
func (e *engine) childPlanCase(c cfg, gen string) {
	op := "envelope.plan " + c.args()
	model := e.m.Query(op)
	cmd := exec.Command(os.Args[0])
	cmd.Env = append(os.Environ(), "VERIF_ENVELOPE_CHILD=plan", "VERIF_ENVELOPE_CFG="+c.args(), "VERIF_ENVELOPE_GEN="+gen, "GOMEMLIMIT=1GiB")
	var out bytes.Buffer
	cmd.Stdout = &out
	done := make(chan error, 1)
	if err := cmd.Start(); err != nil {
		panic(err)
	}
	go func() { done <- cmd.Wait() }()
	impl, mon, key := "", "", "envelope.build:"+gen
	select {
	case <-done:
		lines := strings.Split(strings.TrimRight(out.String(), "\n"), "\n")
		if len(lines) == 3 && lines[0] != "" {
			impl, mon, key = lines[0], lines[1], lines[2]
		} else {
			impl = "crash"
		}
	case <-time.After(90 * time.Second):
		_ = cmd.Process.Kill()
		<-done
		impl = "hang"
	}
	if impl == "crash" || impl == "hang" {
		mon = "BuildEnvelope does not return on a configuration whose share counts sum to 2^32 or more (" + c.args() + "): " + impl
	}
	e.rep.Compare(op, model, impl, planBranch(c, model), key, mon)
	e.rep.Branches["plan.sumwrap"]++
}

func childPlan() {
	e := &engine{rng: lib.NewRng(7)}
	e.setupKeys()
	c := parseCfgArgs(os.Getenv("VERIF_ENVELOPE_CFG"))
	o := e.implPlan(c, "ctx A", []byte("payload"), os.Getenv("VERIF_ENVELOPE_GEN"))
	fmt.Printf("%s\n%s\n%s\n", o.impl, strings.ReplaceAll(o.mon, "\n", " "), o.key)
}

// offers: subsets of recipients (all of them when n >= 2^nkeys) plus unrelated keys, as index lists
// (>= nkeys → unrelated pool 4,5; 6 = private key of an unsupported type).
func (e *engine) offers(c cfg, n int) [][]int {
	var out [][]int
	full := 1 << c.nkeys
	pick := map[int]bool{full - 1: true, 0: true}
	for len(pick) < min(n, full) {
		pick[e.rng.Intn(full)] = true
	}
	masks := make([]int, 0, len(pick))
	for m := range pick {
		masks = append(masks, m)
	}
	sort.Ints(masks)
	for _, m := range masks {
		var l []int
		for i := 0; i < c.nkeys; i++ {
			if m&(1<<i) != 0 {
				l = append(l, i)
			}
		}
		switch e.rng.Intn(9) {
		case 5:
			// a shadow of an offered recipient BEFORE the genuine key (and sometimes another after it)
			if len(l) > 0 {
				r := l[e.rng.Intn(len(l))]
				if r < 3 {
					l = append([]int{kShadow0 + r}, l...)
					if e.rng.Intn(3) == 0 {
						l = append(l, kShadow0+r)
					}
					e.rep.Branches["gen.shadow-first"]++
				}
			}
		case 6:
			// a shadow of a recipient whose genuine key is NOT offered: reaches nothing
			for r := 0; r < c.nkeys && r < 3; r++ {
				if m&(1<<r) == 0 {
					l = append(l, kShadow0+r)
					e.rep.Branches["gen.shadow-only"]++
					break
				}
			}
		case 7:
			// shadows of every offered recipient, all in front
			var sh []int
			for _, r := range l {
				if r < 3 {
					sh = append(sh, kShadow0+r)
				}
			}
			if len(sh) > 0 {
				l = append(sh, l...)
				e.rep.Branches["gen.shadow-first"]++
			}
		case 8:
			// nil entries (a nil interface / a nil key pointer) among the keys
			pos := e.rng.Intn(len(l) + 1)
			nk := []int{kNil, kTypedNil}[e.rng.Intn(2)]
			l = append(l[:pos:pos], append([]int{nk}, l[pos:]...)...)
			if e.rng.Intn(2) == 0 {
				l = append(l, kNil+kTypedNil-nk)
			}
			e.rep.Branches["gen.nil-key"]++
		case 4:
			// a private key of an unsupported type (skipped by matchPrivKeys), first or last
			if e.rng.Intn(2) == 0 {
				l = append([]int{6}, l...)
			} else {
				l = append(l, 6)
			}
		case 0:
			l = append(l, 4) // unrelated key
		case 1:
			l = append([]int{5}, l...)
			if len(l) > 1 {
				l = append(l, l[1]) // duplicate
			}
		case 2:
			e.rng.Shuffle(len(l), func(i, j int) { l[i], l[j] = l[j], l[i] })
		}
		out = append(out, l)
	}
	return out
}

func (e *engine) offerKeys(l []int) []*key {
	out := make([]*key, len(l))
	for i, k := range l {
		out[i] = e.keys[k]
	}
	return out
}

// runCase: abstract prediction from the configuration + wire-level prediction; C16 monitor.
func (e *engine) runCase(b *built, offer []int) {
	c := b.c
	op := "envelope.run " + c.args() + " offer=" + natList(modelOffer(offer))
	model := e.m.Query(op)
	impl := unlockImpl(b.ctx, b.env, e.privs(e.offerKeys(offer)), b.payload)
	// monitor: independent statement of C16. What the offered keys can decrypt is decided by the
	// GENUINE recipient keys among them: a shadow key (reports a recipient's public key, holds
	// another seed), an unrelated key, a key of an unsupported type and a nil entry decrypt nothing,
	// wherever they stand in the list.
	off := map[int]bool{}
	extra := ""
	for _, k := range offer {
		switch {
		case k < c.nkeys:
			off[k] = true
		case k >= kNil:
			extra = " (the offer contains a nil key)"
		case k >= kShadow0 && extra == "":
			extra = " (the offer contains a key object that reports a recipient's public key but holds another private half)"
		}
	}
	avail, unlocked := specReach(c, off)
	want := fmt.Sprintf("locked avail=%d needed=%d unlocked=%s", avail, c.t+1, natList(unlocked))
	if avail >= int(c.t)+1 {
		want = fmt.Sprintf("opened payload=orig avail=%d needed=%d unlocked=%s", avail, c.t+1, natList(unlocked))
	}
	mon := ""
	if impl != want {
		mon = fmt.Sprintf("UnlockEnvelope result differs from what the offered keys can reach%s: offer %v, want %q got %q", extra, offer, want, impl)
	}
	br := "run." + strings.SplitN(model, " ", 2)[0]
	if avail == int(c.t)+1 {
		br += ".exact"
	}
	e.rep.Compare(op, model, impl, br, "envelope.unlock:reach", mon)
	wire, err := b.env.MarshalVT()
	if err != nil {
		panic(err)
	}
	e.wireCase(wire, b.ctx, e.offerKeys(offer), b.payload, "honest", "envelope.unlockwire:honest", false, avail >= int(c.t)+1)
}

// ---- CIRCL tie ----

func randScalar(e *engine) group.Scalar {
	s := group.Ristretto255.NewScalar()
	b := e.rng.Bytes(32)
	if err := s.UnmarshalBinary(b); err != nil {
		panic(err)
	}
	return s
}

func mb(s group.Scalar) []byte {
	b, err := s.MarshalBinary()
	if err != nil {
		panic(err)
	}
	return b
}

var ellLE = []byte{0xed, 0xd3, 0xf5, 0x5c, 0x1a, 0x63, 0x12, 0x58, 0xd6, 0x9c, 0xf7, 0xa2, 0xde, 0xf9, 0xde, 0x14, 0, 0, 0, 0, 0, 0, 0, 0, 0, 0, 0, 0, 0, 0, 0, 0x10}

// alias returns another encoding of the same scalar (top bits set, or + l when it fits).
func (e *engine) alias(b []byte) []byte {
	out := append([]byte(nil), b...)
	if e.rng.Intn(2) == 0 {
		out[31] |= byte(0x20 << e.rng.Intn(3))
		return out
	}
	carry := 0
	for i := 0; i < 32; i++ {
		v := int(out[i]) + int(ellLE[i]) + carry
		out[i] = byte(v)
		carry = v >> 8
	}
	return out
}

func (e *engine) sharingTie(n int) {
	g := group.Ristretto255
	for i := 0; i < n; i++ {
		// canonical decoding of arbitrary 32 bytes and of lengths != 32
		b := e.rng.Bytes(32)
		switch i % 6 {
		case 1:
			b = e.alias(mb(g.NewScalar().SetUint64(uint64(e.rng.Intn(1000)))))
		case 2:
			b = e.rng.Bytes([]int{0, 1, 31, 33, 64}[e.rng.Intn(5)])
		case 3:
			b = append([]byte(nil), ellLE...)
			b[0] += byte(e.rng.Intn(3)) - 1
		case 4:
			b = bytes.Repeat([]byte{0xff}, 32)
		}
		op := "envelope.scalar b=" + lib.Hex(b)
		impl := lib.Recover(func() string {
			s := g.NewScalar()
			if err := s.UnmarshalBinary(b); err != nil {
				return "err"
			}
			return "ok " + lib.Hex(mb(s))
		})
		model := e.m.Query(op)
		e.rep.Compare(op, model, impl, "scalar."+strings.SplitN(model, " ", 2)[0], "envelope.scalar", "")

		// polynomial evaluation
		deg := e.rng.Intn(5)
		cs := make([]group.Scalar, deg+1)
		csb := make([][]byte, deg+1)
		for j := range cs {
			cs[j] = randScalar(e)
			csb[j] = mb(cs[j])
		}
		x := randScalar(e)
		op = fmt.Sprintf("envelope.polyeval coeffs=%s x=%s", lib.HexList(csb), lib.Hex(mb(x)))
		impl = "ok " + lib.Hex(mb(polynomial.New(cs).Evaluate(x)))
		e.rep.Compare(op, e.m.Query(op), impl, "polyeval", "envelope.polyeval", "")

		// split + recover
		t := uint(e.rng.Intn(5))
		nsh := uint(e.rng.Intn(8))
		secret := randScalar(e)
		ss := secretsharing.New(rndReader{e.rng}, t, secret)
		shares := ss.Share(nsh)
		e.rng.Shuffle(len(shares), func(a, b int) { shares[a], shares[b] = shares[b], shares[a] })
		if len(shares) > 0 {
			shares = shares[:e.rng.Intn(len(shares)+1)]
		}
		ids := make([][]byte, len(shares))
		vals := make([][]byte, len(shares))
		for j, s := range shares {
			ids[j], vals[j] = mb(s.ID), mb(s.Value)
		}
		gen := "honest"
		switch i % 5 {
		case 1:
			if len(ids) >= 2 {
				gen = "duplicate"
				ids[len(ids)-1] = ids[0]
			}
		case 2:
			if len(ids) >= 2 {
				gen = "aliased"
				ids[e.rng.Intn(len(ids))] = e.alias(ids[e.rng.Intn(len(ids))])
			}
		case 3:
			if len(ids) >= 1 {
				gen = "garbage-value"
				vals[e.rng.Intn(len(vals))] = e.rng.Bytes(32)
			}
		case 4:
			if len(ids) >= 1 {
				gen = "zero-id"
				ids[e.rng.Intn(len(ids))] = make([]byte, 32)
			}
		}
		tt := t
		if i%7 == 6 {
			tt = uint(e.rng.Intn(6))
		}
		op = fmt.Sprintf("envelope.recover t=%d ids=%s vals=%s", tt, lib.HexList(ids), lib.HexList(vals))
		impl = lib.Recover(func() string {
			sh := make([]secretsharing.Share, len(ids))
			for j := range ids {
				sh[j].ID, sh[j].Value = g.NewScalar(), g.NewScalar()
				if err := sh[j].ID.UnmarshalBinary(ids[j]); err != nil {
					panic(err)
				}
				if err := sh[j].Value.UnmarshalBinary(vals[j]); err != nil {
					panic(err)
				}
			}
			s, err := secretsharing.Recover(tt, sh)
			if err != nil {
				return "err"
			}
			return "ok " + lib.Hex(mb(s))
		})
		if strings.HasPrefix(impl, "panic") {
			impl = "panic"
		}
		model = e.m.Query(op)
		mon := ""
		if gen == "honest" && tt >= t && uint(len(ids)) > tt && impl != "ok "+lib.Hex(mb(secret)) {
			mon = "secretsharing.Recover does not return the shared secret from t+1 distinct honest shares"
		}
		e.rep.Compare(op, model, impl, "recover."+strings.SplitN(model, " ", 2)[0], "envelope.recover:"+gen, mon)
	}
}

// ---- context strings, inner codec, envelope decode ----

func (e *engine) stringsTie(n int) {
	for i := 0; i < n; i++ {
		id := string(e.rng.Bytes([]int{0, 1, 9, 10, 11, 32, 99, 100, 101}[e.rng.Intn(9)]))
		ctx := string(e.rng.Bytes([]int{0, 1, 9, 10, 11, 99, 100, 1000}[e.rng.Intn(8)]))
		gi := []int{0, 1, 9, 10, 11, 99, 100, 12345, 1 << 31}[e.rng.Intn(9)]
		op := fmt.Sprintf("envelope.encctx id=%s ctx=%s gi=%d", lib.Hex([]byte(id)), lib.Hex([]byte(ctx)), gi)
		real := envelope.VerifBuildGrantEncContext(id, ctx, gi)
		// the property of these strings: different (id, context, grant index) => different string,
		// also when bytes are shifted across the field boundaries
		mon := ""
		if real == envelope.VerifBuildGrantEncContext(id, ctx, gi+1) || real == envelope.VerifBuildGrantEncContext(id, ctx, gi*10+1) {
			mon = "grant encryption context does not depend on the grant index"
		}
		if real == envelope.VerifBuildGrantEncContext(id, ctx+"x", gi) || real == envelope.VerifBuildGrantEncContext(id+"x", ctx, gi) {
			mon = "grant encryption context does not depend on the envelope id / context"
		}
		if len(ctx) > 0 && real == envelope.VerifBuildGrantEncContext(id+ctx[:1], ctx[1:], gi) {
			mon = "grant encryption context is ambiguous across the id/context boundary"
		}
		if real == envelope.VerifBuildKeyDerivationContext(id, ctx) {
			mon = "grant encryption context equals the key derivation context"
		}
		// input-normalisation pairs (harness/norm): a context / id and its image under a
		// normalisation (hash of a long one, truncation, padding, trimming, folding …) never give
		// the same string — a rotating sample of the normalisations per iteration
		for _, nf := range e.normSample(8) {
			if y := string(nf.F([]byte(ctx))); y != ctx && mon == "" {
				e.rep.Branches["norm.ctxstring"]++
				if real == envelope.VerifBuildGrantEncContext(id, y, gi) || envelope.VerifBuildKeyDerivationContext(id, ctx) == envelope.VerifBuildKeyDerivationContext(id, y) {
					mon = fmt.Sprintf("the context strings of two different contexts are equal: a context of %d bytes and %s of it", len(ctx), nf.Name)
				}
			}
			if y := string(nf.F([]byte(id))); y != id && mon == "" {
				if real == envelope.VerifBuildGrantEncContext(y, ctx, gi) || envelope.VerifBuildKeyDerivationContext(id, ctx) == envelope.VerifBuildKeyDerivationContext(y, ctx) {
					mon = fmt.Sprintf("the context strings of two different envelope ids are equal: an id of %d bytes and %s of it", len(id), nf.Name)
				}
			}
		}
		e.rep.Compare(op, e.m.Query(op), "ok "+lib.Hex([]byte(real)), "encctx", "envelope.encctx", mon)
		op = fmt.Sprintf("envelope.kdctx id=%s ctx=%s", lib.Hex([]byte(id)), lib.Hex([]byte(ctx)))
		realk := envelope.VerifBuildKeyDerivationContext(id, ctx)
		mon = ""
		if realk == envelope.VerifBuildKeyDerivationContext(id, ctx+"x") || realk == envelope.VerifBuildKeyDerivationContext(id+"x", ctx) ||
			(len(ctx) > 0 && realk == envelope.VerifBuildKeyDerivationContext(id+ctx[:1], ctx[1:])) {
			mon = "key derivation context does not bind the envelope id / context unambiguously"
		}
		e.rep.Compare(op, e.m.Query(op), "ok "+lib.Hex([]byte(realk)), "kdctx", "envelope.kdctx", mon)
		// inner codec
		ns := e.rng.Intn(4)
		ids := make([][]byte, ns)
		vals := make([][]byte, ns)
		inner := &envelope.EnvelopeGrantInner{}
		for j := 0; j < ns; j++ {
			ids[j] = e.rng.Bytes([]int{0, 1, 32, 32, 32, 33}[e.rng.Intn(6)])
			vals[j] = e.rng.Bytes([]int{0, 32, 32, 32, 31}[e.rng.Intn(5)])
			inner.Shares = append(inner.Shares, &envelope.EnvelopeShare{Id: ids[j], Value: vals[j]})
		}
		dat, err := inner.MarshalVT()
		if err != nil {
			panic(err)
		}
		op = fmt.Sprintf("envelope.encinner ids=%s vals=%s", lib.HexList(ids), lib.HexList(vals))
		e.rep.Compare(op, e.m.Query(op), "ok "+lib.Hex(dat), "encinner", "envelope.encinner", "")
		w := append([]byte(nil), dat...)
		switch i % 4 {
		case 1:
			if len(w) > 0 {
				w[e.rng.Intn(len(w))] ^= 1 << e.rng.Intn(8)
			}
		case 2:
			if len(w) > 0 {
				w = w[:e.rng.Intn(len(w))]
			}
		case 3:
			w = e.rng.Bytes(e.rng.Intn(20))
		}
		op = "envelope.inner b=" + lib.Hex(w)
		impl := lib.Recover(func() string {
			in := &envelope.EnvelopeGrantInner{}
			if err := in.UnmarshalVT(w); err != nil {
				return "err"
			}
			l := make([]string, len(in.GetShares()))
			for j, s := range in.GetShares() {
				l[j] = lib.Hex(s.GetId()) + "/" + lib.Hex(s.GetValue())
			}
			if len(l) == 0 {
				return "ok _"
			}
			return "ok " + strings.Join(l, ",")
		})
		model := e.m.Query(op)
		e.rep.Compare(op, model, impl, "inner."+strings.SplitN(model, " ", 2)[0], "envelope.inner", "")
	}
}

func dumpEnv(env *envelope.Envelope) string {
	gs := make([]string, len(env.GetGrants()))
	for i, g := range env.GetGrants() {
		ks := make([]string, len(g.GetKeypairIndexes()))
		for j, k := range g.GetKeypairIndexes() {
			ks[j] = strconv.Itoa(int(k))
		}
		k := "_"
		if len(ks) > 0 {
			k = strings.Join(ks, ".")
		}
		gs[i] = k + "/" + lib.HexList(g.GetCiphertexts())
	}
	g := "_"
	if len(gs) > 0 {
		g = strings.Join(gs, ";")
	}
	ks := make([][]byte, len(env.GetKeypairs()))
	kl := "_"
	if len(ks) > 0 {
		p := make([]string, len(ks))
		for i, k := range env.GetKeypairs() {
			p[i] = lib.Hex(k.GetPubKey())
		}
		kl = strings.Join(p, ",")
	}
	return fmt.Sprintf("ok id=%s ch=%s t=%d ct=%s grants=%s keypairs=%s", lib.Hex([]byte(env.GetEnvelopeId())), lib.Hex(env.GetContextHash()), env.GetThreshold(), lib.Hex(env.GetCiphertext()), g, kl)
}

func (e *engine) decodeCase(wire []byte, gen string) {
	op := "envelope.decode env=" + lib.Hex(wire)
	model := e.m.Query(op)
	impl := lib.Recover(func() string {
		env := &envelope.Envelope{}
		if err := env.UnmarshalVT(wire); err != nil {
			return "err"
		}
		return dumpEnv(env)
	})
	mon := ""
	if strings.HasPrefix(impl, "panic") {
		mon = "Envelope.UnmarshalVT panics (" + gen + ")"
	}
	e.rep.Compare(op, model, impl, "decode."+strings.SplitN(model, " ", 2)[0], "envelope.decode:"+gen, mon)
}

// ---- properties ----

var c16Branches = []string{"run.repeated-recipient", "plan.ok", "plan.ok.empty-grant", "plan.err.invalidThreshold", "plan.err.invalidKeypairIndex",
	"run.opened", "run.opened.exact", "run.locked", "wire.opened", "wire.locked",
	"scalar.ok", "scalar.err", "polyeval", "recover.ok", "recover.err", "recover.panic", "encctx", "kdctx", "encinner", "inner.ok", "inner.err",
	"id.auto", "id.configured", "id.fresh", "offers.all8", "gen.large-share-count", "gen.unsupported-privkey",
	"plan.err.emptyPayload", "plan.err.noGrants", "plan.err.encrypt",
	"witness.shadow", "gen.shadow-first", "gen.shadow-only", "gen.nil-key"}

// repeatedRecipients: the same public key occupies two recipient slots (a recipient listed twice).
// Offering that key's private half reaches the grants of BOTH slots: the model is asked with the
// closure of the offer under "same key", the real UnlockEnvelope gets each distinct private key once.
func (e *engine) repeatedRecipients(n int) {
	fixed := []cfg{
		{nkeys: 2, t: 1, grants: []gcfg{{1, []uint32{0}}, {1, []uint32{1}}}, dupOf: map[int]int{1: 0}},
		{nkeys: 3, t: 2, grants: []gcfg{{1, []uint32{0}}, {1, []uint32{1}}, {1, []uint32{2}}}, dupOf: map[int]int{2: 0}},
		{nkeys: 3, t: 1, grants: []gcfg{{1, []uint32{0}}, {1, []uint32{2}}}, dupOf: map[int]int{2: 0}},
		{nkeys: 3, t: 2, grants: []gcfg{{2, []uint32{0}}, {1, []uint32{1, 2}}}, dupOf: map[int]int{1: 0}},
	}
	for i := 0; i < n; i++ {
		var c cfg
		if i < len(fixed) {
			c = fixed[i]
		} else {
			c = e.randCfg()
			if c.nkeys < 2 {
				c.nkeys = 2
			}
			j := 1 + e.rng.Intn(c.nkeys-1)
			c.dupOf = map[int]int{j: e.rng.Intn(j)}
		}
		b := e.planCase(c, "repeated-recipient")
		if b.err != nil || b.env == nil {
			continue
		}
		e.rep.Branches["gen.repeated-recipient"]++
		full := 1 << c.nkeys
		for m := 0; m < full; m++ {
			// distinct private keys offered: slot indexes that are not duplicates
			var offer []int
			for k := 0; k < c.nkeys; k++ {
				if _, dup := c.dupOf[k]; m&(1<<k) != 0 && !dup {
					offer = append(offer, k)
				}
			}
			closure := map[int]bool{}
			for _, k := range offer {
				closure[k] = true
			}
			for j, i := range c.dupOf {
				if closure[i] {
					closure[j] = true
				}
			}
			var cl []int
			for k := 0; k < c.nkeys; k++ {
				if closure[k] {
					cl = append(cl, k)
				}
			}
			op := "envelope.run " + c.args() + " offer=" + natList(cl)
			model := e.m.Query(op)
			impl := unlockImpl(b.ctx, b.env, e.privs(e.offerKeys(offer)), b.payload)
			avail, unlocked := specReach(c, closure)
			want := fmt.Sprintf("locked avail=%d needed=%d unlocked=%s", avail, c.t+1, natList(unlocked))
			if avail >= int(c.t)+1 {
				want = fmt.Sprintf("opened payload=orig avail=%d needed=%d unlocked=%s", avail, c.t+1, natList(unlocked))
			}
			mon := ""
			if impl != want {
				mon = fmt.Sprintf("a recipient key listed in two slots (slot %v): UnlockEnvelope result differs from what the offered keys can reach: want %q got %q", c.dupOf, want, impl)
			}
			e.rep.Compare(op+" (repeated recipient "+fmt.Sprint(c.dupOf)+", distinct keys offered "+natList(offer)+")", model, impl, "run.repeated-recipient", "envelope.unlock:repeated-recipient", mon)
		}
	}
}

// shadowWitness replays, every run, the offers of Props/C16 first_match_exact_false on the real
// code: a key object that reports recipient 1's public key but holds another seed, offered before /
// after / without the genuine key, and nil entries next to genuine keys.
func (e *engine) shadowWitness() {
	c := cfg{nkeys: 2, t: 1, grants: []gcfg{{1, []uint32{0}}, {2, []uint32{1}}}}
	b := e.planCase(c, "shadow-witness")
	if b.err != nil || b.env == nil {
		return
	}
	for _, off := range [][]int{
		{kShadow0 + 1, 1}, {1, kShadow0 + 1}, {kShadow0 + 1}, {kShadow0 + 1, kShadow0 + 1, 1}, {kShadow0, kShadow0 + 1, 0, 1},
		{kShadow0, 1}, {kShadow0 + 1, 0}, {kNil, 1}, {kTypedNil, 1}, {1, kNil}, {kNil}, {kTypedNil}, {kNil, kTypedNil, 0}, {kShadow0 + 1, kNil, 1},
	} {
		e.runCase(b, off)
		e.rep.Branches["witness.shadow"]++
	}
}

func (e *engine) runC16() {
	e.rep.Rule = "envelope configurations sampled from the stated bound (1-3 keys, 1-4 grants, share counts 0-2, keypair index lists of length 0-3 with duplicates, thresholds 0-3, total-share overrides 0-5, rare out-of-range index; one in three with the EnvelopeId field set; one in eight with share counts 3-64 and thresholds up to their sum; one in 25 with an empty payload, a nil configuration or a recipient key of an unsupported type) x ALL subsets of the recipients' keys mixed with unrelated / duplicated / shuffled keys and a private key of an unsupported type; the envelope id of every sealed envelope against the configured id / hex(BLAKE3(secret ‖ context)[:16]) with the secret recovered from the shares, and its freshness across two builds; every accepted configuration is built with the real BuildEnvelope and unlocked (a) against the model's prediction from the configuration alone and (b) against the model run on the real envelope bytes with oracle primitives; CIRCL Recover/Evaluate and the scalar codec vs the model's Lagrange over Z/l on honest, duplicated, aliased, zero-id share sets; distinct = distinct op line"
	e.rep.Require(c16Branches...)
	// direct ties of the model's building blocks first (the report keeps the first 200 disagreements)
	e.sharingTie(400 * e.a.Scale)
	e.stringsTie(300 * e.a.Scale)
	e.guardCases()
	e.shadowWitness()
	e.repeatedRecipients(12 * e.a.Scale)
	n := 1200 * e.a.Scale
	for i := 0; i < n; i++ {
		c := e.randCfg()
		gen := "sampled"
		if i%25 == 7 {
			c, gen = e.structural(c)
		}
		b := e.planCase(c, gen)
		if b.err != nil || b.env == nil {
			continue
		}
		for _, g := range c.grants {
			if g.sc > 2 {
				e.rep.Branches["gen.large-share-count"]++
				break
			}
		}
		if i%6 == 0 {
			e.freshCase(b)
		}
		// every subset of the recipients' private keys (2^nkeys <= 8), mixed with unrelated keys
		offs := e.offers(c, 8)
		if len(offs) == 8 {
			e.rep.Branches["offers.all8"]++
		}
		for _, off := range offs {
			for _, k := range off {
				if k == 6 {
					e.rep.Branches["gen.unsupported-privkey"]++
				}
			}
			e.runCase(b, off)
		}
	}
}

// guardCases: the guards of BuildEnvelope, each alone on an otherwise openable configuration, and
// combined with each other and with the threshold / index checks (which error comes first).
func (e *engine) guardCases() {
	okc := cfg{nkeys: 2, t: 1, grants: []gcfg{{1, []uint32{0}}, {1, []uint32{1}}}}
	for _, v := range []struct {
		f   func(c *cfg)
		gen string
	}{
		{func(c *cfg) { c.empty = true }, "empty-payload"},
		{func(c *cfg) { c.nilCfg = true }, "nil-config"},
		{func(c *cfg) { c.bad = []int{0} }, "unsupported-key"},
		{func(c *cfg) { c.bad = []int{1}; c.grants = c.grants[:1]; c.t = 0 }, "unsupported-key"}, // no grant names the key
		{func(c *cfg) { c.bad = []int{0, 1} }, "unsupported-key"},
		{func(c *cfg) { c.empty = true; c.nilCfg = true }, "empty-payload"},
		{func(c *cfg) { c.empty = true; c.nkeys = 0 }, "empty-payload"},
		{func(c *cfg) { c.nilCfg = true; c.nkeys = 0 }, "nil-config"},
		{func(c *cfg) { c.bad = []int{0}; c.t = 5 }, "unsupported-key"},
		{func(c *cfg) { c.bad = []int{0}; c.grants[1].idx = []uint32{2} }, "unsupported-key"},
		{func(c *cfg) { c.nilCfg = true; c.id = "x" }, "nil-config"},
	} {
		c := okc
		c.grants = append([]gcfg(nil), okc.grants...)
		v.f(&c)
		e.planCase(c, v.gen)
		e.rep.Branches["gen."+v.gen]++
	}
}

func (e *engine) runC17() {
	e.rep.Rule = "every configuration of the stated bound in a seeded sample (dense on thresholds near the number of usable shares, total-share overrides above and below the sum, grants without keypair indexes, out-of-range indexes, EnvelopeId set in one of three, share counts 3-64 in one of eight, empty payload / nil configuration / recipient key of an unsupported type alone and combined with the other guards, share counts whose uint32 sum wraps in a child process) through the real BuildEnvelope: accept/reject, share placement and envelope id vs the model; every accepted one unlocked with all recipient keys; the two F7 witnesses and threshold 2^32-1 (in a child process) replayed every run; distinct = distinct op line"
	e.rep.Require("run.repeated-recipient", "plan.ok", "plan.ok.empty-grant", "plan.err.invalidThreshold", "plan.err.invalidKeypairIndex", "plan.err.noGrants", "plan.err.noKeypairs", "witness", "wrap",
		"plan.err.emptyPayload", "plan.err.encrypt", "plan.sumwrap", "gen.nil-config", "gen.empty-payload", "gen.unsupported-key", "id.auto", "id.configured", "id.fresh")
	// witnesses of F7 (accepted-but-unopenable before the fix)
	ws := []cfg{
		{nkeys: 2, t: 3, total: 5, grants: []gcfg{{1, []uint32{0}}, {1, []uint32{1}}}},
		{nkeys: 2, t: 1, grants: []gcfg{{1, nil}, {1, []uint32{1}}}},
		{nkeys: 1, t: 0, grants: []gcfg{{1, nil}}},
		{nkeys: 2, t: 1, total: 1, grants: []gcfg{{1, []uint32{0}}, {1, []uint32{1}}}},
		{nkeys: 2, t: 2, grants: []gcfg{{2, []uint32{0}}, {0, nil}, {1, []uint32{1, 0}}}},
	}
	for _, c := range ws {
		e.planCase(c, "witness")
		e.rep.Branches["witness"]++
	}
	// structural rejections
	e.planCase(cfg{nkeys: 1, t: 0}, "no-grants")
	e.planCase(cfg{nkeys: 0, t: 0, grants: []gcfg{{1, nil}}}, "no-keypairs")
	e.guardCases()
	e.repeatedRecipients(12 * e.a.Scale)
	// share counts whose uint32 sum wraps (child process): 2^32-1 + 2 = 1 share, 2^31 + 2^31 = none,
	// 2^32-1 + 1 + 5 = 5 shares, with and without an override
	for _, c := range []cfg{
		{nkeys: 2, t: 0, grants: []gcfg{{0xffffffff, []uint32{0}}, {2, []uint32{1}}}},
		{nkeys: 2, t: 1, grants: []gcfg{{0xffffffff, []uint32{0}}, {2, []uint32{1}}}},
		{nkeys: 2, t: 0, grants: []gcfg{{0x80000000, []uint32{0}}, {0x80000000, []uint32{1}}}},
		{nkeys: 2, t: 2, grants: []gcfg{{0xffffffff, []uint32{0}}, {1, []uint32{1}}, {5, []uint32{1, 0}}}},
		{nkeys: 2, t: 1, total: 3, grants: []gcfg{{0xffffffff, []uint32{0}}, {2, []uint32{1}}}},
		{nkeys: 1, t: 0, grants: []gcfg{{0xfffffffe, nil}, {3, []uint32{0}}}},
		{nkeys: 1, t: 1, grants: []gcfg{{0xfffffffe, nil}, {5, []uint32{0}}}, id: "wrap"},
	} {
		e.childPlanCase(c, "share-sum-wrap")
	}
	n := 1500 * e.a.Scale
	for i := 0; i < n; i++ {
		c := e.randCfg()
		if i%20 == 11 {
			var gen string
			c, gen = e.structural(c)
			e.planCase(c, gen)
			e.rep.Branches["gen."+gen]++
			continue
		}
		if i%3 == 0 {
			// dense around the acceptance boundary
			all := map[int]bool{0: true, 1: true, 2: true}
			avail, _ := specReach(c, all)
			d := avail - 1 + e.rng.Intn(3)
			if d < 0 {
				d = 0
			}
			c.t = uint32(d)
		}
		b := e.planCase(c, "sampled")
		if i%5 == 0 {
			e.freshCase(b)
		}
	}
	e.wrapCase()
}

// wrapCase: threshold 2^32-1 makes threshold+1 wrap in uint32. Before the fix BuildEnvelope
// accepted it and tried to allocate 2^32 polynomial coefficients, so it runs in a child process.
func (e *engine) wrapCase() {
	c := cfg{nkeys: 1, t: 0xffffffff, grants: []gcfg{{1, []uint32{0}}}}
	op := "envelope.plan " + c.args()
	model := e.m.Query(op)
	impl := ""
	// load-proof: a child that was killed at the deadline having used (almost) no CPU was starved
	// by the machine, not hung by BuildEnvelope: it is run again (the verdict "hang" needs a child
	// that really computed for seconds)
	for attempt := 0; attempt < 4 && impl == ""; attempt++ {
		cmd := exec.Command(os.Args[0])
		cmd.Env = append(os.Environ(), "VERIF_ENVELOPE_CHILD=wrap", "GOMEMLIMIT=1GiB")
		var out bytes.Buffer
		cmd.Stdout = &out
		done := make(chan error, 1)
		if err := cmd.Start(); err != nil {
			panic(err)
		}
		go func() { done <- cmd.Wait() }()
		select {
		case <-done:
			impl = strings.TrimSpace(out.String())
			if impl == "" {
				impl = "crash"
			}
		case <-time.After(60 * time.Second):
			_ = cmd.Process.Kill()
			<-done
			if ps := cmd.ProcessState; ps != nil && ps.UserTime()+ps.SystemTime() >= 5*time.Second {
				impl = "hang"
			}
		}
	}
	if impl == "" {
		impl = "hang"
	}
	mon := ""
	if impl != "err invalidThreshold" {
		mon = "BuildEnvelope does not reject threshold 2^32-1 (threshold+1 wraps to 0): " + impl
	}
	e.rep.Compare(op, model, impl, "wrap", "envelope.build:threshold-wrap", mon)
}

func childWrap() {
	std := ed25519.NewKeyFromSeed(bytes.Repeat([]byte{7}, 32))
	priv, _ := crypto.UnmarshalEd25519PrivateKey(std)
	_, err := envelope.BuildEnvelope(rndReader{lib.NewRng(1)}, "c", []byte("p"), []crypto.PubKey{priv.GetPublic()},
		&envelope.EnvelopeConfig{Threshold: 0xffffffff, GrantConfigs: []*envelope.EnvelopeGrantConfig{{ShareCount: 1, KeypairIndexes: []uint32{0}}}})
	if err != nil {
		fmt.Println(buildErrClass(err))
		return
	}
	fmt.Println("ok")
}

// ---- C18 ----

func clone(env *envelope.Envelope) *envelope.Envelope { return env.CloneVT() }

func mustWire(env *envelope.Envelope) []byte {
	w, err := env.MarshalVT()
	if err != nil {
		panic(err)
	}
	return w
}

// reencrypt replaces ciphertext ci of grant gi by an encryption of the given shares.
func (e *engine) reencrypt(b *built, env *envelope.Envelope, gi, ci int, shares []*envelope.EnvelopeShare, raw []byte) {
	g := env.Grants[gi]
	k := b.keys[g.KeypairIndexes[ci]]
	dat := raw
	if dat == nil {
		var err error
		dat, err = (&envelope.EnvelopeGrantInner{Shares: shares}).MarshalVT()
		if err != nil {
			panic(err)
		}
	}
	ct, err := peer.EncryptToPubKey(k.pub, envelope.VerifBuildGrantEncContext(env.GetEnvelopeId(), b.ctx, gi), dat)
	if err != nil {
		panic(err)
	}
	g.Ciphertexts[ci] = ct
}

func (e *engine) grantShares(b *built, env *envelope.Envelope, gi int) []*envelope.EnvelopeShare {
	g := env.Grants[gi]
	k := b.keys[g.KeypairIndexes[0]]
	d, err := peer.DecryptWithPrivKey(k.priv, envelope.VerifBuildGrantEncContext(env.GetEnvelopeId(), b.ctx, gi), g.Ciphertexts[0])
	if err != nil {
		panic(err)
	}
	inner := &envelope.EnvelopeGrantInner{}
	if err := inner.UnmarshalVT(d); err != nil {
		panic(err)
	}
	return inner.Shares
}

// hashTie: hashContext against BLAKE3-256 computed directly, on contexts of every length up to
// 4096 (the model names the bytes that are hashed), and on pairs of contexts that share their
// first 32 / 64 / 1024 bytes and differ later.
func (e *engine) hashTie(n int) {
	for i := 0; i < n; i++ {
		l := []int{0, 1, 2, 31, 32, 33, 63, 64, 65, 127, 128, 129, 1023, 1024, 1025, 2048, 4095, 4096}[e.rng.Intn(18)]
		if i%3 == 0 {
			l = e.rng.Intn(4097)
		}
		ctx := string(e.rng.Bytes(l))
		op := "envelope.ctxhash ctx=" + lib.Hex([]byte(ctx))
		ans := e.m.Query(op)
		model := ans
		if strings.HasPrefix(ans, "hash ") {
			d := blake3.Sum256(lib.Unhex(lib.KV(ans, "data")))
			model = "ok " + lib.Hex(d[:])
		}
		real := envelope.VerifHashContext(ctx)
		impl := "ok " + lib.Hex(real)
		direct := blake3.Sum256([]byte(ctx))
		mon := ""
		if !bytes.Equal(real, direct[:]) {
			mon = fmt.Sprintf("hashContext is not the BLAKE3-256 of the whole context (context of %d bytes)", l)
		}
		// a context that agrees with ctx on a prefix and differs later
		if l > 0 && mon == "" {
			cut := []int{32, 64, 1024, l - 1, l / 2}[e.rng.Intn(5)]
			if cut >= l {
				cut = l - 1
			}
			other := []byte(ctx)
			switch e.rng.Intn(3) {
			case 0:
				other[cut+e.rng.Intn(l-cut)] ^= byte(1 + e.rng.Intn(255))
			case 1:
				other = other[:cut]
			case 2:
				other = append(other[:cut:cut], e.rng.Bytes(1+e.rng.Intn(40))...)
				if bytes.Equal(other, []byte(ctx)) {
					other = append(other, 1)
				}
			}
			if bytes.Equal(envelope.VerifHashContext(string(other)), real) {
				mon = fmt.Sprintf("two contexts of %d and %d bytes that agree on their first %d bytes and differ later have the same context hash", l, len(other), cut)
			}
		}
		// … and a context and its image under a normalisation (harness/norm) have different hashes
		for _, nf := range e.normSample(8) {
			if y := nf.F([]byte(ctx)); !bytes.Equal(y, []byte(ctx)) && mon == "" {
				e.rep.Branches["norm.ctxhash"]++
				if bytes.Equal(envelope.VerifHashContext(string(y)), real) {
					mon = fmt.Sprintf("two different contexts have the same context hash: a context of %d bytes and %s of it (%d bytes)", l, nf.Name, len(y))
				}
			}
		}
		e.rep.Compare(op, model, impl, "ctxhash", "envelope.ctxhash", mon)
	}
}

// normSample: k normalisations, rotating through norm.All() (every one is used every
// len(All)/k calls).
func (e *engine) normSample(k int) []norm.Fn {
	all := norm.All()
	out := make([]norm.Fn, 0, k)
	for i := 0; i < k; i++ {
		out = append(out, all[e.normAt%len(all)])
		e.normAt++
	}
	return out
}

// otherContexts: contexts different from ctx — edited at either end, and sharing the first
// 32 / 64 bytes (padded first when ctx is shorter) while differing later.
func (e *engine) otherContexts(ctx string) []string {
	out := []string{ctx + " ", "x" + ctx, strings.ToUpper(ctx) + "!", "other"}
	b := []byte(ctx)
	if len(b) > 0 {
		f := append([]byte(nil), b...)
		f[len(f)-1] ^= 1
		out = append(out, string(f), string(b[:len(b)-1]))
	}
	for _, cut := range []int{32, 64} {
		if len(b) > cut {
			f := append([]byte(nil), b...)
			f[cut+e.rng.Intn(len(b)-cut)] ^= byte(1 + e.rng.Intn(255))
			out = append(out, string(f), string(b[:cut]), string(b[:cut])+string(e.rng.Bytes(len(b)-cut+1)))
		} else {
			// ctx followed by padding up to the cut and a tail: agrees with ctx on all of ctx
			pad := strings.Repeat("\x00", cut-len(b))
			out = append(out, ctx+pad+"tail", ctx+strings.Repeat(" ", cut-len(b)+1))
		}
	}
	// images of ctx under the normalisations of harness/norm (hash of a long context under every
	// hash, truncation / padding to a block, trimming, case and unicode folding, recoding)
	have := map[string]bool{ctx: true}
	for _, c := range out {
		have[c] = true
	}
	for _, nf := range e.normSample(6) {
		if y := string(nf.F([]byte(ctx))); !have[y] {
			have[y] = true
			out = append(out, y)
			e.rep.Branches["gen.ctx-normalised"]++
		}
	}
	return out
}

// c18Ctx draws the context an envelope is sealed under: the fixed short ones, random bytes of
// lengths around 32 / 64 and long ones, printable long ones.
func (e *engine) c18Ctx(i int) string {
	switch i % 3 {
	case 0:
		return []string{"ctx A", "", "bifrost/envelope test v1", "π ✓"}[(i/3)%4]
	case 1:
		l := []int{31, 32, 33, 63, 64, 65, 100, 200}[e.rng.Intn(8)]
		if i == 1 {
			l = 4096
		}
		return string(e.rng.Bytes(l))
	}
	b := e.rng.Bytes(33 + e.rng.Intn(60))
	for j := range b {
		b[j] = 32 + b[j]%95
	}
	return string(b)
}

// subsetClasses: the subsets of the recipients' keys of a sealed configuration by what they reach
// of the ORIGINAL envelope: none (no recipient key), below / at / above threshold+1 shares.
func subsetClasses(c cfg) map[string][][]int {
	out := map[string][][]int{}
	for m := 0; m < 1<<c.nkeys; m++ {
		var l []int
		off := map[int]bool{}
		for i := 0; i < c.nkeys; i++ {
			if m&(1<<i) != 0 {
				l = append(l, i)
				off[i] = true
			}
		}
		avail, _ := specReach(c, off)
		cl := "below"
		switch {
		case m == 0:
			cl = "none"
		case avail == int(c.t)+1:
			cl = "at"
		case avail > int(c.t)+1:
			cl = "above"
		}
		out[cl] = append(out[cl], l)
	}
	return out
}

var c18Branches = []string{"ctxhash", "keys.none", "keys.below", "keys.at", "keys.above", "gen.keyless-grant", "gen.relabel", "gen.ctx-prefix", "gen.ctx-long",
	"encctx", "kdctx", "wire.opened", "wire.locked", "wire.err.contextMismatch", "wire.err.decryptionFailed", "wire.err.recover",
	"wire.err.unmarshal", "wire.err.noGrants", "wire.err.noKeypairs", "decode.ok", "decode.err",
	"gen.alias", "gen.ctx", "gen.ctx-normalised", "norm.ctxhash", "norm.ctxstring", "gen.threshold-max", "gen.short-grant-ct", "gen.short-ct",
	"gen.insider-reseal", "gen.rebuilt-same-id", "gen.rebuilt-derived-id"}

func (e *engine) runC18() {
	e.rep.Rule = "sealed envelopes (configurations from the C16 bound with decryptable grants) unlocked under other contexts; every top-level field replaced (envelope id, context hash, threshold incl. 2^32-1, ciphertext bit flips / truncations below and above the nonce size / foreign ciphertext, grants dropped / duplicated / swapped / keypair indexes rewritten / ciphertexts flipped and truncated to 0..52 bytes, keypairs dropped / reordered / garbage), grants re-encrypted by an outsider with aliased, duplicated, zero, mis-sized share ids and garbage plaintexts, wire-level bit flips / truncations / random bytes; the model predicts the exact outcome on the bytes; distinct = distinct op line"
	e.rep.Require(c18Branches...)
	e.rep.Require(c18w4Branches()...)
	e.rep.Require(c18w5Branches()...)
	// wave 5: (envelope id, context) pairs re-split under every plausible mis-framing of the crypto
	// context strings (c18w5.go); first, and on a random stream of its own
	e.c18Resplit()
	e.stringsTie(100 * e.a.Scale)
	e.hashTie(150 * e.a.Scale)
	n := 48 * e.a.Scale // sealed envelopes (before: 60 drawn, about 45 of them accepted)
	for i := 0; i < n; i++ {
		var c cfg
		for {
			c = e.randCfg()
			ok := false
			for _, g := range c.grants {
				if len(g.idx) > 0 {
					ok = true // at least one grant somebody can decrypt; others may have no key at all
				}
				if g.sc > 12 {
					ok = false
					break
				}
			}
			for _, g := range c.grants {
				for _, k := range g.idx {
					if int(k) >= c.nkeys {
						ok = false
					}
				}
			}
			if i%2 == 0 {
				c.total = 0
			}
			if ok {
				// only configurations sealing accepts (every recipient key together reaches threshold+1 shares)
				av, _ := specReach(c, map[int]bool{0: true, 1: true, 2: true})
				ok = av >= int(c.t)+1
			}
			if ok {
				break
			}
		}
		ctx := e.c18Ctx(i)
		if len(ctx) > 64 {
			e.rep.Branches["gen.ctx-long"]++
		}
		payload := e.rng.Bytes(1 + e.rng.Intn(40))
		b := e.buildReal(c, ctx, payload)
		if b.err != nil {
			continue
		}
		all := b.keys
		// the grants somebody can decrypt (the tampering below addresses their first ciphertext)
		var keyed []int
		for gi0, g := range c.grants {
			if len(g.idx) > 0 {
				keyed = append(keyed, gi0)
			} else {
				e.rep.Branches["gen.keyless-grant"]++
			}
		}
		classes := subsetClasses(c)
		// tcx: a tampered envelope is unsealed with the full recipient set AND with one subset of the
		// recipients' keys whose class (none / below / at / above threshold on the original envelope)
		// rotates. Whatever was done to the envelope, keys that reach fewer than threshold+1 of the
		// original shares (or no recipient key at all) must not open it: the secret is not
		// determined by fewer shares, and nothing but the secret yields the payload key.
		var tcxk func(env *envelope.Envelope, gen, fkey, mustNotOpen string)
		tcx := func(env *envelope.Envelope, gen string, mustNotOpen string) {
			tcxk(env, gen, "envelope.unlock:"+gen, mustNotOpen)
		}
		tcxk = func(env *envelope.Envelope, gen, fkey, mustNotOpen string) {
			w := mustWire(env)
			// wave 4: an altered context_hash IS a different context for every key set (monitor, not only the model)
			mcm := strings.HasPrefix(gen, "ctxhash-")
			e.wireCaseX(w, ctx, all, payload, gen, fkey, mcm, false, mustNotOpen)
			order := []string{"none", "below", "at", "above"}
			for k := 0; k < 4; k++ {
				cl := order[(e.tcN+k)%4]
				if len(classes[cl]) == 0 {
					continue
				}
				sub := classes[cl][e.rng.Intn(len(classes[cl]))]
				if cl == "none" || e.rng.Intn(3) == 0 {
					sub = append(append([]int(nil), sub...), 4+e.rng.Intn(kPool-4)) // plus an unrelated / unsupported / shadow / nil key
				}
				why := mustNotOpen
				if why == "" && cl == "none" {
					why = "no private key of any recipient was offered"
				}
				if why == "" && cl == "below" {
					why = "the offered keys reach fewer than threshold+1 shares of the sealed envelope"
				}
				e.wireCaseX(w, ctx, e.offerKeys(sub), payload, gen+"/keys-"+cl, fkey, mcm, false, why)
				e.rep.Branches["keys."+cl]++
				break
			}
			e.tcN++
		}
		tc := func(env *envelope.Envelope, gen string) { tcx(env, gen, "") }
		wire := mustWire(b.env)
		e.wireCase(wire, ctx, all, payload, "honest", "envelope.unlockwire:honest", false, true)
		e.decodeCase(wire, "honest")
		if mon, _ := e.idMonitor(b); mon != "" {
			e.rep.Compare("envelope.id "+c.args(), "ok", "violated", "id", "envelope.build:envelope-id", mon)
		}

		// context
		for _, c2 := range e.otherContexts(ctx) {
			e.wireCase(wire, c2, all, payload, "other-context", "envelope.unlock:other-context", true, false)
			e.rep.Branches["gen.ctx"]++
			if len(c2) >= 32 && len(ctx) >= 1 && strings.HasPrefix(c2, ctx[:min(len(ctx), 32)]) {
				e.rep.Branches["gen.ctx-prefix"]++
			}
		}
		e.c18ContextKeysets(b, wire, ctx, payload, classes) // wave 4: every key-set class (c18w4.go)
		{
			// context hash replaced by the hash of another context, unlocked under that context
			t := clone(b.env)
			h := blake3.Sum256([]byte("other"))
			t.ContextHash = h[:]
			e.wireCase(mustWire(t), "other", all, payload, "rehashed-context", "envelope.unlock:rehashed-context", false, false)
		}

		// envelope id
		// (re-labelling: the grants are sealed under THIS id, so under any other id nothing opens)
		relabelled := "the envelope was re-labelled with another id"
		t := clone(b.env)
		t.EnvelopeId += "0"
		tcx(t, "id-append", relabelled)
		t = clone(b.env)
		t.EnvelopeId = ""
		tcx(t, "id-empty", relabelled)
		t = clone(b.env)
		t.EnvelopeId = string(e.rng.Bytes(1 + e.rng.Intn(40)))
		if t.EnvelopeId != b.env.EnvelopeId {
			tcx(t, "id-random", relabelled)
		}
		t = clone(b.env)
		t.EnvelopeId = t.EnvelopeId[:len(t.EnvelopeId)-1]
		tcx(t, "id-truncated", relabelled)
		t = clone(b.env)
		t.EnvelopeId = strings.ToUpper(t.EnvelopeId) + ""
		if t.EnvelopeId != b.env.EnvelopeId {
			tcx(t, "id-uppercase", relabelled)
		}
		e.rep.Branches["gen.relabel"] += 4

		// context hash
		t = clone(b.env)
		t.ContextHash[e.rng.Intn(32)] ^= 1 << e.rng.Intn(8)
		tc(t, "ctxhash-flip")
		t = clone(b.env)
		t.ContextHash = t.ContextHash[:e.rng.Intn(32)]
		tc(t, "ctxhash-trunc")

		// threshold
		for _, th := range []uint32{0, c.t + 1, c.t + 2, 7, 0xffffffff, 0xfffffffe, uint32(e.rng.Intn(1 << 31))} {
			t = clone(b.env)
			t.Threshold = th
			tc(t, "threshold")
			if th == 0xffffffff {
				e.rep.Branches["gen.threshold-max"]++
			}
		}
		if c.t > 0 {
			t = clone(b.env)
			t.Threshold = c.t - 1
			tc(t, "threshold-lower")
		}

		// payload ciphertext
		t = clone(b.env)
		t.Ciphertext[e.rng.Intn(len(t.Ciphertext))] ^= 1 << e.rng.Intn(8)
		tc(t, "ct-flip")
		for _, l := range []int{0, 1, 23, 24, 25, 39, 40, 41} {
			if l <= len(b.env.Ciphertext) {
				t = clone(b.env)
				t.Ciphertext = t.Ciphertext[:l]
				tc(t, "ct-trunc")
				e.rep.Branches["gen.short-ct"]++
			}
		}
		t = clone(b.env)
		t.Ciphertext = append(t.Ciphertext, 0)
		tc(t, "ct-extend")
		{
			b2 := e.buildReal(c, ctx, e.rng.Bytes(1+e.rng.Intn(40)))
			if b2.err == nil {
				if c.id == "" && b2.env.GetEnvelopeId() == b.env.GetEnvelopeId() {
					e.rep.Compare("envelope.fresh "+c.args(), "different", "same", "id.fresh", "envelope.build:envelope-id-fresh",
						fmt.Sprintf("two envelopes sealed separately carry the same auto-generated id %q", b.env.GetEnvelopeId()))
				}
				foreign := "payload ciphertext and grants come from two different envelopes (two different secrets)"
				t = clone(b.env)
				t.Ciphertext = b2.env.Ciphertext
				tcx(t, "ct-foreign", foreign)
				// whole grants of another envelope for the same recipients
				t = clone(b.env)
				t.Grants = b2.env.CloneVT().Grants
				tcx(t, "grants-foreign", foreign)
				t = clone(b2.env)
				t.Ciphertext = b.env.Ciphertext
				t.EnvelopeId = b.env.EnvelopeId
				tcx(t, "grants-foreign-same-id", foreign)
				// the WHOLE content of another envelope for the same recipients, context and
				// configuration (ciphertext and grants together) under this envelope's id: with a
				// configured id the two envelopes share it and the result opens — to the OTHER
				// payload (nothing authenticates the sender; known finding). With a derived id the
				// foreign grants are sealed under another id and nothing opens.
				t = clone(b.env)
				t.Ciphertext = b2.env.Ciphertext
				t.Grants = b2.env.CloneVT().Grants
				t.Threshold = b2.env.Threshold
				if c.id != "" {
					tcxk(t, "rebuilt-same-id", "envelope.unlock:rebuilt-same-id", "")
					e.rep.Branches["gen.rebuilt-same-id"]++
				} else {
					tcx(t, "rebuilt-derived-id", "ciphertext and grants were sealed under another (derived) envelope id")
					e.rep.Branches["gen.rebuilt-derived-id"]++
				}
			}
		}

		// insider re-seal: whoever holds threshold+1 shares (here: all recipients together) recovers
		// the secret, derives the payload key and seals ANOTHER payload under it. Computed with
		// CIRCL / blake3 / chacha20poly1305 directly. The envelope opens to the other payload for
		// every key set that reaches the threshold (known finding: no sender authentication) and
		// must stay locked for key sets below it.
		if secret, ok := e.recoverSecret(b); ok {
			aead, err := chacha20poly1305.NewX(kdfKey(envelope.VerifBuildKeyDerivationContext(b.env.GetEnvelopeId(), ctx), secret))
			if err != nil {
				panic(err)
			}
			other := e.rng.Bytes(1 + e.rng.Intn(40))
			if bytes.Equal(other, payload) {
				other = append(other, 1)
			}
			nonce := e.rng.Bytes(24)
			if e.rng.Intn(2) == 0 {
				nonce = append([]byte(nil), b.env.Ciphertext[:24]...) // the original nonce re-used
			}
			t = clone(b.env)
			t.Ciphertext = aead.Seal(nonce, nonce, other, nil)
			tcxk(t, "insider-reseal", "envelope.unlock:insider-reseal", "")
			e.rep.Branches["gen.insider-reseal"]++
		}

		// grants
		ng := len(b.env.Grants)
		t = clone(b.env)
		t.Grants = t.Grants[:ng-1]
		tc(t, "grant-drop-last")
		t = clone(b.env)
		t.Grants = t.Grants[1:]
		tc(t, "grant-drop-first")
		t = clone(b.env)
		t.Grants = append(t.Grants, t.Grants[0].CloneVT())
		tc(t, "grant-duplicate")
		t = clone(b.env)
		t.Grants = append([]*envelope.EnvelopeGrant{t.Grants[0].CloneVT()}, t.Grants...)
		tc(t, "grant-duplicate-front")
		if ng >= 2 {
			t = clone(b.env)
			t.Grants[0], t.Grants[1] = t.Grants[1], t.Grants[0]
			tc(t, "grant-swap")
			t = clone(b.env)
			t.Grants[0].Ciphertexts, t.Grants[1].Ciphertexts = t.Grants[1].Ciphertexts, t.Grants[0].Ciphertexts
			tc(t, "grant-swap-ciphertexts")
		}
		t = clone(b.env)
		t.Grants = nil
		tc(t, "grants-none")
		ki := e.rng.Intn(len(keyed))
		gi := keyed[ki]
		t = clone(b.env)
		t.Grants[gi].KeypairIndexes[0] = uint32((int(t.Grants[gi].KeypairIndexes[0]) + 1) % c.nkeys)
		tc(t, "kpidx-other")
		t = clone(b.env)
		t.Grants[gi].KeypairIndexes[0] = []uint32{uint32(c.nkeys), 0xffffffff, 1 << 31}[e.rng.Intn(3)]
		tc(t, "kpidx-out-of-range")
		t = clone(b.env)
		t.Grants[gi].KeypairIndexes = append(t.Grants[gi].KeypairIndexes, 0)
		tc(t, "kpidx-extra")
		t = clone(b.env)
		t.Grants[gi].KeypairIndexes = nil
		tc(t, "kpidx-none")
		if len(keyed) < ng {
			// a grant nobody can decrypt is given a keypair index, without and with a made-up ciphertext
			for g0 := range c.grants {
				if len(c.grants[g0].idx) == 0 {
					t = clone(b.env)
					t.Grants[g0].KeypairIndexes = []uint32{uint32(e.rng.Intn(c.nkeys))}
					tc(t, "keyless-grant-index")
					t = clone(b.env)
					t.Grants[g0].KeypairIndexes = []uint32{uint32(e.rng.Intn(c.nkeys))}
					t.Grants[g0].Ciphertexts = [][]byte{e.rng.Bytes(40 + e.rng.Intn(60))}
					tc(t, "keyless-grant-ciphertext")
					break
				}
			}
		}
		t = clone(b.env)
		t.Grants[gi].Ciphertexts = append(t.Grants[gi].Ciphertexts, e.rng.Bytes(60))
		tc(t, "grant-ct-extra")
		t = clone(b.env)
		ct := t.Grants[gi].Ciphertexts[0]
		ct[e.rng.Intn(len(ct))] ^= 1 << e.rng.Intn(8)
		tc(t, "grant-ct-flip")
		for _, l := range []int{0, 3, 4, 33, 34, 35, 36, 37, 51, 52, 53} {
			t = clone(b.env)
			for ci := range t.Grants[gi].Ciphertexts {
				if l <= len(t.Grants[gi].Ciphertexts[ci]) {
					t.Grants[gi].Ciphertexts[ci] = t.Grants[gi].Ciphertexts[ci][:l]
				}
			}
			e.wireCase(mustWire(t), ctx, all, payload, "grant-ct-trunc", "envelope.unlock:short-grant-ciphertext", false, false)
			e.rep.Branches["gen.short-grant-ct"]++
		}
		for j := 0; j < 6; j++ {
			// short random grant ciphertexts (F22 territory: 34/35 bytes)
			t = clone(b.env)
			t.Grants[gi].Ciphertexts[0] = e.rng.Bytes(34 + j%3)
			e.wireCase(mustWire(t), ctx, all, payload, "grant-ct-random-short", "envelope.unlock:short-grant-ciphertext", false, false)
		}

		// keypairs
		t = clone(b.env)
		t.Keypairs = t.Keypairs[:len(t.Keypairs)-1]
		tc(t, "keypair-drop")
		t = clone(b.env)
		t.Keypairs = nil
		tc(t, "keypairs-none")
		t = clone(b.env)
		t.Keypairs[0].PubKey = e.rng.Bytes(e.rng.Intn(50))
		tc(t, "keypair-garbage")
		if c.nkeys >= 2 {
			t = clone(b.env)
			t.Keypairs[0], t.Keypairs[1] = t.Keypairs[1], t.Keypairs[0]
			tc(t, "keypair-swap")
		}
		t = clone(b.env)
		t.Keypairs = append(t.Keypairs, t.Keypairs[0].CloneVT())
		t.Keypairs[len(t.Keypairs)-1].AuthMethodId = "x"
		t.Contents = []byte("hello")
		tc(t, "keypair-extra+contents")

		// outsider re-encrypts grants (public-key encryption: anyone can)
		shares := e.grantShares(b, b.env, gi)
		if len(shares) > 0 {
			mk := func(f func(s []*envelope.EnvelopeShare) []*envelope.EnvelopeShare) *envelope.Envelope {
				t := clone(b.env)
				var cp []*envelope.EnvelopeShare
				for _, s := range shares {
					cp = append(cp, s.CloneVT())
				}
				e.reencrypt(b, t, gi, 0, f(cp), nil)
				return t
			}
			// aliased id placed in ANOTHER grant (or appended to this one): the F21 shape
			other := keyed[(ki+1)%len(keyed)]
			for rep := 0; rep < 3; rep++ {
				t = clone(b.env)
				al := &envelope.EnvelopeShare{Id: e.alias(shares[0].Id), Value: shares[0].Value}
				if rep == 2 {
					al.Value = e.rng.Bytes(32)
				}
				if other != gi && rep != 1 {
					os2 := e.grantShares(b, b.env, other)
					e.reencrypt(b, t, other, 0, append(os2, al), nil)
				} else {
					e.reencrypt(b, t, gi, 0, append(append([]*envelope.EnvelopeShare(nil), shares...), al), nil)
				}
				e.wireCase(mustWire(t), ctx, all, payload, "aliased-share-id", "envelope.unlock:aliased-share-id", false, false)
				e.rep.Branches["gen.alias"]++
				// with a lowered threshold so that the aliases land among the first t+1 shares
				t.Threshold = uint32(e.rng.Intn(int(c.t) + 1))
				e.wireCase(mustWire(t), ctx, all, payload, "aliased-share-id", "envelope.unlock:aliased-share-id", false, false)
			}
			tc(mk(func(s []*envelope.EnvelopeShare) []*envelope.EnvelopeShare { return append(s, s[0].CloneVT()) }), "share-duplicate")
			tc(mk(func(s []*envelope.EnvelopeShare) []*envelope.EnvelopeShare { s[0].Value = e.rng.Bytes(32); return s }), "share-value-garbage")
			tc(mk(func(s []*envelope.EnvelopeShare) []*envelope.EnvelopeShare { s[0].Id = make([]byte, 32); return s }), "share-id-zero")
			tc(mk(func(s []*envelope.EnvelopeShare) []*envelope.EnvelopeShare { s[0].Id = s[0].Id[:31]; return s }), "share-id-short")
			tc(mk(func(s []*envelope.EnvelopeShare) []*envelope.EnvelopeShare {
				s[0].Value = append(s[0].Value, 0)
				return s
			}), "share-value-long")
			tc(mk(func(s []*envelope.EnvelopeShare) []*envelope.EnvelopeShare { s[0].Id = nil; s[0].Value = nil; return s }), "share-empty")
			tc(mk(func(s []*envelope.EnvelopeShare) []*envelope.EnvelopeShare {
				for k := 0; k < 5; k++ {
					id := make([]byte, 32)
					id[0] = byte(100 + k)
					s = append(s, &envelope.EnvelopeShare{Id: id, Value: e.rng.Bytes(32)})
				}
				return s
			}), "share-extra-forged")
			tc(mk(func(s []*envelope.EnvelopeShare) []*envelope.EnvelopeShare { return nil }), "share-none")
			t = clone(b.env)
			e.reencrypt(b, t, gi, 0, nil, e.rng.Bytes(1+e.rng.Intn(30)))
			tc(t, "inner-garbage")
			// same plaintext re-encrypted under the context of another grant index / another envelope id
			t = clone(b.env)
			k := b.keys[t.Grants[gi].KeypairIndexes[0]]
			dat, _ := (&envelope.EnvelopeGrantInner{Shares: shares}).MarshalVT()
			ct2, _ := peer.EncryptToPubKey(k.pub, envelope.VerifBuildGrantEncContext(t.GetEnvelopeId(), ctx, gi+1), dat)
			t.Grants[gi].Ciphertexts[0] = ct2
			tc(t, "grant-other-index-context")
		}

		// wire-level mutations
		for j := 0; j < 12; j++ {
			w := append([]byte(nil), wire...)
			gen := ""
			switch j % 4 {
			case 0:
				gen = "wire-bitflip"
				w[e.rng.Intn(len(w))] ^= 1 << e.rng.Intn(8)
			case 1:
				gen = "wire-truncated"
				w = w[:e.rng.Intn(len(w))]
			case 2:
				gen = "wire-random"
				w = e.rng.Bytes(e.rng.Intn(80))
			case 3:
				gen = "wire-appended-field"
				// duplicate scalar fields: last one wins (threshold / id / ciphertext), unknown fields
				w = append(w, [][]byte{{0x18, 0x00}, {0x18, 0xff, 0xff, 0xff, 0xff, 0x0f}, {0x18, 0xff, 0xff, 0xff, 0xff, 0x1f}, {0x0a, 0x01, 0x41}, {0x22, 0x00}, {0x40, 0x01}, {0x2a, 0x00}, {0x32, 0x00}, {0x2a, 0x02, 0x08, 0x00}}[e.rng.Intn(9)]...)
			}
			e.wireCase(w, ctx, all, payload, gen, "envelope.unlock:"+gen, false, false)
			e.decodeCase(w, gen)
		}
	}
}

func main() {
	switch os.Getenv("VERIF_ENVELOPE_CHILD") {
	case "wrap":
		childWrap()
		return
	case "plan":
		childPlan()
		return
	}
	a := lib.ParseArgs()
	e := &engine{a: a, rng: lib.NewRng(a.Seed), m: lib.NewModel(a.Driver), knownOther: map[string]int{}}
	e.rep = lib.NewReport("envelope", a)
	e.setupKeys()
	switch a.Prop {
	case "C16":
		e.runC16()
	case "C17":
		e.runC17()
	case "C18":
		e.runC18()
	default:
		fmt.Println("unknown property", a.Prop)
		return
	}
	e.m.Close()
	e.rep.Write(a.Out)
}
