// Command envelope is the correspondence engine for C16 (envelopes open exactly when enough
// distinct shares are reachable), C17 (an accepted configuration can be opened by its
// recipients) and C18 (tamper resistance, context binding, no panics).
//
// The Lean model predicts (a) from a configuration alone: accept/reject, share placement and the
// whole EnvelopeUnlockResult for a set of offered keys; (b) on real envelope bytes: the exact
// outcome of UnlockEnvelope, with the primitives answered as oracles by this harness using
// peer.DecryptWithPrivKey (the grant encryption is a parameter of the envelope model),
// zeebo/blake3 and x/crypto/chacha20poly1305 directly. CIRCL's secretsharing is tied separately
// to the model's Lagrange interpolation over Z/l. Property monitors are computed here from the
// configuration / the original payload only, never from the model.
package main

import (
	"bytes"
	"crypto/ed25519"
	"errors"
	"fmt"
	"os"
	"os/exec"
	"sort"
	"strconv"
	"strings"
	"time"

	"github.com/aperturerobotics/bifrost/crypto"
	"github.com/aperturerobotics/bifrost/envelope"
	"github.com/aperturerobotics/bifrost/keypem"
	"github.com/aperturerobotics/bifrost/peer"
	"github.com/cloudflare/circl/group"
	"github.com/cloudflare/circl/math/polynomial"
	"github.com/cloudflare/circl/secretsharing"
	"github.com/zeebo/blake3"
	"golang.org/x/crypto/chacha20poly1305"

	"verif/harness/lib"
)

type key struct {
	priv crypto.PrivKey
	pub  crypto.PubKey
	pem  []byte
}

type engine struct {
	a    *lib.Args
	rng  *lib.Rng
	m    *lib.Model
	rep  *lib.Report
	keys []*key // 0..3 recipients pool, 4..5 unrelated
}

type rndReader struct{ r *lib.Rng }

func (r rndReader) Read(p []byte) (int, error) {
	copy(p, r.r.Bytes(len(p)))
	return len(p), nil
}

func (e *engine) newKey() *key {
	std := ed25519.NewKeyFromSeed(e.rng.Bytes(32))
	priv, err := crypto.UnmarshalEd25519PrivateKey(std)
	if err != nil {
		panic(err)
	}
	pem, err := keypem.MarshalPubKeyPem(priv.GetPublic())
	if err != nil {
		panic(err)
	}
	return &key{priv: priv, pub: priv.GetPublic(), pem: pem}
}

// ---- configurations ----

type gcfg struct {
	sc  uint32
	idx []uint32
}

type cfg struct {
	nkeys  int
	t      uint32
	total  uint32
	grants []gcfg
}

func (c cfg) args() string {
	gs := make([]string, len(c.grants))
	for i, g := range c.grants {
		ks := "_"
		if len(g.idx) > 0 {
			p := make([]string, len(g.idx))
			for j, k := range g.idx {
				p[j] = strconv.Itoa(int(k))
			}
			ks = strings.Join(p, ".")
		}
		gs[i] = fmt.Sprintf("%d:%s", g.sc, ks)
	}
	g := "_"
	if len(gs) > 0 {
		g = strings.Join(gs, ";")
	}
	return fmt.Sprintf("nkeys=%d t=%d total=%d grants=%s", c.nkeys, c.t, c.total, g)
}

func (c cfg) proto() *envelope.EnvelopeConfig {
	ec := &envelope.EnvelopeConfig{Threshold: c.t, TotalShares: c.total}
	for _, g := range c.grants {
		ec.GrantConfigs = append(ec.GrantConfigs, &envelope.EnvelopeGrantConfig{ShareCount: g.sc, KeypairIndexes: g.idx})
	}
	return ec
}

// randCfg draws a configuration from the property's bound: 1-3 keys, 1-4 grants, share counts
// 0-2, keypair index lists of length 0-3 (duplicates allowed), thresholds 0-3, overrides 0-5.
// With small probability an index is out of range.
func (e *engine) randCfg() cfg {
	c := cfg{nkeys: 1 + e.rng.Intn(3), t: uint32(e.rng.Intn(4)), total: 0}
	if e.rng.Intn(3) == 0 {
		c.total = uint32(e.rng.Intn(6))
	}
	ng := 1 + e.rng.Intn(4)
	for i := 0; i < ng; i++ {
		g := gcfg{sc: uint32(e.rng.Intn(3))}
		n := []int{1, 1, 1, 2, 2, 3, 0}[e.rng.Intn(7)]
		for j := 0; j < n; j++ {
			k := uint32(e.rng.Intn(c.nkeys))
			if e.rng.Intn(60) == 0 {
				k = uint32(c.nkeys + e.rng.Intn(2))
			}
			g.idx = append(g.idx, k)
		}
		c.grants = append(c.grants, g)
	}
	return c
}

// ---- the property, stated independently of the model (monitor side) ----

// specPlaced: shares are numbered 1..total (total = override if > 0, else the sum of the share
// counts, a count of 0 meaning 1) and handed to the grants in order until they run out.
func specPlaced(c cfg) [][]int {
	sum := 0
	for _, g := range c.grants {
		if g.sc == 0 {
			sum++
		} else {
			sum += int(g.sc)
		}
	}
	total := sum
	if c.total > 0 {
		total = int(c.total)
	}
	next := 1
	out := make([][]int, len(c.grants))
	for i, g := range c.grants {
		n := int(g.sc)
		if n == 0 {
			n = 1
		}
		for j := 0; j < n && next <= total; j++ {
			out[i] = append(out[i], next)
			next++
		}
	}
	return out
}

// specReach: the grants that the offered recipient indexes can decrypt and the number of
// distinct shares inside them.
func specReach(c cfg, offered map[int]bool) (avail int, unlocked []int) {
	pl := specPlaced(c)
	seen := map[int]bool{}
	for gi, g := range c.grants {
		can := false
		for _, k := range g.idx {
			if offered[int(k)] {
				can = true
			}
		}
		if !can {
			continue
		}
		unlocked = append(unlocked, gi)
		for _, id := range pl[gi] {
			if !seen[id] {
				seen[id] = true
				avail++
			}
		}
	}
	return
}

func natList(l []int) string {
	if len(l) == 0 {
		return "_"
	}
	s := make([]string, len(l))
	for i, v := range l {
		s[i] = strconv.Itoa(v)
	}
	return strings.Join(s, ",")
}

func u32List(l []uint32) string {
	if len(l) == 0 {
		return "_"
	}
	s := make([]string, len(l))
	for i, v := range l {
		s[i] = strconv.Itoa(int(v))
	}
	return strings.Join(s, ",")
}

// ---- running the implementation ----

func buildErrClass(err error) string {
	switch {
	case errors.Is(err, envelope.ErrEmptyPayload):
		return "err emptyPayload"
	case errors.Is(err, envelope.ErrNoKeypairs):
		return "err noKeypairs"
	case errors.Is(err, envelope.ErrNoGrants):
		return "err noGrants"
	case errors.Is(err, envelope.ErrInvalidKeypairIndex):
		return "err invalidKeypairIndex"
	case errors.Is(err, envelope.ErrInvalidThreshold):
		return "err invalidThreshold"
	}
	return "err encrypt"
}

func unlockErrClass(err error) string {
	switch {
	case errors.Is(err, envelope.ErrNoGrants):
		return "err noGrants"
	case errors.Is(err, envelope.ErrNoKeypairs):
		return "err noKeypairs"
	case errors.Is(err, envelope.ErrContextMismatch):
		return "err contextMismatch"
	case errors.Is(err, envelope.ErrDecryptionFailed):
		return "err decryptionFailed"
	}
	return "err recover"
}

func resultStr(r *envelope.EnvelopeUnlockResult) string {
	return fmt.Sprintf("avail=%d needed=%d unlocked=%s", r.GetSharesAvailable(), r.GetSharesNeeded(), u32List(r.GetUnlockedGrantIndexes()))
}

// unlockImpl runs UnlockEnvelope and canonicalises the outcome. orig != nil: payload printed as orig/OTHER.
func unlockImpl(ctx string, env *envelope.Envelope, privs []crypto.PrivKey, orig []byte) string {
	return lib.Recover(func() string {
		p, r, err := envelope.UnlockEnvelope(ctx, env, privs)
		if err != nil {
			return unlockErrClass(err)
		}
		if !r.GetSuccess() {
			if p != nil {
				return "locked-with-payload " + resultStr(r)
			}
			return "locked " + resultStr(r)
		}
		if orig != nil {
			if bytes.Equal(p, orig) {
				return "opened payload=orig " + resultStr(r)
			}
			return "opened payload=OTHER " + resultStr(r)
		}
		return "opened payload=" + lib.Hex(p) + " " + resultStr(r)
	})
}

func (e *engine) privs(ks []*key) []crypto.PrivKey {
	out := make([]crypto.PrivKey, len(ks))
	for i, k := range ks {
		out[i] = k.priv
	}
	return out
}

// ---- oracle protocol for the wire-level model ----

func kdfKey(kctx string, mat []byte) []byte {
	out := make([]byte, 32)
	blake3.DeriveKey(kctx, mat, out)
	return out
}

func ansHex(b []byte, ok bool) string {
	if !ok {
		return "x"
	}
	return lib.Hex(b)
}

// modelUnlockWire asks the model for the outcome of UnmarshalVT+UnlockEnvelope on wire bytes.
func (e *engine) modelUnlockWire(wire []byte, ctx string, offered []*key) (op string, res string) {
	pems := make([][]byte, len(offered))
	for i, k := range offered {
		pems[i] = k.pem
	}
	h := blake3.Sum256([]byte(ctx))
	op = fmt.Sprintf("envelope.unlockwire env=%s ctx=%s ctxhash=%s pems=%s", lib.Hex(wire), lib.Hex([]byte(ctx)), lib.Hex(h[:]), lib.HexList(pems))
	line := op
	for i := 0; i < 5; i++ {
		ans := e.m.Query(line)
		switch {
		case strings.HasPrefix(ans, "need dec "):
			qs := strings.Split(lib.KV(ans, "q"), ",")
			out := make([]string, len(qs))
			for j, q := range qs {
				f := strings.Split(q, ":")
				ki, _ := strconv.Atoi(f[0])
				ectx := string(lib.Unhex(f[1]))
				ct := lib.Unhex(f[2])
				out[j] = lib.Recover(func() string {
					d, err := peer.DecryptWithPrivKey(offered[ki].priv, ectx, ct)
					return ansHex(d, err == nil)
				})
				if strings.HasPrefix(out[j], "panic") {
					out[j] = "x"
				}
			}
			line += " dec=" + strings.Join(out, ",")
		case strings.HasPrefix(ans, "need kdf "):
			line += " key=" + lib.Hex(kdfKey(string(lib.Unhex(lib.KV(ans, "kctx"))), lib.Unhex(lib.KV(ans, "mat"))))
		case strings.HasPrefix(ans, "need open "):
			aead, err := chacha20poly1305.NewX(lib.Unhex(lib.KV(ans, "key")))
			if err != nil {
				panic(err)
			}
			p, err := aead.Open(nil, lib.Unhex(lib.KV(ans, "nonce")), lib.Unhex(lib.KV(ans, "ct")), nil)
			line += " opened=" + ansHex(p, err == nil)
		default:
			return op, ans
		}
	}
	panic("oracle protocol did not terminate: " + lib.Trunc(op))
}

func implUnlockWire(wire []byte, ctx string, privs []crypto.PrivKey) string {
	return lib.Recover(func() string {
		env := &envelope.Envelope{}
		if err := env.UnmarshalVT(wire); err != nil {
			return "err unmarshal"
		}
		return unlockImpl(ctx, env, privs, nil)
	})
}

func outcomeClass(s string) string {
	f := strings.SplitN(s, " ", 3)
	if f[0] == "err" && len(f) > 1 {
		return "err." + f[1]
	}
	return f[0]
}

// wireCase: model (with oracles) vs implementation on wire bytes, plus the C18 monitor
// (never a panic, never a payload other than orig; mustCtxMismatch: rejected as such).
func (e *engine) wireCase(wire []byte, ctx string, offered []*key, orig []byte, gen string, key string, mustCtxMismatch bool, mustOpen bool) string {
	op, model := e.modelUnlockWire(wire, ctx, offered)
	impl := implUnlockWire(wire, ctx, e.privs(offered))
	mon := ""
	switch {
	case strings.HasPrefix(impl, "panic"):
		mon = "UnlockEnvelope panics (" + gen + "): " + impl
	case strings.HasPrefix(impl, "opened"):
		if orig != nil && lib.KV(impl, "payload") != lib.Hex(orig) {
			mon = "UnlockEnvelope returned a payload other than the sealed one (" + gen + ")"
		}
		if mustCtxMismatch {
			mon = "UnlockEnvelope succeeded under a different context (" + gen + ")"
		}
	case strings.HasPrefix(impl, "locked-with-payload"):
		mon = "UnlockEnvelope returned a payload without success (" + gen + ")"
	}
	if mustCtxMismatch && mon == "" && impl != "err contextMismatch" {
		mon = "different context not rejected as a context mismatch (" + gen + "): " + impl
	}
	if mustOpen && mon == "" && !strings.HasPrefix(impl, "opened") {
		mon = "honest envelope not opened by sufficient keys (" + gen + "): " + impl
	}
	e.rep.Compare(op, model, impl, "wire."+outcomeClass(model), key, mon)
	return impl
}

// ---- building ----

type built struct {
	c        cfg
	ctx      string
	payload  []byte
	keys     []*key // recipients
	env      *envelope.Envelope
	err      error
	panicked string
}

func (e *engine) buildReal(c cfg, ctx string, payload []byte) *built {
	b := &built{c: c, ctx: ctx, payload: payload, keys: e.keys[:c.nkeys]}
	pubs := make([]crypto.PubKey, c.nkeys)
	for i := range pubs {
		pubs[i] = e.keys[i].pub
	}
	if p := lib.Recover(func() string {
		b.env, b.err = envelope.BuildEnvelope(rndReader{e.rng}, ctx, payload, pubs, c.proto())
		return ""
	}); p != "" {
		b.env, b.err, b.panicked = nil, errors.New(p), p
	}
	return b
}

func scalarToInt(b []byte) int {
	// little endian; share IDs are small
	v := 0
	for i := len(b) - 1; i >= 0; i-- {
		if v > 1<<40 {
			return -1
		}
		v = v<<8 | int(b[i])
	}
	return v
}

// observedPlacement decrypts every grant with its first recipient (directly with peer.Decrypt…)
// and lists the share IDs placed in it: "1.2;x;_".
func (e *engine) observedPlacement(b *built) string {
	out := make([]string, len(b.env.GetGrants()))
	for gi, g := range b.env.GetGrants() {
		if len(g.GetKeypairIndexes()) == 0 {
			out[gi] = "x"
			continue
		}
		k := b.keys[g.GetKeypairIndexes()[0]]
		ectx := envelope.VerifBuildGrantEncContext(b.env.GetEnvelopeId(), b.ctx, gi)
		d, err := peer.DecryptWithPrivKey(k.priv, ectx, g.GetCiphertexts()[0])
		if err != nil {
			out[gi] = "undecryptable"
			continue
		}
		inner := &envelope.EnvelopeGrantInner{}
		if err := inner.UnmarshalVT(d); err != nil {
			out[gi] = "badinner"
			continue
		}
		ids := make([]string, len(inner.GetShares()))
		for i, s := range inner.GetShares() {
			ids[i] = strconv.Itoa(scalarToInt(s.GetId()))
		}
		if len(ids) == 0 {
			out[gi] = "_"
		} else {
			out[gi] = strings.Join(ids, ".")
		}
	}
	return strings.Join(out, ";")
}

// planCase: accept/reject + placement, model vs BuildEnvelope; C17 monitor.
func (e *engine) planCase(c cfg, gen string) *built {
	ctx := []string{"ctx A", "", "bifrost/envelope test v1", "π ✓", "a b 3:c"}[e.rng.Intn(5)]
	payload := e.rng.Bytes(1 + e.rng.Intn(40))
	op := "envelope.plan " + c.args()
	model := e.m.Query(op)
	b := e.buildReal(c, ctx, payload)
	impl := ""
	mon := ""
	key := "envelope.build:" + gen
	all := map[int]bool{}
	for i := 0; i < c.nkeys; i++ {
		all[i] = true
	}
	validIdx := true
	for _, g := range c.grants {
		for _, k := range g.idx {
			if int(k) >= c.nkeys {
				validIdx = false
			}
		}
	}
	availAll, _ := specReach(c, all)
	openable := validIdx && availAll >= int(c.t)+1
	if b.panicked != "" {
		impl = b.panicked
		mon = "BuildEnvelope panics (" + gen + "): " + b.panicked
	} else if b.err != nil {
		impl = buildErrClass(b.err)
		if openable {
			mon = "BuildEnvelope rejects a configuration its recipients could open (" + gen + "): " + b.err.Error()
		}
	} else {
		usable := 0
		pl := specPlaced(c)
		for gi, g := range c.grants {
			if len(g.idx) > 0 {
				usable += len(pl[gi])
			}
		}
		total := 0
		for _, p := range pl {
			total += len(p)
		}
		_ = total
		tot := int(c.total)
		if tot == 0 {
			for _, g := range c.grants {
				if g.sc == 0 {
					tot++
				} else {
					tot += int(g.sc)
				}
			}
		}
		impl = fmt.Sprintf("ok t=%d grants=%d total=%d placed=%s usable=%d", b.env.GetThreshold(), len(b.env.GetGrants()), tot, e.observedPlacement(b), usable)
		// C17: accepted => all recipients together open it and get the payload
		got := unlockImpl(ctx, b.env, e.privs(b.keys), payload)
		if !strings.HasPrefix(got, "opened payload=orig") {
			mon = fmt.Sprintf("BuildEnvelope accepted a configuration that all recipient keys together cannot open (%s): %s", c.args(), got)
			key = "envelope.build:accepted-unopenable"
		} else if !openable {
			mon = "harness spec disagrees: opened although the spec says unreachable (" + gen + ")"
		}
	}
	br := "plan." + outcomeClass(model)
	if strings.HasPrefix(model, "ok") {
		for _, p := range specPlaced(c) {
			if len(p) == 0 {
				br = "plan.ok.empty-grant"
			}
		}
	}
	e.rep.Compare(op, model, impl, br, key, mon)
	return b
}

// offers: subsets of recipients plus unrelated keys, as index lists (>= nkeys → unrelated pool 4,5).
func (e *engine) offers(c cfg, n int) [][]int {
	var out [][]int
	full := 1 << c.nkeys
	pick := map[int]bool{full - 1: true, 0: true}
	for len(pick) < min(n, full) {
		pick[e.rng.Intn(full)] = true
	}
	masks := make([]int, 0, len(pick))
	for m := range pick {
		masks = append(masks, m)
	}
	sort.Ints(masks)
	for _, m := range masks {
		var l []int
		for i := 0; i < c.nkeys; i++ {
			if m&(1<<i) != 0 {
				l = append(l, i)
			}
		}
		switch e.rng.Intn(4) {
		case 0:
			l = append(l, 4) // unrelated key
		case 1:
			l = append([]int{5}, l...)
			if len(l) > 1 {
				l = append(l, l[1]) // duplicate
			}
		case 2:
			e.rng.Shuffle(len(l), func(i, j int) { l[i], l[j] = l[j], l[i] })
		}
		out = append(out, l)
	}
	return out
}

func (e *engine) offerKeys(l []int) []*key {
	out := make([]*key, len(l))
	for i, k := range l {
		out[i] = e.keys[k]
	}
	return out
}

// runCase: abstract prediction from the configuration + wire-level prediction; C16 monitor.
func (e *engine) runCase(b *built, offer []int) {
	c := b.c
	op := "envelope.run " + c.args() + " offer=" + natList(offer)
	model := e.m.Query(op)
	impl := unlockImpl(b.ctx, b.env, e.privs(e.offerKeys(offer)), b.payload)
	// monitor: independent statement of C16
	off := map[int]bool{}
	for _, k := range offer {
		if k < c.nkeys {
			off[k] = true
		}
	}
	avail, unlocked := specReach(c, off)
	want := fmt.Sprintf("locked avail=%d needed=%d unlocked=%s", avail, c.t+1, natList(unlocked))
	if avail >= int(c.t)+1 {
		want = fmt.Sprintf("opened payload=orig avail=%d needed=%d unlocked=%s", avail, c.t+1, natList(unlocked))
	}
	mon := ""
	if impl != want {
		mon = fmt.Sprintf("UnlockEnvelope result differs from what the offered keys can reach: want %q got %q", want, impl)
	}
	br := "run." + strings.SplitN(model, " ", 2)[0]
	if avail == int(c.t)+1 {
		br += ".exact"
	}
	e.rep.Compare(op, model, impl, br, "envelope.unlock:reach", mon)
	wire, err := b.env.MarshalVT()
	if err != nil {
		panic(err)
	}
	e.wireCase(wire, b.ctx, e.offerKeys(offer), b.payload, "honest", "envelope.unlockwire:honest", false, avail >= int(c.t)+1)
}

// ---- CIRCL tie ----

func randScalar(e *engine) group.Scalar {
	s := group.Ristretto255.NewScalar()
	b := e.rng.Bytes(32)
	if err := s.UnmarshalBinary(b); err != nil {
		panic(err)
	}
	return s
}

func mb(s group.Scalar) []byte {
	b, err := s.MarshalBinary()
	if err != nil {
		panic(err)
	}
	return b
}

var ellLE = []byte{0xed, 0xd3, 0xf5, 0x5c, 0x1a, 0x63, 0x12, 0x58, 0xd6, 0x9c, 0xf7, 0xa2, 0xde, 0xf9, 0xde, 0x14, 0, 0, 0, 0, 0, 0, 0, 0, 0, 0, 0, 0, 0, 0, 0, 0x10}

// alias returns another encoding of the same scalar (top bits set, or + l when it fits).
func (e *engine) alias(b []byte) []byte {
	out := append([]byte(nil), b...)
	if e.rng.Intn(2) == 0 {
		out[31] |= byte(0x20 << e.rng.Intn(3))
		return out
	}
	carry := 0
	for i := 0; i < 32; i++ {
		v := int(out[i]) + int(ellLE[i]) + carry
		out[i] = byte(v)
		carry = v >> 8
	}
	return out
}

func (e *engine) sharingTie(n int) {
	g := group.Ristretto255
	for i := 0; i < n; i++ {
		// canonical decoding of arbitrary 32 bytes and of lengths != 32
		b := e.rng.Bytes(32)
		switch i % 6 {
		case 1:
			b = e.alias(mb(g.NewScalar().SetUint64(uint64(e.rng.Intn(1000)))))
		case 2:
			b = e.rng.Bytes([]int{0, 1, 31, 33, 64}[e.rng.Intn(5)])
		case 3:
			b = append([]byte(nil), ellLE...)
			b[0] += byte(e.rng.Intn(3)) - 1
		case 4:
			b = bytes.Repeat([]byte{0xff}, 32)
		}
		op := "envelope.scalar b=" + lib.Hex(b)
		impl := lib.Recover(func() string {
			s := g.NewScalar()
			if err := s.UnmarshalBinary(b); err != nil {
				return "err"
			}
			return "ok " + lib.Hex(mb(s))
		})
		model := e.m.Query(op)
		e.rep.Compare(op, model, impl, "scalar."+strings.SplitN(model, " ", 2)[0], "envelope.scalar", "")

		// polynomial evaluation
		deg := e.rng.Intn(5)
		cs := make([]group.Scalar, deg+1)
		csb := make([][]byte, deg+1)
		for j := range cs {
			cs[j] = randScalar(e)
			csb[j] = mb(cs[j])
		}
		x := randScalar(e)
		op = fmt.Sprintf("envelope.polyeval coeffs=%s x=%s", lib.HexList(csb), lib.Hex(mb(x)))
		impl = "ok " + lib.Hex(mb(polynomial.New(cs).Evaluate(x)))
		e.rep.Compare(op, e.m.Query(op), impl, "polyeval", "envelope.polyeval", "")

		// split + recover
		t := uint(e.rng.Intn(5))
		nsh := uint(e.rng.Intn(8))
		secret := randScalar(e)
		ss := secretsharing.New(rndReader{e.rng}, t, secret)
		shares := ss.Share(nsh)
		e.rng.Shuffle(len(shares), func(a, b int) { shares[a], shares[b] = shares[b], shares[a] })
		if len(shares) > 0 {
			shares = shares[:e.rng.Intn(len(shares)+1)]
		}
		ids := make([][]byte, len(shares))
		vals := make([][]byte, len(shares))
		for j, s := range shares {
			ids[j], vals[j] = mb(s.ID), mb(s.Value)
		}
		gen := "honest"
		switch i % 5 {
		case 1:
			if len(ids) >= 2 {
				gen = "duplicate"
				ids[len(ids)-1] = ids[0]
			}
		case 2:
			if len(ids) >= 2 {
				gen = "aliased"
				ids[e.rng.Intn(len(ids))] = e.alias(ids[e.rng.Intn(len(ids))])
			}
		case 3:
			if len(ids) >= 1 {
				gen = "garbage-value"
				vals[e.rng.Intn(len(vals))] = e.rng.Bytes(32)
			}
		case 4:
			if len(ids) >= 1 {
				gen = "zero-id"
				ids[e.rng.Intn(len(ids))] = make([]byte, 32)
			}
		}
		tt := t
		if i%7 == 6 {
			tt = uint(e.rng.Intn(6))
		}
		op = fmt.Sprintf("envelope.recover t=%d ids=%s vals=%s", tt, lib.HexList(ids), lib.HexList(vals))
		impl = lib.Recover(func() string {
			sh := make([]secretsharing.Share, len(ids))
			for j := range ids {
				sh[j].ID, sh[j].Value = g.NewScalar(), g.NewScalar()
				if err := sh[j].ID.UnmarshalBinary(ids[j]); err != nil {
					panic(err)
				}
				if err := sh[j].Value.UnmarshalBinary(vals[j]); err != nil {
					panic(err)
				}
			}
			s, err := secretsharing.Recover(tt, sh)
			if err != nil {
				return "err"
			}
			return "ok " + lib.Hex(mb(s))
		})
		if strings.HasPrefix(impl, "panic") {
			impl = "panic"
		}
		model = e.m.Query(op)
		mon := ""
		if gen == "honest" && tt >= t && uint(len(ids)) > tt && impl != "ok "+lib.Hex(mb(secret)) {
			mon = "secretsharing.Recover does not return the shared secret from t+1 distinct honest shares"
		}
		e.rep.Compare(op, model, impl, "recover."+strings.SplitN(model, " ", 2)[0], "envelope.recover:"+gen, mon)
	}
}

// ---- context strings, inner codec, envelope decode ----

func (e *engine) stringsTie(n int) {
	for i := 0; i < n; i++ {
		id := string(e.rng.Bytes([]int{0, 1, 9, 10, 11, 32, 99, 100, 101}[e.rng.Intn(9)]))
		ctx := string(e.rng.Bytes([]int{0, 1, 9, 10, 11, 99, 100, 1000}[e.rng.Intn(8)]))
		gi := []int{0, 1, 9, 10, 11, 99, 100, 12345, 1 << 31}[e.rng.Intn(9)]
		op := fmt.Sprintf("envelope.encctx id=%s ctx=%s gi=%d", lib.Hex([]byte(id)), lib.Hex([]byte(ctx)), gi)
		real := envelope.VerifBuildGrantEncContext(id, ctx, gi)
		// the property of these strings: different (id, context, grant index) => different string,
		// also when bytes are shifted across the field boundaries
		mon := ""
		if real == envelope.VerifBuildGrantEncContext(id, ctx, gi+1) || real == envelope.VerifBuildGrantEncContext(id, ctx, gi*10+1) {
			mon = "grant encryption context does not depend on the grant index"
		}
		if real == envelope.VerifBuildGrantEncContext(id, ctx+"x", gi) || real == envelope.VerifBuildGrantEncContext(id+"x", ctx, gi) {
			mon = "grant encryption context does not depend on the envelope id / context"
		}
		if len(ctx) > 0 && real == envelope.VerifBuildGrantEncContext(id+ctx[:1], ctx[1:], gi) {
			mon = "grant encryption context is ambiguous across the id/context boundary"
		}
		if real == envelope.VerifBuildKeyDerivationContext(id, ctx) {
			mon = "grant encryption context equals the key derivation context"
		}
		e.rep.Compare(op, e.m.Query(op), "ok "+lib.Hex([]byte(real)), "encctx", "envelope.encctx", mon)
		op = fmt.Sprintf("envelope.kdctx id=%s ctx=%s", lib.Hex([]byte(id)), lib.Hex([]byte(ctx)))
		realk := envelope.VerifBuildKeyDerivationContext(id, ctx)
		mon = ""
		if realk == envelope.VerifBuildKeyDerivationContext(id, ctx+"x") || realk == envelope.VerifBuildKeyDerivationContext(id+"x", ctx) ||
			(len(ctx) > 0 && realk == envelope.VerifBuildKeyDerivationContext(id+ctx[:1], ctx[1:])) {
			mon = "key derivation context does not bind the envelope id / context unambiguously"
		}
		e.rep.Compare(op, e.m.Query(op), "ok "+lib.Hex([]byte(realk)), "kdctx", "envelope.kdctx", mon)
		// inner codec
		ns := e.rng.Intn(4)
		ids := make([][]byte, ns)
		vals := make([][]byte, ns)
		inner := &envelope.EnvelopeGrantInner{}
		for j := 0; j < ns; j++ {
			ids[j] = e.rng.Bytes([]int{0, 1, 32, 32, 32, 33}[e.rng.Intn(6)])
			vals[j] = e.rng.Bytes([]int{0, 32, 32, 32, 31}[e.rng.Intn(5)])
			inner.Shares = append(inner.Shares, &envelope.EnvelopeShare{Id: ids[j], Value: vals[j]})
		}
		dat, err := inner.MarshalVT()
		if err != nil {
			panic(err)
		}
		op = fmt.Sprintf("envelope.encinner ids=%s vals=%s", lib.HexList(ids), lib.HexList(vals))
		e.rep.Compare(op, e.m.Query(op), "ok "+lib.Hex(dat), "encinner", "envelope.encinner", "")
		w := append([]byte(nil), dat...)
		switch i % 4 {
		case 1:
			if len(w) > 0 {
				w[e.rng.Intn(len(w))] ^= 1 << e.rng.Intn(8)
			}
		case 2:
			if len(w) > 0 {
				w = w[:e.rng.Intn(len(w))]
			}
		case 3:
			w = e.rng.Bytes(e.rng.Intn(20))
		}
		op = "envelope.inner b=" + lib.Hex(w)
		impl := lib.Recover(func() string {
			in := &envelope.EnvelopeGrantInner{}
			if err := in.UnmarshalVT(w); err != nil {
				return "err"
			}
			l := make([]string, len(in.GetShares()))
			for j, s := range in.GetShares() {
				l[j] = lib.Hex(s.GetId()) + "/" + lib.Hex(s.GetValue())
			}
			if len(l) == 0 {
				return "ok _"
			}
			return "ok " + strings.Join(l, ",")
		})
		model := e.m.Query(op)
		e.rep.Compare(op, model, impl, "inner."+strings.SplitN(model, " ", 2)[0], "envelope.inner", "")
	}
}

func dumpEnv(env *envelope.Envelope) string {
	gs := make([]string, len(env.GetGrants()))
	for i, g := range env.GetGrants() {
		ks := make([]string, len(g.GetKeypairIndexes()))
		for j, k := range g.GetKeypairIndexes() {
			ks[j] = strconv.Itoa(int(k))
		}
		k := "_"
		if len(ks) > 0 {
			k = strings.Join(ks, ".")
		}
		gs[i] = k + "/" + lib.HexList(g.GetCiphertexts())
	}
	g := "_"
	if len(gs) > 0 {
		g = strings.Join(gs, ";")
	}
	ks := make([][]byte, len(env.GetKeypairs()))
	kl := "_"
	if len(ks) > 0 {
		p := make([]string, len(ks))
		for i, k := range env.GetKeypairs() {
			p[i] = lib.Hex(k.GetPubKey())
		}
		kl = strings.Join(p, ",")
	}
	return fmt.Sprintf("ok id=%s ch=%s t=%d ct=%s grants=%s keypairs=%s", lib.Hex([]byte(env.GetEnvelopeId())), lib.Hex(env.GetContextHash()), env.GetThreshold(), lib.Hex(env.GetCiphertext()), g, kl)
}

func (e *engine) decodeCase(wire []byte, gen string) {
	op := "envelope.decode env=" + lib.Hex(wire)
	model := e.m.Query(op)
	impl := lib.Recover(func() string {
		env := &envelope.Envelope{}
		if err := env.UnmarshalVT(wire); err != nil {
			return "err"
		}
		return dumpEnv(env)
	})
	mon := ""
	if strings.HasPrefix(impl, "panic") {
		mon = "Envelope.UnmarshalVT panics (" + gen + ")"
	}
	e.rep.Compare(op, model, impl, "decode."+strings.SplitN(model, " ", 2)[0], "envelope.decode:"+gen, mon)
}

// ---- properties ----

var c16Branches = []string{"plan.ok", "plan.ok.empty-grant", "plan.err.invalidThreshold", "plan.err.invalidKeypairIndex",
	"run.opened", "run.opened.exact", "run.locked", "wire.opened", "wire.locked",
	"scalar.ok", "scalar.err", "polyeval", "recover.ok", "recover.err", "recover.panic", "encctx", "kdctx", "encinner", "inner.ok", "inner.err"}

func (e *engine) runC16() {
	e.rep.Rule = "envelope configurations sampled from the stated bound (1-3 keys, 1-4 grants, share counts 0-2, keypair index lists of length 0-3 with duplicates, thresholds 0-3, total-share overrides 0-5, rare out-of-range index) x subsets of the recipients' keys mixed with unrelated / duplicated / shuffled keys; every accepted configuration is built with the real BuildEnvelope and unlocked (a) against the model's prediction from the configuration alone and (b) against the model run on the real envelope bytes with oracle primitives; CIRCL Recover/Evaluate and the scalar codec vs the model's Lagrange over Z/l on honest, duplicated, aliased, zero-id share sets; distinct = distinct op line"
	e.rep.Require(c16Branches...)
	// direct ties of the model's building blocks first (the report keeps the first 200 disagreements)
	e.sharingTie(400 * e.a.Scale)
	e.stringsTie(300 * e.a.Scale)
	n := 1200 * e.a.Scale
	for i := 0; i < n; i++ {
		c := e.randCfg()
		b := e.planCase(c, "sampled")
		if b.err != nil {
			continue
		}
		for _, off := range e.offers(c, 4) {
			e.runCase(b, off)
		}
	}
}

func (e *engine) runC17() {
	e.rep.Rule = "every configuration of the stated bound in a seeded sample (dense on thresholds near the number of usable shares, total-share overrides above and below the sum, grants without keypair indexes, out-of-range indexes) through the real BuildEnvelope: accept/reject and share placement vs the model; every accepted one unlocked with all recipient keys; the two F7 witnesses and threshold 2^32-1 (in a child process) replayed every run; distinct = distinct op line"
	e.rep.Require("plan.ok", "plan.ok.empty-grant", "plan.err.invalidThreshold", "plan.err.invalidKeypairIndex", "plan.err.noGrants", "plan.err.noKeypairs", "witness", "wrap")
	// witnesses of F7 (accepted-but-unopenable before the fix)
	ws := []cfg{
		{nkeys: 2, t: 3, total: 5, grants: []gcfg{{1, []uint32{0}}, {1, []uint32{1}}}},
		{nkeys: 2, t: 1, grants: []gcfg{{1, nil}, {1, []uint32{1}}}},
		{nkeys: 1, t: 0, grants: []gcfg{{1, nil}}},
		{nkeys: 2, t: 1, total: 1, grants: []gcfg{{1, []uint32{0}}, {1, []uint32{1}}}},
		{nkeys: 2, t: 2, grants: []gcfg{{2, []uint32{0}}, {0, nil}, {1, []uint32{1, 0}}}},
	}
	for _, c := range ws {
		e.planCase(c, "witness")
		e.rep.Branches["witness"]++
	}
	// structural rejections
	e.planCase(cfg{nkeys: 1, t: 0}, "no-grants")
	e.planCase(cfg{nkeys: 0, t: 0, grants: []gcfg{{1, nil}}}, "no-keypairs")
	n := 1500 * e.a.Scale
	for i := 0; i < n; i++ {
		c := e.randCfg()
		if i%3 == 0 {
			// dense around the acceptance boundary
			all := map[int]bool{0: true, 1: true, 2: true}
			avail, _ := specReach(c, all)
			d := avail - 1 + e.rng.Intn(3)
			if d < 0 {
				d = 0
			}
			c.t = uint32(d)
		}
		e.planCase(c, "sampled")
	}
	e.wrapCase()
}

// wrapCase: threshold 2^32-1 makes threshold+1 wrap in uint32. Before the fix BuildEnvelope
// accepted it and tried to allocate 2^32 polynomial coefficients, so it runs in a child process.
func (e *engine) wrapCase() {
	c := cfg{nkeys: 1, t: 0xffffffff, grants: []gcfg{{1, []uint32{0}}}}
	op := "envelope.plan " + c.args()
	model := e.m.Query(op)
	cmd := exec.Command(os.Args[0])
	cmd.Env = append(os.Environ(), "VERIF_ENVELOPE_CHILD=wrap", "GOMEMLIMIT=1GiB")
	var out bytes.Buffer
	cmd.Stdout = &out
	done := make(chan error, 1)
	if err := cmd.Start(); err != nil {
		panic(err)
	}
	go func() { done <- cmd.Wait() }()
	impl := ""
	select {
	case <-done:
		impl = strings.TrimSpace(out.String())
		if impl == "" {
			impl = "crash"
		}
	case <-time.After(3 * time.Second):
		_ = cmd.Process.Kill()
		<-done
		impl = "hang"
	}
	mon := ""
	if impl != "err invalidThreshold" {
		mon = "BuildEnvelope does not reject threshold 2^32-1 (threshold+1 wraps to 0): " + impl
	}
	e.rep.Compare(op, model, impl, "wrap", "envelope.build:threshold-wrap", mon)
}

func childWrap() {
	std := ed25519.NewKeyFromSeed(bytes.Repeat([]byte{7}, 32))
	priv, _ := crypto.UnmarshalEd25519PrivateKey(std)
	_, err := envelope.BuildEnvelope(rndReader{lib.NewRng(1)}, "c", []byte("p"), []crypto.PubKey{priv.GetPublic()},
		&envelope.EnvelopeConfig{Threshold: 0xffffffff, GrantConfigs: []*envelope.EnvelopeGrantConfig{{ShareCount: 1, KeypairIndexes: []uint32{0}}}})
	if err != nil {
		fmt.Println(buildErrClass(err))
		return
	}
	fmt.Println("ok")
}

// ---- C18 ----

func clone(env *envelope.Envelope) *envelope.Envelope { return env.CloneVT() }

func mustWire(env *envelope.Envelope) []byte {
	w, err := env.MarshalVT()
	if err != nil {
		panic(err)
	}
	return w
}

// reencrypt replaces ciphertext ci of grant gi by an encryption of the given shares.
func (e *engine) reencrypt(b *built, env *envelope.Envelope, gi, ci int, shares []*envelope.EnvelopeShare, raw []byte) {
	g := env.Grants[gi]
	k := b.keys[g.KeypairIndexes[ci]]
	dat := raw
	if dat == nil {
		var err error
		dat, err = (&envelope.EnvelopeGrantInner{Shares: shares}).MarshalVT()
		if err != nil {
			panic(err)
		}
	}
	ct, err := peer.EncryptToPubKey(k.pub, envelope.VerifBuildGrantEncContext(env.GetEnvelopeId(), b.ctx, gi), dat)
	if err != nil {
		panic(err)
	}
	g.Ciphertexts[ci] = ct
}

func (e *engine) grantShares(b *built, env *envelope.Envelope, gi int) []*envelope.EnvelopeShare {
	g := env.Grants[gi]
	k := b.keys[g.KeypairIndexes[0]]
	d, err := peer.DecryptWithPrivKey(k.priv, envelope.VerifBuildGrantEncContext(env.GetEnvelopeId(), b.ctx, gi), g.Ciphertexts[0])
	if err != nil {
		panic(err)
	}
	inner := &envelope.EnvelopeGrantInner{}
	if err := inner.UnmarshalVT(d); err != nil {
		panic(err)
	}
	return inner.Shares
}

var c18Branches = []string{"encctx", "kdctx", "wire.opened", "wire.locked", "wire.err.contextMismatch", "wire.err.decryptionFailed", "wire.err.recover",
	"wire.err.unmarshal", "wire.err.noGrants", "wire.err.noKeypairs", "decode.ok", "decode.err",
	"gen.alias", "gen.ctx", "gen.threshold-max", "gen.short-grant-ct", "gen.short-ct"}

func (e *engine) runC18() {
	e.rep.Rule = "sealed envelopes (configurations from the C16 bound with decryptable grants) unlocked under other contexts; every top-level field replaced (envelope id, context hash, threshold incl. 2^32-1, ciphertext bit flips / truncations below and above the nonce size / foreign ciphertext, grants dropped / duplicated / swapped / keypair indexes rewritten / ciphertexts flipped and truncated to 0..52 bytes, keypairs dropped / reordered / garbage), grants re-encrypted by an outsider with aliased, duplicated, zero, mis-sized share ids and garbage plaintexts, wire-level bit flips / truncations / random bytes; the model predicts the exact outcome on the bytes; distinct = distinct op line"
	e.rep.Require(c18Branches...)
	e.stringsTie(100 * e.a.Scale)
	n := 60 * e.a.Scale
	for i := 0; i < n; i++ {
		var c cfg
		for {
			c = e.randCfg()
			ok := true
			for _, g := range c.grants {
				if len(g.idx) == 0 {
					ok = false
				}
				for _, k := range g.idx {
					if int(k) >= c.nkeys {
						ok = false
					}
				}
			}
			if i%2 == 0 {
				c.total = 0
			}
			if ok {
				break
			}
		}
		ctx := []string{"ctx A", "", "bifrost/envelope test v1", "π ✓"}[i%4]
		payload := e.rng.Bytes(1 + e.rng.Intn(40))
		b := e.buildReal(c, ctx, payload)
		if b.err != nil {
			continue
		}
		all := b.keys
		tc := func(env *envelope.Envelope, gen string) {
			e.wireCase(mustWire(env), ctx, all, payload, gen, "envelope.unlock:"+gen, false, false)
		}
		wire := mustWire(b.env)
		e.wireCase(wire, ctx, all, payload, "honest", "envelope.unlockwire:honest", false, true)
		e.decodeCase(wire, "honest")

		// context
		for _, c2 := range []string{ctx + " ", "x" + ctx, strings.ToUpper(ctx) + "!", "other"} {
			e.wireCase(wire, c2, all, payload, "other-context", "envelope.unlock:other-context", true, false)
			e.rep.Branches["gen.ctx"]++
		}
		{
			// context hash replaced by the hash of another context, unlocked under that context
			t := clone(b.env)
			h := blake3.Sum256([]byte("other"))
			t.ContextHash = h[:]
			e.wireCase(mustWire(t), "other", all, payload, "rehashed-context", "envelope.unlock:rehashed-context", false, false)
		}

		// envelope id
		t := clone(b.env)
		t.EnvelopeId += "0"
		tc(t, "id-append")
		t = clone(b.env)
		t.EnvelopeId = ""
		tc(t, "id-empty")
		t = clone(b.env)
		t.EnvelopeId = string(e.rng.Bytes(1 + e.rng.Intn(40)))
		tc(t, "id-random")

		// context hash
		t = clone(b.env)
		t.ContextHash[e.rng.Intn(32)] ^= 1 << e.rng.Intn(8)
		tc(t, "ctxhash-flip")
		t = clone(b.env)
		t.ContextHash = t.ContextHash[:e.rng.Intn(32)]
		tc(t, "ctxhash-trunc")

		// threshold
		for _, th := range []uint32{0, c.t + 1, c.t + 2, 7, 0xffffffff, 0xfffffffe, uint32(e.rng.Intn(1 << 31))} {
			t = clone(b.env)
			t.Threshold = th
			tc(t, "threshold")
			if th == 0xffffffff {
				e.rep.Branches["gen.threshold-max"]++
			}
		}
		if c.t > 0 {
			t = clone(b.env)
			t.Threshold = c.t - 1
			tc(t, "threshold-lower")
		}

		// payload ciphertext
		t = clone(b.env)
		t.Ciphertext[e.rng.Intn(len(t.Ciphertext))] ^= 1 << e.rng.Intn(8)
		tc(t, "ct-flip")
		for _, l := range []int{0, 1, 23, 24, 25, 39, 40, 41} {
			if l <= len(b.env.Ciphertext) {
				t = clone(b.env)
				t.Ciphertext = t.Ciphertext[:l]
				tc(t, "ct-trunc")
				e.rep.Branches["gen.short-ct"]++
			}
		}
		t = clone(b.env)
		t.Ciphertext = append(t.Ciphertext, 0)
		tc(t, "ct-extend")
		{
			b2 := e.buildReal(c, ctx, e.rng.Bytes(1+e.rng.Intn(40)))
			if b2.err == nil {
				t = clone(b.env)
				t.Ciphertext = b2.env.Ciphertext
				tc(t, "ct-foreign")
				// whole grants of another envelope for the same recipients
				t = clone(b.env)
				t.Grants = b2.env.CloneVT().Grants
				tc(t, "grants-foreign")
				t = clone(b2.env)
				t.Ciphertext = b.env.Ciphertext
				t.EnvelopeId = b.env.EnvelopeId
				tc(t, "grants-foreign-same-id")
			}
		}

		// grants
		ng := len(b.env.Grants)
		t = clone(b.env)
		t.Grants = t.Grants[:ng-1]
		tc(t, "grant-drop-last")
		t = clone(b.env)
		t.Grants = t.Grants[1:]
		tc(t, "grant-drop-first")
		t = clone(b.env)
		t.Grants = append(t.Grants, t.Grants[0].CloneVT())
		tc(t, "grant-duplicate")
		t = clone(b.env)
		t.Grants = append([]*envelope.EnvelopeGrant{t.Grants[0].CloneVT()}, t.Grants...)
		tc(t, "grant-duplicate-front")
		if ng >= 2 {
			t = clone(b.env)
			t.Grants[0], t.Grants[1] = t.Grants[1], t.Grants[0]
			tc(t, "grant-swap")
			t = clone(b.env)
			t.Grants[0].Ciphertexts, t.Grants[1].Ciphertexts = t.Grants[1].Ciphertexts, t.Grants[0].Ciphertexts
			tc(t, "grant-swap-ciphertexts")
		}
		t = clone(b.env)
		t.Grants = nil
		tc(t, "grants-none")
		gi := e.rng.Intn(ng)
		t = clone(b.env)
		t.Grants[gi].KeypairIndexes[0] = uint32((int(t.Grants[gi].KeypairIndexes[0]) + 1) % c.nkeys)
		tc(t, "kpidx-other")
		t = clone(b.env)
		t.Grants[gi].KeypairIndexes[0] = []uint32{uint32(c.nkeys), 0xffffffff, 1 << 31}[e.rng.Intn(3)]
		tc(t, "kpidx-out-of-range")
		t = clone(b.env)
		t.Grants[gi].KeypairIndexes = append(t.Grants[gi].KeypairIndexes, 0)
		tc(t, "kpidx-extra")
		t = clone(b.env)
		t.Grants[gi].KeypairIndexes = nil
		tc(t, "kpidx-none")
		t = clone(b.env)
		t.Grants[gi].Ciphertexts = append(t.Grants[gi].Ciphertexts, e.rng.Bytes(60))
		tc(t, "grant-ct-extra")
		t = clone(b.env)
		ct := t.Grants[gi].Ciphertexts[0]
		ct[e.rng.Intn(len(ct))] ^= 1 << e.rng.Intn(8)
		tc(t, "grant-ct-flip")
		for _, l := range []int{0, 3, 4, 33, 34, 35, 36, 37, 51, 52, 53} {
			t = clone(b.env)
			for ci := range t.Grants[gi].Ciphertexts {
				if l <= len(t.Grants[gi].Ciphertexts[ci]) {
					t.Grants[gi].Ciphertexts[ci] = t.Grants[gi].Ciphertexts[ci][:l]
				}
			}
			e.wireCase(mustWire(t), ctx, all, payload, "grant-ct-trunc", "envelope.unlock:short-grant-ciphertext", false, false)
			e.rep.Branches["gen.short-grant-ct"]++
		}
		for j := 0; j < 6; j++ {
			// short random grant ciphertexts (F22 territory: 34/35 bytes)
			t = clone(b.env)
			t.Grants[gi].Ciphertexts[0] = e.rng.Bytes(34 + j%3)
			e.wireCase(mustWire(t), ctx, all, payload, "grant-ct-random-short", "envelope.unlock:short-grant-ciphertext", false, false)
		}

		// keypairs
		t = clone(b.env)
		t.Keypairs = t.Keypairs[:len(t.Keypairs)-1]
		tc(t, "keypair-drop")
		t = clone(b.env)
		t.Keypairs = nil
		tc(t, "keypairs-none")
		t = clone(b.env)
		t.Keypairs[0].PubKey = e.rng.Bytes(e.rng.Intn(50))
		tc(t, "keypair-garbage")
		if c.nkeys >= 2 {
			t = clone(b.env)
			t.Keypairs[0], t.Keypairs[1] = t.Keypairs[1], t.Keypairs[0]
			tc(t, "keypair-swap")
		}
		t = clone(b.env)
		t.Keypairs = append(t.Keypairs, t.Keypairs[0].CloneVT())
		t.Keypairs[len(t.Keypairs)-1].AuthMethodId = "x"
		t.Contents = []byte("hello")
		tc(t, "keypair-extra+contents")

		// outsider re-encrypts grants (public-key encryption: anyone can)
		shares := e.grantShares(b, b.env, gi)
		if len(shares) > 0 {
			mk := func(f func(s []*envelope.EnvelopeShare) []*envelope.EnvelopeShare) *envelope.Envelope {
				t := clone(b.env)
				var cp []*envelope.EnvelopeShare
				for _, s := range shares {
					cp = append(cp, s.CloneVT())
				}
				e.reencrypt(b, t, gi, 0, f(cp), nil)
				return t
			}
			// aliased id placed in ANOTHER grant (or appended to this one): the F21 shape
			other := (gi + 1) % ng
			for rep := 0; rep < 3; rep++ {
				t = clone(b.env)
				al := &envelope.EnvelopeShare{Id: e.alias(shares[0].Id), Value: shares[0].Value}
				if rep == 2 {
					al.Value = e.rng.Bytes(32)
				}
				if other != gi && rep != 1 {
					os2 := e.grantShares(b, b.env, other)
					e.reencrypt(b, t, other, 0, append(os2, al), nil)
				} else {
					e.reencrypt(b, t, gi, 0, append(append([]*envelope.EnvelopeShare(nil), shares...), al), nil)
				}
				e.wireCase(mustWire(t), ctx, all, payload, "aliased-share-id", "envelope.unlock:aliased-share-id", false, false)
				e.rep.Branches["gen.alias"]++
				// with a lowered threshold so that the aliases land among the first t+1 shares
				t.Threshold = uint32(e.rng.Intn(int(c.t) + 1))
				e.wireCase(mustWire(t), ctx, all, payload, "aliased-share-id", "envelope.unlock:aliased-share-id", false, false)
			}
			tc(mk(func(s []*envelope.EnvelopeShare) []*envelope.EnvelopeShare { return append(s, s[0].CloneVT()) }), "share-duplicate")
			tc(mk(func(s []*envelope.EnvelopeShare) []*envelope.EnvelopeShare { s[0].Value = e.rng.Bytes(32); return s }), "share-value-garbage")
			tc(mk(func(s []*envelope.EnvelopeShare) []*envelope.EnvelopeShare { s[0].Id = make([]byte, 32); return s }), "share-id-zero")
			tc(mk(func(s []*envelope.EnvelopeShare) []*envelope.EnvelopeShare { s[0].Id = s[0].Id[:31]; return s }), "share-id-short")
			tc(mk(func(s []*envelope.EnvelopeShare) []*envelope.EnvelopeShare {
				s[0].Value = append(s[0].Value, 0)
				return s
			}), "share-value-long")
			tc(mk(func(s []*envelope.EnvelopeShare) []*envelope.EnvelopeShare { s[0].Id = nil; s[0].Value = nil; return s }), "share-empty")
			tc(mk(func(s []*envelope.EnvelopeShare) []*envelope.EnvelopeShare {
				for k := 0; k < 5; k++ {
					id := make([]byte, 32)
					id[0] = byte(100 + k)
					s = append(s, &envelope.EnvelopeShare{Id: id, Value: e.rng.Bytes(32)})
				}
				return s
			}), "share-extra-forged")
			tc(mk(func(s []*envelope.EnvelopeShare) []*envelope.EnvelopeShare { return nil }), "share-none")
			t = clone(b.env)
			e.reencrypt(b, t, gi, 0, nil, e.rng.Bytes(1+e.rng.Intn(30)))
			tc(t, "inner-garbage")
			// same plaintext re-encrypted under the context of another grant index / another envelope id
			t = clone(b.env)
			k := b.keys[t.Grants[gi].KeypairIndexes[0]]
			dat, _ := (&envelope.EnvelopeGrantInner{Shares: shares}).MarshalVT()
			ct2, _ := peer.EncryptToPubKey(k.pub, envelope.VerifBuildGrantEncContext(t.GetEnvelopeId(), ctx, gi+1), dat)
			t.Grants[gi].Ciphertexts[0] = ct2
			tc(t, "grant-other-index-context")
		}

		// wire-level mutations
		for j := 0; j < 12; j++ {
			w := append([]byte(nil), wire...)
			gen := ""
			switch j % 4 {
			case 0:
				gen = "wire-bitflip"
				w[e.rng.Intn(len(w))] ^= 1 << e.rng.Intn(8)
			case 1:
				gen = "wire-truncated"
				w = w[:e.rng.Intn(len(w))]
			case 2:
				gen = "wire-random"
				w = e.rng.Bytes(e.rng.Intn(80))
			case 3:
				gen = "wire-appended-field"
				// duplicate scalar fields: last one wins (threshold / id / ciphertext), unknown fields
				w = append(w, [][]byte{{0x18, 0x00}, {0x18, 0xff, 0xff, 0xff, 0xff, 0x0f}, {0x18, 0xff, 0xff, 0xff, 0xff, 0x1f}, {0x0a, 0x01, 0x41}, {0x22, 0x00}, {0x40, 0x01}, {0x2a, 0x00}, {0x32, 0x00}, {0x2a, 0x02, 0x08, 0x00}}[e.rng.Intn(9)]...)
			}
			e.wireCase(w, ctx, all, payload, gen, "envelope.unlock:"+gen, false, false)
			e.decodeCase(w, gen)
		}
	}
}

func main() {
	if os.Getenv("VERIF_ENVELOPE_CHILD") == "wrap" {
		childWrap()
		return
	}
	a := lib.ParseArgs()
	e := &engine{a: a, rng: lib.NewRng(a.Seed), m: lib.NewModel(a.Driver)}
	e.rep = lib.NewReport("envelope", a)
	for i := 0; i < 6; i++ {
		e.keys = append(e.keys, e.newKey())
	}
	switch a.Prop {
	case "C16":
		e.runC16()
	case "C17":
		e.runC17()
	case "C18":
		e.runC18()
	default:
		fmt.Println("unknown property", a.Prop)
		return
	}
	e.m.Close()
	e.rep.Write(a.Out)
}
