package main

import (
	"fmt"

	"github.com/aperturerobotics/bifrost/envelope"
	"github.com/zeebo/blake3"
)

// Wave 4 (C18): "unsealing with a different context string is rejected as a context mismatch" is a
// statement about EVERY caller — whatever keys are offered. The other-context class used to offer the
// full recipient set only, and the altered context_hash cases carried no monitor of their own; a caller
// who holds NO recipient key (no keys, a nil slice, nil entries, only foreign / unsupported / shadow keys)
// or too few of them must be told ErrContextMismatch just the same: anything else ("N shares needed", a
// decryption failure) tells him the envelope belongs to his context.
//
// For one sealed envelope: {other contexts} ∪ {altered context_hash under the sealing context} ×
// every key-set class:
//   empty    no keys (empty slice; the nil slice goes through UnlockEnvelope directly)
//   nil      only nil entries (nil interface, typed nil pointer)
//   foreign  only keys of non-recipients: unrelated Ed25519 keys, an unsupported key type, recipients of
//            other envelopes
//   shadow   key objects that REPORT a recipient's public key and hold another seed
//   below / at / above   recipients' keys by the shares they reach (subsetClasses), plus all recipients
// Each must yield exactly "err contextMismatch" (monitor, model-independent; the model is asked as well).

var c18w4Classes = []string{"empty", "nil", "foreign", "shadow", "below", "at", "above"}

func c18w4Branches() []string {
	var out []string
	for _, k := range []string{"other", "hash"} {
		for _, c := range c18w4Classes {
			out = append(out, "ctxkeys."+k+"."+c)
		}
	}
	return append(out, "ctxkeys.other.nil-slice", "ctxkeys.hash.nil-slice")
}

func (e *engine) c18KeySets(b *built, classes map[string][][]int) map[string][]int {
	nk := b.c.nkeys
	sets := map[string][]int{
		"empty":   {},
		"nil":     [][]int{{kNil}, {kTypedNil}, {kNil, kTypedNil, kNil}}[e.rng.Intn(3)],
		"foreign": [][]int{{4}, {5, 4}, {kUnsupported}, {4, kUnsupported, kNil}, {3}}[e.rng.Intn(5)],
		"shadow":  {kShadow0 + e.rng.Intn(nk)},
	}
	for _, cl := range []string{"below", "at", "above"} {
		if l := classes[cl]; len(l) > 0 {
			sets[cl] = l[e.rng.Intn(len(l))]
		}
	}
	return sets
}

func (e *engine) c18ContextKeysets(b *built, wire []byte, ctx string, payload []byte, classes map[string][][]int) {
	others := e.otherContexts(ctx)
	// two other contexts per envelope: a near one (rotating) and a random one of the list
	picks := []string{others[e.w4N%len(others)], others[e.rng.Intn(len(others))]}
	type variant struct {
		kind, gen, ctx string
		wire           []byte
		env            *envelope.Envelope
	}
	var vs []variant
	for _, c2 := range picks {
		vs = append(vs, variant{"other", "other-context", c2, wire, b.env})
	}
	// altered context_hash, unlocked under the sealing context
	alter := func(gen string, f func(h []byte) []byte) {
		t := clone(b.env)
		t.ContextHash = f(append([]byte(nil), t.ContextHash...))
		vs = append(vs, variant{"hash", gen, ctx, mustWire(t), t})
	}
	switch e.w4N % 5 {
	case 0:
		alter("ctxhash-flip", func(h []byte) []byte { h[e.rng.Intn(len(h))] ^= 1 << e.rng.Intn(8); return h })
	case 1:
		alter("ctxhash-trunc", func(h []byte) []byte { return h[:e.rng.Intn(len(h))] })
	case 2:
		alter("ctxhash-extend", func(h []byte) []byte { return append(h, byte(e.rng.Intn(256))) })
	case 3:
		alter("ctxhash-empty", func(h []byte) []byte { return nil })
	case 4:
		alter("ctxhash-of-other-context", func(h []byte) []byte { o := blake3.Sum256([]byte(picks[0])); return o[:] })
	}
	sets := e.c18KeySets(b, classes)
	for _, v := range vs {
		for _, cl := range c18w4Classes {
			sub, ok := sets[cl]
			if !ok {
				continue
			}
			gen := v.gen + "/keys-" + cl
			e.wireCase(v.wire, v.ctx, e.offerKeys(sub), payload, gen, "envelope.unlock:"+v.gen+"/keys-"+cl, true, false)
			e.rep.Branches["ctxkeys."+v.kind+"."+cl]++
		}
		// the nil slice: straight into UnlockEnvelope (the wire case always passes a non-nil slice)
		impl := unlockImpl(v.ctx, v.env.CloneVT(), nil, payload)
		mon := ""
		if impl != "err contextMismatch" {
			mon = fmt.Sprintf("different context not rejected as a context mismatch (%s, nil key slice): %s", v.gen, impl)
		}
		e.rep.Compare(fmt.Sprintf("envelope.unlock.nilkeys gen=%s ctx=%x env=%x", v.gen, v.ctx, v.wire), "err contextMismatch", impl, "ctxkeys."+v.kind+".nil-slice", "envelope.unlock:"+v.gen+"/keys-nil-slice", mon)
	}
	e.w4N++
}
