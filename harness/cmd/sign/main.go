// Command sign is the correspondence engine for C01 (signed messages) and C02 (detached signatures).
// The Lean model dictates which digest and which (key, body, signature) triple must be
// checked; the harness answers those oracle requests with the Go standard library
// (crypto/ed25519, sha256, sha1) and zeebo/blake3 directly — never with bifrost code.
package main

import (
	"bytes"
	"crypto/ed25519"
	"crypto/sha1"
	"crypto/sha256"
	"fmt"
	"strconv"
	"strings"

	"github.com/aperturerobotics/bifrost/crypto"
	"github.com/aperturerobotics/bifrost/hash"
	"github.com/aperturerobotics/bifrost/peer"
	pbl "github.com/aperturerobotics/protobuf-go-lite"
	"github.com/zeebo/blake3"

	"verif/harness/lib"
)

type engine struct {
	a   *lib.Args
	rng *lib.Rng
	m   *lib.Model
	rep *lib.Report
}

func stdSum(t int, data []byte) []byte {
	switch t {
	case 1:
		h := sha256.Sum256(data)
		return h[:]
	case 2:
		h := sha1.Sum(data)
		return h[:]
	case 3:
		h := blake3.Sum256(data)
		return h[:]
	}
	return nil
}

// oracleQuery runs the multi-phase protocol: the model asks for a digest and for a signature
// check; both are answered with stdlib primitives on exactly the inputs the model names.
// Returns the final model answer and the model-dictated verification bit (-1 if never asked).
func (e *engine) oracleQuery(op string) (string, int, string) {
	line := op
	vbit := -1
	body := ""
	for i := 0; i < 4; i++ {
		ans := e.m.Query(line)
		switch {
		case strings.HasPrefix(ans, "hash "):
			ht, _ := strconv.Atoi(lib.KV(ans, "ht"))
			data := lib.Unhex(lib.KV(ans, "data"))
			line += " hash=" + lib.Hex(stdSum(ht, data))
		case strings.HasPrefix(ans, "verify "):
			pk := lib.Unhex(lib.KV(ans, "pk"))
			b := lib.Unhex(lib.KV(ans, "body"))
			sig := lib.Unhex(lib.KV(ans, "sig"))
			body = lib.KV(ans, "body")
			ok := len(pk) == ed25519.PublicKeySize && ed25519.Verify(ed25519.PublicKey(pk), b, sig)
			vbit = 0
			if ok {
				vbit = 1
			}
			line += " vbit=" + strconv.Itoa(vbit)
		default:
			return ans, vbit, body
		}
	}
	panic("oracle protocol did not terminate: " + op)
}

type key struct {
	priv ed25519.PrivateKey
	pub  ed25519.PublicKey
	sk   crypto.PrivKey
	pk   crypto.PubKey
	id   peer.ID
}

func (e *engine) newKey() *key {
	priv := ed25519.NewKeyFromSeed(e.rng.Bytes(32))
	pub := priv.Public().(ed25519.PublicKey)
	sk, err := crypto.UnmarshalEd25519PrivateKey(priv)
	if err != nil {
		panic(err)
	}
	id, _ := peer.IDFromPublicKey(sk.GetPublic())
	return &key{priv: priv, pub: pub, sk: sk, pk: sk.GetPublic(), id: id}
}

var ctxs = []string{"bifrost/test ctx", "", "a - SIGN - b", " - SIGN - ", "x - SIGN - 3 - SIGN - ", "signaling v1", "π-context ✓"}

func coarseErr(s string) string {
	if strings.HasPrefix(s, "err") {
		return "err"
	}
	return s
}

// eavCase compares ExtractAndVerify on an in-memory message with the model.
func (e *engine) eavCase(m *peer.SignedMsg, ctx string, gen string, authentic *bool) {
	sig := m.GetSignature()
	op := fmt.Sprintf("sign.eav from=%s spk=%s ht=%d sig=%s data=%s ctx=%s",
		lib.Hex([]byte(m.GetFromPeerId())), lib.Hex(sig.GetPubKey()), int32(sig.GetHashType()), lib.Hex(sig.GetSigData()), lib.Hex(m.GetData()), lib.Hex([]byte(ctx)))
	model, vbit, _ := e.oracleQuery(op)
	var pkRaw, idRaw []byte
	impl := lib.Recover(func() string {
		pk, id, err := m.ExtractAndVerify(ctx)
		if err != nil {
			return "err"
		}
		pkRaw, _ = pk.Raw()
		idRaw = []byte(id)
		return fmt.Sprintf("ok pk=%s id=%s", lib.Hex(pkRaw), lib.Hex(idRaw))
	})
	mon := ""
	if strings.HasPrefix(impl, "panic") {
		mon = "ExtractAndVerify panics (" + gen + ")"
	}
	if strings.HasPrefix(impl, "ok") {
		// the claimed sender is a function of the verifying key (no alias encodings)
		mon = canonicalMonitor(m.GetFromPeerId(), pkRaw, idRaw, gen)
		// Model-independent monitor: accepted => stdlib verification of the prescribed body under
		// the key embedded in the claimed sender succeeds. Body recomputed here from the spec text.
		if authentic != nil && !*authentic {
			mon = "ExtractAndVerify accepted a message that is not authentic (" + gen + ")"
		}
		if vbit == 0 {
			mon = "ExtractAndVerify accepted a message whose signature does not verify under the stdlib over the prescribed body (" + gen + ")"
		}
	} else if impl == "err" && authentic != nil && *authentic {
		mon = "ExtractAndVerify rejected an authentic message (" + gen + ")"
	}
	br := "eav." + strings.ReplaceAll(strings.TrimPrefix(strings.SplitN(model, " pk=", 2)[0], "err Bifrost.Sign.EavErr."), " ", "")
	e.rep.Compare(op, coarseErr(model), impl, br, "sign.eav:"+gen, mon)
}

func tr(b bool) *bool { return &b }

func (e *engine) runC01() {
	e.rep.Notes = append(e.rep.Notes, "class small-order-key: the neutral-element Ed25519 key verifies the signature (R = neutral, S = 0) for every message under crypto/ed25519; ExtractAndVerify and the wrappers accept it, as does the model given the oracle's answer — outside SigScheme.unforge, recorded not judged")
	e.rep.Rule = "signed messages: honest (3 hash types × sizes 1..4KiB × contexts incl. ones containing the separator), every single-field tamper (data, signature bytes, sender, hash type, context), foreign signature with claimed sender, 2-field tampers, wire-level truncation / bit flips / random bytes through UnmarshalSignedMsg; alias encodings of the sender's key (11 forms) as claimed sender; stdlib-signed messages; the wrappers pubmessage.ExtractAndVerify, signaling SessionMsg.ExtractAndVerify / Validate, SessionRequest / SessionResponse.Validate on honest + 16 tampered variants each; small-order sender key (not judged); distinct = distinct op line"
	e.rep.Require("eav.ok", "eav.emptyBody", "eav.emptyPeerId", "eav.sigInvalid", "eav.badPeerId", "eav.noPubKey", "eav.notCanonical", "eav.badSignature", "wire.ok", "wire.errunmarshal", "wire.notCanonical", "wire.badSignature",
		"wrap.signaling.SessionMsg.ExtractAndVerify.ok", "wrap.signaling.SessionMsg.ExtractAndVerify.err", "wrap.signaling.SessionMsg.Validate.ok", "wrap.signaling.SessionMsg.Validate.err",
		"wrap.signaling.SessionRequest.Validate.ok", "wrap.signaling.SessionRequest.Validate.err", "wrap.signaling.SessionResponse.Validate.ok", "wrap.signaling.SessionResponse.Validate.err",
		"wrap.pubmessage.ExtractAndVerify.ok", "wrap.pubmessage.ExtractAndVerify.err")
	keys := []*key{e.newKey(), e.newKey(), e.newKey()}
	n := 40 * e.a.Scale
	for i := 0; i < n; i++ {
		k := keys[i%3]
		ht := hash.HashType(1 + i%3)
		ctx := ctxs[i%len(ctxs)]
		sz := []int{1, 2, 31, 32, 33, 100, 1000, 4096}[i%8]
		data := e.rng.Bytes(sz)
		m, err := peer.NewSignedMsg(ctx, k.sk, ht, data)
		if err != nil {
			panic(err)
		}
		e.eavCase(m, ctx, "honest", tr(true))
		// single-field tampers
		t := m.CloneVT()
		t.Data[e.rng.Intn(len(t.Data))] ^= 1 << e.rng.Intn(8)
		e.eavCase(t, ctx, "tamper-data", tr(false))
		t = m.CloneVT()
		t.Data = append(t.Data, 0)
		e.eavCase(t, ctx, "extend-data", tr(false))
		t = m.CloneVT()
		t.Signature.SigData[e.rng.Intn(len(t.Signature.SigData))] ^= 1 << e.rng.Intn(8)
		e.eavCase(t, ctx, "tamper-sig", tr(false))
		t = m.CloneVT()
		t.FromPeerId = keys[(i+1)%3].id.String()
		e.eavCase(t, ctx, "other-sender", tr(false))
		t = m.CloneVT()
		t.Signature.HashType = hash.HashType(1 + (i+1)%3)
		e.eavCase(t, ctx, "other-hashtype", tr(false))
		e.eavCase(m, ctxs[(i+1)%len(ctxs)], "other-context", tr(false))
		e.eavCase(m, ctx+" ", "context-suffix", tr(false))
		// foreign signature + claimed sender
		f, _ := peer.NewSignedMsg(ctx, keys[(i+1)%3].sk, ht, data)
		f.FromPeerId = k.id.String()
		e.eavCase(f, ctx, "foreign-signature", tr(false))
		// … and the attacker also attaches its own key to the signature (three cooperating fields)
		f2 := f.CloneVT()
		f2.Signature.PubKey, _ = crypto.MarshalPublicKey(keys[(i+1)%3].pk)
		e.eavCase(f2, ctx, "foreign-signature-with-attached-key", tr(false))
		// signature bytes extended / truncated: not what the private key produced
		t = m.CloneVT()
		t.Signature.SigData = append(t.Signature.SigData, byte(i))
		e.eavCase(t, ctx, "extend-sig", tr(false))
		t = m.CloneVT()
		t.Signature.SigData = t.Signature.SigData[:63]
		e.eavCase(t, ctx, "truncate-sig", tr(false))
		// structural
		t = m.CloneVT()
		t.Data = nil
		e.eavCase(t, ctx, "empty-data", tr(false))
		t = m.CloneVT()
		t.FromPeerId = ""
		e.eavCase(t, ctx, "empty-sender", tr(false))
		t = m.CloneVT()
		t.Signature = nil
		e.eavCase(t, ctx, "nil-signature", tr(false))
		t = m.CloneVT()
		t.Signature.SigData = nil
		e.eavCase(t, ctx, "empty-sig", tr(false))
		t = m.CloneVT()
		t.Signature.HashType = hash.HashType([]int32{0, 4, -1, 7, 2147483647}[i%5])
		e.eavCase(t, ctx, "bad-hashtype", tr(false))
		t = m.CloneVT()
		t.Signature.PubKey = e.rng.Bytes(1 + e.rng.Intn(10))
		e.eavCase(t, ctx, "garbage-embedded-key", nil)
		t = m.CloneVT()
		t.Signature.PubKey, _ = crypto.MarshalPublicKey(keys[(i+2)%3].pk)
		e.eavCase(t, ctx, "other-embedded-key", tr(true)) // embedded key is not used for verification
		t = m.CloneVT()
		t.FromPeerId = []string{"0OIl", "1", "11", "zzzz", "Qm" + strings.Repeat("a", 10), "\xff\xfe"}[i%6]
		e.eavCase(t, ctx, "bad-sender-text", tr(false))
		t = m.CloneVT()
		// sender = non-identity multihash, or identity with broken inner key
		raw := [][]byte{{0x12, 0x02, 0xaa, 0xbb}, {0x00, 0x02, 0x08, 0x01}, append([]byte{0x00, 0x24, 0x08, 0x00, 0x12, 0x20}, k.pub...), append([]byte{0x00, 0x23, 0x08, 0x01, 0x12, 0x1f}, k.pub[:31]...)}[i%4]
		t.FromPeerId = peer.ID(raw).String()
		e.eavCase(t, ctx, "sender-not-a-key", tr(false))
		// alias encodings of the victim's own key as claimed sender (same signature)
		e.aliasCases(m, k, ctx, i)
		// … and an attacker presenting its own message under an alias of its own id
		{
			an, ai := aliasIDs(keys[(i+1)%3].pub)
			f3, _ := peer.NewSignedMsg(ctx, keys[(i+1)%3].sk, ht, data)
			f3.FromPeerId = peer.ID(ai[i%len(ai)]).String()
			e.eavCase(f3, ctx, "alias-of-own-key/"+an[i%len(ai)], tr(false))
		}
		// a message signed with the standard library only (no bifrost signing code) is accepted
		e.eavCase(stdSigned(k, ctx, int(ht), data), ctx, "honest-stdlib-signed", tr(true))
		e.lowOrderCase(ctx, int(ht), data)
		// the wrappers named by the property (pubsub, signaling)
		e.wrapperCases(keys, i)

		// wire level
		wire, _ := m.MarshalVT()
		e.wireCase(wire, ctx, "wire-honest", tr(true))
		w := append([]byte(nil), wire...)
		w[e.rng.Intn(len(w))] ^= 1 << e.rng.Intn(8)
		e.wireCase(w, ctx, "wire-bitflip", nil)
		e.wireCase(wire[:e.rng.Intn(len(wire))], ctx, "wire-truncated", nil)
		e.wireCase(e.rng.Bytes(e.rng.Intn(60)), ctx, "wire-random", nil)
		// duplicated signature field (merge semantics): second occurrence overrides hash type only
		dup := append(append([]byte(nil), wire...), 0x12, 0x02, 0x10, byte(1+(i+1)%3))
		e.wireCase(dup, ctx, "wire-dup-signature", nil)
		// length-lying fields
		lie := append(append([]byte(nil), wire...), 0x1a)
		lie = pbl.AppendVarint(lie, uint64(1<<40+e.rng.Intn(5)))
		e.wireCase(lie, ctx, "wire-length-lie", nil)
	}
}

func (e *engine) wireCase(wire []byte, ctx string, gen string, authentic *bool) {
	op := fmt.Sprintf("sign.eavwire wire=%s ctx=%s", lib.Hex(wire), lib.Hex([]byte(ctx)))
	model, vbit, _ := e.oracleQuery(op)
	var pkRaw, idRaw []byte
	from := ""
	impl := lib.Recover(func() string {
		m, err := peer.UnmarshalSignedMsg(wire)
		if err != nil {
			return "err"
		}
		pk, id, err := m.ExtractAndVerify(ctx)
		if err != nil {
			return "err"
		}
		from = m.GetFromPeerId()
		pkRaw, _ = pk.Raw()
		idRaw = []byte(id)
		return fmt.Sprintf("ok pk=%s id=%s", lib.Hex(pkRaw), lib.Hex(idRaw))
	})
	mon := ""
	if strings.HasPrefix(impl, "panic") {
		mon = "signed message decoder panics (" + gen + ")"
	}
	if strings.HasPrefix(impl, "ok") {
		mon = canonicalMonitor(from, pkRaw, idRaw, gen)
		if authentic != nil && !*authentic {
			mon = "accepted a wire message that is not authentic (" + gen + ")"
		}
	}
	if strings.HasPrefix(impl, "ok") && vbit == 0 {
		mon = "accepted wire message whose signature does not verify (" + gen + ")"
	}
	if impl == "err" && authentic != nil && *authentic {
		mon = "rejected an authentic wire message"
	}
	br := "wire." + strings.ReplaceAll(strings.TrimPrefix(strings.SplitN(model, " pk=", 2)[0], "err Bifrost.Sign.EavErr."), " ", "")
	if strings.HasPrefix(br, "wire.err") && br != "wire.errunmarshal" {
		br = "wire.reject"
	}
	e.rep.Compare(op, coarseErr(model), impl, br, "sign.eavwire:"+gen, mon)
}

// ---- C02 ----

func (e *engine) vwpCase(s *peer.Signature, ctx string, pk *key, data []byte, gen string, expect *bool) {
	op := fmt.Sprintf("sign.vwp pk=%s ctx=%s ht=%d sig=%s data=%s", lib.Hex(pk.pub), lib.Hex([]byte(ctx)), int32(s.GetHashType()), lib.Hex(s.GetSigData()), lib.Hex(data))
	model, _, _ := e.oracleQuery(op)
	impl := lib.Recover(func() string {
		ok, err := s.VerifyWithPublic(ctx, pk.pk, data)
		if err != nil {
			return "err"
		}
		if ok {
			return "ok 1"
		}
		return "ok 0"
	})
	mon := ""
	if strings.HasPrefix(impl, "panic") {
		mon = "VerifyWithPublic panics (" + gen + ")"
	}
	if expect != nil {
		if *expect && impl != "ok 1" {
			mon = "signature created by the matching key over the same context/hash/data does not verify (" + gen + ")"
		}
		if !*expect && impl == "ok 1" {
			mon = "signature verifies although key, context, hash type or data differ (" + gen + ")"
		}
	}
	br := "vwp." + strings.ReplaceAll(model, " ", "")
	e.rep.Compare(op, model, impl, br, "sign.vwp:"+gen, mon)
}

func (e *engine) runC02() {
	e.rep.Rule = "detached signatures: cross-key × cross-context × cross-hash-type × data matrix over freshly created signatures; hash type sweep -2..6 and int32 max; empty/short/long signature bytes; Signature.Validate with garbage embedded keys; sign body vs model; constructors NewSignature (9 hash type values × inclPubKey, embedded key bytes) and NewSignatureWithHashedData (7 hash types × digest / short / long / empty / odd / other-algorithm digest / value smuggling the separator × inclPubKey); small-order key (not judged); distinct = distinct op line"
	e.rep.Notes = append(e.rep.Notes, "class small-order-key: the neutral-element Ed25519 key verifies (R = neutral, S = 0) for every body under crypto/ed25519; VerifyWithPublic says true, as does the model given the oracle's answer — outside SigScheme.unforge, recorded not judged")
	e.rep.Require("vwp.ok1", "vwp.ok0", "vwp.err", "validate.ok", "validate.err", "body", "newsig.ok", "newsig.err", "hashed.ok", "hashed.err")
	keys := []*key{e.newKey(), e.newKey(), e.newKey()}
	n := 25 * e.a.Scale
	for i := 0; i < n; i++ {
		k := keys[i%3]
		ht := hash.HashType(1 + i%3)
		ctx := ctxs[i%len(ctxs)]
		data := e.rng.Bytes(e.rng.Intn(300))
		s, err := peer.NewSignature(ctx, k.sk, ht, data, i%2 == 0)
		if err != nil {
			panic(err)
		}
		// the signature is an Ed25519 signature over the model's body
		h := stdSum(int(ht), data)
		opb := fmt.Sprintf("sign.body ctx=%s ht=%d h=%s", lib.Hex([]byte(ctx)), int32(ht), lib.Hex(h))
		mb := e.m.Query(opb)
		mon := ""
		if !ed25519.Verify(k.pub, lib.Unhex(strings.TrimPrefix(mb, "ok ")), s.GetSigData()) {
			mon = "NewSignature does not sign the prescribed body"
		}
		e.rep.Compare(opb, "x", "x", "body", "sign.body", mon)
		e.vwpCase(s, ctx, k, data, "same", tr(true))
		e.vwpCase(s, ctx, keys[(i+1)%3], data, "other-key", tr(false))
		e.vwpCase(s, ctxs[(i+1)%len(ctxs)], k, data, "other-context", tr(false))
		e.vwpCase(s, ctx+"x", k, data, "context-suffix", tr(false))
		if len(ctx) > 0 {
			e.vwpCase(s, ctx[:len(ctx)-1], k, data, "context-prefix", tr(false))
		}
		d2 := append(append([]byte(nil), data...), 1)
		e.vwpCase(s, ctx, k, d2, "other-data", tr(false))
		s2 := s.CloneVT()
		s2.HashType = hash.HashType(1 + (i+1)%3)
		e.vwpCase(s2, ctx, k, data, "other-hashtype", tr(false))
		// a signature over the *digest bytes as data* under another hash type must not verify either
		s3, _ := peer.NewSignature(ctx, k.sk, hash.HashType(1+(i+1)%3), data, false)
		s3.HashType = ht
		e.vwpCase(s3, ctx, k, data, "relabelled-hashtype", tr(false))
		// boundary shifting between context and the rest: ctx' = ctx + sep + itoa …
		shifted := ctx + " - SIGN - " + strconv.Itoa(int(ht))
		e.vwpCase(s, shifted, k, data, "shifted-boundary", tr(false))
		// malformed
		for _, bad := range []int32{-2, -1, 0, 4, 5, 6, 2147483647} {
			sb := s.CloneVT()
			sb.HashType = hash.HashType(bad)
			e.vwpCase(sb, ctx, k, data, "unknown-hashtype", tr(false))
			opv := fmt.Sprintf("sign.validate pk=%s ht=%d sig=%s", lib.Hex(sb.GetPubKey()), bad, lib.Hex(sb.GetSigData()))
			mv := e.m.Query(opv)
			iv := "ok"
			if sb.Validate() != nil {
				iv = "err"
			}
			monv := ""
			if iv == "ok" && bad != 0 {
				monv = "Signature.Validate accepts an unknown hash type"
			}
			e.rep.Compare(opv, mv, iv, "validate."+mv, "sign.validate", monv)
		}
		se := s.CloneVT()
		se.SigData = nil
		e.vwpCase(se, ctx, k, data, "empty-sig", tr(false))
		se = s.CloneVT()
		se.SigData = se.SigData[:e.rng.Intn(64)]
		e.vwpCase(se, ctx, k, data, "short-sig", tr(false))
		se = s.CloneVT()
		se.SigData = append(se.SigData, 0)
		e.vwpCase(se, ctx, k, data, "long-sig", tr(false))
		// Validate with embedded keys
		for j := 0; j < 4; j++ {
			sv := s.CloneVT()
			switch j {
			case 0:
				sv.PubKey = e.rng.Bytes(1 + e.rng.Intn(40))
			case 1:
				sv.PubKey, _ = crypto.MarshalPublicKey(k.pk)
			case 2:
				sv.PubKey = append([]byte{0x08, 0x01, 0x12, 0x1f}, k.pub[:31]...)
			case 3:
				sv.SigData = nil
			}
			opv := fmt.Sprintf("sign.validate pk=%s ht=%d sig=%s", lib.Hex(sv.GetPubKey()), int32(sv.GetHashType()), lib.Hex(sv.GetSigData()))
			mv := e.m.Query(opv)
			iv := lib.Recover(func() string {
				if sv.Validate() != nil {
					return "err"
				}
				return "ok"
			})
			monv := ""
			if iv == "ok" {
				if len(sv.GetSigData()) == 0 {
					monv = "Signature.Validate accepts empty signature bytes"
				}
				if len(sv.GetPubKey()) != 0 {
					if _, err := crypto.UnmarshalPublicKey(sv.GetPubKey()); err != nil {
						monv = "Signature.Validate accepts an unparsable embedded key"
					}
				}
			}
			if strings.HasPrefix(iv, "panic") {
				monv = "Signature.Validate panics"
			}
			e.rep.Compare(opv, mv, iv, "validate."+mv, "sign.validate", monv)
		}
		e.ctorCases(keys, i)
	}
	_ = bytes.Equal
}

func main() {
	a := lib.ParseArgs()
	e := &engine{a: a, rng: lib.NewRng(a.Seed), m: lib.NewModel(a.Driver)}
	e.rep = lib.NewReport("sign", a)
	switch a.Prop {
	case "C01":
		e.runC01()
	case "C02":
		e.runC02()
	default:
		fmt.Println("unknown property", a.Prop)
		return
	}
	e.m.Close()
	e.rep.Write(a.Out)
}
