// Wave 3 extensions of engine sign:
//   - class alias-sender (C01): other encodings of the victim's key as claimed sender, and the
//     model-independent statement "the claimed sender of an accepted message is THE id / text of
//     the key that verified it" on every accepted message;
//   - the observe_at wrappers of C01 (pubmessage.ExtractAndVerify, signaling SessionMsg
//     .ExtractAndVerify / Validate, SessionRequest / SessionResponse.Validate) fed messages signed
//     with crypto/ed25519 directly;
//   - the constructors of C02 (NewSignature incl. the embedded key, NewSignatureWithHashedData
//     directly, with unsupported hash types and values that are not digests);
//   - class small-order-key (recorded, not judged).
// Everything called "spec…" / "std…" below uses the standard library, zeebo/blake3 and
// mr-tron/base58 only.
package main

import (
	"bytes"
	"crypto/ed25519"
	"fmt"
	"strconv"
	"strings"

	"github.com/aperturerobotics/bifrost/crypto"
	"github.com/aperturerobotics/bifrost/hash"
	"github.com/aperturerobotics/bifrost/peer"
	"github.com/aperturerobotics/bifrost/pubsub/util/pubmessage"
	signaling_rpc "github.com/aperturerobotics/bifrost/signaling/rpc"
	timestamp "github.com/aperturerobotics/protobuf-go-lite/types/known/timestamppb"
	b58 "github.com/mr-tron/base58/base58"

	"verif/harness/lib"
)

const (
	specSep       = " - SIGN - "
	specPubCtx    = "bifrost/pubsub/pubmessage 2024-06-05T02:38:47.55258Z channel/"
	specSigCtx    = "bifrost/signaling/rpc session msg 2024-06-05T02:45:07.208906Z"
	specKeyHeader = "\x08\x01\x12\x20"
)

// specKeyProto is the one wire form of an Ed25519 public key message.
func specKeyProto(pub []byte) []byte { return append([]byte(specKeyHeader), pub...) }

// specID is the one peer id of a key: IDENTITY multihash of the key message.
func specID(pub []byte) []byte { return append([]byte{0x00, 0x24}, specKeyProto(pub)...) }

func specText(pub []byte) string { return b58.Encode(specID(pub)) }

func specBody(ctx string, ht int, digest []byte) []byte {
	return []byte(ctx + specSep + strconv.Itoa(ht) + specSep + string(digest))
}

func specLen(ht int) int {
	switch ht {
	case 1, 3:
		return 32
	case 2:
		return 20
	}
	return -1
}

// stdSigned builds a signed message without any bifrost signing code.
func stdSigned(k *key, ctx string, ht int, data []byte) *peer.SignedMsg {
	return &peer.SignedMsg{
		FromPeerId: specText(k.pub),
		Signature:  &peer.Signature{HashType: hash.HashType(ht), SigData: ed25519.Sign(k.priv, specBody(ctx, ht, stdSum(ht, data)))},
		Data:       data,
	}
}

// canonicalMonitor states the sender clause on an accepted message: the returned id is the id
// of the returned key and the claimed sender text is its base58 text.
func canonicalMonitor(from string, pkRaw []byte, id []byte, gen string) string {
	if !bytes.Equal(id, specID(pkRaw)) {
		return "accepted a message whose claimed sender is not the id of the key that verified it: returned id " + lib.Hex(id) + " for key " + lib.Hex(pkRaw) + " (" + gen + ")"
	}
	if from != specText(pkRaw) {
		return "accepted a message whose claimed sender text is not the base58 text of its key's id (" + gen + ")"
	}
	return ""
}

// aliasIDs: byte strings other than specID(pub) from which a lenient decoder recovers pub.
func aliasIDs(pub []byte) (names []string, ids [][]byte) {
	kp := specKeyProto(pub)
	add := func(n string, b []byte) { names = append(names, n); ids = append(ids, b) }
	cat := func(parts ...[]byte) []byte { return bytes.Join(parts, nil) }
	add("nonminimal-length", cat([]byte{0x00, 0xa4, 0x00}, kp))
	add("nonminimal-code", cat([]byte{0x80, 0x00, 0x24}, kp))
	add("nonminimal-code-long", cat([]byte{0x80, 0x80, 0x80, 0x00, 0x24}, kp))
	add("fields-reordered", cat([]byte{0x00, 0x24, 0x12, 0x20}, pub, []byte{0x08, 0x01}))
	add("unknown-field-after", cat([]byte{0x00, 0x26}, kp, []byte{0x18, 0x05}))
	add("unknown-field-before", cat([]byte{0x00, 0x27, 0x22, 0x01, 0xee}, kp))
	add("type-repeated", cat([]byte{0x00, 0x26, 0x08, 0x00}, kp))
	add("type-nonminimal", cat([]byte{0x00, 0x25, 0x08, 0x81, 0x00, 0x12, 0x20}, pub))
	add("type-high-bits", cat([]byte{0x00, 0x28, 0x08, 0x81, 0x80, 0x80, 0x80, 0x10, 0x12, 0x20}, pub))
	add("data-repeated", cat([]byte{0x00, 0x28, 0x08, 0x01, 0x12, 0x02, 0xaa, 0xbb, 0x12, 0x20}, pub))
	add("data-length-nonminimal", cat([]byte{0x00, 0x25, 0x08, 0x01, 0x12, 0xa0, 0x00}, pub))
	return
}

// aliasCases: the victim's honest message re-attributed to every alias of the victim's id.
func (e *engine) aliasCases(m *peer.SignedMsg, k *key, ctx string, i int) {
	names, ids := aliasIDs(k.pub)
	for j := 0; j < 3; j++ {
		x := (i*3 + j) % len(ids)
		t := m.CloneVT()
		t.FromPeerId = b58.Encode(ids[x])
		e.eavCase(t, ctx, "alias-sender/"+names[x], tr(false))
		if j == 0 {
			wire, _ := t.MarshalVT()
			e.wireCase(wire, ctx, "wire-alias-sender/"+names[x], tr(false))
		}
	}
}

// lowOrderCase: the neutral-element key verifies (R = neutral, S = 0) for every message under
// crypto/ed25519. Recorded, not judged: outside the idealised scheme of the theorems.
func (e *engine) lowOrderCase(ctx string, ht int, data []byte) {
	lo := make([]byte, 32)
	lo[0] = 1
	sig := make([]byte, 64)
	sig[0] = 1
	m := &peer.SignedMsg{FromPeerId: specText(lo), Signature: &peer.Signature{HashType: hash.HashType(ht), SigData: sig}, Data: data}
	e.eavCase(m, ctx, "small-order-key", nil)
}

// ---- wrappers ----

type wrapper struct {
	name string
	full bool // returns key and id
	run  func(m *peer.SignedMsg) (pk crypto.PubKey, id peer.ID, extra string, err error)
}

func sigWrappers() []wrapper {
	return []wrapper{
		{"signaling.SessionMsg.ExtractAndVerify", true, func(m *peer.SignedMsg) (crypto.PubKey, peer.ID, string, error) {
			pk, id, err := (&signaling_rpc.SessionMsg{SignedMsg: m, Seqno: 3}).ExtractAndVerify()
			return pk, id, "", err
		}},
		{"signaling.SessionMsg.Validate", false, func(m *peer.SignedMsg) (crypto.PubKey, peer.ID, string, error) {
			return nil, "", "", (&signaling_rpc.SessionMsg{SignedMsg: m, Seqno: 3}).Validate()
		}},
		{"signaling.SessionRequest.Validate", false, func(m *peer.SignedMsg) (crypto.PubKey, peer.ID, string, error) {
			r := &signaling_rpc.SessionRequest{SessionSeqno: 1, Body: &signaling_rpc.SessionRequest_SendMsg{SendMsg: &signaling_rpc.SessionMsg{SignedMsg: m, Seqno: 3}}}
			return nil, "", "", r.Validate()
		}},
		{"signaling.SessionResponse.Validate", false, func(m *peer.SignedMsg) (crypto.PubKey, peer.ID, string, error) {
			r := &signaling_rpc.SessionResponse{Body: &signaling_rpc.SessionResponse_RecvMsg{RecvMsg: &signaling_rpc.SessionMsg{SignedMsg: m, Seqno: 3}}}
			return nil, "", "", r.Validate()
		}},
	}
}

func pubWrappers() []wrapper {
	return []wrapper{
		{"pubmessage.ExtractAndVerify", true, func(m *peer.SignedMsg) (crypto.PubKey, peer.ID, string, error) {
			in, pk, id, err := pubmessage.ExtractAndVerify(m)
			if err != nil {
				return nil, "", "", err
			}
			return pk, id, " ch=" + lib.Hex([]byte(in.GetChannel())) + " data=" + lib.Hex(in.GetData()), nil
		}},
	}
}

// wrapCase runs one message through the wrappers of one family. ctx is the context the spec
// prescribes for this message under this family; wantExtra is what a full wrapper must report
// besides key and id.
func (e *engine) wrapCase(ws []wrapper, m *peer.SignedMsg, ctx string, gen string, authentic *bool, wantExtra string) {
	sig := m.GetSignature()
	op := fmt.Sprintf("sign.eav from=%s spk=%s ht=%d sig=%s data=%s ctx=%s",
		lib.Hex([]byte(m.GetFromPeerId())), lib.Hex(sig.GetPubKey()), int32(sig.GetHashType()), lib.Hex(sig.GetSigData()), lib.Hex(m.GetData()), lib.Hex([]byte(ctx)))
	model, vbit, _ := e.oracleQuery(op)
	model = coarseErr(model)
	for _, w := range ws {
		var pkRaw, idRaw []byte
		impl := lib.Recover(func() string {
			pk, id, extra, err := w.run(m)
			if err != nil {
				return "err"
			}
			if !w.full {
				return "ok"
			}
			pkRaw, _ = pk.Raw()
			idRaw = []byte(id)
			return fmt.Sprintf("ok pk=%s id=%s%s", lib.Hex(pkRaw), lib.Hex(idRaw), extra)
		})
		mdl := model
		if strings.HasPrefix(mdl, "ok") {
			if w.full {
				mdl += wantExtra
			} else {
				mdl = "ok"
			}
		}
		mon := ""
		switch {
		case strings.HasPrefix(impl, "panic"):
			mon = w.name + " panics (" + gen + ")"
		case strings.HasPrefix(impl, "ok"):
			if authentic != nil && !*authentic {
				mon = w.name + " accepted a message that is not authentic (" + gen + ")"
			}
			if vbit == 0 {
				mon = w.name + " accepted a message whose signature does not verify under the stdlib over the prescribed body (" + gen + ")"
			}
			if mon == "" && w.full {
				mon = canonicalMonitor(m.GetFromPeerId(), pkRaw, idRaw, w.name+" "+gen)
			}
		case impl == "err" && authentic != nil && *authentic:
			mon = w.name + " rejected an authentic message (" + gen + ")"
		}
		br := "wrap." + w.name + "." + strings.SplitN(impl, " ", 2)[0]
		e.rep.Compare(op+" via="+w.name, mdl, impl, br, "sign.wrap:"+w.name+"/"+gen, mon)
	}
}

// tamperSet: the tampered variants every wrapper family must refuse; resign(ctx2) re-signs the
// same data under another context.
func (e *engine) wrapFamily(ws []wrapper, k, other *key, ctx string, otherCtxs []string, ht int, data []byte, wantExtra string, i int) {
	m := stdSigned(k, ctx, ht, data)
	e.wrapCase(ws, m, ctx, "honest-stdlib-signed", tr(true), wantExtra)
	t := m.CloneVT()
	t.Data[e.rng.Intn(len(t.Data))] ^= 1 << e.rng.Intn(8)
	e.wrapCase(ws, t, ctx, "tamper-data", tr(false), "")
	t = m.CloneVT()
	t.Signature.SigData[e.rng.Intn(64)] ^= 1 << e.rng.Intn(8)
	e.wrapCase(ws, t, ctx, "tamper-sig", tr(false), "")
	t = m.CloneVT()
	t.FromPeerId = specText(other.pub)
	e.wrapCase(ws, t, ctx, "other-sender", tr(false), "")
	names, ids := aliasIDs(k.pub)
	t = m.CloneVT()
	t.FromPeerId = b58.Encode(ids[i%len(ids)])
	e.wrapCase(ws, t, ctx, "alias-sender/"+names[i%len(ids)], tr(false), "")
	f := stdSigned(other, ctx, ht, data)
	f.FromPeerId = specText(k.pub)
	e.wrapCase(ws, f, ctx, "foreign-signature", tr(false), "")
	for _, c2 := range otherCtxs {
		e.wrapCase(ws, stdSigned(k, c2, ht, data), ctx, "signed-for-other-context", tr(false), "")
	}
	t = m.CloneVT()
	t.Signature.HashType = hash.HashType(1 + ht%3)
	e.wrapCase(ws, t, ctx, "other-hashtype", tr(false), "")
	t = m.CloneVT()
	t.Signature.HashType = hash.HashType([]int32{0, 4, -1, 2147483647}[i%4])
	e.wrapCase(ws, t, ctx, "bad-hashtype", tr(false), "")
	t = m.CloneVT()
	t.Signature = nil
	e.wrapCase(ws, t, ctx, "nil-signature", tr(false), "")
	t = m.CloneVT()
	t.Signature.SigData = nil
	e.wrapCase(ws, t, ctx, "empty-sig", tr(false), "")
	t = m.CloneVT()
	t.FromPeerId = ""
	e.wrapCase(ws, t, ctx, "empty-sender", tr(false), "")
	// small-order sender key: recorded, not judged
	lo := make([]byte, 32)
	lo[0] = 1
	ls := make([]byte, 64)
	ls[0] = 1
	e.wrapCase(ws, &peer.SignedMsg{FromPeerId: specText(lo), Signature: &peer.Signature{HashType: hash.HashType(ht), SigData: ls}, Data: data}, ctx, "small-order-key", nil, wantExtra)
}

func (e *engine) wrapperCases(keys []*key, i int) {
	k, other := keys[i%3], keys[(i+1)%3]
	ht := 1 + i%3
	// signaling
	data := e.rng.Bytes(1 + e.rng.Intn(200))
	e.wrapFamily(sigWrappers(), k, other, specSigCtx, []string{specSigCtx + " ", specSigCtx[:len(specSigCtx)-1], specPubCtx, ""}, ht, data, "", i)
	// the real constructor's output is accepted by its own wrappers and by the stdlib
	if sm, err := signaling_rpc.NewSessionMsg(k.sk, hash.HashType(ht), data, 7); err == nil {
		e.wrapCase(sigWrappers(), sm.GetSignedMsg(), specSigCtx, "honest-constructor", tr(true), "")
	} else {
		e.rep.Compare("sign.wrap NewSessionMsg", "ok", "err", "wrap.ctor", "sign.wrap:NewSessionMsg", "NewSessionMsg failed on valid input: "+err.Error())
	}
	// an empty data message: nothing to verify
	em := stdSigned(k, specSigCtx, ht, []byte{1})
	em.Data = nil
	e.wrapCase(sigWrappers(), em, specSigCtx, "empty-data", tr(false), "")

	// pubsub
	ch := []string{"c", "chan/1", "π", " - SIGN - 1 - SIGN - ", strings.Repeat("x", 70)}[i%5]
	ch2 := ch + "2"
	payload := e.rng.Bytes(e.rng.Intn(100))
	inner := &pubmessage.PubMessageInner{Data: payload, Channel: ch}
	if i%2 == 0 {
		inner.Timestamp = &timestamp.Timestamp{Seconds: int64(1700000000 + i), Nanos: int32(i)}
	}
	ib, _ := inner.MarshalVT()
	extra := " ch=" + lib.Hex([]byte(ch)) + " data=" + lib.Hex(payload)
	e.wrapFamily(pubWrappers(), k, other, specPubCtx+ch, []string{specPubCtx + ch2, specPubCtx, specSigCtx, ch}, ht, ib, extra, i)
	// signed for channel ch, inner rewritten to name ch2 (signature kept): data changed AND context changed
	in2 := inner.CloneVT()
	in2.Channel = ch2
	ib2, _ := in2.MarshalVT()
	t := stdSigned(k, specPubCtx+ch, ht, ib)
	t.Data = ib2
	e.wrapCase(pubWrappers(), t, specPubCtx+ch2, "channel-retargeted", tr(false), "")
	if pm, _, err := pubmessage.NewPubMessage(ch, k.sk, hash.HashType(ht), payload); err == nil {
		e.wrapCase(pubWrappers(), pm, specPubCtx+ch, "honest-constructor", tr(true), extra)
	} else {
		e.rep.Compare("sign.wrap NewPubMessage", "ok", "err", "wrap.ctor", "sign.wrap:NewPubMessage", "NewPubMessage failed on valid input: "+err.Error())
	}
}

// ---- constructors (C02) ----

func describeSig(s *peer.Signature, err error, pub []byte, ctx string, ht int, digest []byte) string {
	if err != nil {
		return "err"
	}
	body := "unverifiable"
	if ed25519.Verify(pub, specBody(ctx, ht, digest), s.GetSigData()) {
		body = lib.Hex(specBody(ctx, ht, digest))
	}
	return fmt.Sprintf("ok ht=%d spk=%s body=%s", int32(s.GetHashType()), lib.Hex(s.GetPubKey()), body)
}

// ctorMonitor states the constructor clauses directly on a returned object.
func ctorMonitor(name string, s *peer.Signature, err error, k *key, ctx string, ht int, digest []byte, incl bool) string {
	if err != nil {
		if specLen(ht) == len(digest) {
			return name + " fails for a supported hash type and a digest of its length: " + err.Error()
		}
		return ""
	}
	if specLen(ht) < 0 {
		return fmt.Sprintf("%s returned a signature object with the unsupported hash type %d", name, ht)
	}
	if specLen(ht) != len(digest) {
		return fmt.Sprintf("%s signed a %d-byte value as a digest of hash type %d (digest length %d)", name, len(digest), ht, specLen(ht))
	}
	if int(s.GetHashType()) != ht {
		return fmt.Sprintf("%s returned hash type %d for requested %d", name, s.GetHashType(), ht)
	}
	if !ed25519.Verify(k.pub, specBody(ctx, ht, digest), s.GetSigData()) {
		return name + " does not sign the prescribed body"
	}
	if incl && !bytes.Equal(s.GetPubKey(), specKeyProto(k.pub)) {
		return name + "(inclPubKey=true) does not embed the signer's marshalled public key: " + lib.Hex(s.GetPubKey())
	}
	if !incl && len(s.GetPubKey()) != 0 {
		return name + "(inclPubKey=false) embeds a key"
	}
	return ""
}

func b2i(b bool) int {
	if b {
		return 1
	}
	return 0
}

func (e *engine) ctorCases(keys []*key, i int) {
	k := keys[i%3]
	ctx := ctxs[i%len(ctxs)]
	data := e.rng.Bytes(e.rng.Intn(200))
	for _, incl := range []bool{false, true} {
		// NewSignature over every hash type value of interest
		for _, ht := range []int{1, 2, 3, 0, -1, 4, 7, 2147483647, -2147483648} {
			op := fmt.Sprintf("sign.newsig ctx=%s ht=%d data=%s incl=%d pub=%s", lib.Hex([]byte(ctx)), ht, lib.Hex(data), b2i(incl), lib.Hex(k.pub))
			model, _, _ := e.oracleQuery(op)
			digest := stdSum(ht, data)
			var s *peer.Signature
			var err error
			impl := lib.Recover(func() string {
				s, err = peer.NewSignature(ctx, k.sk, hash.HashType(ht), data, incl)
				return describeSig(s, err, k.pub, ctx, ht, digest)
			})
			mon := ""
			if strings.HasPrefix(impl, "panic") {
				mon = "NewSignature panics"
			} else {
				mon = ctorMonitor("NewSignature", s, err, k, ctx, ht, digest, incl)
			}
			cls := "supported"
			if specLen(ht) < 0 {
				cls = "unsupported-hashtype"
			}
			e.rep.Compare(op, model, impl, "newsig."+strings.SplitN(model, " ", 2)[0], "sign.newsig:"+cls, mon)
			if err == nil && s != nil && specLen(ht) > 0 {
				// what the constructor made verifies, with or without embedded key, and passes Validate
				if s.Validate() != nil {
					e.rep.Compare(op+" validate", "ok", "err", "newsig.validate", "sign.newsig:validate", "Signature.Validate rejects what NewSignature created")
				}
				e.vwpCase(s, ctx, k, data, "ctor-same", tr(true))
			}
		}
		// NewSignatureWithHashedData directly
		for _, ht := range []int{1, 2, 3, 0, -1, 4, 2147483647} {
			base := stdSum(ht, data)
			if base == nil {
				base = stdSum(1, data)
			}
			smug := append([]byte("Y"+specSep+strconv.Itoa(ht)+specSep), base...)
			type hv struct {
				name string
				hd   []byte
			}
			vals := []hv{{"digest", base}, {"short", base[:len(base)-1]}, {"long", append(append([]byte(nil), base...), byte(i))}, {"empty", nil},
				{"odd", e.rng.Bytes(1 + 2*e.rng.Intn(30))}, {"smuggled-separator", smug}}
			if ht == 2 {
				vals = append(vals, hv{"sha256-under-sha1", stdSum(1, data)})
			} else {
				vals = append(vals, hv{"sha1-under-32", stdSum(2, data)})
			}
			for _, v := range vals {
				op := fmt.Sprintf("sign.hashed ctx=%s ht=%d hd=%s incl=%d pub=%s", lib.Hex([]byte(ctx)), ht, lib.Hex(v.hd), b2i(incl), lib.Hex(k.pub))
				model := e.m.Query(op)
				var s *peer.Signature
				var err error
				impl := lib.Recover(func() string {
					s, err = peer.NewSignatureWithHashedData(ctx, k.sk, hash.HashType(ht), v.hd, incl)
					return describeSig(s, err, k.pub, ctx, ht, v.hd)
				})
				mon := ""
				if strings.HasPrefix(impl, "panic") {
					mon = "NewSignatureWithHashedData panics"
				} else {
					mon = ctorMonitor("NewSignatureWithHashedData", s, err, k, ctx, ht, v.hd, incl)
				}
				if err == nil && s != nil {
					// binding, stated directly: the object made for context ctx must not verify under
					// the context that absorbs the head of the smuggled value, nor under any hash type /
					// data whose digest is not the value
					if v.name == "smuggled-separator" {
						ok, _ := s.VerifyWithPublic(ctx+specSep+strconv.Itoa(ht)+specSep+"Y", k.pk, data)
						if ok {
							mon = fmt.Sprintf("a signature NewSignatureWithHashedData created for context %q verifies under context %q", ctx, ctx+specSep+strconv.Itoa(ht)+specSep+"Y")
						}
					}
					ok, _ := s.VerifyWithPublic(ctx, k.pk, data)
					want := specLen(ht) > 0 && bytes.Equal(v.hd, stdSum(ht, data))
					if ok != want && mon == "" {
						mon = fmt.Sprintf("NewSignatureWithHashedData(%s): VerifyWithPublic over the data says %v, the value is its digest: %v", v.name, ok, want)
					}
				}
				cls := v.name
				if specLen(ht) < 0 {
					cls = "unsupported-hashtype/" + v.name
				}
				e.rep.Compare(op, model, impl, "hashed."+strings.SplitN(model, " ", 2)[0], "sign.hashed:"+cls, mon)
			}
		}
	}
	// small-order key under VerifyWithPublic: recorded, not judged
	lo := make([]byte, 32)
	lo[0] = 1
	ls := make([]byte, 64)
	ls[0] = 1
	if lpk, err := crypto.UnmarshalEd25519PublicKey(lo); err == nil {
		e.vwpCase(&peer.Signature{HashType: hash.HashType(1 + i%3), SigData: ls}, ctx, &key{pub: lo, pk: lpk}, data, "small-order-key", nil)
	}
}
