package main

import (
	"fmt"
	"sync"

	"github.com/aperturerobotics/bifrost/peer"

	"verif/harness/lib"
)

// runC13Concurrent: "always returns the same output for the same inputs" must hold when derivations
// run concurrently (shared scratch state keyed by the context — a pooled or memoised hasher, a
// reused buffer — is invisible to sequential calls). N goroutines derive, behind a barrier, with the
// SAME context and different (key, salt) pairs, and with different contexts; every result is compared
// with the value the same call returned sequentially before. Also DeriveEd25519Key.
func (e *engine) runC13Concurrent(keys []*key) {
	e.rep.Require("derive.concurrent")
	type job struct {
		k    *key
		ctx  string
		salt []byte
		n    int
		ed   bool
	}
	var jobs []job
	ctxs := []string{"bifrost/test derive v1", "bifrost/test derive v1", "bifrost/test derive v1", "other ctx", ""}
	for i := 0; i < 24; i++ {
		jobs = append(jobs, job{k: keys[i%len(keys)], ctx: ctxs[i%len(ctxs)], salt: e.rng.Bytes(e.rng.Intn(90)), n: []int{32, 32, 64, 16, 100}[i%5], ed: i%6 == 5})
	}
	run := func(j job) string {
		if j.ed {
			return deriveEd(j.k, j.ctx, j.salt)
		}
		return outcome(func() ([]byte, error) {
			out := make([]byte, j.n)
			return out, peer.DeriveKey(j.ctx, j.salt, j.k.sk, out)
		})
	}
	want := make([]string, len(jobs))
	for i, j := range jobs {
		want[i] = run(j)
	}
	rounds := 40 * e.a.Scale
	bad := ""
	var mtx sync.Mutex
	for r := 0; r < rounds && bad == ""; r++ {
		var wg sync.WaitGroup
		start := make(chan struct{})
		for i := range jobs {
			wg.Add(1)
			go func(i int) {
				defer wg.Done()
				<-start
				for rep := 0; rep < 8; rep++ {
					got := lib.Recover(func() string { return run(jobs[i]) })
					if got != want[i] {
						mtx.Lock()
						if bad == "" {
							bad = fmt.Sprintf("the same derivation (key %d, context %q, salt %s, %d bytes, ed25519=%v) returned %s when run sequentially and %s when run concurrently with %d other derivations (round %d)",
								i%len(keys), jobs[i].ctx, lib.Hex(jobs[i].salt), jobs[i].n, jobs[i].ed, lib.Trunc(want[i]), lib.Trunc(got), len(jobs)-1, r)
						}
						mtx.Unlock()
						return
					}
				}
			}(i)
		}
		close(start)
		wg.Wait()
	}
	e.rep.Compare(fmt.Sprintf("derive.concurrent jobs=%d rounds=%d", len(jobs), rounds), "deterministic", map[bool]string{true: "deterministic", false: "differs"}[bad == ""], "derive.concurrent", "encrypt.derive:concurrent", bad)
}
