// Command encrypt is the correspondence engine for C12 (public-key encryption), C13 (key
// derivation), C14 (Ed25519→X25519 conversion) and C26 (WebRTC signal codec and roles).
//
// The Lean model is a program that asks for primitive evaluations (BLAKE3 derive-key, SHA-512
// clamp, Ed25519 public key, Edwards→Montgomery, X25519, one AES block, XChaCha20-Poly1305,
// S2); the harness answers each request with the Go standard library / x-crypto / zeebo/blake3 /
// klauspost s2 / filippo edwards25519 called directly (never bifrost code) and re-sends the op
// with the answers so far. Property monitors are stated independently of the model (math/big
// curve arithmetic, round trips, inequality matrices).
package main

import (
	"crypto/aes"
	"crypto/ed25519"
	"crypto/sha512"
	"fmt"
	"strconv"
	"strings"

	"filippo.io/edwards25519"
	"github.com/aperturerobotics/bifrost/crypto"
	"github.com/aperturerobotics/bifrost/peer"
	"github.com/klauspost/compress/s2"
	"github.com/zeebo/blake3"
	"golang.org/x/crypto/chacha20poly1305"
	"golang.org/x/crypto/curve25519"

	"verif/harness/lib"
)

type engine struct {
	a    *lib.Args
	rng  *lib.Rng
	m    *lib.Model
	rep  *lib.Report
	alt  map[string]int // per-class toggle: wrapper / direct call (C12)
	note string         // appended to the next monitor verdict (which contexts were crossed)

	normHits map[string]int // per finding key: hits of the normalisation-pair monitors (c13b.go)
}

// ---- primitive oracle (stdlib / third-party, called directly) ----

func kdf(dom, in []byte, n int) []byte {
	h := blake3.NewDeriveKey(string(dom))
	_, _ = h.Write(in)
	out := make([]byte, n)
	_, _ = h.Digest().Read(out)
	return out
}

func clamp(seed []byte) []byte {
	d := sha512.Sum512(seed)
	d[0] &= 248
	d[31] &= 127
	d[31] |= 64
	return d[:]
}

func edToMont(pk []byte) []byte {
	p, err := new(edwards25519.Point).SetBytes(pk)
	if err != nil {
		return nil
	}
	return p.BytesMontgomery()
}

func x25519(scalar, point []byte) []byte {
	if len(scalar) != 32 || len(point) != 32 {
		return nil
	}
	out, err := curve25519.X25519(scalar, point)
	if err != nil {
		return nil
	}
	return out
}

func aesBlock(key, block []byte, enc bool) []byte {
	c, err := aes.NewCipher(key)
	if err != nil || len(block) < 16 {
		return nil
	}
	out := make([]byte, 16)
	if enc {
		c.Encrypt(out, block[:16])
	} else {
		c.Decrypt(out, block[:16])
	}
	return out
}

func aead(key, nonce, data, aad []byte, seal bool) ([]byte, bool) {
	c, err := chacha20poly1305.NewX(key)
	if err != nil || len(nonce) != chacha20poly1305.NonceSizeX {
		return nil, false
	}
	if seal {
		return c.Seal(nil, nonce, data, aad), true
	}
	out, err := c.Open(nil, nonce, data, aad)
	if err != nil {
		return nil, false
	}
	return out, true
}

func s2enc(m []byte) []byte { return s2.EncodeBetter(nil, m) }

type request struct {
	kind string
	kv   string
	ans  string
}

// answer computes one primitive evaluation. "!" = the primitive failed.
func answer(ask string) string {
	f := strings.SplitN(ask, " ", 3)
	kind := f[1]
	g := func(k string) []byte { return lib.Unhex(lib.KV(ask, k)) }
	some := func(b []byte, ok bool) string {
		if !ok {
			return "!"
		}
		return lib.Hex(b)
	}
	switch kind {
	case "kdf":
		n, _ := strconv.Atoi(lib.KV(ask, "n"))
		return lib.Hex(kdf(g("dom"), g("in"), n))
	case "hash":
		h := blake3.Sum256(g("in"))
		return lib.Hex(h[:])
	case "edPub":
		s := g("seed")
		if len(s) != ed25519.SeedSize {
			return "!"
		}
		return lib.Hex(ed25519.NewKeyFromSeed(s).Public().(ed25519.PublicKey))
	case "clamp":
		return lib.Hex(clamp(g("seed")))
	case "edToMont":
		u := edToMont(g("pk"))
		return some(u, u != nil)
	case "x25519":
		u := x25519(g("scalar"), g("point"))
		return some(u, u != nil)
	case "blkEnc":
		u := aesBlock(g("key"), g("block"), true)
		return some(u, u != nil)
	case "blkDec":
		u := aesBlock(g("key"), g("block"), false)
		return some(u, u != nil)
	case "seal":
		u, ok := aead(g("key"), g("nonce"), g("pt"), g("aad"), true)
		return some(u, ok)
	case "open":
		u, ok := aead(g("key"), g("nonce"), g("ct"), g("aad"), false)
		return some(u, ok)
	case "s2enc":
		return lib.Hex(s2enc(g("m")))
	case "s2dec":
		u, err := s2.Decode(nil, g("c"))
		return some(u, err == nil)
	}
	panic("unknown oracle request: " + ask)
}

// oracleQuery runs the ask/answer protocol to completion. Returns the model's final answer and
// the trace of requests.
func (e *engine) oracleQuery(op string) (string, []request) {
	var answers []string
	var trace []request
	for i := 0; i < 64; i++ {
		line := op
		if len(answers) > 0 {
			line += " ans=" + strings.Join(answers, ",")
		}
		res := e.m.Query(line)
		if !strings.HasPrefix(res, "ask ") {
			return res, trace
		}
		a := answer(res)
		f := strings.SplitN(res, " ", 3)
		trace = append(trace, request{kind: f[1], kv: res, ans: a})
		answers = append(answers, a)
	}
	panic("oracle protocol did not terminate: " + lib.Trunc(op))
}

// ---- keys ----

type key struct {
	seed []byte
	priv ed25519.PrivateKey
	pub  ed25519.PublicKey
	sk   crypto.PrivKey
	pk   crypto.PubKey
	id   peer.ID
}

func keyFromSeed(seed []byte) *key {
	priv := ed25519.NewKeyFromSeed(seed)
	return keyFromRaw(priv)
}

func keyFromRaw(priv ed25519.PrivateKey) *key {
	pub := ed25519.PublicKey(append([]byte(nil), priv[32:]...))
	sk, err := crypto.UnmarshalEd25519PrivateKey(append([]byte(nil), priv...))
	if err != nil {
		panic(err)
	}
	pk, err := crypto.UnmarshalEd25519PublicKey(pub)
	if err != nil {
		panic(err)
	}
	id, _ := peer.IDFromPublicKey(pk)
	return &key{seed: append([]byte(nil), priv[:32]...), priv: priv, pub: pub, sk: sk, pk: pk, id: id}
}

func (e *engine) newKey() *key { return keyFromSeed(e.rng.Bytes(32)) }

func outcome(f func() ([]byte, error)) string {
	r := lib.Recover(func() string {
		b, err := f()
		if err != nil {
			return "err"
		}
		return "ok " + lib.Hex(b)
	})
	if strings.HasPrefix(r, "panic") {
		return "panic"
	}
	return r
}

func branchOf(model string) string {
	if strings.HasPrefix(model, "ok") {
		return "ok"
	}
	return model
}

func clone(b []byte) []byte { return append([]byte(nil), b...) }

func main() {
	a := lib.ParseArgs()
	e := &engine{a: a, rng: lib.NewRng(a.Seed), m: lib.NewModel(a.Driver)}
	e.rep = lib.NewReport("encrypt", a)
	switch a.Prop {
	case "C12":
		e.runC12()
	case "C13":
		e.runC13()
	case "C14":
		e.runC14()
	case "C26":
		e.runC26()
	default:
		fmt.Println("unknown property", a.Prop)
		return
	}
	e.m.Close()
	e.rep.Write(a.Out)
}
