package main

import (
	"crypto/ed25519"
	"fmt"
	"strings"

	"github.com/aperturerobotics/bifrost/peer"

	"verif/harness/lib"
	"verif/harness/norm"
)

// C13 / C12 on the normalisation pairs of harness/norm: "different salts / contexts / keys give
// different outputs" evaluated on (x, N(x)) for every derivation input.

// normCmp is rep.Compare, except that after three hits with the same finding key further ones of
// that key are only counted as cases (a class is reported by its first witnesses and cannot crowd
// the other classes out of the report).
func (e *engine) normCmp(op, model, impl, branch, key, mon string) {
	if mon != "" {
		if e.normHits == nil {
			e.normHits = map[string]int{}
		}
		e.normHits[key]++
		if e.normHits[key] > 3 {
			e.rep.Case(op, model, impl, branch, true)
			return
		}
	}
	e.rep.Compare(op, model, impl, branch, key, mon)
}

func showBytes(b []byte) string {
	if len(b) > 24 {
		return fmt.Sprintf("%s… (%d bytes)", lib.Hex(b[:24]), len(b))
	}
	return fmt.Sprintf("%s (%d bytes)", lib.Hex(b), len(b))
}

// derive32 is peer.DeriveKey at 32 bytes, called directly (on an `out` pre-filled with 0xAA).
func derive32(k *key, ctx string, salt []byte) string {
	impl, _ := deriveRun(ctx, salt, k.sk, k.priv, 32, false)
	return impl
}

func deriveEd(k *key, ctx string, salt []byte) string {
	return outcome(func() ([]byte, error) {
		sk, _, err := peer.DeriveEd25519Key(ctx, salt, k.sk)
		if err != nil {
			return nil, err
		}
		return sk.Raw()
	})
}

func (e *engine) runC13Norm(keys []*key) {
	e.rep.Require("norm.salt", "norm.context", "norm.key", "norm.salt.hash-of-long", "norm.salt.truncated", "norm.salt.padded", "norm.context.folded")
	k := keys[0]
	full := e.a.Scale > 1
	modelled := map[string]bool{}
	// one model-compared evaluation per input (always in the thorough tier; in the quick tier for
	// every base and for one image per normalisation)
	modelDis := 0
	withModel := func(kk *key, ctx string, salt []byte, tag string) {
		id := tag + "|" + ctx + "|" + string(salt)
		if modelled[id] || modelDis >= 3 { // a class of disagreements is reported by its first witnesses
			return
		}
		modelled[id] = true
		before := len(e.rep.Disagreements)
		e.deriveCase(kk, ctx, salt, 32, "normalised")
		if len(e.rep.Disagreements) != before {
			modelDis++
		}
	}
	classOf := func(name string, x, y []byte) string {
		switch {
		case strings.HasPrefix(name, "truncate") || strings.HasPrefix(name, "keep-last") || (strings.HasPrefix(name, "block") && len(y) < len(x)):
			return "truncated"
		case strings.Contains(name, "pad") && !strings.Contains(name, "+pad") || strings.HasPrefix(name, "block"):
			return "padded"
		case strings.HasPrefix(name, "trim") || strings.HasPrefix(name, "cut") || strings.HasPrefix(name, "collapse") || strings.HasPrefix(name, "strip"):
			return "trimmed"
		case name == "lower" || name == "upper" || name == "ascii-lower" || strings.HasPrefix(name, "unicode") || strings.Contains(name, "utf8"):
			return "folded"
		case name == "hex" || name == "base64" || name == "base58" || name == "unhex" || name == "reverse":
			return "recoded"
		case len(x) > 64:
			return "hash-of-long"
		}
		return "hash"
	}

	// ---- salts ----
	seenN := map[string]bool{}
	for ci, ctx := range []string{"bifrost/test derive v1", ""} {
		for _, p := range norm.Pairs(norm.ByteBases(e.rng.Bytes)) {
			if ci == 1 && !full && classOf(p.Name, p.X, p.Y) != "hash-of-long" {
				continue // the empty context: the long-salt hash family only (quick tier)
			}
			a, b := derive32(k, ctx, p.X), derive32(k, ctx, p.Y)
			mon, key := "", "encrypt.derive:normalised-salt"
			switch {
			case !strings.HasPrefix(a, "ok ") || !strings.HasPrefix(b, "ok "):
				mon = fmt.Sprintf("DeriveKey fails or panics on a salt of the normalisation pair %s: %s / %s", p.Name, a, b)
			case a == b:
				mon = fmt.Sprintf("two different salts derive the same secret (same key, context %q): x = %s and %s(x) = %s", ctx, showBytes(p.X), p.Name, showBytes(p.Y))
			default:
				if ea, eb := deriveEd(k, ctx, p.X), deriveEd(k, ctx, p.Y); ea == eb || !strings.HasPrefix(ea, "ok ") {
					mon = fmt.Sprintf("two different salts derive the same Ed25519 key (context %q): x = %s and %s(x) = %s [%s]", ctx, showBytes(p.X), p.Name, showBytes(p.Y), lib.Trunc(ea))
					key = "encrypt.deriveEd:normalised-salt"
				} else if want := specDerive(k, ctx, p.Y, 32); want != nil && b != "ok "+lib.Hex(want) {
					mon = fmt.Sprintf("DeriveKey output for the salt %s(x) is not BLAKE3-derive-key(context, const ‖ salt ‖ material⊕context)", p.Name)
					key += "-spec"
				}
			}
			cls := classOf(p.Name, p.X, p.Y)
			e.rep.Branches["norm.salt."+cls]++
			e.normCmp(fmt.Sprintf("normpair salt ctx=%s N=%s x=%s y=%s", lib.Hex([]byte(ctx)), p.Name, lib.Hex(p.X), lib.Hex(p.Y)), "x", "x", "norm.salt", key, mon)
			withModel(k, ctx, p.X, "s")
			if full || !seenN[p.Name] || mon != "" {
				seenN[p.Name] = true
				withModel(k, ctx, p.Y, "s")
			}
		}
	}

	// ---- contexts ----
	ctxBases := [][]byte{}
	for _, s := range []string{"example.com 2019-12-25 16:18:03 session tokens v1", "  App Purpose v1 \n", "CTX/Upper Case", "ctx\x00\x00", "\x00ctx", "caf\u00e9 ctx v1",
		"cafe\u0301 ctx v1", "\uff53\uff41lt ctx", "path/to/ctx/", "deadbeef", "\xff\xfe ctx", strings.Repeat("long context ", 3), strings.Repeat("long context ", 6), strings.Repeat("Long Context \u00e9 ", 11), strings.Repeat("c", 300)} {
		ctxBases = append(ctxBases, []byte(s))
	}
	ctxBases = append(ctxBases, e.rng.Bytes(33), e.rng.Bytes(65), e.rng.Bytes(129))
	seenN = map[string]bool{}
	for _, salt := range [][]byte{[]byte("salt"), nil} {
		for _, p := range norm.Pairs(ctxBases) {
			if salt == nil && !full && classOf(p.Name, p.X, p.Y) != "hash-of-long" {
				continue
			}
			a, b := derive32(k, string(p.X), salt), derive32(k, string(p.Y), salt)
			mon, key := "", "encrypt.derive:normalised-context"
			switch {
			case a == "panic" || b == "panic":
				mon = fmt.Sprintf("DeriveKey panics on a context of the normalisation pair %s", p.Name)
			case len(p.Y) == 0 && a != b:
				// N(x) is the empty context: allowed, and different from x
			case !strings.HasPrefix(a, "ok ") || !strings.HasPrefix(b, "ok "):
				mon = fmt.Sprintf("DeriveKey fails on a context of the normalisation pair %s: %s / %s", p.Name, a, b)
			case a == b:
				mon = fmt.Sprintf("two different contexts derive the same secret (same key, same salt): x = %q and %s(x) = %q", lib.Trunc(string(p.X)), p.Name, lib.Trunc(string(p.Y)))
			default:
				if ea, eb := deriveEd(k, string(p.X), salt), deriveEd(k, string(p.Y), salt); ea == eb || !strings.HasPrefix(ea, "ok ") {
					mon = fmt.Sprintf("two different contexts derive the same Ed25519 key: x = %q and %s(x) = %q [%s]", lib.Trunc(string(p.X)), p.Name, lib.Trunc(string(p.Y)), lib.Trunc(ea))
					key = "encrypt.deriveEd:normalised-context"
				} else if want := specDerive(k, string(p.Y), salt, 32); want != nil && b != "ok "+lib.Hex(want) {
					mon = fmt.Sprintf("DeriveKey output for the context %s(x) is not BLAKE3-derive-key(context, const ‖ salt ‖ material⊕context)", p.Name)
					key += "-spec"
				}
			}
			e.rep.Branches["norm.context."+classOf(p.Name, p.X, p.Y)]++
			e.normCmp(fmt.Sprintf("normpair context salt=%s N=%s x=%s y=%s", lib.Hex(salt), p.Name, lib.Hex(p.X), lib.Hex(p.Y)), "x", "x", "norm.context", key, mon)
			withModel(k, string(p.X), salt, "c")
			if full || !seenN[p.Name] || mon != "" {
				seenN[p.Name] = true
				withModel(k, string(p.Y), salt, "c")
			}
		}
	}

	// ---- key material: the seed and its images ----
	for _, base := range keys {
		for _, h := range norm.HashFns {
			for _, variant := range []struct {
				name string
				seed []byte
			}{
				{h.Name + "(seed)", norm.Pad(norm.Trunc(h.F(base.seed), 32), 32, false)},
				{h.Name + "(private key)", norm.Pad(norm.Trunc(h.F(base.priv), 32), 32, false)},
				{"clamp(sha512(seed))[:32]", clamp(base.seed)[:32]},
				{"reverse(seed)", norm.Reverse(base.seed)},
			} {
				if lib.Hex(variant.seed) == lib.Hex(base.seed) {
					continue
				}
				kk := keyFromSeed(variant.seed)
				for _, ctx := range []string{"bifrost/test derive v1", ""} {
					a, b := derive32(base, ctx, []byte("salt")), derive32(kk, ctx, []byte("salt"))
					mon := ""
					switch {
					case !strings.HasPrefix(a, "ok ") || !strings.HasPrefix(b, "ok "):
						mon = "DeriveKey fails or panics for an honest Ed25519 key (" + variant.name + ")"
					case a == b:
						mon = fmt.Sprintf("two different private keys derive the same secret (context %q): seed and %s", ctx, variant.name)
					default:
						if want := specDerive(kk, ctx, []byte("salt"), 32); want != nil && b != "ok "+lib.Hex(want) {
							mon = "DeriveKey output for the key " + variant.name + " is not BLAKE3-derive-key(context, const ‖ salt ‖ material⊕context)"
						}
					}
					e.normCmp(fmt.Sprintf("normpair key ctx=%s N=%s seed=%s", lib.Hex([]byte(ctx)), variant.name, lib.Hex(base.seed)), "x", "x", "norm.key", "encrypt.derive:normalised-key", mon)
				}
				if full {
					withModel(kk, "bifrost/test derive v1", []byte("salt"), "k"+lib.Hex(variant.seed))
				}
			}
		}
		if !full {
			break
		}
	}
}

// runC12Norm: a message encrypted under the context x must not decrypt under N(x), nor the other
// way round — for the normalisation pairs of the context.
func (e *engine) runC12Norm(keys []*key) {
	e.rep.Require("norm.enc-context", "dec.via-direct:normalised-context", "dec.via-wrapper:normalised-context")
	k := keys[2]
	var bases [][]byte
	for _, s := range []string{"bifrost/test encrypt v1", "  App Purpose v1 \n", "CTX/Upper Case", "ctx\x00\x00", "caf\u00e9 ctx v1", "cafe\u0301 ctx v1", "path/to/ctx/",
		"deadbeef", "\xff\xfe ctx", strings.Repeat("long context ", 3), strings.Repeat("long context ", 6), strings.Repeat("Long Context \u00e9 ", 11)} {
		bases = append(bases, []byte(s))
	}
	bases = append(bases, e.rng.Bytes(33), e.rng.Bytes(65), e.rng.Bytes(129))
	msg := []byte("normalised context")
	seenN := map[string]bool{}
	for _, p := range norm.Pairs(bases) {
		x, y := string(p.X), string(p.Y)
		mon := lib.Recover(func() string {
			for _, d := range [][2]string{{x, y}, {y, x}} {
				ct, err := peer.EncryptToEd25519(k.pub, d[0], msg)
				if err != nil {
					return fmt.Sprintf("encryption to an honest key fails under the context %q", lib.Trunc(d[0]))
				}
				if back, err := peer.DecryptWithEd25519(ed25519.PrivateKey(k.priv), d[0], clone(ct)); err != nil || string(back) != string(msg) {
					return fmt.Sprintf("decryption with the matching key and context %q does not return the original message", lib.Trunc(d[0]))
				}
				if out, err := peer.DecryptWithEd25519(ed25519.PrivateKey(k.priv), d[1], clone(ct)); err == nil {
					return fmt.Sprintf("decryption succeeds under a different context: encrypted under %q, decrypted under %q (the two are related by %s) -> %q",
						lib.Trunc(d[0]), lib.Trunc(d[1]), p.Name, lib.Trunc(string(out)))
				}
			}
			return ""
		})
		if strings.HasPrefix(mon, "panic") {
			mon = "encryption / decryption panics on a context of the normalisation pair " + p.Name
		}
		e.normCmp(fmt.Sprintf("normpair enc-context N=%s x=%s y=%s", p.Name, lib.Hex(p.X), lib.Hex(p.Y)), "x", "x", "norm.enc-context", "encrypt.dec:normalised-context", mon)
		// against the model: one pair per normalisation (all in the thorough tier), and every pair the monitor condemns
		if e.a.Scale > 1 || !seenN[p.Name] || mon != "" {
			seenN[p.Name] = true
			if ct := e.encCase(k.pub, x, msg, "normalised-context", bptr(true)); ct != nil {
				e.note = fmt.Sprintf("[encrypted under context %q, decrypted under %s of it: %q]", lib.Trunc(x), p.Name, lib.Trunc(y))
				e.decCase(k.priv, y, ct, "normalised-context", mustErr, msg, nil)
				e.note = ""
			}
		}
	}
}
