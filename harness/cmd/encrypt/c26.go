package main

import (
	"fmt"
	"strings"

	"github.com/aperturerobotics/bifrost/peer"
	"github.com/aperturerobotics/bifrost/transport/webrtc"
	pbl "github.com/aperturerobotics/protobuf-go-lite"
	"github.com/sirupsen/logrus"

	"verif/harness/lib"
)

func showSignal(s *webrtc.WebRtcSignal) string {
	var b strings.Builder
	switch x := s.GetBody().(type) {
	case nil:
		b.WriteString("ok kind=none")
	case *webrtc.WebRtcSignal_RequestOffer:
		fmt.Fprintf(&b, "ok kind=req v=%d", x.RequestOffer)
	case *webrtc.WebRtcSignal_Sdp:
		fmt.Fprintf(&b, "ok kind=sdp tx=%d type=%s sdp=%s", x.Sdp.GetTxSeqno(), lib.Hex([]byte(x.Sdp.GetSdpType())), lib.Hex([]byte(x.Sdp.GetSdp())))
	case *webrtc.WebRtcSignal_Ice:
		fmt.Fprintf(&b, "ok kind=ice cand=%s", lib.Hex([]byte(x.Ice.GetCandidate())))
	}
	re, _ := s.MarshalVT()
	b.WriteString(" re=" + lib.Hex(re))
	return b.String()
}

func signalArgs(s *webrtc.WebRtcSignal) string {
	switch x := s.GetBody().(type) {
	case *webrtc.WebRtcSignal_RequestOffer:
		return fmt.Sprintf("kind=req v=%d unk=-", x.RequestOffer)
	case *webrtc.WebRtcSignal_Sdp:
		return fmt.Sprintf("kind=sdp tx=%d type=%s sdp=%s sunk=- unk=-", x.Sdp.GetTxSeqno(), lib.Hex([]byte(x.Sdp.GetSdpType())), lib.Hex([]byte(x.Sdp.GetSdp())))
	case *webrtc.WebRtcSignal_Ice:
		return fmt.Sprintf("kind=ice cand=%s sunk=- unk=-", lib.Hex([]byte(x.Ice.GetCandidate())))
	}
	return "kind=none unk=-"
}

func (e *engine) randSignal(i int) *webrtc.WebRtcSignal {
	u64 := func() uint64 {
		return []uint64{0, 1, 127, 128, 1 << 32, 1<<63 - 1, 1 << 63, 1<<64 - 1, uint64(e.rng.Int63())}[e.rng.Intn(9)]
	}
	switch i % 4 {
	case 0:
		return &webrtc.WebRtcSignal{Body: &webrtc.WebRtcSignal_RequestOffer{RequestOffer: u64()}}
	case 1:
		types := []string{"offer", "answer", "pranswer", "rollback", "", "\xff\xfe", "x"}
		sdp := "v=0\r\no=- 0 0 IN IP4 127.0.0.1\r\ns=-\r\n" + string(e.rng.Bytes(e.rng.Intn(2500)))
		if e.rng.Intn(5) == 0 {
			sdp = ""
		}
		return &webrtc.WebRtcSignal{Body: &webrtc.WebRtcSignal_Sdp{Sdp: &webrtc.WebRtcSdp{TxSeqno: u64(), SdpType: types[e.rng.Intn(len(types))], Sdp: sdp}}}
	case 2:
		c := `{"candidate":"candidate:1 1 udp 2130706431 10.0.0.` + fmt.Sprint(e.rng.Intn(255)) + ` 5000 typ host","sdpMid":"0","sdpMLineIndex":0}`
		if e.rng.Intn(4) == 0 {
			c = string(e.rng.Bytes(e.rng.Intn(80)))
		}
		return &webrtc.WebRtcSignal{Body: &webrtc.WebRtcSignal_Ice{Ice: &webrtc.WebRtcIce{Candidate: c}}}
	}
	if e.rng.Intn(2) == 0 {
		return &webrtc.WebRtcSignal{Body: &webrtc.WebRtcSignal_Sdp{}} // nil sub-message
	}
	return &webrtc.WebRtcSignal{}
}

// decodeCase: DecodeWebRtcSignal vs the model. want: "" = no expectation; "err" = must fail;
// otherwise the canonical text of the expected signal.
func (e *engine) decodeCase(k *key, ct []byte, gen, want string) {
	op := fmt.Sprintf("encrypt.sigDecode priv=%s ct=%s", lib.Hex(k.priv), lib.Hex(ct))
	model, _ := e.oracleQuery(op)
	impl := lib.Recover(func() string {
		s, err := webrtc.DecodeWebRtcSignal(clone(ct), k.sk)
		if err != nil {
			return "err"
		}
		return showSignal(s)
	})
	if strings.HasPrefix(impl, "panic") {
		impl = "panic"
	}
	mon := ""
	switch {
	case impl == "panic":
		mon = "DecodeWebRtcSignal panics (" + gen + ")"
	case want == "err" && impl != "err":
		mon = "a signal is decoded with the wrong key, from a non-WebRTC context or after modification (" + gen + ")"
	case want != "" && want != "err" && impl != want:
		mon = "a signal does not decode to exactly the original (" + gen + ")"
	}
	e.rep.Compare(op, model, impl, "decode."+branchOf(model), "encrypt.sigDecode:"+gen, mon)
}

func (e *engine) unmarshalCase(b []byte, gen string) {
	op := "encrypt.sigUnmarshal b=" + lib.Hex(b)
	model := e.m.Query(op)
	impl := lib.Recover(func() string {
		s := &webrtc.WebRtcSignal{}
		if err := s.UnmarshalVT(clone(b)); err != nil {
			return "err"
		}
		return showSignal(s)
	})
	mon := ""
	if strings.HasPrefix(impl, "panic") {
		impl = "panic"
		mon = "WebRtcSignal.UnmarshalVT panics (" + gen + ")"
	}
	br := "unmarshal.err"
	if strings.HasPrefix(model, "ok") {
		br = "unmarshal." + lib.KV(model, "kind")
	}
	e.rep.Compare(op, model, impl, br, "encrypt.sigUnmarshal:"+gen, mon)
}

func (e *engine) offererCase(a, b, gen string) {
	op := fmt.Sprintf("encrypt.offerer a=%s b=%s", lib.Hex([]byte(a)), lib.Hex([]byte(b)))
	model := e.m.Query(op)
	ab, ba := webrtc.VerifIsOfferer(a, b), webrtc.VerifIsOfferer(b, a)
	impl := "ok 0"
	if ab {
		impl = "ok 1"
	}
	mon := ""
	switch {
	case a != b && ab == ba:
		mon = "two distinct peers take the same role (" + gen + ")"
	case a == b && (ab || ba):
		mon = "a peer is its own offerer (" + gen + ")"
	case ab != (a < b):
		mon = "isOfferer is not the bytewise string order (" + gen + ")"
	}
	e.rep.Compare(op, model, impl, "offerer."+strings.ReplaceAll(model, " ", ""), "encrypt.offerer:"+gen, mon)
}

func (e *engine) trackerCase(le *logrus.Entry, local *key, remoteStr string, remote *key, gen string) {
	op := fmt.Sprintf("encrypt.tracker local=%s remote=%s", lib.Hex([]byte(local.id.String())), lib.Hex([]byte(remoteStr)))
	model := e.m.Query(op)
	var keyStr string
	var offerer bool
	var linkID peer.ID
	var pubRaw []byte
	impl := lib.Recover(func() string {
		k, o, id, pub := webrtc.VerifSessionTrackerFacts(le, local.id, remoteStr)
		keyStr, offerer, linkID = k, o, id
		link, ps := "!", "!"
		if id != "" {
			link = lib.Hex([]byte(id))
		}
		if pub != nil {
			pubRaw, _ = pub.Raw()
			ps = lib.Hex(pubRaw)
		}
		ob := 0
		if o {
			ob = 1
		}
		return fmt.Sprintf("ok offerer=%d link=%s pub=%s", ob, link, ps)
	})
	mon := ""
	if strings.HasPrefix(impl, "panic") {
		mon = "newSessionTracker panics (" + gen + ")"
	} else if remote != nil {
		switch {
		case keyStr != remoteStr:
			mon = "session tracker is keyed by another peer"
		case linkID.String() != remoteStr || string(linkID) != string(remote.id):
			mon = "the Quic link of a session is constrained to a peer other than the signaled one"
		case lib.Hex(pubRaw) != lib.Hex(remote.pub):
			mon = "signals of a session are encrypted to a key other than the signaled peer's"
		case offerer != (local.id.String() < remoteStr):
			mon = "session role is not isOfferer(local, remote)"
		}
		// the remote side's tracker for us takes the opposite role
		_, o2, _, _ := webrtc.VerifSessionTrackerFacts(le, remote.id, local.id.String())
		if mon == "" && local.id != remote.id && o2 == offerer {
			mon = "both ends of a session take the same role"
		}
	}
	br := "tracker.valid"
	if strings.Contains(model, "link=!") {
		br = "tracker.unparsable"
	} else if strings.Contains(model, "pub=!") {
		br = "tracker.nokey"
	}
	e.rep.Compare(op, model, impl, br, "encrypt.tracker:"+gen, mon)
}

func (e *engine) runC26() {
	e.rep.Rule = "WebRTC signaling: request_offer / sdp / ice / empty signals (boundary uint64, non-UTF-8 strings, up to 2.5 KB SDP, plus SDPs of 4 KiB / 16 KiB / 64 KiB ± {64,40,17,1,0,1,24} bytes (thorough: 1 KiB … 1 MiB)) through EncodeWebRtcSignal (ciphertext equal to the model's) and DecodeWebRtcSignal with the right key, two wrong keys, payloads encrypted under another context, the signal ciphertext decrypted under another context, bit flips, truncation, random bytes; WebRtcSignal.UnmarshalVT vs the model on valid, concatenated (oneof switching / merging), duplicated, truncated, bit-flipped, unknown-field, wrong-wire-type, length-lying and random streams; isOfferer on real peer ID pairs and adversarial strings (equal, prefix, common prefix, high bytes, empty); newSessionTracker role / link peer / signal key for both ends; on real transports with a block list: the incoming signal handler offered sessions of signaled / new / blocked / own / foreign-local peers and other signaling IDs (which tracker receives, the incomingSessions table while serving and after the resolver returned, tracker table restored), DialPeer of known / new / blocked / own / malformed peer IDs (tracker waited on, nothing left behind), DialPeer next to the link routine (returns exactly the link its session established; nothing for an impostor), GetPeerDialer under AllPeers / Dialers / block-list configurations, and the local peer / transport UUID every established link reports; distinct = distinct op line"
	e.rep.Require("encode.ok", "encode.big", "decode.ok", "decode.err", "unmarshal.err", "unmarshal.req", "unmarshal.sdp", "unmarshal.ice", "unmarshal.none", "offerer.ok1", "offerer.ok0", "tracker.valid", "tracker.unparsable", "tracker.nokey")
	le := logrus.NewEntry(logrus.New())
	keys := []*key{e.newKey(), e.newKey(), e.newKey()}
	n := 16 * e.a.Scale
	var wires [][]byte
	for i := 0; i < n; i++ {
		k := keys[i%3]
		s := e.randSignal(i)
		want := showSignal(s)
		wire, _ := s.MarshalVT()
		wires = append(wires, wire)
		// marshal vs model
		opm := "encrypt.sigMarshal " + signalArgs(s)
		e.rep.Compare(opm, e.m.Query(opm), "ok "+lib.Hex(wire), "marshal", "encrypt.sigMarshal", "")
		// encode
		op := fmt.Sprintf("encrypt.sigEncode pub=%s %s", lib.Hex(k.pub), signalArgs(s))
		model, _ := e.oracleQuery(op)
		var ct []byte
		impl := outcome(func() ([]byte, error) {
			c, err := webrtc.EncodeWebRtcSignal(s, k.pk)
			ct = c
			return c, err
		})
		mon := ""
		if !strings.HasPrefix(impl, "ok") {
			mon = "EncodeWebRtcSignal fails for an honest key"
		}
		e.rep.Compare(op, model, impl, "encode."+branchOf(model), "encrypt.sigEncode", mon)
		if ct == nil {
			continue
		}
		// a nil sub-message re-marshals as an empty one: compare through the canonical text
		e.decodeCase(k, ct, "round-trip", want)
		e.decodeCase(keys[(i+1)%3], ct, "wrong-key", "err")
		e.decodeCase(e.newKey(), ct, "wrong-key", "err")
		// payloads of another application context
		for _, other := range []string{"", "github.com/aperturerobotics/bifrost 2024-01-15 17:58:55 webrtc signalin", webrtc.SignalingCryptContext + " ", "bifrost/envelope"} {
			if oc, err := peer.EncryptToPubKey(k.pk, other, wire); err == nil {
				e.decodeCase(k, oc, "other-context-payload", "err")
			}
			mon := ""
			if out, err := peer.DecryptWithPrivKey(k.sk, other, clone(ct)); err == nil {
				mon = "a WebRTC signal payload decrypts under the non-WebRTC context " + fmt.Sprintf("%q", other) + fmt.Sprintf(" (%d bytes)", len(out))
			}
			e.rep.Compare(fmt.Sprintf("foreign-context %d %q", i, other), "x", "x", "foreign-context", "encrypt.sigDecode:foreign-context", mon)
		}
		for _, off := range []int{0, 3, 4, 20, 35, 36, len(ct) - 1, e.rng.Intn(len(ct))} {
			m := clone(ct)
			m[off] ^= 1 << e.rng.Intn(8)
			e.decodeCase(k, m, "bit-flip", "err")
		}
		e.decodeCase(k, ct[:e.rng.Intn(len(ct))], "truncated", "err")
		e.decodeCase(k, append(clone(ct), 0), "extended", "err")
		e.decodeCase(k, e.rng.Bytes(e.rng.Intn(120)), "random", "err")
		// a well-encrypted payload that is not a WebRtcSignal
		junk := e.rng.Bytes(1 + e.rng.Intn(30))
		if jc, err := peer.EncryptToPubKey(k.pk, webrtc.SignalingCryptContext, junk); err == nil {
			e.decodeCase(k, jc, "encrypted-non-signal", "")
		}
	}
	// large signals: sizes around the powers of two where size limits and buffer classes live.
	// Only the monitor-relevant part (encode succeeds, the peer decodes the same signal) plus the
	// model comparison; no mutation classes.
	bigSizes := []int{4096, 16384, 65536}
	if e.a.Tier == "thorough" {
		bigSizes = append(bigSizes, 1024, 8192, 32768, 262144, 1<<20)
	}
	for bi, base := range bigSizes {
		for _, d := range []int{-64, -40, -17, -1, 0, 1, 24} {
			k := keys[bi%3]
			sz := base + d
			sdp := string(e.rng.Bytes(sz)) // incompressible: the ciphertext is longer than the plaintext
			s := &webrtc.WebRtcSignal{Body: &webrtc.WebRtcSignal_Sdp{Sdp: &webrtc.WebRtcSdp{TxSeqno: uint64(bi + 1), SdpType: "offer", Sdp: sdp}}}
			op := fmt.Sprintf("encrypt.sigEncode pub=%s %s", lib.Hex(k.pub), signalArgs(s))
			model, _ := e.oracleQuery(op)
			var ct []byte
			impl := outcome(func() ([]byte, error) {
				c, err := webrtc.EncodeWebRtcSignal(s, k.pk)
				ct = c
				return c, err
			})
			// refusing to encode a large signal is not by itself a violation of C26 (only a model
			// difference); encoding it for a peer that then cannot decode it is
			e.rep.Compare(lib.Trunc(op), model, impl, "encode.big", "encrypt.sigEncode:big", "")
			if ct != nil {
				e.decodeCase(k, ct, "round-trip-big", showSignal(s))
			}
		}
	}
	// proto level
	for i, w := range wires {
		e.unmarshalCase(w, "valid")
		w2 := wires[(i*7+3)%len(wires)]
		e.unmarshalCase(append(clone(w), w2...), "concatenated")
		e.unmarshalCase(append(append(clone(w), w2...), w...), "concatenated")
		e.unmarshalCase(append(clone(w), w...), "duplicated")
		if len(w) > 0 {
			e.unmarshalCase(w[:e.rng.Intn(len(w))], "truncated")
			m := clone(w)
			m[e.rng.Intn(len(m))] ^= 1 << e.rng.Intn(8)
			e.unmarshalCase(m, "bit-flip")
			m = clone(w)
			m[0] ^= byte(1 + e.rng.Intn(7)) // wire type / field number
			e.unmarshalCase(m, "tag-flip")
		}
		// unknown fields: varint 4, bytes 5, fixed64 6, fixed32 7, group 8, before and after
		unk := [][]byte{{0x20, 0x05}, {0x2a, 0x02, 0xaa, 0xbb}, {0x31, 1, 2, 3, 4, 5, 6, 7, 8}, {0x3d, 1, 2, 3, 4}, {0x43, 0x08, 0x01, 0x44}, {0x43, 0x44}, {0x44}, {0x43}, {0x00}, {0x07}}
		u := unk[i%len(unk)]
		e.unmarshalCase(append(clone(u), w...), "unknown-field")
		e.unmarshalCase(append(clone(w), u...), "unknown-field")
		// nested unknown field inside sdp / ice
		inner := append([]byte{0x08, 0x07}, u...)
		nested := append([]byte{0x12}, pbl.AppendVarint(nil, uint64(len(inner)))...)
		e.unmarshalCase(append(append(nested, inner...), w...), "nested-unknown")
		nested = append([]byte{0x1a}, pbl.AppendVarint(nil, uint64(len(u)))...)
		e.unmarshalCase(append(append(clone(w), nested...), u...), "nested-unknown")
		// length lies
		e.unmarshalCase(append(clone(w), 0x12, 0xff, 0xff, 0xff, 0xff, 0xff, 0xff, 0xff, 0xff, 0xff, 0x01), "length-lie")
		e.unmarshalCase(append(clone(w), 0x1a, byte(1+e.rng.Intn(100))), "length-lie")
		e.unmarshalCase(append(clone(w), 0x08, 0xff, 0xff, 0xff, 0xff, 0xff, 0xff, 0xff, 0xff, 0xff, byte(e.rng.Intn(4))), "varint-10-bytes")
		e.unmarshalCase(e.rng.Bytes(e.rng.Intn(24)), "random")
	}
	// roles
	adversarial := [][2]string{{"", ""}, {"", "a"}, {"a", "a"}, {"a", "ab"}, {"ab", "a"}, {"abc", "abd"}, {"\xff", "\xfe\xff"}, {"a\x00", "a"}, {"12D3KooW", "12D3KooX"}, {"\x80", "\x7f"}, {"é", "e"}, {"Z", "a"}}
	for _, p := range adversarial {
		e.offererCase(p[0], p[1], "adversarial")
		e.offererCase(p[1], p[0], "adversarial")
	}
	for i := 0; i < 40*e.a.Scale; i++ {
		a, b := e.newKey(), e.newKey()
		as, bs := a.id.String(), b.id.String()
		e.offererCase(as, bs, "peer-ids")
		e.offererCase(as, as, "same-peer")
		cut := e.rng.Intn(len(as))
		e.offererCase(as[:cut], as, "prefix")
		e.offererCase(as[:cut]+string(e.rng.Bytes(1)), as, "common-prefix")
		x, y := string(e.rng.Bytes(e.rng.Intn(6))), string(e.rng.Bytes(e.rng.Intn(6)))
		e.offererCase(x, y, "random")
		e.trackerCase(le, a, bs, b, "peer-ids")
		e.trackerCase(le, b, as, a, "peer-ids")
		e.trackerCase(le, a, as, a, "self")
	}
	e.runC26Link()
	e.runC26Roles()
	for _, bad := range []string{"", "0OIl", "zzzz", "12D3KooW", "\xff\xfe", peer.ID([]byte{0x12, 0x02, 0xaa, 0xbb}).String(), peer.ID([]byte{0x00, 0x02, 0x08, 0x01}).String(), peer.ID(append([]byte{0x00, 0x23, 0x08, 0x01, 0x12, 0x1f}, keys[0].pub[:31]...)).String()} {
		e.trackerCase(le, keys[0], bad, nil, "malformed-peer-id")
	}
}
