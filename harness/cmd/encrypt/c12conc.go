package main

import (
	"bytes"
	"fmt"
	"sync"

	"github.com/aperturerobotics/bifrost/peer"

	"verif/harness/lib"
)

// runC12Concurrent: "an untouched ciphertext decrypts, with the right key and context, to exactly
// the message" (and encryption is deterministic) must hold when calls overlap. Scratch state shared
// between calls — a memoised / pooled key-derivation hasher keyed by the context, a reused cipher
// or buffer — is invisible to sequential calls. N goroutines, behind a barrier, encrypt and decrypt
// under the SAME context (and under others) with different keys and messages, large enough for the
// calls to overlap; every ciphertext is compared with the one the same call produced sequentially
// before, every decryption with the message. Through the wrappers and the direct functions.
func (e *engine) runC12Concurrent(keys []*key) {
	e.rep.Require("enc.concurrent")
	type job struct {
		k   *key
		ctx string
		msg []byte
		ct  []byte
		via bool
	}
	ctxs := []string{"bifrost/test concurrent v1", "bifrost/test concurrent v1", "bifrost/test concurrent v1", "another context", ""}
	var jobs []*job
	for i := 0; i < 16; i++ {
		n := []int{0, 33, 1000, 70000, 200000, 20000}[i%6]
		jobs = append(jobs, &job{k: keys[i%len(keys)], ctx: ctxs[i%len(ctxs)], msg: e.rng.Bytes(n), via: i%2 == 0})
	}
	enc := func(j *job) ([]byte, error) {
		if j.via {
			return peer.EncryptToPubKey(j.k.pk, j.ctx, clone(j.msg))
		}
		return peer.EncryptToEd25519(j.k.pub, j.ctx, clone(j.msg))
	}
	dec := func(j *job, ct []byte) ([]byte, error) {
		if j.via {
			return peer.DecryptWithPrivKey(j.k.sk, j.ctx, clone(ct))
		}
		return peer.DecryptWithEd25519(j.k.priv, j.ctx, clone(ct))
	}
	for i, j := range jobs {
		ct, err := enc(j)
		if err != nil {
			panic(fmt.Sprintf("sequential encrypt of job %d failed: %v", i, err))
		}
		j.ct = ct
	}
	rounds := 6 * e.a.Scale
	bad := ""
	var mtx sync.Mutex
	fail := func(s string) {
		mtx.Lock()
		if bad == "" {
			bad = s
		}
		mtx.Unlock()
	}
	for r := 0; r < rounds && bad == ""; r++ {
		var wg sync.WaitGroup
		start := make(chan struct{})
		for i := range jobs {
			wg.Add(1)
			go func(i int) {
				defer wg.Done()
				j := jobs[i]
				<-start
				for rep := 0; rep < 4; rep++ {
					out := lib.Recover(func() string {
						pt, err := dec(j, j.ct)
						if err != nil {
							return fmt.Sprintf("an untouched ciphertext (%d-byte message, context %q, wrapper=%v) was rejected with the right key and context when %d other calls ran at the same time: %v (round %d)", len(j.msg), j.ctx, j.via, len(jobs)-1, err, r)
						}
						if !bytes.Equal(pt, j.msg) {
							return fmt.Sprintf("an untouched ciphertext (%d-byte message, context %q) decrypted to OTHER bytes when %d other calls ran at the same time (round %d)", len(j.msg), j.ctx, len(jobs)-1, r)
						}
						ct, err := enc(j)
						if err != nil {
							return fmt.Sprintf("encrypting a %d-byte message under context %q failed when run concurrently: %v", len(j.msg), j.ctx, err)
						}
						if !bytes.Equal(ct, j.ct) {
							return fmt.Sprintf("the same encryption (%d-byte message, context %q) gave another ciphertext when run concurrently with %d other calls than sequentially (round %d)", len(j.msg), j.ctx, len(jobs)-1, r)
						}
						return ""
					})
					if out != "" {
						fail(out)
						return
					}
				}
			}(i)
		}
		close(start)
		wg.Wait()
	}
	e.rep.Compare(fmt.Sprintf("enc.concurrent jobs=%d rounds=%d", len(jobs), rounds), "round-trips", map[bool]string{true: "round-trips", false: "differs"}[bad == ""], "enc.concurrent", "encrypt.roundtrip:concurrent", bad)
}
