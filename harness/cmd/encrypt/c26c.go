package main

// C26, third part: role enforcement inside the running session tracker (sessionTracker.execute,
// with a real Pion PeerConnection object but no ICE traffic): a peer that claims the wrong role
// — a request_offer sent to an answerer, an offer sent to an offerer, an answer sent to an
// answerer — makes the tracker fail instead of being served.

import (
	"context"
	"fmt"
	"strings"
	"time"

	"github.com/aperturerobotics/bifrost/signaling"
	"github.com/aperturerobotics/bifrost/testbed"
	"github.com/aperturerobotics/bifrost/transport/webrtc"
	"github.com/aperturerobotics/controllerbus/bus"
	"github.com/aperturerobotics/controllerbus/controller"
	"github.com/aperturerobotics/controllerbus/directive"
	"github.com/blang/semver/v4"
	"github.com/sirupsen/logrus"

	"verif/harness/lib"
)

// signalCtrl resolves every SignalPeer directive of its signaling ID with a recording session.
type signalCtrl struct {
	opened chan *queueSession
}

func (c *signalCtrl) GetControllerInfo() *controller.Info {
	return controller.NewInfo("verif/c26/signaling", semver.MustParse("0.0.1"), "verif signaling stub")
}
func (c *signalCtrl) Execute(ctx context.Context) error { return nil }
func (c *signalCtrl) Close() error                      { return nil }
func (c *signalCtrl) HandleDirective(ctx context.Context, di directive.Instance) ([]directive.Resolver, error) {
	d, ok := di.GetDirective().(signaling.SignalPeer)
	if !ok || d.SignalingID() != c26SignalingID {
		return nil, nil
	}
	sess := &queueSession{local: d.SignalLocalPeerID(), remote: d.SignalRemotePeerID(), rx: make(chan []byte, 1)}
	select {
	case c.opened <- sess:
	default:
	}
	return directive.R(directive.NewValueResolver([]signaling.SignalPeerValue{sess}), nil)
}

// roleCase: the running tracker of `local` for `remote` receives `sig` (through the real incoming
// signal handler). Outcome: "refused" (the tracker fails with a role error) or "accepted".
func (e *engine) roleCase(ctx context.Context, b bus.Bus, sc *signalCtrl, le *logrus.Entry, local, remote *key, sig *webrtc.WebRtcSignal, gen string) {
	kind, typ := "req", ""
	if s := sig.GetSdp(); s != nil {
		kind, typ = "sdp", s.GetSdpType()
	}
	op := fmt.Sprintf("encrypt.role local=%s remote=%s kind=%s type=%s", lib.Hex([]byte(local.id.String())), lib.Hex([]byte(remote.id.String())), kind, lib.Hex([]byte(typ)))
	model := e.m.Query(op)
	localOfferer := local.id.String() < remote.id.String()
	var execErr error
	var outSess *queueSession
	impl := lib.Recover(func() string {
		rec := &linkRecorder{ch: make(chan struct{}, 8)}
		w, err := webrtc.NewWebRTC(ctx, le, b, &webrtc.Config{SignalingId: c26SignalingID}, local.sk, rec)
		if err != nil {
			return "new-err"
		}
		tk, _, _, err := webrtc.VerifAddSessionTrackerRef(w, remote.id.String())
		if err != nil {
			return "err"
		}
		ectx, cancel := context.WithCancel(ctx)
		defer cancel()
		for len(sc.opened) > 0 {
			<-sc.opened
		}
		done := make(chan error, 1)
		go func() { done <- tk.Execute(ectx) }()
		// the tracker opens its signaling session with the remote peer first
		select {
		case outSess = <-sc.opened:
		case err := <-done:
			execErr = err
			return "exited-early"
		case <-time.After(5 * time.Second):
			return "no-signaling-session"
		}
		// the signal arrives through the transport's incoming signal handler
		ct, err := webrtc.EncodeWebRtcSignal(sig, local.pk)
		if err != nil {
			return "encode-err"
		}
		in := &queueSession{local: local.id, remote: remote.id, rx: make(chan []byte, 1)}
		res, err := webrtc.NewWebRTCSignalHandler(w).HandleDirective(ectx, &dirInst{ctx: ectx, dir: signaling.NewHandleSignalPeer(c26SignalingID, in)})
		if err != nil || len(res) != 1 {
			return "no-resolver"
		}
		go func() { _ = res[0].Resolve(ectx, nil) }()
		in.rx <- ct
		select {
		case execErr = <-done:
		case <-time.After(700 * time.Millisecond):
			return "accepted" // still running: the signal was taken as legitimate
		}
		msg := ""
		if execErr != nil {
			msg = execErr.Error()
		}
		if strings.Contains(msg, "not the offerer") || strings.Contains(msg, "expected answer from remote peer") || strings.Contains(msg, "expected offer from remote peer") {
			return "refused"
		}
		return "accepted" // failed later, on the content (e.g. an unparsable SDP), not on the role
	})
	mon := ""
	wrongRole := (kind == "req" && !localOfferer) || (kind == "sdp" && typ != "" && ((localOfferer && typ != "answer") || (!localOfferer && typ != "offer")))
	switch {
	case strings.HasPrefix(impl, "panic"):
		mon = "the session tracker panics on an incoming signal"
	case wrongRole && impl == "accepted":
		role := map[bool]string{true: "offerer", false: "answerer"}[localOfferer]
		mon = fmt.Sprintf("the %s %s accepted a %s %q signal from %s: the remote claims the same role", role, local.id.String(), kind, typ, remote.id.String())
	case !wrongRole && impl == "refused":
		mon = fmt.Sprintf("a signal of the right role was refused: %v", execErr)
	}
	if outSess != nil && outSess.local != local.id || outSess != nil && outSess.remote != remote.id {
		mon = fmt.Sprintf("the tracker of %s for %s opened its signaling session as (%s → %s)", local.id.String(), remote.id.String(), outSess.local.String(), outSess.remote.String())
	}
	e.rep.Compare(op+" gen="+gen, model, impl, "role."+model, "encrypt.role:"+gen, mon)
}

func (e *engine) runC26Roles() {
	e.rep.Require("role.refused", "role.accepted")
	ctx, cancel := context.WithCancel(context.Background())
	defer cancel()
	log := logrus.New()
	log.SetLevel(logrus.PanicLevel)
	le := logrus.NewEntry(log)
	tb, err := testbed.NewTestbed(ctx, le, testbed.TestbedOpts{NoEcho: true, NoPeer: true})
	if err != nil {
		e.rep.Compare("encrypt.role testbed", "ok", "testbed: "+err.Error(), "role.refused", "encrypt.role:testbed", "")
		return
	}
	sc := &signalCtrl{opened: make(chan *queueSession, 4)}
	rel, err := tb.Bus.AddController(ctx, sc, nil)
	if err != nil {
		e.rep.Compare("encrypt.role ctrl", "ok", "controller: "+err.Error(), "role.refused", "encrypt.role:testbed", "")
		return
	}
	defer rel()
	for i := 0; i < e.a.Scale; i++ {
		x, y := e.newKey(), e.newKey()
		off, ans := x, y // off < ans: off is the offerer of the pair
		if y.id.String() < x.id.String() {
			off, ans = y, x
		}
		req := &webrtc.WebRtcSignal{Body: &webrtc.WebRtcSignal_RequestOffer{RequestOffer: 1}}
		sdp := func(t string) *webrtc.WebRtcSignal {
			return &webrtc.WebRtcSignal{Body: &webrtc.WebRtcSignal_Sdp{Sdp: &webrtc.WebRtcSdp{TxSeqno: 1, SdpType: t, Sdp: "v=0\r\n"}}}
		}
		e.roleCase(ctx, tb.Bus, sc, le, ans, off, req, "request-to-answerer")
		e.roleCase(ctx, tb.Bus, sc, le, off, ans, req, "request-to-offerer")
		e.roleCase(ctx, tb.Bus, sc, le, off, ans, sdp("offer"), "offer-to-offerer")
		e.roleCase(ctx, tb.Bus, sc, le, ans, off, sdp("answer"), "answer-to-answerer")
		e.roleCase(ctx, tb.Bus, sc, le, ans, off, sdp("offer"), "offer-to-answerer")
		e.roleCase(ctx, tb.Bus, sc, le, off, ans, sdp("answer"), "answer-to-offerer")
		e.roleCase(ctx, tb.Bus, sc, le, off, ans, sdp("rollback"), "rollback-to-offerer")
	}
}
