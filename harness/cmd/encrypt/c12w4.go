package main

import (
	"fmt"
	mrand "math/rand"

	"github.com/aperturerobotics/bifrost/peer"

	"verif/harness/lib"
)

// runC12LimitNoise (wave 4): the round trip AT and just below the documented size bound with
// INCOMPRESSIBLE data. What is sealed is s2.EncodeBetter(msg); for random bytes the s2 block is a few
// bytes LONGER than the message, so the ciphertext of such a message is longer than
// 4 + 32 + MaxEncryptedMessageSize + 16. The bound is stated on the MESSAGE (len(msg) <= 16 MiB): every
// message within it must be accepted by the sender and returned by the receiver with the matching key and
// context, whatever its compressed size — through both encrypt and both decrypt entry points. The
// at-limit class of runC12Limit uses a repeated phrase (65-byte ciphertext), which cannot see a bound that
// is (also) applied to the ciphertext / the compressed form.
//
// Three messages (kept cheap: one encryption + one decryption of 16 MiB each, plus the stdlib ciphertext):
//   noise-at     len = max            EncryptToPubKey  → DecryptWithPrivKey   (the wrappers the property names)
//   noise-below1 len = max - 1        EncryptToEd25519 → DecryptWithEd25519
//   noise-below  len = max - 2 - r    EncryptToPubKey  → DecryptWithEd25519, r < 62 from the seed
// The monitor is model-independent: encrypt must succeed, equal the documented construction computed with
// the stdlib pipeline, and decrypt (matching key, same context) must return the original bytes.
func (e *engine) runC12LimitNoise(k *key) {
	ctx := encCtxs[0]
	noise := make([]byte, specMaxMessage)
	_, _ = mrand.New(mrand.NewSource(int64(e.a.Seed)*7919 + 12)).Read(noise)
	type res struct {
		out []byte
		err error
		pan string
	}
	run := func(f func() ([]byte, error)) (r res) {
		defer func() {
			if x := recover(); x != nil {
				r.pan = fmt.Sprint(x)
			}
		}()
		r.out, r.err = f()
		return r
	}
	for _, c := range []struct {
		name       string
		n          int
		encWrapper bool
		decWrapper bool
	}{
		{"noise-at", specMaxMessage, true, true},
		{"noise-below1", specMaxMessage - 1, false, false},
		{"noise-below", specMaxMessage - 2 - e.rng.Intn(62), true, false},
	} {
		msg := noise[:c.n]
		encVia, decVia := "EncryptToEd25519", "DecryptWithEd25519"
		var enc res
		if c.encWrapper {
			encVia = "EncryptToPubKey"
			enc = run(func() ([]byte, error) { return peer.EncryptToPubKey(k.pk, ctx, msg) })
		} else {
			enc = run(func() ([]byte, error) { return peer.EncryptToEd25519(k.pub, ctx, msg) })
		}
		payload := s2enc(msg)
		crafted := e.craft(k.pub, ctx, msg, craftOpts{payload: payload})
		mon := ""
		branch := "limit." + c.name
		if len(payload) <= len(msg) {
			branch += ":not-expanding" // generator sanity: the class is about data that s2 cannot shrink
		}
		switch {
		case enc.pan != "":
			mon = fmt.Sprintf("%s panics on an incompressible %d-byte message: %s", encVia, c.n, lib.Trunc(enc.pan))
		case enc.err != nil:
			mon = fmt.Sprintf("%s refuses an incompressible message of %d bytes (documented maximum %d): %v", encVia, c.n, specMaxMessage, enc.err)
		case string(enc.out) != string(crafted):
			mon = fmt.Sprintf("%s differs from the documented construction computed with the stdlib pipeline (incompressible %d-byte message)", encVia, c.n)
		default:
			var dec res
			if c.decWrapper {
				decVia = "DecryptWithPrivKey"
				dec = run(func() ([]byte, error) { return peer.DecryptWithPrivKey(k.sk, ctx, clone(enc.out)) })
			} else {
				dec = run(func() ([]byte, error) { return peer.DecryptWithEd25519(k.priv, ctx, clone(enc.out)) })
			}
			switch {
			case dec.pan != "":
				mon = fmt.Sprintf("%s panics on the ciphertext (%d bytes) of an incompressible %d-byte message: %s", decVia, len(enc.out), c.n, lib.Trunc(dec.pan))
			case dec.err != nil:
				mon = fmt.Sprintf("round trip broken at the size bound: an incompressible message of %d bytes (documented maximum %d; s2 form %d bytes, ciphertext %d bytes) is encrypted by %s and then REFUSED by %s with the matching key and the same context: %v", c.n, specMaxMessage, len(payload), len(enc.out), encVia, decVia, dec.err)
			case string(dec.out) != string(msg):
				mon = fmt.Sprintf("%s with the matching key and context returns other bytes than the incompressible %d-byte message that %s encrypted", decVia, c.n, encVia)
			}
		}
		impl := "ok"
		if mon != "" {
			impl = "violates"
		}
		model := e.m.Query(fmt.Sprintf("encrypt.limit n=%d", c.n))
		e.rep.Compare(fmt.Sprintf("encrypt.limit n=%d ct=%d noise-seed=%d via=%s/%s", c.n, len(crafted), e.a.Seed, encVia, decVia), model, impl, branch, "encrypt.limit:"+c.name, mon)
	}
}
