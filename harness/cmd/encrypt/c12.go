package main

import (
	"crypto/ed25519"
	"encoding/binary"
	"fmt"
	"strings"

	"github.com/aperturerobotics/bifrost/crypto"
	"github.com/aperturerobotics/bifrost/peer"
	"github.com/klauspost/compress/s2"

	"verif/harness/lib"
)

// formatCtxs are context strings that contain fmt / template / path meta characters: '%' verbs that
// differ only in flags or width, "%%", a trailing '%', explicit argument indexes, braces, backslashes.
// A context must be bound as an opaque byte string: no two DIFFERENT entries may ever act as the same
// context (mutation sentinel: the context reaching a format string or a template).
var formatCtxs = []string{
	"example.com 2024-01-01 00:00:00 discount 100%d v1",
	"example.com 2024-01-01 00:00:00 discount 100%+d v1",
	"example.com 2024-01-01 00:00:00 discount 100%05d v1",
	"example.com 2024-01-01 00:00:00 discount 100% d v1",
	"example.com 2024-01-01 00:00:00 discount 100%% v1",
	"example.com 2024-01-01 00:00:00 discount 100% v1",
	"example.com 2024-01-01 00:00:00 discount 100%!d(MISSING) v1",
	"trailing percent %",
	"trailing percent %%",
	"%s", "%v", "%[1]s", "%[2]s", "%!s(MISSING)", "%!v(MISSING)",
	"{{.}}", "{{.Context}}", "$1", "\\n", "\n",
}

var encCtxs = []string{"bifrost/test encrypt v1", "", "example.com 2019-12-25 16:18:03 session tokens v1", "ctx with \x00 and \xff", "bifrost/test encrypt v2"}

// encCase: EncryptToPubKey vs the model (the encryption is deterministic, so the ciphertexts
// must be identical byte for byte). Returns the implementation's ciphertext (nil on failure).
func (e *engine) encCase(pub []byte, ctx string, msg []byte, gen string, expectOK *bool) []byte {
	op := fmt.Sprintf("encrypt.enc pub=%s ctx=%s msg=%s", lib.Hex(pub), lib.Hex([]byte(ctx)), lib.Hex(msg))
	model, _ := e.oracleQuery(op)
	var ct []byte
	// the wrapper peer.EncryptToPubKey (observe_at of the property) is alternated with the direct call
	// in every class whose recipient key can be wrapped (32 bytes)
	via := "direct"
	if len(pub) == 32 && e.alternate("enc:"+gen) {
		via = "wrapper"
	}
	impl := outcome(func() ([]byte, error) {
		if via == "wrapper" {
			pk, err := crypto.UnmarshalEd25519PublicKey(clone(pub))
			if err != nil {
				panic(err)
			}
			c, err := peer.EncryptToPubKey(pk, ctx, msg)
			ct = c
			return c, err
		}
		c, err := peer.EncryptToEd25519(ed25519.PublicKey(pub), ctx, msg)
		ct = c
		return c, err
	})
	e.rep.Branches["enc.via-"+via+":"+gen]++
	mon := ""
	switch {
	case impl == "panic":
		mon = "EncryptToEd25519 panics (" + gen + ")"
	case expectOK != nil && *expectOK && !strings.HasPrefix(impl, "ok"):
		mon = "encryption to an honest key fails (" + gen + ")"
	case expectOK != nil && !*expectOK && strings.HasPrefix(impl, "ok"):
		mon = "encryption to an unusable public key succeeds (" + gen + ")"
	}
	e.rep.Compare(op, model, impl, "enc."+branchOf(model), "encrypt.enc:"+gen, mon)
	if !strings.HasPrefix(impl, "ok") {
		return nil
	}
	return ct
}

// decCase: DecryptWithEd25519 vs the model. want: nil = no expectation beyond "no panic";
// otherwise *want == nil means "must be an error", else the exact plaintext. orig (if not nil) is
// the plaintext of the ciphertext this one was derived from: any other plaintext is a violation.
func (e *engine) decCase(priv []byte, ctx string, ct []byte, gen string, want *[]byte, orig []byte, viaPrivKey *key) string {
	op := fmt.Sprintf("encrypt.dec priv=%s ctx=%s ct=%s", lib.Hex(priv), lib.Hex([]byte(ctx)), lib.Hex(ct))
	model, tr := e.oracleQuery(op)
	// every class is run alternately through peer.DecryptWithPrivKey (the wrapper the property names)
	// and peer.DecryptWithEd25519, whenever the key bytes can be wrapped (64 bytes)
	cls := genClass(gen)
	if viaPrivKey == nil && len(priv) == 64 && e.alternate("dec:"+cls) {
		viaPrivKey = keyFromRaw(ed25519.PrivateKey(clone(priv)))
	}
	via := "direct"
	if viaPrivKey != nil {
		via = "wrapper"
	}
	e.rep.Branches["dec.via-"+via+":"+cls]++
	impl := outcome(func() ([]byte, error) {
		if viaPrivKey != nil {
			return peer.DecryptWithPrivKey(viaPrivKey.sk, ctx, clone(ct))
		}
		return peer.DecryptWithEd25519(ed25519.PrivateKey(priv), ctx, clone(ct))
	})
	if via == "wrapper" {
		gen += "/via-DecryptWithPrivKey"
	}
	mon := ""
	switch {
	case impl == "panic":
		mon = "decryption panics (" + gen + ")"
	case want != nil && *want == nil && strings.HasPrefix(impl, "ok"):
		if orig != nil && impl != "ok "+lib.Hex(orig) {
			mon = "decryption returns other plaintext (" + gen + ")"
		} else {
			mon = "decryption succeeds although key, context or ciphertext differ (" + gen + ")"
		}
	case want != nil && *want != nil && impl != "ok "+lib.Hex(*want):
		mon = "decryption with the matching key and context does not return the original message (" + gen + ")"
	case want == nil && orig != nil && strings.HasPrefix(impl, "ok") && impl != "ok "+lib.Hex(orig):
		mon = "decryption returns other plaintext (" + gen + ")"
	}
	if mon != "" && e.note != "" {
		mon += " " + e.note
	}
	// branch: how far the model got
	br := "dec." + branchOf(model)
	if model == "err" {
		last := "guard"
		if len(tr) > 0 {
			last = tr[len(tr)-1].kind
			if tr[len(tr)-1].ans == "!" {
				last += "-fails"
			}
		}
		br = "dec.err@" + last
	}
	if strings.HasPrefix(gen, "reencrypted/") && strings.HasPrefix(model, "ok") {
		br = "reencrypted"
	}
	e.rep.Compare(op, model, impl, br, "encrypt.dec:"+gen, mon)
	return impl
}

// alternate flips a per-class toggle: the first case of a class goes through the wrapper.
func (e *engine) alternate(class string) bool {
	if e.alt == nil {
		e.alt = map[string]int{}
	}
	e.alt[class]++
	return e.alt[class]%2 == 1
}

// genClass strips the per-length suffix of the random classes.
func genClass(gen string) string {
	if strings.HasPrefix(gen, "random-len-") {
		return "random-len"
	}
	return gen
}

func bptr(b bool) *bool { return &b }

var mustErr = func() *[]byte { var b []byte; return &b }()

func wantMsg(m []byte) *[]byte {
	if m == nil {
		m = []byte{}
	}
	return &m
}

// rewrap builds, from public information only (context, recipient public key, ciphertext), a
// different ciphertext with another 4-byte prefix and the message key re-wrapped accordingly.
func rewrap(pub []byte, ctx string, ct []byte, n4 []byte) []byte {
	const dom = "bifrost/peer encrypt curve25519 prefix "
	k1 := kdf([]byte(dom+ctx), append(clone(pub), ct[:4]...), 32)
	k2 := kdf([]byte(dom+ctx), append(clone(pub), n4...), 32)
	blk := aesBlock(k1, ct[4:20], false)
	out := clone(ct)
	copy(out[:4], n4)
	copy(out[4:20], aesBlock(k2, blk, true))
	return out
}

// literalS2 is the S2/Snappy block that stores msg as one uncompressed literal.
func literalS2(msg []byte) []byte {
	n := len(msg)
	if n == 0 || n > 65536 {
		return s2.Encode(nil, msg)
	}
	out := binary.AppendUvarint(nil, uint64(n))
	switch {
	case n <= 60:
		out = append(out, byte(n-1)<<2)
	case n <= 256:
		out = append(out, 60<<2, byte(n-1))
	default:
		out = append(out, 61<<2, byte(n-1), byte((n-1)>>8))
	}
	return append(out, msg...)
}

type craftOpts struct {
	seed     []byte // per-message seed (nil = derived from the message as EncryptToEd25519 does)
	flipSign bool   // use the sign-alias of the per-message public key
	payload  []byte // sealed plaintext (nil = s2.EncodeBetter(msg))
	lowOrder []byte // wrap this encoding as the message key; body is random
}

// craft re-creates an encryption of msg from first principles (stdlib pipeline), with the
// deviations in o — what someone who knows the plaintext (or chooses the message key) can build.
func (e *engine) craft(pub []byte, ctx string, msg []byte, o craftOpts) []byte {
	const dom = "bifrost/peer encrypt curve25519 "
	wrap := func(n4, mpub []byte) []byte {
		aesKey := kdf([]byte(dom+"prefix "+ctx), append(clone(pub), n4...), 32)
		out := append(clone(n4), aesBlock(aesKey, mpub[:16], true)...)
		return append(out, mpub[16:]...)
	}
	if o.lowOrder != nil {
		return append(wrap(e.rng.Bytes(4), o.lowOrder), e.rng.Bytes(16+e.rng.Intn(40))...)
	}
	seed := o.seed
	if seed == nil {
		seed = kdf([]byte(dom+ctx), append(clone(msg), pub...), 32)
	}
	mpub := clone(ed25519.NewKeyFromSeed(seed).Public().(ed25519.PublicKey))
	if o.flipSign {
		mpub[31] ^= 0x80
	}
	h := kdf([]byte(dom+"nonce "+ctx), mpub, 32)
	nonce := h[:24]
	for i := range nonce {
		nonce[i] ^= h[24+(i+2)%8]
	}
	tx := edToMont(pub)
	ss := x25519(clamp(seed)[:32], tx)
	if tx == nil || ss == nil {
		return nil
	}
	payload := o.payload
	if payload == nil {
		payload = s2enc(msg)
	}
	body, _ := aead(ss, nonce, payload, mpub, true)
	return append(wrap(nonce[:4], mpub), body...)
}

func (e *engine) runC12() {
	e.rep.Rule = "EncryptToEd25519/DecryptWithEd25519 (and the PubKey/PrivKey wrappers): messages 0..64 KiB x contexts (incl. empty, NUL, non-UTF-8) x keys, ciphertext equality with the model skeleton over an independent primitive pipeline; wrong key, wrong context, context suffix/prefix; bit flips at every region boundary, truncation at every boundary, extension, prefix re-wrap from public data, grafted prefix/body, sign-alias of the message key; random ciphertexts of every length 0..80 (x6); malformed keys and small-order / non-curve recipient keys; compressible messages of 16 KiB+ (repeated phrase), 64 KiB+ (one byte repeated, ratio > 1000) and incompressible-head / zero-middle / repeated-head mixes with the same tamper classes plus a payload sealed over another message of the same length; every honest ciphertext (large ones included) recomputed with the stdlib pipeline; the documented size bound on the real code: exactly 16 MiB round-trips through both encrypt and both decrypt paths (and is refused under another key / context / a flipped bit / truncation), 16 MiB + 1 is refused by the sender and its stdlib-built ciphertext by the receiver; INCOMPRESSIBLE (random) messages of exactly 16 MiB, 16 MiB - 1 and 16 MiB - 2 - r (r < 62): accepted, equal to the stdlib construction, and returned by the receiver through wrappers and direct functions (the s2 form and the ciphertext of such a message are LONGER than the message); distinct = distinct op line"
	e.rep.Require("enc.ok", "enc.err", "dec.ok", "dec.err@guard", "dec.err@blkDec", "dec.err@edToMont-fails", "dec.err@kdf", "dec.err@open-fails", "dec.err@edToMont", "dec.err@s2dec-fails", "reencrypted")
	// every negative class must have gone through the wrapper the property names AND the direct function
	for _, c := range []string{"wrong-key", "wrong-context", "context-suffix", "context-prefix", "bit-flip", "truncated", "extended", "shifted", "rewrapped-prefix", "grafted", "foreign-message-key", "sealed-garbage", "low-order-message-key", "random-len", "random-long", "big-bit-flip", "big-truncated", "reencrypted/sign-alias"} {
		e.rep.Require("dec.via-wrapper:"+c, "dec.via-direct:"+c)
	}
	e.rep.Require("enc.msg-compressible-16k", "enc.msg-compressible-run", "enc.msg-compressible-mixed", "dec.via-wrapper:big-sealed-other-message", "dec.via-direct:big-sealed-other-message", "limit.at", "limit.over", "limit.noise-at", "limit.noise-below1", "limit.noise-below")
	e.rep.Require("enc.via-wrapper:small-order-recipient", "enc.via-direct:small-order-recipient", "enc.via-wrapper:random-recipient", "enc.via-direct:random-recipient", "enc.via-wrapper:honest", "enc.via-direct:honest", "dec.nil-key", "enc.nil-key")
	keys := []*key{e.newKey(), e.newKey(), e.newKey()}
	sizes := []int{0, 1, 2, 15, 16, 17, 31, 32, 33, 100, 1000, 4096}
	e.runC12Concurrent(keys) // round trips under overlapping calls (c12conc.go)
	n := 17 * e.a.Scale
	for i := 0; i < n; i++ {
		k := keys[i%3]
		ctx := encCtxs[i%len(encCtxs)]
		var msg []byte
		msgClass := ""
		switch {
		case i < len(sizes):
			msg = e.rng.Bytes(sizes[i])
		case i == len(sizes):
			msg = e.rng.Bytes(65536 + e.rng.Intn(3000)) // 64 KiB+: more than one S2 block
		case i == len(sizes)+1:
			msg = []byte(strings.Repeat("compressible ", 40+e.rng.Intn(40)))
		case i == len(sizes)+2:
			// compressible and >= 16 KiB: the compressed payload is a small fraction of the message
			// (S2 copy operations, several 4 KiB-64 KiB match windows); length just above 16 KiB
			msg = []byte(strings.Repeat("compressible ", 1500))[:16384+e.rng.Intn(3000)]
			msgClass = "compressible-16k"
		case i == len(sizes)+3:
			// one byte repeated, more than one 64 KiB S2 block: ratio > 1000
			msg = make([]byte, 65537+e.rng.Intn(70000))
			for j := range msg {
				msg[j] = byte(i)
			}
			msgClass = "compressible-run"
		case i == len(sizes)+4:
			// incompressible head, compressible tail (and a repeat of the head far behind: a long-distance match)
			head := e.rng.Bytes(9000 + e.rng.Intn(2000))
			msg = append(append(clone(head), make([]byte, 20000+e.rng.Intn(20000))...), head...)
			msgClass = "compressible-mixed"
		default:
			msg = e.rng.Bytes(e.rng.Intn(3000))
		}
		big := len(msg) > 5000
		ct := e.encCase(k.pub, ctx, msg, "honest", bptr(true))
		if ct == nil {
			continue
		}
		if msgClass != "" {
			e.rep.Branches["enc.msg-"+msgClass]++
			if len(ct) > len(msg)/3+200 {
				e.rep.Notes = append(e.rep.Notes, fmt.Sprintf("message class %s: %d-byte message gave a %d-byte ciphertext (not compressible?)", msgClass, len(msg), len(ct)))
			}
		}
		// the documented construction recomputed with the stdlib pipeline — every message, the large and
		// the compressible ones included (model-independent)
		if c := e.craft(k.pub, ctx, msg, craftOpts{}); lib.Hex(c) != lib.Hex(ct) {
			e.rep.Compare(fmt.Sprintf("craft %d len=%d %s", i, len(msg), msgClass), "x", "x", "wrapper", "encrypt.enc:independent-pipeline", fmt.Sprintf("EncryptToEd25519 differs from the documented construction computed with the stdlib pipeline (%d-byte message%s)", len(msg), map[bool]string{true: ", class " + msgClass, false: ""}[msgClass != ""]))
		}
		// via the PubKey wrapper: same bytes
		w, err := peer.EncryptToPubKey(k.pk, ctx, msg)
		mon := ""
		if err != nil || lib.Hex(w) != lib.Hex(ct) {
			mon = "EncryptToPubKey differs from EncryptToEd25519 / is not deterministic"
		}
		e.rep.Compare(fmt.Sprintf("wrapper %d", i), "x", "x", "wrapper", "encrypt.enc:wrapper", mon)
		e.decCase(k.priv, ctx, ct, "round-trip", wantMsg(msg), nil, nil)
		e.decCase(k.priv, ctx, ct, "round-trip-privkey", wantMsg(msg), nil, k)
		// the caller keeps ONE ciphertext buffer: a rejected attempt (wrong key) and an earlier
		// successful decryption must not spoil a later decryption of that same ciphertext
		{
			buf := clone(ct)
			steps := ""
			mon := ""
			if _, err := peer.DecryptWithEd25519(ed25519.PrivateKey(keys[(i+1)%3].priv), ctx, buf); err == nil {
				steps += "wrong-key:ok "
			}
			for a := 1; a <= 2 && mon == ""; a++ {
				out, err := peer.DecryptWithEd25519(ed25519.PrivateKey(k.priv), ctx, buf)
				if err != nil || lib.Hex(out) != lib.Hex(msg) {
					mon = fmt.Sprintf("decryption #%d of the same ciphertext buffer (after a rejected wrong-key attempt) with the matching key and context does not return the original message (%d-byte message): %v", a, len(msg), err)
				}
			}
			e.rep.Compare(fmt.Sprintf("same-buffer %d len=%d %s", i, len(msg), steps), "x", "x", "wrapper", "encrypt.dec:same-buffer", mon)
		}
		if big {
			e.decCase(keys[(i+1)%3].priv, ctx, ct, "wrong-key", mustErr, msg, nil)
			// tampering with a 64 KiB+ message: inside the body (first, middle, a random byte), in the
			// tag, truncation by one byte and by one S2 block, extension; wrong context
			for _, off := range []int{36, len(ct) / 2, 37 + e.rng.Intn(len(ct)-54), len(ct) - 16, len(ct) - 1} {
				m := clone(ct)
				m[off] ^= 1 << e.rng.Intn(8)
				e.decCase(k.priv, ctx, m, "big-bit-flip", mustErr, msg, nil)
			}
			e.decCase(k.priv, ctx, ct[:len(ct)-1], "big-truncated", mustErr, msg, nil)
			cut := 4096
			if len(ct) < 2*cut { // a compressible message: the ciphertext is short
				cut = len(ct) / 3
			}
			e.decCase(k.priv, ctx, ct[:len(ct)-cut], "big-truncated", mustErr, msg, nil)
			if msgClass != "" {
				// a payload that declares the right length but decompresses to another message of that
				// length (sealed by someone who knows the shared secret): never other plaintext
				other := clone(msg)
				other[len(other)/2] ^= 0x55
				if c := e.craft(k.pub, ctx, msg, craftOpts{payload: s2enc(other)}); c != nil {
					e.decCase(k.priv, ctx, c, "big-sealed-other-message", mustErr, msg, nil)
				}
			}
			e.decCase(k.priv, ctx, append(clone(ct), 0), "big-extended", mustErr, msg, nil)
			e.decCase(k.priv, ctx+"x", ct, "big-wrong-context", mustErr, msg, nil)
			continue
		}
		for j := 1; j < 3; j++ {
			e.decCase(keys[(i+j)%3].priv, ctx, ct, "wrong-key", mustErr, msg, nil)
		}
		e.decCase(e.newKey().priv, ctx, ct, "wrong-key", mustErr, msg, nil)
		e.decCase(k.priv, encCtxs[(i+1)%len(encCtxs)], ct, "wrong-context", mustErr, msg, nil)
		e.decCase(k.priv, ctx+" ", ct, "context-suffix", mustErr, msg, nil)
		if len(ctx) > 0 {
			e.decCase(k.priv, ctx[:len(ctx)-1], ct, "context-prefix", mustErr, msg, nil)
		}
		// bit flips at each region boundary: nonce prefix | wrapped key block | clear key half | AEAD body | tag
		for _, off := range []int{0, 3, 4, 19, 20, 35, 36, len(ct) - 17, len(ct) - 16, len(ct) - 1, e.rng.Intn(len(ct))} {
			if off < 0 || off >= len(ct) {
				continue
			}
			m := clone(ct)
			m[off] ^= 1 << e.rng.Intn(8)
			e.decCase(k.priv, ctx, m, "bit-flip", mustErr, msg, nil)
		}
		for _, cut := range []int{0, 3, 4, 20, 33, 34, 35, 36, 37, 51, 52, len(ct) - 16, len(ct) - 1} {
			if cut >= 0 && cut < len(ct) {
				e.decCase(k.priv, ctx, ct[:cut], "truncated", mustErr, msg, nil)
			}
		}
		e.decCase(k.priv, ctx, append(clone(ct), 0), "extended", mustErr, msg, nil)
		e.decCase(k.priv, ctx, append(clone(ct), e.rng.Bytes(16)...), "extended", mustErr, msg, nil)
		e.decCase(k.priv, ctx, append([]byte{0}, ct...), "shifted", mustErr, msg, nil)
		// modification that needs no secret: other prefix bytes, message key re-wrapped
		n4 := clone(ct[:4])
		n4[e.rng.Intn(4)] ^= 1 << e.rng.Intn(8)
		e.decCase(k.priv, ctx, rewrap(k.pub, ctx, ct, n4), "rewrapped-prefix", mustErr, msg, nil)
		// grafts: prefix of one ciphertext, body of another
		msg2 := e.rng.Bytes(1 + e.rng.Intn(50))
		if ct2, err := peer.EncryptToEd25519(k.pub, ctx, msg2); err == nil {
			e.decCase(k.priv, ctx, append(clone(ct[:36]), ct2[36:]...), "grafted", mustErr, nil, nil)
			e.decCase(k.priv, ctx, append(clone(ct2[:4]), ct[4:]...), "grafted", mustErr, msg, nil)
		}
		// same plaintext re-encrypted by someone who knows it, with the sign-alias of the message key
		if c := e.craft(k.pub, ctx, msg, craftOpts{flipSign: true}); c != nil {
			e.decCase(k.priv, ctx, c, "reencrypted/sign-alias", mustErr, msg, nil)
		}
		for _, alt := range [][]byte{s2.Encode(nil, msg), s2.EncodeBest(nil, msg), literalS2(msg)} {
			if c := e.craft(k.pub, ctx, msg, craftOpts{payload: alt}); c != nil && lib.Hex(c) != lib.Hex(ct) {
				e.decCase(k.priv, ctx, c, "reencrypted/other-compression", mustErr, msg, nil)
			}
		}
		// a message key that is not derived from the message: AEAD opens, re-derivation check must reject
		if c := e.craft(k.pub, ctx, msg, craftOpts{seed: e.rng.Bytes(32)}); c != nil {
			e.decCase(k.priv, ctx, c, "foreign-message-key", mustErr, msg, nil)
		}
		if c := e.craft(k.pub, ctx, msg, craftOpts{payload: append([]byte{0xff, 0xff, 0xff, 0xff, 0xff, 0x7f}, e.rng.Bytes(5)...)}); c != nil {
			e.decCase(k.priv, ctx, c, "sealed-garbage", mustErr, msg, nil)
		}
		lo := smallOrderEncodings()
		e.decCase(k.priv, ctx, e.craft(k.pub, ctx, nil, craftOpts{lowOrder: lo[i%len(lo)]}), "low-order-message-key", mustErr, nil, nil)
		// a key whose public half does not belong to the seed
		bad := append(clone(k.priv[:32]), keys[(i+1)%3].pub...)
		e.decCase(bad, ctx, ct, "inconsistent-key", mustErr, msg, nil)
		e.decCase(bad, ctx, ct, "inconsistent-key-privkey", mustErr, msg, keyFromRaw(bad))
		e.decCase(k.priv[:63], ctx, ct, "short-key", mustErr, msg, nil)
		e.decCase(append(clone(k.priv), 0), ctx, ct, "long-key", mustErr, msg, nil)
	}
	// honest ciphertexts whose message key ends in zero bytes, cut inside the key: the zero padding of
	// the [32]byte copy restores the key, so everything up to the body slice succeeds
	for _, zeros := range []int{1, 2} {
		if zeros == 2 && e.a.Scale == 1 {
			continue
		}
		k := keys[zeros%3]
		ctx := encCtxs[zeros]
		for try := 0; try < 400000; try++ {
			msg := []byte(fmt.Sprintf("zero-tail %d %d", e.a.Seed, try))
			seed := kdf([]byte("bifrost/peer encrypt curve25519 "+ctx), append(clone(msg), k.pub...), 32)
			mpub := ed25519.NewKeyFromSeed(seed).Public().(ed25519.PublicKey)
			if mpub[31] != 0 || (zeros == 2 && mpub[30] != 0) {
				continue
			}
			if ct, err := peer.EncryptToEd25519(k.pub, ctx, msg); err == nil {
				e.decCase(k.priv, ctx, ct[:36-zeros], "truncated-inside-zero-tailed-key", mustErr, msg, nil)
				e.decCase(k.priv, ctx, ct[:36], "truncated", mustErr, msg, nil)
			}
			break
		}
	}
	// arbitrary bytes as ciphertext: every length 0..80
	for l := 0; l <= 80; l++ {
		for t := 0; t < 6*e.a.Scale; t++ {
			k := keys[(l+t)%3]
			e.decCase(k.priv, encCtxs[t%len(encCtxs)], e.rng.Bytes(l), fmt.Sprintf("random-len-%d", l), mustErr, nil, nil)
		}
	}
	for t := 0; t < 20*e.a.Scale; t++ {
		e.decCase(keys[t%3].priv, encCtxs[t%len(encCtxs)], e.rng.Bytes(81+e.rng.Intn(400)), "random-long", mustErr, nil, nil)
	}
	// context matrix over format-like contexts: a message encrypted under one context must decrypt
	// under that context and under NO other entry of the list
	{
		e.rep.Require("dec.via-wrapper:cross-context-matrix", "dec.via-direct:cross-context-matrix", "enc.via-wrapper:format-context", "enc.via-direct:format-context")
		k := keys[1]
		lim := len(formatCtxs)
		for mi, msg := range [][]byte{{}, []byte("short message"), e.rng.Bytes(200)} {
			for a := 0; a < lim; a++ {
				if mi > 0 && (a+mi)%3 != 0 && e.a.Scale == 1 {
					continue
				}
				ct := e.encCase(k.pub, formatCtxs[a], msg, "format-context", bptr(true))
				if ct == nil {
					continue
				}
				e.decCase(k.priv, formatCtxs[a], ct, "round-trip", wantMsg(msg), nil, nil)
				for b := 0; b < lim; b++ {
					if b == a || (mi > 0 && b > 8 && e.a.Scale == 1) {
						continue
					}
					e.note = fmt.Sprintf("[a %d-byte message encrypted under context %q, decrypted under the different context %q]", len(msg), formatCtxs[a], formatCtxs[b])
					e.decCase(k.priv, formatCtxs[b], ct, "cross-context-matrix", mustErr, msg, nil)
					e.note = ""
				}
			}
		}
	}
	// nil and foreign key values through the wrappers: an error, never a panic
	{
		k := keys[0]
		ct, _ := peer.EncryptToEd25519(k.pub, encCtxs[0], []byte("nil-key"))
		for _, c := range []struct {
			class string
			sk    crypto.PrivKey
			pk    crypto.PubKey
		}{
			{"nil-interface", nil, nil},
			{"nil-pointer", (*crypto.Ed25519PrivateKey)(nil), (*crypto.Ed25519PublicKey)(nil)},
			{"foreign", &stubKey{raw: clone(k.priv)}, &stubPub{raw: clone(k.pub)}},
		} {
			impl := outcome(func() ([]byte, error) { return peer.DecryptWithPrivKey(c.sk, encCtxs[0], clone(ct)) })
			mon := ""
			if impl != "err" {
				mon = "DecryptWithPrivKey with a " + c.class + " key: want an error, got " + lib.Trunc(impl)
			}
			e.rep.Compare("dec nil-key "+c.class, "err", impl, "dec.nil-key", "encrypt.dec:key-"+c.class, mon)
			impl = outcome(func() ([]byte, error) { return peer.EncryptToPubKey(c.pk, encCtxs[0], []byte("m")) })
			mon = ""
			if impl != "err" {
				mon = "EncryptToPubKey with a " + c.class + " key: want an error, got " + lib.Trunc(impl)
			}
			e.rep.Compare("enc nil-key "+c.class, "err", impl, "enc.nil-key", "encrypt.enc:key-"+c.class, mon)
		}
	}
	// unusable recipient keys
	for _, v := range smallOrderEncodings() {
		e.encCase(v, encCtxs[0], []byte("m"), "small-order-recipient", bptr(false))
		s := clone(v)
		s[31] |= 0x80
		e.encCase(s, encCtxs[0], []byte("m"), "small-order-recipient", bptr(false))
	}
	for t := 0; t < 12*e.a.Scale; t++ {
		b := e.rng.Bytes(32)
		ok := specIsPoint(b) && !specSmallOrder(b)
		e.encCase(b, encCtxs[t%len(encCtxs)], e.rng.Bytes(e.rng.Intn(40)), "random-recipient", bptr(ok))
		e.encCase(e.rng.Bytes(e.rng.Intn(70)), encCtxs[0], []byte("m"), "recipient-length", nil)
	}
	e.runC12Limit(keys[0])
	e.runC12LimitNoise(keys[1]) // wave 4: incompressible messages at / just below the bound (c12w4.go)
	e.runC12Norm(keys) // contexts related by a normalisation never decrypt each other's messages (c13b.go, harness/norm)
}

// specMaxMessage is the documented bound of EncryptToEd25519 / DecryptWithEd25519
// (peer.MaxEncryptedMessageSize): the largest message that is accepted and returned. Written here, not
// taken from /repo.
const specMaxMessage = 16 << 20

// runC12Limit: the round trip AT the documented size bound, on the real code only (a 16 MiB message
// is not sent through the model driver). Exactly 16 MiB: accepted by EncryptToEd25519 (direct and
// wrapper), equal to the documented construction, and decrypted to the original by both decrypt
// paths. One byte more: refused by the sender; a ciphertext of such a message built with the stdlib
// pipeline is refused by the receiver on both paths (never returned, never other plaintext). Messages
// are compressible (a repeated phrase), so the ciphertexts are small.
func (e *engine) runC12Limit(k *key) {
	ctx := encCtxs[0]
	phrase := []byte(fmt.Sprintf("at the limit %d ", e.a.Seed))
	base := make([]byte, specMaxMessage+1)
	for i := 0; i < len(base); i += len(phrase) {
		copy(base[i:], phrase)
	}
	type res struct {
		out []byte
		err error
		pan string
	}
	run := func(f func() ([]byte, error)) (r res) {
		defer func() {
			if x := recover(); x != nil {
				r.pan = fmt.Sprint(x)
			}
		}()
		r.out, r.err = f()
		return r
	}
	same := func(a, b []byte) bool { return len(a) == len(b) && lib.Hex(a[:64]) == lib.Hex(b[:64]) && string(a) == string(b) }
	for _, c := range []struct {
		name string
		msg  []byte
	}{{"at", base[:specMaxMessage]}, {"over", base}} {
		over := len(c.msg) > specMaxMessage
		mon := ""
		encs := []res{
			run(func() ([]byte, error) { return peer.EncryptToEd25519(k.pub, ctx, c.msg) }),
			run(func() ([]byte, error) { return peer.EncryptToPubKey(k.pk, ctx, c.msg) }),
		}
		crafted := e.craft(k.pub, ctx, c.msg, craftOpts{})
		for vi, r := range encs {
			via := []string{"EncryptToEd25519", "EncryptToPubKey"}[vi]
			switch {
			case r.pan != "":
				mon = fmt.Sprintf("%s panics on a %d-byte message: %s", via, len(c.msg), lib.Trunc(r.pan))
			case !over && r.err != nil:
				mon = fmt.Sprintf("%s refuses a message of exactly the documented maximum (%d bytes): %v", via, len(c.msg), r.err)
			case !over && string(r.out) != string(crafted):
				mon = fmt.Sprintf("%s differs from the documented construction computed with the stdlib pipeline (%d-byte message)", via, len(c.msg))
			case over && r.err == nil:
				// the sender accepted it: then the receiver must return it (C12), else the limit is one-sided
				back := run(func() ([]byte, error) { return peer.DecryptWithEd25519(k.priv, ctx, clone(r.out)) })
				if back.err != nil || !same(back.out, c.msg) {
					mon = fmt.Sprintf("%s encrypts a %d-byte message (documented maximum %d) that DecryptWithEd25519 with the matching key and context does not return: %v", via, len(c.msg), specMaxMessage, back.err)
				} else {
					mon = fmt.Sprintf("%s accepts a %d-byte message: the documented maximum is %d", via, len(c.msg), specMaxMessage)
				}
			}
			if mon != "" {
				break
			}
		}
		if mon == "" {
			// the receiving side, on the ciphertext built with the stdlib pipeline (for "at": equal to the sender's)
			for vi, f := range []func() ([]byte, error){
				func() ([]byte, error) { return peer.DecryptWithEd25519(k.priv, ctx, clone(crafted)) },
				func() ([]byte, error) { return peer.DecryptWithPrivKey(k.sk, ctx, clone(crafted)) },
			} {
				via := []string{"DecryptWithEd25519", "DecryptWithPrivKey"}[vi]
				r := run(f)
				switch {
				case r.pan != "":
					mon = fmt.Sprintf("%s panics on the ciphertext of a %d-byte message: %s", via, len(c.msg), lib.Trunc(r.pan))
				case !over && (r.err != nil || !same(r.out, c.msg)):
					mon = fmt.Sprintf("decryption (%s) with the matching key and context does not return the original message of exactly the documented maximum (%d bytes): %v", via, len(c.msg), r.err)
				case over && r.err == nil && !same(r.out, c.msg):
					mon = fmt.Sprintf("decryption (%s) returns other plaintext for the ciphertext of a %d-byte message", via, len(c.msg))
				case over && r.err == nil:
					mon = fmt.Sprintf("%s returns a %d-byte message: the documented maximum is %d (the sender refuses such a message; the receiver allocates what the ciphertext declares)", via, len(c.msg), specMaxMessage)
				}
				if mon != "" {
					break
				}
			}
		}
		if mon == "" && !over {
			// wrong key / wrong context / a flipped bit on the ciphertext of the maximal message
			other := keyFromSeed(kdf([]byte("c12 limit"), k.seed, 32))
			m := clone(crafted)
			m[len(m)/2] ^= 4
			for what, f := range map[string]func() ([]byte, error){
				"another private key":  func() ([]byte, error) { return peer.DecryptWithEd25519(other.priv, ctx, clone(crafted)) },
				"another context":      func() ([]byte, error) { return peer.DecryptWithEd25519(k.priv, ctx+"x", clone(crafted)) },
				"a flipped body bit":   func() ([]byte, error) { return peer.DecryptWithEd25519(k.priv, ctx, m) },
				"the last byte cut off": func() ([]byte, error) { return peer.DecryptWithEd25519(k.priv, ctx, crafted[:len(crafted)-1]) },
			} {
				if r := run(f); r.pan != "" || r.err == nil {
					mon = fmt.Sprintf("decryption of the maximal (%d-byte) message succeeds or panics with %s (%s)", len(c.msg), what, lib.Trunc(r.pan))
				}
			}
		}
		impl := "ok"
		if mon != "" {
			impl = "violates"
		}
		// the model's size guards (encryptL / decryptL) on this length; the implementation's side of the
		// comparison is what the sender did
		model := e.m.Query(fmt.Sprintf("encrypt.limit n=%d", len(c.msg)))
		if impl == "ok" {
			impl = map[bool]string{true: "ok", false: "refused"}[encs[0].err == nil]
		}
		e.rep.Compare(fmt.Sprintf("encrypt.limit n=%d ct=%d", len(c.msg), len(crafted)), model, impl, "limit."+c.name, "encrypt.limit:"+c.name, mon)
	}
}
