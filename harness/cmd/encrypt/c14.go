package main

import (
	"bytes"
	"crypto/ed25519"
	"crypto/sha512"
	"fmt"
	"math/big"
	"math/rand"
	"sort"
	"strings"

	"github.com/aperturerobotics/bifrost/util/extra25519"
	"golang.org/x/crypto/curve25519"

	"verif/harness/lib"
)

// ---- independent specification of edwards25519 in math/big (affine coordinates) ----

var (
	fp     = new(big.Int).Sub(new(big.Int).Lsh(big.NewInt(1), 255), big.NewInt(19))
	fd     *big.Int // -121665/121666
	fsqrt1 *big.Int // sqrt(-1)
	ordL   *big.Int // prime subgroup order
)

func init() {
	fd = new(big.Int).Mul(big.NewInt(-121665), new(big.Int).ModInverse(big.NewInt(121666), fp))
	fd.Mod(fd, fp)
	e := new(big.Int).Rsh(new(big.Int).Sub(fp, big.NewInt(1)), 2)
	fsqrt1 = new(big.Int).Exp(big.NewInt(2), e, fp)
	ordL, _ = new(big.Int).SetString("27742317777372353535851937790883648493", 10)
	ordL.Add(ordL, new(big.Int).Lsh(big.NewInt(1), 252))
	smallYs = torsionYs()
}

type pt struct{ x, y *big.Int }

func fmul(a, b *big.Int) *big.Int { return new(big.Int).Mod(new(big.Int).Mul(a, b), fp) }
func fadd(a, b *big.Int) *big.Int { return new(big.Int).Mod(new(big.Int).Add(a, b), fp) }
func fsub(a, b *big.Int) *big.Int { return new(big.Int).Mod(new(big.Int).Sub(a, b), fp) }
func finv(a *big.Int) *big.Int    { return new(big.Int).Exp(a, new(big.Int).Sub(fp, big.NewInt(2)), fp) }

// padd is the complete twisted Edwards addition law (a = -1).
func padd(a, b pt) pt {
	x1y2 := fmul(a.x, b.y)
	y1x2 := fmul(a.y, b.x)
	y1y2 := fmul(a.y, b.y)
	x1x2 := fmul(a.x, b.x)
	t := fmul(fd, fmul(x1x2, y1y2))
	x3 := fmul(fadd(x1y2, y1x2), finv(fadd(big.NewInt(1), t)))
	y3 := fmul(fadd(y1y2, x1x2), finv(fsub(big.NewInt(1), t)))
	return pt{x3, y3}
}

func pmul(k *big.Int, p pt) pt {
	r := pt{big.NewInt(0), big.NewInt(1)}
	for i := k.BitLen() - 1; i >= 0; i-- {
		r = padd(r, r)
		if k.Bit(i) == 1 {
			r = padd(r, p)
		}
	}
	return r
}

// recoverX solves -x² + y² = 1 + d x² y² for x.
func recoverX(y *big.Int) (*big.Int, bool) {
	y2 := fmul(y, y)
	u := fsub(y2, big.NewInt(1))
	v := fadd(fmul(fd, y2), big.NewInt(1))
	xx := fmul(u, finv(v))
	e := new(big.Int).Rsh(new(big.Int).Add(fp, big.NewInt(3)), 3)
	x := new(big.Int).Exp(xx, e, fp)
	if fmul(x, x).Cmp(xx) != 0 {
		x = fmul(x, fsqrt1)
	}
	if fmul(x, x).Cmp(xx) != 0 {
		return nil, false
	}
	return x, true
}

func leInt(b []byte) *big.Int {
	r := make([]byte, len(b))
	for i := range b {
		r[len(b)-1-i] = b[i]
	}
	return new(big.Int).SetBytes(r)
}

func leBytes(v *big.Int) []byte {
	be := v.FillBytes(make([]byte, 32))
	r := make([]byte, 32)
	for i := range be {
		r[31-i] = be[i]
	}
	return r
}

// yField is the 255-bit y field of the first 32 bytes (sign bit ignored), not reduced.
func yField(ge []byte) *big.Int {
	c := clone(ge[:32])
	c[31] &= 0x7f
	return leInt(c)
}

// torsionYs computes the y-coordinates of the 8 points of E[8] as [ℓ]Q for arbitrary curve
// points Q — no table involved.
func torsionYs() map[string]bool {
	r := rand.New(rand.NewSource(25519))
	pts := map[string]bool{}
	ys := map[string]bool{}
	for len(pts) < 8 {
		yb := make([]byte, 32)
		r.Read(yb)
		y := new(big.Int).Mod(leInt(yb), fp)
		x, ok := recoverX(y)
		if !ok {
			continue
		}
		if r.Intn(2) == 1 {
			x = fsub(big.NewInt(0), x)
		}
		t := pmul(ordL, pt{x, y})
		// sanity: on the curve and [8]T = identity
		t8 := pmul(big.NewInt(8), t)
		if t8.x.Sign() != 0 || t8.y.Cmp(big.NewInt(1)) != 0 {
			panic("torsion computation broken")
		}
		pts[t.x.String()+","+t.y.String()] = true
		ys[t.y.String()] = true
	}
	return ys
}

var smallYs map[string]bool

func specSmallOrder(ge []byte) bool {
	return smallYs[new(big.Int).Mod(yField(ge), fp).String()]
}

func specIsPoint(ge []byte) bool {
	_, ok := recoverX(new(big.Int).Mod(yField(ge), fp))
	return ok
}

// specMont is the birational map u = (1+y)/(1-y).
func specMont(ge []byte) []byte {
	y := new(big.Int).Mod(yField(ge), fp)
	u := fmul(fadd(big.NewInt(1), y), finv(fsub(big.NewInt(1), y)))
	return leBytes(u)
}

// smallOrderEncodings lists every 32-byte string (sign bit clear) whose y field is congruent
// to a torsion y-coordinate: the canonical ones and their aliases y+p < 2^255.
func smallOrderEncodings() [][]byte {
	var out [][]byte
	lim := new(big.Int).Lsh(big.NewInt(1), 255)
	for ys := range smallYs {
		y, _ := new(big.Int).SetString(ys, 10)
		for v := y; v.Cmp(lim) < 0; v = new(big.Int).Add(v, fp) {
			out = append(out, leBytes(v))
		}
	}
	sort.Slice(out, func(i, j int) bool { return lib.Hex(out[i]) < lib.Hex(out[j]) })
	return out
}

// inputChanged compares the argument a conversion function was given (arg, a private copy of want
// with spare capacity) with the caller's bytes: "" or the description of the modification. A public
// key whose sign bit was cleared in place is ANOTHER key (−A instead of A): the caller's peer
// identity no longer verifies its own signatures, and "compared ignoring the sign bit" turns into
// "the sign bit is erased".
func inputChanged(fn string, want, arg []byte) string {
	if !bytes.Equal(want, arg) {
		for i := range want {
			if i < len(arg) && want[i] != arg[i] {
				return fmt.Sprintf("%s modifies the caller's key bytes in place: byte %d was %#02x and is %#02x after the call", fn, i, want[i], arg[i])
			}
		}
		return fmt.Sprintf("%s changes the length of the caller's key bytes", fn)
	}
	spare := arg[len(arg):cap(arg)]
	for _, b := range spare {
		if b != 0 {
			return fn + " writes behind the end of the caller's key bytes (spare capacity)"
		}
	}
	return ""
}

func (e *engine) lowOrderCase(ge []byte, gen string) {
	op := "encrypt.lowOrder ge=" + lib.Hex(ge)
	model := e.m.Query(op)
	// the specification is evaluated on the bytes the caller passed, the real code runs on its own copy
	// (with spare capacity): a classifier that normalises its argument in place (`ge[31] &= 0x7f`)
	// changes the caller's key and is reported as such
	arg := append(make([]byte, 0, len(ge)+8), ge...)
	impl := lib.Recover(func() string {
		if extra25519.IsEdLowOrder(arg) {
			return "ok 1"
		}
		return "ok 0"
	})
	if strings.HasPrefix(impl, "panic") {
		impl = "panic"
	}
	mon := ""
	if d := inputChanged("IsEdLowOrder", ge, arg); d != "" {
		mon = d + " (" + gen + ")"
	} else if len(ge) >= 32 {
		want := specSmallOrder(ge)
		if impl == "panic" {
			mon = "IsEdLowOrder panics on an input of at least 32 bytes (" + gen + ")"
		} else if want && impl != "ok 1" {
			mon = "IsEdLowOrder misses the encoding of a small-order point (" + gen + ")"
		} else if !want && impl != "ok 0" {
			mon = "IsEdLowOrder flags an encoding that is not a small-order point (" + gen + ")"
		}
	}
	e.rep.Compare(op, model, impl, "lowOrder."+strings.ReplaceAll(model, " ", ""), "encrypt.lowOrder:"+gen, mon)
}

func (e *engine) pubToXCase(ed []byte, gen string) {
	op := "encrypt.pubToX ed=" + lib.Hex(ed)
	model, tr := e.oracleQuery(op)
	arg := append(make([]byte, 0, len(ed)+8), ed...)
	impl := lib.Recover(func() string {
		u, ok := extra25519.PublicKeyToCurve25519(arg)
		if !ok {
			return "err"
		}
		return "ok " + lib.Hex(u)
	})
	if strings.HasPrefix(impl, "panic") {
		impl = "panic"
	}
	br := "pubToX.ok"
	switch {
	case model == "panic":
		br = "pubToX.panic"
	case model == "err" && len(tr) == 0:
		br = "pubToX.low"
	case model == "err":
		br = "pubToX.notpoint"
	}
	mon := ""
	if d := inputChanged("PublicKeyToCurve25519", ed, arg); d != "" {
		mon = d + " (" + gen + ")"
	} else if len(ed) == 32 {
		refuse := specSmallOrder(ed) || !specIsPoint(ed)
		switch {
		case impl == "panic":
			mon = "PublicKeyToCurve25519 panics on a 32-byte input (" + gen + ")"
		case refuse && impl != "err":
			mon = "PublicKeyToCurve25519 converts a small-order or non-curve encoding (" + gen + ")"
		case !refuse && impl == "err":
			mon = "PublicKeyToCurve25519 refuses a curve point that is not of small order (" + gen + ")"
		case !refuse && impl != "ok "+lib.Hex(specMont(ed)):
			mon = "PublicKeyToCurve25519 result is not (1+y)/(1-y) (" + gen + ")"
		}
	} else if len(ed) > 32 && impl != "err" {
		mon = "PublicKeyToCurve25519 accepts an input longer than 32 bytes (" + gen + ")"
	}
	e.rep.Compare(op, model, impl, br, "encrypt.pubToX:"+gen, mon)
}

func (e *engine) runC14() {
	e.rep.Rule = "IsEdLowOrder / PublicKeyToCurve25519: every encoding congruent to a torsion y-coordinate (computed as [l]Q in math/big, no table) x both sign bits, all 256 one-bit neighbours of each, non-canonical y = p+k (k<19), random 32-byte strings, honest public keys, lengths 0..40; shared-secret symmetry and private/public conversion consistency over random key pairs with x/crypto X25519; every call runs on a private copy of the argument (with spare capacity) and the specification on the caller's bytes: a function that writes into its argument (in-place sign masking) is reported, for honest keys with its consequence (the key no longer verifies its own signature); distinct = distinct op line"
	e.rep.Require("lowOrder.ok1", "lowOrder.ok0", "lowOrder.panic", "pubToX.ok", "pubToX.low", "pubToX.notpoint", "pubToX.panic", "sym")
	encs := smallOrderEncodings()
	if len(encs) != 7 {
		e.rep.Notes = append(e.rep.Notes, fmt.Sprintf("independent computation finds %d small-order encodings", len(encs)))
	}
	var variants [][]byte
	for _, r := range encs {
		variants = append(variants, r)
		s := clone(r)
		s[31] |= 0x80
		variants = append(variants, s)
	}
	for _, v := range variants {
		e.lowOrderCase(v, "small-order")
		e.pubToXCase(v, "small-order")
		for bit := 0; bit < 256; bit++ {
			n := clone(v)
			n[bit/8] ^= 1 << (bit % 8)
			g := "neighbour"
			if bit == 255 {
				g = "sign-flip"
			}
			e.lowOrderCase(n, g)
			if bit%8 == 0 || bit > 247 || e.a.Scale > 1 {
				e.pubToXCase(n, g)
			}
		}
		for _, extra := range []int{1, 8} {
			e.lowOrderCase(append(clone(v), e.rng.Bytes(extra)...), "small-order-with-trailing-bytes")
			e.pubToXCase(append(clone(v), e.rng.Bytes(extra)...), "small-order-with-trailing-bytes")
		}
		for cut := 0; cut < 32; cut += 1 + e.rng.Intn(3) {
			e.lowOrderCase(v[:cut], "short")
		}
		e.lowOrderCase(v[:31], "short")
		e.pubToXCase(v[:31], "short")
		e.pubToXCase(v[:e.rng.Intn(31)], "short")
	}
	// non-canonical y = p + k, k = 2..18 (not small order), both signs
	for k := int64(2); k < 19; k++ {
		b := leBytes(new(big.Int).Add(fp, big.NewInt(k)))
		e.lowOrderCase(b, "non-canonical-y")
		e.pubToXCase(b, "non-canonical-y")
		b = clone(b)
		b[31] |= 0x80
		e.lowOrderCase(b, "non-canonical-y")
		e.pubToXCase(b, "non-canonical-y")
	}
	for i := 0; i < 150*e.a.Scale; i++ {
		b := e.rng.Bytes(32)
		e.lowOrderCase(b, "random")
		e.pubToXCase(b, "random")
		k := e.newKey()
		e.lowOrderCase(k.pub, "honest-key")
		e.pubToXCase(k.pub, "honest-key")
		e.lowOrderCase(e.rng.Bytes(e.rng.Intn(41)), "random-length")
		e.pubToXCase(e.rng.Bytes(33+e.rng.Intn(8)), "long")
	}
	// shared-secret symmetry
	for i := 0; i < 100*e.a.Scale; i++ {
		a, b := e.newKey(), e.newKey()
		op := fmt.Sprintf("sym a=%s b=%s", lib.Hex(a.seed), lib.Hex(b.seed))
		mon := lib.Recover(func() string {
			aPriv, bPriv := clone(a.priv), clone(b.priv)
			aPub, bPub := clone(a.pub), clone(b.pub)
			defer func() { a.priv, b.priv, a.pub, b.pub = aPriv, bPriv, aPub, bPub }()
			xa64 := extra25519.PrivateKeyToCurve25519(a.priv)
			xb64 := extra25519.PrivateKeyToCurve25519(b.priv)
			if d := inputChanged("PrivateKeyToCurve25519", aPriv, a.priv) + inputChanged("PrivateKeyToCurve25519", bPriv, b.priv); d != "" {
				return d
			}
			// ALL 64 returned bytes are observed: DeriveKey hashes the full slice, bytes 32..63 included
			for _, p := range []struct {
				got  []byte
				seed []byte
			}{{xa64, a.seed}, {xb64, b.seed}} {
				want := sha512.Sum512(p.seed)
				want[0] &= 248
				want[31] &= 127
				want[31] |= 64
				if len(p.got) != 64 {
					return fmt.Sprintf("PrivateKeyToCurve25519 returns %d bytes, documented: the 64-byte clamped SHA-512 of the seed", len(p.got))
				}
				if !bytes.Equal(p.got[:32], want[:32]) {
					return "PrivateKeyToCurve25519 is not the clamped SHA-512 of the seed (scalar half, bytes 0..31)"
				}
				if !bytes.Equal(p.got[32:], want[32:]) {
					return "PrivateKeyToCurve25519 is not the clamped SHA-512 of the seed (bytes 32..63 differ from the hash prefix half)"
				}
			}
			if extra := extra25519.PrivateKeyToCurve25519(a.priv); !bytes.Equal(extra, xa64) {
				return "PrivateKeyToCurve25519 is not deterministic"
			}
			xa, xb := xa64[:32], xb64[:32]
			ma, oka := extra25519.PublicKeyToCurve25519(a.pub)
			mb, okb := extra25519.PublicKeyToCurve25519(b.pub)
			if !oka || !okb {
				return "honest public key refused"
			}
			if d := inputChanged("PublicKeyToCurve25519", aPub, a.pub) + inputChanged("PublicKeyToCurve25519", bPub, b.pub); d != "" {
				// the consequence, stated with crypto/ed25519: the converted key is no longer the signer's key
				if sig := ed25519.Sign(ed25519.PrivateKey(aPriv), []byte("c14")); !ed25519.Verify(ed25519.PublicKey(a.pub), []byte("c14"), sig) || !ed25519.Verify(ed25519.PublicKey(b.pub), []byte("c14"), ed25519.Sign(ed25519.PrivateKey(bPriv), []byte("c14"))) {
					d += "; after the conversion the public key no longer verifies a signature of its own private key"
				}
				return d
			}
			ba, err := curve25519.X25519(xa, curve25519.Basepoint)
			if err != nil || lib.Hex(ba) != lib.Hex(ma) {
				return "converted private key does not generate the converted public key"
			}
			s1, err1 := curve25519.X25519(xa, mb)
			s2, err2 := curve25519.X25519(xb, ma)
			if err1 != nil || err2 != nil {
				return "X25519 failed on converted keys"
			}
			if lib.Hex(s1) != lib.Hex(s2) {
				return "shared secrets differ between the two sides"
			}
			if lib.Hex(xa) != lib.Hex(clamp(a.seed)[:32]) {
				return "PrivateKeyToCurve25519 is not the clamped SHA-512 of the seed"
			}
			return ""
		})
		e.rep.Compare(op, "x", "x", "sym", "encrypt.sym", mon)
	}
}
