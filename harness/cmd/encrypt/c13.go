package main

import (
	"crypto/ed25519"
	"errors"
	"fmt"
	"strings"

	"github.com/aperturerobotics/bifrost/crypto"
	"github.com/aperturerobotics/bifrost/peer"
	"github.com/zeebo/blake3"

	"verif/harness/lib"
)

var deriveCtxs = append([]string{"", "a", "bifrost/test derive v1", "example.com 2019-12-25 16:18:03 session tokens v1", "bifrost/test derive v2", "\x00", "\xff\xfe ctx", strings.Repeat("long context ", 20)}, formatCtxs[:12]...)

func saltClass(s []byte) string {
	switch {
	case s == nil:
		return "nil-salt"
	case len(s) == 0:
		return "empty-salt"
	case len(s) > 100:
		return "long-salt"
	}
	return "salt"
}

// guardedOut is the `out` argument of a DeriveKey call: n bytes pre-filled with 0xAA (an output that is
// XOR-ed into, or only partly written, shows) inside a larger buffer whose 16 bytes on either side are
// sentinels (cap(out) > len(out): a write past len(out) shows). nilOut: a nil slice instead.
type guardedOut struct {
	buf []byte
	out []byte
}

func newGuardedOut(n int, nilOut bool) *guardedOut {
	g := &guardedOut{}
	if nilOut {
		return g
	}
	g.buf = make([]byte, n+32)
	for i := range g.buf {
		g.buf[i] = 0xAA
	}
	for i := 0; i < 16; i++ {
		g.buf[i], g.buf[16+n+i] = 0x5C, 0x5C
	}
	g.out = g.buf[16 : 16+n : len(g.buf)]
	return g
}

// sentinelsIntact: the bytes around `out` are untouched.
func (g *guardedOut) sentinelsIntact() bool {
	if g.buf == nil {
		return true
	}
	n := len(g.out)
	for i := 0; i < 16; i++ {
		if g.buf[i] != 0x5C || g.buf[16+n+i] != 0x5C {
			return false
		}
	}
	return true
}

// deriveRun is one DeriveKey call on a guarded, pre-filled `out`, with the caller's salt and raw key
// bytes watched: purity is "" or the description of an argument the call modified.
func deriveRun(ctx string, salt []byte, sk crypto.PrivKey, rawKey []byte, n int, nilOut bool) (impl, purity string) {
	g := newGuardedOut(n, nilOut)
	var saltArg []byte
	if salt != nil {
		saltArg = append(make([]byte, 0, len(salt)+8), salt...) // spare capacity: an append to the salt shows below
	}
	spare := saltArg[len(saltArg):cap(saltArg)]
	impl = outcome(func() ([]byte, error) {
		err := peer.DeriveKey(ctx, saltArg, sk, g.out)
		return g.out, err
	})
	switch {
	case !g.sentinelsIntact():
		purity = fmt.Sprintf("DeriveKey writes outside out[0:%d]", n)
	case lib.Hex(saltArg) != lib.Hex(salt):
		purity = "DeriveKey modifies the caller's salt"
	case lib.Hex(spare) != lib.Hex(make([]byte, len(spare))):
		purity = "DeriveKey writes into the spare capacity of the caller's salt"
	case rawKey != nil && sk != nil:
		if raw, err := sk.Raw(); err == nil && lib.Hex(raw) != lib.Hex(rawKey) {
			purity = "DeriveKey modifies the caller's private key"
		}
	}
	return impl, purity
}

// deriveCase compares DeriveKey with the model skeleton run over the independent primitive
// pipeline; returns the implementation's outcome. The monitor is stated without the model: no
// panic, determinism, no error for an honest key, and — for EVERY case — the output recomputed from
// the documentation with the stdlib pipeline (specDerive), on an `out` pre-filled with 0xAA.
func (e *engine) deriveCase(k *key, ctx string, salt []byte, n int, gen string) string {
	op := fmt.Sprintf("encrypt.derive priv=%s ctx=%s salt=%s n=%d", lib.Hex(k.priv), lib.Hex([]byte(ctx)), lib.Hex(salt), n)
	model, _ := e.oracleQuery(op)
	impl, purity := deriveRun(ctx, salt, k.sk, k.priv, n, false)
	again, _ := deriveRun(ctx, salt, k.sk, k.priv, n, false)
	mon := ""
	switch {
	case impl == "panic":
		mon = "DeriveKey panics (" + gen + ")"
	case impl != again:
		mon = "DeriveKey is not deterministic (" + gen + ")"
	case impl == "err":
		mon = "DeriveKey fails for an honest Ed25519 key (" + gen + ")"
	case purity != "":
		mon = purity + " (" + gen + ")"
	default:
		if want := specDerive(k, ctx, salt, n); want != nil && impl != "ok "+lib.Hex(want) {
			mon = fmt.Sprintf("DeriveKey output (%d bytes, context of %d bytes, salt of %d bytes, out pre-filled with 0xAA) is not BLAKE3-derive-key(context, const ‖ salt ‖ material⊕context) (%s)", n, len(ctx), len(salt), gen)
		}
	}
	e.rep.Branches["derive.spec"]++
	cls := gen
	if ctx == "" {
		cls = "empty-context"
	}
	e.rep.Compare(op, model, impl, "derive."+branchOf(model), "encrypt.derive:"+cls, mon)
	return impl
}

// stubKey is a crypto.PrivKey that is not bifrost's Ed25519 implementation.
type stubKey struct{ raw []byte }

func (k *stubKey) Equals(o crypto.Key) bool    { return false }
func (k *stubKey) Raw() ([]byte, error)        { return k.raw, nil }
func (k *stubKey) Type() crypto.KeyType        { return crypto.KeyType_Ed25519 }
func (k *stubKey) Sign([]byte) ([]byte, error) { return nil, errors.New("stub") }
func (k *stubKey) GetPublic() crypto.PubKey    { return nil }

// stubPub is a crypto.PubKey that is not bifrost's Ed25519 implementation.
type stubPub struct{ raw []byte }

func (k *stubPub) Equals(o crypto.Key) bool            { return false }
func (k *stubPub) Raw() ([]byte, error)                { return k.raw, nil }
func (k *stubPub) Type() crypto.KeyType                { return crypto.KeyType_Ed25519 }
func (k *stubPub) Verify([]byte, []byte) (bool, error) { return false, nil }

// keyArg is a crypto.PrivKey value of one of the classes PrivKeyToStdKey distinguishes.
type keyArg struct {
	class string         // nil-interface | nil-pointer | foreign | ed25519
	model string         // key= argument for the model
	sk    crypto.PrivKey // the value passed to the real code
	k     *key
}

func (e *engine) keyArgs(k *key) []keyArg {
	return []keyArg{
		{"nil-interface", "nil", nil, nil},
		{"nil-pointer", "nil", (*crypto.Ed25519PrivateKey)(nil), nil},
		{"foreign", "foreign", &stubKey{raw: clone(k.priv)}, nil},
		{"foreign", "foreign", (*stubKey)(nil), nil},
		{"ed25519", lib.Hex(k.priv), k.sk, k},
	}
}

// deriveArgCase: DeriveKey on any crypto.PrivKey value and any `out` (nil = a nil slice).
func (e *engine) deriveArgCase(ka keyArg, ctx string, salt []byte, n int, nilOut bool, gen string) {
	op := fmt.Sprintf("encrypt.deriveArg key=%s ctx=%s salt=%s n=%d", ka.model, lib.Hex([]byte(ctx)), lib.Hex(salt), n)
	model, _ := e.oracleQuery(op)
	var raw []byte
	if ka.k != nil {
		raw = ka.k.priv
	}
	impl, purity := deriveRun(ctx, salt, ka.sk, raw, n, nilOut)
	again, _ := deriveRun(ctx, salt, ka.sk, raw, n, nilOut)
	mon := ""
	switch {
	case impl == "panic":
		mon = "DeriveKey panics (" + ka.class + " key, " + gen + ")"
	case impl != again:
		mon = "DeriveKey is not deterministic (" + ka.class + " key, " + gen + ")"
	case purity != "":
		mon = purity + " (" + ka.class + " key, " + gen + ")"
	case ka.k == nil && impl != "err":
		mon = "DeriveKey does not report an error for a " + ka.class + " key"
	case ka.k != nil && impl == "err":
		mon = "DeriveKey fails for an honest Ed25519 key (" + gen + ")"
	case ka.k != nil:
		// stated without the model: BLAKE3 derive-key over the documented input, computed with the stdlib pipeline
		if want := specDerive(ka.k, ctx, salt, n); want != nil && impl != "ok "+lib.Hex(want) {
			mon = fmt.Sprintf("DeriveKey output (%d bytes) is not BLAKE3-derive-key(context, const ‖ salt ‖ material⊕context) (%s)", n, gen)
		}
	}
	e.rep.Compare(op, model, impl, "deriveArg."+ka.class+"."+branchOf(model)+"."+gen, "encrypt.deriveArg:"+ka.class+"/"+gen, mon)
}

// specDerive recomputes DeriveKey from its documentation with the stdlib / x-crypto / zeebo primitives.
func specDerive(k *key, ctx string, salt []byte, n int) []byte {
	x64 := clamp(k.seed)
	h := blake3.Sum256(append(clone(x64), ctx...))
	eph := ed25519.NewKeyFromSeed(h[:]).Public().(ed25519.PublicKey)
	ex := edToMont(eph)
	if ex == nil || specSmallOrder(eph) {
		return nil
	}
	mat := x25519(x64[:32], ex)
	if mat == nil {
		return nil
	}
	for i := range mat {
		if len(ctx) != 0 {
			mat[i] ^= ctx[i%len(ctx)]
		}
	}
	in := append([]byte("bifrost/peer/derive-key"), salt...)
	return kdf([]byte(ctx), append(in, mat...), n)
}

// deriveEdCase: DeriveEd25519Key on any crypto.PrivKey value.
func (e *engine) deriveEdCase(ka keyArg, ctx string, salt []byte, gen string) {
	op := fmt.Sprintf("encrypt.deriveEd key=%s ctx=%s salt=%s", ka.model, lib.Hex([]byte(ctx)), lib.Hex(salt))
	model, _ := e.oracleQuery(op)
	var gotPub []byte
	run := func() string {
		return outcome(func() ([]byte, error) {
			sk, pk, err := peer.DeriveEd25519Key(ctx, salt, ka.sk)
			if err != nil {
				return nil, err
			}
			raw, err := sk.Raw()
			if err != nil {
				return nil, err
			}
			gotPub, _ = pk.Raw()
			return raw, nil
		})
	}
	impl := run()
	mon := ""
	switch {
	case impl == "panic":
		mon = "DeriveEd25519Key panics (" + ka.class + " key, " + gen + ")"
	case impl != run():
		mon = "DeriveEd25519Key is not deterministic (" + ka.class + " key, " + gen + ")"
	case ka.k == nil && impl != "err":
		mon = "DeriveEd25519Key does not report an error for a " + ka.class + " key"
	case ka.k != nil && impl == "err":
		mon = "DeriveEd25519Key fails for an honest Ed25519 key (" + gen + ")"
	case ka.k != nil:
		if seed := specDerive(ka.k, ctx, salt, 32); seed != nil {
			want := ed25519.NewKeyFromSeed(seed)
			if impl != "ok "+lib.Hex(want) || lib.Hex(gotPub) != lib.Hex(want[32:]) {
				mon = "DeriveEd25519Key is not the Ed25519 key pair of the 32-byte DeriveKey output (" + gen + ")"
			}
		}
	}
	e.rep.Compare(op, model, impl, "deriveEd."+ka.class+"."+branchOf(model), "encrypt.deriveEd:"+ka.class+"/"+gen, mon)
}

func (e *engine) runC13() {
	e.rep.Rule = "DeriveKey / DeriveEd25519Key: keys x contexts (incl. empty, NUL, non-UTF-8, long) x salts (nil, empty, short, 1000 bytes) x output lengths 0..200; each output compared with the model skeleton over an independent stdlib pipeline (sha512 clamp, ed25519, edwards25519 BytesMontgomery, x/crypto X25519, zeebo/blake3); every DeriveKey call writes into an `out` pre-filled with 0xAA between sentinel bytes (cap > len) and EVERY output — matrix, length, random and normalisation classes included — is recomputed from the documentation with the stdlib pipeline; salt and key bytes unchanged by the call; determinism; pairwise inequality matrix over all (key, context, salt) at 32 bytes; distinct = distinct op line"
	e.rep.Require("derive.ok", "matrix", "ed25519")
	keys := []*key{e.newKey(), e.newKey(), e.newKey()}
	salts := [][]byte{nil, {}, {0}, []byte("salt"), []byte("salt2"), e.rng.Bytes(32), e.rng.Bytes(1000)}
	e.runC13Args(keys, salts)
	e.runC13Concurrent(keys) // determinism under concurrent derivations (c13conc.go)
	e.runC13Norm(keys) // input-normalisation pairs (x, N(x)) for salt, context and key (c13b.go, harness/norm)
	// matrix at n = 32
	seen := map[string]string{}
	for ki, k := range keys {
		for _, ctx := range deriveCtxs {
			for _, salt := range salts {
				impl := e.deriveCase(k, ctx, salt, 32, saltClass(salt))
				if !strings.HasPrefix(impl, "ok ") {
					continue
				}
				id := fmt.Sprintf("key%d|%s|%s", ki, lib.Hex([]byte(ctx)), lib.Hex(salt)) // nil and empty salt are the same input
				mon := ""
				if prev, ok := seen[impl]; ok && prev != id {
					mon = "two different (key, context, salt) inputs derive the same 32-byte secret: " + prev + " and " + id
				}
				seen[impl] = id
				e.rep.Compare("matrix "+id, "x", "x", "matrix", "encrypt.derive:matrix", mon)
			}
		}
	}
	// output lengths
	for i := 0; i < 12*e.a.Scale; i++ {
		k := keys[i%3]
		ctx := deriveCtxs[e.rng.Intn(len(deriveCtxs))]
		salt := salts[e.rng.Intn(len(salts))]
		for _, n := range []int{0, 1, 16, 31, 33, 64, 65, 100, 200, e.rng.Intn(201)} {
			impl := e.deriveCase(k, ctx, salt, n, "length")
			// the n-byte output is the prefix of the longer one (BLAKE3 XOF): same input
			if n > 0 && n <= 64 && strings.HasPrefix(impl, "ok ") {
				long, _ := deriveRun(ctx, salt, k.sk, k.priv, 64, false)
				mon := ""
				if !strings.HasPrefix(long, impl) {
					mon = "DeriveKey output depends on the output length beyond truncation"
				}
				e.rep.Compare(fmt.Sprintf("prefix n=%d", n), "x", "x", "prefix", "encrypt.derive:prefix", mon)
			}
		}
		// fresh keys and random contexts / salts
		kk := e.newKey()
		e.deriveCase(kk, string(e.rng.Bytes(e.rng.Intn(40))), e.rng.Bytes(e.rng.Intn(70)), 32, "random")
	}
	// DeriveEd25519Key = NewKeyFromSeed(DeriveKey(…, 32))
	for i := 0; i < 10*e.a.Scale; i++ {
		k := keys[i%3]
		ctx := deriveCtxs[i%len(deriveCtxs)]
		salt := salts[i%len(salts)]
		op := fmt.Sprintf("ed25519 key%d ctx=%s salt=%s", i%3, lib.Hex([]byte(ctx)), lib.Hex(salt))
		mon := lib.Recover(func() string {
			sk, pk, err := peer.DeriveEd25519Key(ctx, salt, k.sk)
			if err != nil {
				return "DeriveEd25519Key fails: " + err.Error()
			}
			seed := make([]byte, 32)
			if err := peer.DeriveKey(ctx, salt, k.sk, seed); err != nil {
				return "DeriveKey fails: " + err.Error()
			}
			want := ed25519.NewKeyFromSeed(seed)
			raw, _ := sk.Raw()
			praw, _ := pk.Raw()
			if lib.Hex(raw) != lib.Hex(want) || lib.Hex(praw) != lib.Hex(want[32:]) {
				return "DeriveEd25519Key is not the Ed25519 key of the derived 32-byte seed"
			}
			sk2, _, _ := peer.DeriveEd25519Key(ctx, salt, k.sk)
			raw2, _ := sk2.Raw()
			if lib.Hex(raw) != lib.Hex(raw2) {
				return "DeriveEd25519Key is not deterministic"
			}
			return ""
		})
		if strings.HasPrefix(mon, "panic") {
			mon = "DeriveEd25519Key panics"
		}
		cls := "ed25519"
		if ctx == "" {
			cls = "empty-context"
		}
		e.rep.Compare(op, "x", "x", "ed25519", "encrypt.derive:"+cls, mon)
	}
}

// runC13Args: every class of crypto.PrivKey value (nil interface, nil pointer, foreign implementation,
// Ed25519) through DeriveKey with output lengths 0 (nil and empty `out`), 32, 1024, 65536 and through
// DeriveEd25519Key; the Ed25519 outputs are compared with the model AND recomputed from the documentation
// with the stdlib pipeline; an inequality matrix over the derived Ed25519 keys.
func (e *engine) runC13Args(keys []*key, salts [][]byte) {
	e.rep.Require(
		"deriveArg.nil-interface.err.len-32", "deriveArg.nil-pointer.err.len-32", "deriveArg.foreign.err.len-32",
		"deriveArg.nil-interface.err.nil-out", "deriveArg.foreign.err.len-65536",
		"deriveArg.ed25519.ok.nil-out", "deriveArg.ed25519.ok.len-0", "deriveArg.ed25519.ok.len-32", "deriveArg.ed25519.ok.len-1024", "deriveArg.ed25519.ok.len-65536",
		"deriveEd.nil-interface.err", "deriveEd.nil-pointer.err", "deriveEd.foreign.err", "deriveEd.ed25519.ok", "edmatrix",
	)
	seen := map[string]string{}
	for i := 0; i < 6*e.a.Scale; i++ {
		k := keys[i%3]
		ctx := deriveCtxs[i%len(deriveCtxs)]
		if i >= len(deriveCtxs) {
			ctx = string(e.rng.Bytes(e.rng.Intn(40)))
		}
		salt := salts[(i*3+1)%len(salts)]
		for _, ka := range e.keyArgs(k) {
			e.deriveArgCase(ka, ctx, salt, 0, true, "nil-out")
			e.deriveArgCase(ka, ctx, salt, 0, false, "len-0")
			e.deriveArgCase(ka, ctx, salt, 32, false, "len-32")
			if ka.k == nil || i < 2 || e.a.Scale > 1 {
				e.deriveArgCase(ka, ctx, salt, 1024, false, "len-1024")
				e.deriveArgCase(ka, ctx, salt, 65536, false, "len-65536")
			}
			e.deriveEdCase(ka, ctx, salt, "args")
		}
	}
	// derived Ed25519 keys: pairwise different over (key, context, salt)
	for ki, k := range keys {
		for ci, ctx := range deriveCtxs {
			for si, salt := range salts {
				if (ki+ci+si)%3 != 0 && e.a.Scale == 1 {
					continue
				}
				id := fmt.Sprintf("key%d|%s|%s", ki, lib.Hex([]byte(ctx)), lib.Hex(salt))
				res := outcome(func() ([]byte, error) {
					sk, _, err := peer.DeriveEd25519Key(ctx, salt, k.sk)
					if err != nil {
						return nil, err
					}
					return sk.Raw()
				})
				mon := ""
				switch {
				case !strings.HasPrefix(res, "ok "):
					mon = "DeriveEd25519Key fails or panics for an honest key: " + res
				default:
					if prev, ok := seen[res]; ok && prev != id {
						mon = "two different (key, context, salt) inputs derive the same Ed25519 key: " + prev + " and " + id
					} else if seed := specDerive(k, ctx, salt, 32); seed != nil && res != "ok "+lib.Hex(ed25519.NewKeyFromSeed(seed)) {
						mon = "DeriveEd25519Key is not the Ed25519 key pair of BLAKE3-derive-key(context, const ‖ salt ‖ material⊕context)[:32] (matrix " + id + ")"
					}
					seen[res] = id
				}
				cls := "edmatrix"
				if ctx == "" {
					cls = "empty-context"
				}
				e.rep.Compare("edmatrix "+id, "x", "x", "edmatrix", "encrypt.deriveEd:"+cls, mon)
			}
		}
	}
}
