package main

import (
	"crypto/ed25519"
	"fmt"
	"strings"

	"github.com/aperturerobotics/bifrost/peer"

	"verif/harness/lib"
)

var deriveCtxs = []string{"", "a", "bifrost/test derive v1", "example.com 2019-12-25 16:18:03 session tokens v1", "bifrost/test derive v2", "\x00", "\xff\xfe ctx", strings.Repeat("long context ", 20)}

func saltClass(s []byte) string {
	switch {
	case s == nil:
		return "nil-salt"
	case len(s) == 0:
		return "empty-salt"
	case len(s) > 100:
		return "long-salt"
	}
	return "salt"
}

// deriveCase compares DeriveKey with the model skeleton run over the independent primitive
// pipeline; returns the implementation's outcome.
func (e *engine) deriveCase(k *key, ctx string, salt []byte, n int, gen string) string {
	op := fmt.Sprintf("encrypt.derive priv=%s ctx=%s salt=%s n=%d", lib.Hex(k.priv), lib.Hex([]byte(ctx)), lib.Hex(salt), n)
	model, _ := e.oracleQuery(op)
	run := func() string {
		return outcome(func() ([]byte, error) {
			out := make([]byte, n)
			err := peer.DeriveKey(ctx, salt, k.sk, out)
			return out, err
		})
	}
	impl := run()
	mon := ""
	switch {
	case impl == "panic":
		mon = "DeriveKey panics (" + gen + ")"
	case impl != run():
		mon = "DeriveKey is not deterministic (" + gen + ")"
	case impl == "err":
		mon = "DeriveKey fails for an honest Ed25519 key (" + gen + ")"
	}
	cls := gen
	if ctx == "" {
		cls = "empty-context"
	}
	e.rep.Compare(op, model, impl, "derive."+branchOf(model), "encrypt.derive:"+cls, mon)
	return impl
}

func (e *engine) runC13() {
	e.rep.Rule = "DeriveKey / DeriveEd25519Key: keys x contexts (incl. empty, NUL, non-UTF-8, long) x salts (nil, empty, short, 1000 bytes) x output lengths 0..200; each output compared with the model skeleton over an independent stdlib pipeline (sha512 clamp, ed25519, edwards25519 BytesMontgomery, x/crypto X25519, zeebo/blake3); determinism; pairwise inequality matrix over all (key, context, salt) at 32 bytes; distinct = distinct op line"
	e.rep.Require("derive.ok", "matrix", "ed25519")
	keys := []*key{e.newKey(), e.newKey(), e.newKey()}
	salts := [][]byte{nil, {}, {0}, []byte("salt"), []byte("salt2"), e.rng.Bytes(32), e.rng.Bytes(1000)}
	// matrix at n = 32
	seen := map[string]string{}
	for ki, k := range keys {
		for _, ctx := range deriveCtxs {
			for _, salt := range salts {
				impl := e.deriveCase(k, ctx, salt, 32, saltClass(salt))
				if !strings.HasPrefix(impl, "ok ") {
					continue
				}
				id := fmt.Sprintf("key%d|%s|%s", ki, lib.Hex([]byte(ctx)), lib.Hex(salt)) // nil and empty salt are the same input
				mon := ""
				if prev, ok := seen[impl]; ok && prev != id {
					mon = "two different (key, context, salt) inputs derive the same 32-byte secret: " + prev + " and " + id
				}
				seen[impl] = id
				e.rep.Compare("matrix "+id, "x", "x", "matrix", "encrypt.derive:matrix", mon)
			}
		}
	}
	// output lengths
	for i := 0; i < 12*e.a.Scale; i++ {
		k := keys[i%3]
		ctx := deriveCtxs[e.rng.Intn(len(deriveCtxs))]
		salt := salts[e.rng.Intn(len(salts))]
		for _, n := range []int{0, 1, 16, 31, 33, 64, 65, 100, 200, e.rng.Intn(201)} {
			impl := e.deriveCase(k, ctx, salt, n, "length")
			// the n-byte output is the prefix of the longer one (BLAKE3 XOF): same input
			if n > 0 && n <= 64 && strings.HasPrefix(impl, "ok ") {
				long := outcome(func() ([]byte, error) {
					out := make([]byte, 64)
					return out, peer.DeriveKey(ctx, salt, k.sk, out)
				})
				mon := ""
				if !strings.HasPrefix(long, impl) {
					mon = "DeriveKey output depends on the output length beyond truncation"
				}
				e.rep.Compare(fmt.Sprintf("prefix n=%d", n), "x", "x", "prefix", "encrypt.derive:prefix", mon)
			}
		}
		// fresh keys and random contexts / salts
		kk := e.newKey()
		e.deriveCase(kk, string(e.rng.Bytes(e.rng.Intn(40))), e.rng.Bytes(e.rng.Intn(70)), 32, "random")
	}
	// DeriveEd25519Key = NewKeyFromSeed(DeriveKey(…, 32))
	for i := 0; i < 10*e.a.Scale; i++ {
		k := keys[i%3]
		ctx := deriveCtxs[i%len(deriveCtxs)]
		salt := salts[i%len(salts)]
		op := fmt.Sprintf("ed25519 key%d ctx=%s salt=%s", i%3, lib.Hex([]byte(ctx)), lib.Hex(salt))
		mon := lib.Recover(func() string {
			sk, pk, err := peer.DeriveEd25519Key(ctx, salt, k.sk)
			if err != nil {
				return "DeriveEd25519Key fails: " + err.Error()
			}
			seed := make([]byte, 32)
			if err := peer.DeriveKey(ctx, salt, k.sk, seed); err != nil {
				return "DeriveKey fails: " + err.Error()
			}
			want := ed25519.NewKeyFromSeed(seed)
			raw, _ := sk.Raw()
			praw, _ := pk.Raw()
			if lib.Hex(raw) != lib.Hex(want) || lib.Hex(praw) != lib.Hex(want[32:]) {
				return "DeriveEd25519Key is not the Ed25519 key of the derived 32-byte seed"
			}
			sk2, _, _ := peer.DeriveEd25519Key(ctx, salt, k.sk)
			raw2, _ := sk2.Raw()
			if lib.Hex(raw) != lib.Hex(raw2) {
				return "DeriveEd25519Key is not deterministic"
			}
			return ""
		})
		if strings.HasPrefix(mon, "panic") {
			mon = "DeriveEd25519Key panics"
		}
		cls := "ed25519"
		if ctx == "" {
			cls = "empty-context"
		}
		e.rep.Compare(op, "x", "x", "ed25519", "encrypt.derive:"+cls, mon)
	}
}
