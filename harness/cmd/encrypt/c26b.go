package main

// C26, second part: "a WebRTC link is only accepted from the peer that was signaled" on the real
// transport object (webrtc.NewWebRTC), through the verif hooks of transport/webrtc:
//   * addSessionTrackerRef (the one place trackers are created): valid, malformed, key-less and
//     own IDs; no tracker without a peer ID is ever created;
//   * the incoming signal handler (NewWebRTCSignalHandler: HandleDirective + Resolve, the real
//     code): a signal arriving on the signaling session with P reaches the tracker of P and no other;
//   * executeXmitSignal: what is sent decodes with the signaled peer's key only;
//   * executeLink with real Quic/TLS sessions over an in-memory datagram pipe: the honest pair
//     connects, an impostor holding another key is refused on both roles.
// A Pion/ICE negotiation is not run (no network in the sandbox; an impostor cannot take part in
// it anyway without the encrypted SDPs): the data channel is replaced by the pipe.

import (
	"context"
	"fmt"
	"io"
	"sort"
	"strings"
	"sync"
	"time"

	"github.com/aperturerobotics/bifrost/link"
	"github.com/aperturerobotics/bifrost/peer"
	"github.com/aperturerobotics/bifrost/signaling"
	"github.com/aperturerobotics/bifrost/transport/common/dialer"
	"github.com/aperturerobotics/bifrost/transport/webrtc"
	"github.com/aperturerobotics/controllerbus/directive"
	"github.com/sirupsen/logrus"

	"verif/harness/lib"
)

const c26SignalingID = "verif-signaling"

// linkFacts is what an established link says about itself.
type linkFacts struct {
	remote, local                 peer.ID
	uuid, tptUUID, remoteTptUUID uint64
}

// linkRecorder is the transport handler: it records the remote peer (and the other identifying
// facts) of every established link.
type linkRecorder struct {
	mtx   sync.Mutex
	est   []peer.ID
	facts []linkFacts
	ch    chan struct{}
}

func (r *linkRecorder) HandleLinkEstablished(l link.Link) {
	r.mtx.Lock()
	r.est = append(r.est, l.GetRemotePeer())
	r.facts = append(r.facts, linkFacts{remote: l.GetRemotePeer(), local: l.GetLocalPeer(), uuid: l.GetUUID(), tptUUID: l.GetTransportUUID(), remoteTptUUID: l.GetRemoteTransportUUID()})
	r.mtx.Unlock()
	select {
	case r.ch <- struct{}{}:
	default:
	}
}
func (r *linkRecorder) HandleLinkLost(l link.Link) {}

func (r *linkRecorder) take() []peer.ID {
	r.mtx.Lock()
	defer r.mtx.Unlock()
	e := r.est
	r.est = nil
	return e
}

func (r *linkRecorder) takeFacts() []linkFacts {
	r.mtx.Lock()
	defer r.mtx.Unlock()
	f := r.facts
	r.facts = nil
	return f
}

type c26Tpt struct {
	k     *key
	w     *webrtc.WebRTC
	rec   *linkRecorder
	block []string
	conf  *webrtc.Config
}

func (e *engine) newC26Tpt(ctx context.Context, le *logrus.Entry, k *key, block ...string) *c26Tpt {
	return e.newC26TptConf(ctx, le, k, &webrtc.Config{SignalingId: c26SignalingID, BlockPeers: block})
}

func (e *engine) newC26TptConf(ctx context.Context, le *logrus.Entry, k *key, conf *webrtc.Config) *c26Tpt {
	rec := &linkRecorder{ch: make(chan struct{}, 8)}
	w, err := webrtc.NewWebRTC(ctx, le, nil, conf, k.sk, rec)
	if err != nil {
		panic(err)
	}
	return &c26Tpt{k: k, w: w, rec: rec, block: conf.GetBlockPeers(), conf: conf}
}

func (t *c26Tpt) blocks(id peer.ID) bool { return contains(t.block, id.String()) }

// hexStrs is the `a,b,c` list argument of the model driver for a list of strings (`_` = empty).
func hexStrs(l []string) string {
	if len(l) == 0 {
		return "_"
	}
	var h []string
	for _, x := range l {
		h = append(h, lib.Hex([]byte(x)))
	}
	return strings.Join(h, ",")
}

func incomingKeys(w *webrtc.WebRTC) []string {
	ks := webrtc.VerifIncomingSessionKeys(w)
	sort.Strings(ks)
	return ks
}

func showVerifTracker(t *webrtc.VerifTracker) string {
	link, ps := "!", "!"
	if t.PeerID != "" {
		link = lib.Hex([]byte(t.PeerID))
	}
	if t.PeerPub != nil {
		raw, _ := t.PeerPub.Raw()
		ps = lib.Hex(raw)
	}
	ob := 0
	if t.Offerer {
		ob = 1
	}
	return fmt.Sprintf("ok key=%s offerer=%d link=%s pub=%s", lib.Hex([]byte(t.Key)), ob, link, ps)
}

func trackerKeys(w *webrtc.WebRTC) []string {
	var ks []string
	for _, t := range webrtc.VerifSessionTrackers(w) {
		ks = append(ks, t.Key)
	}
	sort.Strings(ks)
	return ks
}

// emptyTracker: the transport holds a tracker that would accept a link from anyone.
func emptyTracker(w *webrtc.WebRTC) string {
	for _, t := range webrtc.VerifSessionTrackers(w) {
		if t.PeerID == "" || t.PeerPub == nil {
			return fmt.Sprintf("the transport holds a session tracker keyed %q without a peer ID / public key: its Quic session would accept any remote", t.Key)
		}
	}
	return ""
}

// addRefCase: addSessionTrackerRef(str) on transport t. remote != nil: str is the ID of that peer.
func (e *engine) addRefCase(t *c26Tpt, str string, remote *key, gen string) {
	op := fmt.Sprintf("encrypt.addref local=%s remote=%s", lib.Hex([]byte(t.k.id)), lib.Hex([]byte(str)))
	model := e.m.Query(op)
	before := trackerKeys(t.w)
	var tk *webrtc.VerifTracker
	var rel func()
	var err error
	impl := lib.Recover(func() string {
		tk, _, rel, err = webrtc.VerifAddSessionTrackerRef(t.w, str)
		if err != nil {
			return "err"
		}
		return showVerifTracker(tk)
	})
	after := trackerKeys(t.w)
	mon := ""
	switch {
	case strings.HasPrefix(impl, "panic"):
		mon = "addSessionTrackerRef panics (" + gen + ")"
	case emptyTracker(t.w) != "":
		mon = emptyTracker(t.w)
	case remote != nil && remote.id == t.k.id && err == nil:
		mon = "a transport created a session with itself"
	case remote != nil && remote.id != t.k.id:
		switch {
		case err != nil:
			mon = "the transport refuses a session with a well-formed foreign peer ID: " + err.Error()
		case tk.PeerID != remote.id:
			mon = fmt.Sprintf("the session for peer %s constrains its Quic link to %s", remote.id.String(), tk.PeerID.String())
		case func() bool { raw, _ := tk.PeerPub.Raw(); return lib.Hex(raw) != lib.Hex(remote.pub) }():
			mon = "the session for peer " + remote.id.String() + " encrypts its signals to another key"
		case tk.Key != remote.id.String():
			mon = "the session for peer " + remote.id.String() + " is keyed " + tk.Key
		case !contains(after, remote.id.String()):
			mon = "the tracker is not in the transport's table"
		}
	case remote == nil && err == nil:
		// a string that is not the ID of a key the harness made: only acceptable if it is the
		// text of an ID embedding an Ed25519 key (the harness passes none such here)
		mon = fmt.Sprintf("addSessionTrackerRef accepted the malformed peer ID string %q (tracker link peer %q)", str, tk.PeerID.String())
	}
	if err != nil && strings.Join(before, ",") != strings.Join(after, ",") && mon == "" {
		mon = fmt.Sprintf("addSessionTrackerRef returned an error but the tracker table changed from %v to %v", before, after)
	}
	br := "addref.ok"
	if model == "err" {
		br = "addref.err"
	}
	e.rep.Compare(op, model, impl, br, "encrypt.addref:"+gen, mon)
	if rel != nil && gen == "transient" {
		rel()
	}
}

func contains(l []string, s string) bool {
	for _, x := range l {
		if x == s {
			return true
		}
	}
	return false
}

// ---- the incoming signal handler -------------------------------------------------------------

// queueSession is a signaling.SignalPeerSession whose Recv yields queued messages and whose
// Send records.
type queueSession struct {
	local, remote peer.ID
	rx            chan []byte
	mtx           sync.Mutex
	sent          [][]byte
}

func (s *queueSession) GetLocalPeerID() peer.ID  { return s.local }
func (s *queueSession) GetRemotePeerID() peer.ID { return s.remote }
func (s *queueSession) Send(ctx context.Context, msg []byte) error {
	s.mtx.Lock()
	s.sent = append(s.sent, clone(msg))
	s.mtx.Unlock()
	return nil
}
func (s *queueSession) Recv(ctx context.Context) ([]byte, error) {
	select {
	case m := <-s.rx:
		return m, nil
	case <-ctx.Done():
		return nil, context.Canceled
	}
}

type dirInst struct {
	ctx context.Context
	dir directive.Directive
}

func (f *dirInst) GetContext() context.Context                        { return f.ctx }
func (f *dirInst) GetDirective() directive.Directive                  { return f.dir }
func (f *dirInst) GetDirectiveIdent() string                          { return "verif" }
func (f *dirInst) GetResolverErrors() []error                         { return nil }
func (f *dirInst) AddDisposeCallback(cb func()) func()                { return func() {} }
func (f *dirInst) AddIdleCallback(cb directive.IdleCallback) func()   { return func() {} }
func (f *dirInst) AddStateCallback(cb directive.StateCallback) func() { return func() {} }
func (f *dirInst) CloseIfUnreferenced(inclWeakRefs bool) bool         { return false }
func (f *dirInst) Close()                                             {}
func (f *dirInst) AddReference(cb directive.ReferenceHandler, weak bool) directive.Reference {
	return noRef{}
}

type noRef struct{}

func (noRef) Release() {}

// incomingCase: a signaling session (local, remote) is offered to transport t's signal handler
// under signalingID; one signal encrypted to encTo arrives on it. Reports which tracker got it.
func (e *engine) incomingCase(ctx context.Context, t *c26Tpt, sigID string, sessLocal, sessRemote *key, encTo *key, gen string) {
	sig := &webrtc.WebRtcSignal{Body: &webrtc.WebRtcSignal_RequestOffer{RequestOffer: uint64(1 + e.rng.Intn(1000))}}
	ct, err := webrtc.EncodeWebRtcSignal(sig, encTo.pk)
	if err != nil {
		panic(err)
	}
	// model: the handler answers only its own signaling ID / peer, decodes with its own key, and
	// routes by the session's remote peer
	op := fmt.Sprintf("encrypt.addref local=%s remote=%s via=incoming", lib.Hex([]byte(t.k.id)), lib.Hex([]byte(sessRemote.id.String())))
	model := e.m.Query(op)
	// does the handler answer this session at all? the model's three guards (signaling ID, local peer, block
	// list); the monitors below use the harness's own statement of the same
	hop := fmt.Sprintf("encrypt.handles local=%s sig=%s want=%s sl=%s sr=%s block=%s", lib.Hex([]byte(t.k.id)), lib.Hex([]byte(sigID)), lib.Hex([]byte(c26SignalingID)), lib.Hex([]byte(sessLocal.id)), lib.Hex([]byte(sessRemote.id)), hexStrs(t.block))
	blocked := t.blocks(sessRemote.id)
	answered := sigID == c26SignalingID && sessLocal.id == t.k.id && !blocked
	if hm := e.m.Query(hop); hm != "resolver" {
		model = "no-resolver"
	} else if encTo.id != t.k.id {
		model = "err"
	}
	trackersBefore, incomingBefore := trackerKeys(t.w), incomingKeys(t.w)
	var incomingDuring []string
	sess := &queueSession{local: sessLocal.id, remote: sessRemote.id, rx: make(chan []byte, 1)}
	var got *webrtc.VerifTracker
	var gotSig *webrtc.WebRtcSignal
	var resolveErr error
	resolved := false
	impl := lib.Recover(func() string {
		h := webrtc.NewWebRTCSignalHandler(t.w)
		di := &dirInst{ctx: ctx, dir: signaling.NewHandleSignalPeer(sigID, sess)}
		res, err := h.HandleDirective(ctx, di)
		if err != nil {
			return "handle-err"
		}
		if len(res) == 0 {
			return "no-resolver"
		}
		resolved = true
		rctx, cancel := context.WithCancel(ctx)
		defer cancel()
		done := make(chan error, 1)
		go func() { done <- res[0].Resolve(rctx, nil) }()
		sess.rx <- ct
		// who receives it? every tracker of the transport is watched
		deadline := time.After(3 * time.Second)
		for {
			for _, tk := range webrtc.VerifSessionTrackers(t.w) {
				select {
				case s := <-tk.RxSignal():
					got, gotSig = tk, s
				default:
				}
			}
			if got != nil {
				incomingDuring = incomingKeys(t.w)
				break
			}
			select {
			case resolveErr = <-done:
				return "err"
			case <-deadline:
				return "not-delivered"
			case <-time.After(200 * time.Microsecond):
			}
		}
		cancel()
		<-done
		return showVerifTracker(got)
	})
	mon := ""
	switch {
	case strings.HasPrefix(impl, "panic"):
		mon = "the incoming signal handler panics (" + gen + ")"
	case emptyTracker(t.w) != "":
		mon = emptyTracker(t.w)
	case resolved && blocked:
		mon = fmt.Sprintf("the transport of %s answers a signaling session with %s, a peer on its block list (outcome %s)", t.k.id.String(), sessRemote.id.String(), lib.Trunc(impl))
	case resolved && !answered:
		mon = fmt.Sprintf("the transport of %s (signaling %q) answers a signaling session of peer %s under signaling ID %q", t.k.id.String(), c26SignalingID, sessLocal.id.String(), sigID)
	case got != nil && strings.Join(incomingDuring, ",") != sessRemote.id.String() && len(incomingBefore) == 0:
		mon = fmt.Sprintf("while the signal of %s is being served the transport lists the incoming sessions %v", sessRemote.id.String(), incomingDuring)
	case got != nil && encTo.id != t.k.id:
		mon = "a signal encrypted to another peer's key was decoded and handed to a session"
	case got != nil && got.PeerID != sessRemote.id:
		mon = fmt.Sprintf("a signal received on the signaling session with %s was handed to the session tracker of %s", sessRemote.id.String(), got.PeerID.String())
	case got != nil && gotSig.GetRequestOffer() != sig.GetRequestOffer():
		mon = "the signal handed to the session is not the one received"
	case got == nil && answered && encTo.id == t.k.id && sessRemote.id != t.k.id:
		mon = fmt.Sprintf("a well-formed signal from %s was not handed to its session (%s, %v)", sessRemote.id.String(), impl, resolveErr)
	}
	// once the resolver has returned (or never existed) nothing of the session is left behind: the
	// incomingSessions entry is gone and so is a tracker that only this session referenced — a tracker
	// that stays keeps a Quic listener / dialer for a peer nobody signals any more
	if mon == "" && !strings.HasPrefix(impl, "panic") && impl != "not-delivered" {
		after, inAfter := trackerKeys(t.w), incomingKeys(t.w)
		switch {
		case strings.Join(inAfter, ",") != strings.Join(incomingBefore, ","):
			mon = fmt.Sprintf("after the signaling session with %s ended the transport still lists incoming sessions %v (before: %v)", sessRemote.id.String(), inAfter, incomingBefore)
		case strings.Join(after, ",") != strings.Join(trackersBefore, ","):
			mon = fmt.Sprintf("after the signaling session with %s ended the transport's session trackers changed from %v to %v", sessRemote.id.String(), trackersBefore, after)
		}
	}
	br := "incoming.delivered"
	switch {
	case blocked && model == "no-resolver":
		br = "incoming.blocked"
	case model == "no-resolver":
		br = "incoming.refused"
	case model == "err":
		br = "incoming.err"
	}
	e.rep.Compare(op+" gen="+gen, model, impl, br, "encrypt.incoming:"+gen, mon)
}

// ---- executeXmitSignal -------------------------------------------------------------------------

func (e *engine) xmitCase(ctx context.Context, t *c26Tpt, remote *key, others []*key) {
	op := fmt.Sprintf("encrypt.addref local=%s remote=%s via=xmit", lib.Hex([]byte(t.k.id)), lib.Hex([]byte(remote.id.String())))
	model := e.m.Query(op)
	sig := e.randSignal(e.rng.Intn(3))
	want := showSignal(sig)
	sess := &queueSession{local: t.k.id, remote: remote.id}
	var tk *webrtc.VerifTracker
	impl := lib.Recover(func() string {
		var err error
		tk, _, _, err = webrtc.VerifAddSessionTrackerRef(t.w, remote.id.String())
		if err != nil {
			return "err"
		}
		if err := tk.ExecuteXmitSignal(ctx, sig, sess); err != nil {
			return "xmit-err"
		}
		return showVerifTracker(tk)
	})
	mon := ""
	if strings.HasPrefix(impl, "ok") {
		switch {
		case len(sess.sent) != 1:
			mon = fmt.Sprintf("executeXmitSignal sent %d messages for one signal", len(sess.sent))
		default:
			s, err := webrtc.DecodeWebRtcSignal(clone(sess.sent[0]), remote.sk)
			if err != nil || showSignal(s) != want {
				mon = "the signal transmitted on the session with " + remote.id.String() + " does not decode with that peer's private key to the original"
			}
			for _, o := range append([]*key{t.k}, others...) {
				if o.id == remote.id {
					continue
				}
				if _, err := webrtc.DecodeWebRtcSignal(clone(sess.sent[0]), o.sk); err == nil && mon == "" {
					mon = "the signal transmitted on the session with " + remote.id.String() + " can be decoded with the private key of " + o.id.String()
				}
			}
		}
	} else if !strings.HasPrefix(impl, "panic") {
		mon = "transmitting a signal to a well-formed foreign peer fails: " + impl
	} else {
		mon = "executeXmitSignal panics"
	}
	e.rep.Compare(op, model, impl, "xmit", "encrypt.xmit", mon)
}

// ---- executeLink over an in-memory datagram pipe -----------------------------------------------

type dcPipe struct {
	rx     chan []byte
	tx     chan []byte
	closed chan struct{}
	once   sync.Once
}

func newDcPipePair() (*dcPipe, *dcPipe) {
	a, b := make(chan []byte, 512), make(chan []byte, 512)
	return &dcPipe{rx: a, tx: b, closed: make(chan struct{})}, &dcPipe{rx: b, tx: a, closed: make(chan struct{})}
}

func (p *dcPipe) Read(b []byte) (int, error) {
	select {
	case m := <-p.rx:
		return copy(b, m), nil
	case <-p.closed:
		return 0, io.EOF
	}
}
func (p *dcPipe) Write(b []byte) (int, error) {
	select {
	case p.tx <- clone(b):
		return len(b), nil
	case <-p.closed:
		return 0, io.ErrClosedPipe
	}
}
func (p *dcPipe) ReadDataChannel(b []byte) (int, bool, error) {
	n, err := p.Read(b)
	return n, false, err
}
func (p *dcPipe) WriteDataChannel(b []byte, isString bool) (int, error) { return p.Write(b) }
func (p *dcPipe) Close() error {
	p.once.Do(func() { close(p.closed) })
	return nil
}

// linkCase: x runs the link routine of its session with `xFor`, y that of its session with `yFor`,
// over one pipe. Honest: xFor = y, yFor = x. Impostor: y is not the peer x signaled.
func (e *engine) linkCase(ctx context.Context, x *c26Tpt, xFor *key, y *c26Tpt, yFor *key, gen string) {
	op := fmt.Sprintf("encrypt.linkaccept local=%s signaled=%s actual=%s", lib.Hex([]byte(x.k.id)), lib.Hex([]byte(xFor.id)), lib.Hex([]byte(y.k.id)))
	model := e.m.Query(op)
	honest := xFor.id == y.k.id && yFor.id == x.k.id
	wait := 2500 * time.Millisecond
	if honest {
		wait = 8 * time.Second
	}
	x.rec.take()
	y.rec.take()
	x.rec.takeFacts()
	y.rec.takeFacts()
	var xEst, yEst []peer.ID
	var xFacts, yFacts []linkFacts
	var dial dialResult
	dialReturned := false
	impl := lib.Recover(func() string {
		xt, _, _, err := webrtc.VerifAddSessionTrackerRef(x.w, xFor.id.String())
		if err != nil {
			return "err"
		}
		yt, _, _, err := webrtc.VerifAddSessionTrackerRef(y.w, yFor.id.String())
		if err != nil {
			return "err"
		}
		if xt.Offerer == yt.Offerer {
			return "same-role"
		}
		px, py := newDcPipePair()
		lctx, cancel := context.WithTimeout(ctx, wait)
		defer cancel()
		// the public entry point next to the link routine: DialPeer(xFor) waits on that same session
		dctx, dcancel := context.WithCancel(ctx) // its own context: the wait below is not cut short by lctx
		defer dcancel()
		dialDone := startDial(dctx, x.w, xFor.id)
		var wg sync.WaitGroup
		wg.Add(2)
		ret := make(chan error, 2)
		go func() { defer wg.Done(); ret <- xt.ExecuteLink(lctx, px) }()
		go func() { defer wg.Done(); ret <- yt.ExecuteLink(lctx, py) }()
		// an accepted link shows up at the transport handler; a refused handshake makes the
		// dialling side's link routine return
		select {
		case <-x.rec.ch:
			// give the other side a moment to report too
			select {
			case <-y.rec.ch:
			case <-time.After(300 * time.Millisecond):
			}
		case <-ret:
			// one side gave up: anything the other side accepted meanwhile is reported at once
			select {
			case <-x.rec.ch:
			case <-time.After(300 * time.Millisecond):
			}
		case <-lctx.Done():
		}
		// a link the session established is handed to DialPeer at once (it is woken by the same broadcast)
		// (bound only reached on a defect: with a link established DialPeer returns at the broadcast)
		x.rec.mtx.Lock()
		xHasLink := len(x.rec.facts) != 0
		x.rec.mtx.Unlock()
		select {
		case dial = <-dialDone:
			dialReturned = true
		case <-time.After(map[bool]time.Duration{true: 30 * time.Second, false: 50 * time.Millisecond}[honest && xHasLink]):
		}
		cancel()
		dcancel()
		_ = px.Close()
		_ = py.Close()
		wg.Wait()
		if !dialReturned {
			dial = <-dialDone
		}
		xEst, yEst = x.rec.take(), y.rec.take()
		xFacts, yFacts = x.rec.takeFacts(), y.rec.takeFacts()
		if len(xEst) != 0 {
			return "ok 1"
		}
		return "ok 0"
	})
	mon := ""
	for _, r := range xEst {
		if r != xFor.id {
			mon = fmt.Sprintf("the session of %s with the signaled peer %s established a link with %s", x.k.id.String(), xFor.id.String(), r.String())
		}
	}
	if mon == "" && !honest && len(xEst) != 0 {
		mon = fmt.Sprintf("the session of %s with the signaled peer %s accepted a link from the transport of %s", x.k.id.String(), xFor.id.String(), y.k.id.String())
	}
	for _, r := range yEst {
		if mon == "" && r != yFor.id {
			mon = fmt.Sprintf("the session of %s with the signaled peer %s established a link with %s", y.k.id.String(), yFor.id.String(), r.String())
		}
	}
	if mon == "" && honest && impl != "ok 1" {
		mon = "the honest pair does not get a link: " + impl
	}
	if mon == "" {
		mon = linkFactsVerdict(x, xFor, xFacts)
	}
	if mon == "" {
		mon = linkFactsVerdict(y, yFor, yFacts)
	}
	if mon == "" {
		mon = dialVerdict(x, xFor, &dial, dialReturned, xFacts)
	}
	if dialReturned && dial.lnk != nil {
		e.rep.Branches["dial.link"]++
	}
	if strings.HasPrefix(impl, "panic") {
		mon = "executeLink panics"
	}
	br := "link.refused"
	if model == "ok 1" {
		br = "link.accepted"
	}
	e.rep.Compare(op+" gen="+gen, model, impl, br, "encrypt.link:"+gen, mon)
}

func (e *engine) runC26Link() {
	e.rep.Require("addref.ok", "addref.err", "incoming.delivered", "incoming.refused", "incoming.err", "incoming.blocked", "xmit", "link.accepted", "link.refused",
		"dial.refused", "dial.err", "dial.ok", "dial.link", "peerDialer.dialer", "peerDialer.none")
	ctx, cancel := context.WithCancel(context.Background())
	defer cancel()
	log := logrus.New()
	log.SetOutput(io.Discard)
	le := logrus.NewEntry(log)
	n := 3 * e.a.Scale
	for round := 0; round < n; round++ {
		a, b, c, m := e.newKey(), e.newKey(), e.newKey(), e.newKey()
		ta := e.newC26Tpt(ctx, le, a, c.id.String())
		// --- addSessionTrackerRef ---
		e.addRefCase(ta, b.id.String(), b, "peer-id")
		e.addRefCase(ta, b.id.String(), b, "peer-id-again")
		e.addRefCase(ta, m.id.String(), m, "peer-id")
		e.addRefCase(ta, a.id.String(), a, "self")
		bs := b.id.String()
		bad := []string{"", "0OIl", "zzzz", bs[:len(bs)-1], bs + "1", strings.ToLower(bs), " " + bs, "12D3KooW", "\xff\xfe",
			peer.ID([]byte{0x12, 0x02, 0xaa, 0xbb}).String(),                                          // a sha2 multihash: no embedded key
			peer.ID(append([]byte{0x12, 0x20}, b.pub...)).String(),                                    // sha2-256 digest sized like a key
			peer.ID([]byte{0x00, 0x02, 0x08, 0x01}).String(),                                          // identity multihash, key message without data
			peer.ID(append([]byte{0x00, 0x23, 0x08, 0x01, 0x12, 0x1f}, b.pub[:31]...)).String(),       // 31-byte key
			peer.ID(append([]byte{0x00, 0x24, 0x08, 0x02, 0x12, 0x20}, b.pub...)).String(),            // unknown key type
			peer.ID(append(append([]byte{0x00, 0x25, 0x08, 0x01, 0x12, 0x21}, b.pub...), 0)).String(), // 33-byte key
		}
		for _, s := range bad {
			e.addRefCase(ta, s, nil, "malformed")
		}
		// --- the incoming signal handler: sessions with b, m (and c = blocked) ---
		e.incomingCase(ctx, ta, c26SignalingID, a, b, a, "from-signaled-peer")
		e.incomingCase(ctx, ta, c26SignalingID, a, m, a, "from-signaled-peer")
		fresh := e.newKey()
		e.incomingCase(ctx, ta, c26SignalingID, a, fresh, a, "from-new-peer")
		e.incomingCase(ctx, ta, c26SignalingID, a, b, b, "encrypted-to-other-key")
		e.incomingCase(ctx, ta, c26SignalingID, a, a, a, "session-with-self")
		e.incomingCase(ctx, ta, c26SignalingID, b, m, a, "session-of-another-local-peer")
		e.incomingCase(ctx, ta, "other-signaling", a, b, a, "other-signaling-id")
		e.incomingCase(ctx, ta, c26SignalingID, a, c, a, "from-blocked-peer")
		e.incomingCase(ctx, ta, c26SignalingID, a, c, c, "from-blocked-peer-own-key")
		// --- DialPeer / GetPeerDialer on the real transport ---
		e.dialCase(ctx, ta, b.id, b, "known-peer")
		e.dialCase(ctx, ta, e.newKey().id, nil, "new-peer")
		e.dialCase(ctx, ta, c.id, c, "blocked")
		e.dialCase(ctx, ta, a.id, a, "self")
		e.dialCase(ctx, ta, peer.ID([]byte{0x12, 0x02, 0xaa, 0xbb}), nil, "malformed")
		e.dialCase(ctx, ta, peer.ID(""), nil, "malformed")
		for ci, conf := range []*webrtc.Config{
			{SignalingId: c26SignalingID, BlockPeers: []string{c.id.String()}},
			{SignalingId: c26SignalingID, BlockPeers: []string{c.id.String(), m.id.String()}, AllPeers: true},
			{SignalingId: c26SignalingID, BlockPeers: []string{c.id.String()}, Dialers: map[string]*dialer.DialerOpts{b.id.String(): {Address: "webrtc"}, c.id.String(): {Address: "webrtc"}}},
		} {
			tc := e.newC26TptConf(ctx, le, a, conf)
			for _, p := range []*key{b, c, m} {
				e.peerDialerCase(ctx, tc, p, fmt.Sprintf("conf-%d", ci))
			}
		}
		// --- executeXmitSignal ---
		e.xmitCase(ctx, ta, b, []*key{m, c})
		e.xmitCase(ctx, ta, m, []*key{b, c})
		e.xmitCase(ctx, ta, e.newKey(), []*key{b, m})
	}
	// --- executeLink: honest pairs and impostors, both roles ---
	links := 2
	if e.a.Scale > 1 {
		links = 6
	}
	// impostorFor returns a key whose session with v has the role complementary to v's session
	// with the peer v signaled (one side must listen and the other dial for a handshake to happen)
	impostorFor := func(v *key, vListens bool) *key {
		for {
			m := e.newKey()
			mListens := m.id.String() < v.id.String() // m's session with v: offerer iff m < v
			if mListens != vListens {
				return m
			}
		}
	}
	for i := 0; i < links; i++ {
		a, b := e.newKey(), e.newKey()
		aListens := a.id.String() < b.id.String()
		ta, tb := e.newC26Tpt(ctx, le, a), e.newC26Tpt(ctx, le, b)
		e.linkCase(ctx, ta, b, tb, a, "honest")
		// a's session with b, but the other end of the channel is m; then the same for b
		role := map[bool]string{true: "victim-listens", false: "victim-dials"}
		tm := e.newC26Tpt(ctx, le, impostorFor(a, aListens))
		e.linkCase(ctx, e.newC26Tpt(ctx, le, a), b, tm, a, "impostor/"+role[aListens])
		tn := e.newC26Tpt(ctx, le, impostorFor(b, !aListens))
		e.linkCase(ctx, e.newC26Tpt(ctx, le, b), a, tn, b, "impostor/"+role[!aListens])
	}
}
