package main

// C26, fourth part: which peers get a session. The public entry points of the transport that create
// sessions — DialPeer, GetPeerDialer and (c26b.go) the incoming signal handler — on real
// webrtc.NewWebRTC transports with a block list: a blocked peer never gets a tracker by any route;
// DialPeer(P) waits on the tracker of exactly P and leaves nothing behind; the link DialPeer returns is
// the one the session of P established (c26b.go linkCase); what an established link says about its
// local side is the transport's own peer ID and UUID (the arguments of transport_quic.NewLink).

import (
	"context"
	"errors"
	"fmt"
	"strings"
	"time"

	"github.com/aperturerobotics/bifrost/link"
	"github.com/aperturerobotics/bifrost/peer"
	"github.com/aperturerobotics/bifrost/transport/webrtc"

	"verif/harness/lib"
)

type dialResult struct {
	lnk   link.Link
	fatal bool
	err   error
	pan   string
}

// startDial runs the real DialPeer in a goroutine.
func startDial(ctx context.Context, w *webrtc.WebRTC, id peer.ID) <-chan dialResult {
	done := make(chan dialResult, 1)
	go func() {
		var r dialResult
		defer func() {
			if x := recover(); x != nil {
				r.pan = fmt.Sprint(x)
			}
			done <- r
		}()
		r.lnk, r.fatal, r.err = w.DialPeer(ctx, id, "")
	}()
	return done
}

func trackerOf(w *webrtc.WebRTC, key string) *webrtc.VerifTracker {
	for _, t := range webrtc.VerifSessionTrackers(w) {
		if t.Key == key {
			return t
		}
	}
	return nil
}

// dialCase: DialPeer(id) on transport t with no link coming. remote: the key id was made from (nil: none).
// kind: valid | blocked | self | malformed.
func (e *engine) dialCase(ctx context.Context, t *c26Tpt, id peer.ID, remote *key, gen string) {
	kind := "valid"
	switch gen {
	case "blocked", "self", "malformed":
		kind = gen
	}
	op := fmt.Sprintf("encrypt.dial local=%s peer=%s block=%s", lib.Hex([]byte(t.k.id)), lib.Hex([]byte(id)), hexStrs(t.block))
	model := e.m.Query(op)
	before, inBefore := trackerKeys(t.w), incomingKeys(t.w)
	var seen *webrtc.VerifTracker
	var during []string
	var res dialResult
	impl := lib.Recover(func() string {
		dctx, cancel := context.WithCancel(ctx)
		defer cancel()
		done := startDial(dctx, t.w, id)
		returned := false
		deadline := time.After(10 * time.Second)
	wait:
		for {
			select {
			case res = <-done:
				returned = true
				break wait
			case <-deadline:
				break wait
			case <-time.After(300 * time.Microsecond):
			}
			if tk := trackerOf(t.w, id.String()); tk != nil && !contains(before, id.String()) {
				seen, during = tk, trackerKeys(t.w)
				break wait
			}
			if contains(before, id.String()) && kind == "valid" {
				// the tracker exists already (another reference): DialPeer waits on it; let it reach the wait
				seen, during = trackerOf(t.w, id.String()), trackerKeys(t.w)
				select {
				case res = <-done:
					returned = true
				case <-time.After(20 * time.Millisecond):
				}
				break wait
			}
		}
		if !returned {
			cancel()
			select {
			case res = <-done:
			case <-time.After(10 * time.Second):
				return "stuck"
			}
		}
		switch {
		case res.pan != "":
			return "panic " + res.pan
		case res.lnk != nil:
			return "link"
		case res.err == nil:
			return "refused"
		case errors.Is(res.err, context.Canceled) && !returned:
			if seen == nil {
				return "waited-without-tracker"
			}
			return showVerifTracker(seen)
		}
		return "err"
	})
	after, inAfter := trackerKeys(t.w), incomingKeys(t.w)
	mon := ""
	switch {
	case strings.HasPrefix(impl, "panic"):
		mon = "DialPeer panics (" + gen + "): " + lib.Trunc(impl)
	case emptyTracker(t.w) != "":
		mon = emptyTracker(t.w)
	case kind == "blocked" && impl != "refused":
		mon = fmt.Sprintf("DialPeer opens a session with %s, a peer on the transport's block list (%s; trackers while dialing: %v)", id.String(), lib.Trunc(impl), during)
	case kind == "blocked" && res.fatal:
		mon = "DialPeer reports a fatal error for a blocked peer"
	case kind == "self" && impl != "err":
		mon = "DialPeer of the transport's own peer ID: want an error, got " + lib.Trunc(impl)
	case kind == "malformed" && impl != "err":
		mon = fmt.Sprintf("DialPeer of the malformed peer ID %q: want an error, got %s", id.String(), lib.Trunc(impl))
	case kind == "valid" && !strings.HasPrefix(impl, "ok "):
		mon = fmt.Sprintf("DialPeer(%s) does not wait on a session with that peer: %s (%v)", id.String(), impl, res.err)
	case kind == "valid" && (seen.PeerID != id || seen.Key != id.String()):
		mon = fmt.Sprintf("DialPeer(%s) waits on the session tracker keyed %q whose Quic link is constrained to %s", id.String(), seen.Key, seen.PeerID.String())
	case kind == "valid" && remote != nil && func() bool { raw, _ := seen.PeerPub.Raw(); return lib.Hex(raw) != lib.Hex(remote.pub) }():
		mon = "the session DialPeer(" + id.String() + ") waits on encrypts its signals to another key"
	case kind == "valid" && len(during) != 0 && !contains(during, id.String()):
		mon = fmt.Sprintf("while DialPeer(%s) waits the transport's trackers are %v", id.String(), during)
	}
	if mon == "" && kind == "valid" {
		for _, k := range during {
			if !contains(before, k) && k != id.String() {
				mon = fmt.Sprintf("DialPeer(%s) created a session tracker for %s", id.String(), k)
			}
		}
	}
	if mon == "" && impl != "stuck" {
		switch {
		case strings.Join(after, ",") != strings.Join(before, ","):
			mon = fmt.Sprintf("after DialPeer(%s) returned (%s) the transport's session trackers changed from %v to %v", id.String(), lib.Trunc(impl), before, after)
		case strings.Join(inAfter, ",") != strings.Join(inBefore, ","):
			mon = fmt.Sprintf("DialPeer(%s) changed the incoming session table from %v to %v", id.String(), inBefore, inAfter)
		}
	}
	br := "dial.ok"
	switch model {
	case "refused":
		br = "dial.refused"
	case "err":
		br = "dial.err"
	}
	e.rep.Compare(op+" gen="+gen, model, impl, br, "encrypt.dial:"+gen, mon)
}

// peerDialerCase: GetPeerDialer(p) on a transport with a block list and AllPeers / Dialers.
func (e *engine) peerDialerCase(ctx context.Context, t *c26Tpt, p *key, gen string) {
	var dl []string
	for k := range t.conf.GetDialers() {
		dl = append(dl, k)
	}
	sortStrings(dl)
	all := 0
	if t.conf.GetAllPeers() {
		all = 1
	}
	op := fmt.Sprintf("encrypt.peerDialer local=%s peer=%s block=%s dialers=%s all=%d", lib.Hex([]byte(t.k.id)), lib.Hex([]byte(p.id)), hexStrs(t.block), hexStrs(dl), all)
	model := e.m.Query(op)
	addr := ""
	impl := lib.Recover(func() string {
		opts, err := t.w.GetPeerDialer(ctx, p.id)
		switch {
		case err != nil:
			return "err"
		case opts == nil:
			return "none"
		}
		addr = opts.GetAddress()
		return "dialer"
	})
	blocked := t.blocks(p.id)
	_, listed := t.conf.GetDialers()[p.id.String()]
	mon := ""
	switch {
	case strings.HasPrefix(impl, "panic"):
		mon = "GetPeerDialer panics"
	case blocked && impl != "none":
		mon = fmt.Sprintf("GetPeerDialer offers a dialer (%s %q) for %s, a peer on the transport's block list (AllPeers=%v, Dialers entry=%v)", impl, addr, p.id.String(), all == 1, listed)
	case !blocked && (all == 1 || listed) && impl != "dialer":
		mon = fmt.Sprintf("GetPeerDialer offers no dialer for the unblocked peer %s although the configuration names it (AllPeers=%v, Dialers entry=%v): %s", p.id.String(), all == 1, listed, impl)
	case !blocked && all == 0 && !listed && impl != "none":
		mon = fmt.Sprintf("GetPeerDialer offers a dialer for %s, which the configuration does not name", p.id.String())
	case len(trackerKeys(t.w)) != 0:
		mon = "GetPeerDialer created a session tracker"
	}
	e.rep.Compare(op+" gen="+gen, model, impl, "peerDialer."+model, "encrypt.peerDialer:"+gen, mon)
}

func sortStrings(l []string) {
	for i := 1; i < len(l); i++ {
		for j := i; j > 0 && l[j] < l[j-1]; j-- {
			l[j], l[j-1] = l[j-1], l[j]
		}
	}
}

// linkFactsVerdict: what the links established on transport x (for the session with xFor) say about
// themselves — the arguments executeLink hands to transport_quic.NewLink.
func linkFactsVerdict(x *c26Tpt, xFor *key, facts []linkFacts) string {
	for _, f := range facts {
		switch {
		case f.local != x.k.id:
			return fmt.Sprintf("the link the transport of %s established with %s reports the local peer %s", x.k.id.String(), f.remote.String(), f.local.String())
		case f.tptUUID != x.w.GetUUID():
			return fmt.Sprintf("the link the transport of %s established reports transport UUID %d, the transport's is %d", x.k.id.String(), f.tptUUID, x.w.GetUUID())
		case f.remote == f.local:
			return "a link reports the same peer on both ends"
		}
	}
	return ""
}

// dialVerdict: DialPeer(xFor) ran on x next to the link routine. established: the links x's handler saw.
func dialVerdict(x *c26Tpt, xFor *key, r *dialResult, returned bool, facts []linkFacts) string {
	switch {
	case r.pan != "":
		return "DialPeer panics while its session establishes a link: " + lib.Trunc(r.pan)
	case returned && r.lnk != nil && r.lnk.GetRemotePeer() != xFor.id:
		return fmt.Sprintf("DialPeer(%s) returned a link with %s", xFor.id.String(), r.lnk.GetRemotePeer().String())
	case returned && r.lnk != nil && len(facts) == 0:
		return fmt.Sprintf("DialPeer(%s) returned a link that was never reported to the transport handler", xFor.id.String())
	case returned && r.lnk != nil && func() bool {
		for _, f := range facts {
			if f.uuid == r.lnk.GetUUID() {
				return false
			}
		}
		return true
	}():
		return fmt.Sprintf("DialPeer(%s) returned a link other than the one its session established", xFor.id.String())
	case len(facts) != 0 && facts[0].remote == xFor.id && !(returned && r.lnk != nil):
		return fmt.Sprintf("the session with %s established a link but DialPeer(%s) did not return it (%v)", xFor.id.String(), xFor.id.String(), r.err)
	}
	return ""
}
