// Command links is the correspondence engine for C04 and C06: it drives REAL
// transport_controller.Controllers (one or two of them, each with its own identity and fake
// transport, on one real controller bus with peer controllers) through fake links, and
// compares the link tables, GetPeerLinks, the values of EstablishLinkWithPeer directives and
// the set of closed links with the Lean model.
//
// Sequential histories: every op is issued from one goroutine and awaited (per-operation
// completion hook). Concurrent batches: up to 6 ops fired from several goroutines without a
// barrier (a goroutine awaits only its own previous op); the observed tables must be the
// model's result for SOME interleaving that keeps the per-goroutine order (driver op
// links.linearize) and for THE interleaving the critical sections actually ran in (the hook
// fires inside the lock). Built with -race: a race report is a disagreement.
package main

import (
	"context"
	"fmt"
	"io"
	"os"
	"os/exec"
	"path/filepath"
	"runtime"
	"sort"
	"strconv"
	"strings"
	"sync"
	"sync/atomic"
	"time"

	"github.com/aperturerobotics/bifrost/crypto"
	"github.com/aperturerobotics/bifrost/link"
	"github.com/aperturerobotics/bifrost/peer"
	peer_controller "github.com/aperturerobotics/bifrost/peer/controller"
	"github.com/aperturerobotics/bifrost/stream"
	"github.com/aperturerobotics/bifrost/testbed"
	"github.com/aperturerobotics/bifrost/transport"
	transport_controller "github.com/aperturerobotics/bifrost/transport/controller"
	"github.com/aperturerobotics/controllerbus/bus"
	"github.com/aperturerobotics/controllerbus/controller"
	"github.com/aperturerobotics/controllerbus/controller/resolver"
	"github.com/aperturerobotics/controllerbus/directive"
	"github.com/blang/semver/v4"
	"github.com/sirupsen/logrus"

	"verif/harness/lib"
)

// peer indices: 0 = unspecified, 1 = identity of controller A, 2,3 = remote peers,
// 4 = identity of controller B (a second transport on the same bus).
const (
	peerA = 1
	peerB = 4
)

const opTimeout = 20 * time.Second

type fakeLink struct {
	id            int
	ctl           int // index of the controller (transport) this link belongs to
	uuid          atomic.Uint64
	local, remote peer.ID
	mtx           sync.Mutex
	closed        bool
	closeCh       chan struct{}
	opens         int
}

func newFakeLink(id, ctl int, uuid uint64, local, remote peer.ID) *fakeLink {
	f := &fakeLink{id: id, ctl: ctl, local: local, remote: remote, closeCh: make(chan struct{})}
	f.uuid.Store(uuid)
	return f
}

// GetUUID is NOT constant: a "reuuid" op of a history changes it after establishment.
func (f *fakeLink) GetUUID() uint64          { return f.uuid.Load() }
func (f *fakeLink) GetTransportUUID() uint64 { return 99 + uint64(f.ctl) }
func (f *fakeLink) OpenStream(stream.OpenOpts) (stream.Stream, error) {
	f.mtx.Lock()
	f.opens++
	f.mtx.Unlock()
	return nil, io.EOF
}
func (f *fakeLink) openCount() int { f.mtx.Lock(); defer f.mtx.Unlock(); return f.opens }
func (f *fakeLink) AcceptStream() (stream.Stream, stream.OpenOpts, error) {
	<-f.closeCh
	return nil, stream.OpenOpts{}, io.EOF
}
func (f *fakeLink) GetRemotePeer() peer.ID         { return f.remote }
func (f *fakeLink) GetLocalPeer() peer.ID          { return f.local }
func (f *fakeLink) GetRemoteTransportUUID() uint64 { return 98 }
func (f *fakeLink) Close() error {
	f.mtx.Lock()
	if !f.closed {
		f.closed = true
		close(f.closeCh)
	}
	f.mtx.Unlock()
	return nil
}
func (f *fakeLink) isClosed() bool { f.mtx.Lock(); defer f.mtx.Unlock(); return f.closed }

type fakeTransport struct {
	pid  peer.ID
	uuid uint64
}

func (t *fakeTransport) Execute(ctx context.Context) error { <-ctx.Done(); return nil }
func (t *fakeTransport) GetUUID() uint64                   { return t.uuid }
func (t *fakeTransport) GetPeerID() peer.ID                { return t.pid }
func (t *fakeTransport) Close() error                      { return nil }

// observer tracks the values of one EstablishLinkWithPeer directive. The value monitor is
// evaluated in HandleValueAdded, i.e. for EVERY value ever emitted (a wrong value that is
// retracted before quiescence is still seen).
type observer struct {
	mtx     sync.Mutex
	vals    map[uint32]link.MountedLink
	bad     string
	everBad string
	emitted int
	src     int
	dst     int
	srcID   peer.ID
	dstID   peer.ID
	ref     directive.Reference
}

// valueVerdict states C04 on one yielded value using only the value itself and the request.
func (o *observer) valueVerdict(ml link.MountedLink) string {
	if ml.GetRemotePeer() != o.dstID {
		return "link to " + ml.GetRemotePeer().String() + " yielded for a request to peer " + strconv.Itoa(o.dst)
	}
	if o.src != 0 && ml.GetLocalPeer() != o.srcID {
		return "link whose local peer is " + ml.GetLocalPeer().String() + " yielded for a request from peer " + strconv.Itoa(o.src)
	}
	if ml.GetRemotePeer() == ml.GetLocalPeer() {
		return "a link to the local peer itself was yielded"
	}
	return ""
}

func (o *observer) HandleValueAdded(_ directive.Instance, v directive.AttachedValue) {
	ml, ok := v.GetValue().(link.MountedLink)
	o.mtx.Lock()
	o.emitted++
	if !ok {
		o.bad = "value is not a MountedLink"
		if o.everBad == "" {
			o.everBad = o.bad
		}
	} else {
		o.vals[v.GetValueID()] = ml
		if vd := o.valueVerdict(ml); vd != "" && o.everBad == "" {
			o.everBad = vd + " (emitted value, request " + strconv.Itoa(o.src) + "->" + strconv.Itoa(o.dst) + ")"
		}
	}
	o.mtx.Unlock()
}
func (o *observer) HandleValueRemoved(_ directive.Instance, v directive.AttachedValue) {
	o.mtx.Lock()
	delete(o.vals, v.GetValueID())
	o.mtx.Unlock()
}
func (o *observer) HandleInstanceDisposed(directive.Instance) {}

// op is one step of a history.
//
//	start / shutdown   of controller c (start after shutdown = the controller is executed again)
//	est / lost         HandleLinkEstablished / HandleLinkLost of link id on controller c
//	estvia             HandleLinkEstablished called on the TransportHandler of execution g of controller c
//	                   (g < current execution: the closed transport of a previous execution still reports)
//	reuuid             the link object's GetUUID starts returning uuid (no controller call)
//	batch              per-goroutine sequences of est/lost fired concurrently
type op struct {
	kind  string
	c     int
	id    int
	uuid  uint64
	rem   int
	lp    int
	g     int // estvia: the execution (1 = first start) whose TransportHandler reports the link
	batch [][]op
	// gate (batch only): the controller lock is held (by the completion hook of a no-op loss
	// report) while the goroutines deliver their first events, so that all of them queue up
	// behind the lock before any critical section of the batch runs.
	gate bool
}

// String is the model-level (wire) form of a sequential est/lost/start/shutdown op.
func (o op) String() string {
	switch o.kind {
	case "start":
		return "start:" + strconv.Itoa(o.lp)
	case "shutdown":
		return "shutdown"
	case "estvia":
		return fmt.Sprintf("estvia:%d:%d:%d:%d", o.g, o.id, o.uuid, o.rem)
	}
	return fmt.Sprintf("%s:%d:%d:%d", o.kind, o.id, o.uuid, o.rem)
}

// describe is the human-readable form used in monitor messages (names the controller).
func describe(ops []op) string {
	var ss []string
	for _, o := range ops {
		switch o.kind {
		case "batch":
			var gs []string
			for _, g := range o.batch {
				var s []string
				for _, x := range g {
					s = append(s, x.String())
				}
				gs = append(gs, strings.Join(s, ","))
			}
			pfx := ""
			if o.gate {
				pfx = "gated"
			}
			ss = append(ss, pfx+"{"+strings.Join(gs, " || ")+"}")
		case "reuuid":
			ss = append(ss, fmt.Sprintf("reuuid:%d:%d", o.id, o.uuid))
		default:
			s := o.String()
			if o.c != 0 {
				s = "B." + s
			}
			ss = append(ss, s)
		}
	}
	return strings.Join(ss, ",")
}

type engine struct {
	a        *lib.Args
	rng      *lib.Rng
	m        *lib.Model
	rep      *lib.Report
	le       *logrus.Entry
	rec      atomic.Pointer[recorder]
	raceLog  string
	raceOff  int64
	progress string
}

// patience is how long a poll waits for the asynchronous parts (Close goroutines, directive
// resolvers) to settle; once a run has disagreements it is cut so that a broken tree is
// reported quickly.
func (e *engine) patience() time.Duration {
	if len(e.rep.Disagreements) >= 2 {
		return 300 * time.Millisecond
	}
	return 5 * time.Second
}

func idsOf(m map[int]bool) string {
	var l []int
	for k := range m {
		l = append(l, k)
	}
	return idList(l)
}

// idList prints a sorted id list keeping multiplicities ("_" = empty).
func idList(l []int) string {
	l = append([]int(nil), l...)
	sort.Ints(l)
	if len(l) == 0 {
		return "_"
	}
	s := make([]string, len(l))
	for i := range l {
		s[i] = strconv.Itoa(l[i])
	}
	return strings.Join(s, ",")
}

func opStrings(ops []op) string {
	if len(ops) == 0 {
		return "_"
	}
	ss := make([]string, len(ops))
	for i, o := range ops {
		ss[i] = o.String()
	}
	return strings.Join(ss, ",")
}

// ---------------------------------------------------------------------------------------
// completion / order recorder (fed by the verif hook, which runs inside the controller lock)

type evKey struct {
	kind string
	l    *fakeLink
}

type recorder struct {
	mtx     sync.Mutex
	trace   []evKey
	waiters map[evKey][]chan struct{}
	gates   map[*fakeLink]*gate
}

// gate makes the completion hook of one (no-op) event block INSIDE the controller lock.
type gate struct {
	entered chan struct{}
	release chan struct{}
}

func (r *recorder) expect(kind string, l *fakeLink) chan struct{} {
	ch := make(chan struct{})
	r.mtx.Lock()
	k := evKey{kind, l}
	r.waiters[k] = append(r.waiters[k], ch)
	r.mtx.Unlock()
	return ch
}

func (r *recorder) event(kind string, l *fakeLink) {
	r.mtx.Lock()
	k := evKey{kind, l}
	r.trace = append(r.trace, k)
	if w := r.waiters[k]; len(w) != 0 {
		close(w[0])
		r.waiters[k] = w[1:]
	}
	g := r.gates[l]
	delete(r.gates, l)
	r.mtx.Unlock()
	if g != nil {
		close(g.entered)
		<-g.release
	}
}

func (r *recorder) addGate(l *fakeLink) *gate {
	g := &gate{entered: make(chan struct{}), release: make(chan struct{})}
	r.mtx.Lock()
	r.gates[l] = g
	r.mtx.Unlock()
	return g
}

func (r *recorder) mark() int {
	r.mtx.Lock()
	defer r.mtx.Unlock()
	return len(r.trace)
}

func (r *recorder) since(n int) []evKey {
	r.mtx.Lock()
	defer r.mtx.Unlock()
	return append([]evKey(nil), r.trace[n:]...)
}

func (e *engine) onOp(kind string, lnk link.Link) {
	fl, ok := lnk.(*fakeLink)
	if !ok {
		return
	}
	if r := e.rec.Load(); r != nil {
		r.event(kind, fl)
	}
}

// ---------------------------------------------------------------------------------------
// the property stated directly: links established and not yet lost (per controller)

type specResult struct {
	live     map[int]bool
	closed   map[int]bool
	everLost map[int]bool
}

// replaySpec replays a history of ONE controller against the plain statement of the
// property: the set of links established and not yet lost (a newer link with the same uuid
// replaces - and closes - the older one; a lost link is closed; a link established while the
// transport is down, or to the local peer itself, is closed and never entered; shutdown
// closes everything).
func replaySpec(ops []op) specResult {
	live := map[int]bool{}
	closed := map[int]bool{}
	uu := map[int]uint64{}
	running := false
	lp := 0
	gen := 0
	everLost := map[int]bool{}
	for _, o := range ops {
		if o.kind == "estvia" {
			// a link reported by the transport of a previous execution (which has exited) is closed and
			// never entered; through the handler of the running execution it is an ordinary report
			if !running || o.g != gen {
				closed[o.id] = true
				continue
			}
			o.kind = "est"
		}
		switch o.kind {
		case "start":
			if !running {
				running = true
				lp = o.lp
				gen++
			}
		case "shutdown":
			running = false
			lp = 0
			for id := range live {
				closed[id] = true
			}
			live = map[int]bool{}
		case "est":
			if !running || o.rem == lp {
				closed[o.id] = true
				continue
			}
			if live[o.id] {
				continue
			}
			for id := range live {
				if uu[id] == o.uuid {
					delete(live, id)
					closed[id] = true
				}
			}
			live[o.id] = true
			uu[o.id] = o.uuid
		case "lost":
			if live[o.id] {
				delete(live, o.id)
				closed[o.id] = true
			}
			everLost[o.id] = true
		}
	}
	return specResult{live, closed, everLost}
}

// merges enumerates the interleavings of gs that keep the order inside each sequence.
func merges(gs [][]op, visit func([]op)) {
	var cur []op
	pos := make([]int, len(gs))
	var rec func()
	rec = func() {
		done := true
		for i := range gs {
			if pos[i] < len(gs[i]) {
				done = false
				cur = append(cur, gs[i][pos[i]])
				pos[i]++
				rec()
				pos[i]--
				cur = cur[:len(cur)-1]
			}
		}
		if done {
			visit(cur)
		}
	}
	rec()
}

// ---------------------------------------------------------------------------------------

// ctl is one real Controller with its identity and fake transport.
type ctl struct {
	idx       int
	lp        int
	pid       peer.ID
	ctrl      *transport_controller.Controller
	mtx       sync.Mutex
	handler   transport.TransportHandler
	handlers  []transport.TransportHandler // one per execution, in order
	handlerCh chan struct{}
	cancel    context.CancelFunc
	done      chan struct{}
	seq       []op // the model-level history of this controller so far (batches linearised)
}

func (c *ctl) getHandler() transport.TransportHandler {
	c.mtx.Lock()
	defer c.mtx.Unlock()
	return c.handler
}

type world struct {
	e         *engine
	ctx       context.Context
	tb        *testbed.Testbed
	pids      map[int]peer.ID
	ctls      [2]*ctl
	links     map[int]*fakeLink
	linksMtx  sync.Mutex
	rec       *recorder
	observers []*observer
	stuck     string
	gateSeq   int
}

func (w *world) peerOf(i int) peer.ID {
	if i == 0 {
		return ""
	}
	if p, ok := w.pids[i]; ok {
		return p
	}
	return peer.ID(fmt.Sprintf("fake-remote-peer-%d", i))
}

func (w *world) getLink(o op) *fakeLink {
	w.linksMtx.Lock()
	defer w.linksMtx.Unlock()
	if l, ok := w.links[o.id]; ok {
		return l
	}
	l := newFakeLink(o.id, o.c, o.uuid, w.ctls[o.c].pid, w.peerOf(o.rem))
	w.links[o.id] = l
	return l
}

// newCtl: pid is the identity the controller must end up with; lookup is the peer id constraint it is
// constructed with ("" = whatever peer the bus has: the identity is then known only from the key).
func (w *world) newCtl(idx, lp int, pid, lookup peer.ID) *ctl {
	c := &ctl{idx: idx, lp: lp, pid: pid, handlerCh: make(chan struct{}, 4)}
	ctor := func(cctx context.Context, le *logrus.Entry, pkey crypto.PrivKey, h transport.TransportHandler) (transport.Transport, error) {
		c.mtx.Lock()
		c.handler = h
		c.handlers = append(c.handlers, h)
		c.mtx.Unlock()
		c.handlerCh <- struct{}{}
		return &fakeTransport{pid: pid, uuid: 99 + uint64(idx)}, nil
	}
	info := controller.NewInfo("verif/fake-transport-"+strconv.Itoa(idx), semver.MustParse("0.0.1"), "fake transport")
	c.ctrl = transport_controller.NewController(w.e.le, w.tb.Bus, info, lookup, false, ctor)
	return c
}

func (w *world) addObservers(srcs, dsts []int) {
	for _, src := range srcs {
		for _, dst := range dsts {
			ob := &observer{vals: map[uint32]link.MountedLink{}, src: src, dst: dst, srcID: w.peerOf(src), dstID: w.peerOf(dst)}
			_, ref, err := w.tb.Bus.AddDirective(link.NewEstablishLinkWithPeer(w.peerOf(src), w.peerOf(dst)), ob)
			if err != nil {
				panic(err)
			}
			ob.ref = ref
			w.observers = append(w.observers, ob)
		}
	}
}

// startCtl executes the controller (again, after a shutdown) and waits for the transport.
func (w *world) startCtl(c *ctl) {
	for len(c.handlerCh) > 0 {
		<-c.handlerCh
	}
	cctx, cancel := context.WithCancel(w.ctx)
	c.cancel = cancel
	done := make(chan struct{})
	c.done = done
	go func() {
		_ = w.tb.Bus.ExecuteController(cctx, c.ctrl)
		close(done)
	}()
	select {
	case <-c.handlerCh:
	case <-time.After(opTimeout):
		panic("controller did not construct transport")
	}
	if _, err := c.ctrl.GetTransport(w.ctx); err != nil {
		panic(err)
	}
}

func (w *world) stopCtl(c *ctl) {
	if c.cancel == nil {
		return
	}
	c.cancel()
	select {
	case <-c.done:
	case <-time.After(opTimeout):
		w.stuck = "controller did not exit"
	}
	c.cancel = nil
}

// issue delivers one est/lost to the real handler and waits for ITS critical section.
func (w *world) issue(o op) {
	c := w.ctls[o.c]
	h := c.getHandler()
	if h == nil {
		return
	}
	fl := w.getLink(o)
	if o.kind == "est" && c.cancel == nil {
		// transport exited: the handler may return before its critical section (Await on a
		// cancelled context); either way the link is closed and never entered. Not awaited:
		// the generators use a fresh link object here.
		h.HandleLinkEstablished(fl)
		return
	}
	ch := w.rec.expect(o.kind, fl)
	if o.kind == "est" {
		h.HandleLinkEstablished(fl)
	} else {
		h.HandleLinkLost(fl)
	}
	select {
	case <-ch:
	case <-time.After(opTimeout):
		w.stuck = "Handle" + map[string]string{"est": "LinkEstablished", "lost": "LinkLost"}[o.kind] + " critical section did not complete"
	}
}

// tables is the canonical observation of one controller.
type tables struct {
	live, bypeer, closed string
	inv                  string // invariant monitor verdict on the raw tables
}

func (t tables) String() string {
	return fmt.Sprintf("live=%s bypeer=%s closed=%s", t.live, t.bypeer, t.closed)
}
func (t tables) compact() string { return t.live + ":" + t.bypeer + ":" + t.closed }

func (w *world) observe(c *ctl) tables {
	byUUID, byPeer := c.ctrl.VerifSnapshot()
	inv := ""
	var live []int
	seen := map[int]bool{}
	for _, l := range byUUID {
		fl := l.(*fakeLink)
		if seen[fl.id] {
			inv = fmt.Sprintf("link %d is in the links table under two uuids", fl.id)
		}
		seen[fl.id] = true
		live = append(live, fl.id)
		if fl.ctl != c.idx {
			inv = fmt.Sprintf("link %d of the other transport is in this controller's table", fl.id)
		}
		if fl.remote == c.pid {
			inv = fmt.Sprintf("link %d to the local peer itself is in the links table", fl.id)
		}
	}
	var bp []int
	seenP := map[int]bool{}
	for p, ls := range byPeer {
		for _, l := range ls {
			fl := l.(*fakeLink)
			if seenP[fl.id] {
				inv = fmt.Sprintf("linksByPeerID holds link %d twice", fl.id)
			}
			seenP[fl.id] = true
			bp = append(bp, fl.id)
			if fl.remote != p {
				inv = fmt.Sprintf("link %d is in the bucket of another peer", fl.id)
			}
		}
	}
	var cl []int
	w.linksMtx.Lock()
	for id, l := range w.links {
		if l.ctl == c.idx && l.isClosed() {
			cl = append(cl, id)
		}
	}
	w.linksMtx.Unlock()
	if inv == "" && c.cancel == nil && len(live)+len(bp) != 0 {
		inv = "the controller is not running but its tables are not empty"
	}
	return tables{idList(live), idList(bp), idList(cl), inv}
}

// settle polls the tables until pred accepts them or the deadline passes (Close() runs on
// its own goroutine).
func (w *world) settle(c *ctl, pred func(tables) bool) tables {
	deadline := time.Now().Add(w.e.patience())
	for {
		t := w.observe(c)
		if pred(t) || time.Now().After(deadline) {
			return t
		}
		time.Sleep(200 * time.Microsecond)
	}
}

// runBatch fires the per-goroutine sequences concurrently and checks the outcome.
func (w *world) runBatch(o op) {
	e := w.e
	mark := w.rec.mark()
	inBatch := map[evKey]int{}
	for _, g := range o.batch {
		for _, x := range g {
			inBatch[evKey{x.kind, w.getLink(x)}]++
		}
	}
	// gated batch: hold the lock of every controller the batch touches
	var gates []*gate
	if o.gate {
		used := map[int]bool{}
		for _, g := range o.batch {
			for _, x := range g {
				used[x.c] = true
			}
		}
		for ci := range w.ctls {
			c := w.ctls[ci]
			if !used[ci] || c == nil || c.getHandler() == nil {
				continue
			}
			w.gateSeq++
			gop := op{kind: "lost", c: ci, id: 900 + w.gateSeq, uuid: 5, rem: 2}
			gl := w.getLink(gop)
			g := w.rec.addGate(gl)
			go c.getHandler().HandleLinkLost(gl)
			select {
			case <-g.entered:
			case <-time.After(opTimeout):
				w.stuck = "gate event never reached its critical section"
			}
			c.seq = append(c.seq, gop) // a loss report of a link that was never established: no-op
			gates = append(gates, g)
		}
	}
	// concurrent readers: GetPeerLinks takes the controller lock over and over while the batch
	// runs, so that HoldLockMaybeAsync often finds the lock busy and goes asynchronous
	var hammerStop atomic.Bool
	var hammerWg sync.WaitGroup
	for ci := range w.ctls {
		c := w.ctls[ci]
		if c == nil || c.cancel == nil {
			continue
		}
		for k := 0; k < 2; k++ {
			hammerWg.Add(1)
			go func(c *ctl, p peer.ID) {
				defer hammerWg.Done()
				for !hammerStop.Load() {
					_ = c.ctrl.GetPeerLinks(p)
				}
			}(c, w.peerOf(2+k))
		}
	}
	// spin barrier: the goroutines leave it within nanoseconds of each other
	var arrived atomic.Int32
	ng := int32(len(o.batch))
	var wg sync.WaitGroup
	var stuckMtx sync.Mutex
	for _, g := range o.batch {
		wg.Add(1)
		go func(g []op) {
			defer wg.Done()
			arrived.Add(1)
			for spins := 0; arrived.Load() < ng; spins++ {
				if spins > 2000 {
					runtime.Gosched()
				}
			}
			for _, x := range g {
				c := w.ctls[x.c]
				h := c.getHandler()
				fl := w.getLink(x)
				ch := w.rec.expect(x.kind, fl)
				if x.kind == "est" {
					h.HandleLinkEstablished(fl)
				} else {
					h.HandleLinkLost(fl)
				}
				select {
				case <-ch:
				case <-time.After(opTimeout):
					stuckMtx.Lock()
					w.stuck = "a concurrently delivered " + x.kind + " never completed its critical section"
					stuckMtx.Unlock()
					return
				}
			}
		}(g)
	}
	if len(gates) != 0 {
		// let the first events of all goroutines pile up behind the lock, then open it
		time.Sleep(time.Duration(200+w.e.rng.Intn(1500)) * time.Microsecond)
		for _, g := range gates {
			close(g.release)
		}
	}
	wg.Wait()
	hammerStop.Store(true)
	hammerWg.Wait()
	// the order the critical sections actually ran in (hook inside the lock)
	var traceAll []evKey
	for _, ev := range w.rec.since(mark) {
		if inBatch[ev] > 0 {
			inBatch[ev]--
			traceAll = append(traceAll, ev)
		}
	}
	for ci, c := range w.ctls {
		if c == nil {
			continue
		}
		var gs [][]op
		n := 0
		for _, g := range o.batch {
			var pg []op
			for _, x := range g {
				if x.c == ci {
					pg = append(pg, x)
					n++
				}
			}
			gs = append(gs, pg)
		}
		if n == 0 {
			continue
		}
		// trace projected on this controller, as model ops
		byKey := map[evKey][]op{}
		for _, g := range gs {
			for _, x := range g {
				k := evKey{x.kind, w.getLink(x)}
				byKey[k] = append(byKey[k], x)
			}
		}
		var trace []op
		for _, ev := range traceAll {
			if q := byKey[ev]; len(q) != 0 && ev.l.ctl == ci {
				trace = append(trace, q[0])
				byKey[ev] = q[1:]
			}
		}
		var gss []string
		for _, g := range gs {
			gss = append(gss, opStrings(g))
		}
		pre := opStrings(c.seq)
		lop := fmt.Sprintf("links.linearize pre=%s g=%s", pre, strings.Join(gss, "/"))
		lm := e.m.Query(lop)
		cands := strings.Split(lib.KV(lm, "states"), "|")
		isCand := func(t tables) bool {
			for _, s := range cands {
				if s == t.compact() {
					return true
				}
			}
			return false
		}
		// the exact expectation: the model on the observed order
		full := append(append([]op(nil), c.seq...), trace...)
		top := "links.hist ops=" + opStrings(full)
		tm := e.m.Query(top)
		exact := fmt.Sprintf("live=%s bypeer=%s closed=%s", lib.KV(tm, "live"), lib.KV(tm, "bypeer"), lib.KV(tm, "closed"))
		got := w.settle(c, func(t tables) bool { return len(trace) == n && t.String() == exact })

		// model-independent monitor: SOME ordering of the batch must explain the observation
		mon := w.stuck
		if mon == "" && len(trace) != n {
			mon = fmt.Sprintf("%d of the %d concurrently delivered events completed a critical section", len(trace), n)
		}
		if mon == "" {
			explained := false
			var poss []string
			merges(gs, func(sigma []op) {
				sp := replaySpec(append(append([]op(nil), c.seq...), sigma...))
				s := idsOf(sp.live) + "/" + idsOf(sp.closed)
				if s == got.live+"/"+got.closed {
					explained = true
				}
				dup := false
				for _, p := range poss {
					dup = dup || p == s
				}
				if !dup {
					poss = append(poss, s)
				}
			})
			if !explained {
				mon = fmt.Sprintf("after %s then concurrently {%s} the controller reports links {%s} and has closed {%s}; no ordering of the concurrent events explains this (possible live/closed: %s)",
					pre, strings.Join(gss, " || "), got.live, got.closed, strings.Join(poss, " "))
			}
		}
		if mon == "" && got.inv != "" {
			mon = got.inv + " (after concurrent delivery of {" + strings.Join(gss, " || ") + "})"
		}
		if mon == "" && got.bypeer != got.live {
			mon = "links-by-peer table {" + got.bypeer + "} differs from links-by-uuid table {" + got.live + "} after concurrent delivery of {" + strings.Join(gss, " || ") + "}"
		}
		if mon == "" {
			// the order reported by the hook must keep each goroutine's order
			for _, g := range gs {
				last := -1
				used := map[int]bool{}
				for _, x := range g {
					found := -1
					for i, y := range trace {
						if !used[i] && i > last && y.kind == x.kind && y.id == x.id {
							found = i
							break
						}
					}
					if found < 0 {
						mon = "the critical sections of one goroutine ran out of order: " + opStrings(trace) + " vs goroutine " + opStrings(g)
						break
					}
					used[found] = true
					last = found
				}
			}
		}
		model := "member " + got.compact()
		impl := model
		if !isCand(got) {
			model = "one-of " + strings.Join(cands, "|")
			impl = "got " + got.compact()
		}
		e.rep.Compare(lop, model, impl, "conc.linearize", "links.conc:linearize", mon)
		e.rep.Compare(top, exact, got.String(), "conc.trace", "links.conc:trace", mon)
		c.seq = full
	}
}

// runHistory executes one history against fresh controllers.
func (e *engine) runHistory(ops []op, gen string) {
	if e.progress != "" {
		_ = os.WriteFile(e.progress, []byte(lib.Trunc(describe(ops))), 0o644)
	}
	ctx, cancel := context.WithCancel(context.Background())
	defer cancel()
	tb, err := testbed.NewTestbed(ctx, e.le, testbed.TestbedOpts{NoEcho: true})
	if err != nil {
		panic(err)
	}
	defer tb.Release()
	w := &world{e: e, ctx: ctx, tb: tb, pids: map[int]peer.ID{peerA: tb.PeerID}, links: map[int]*fakeLink{},
		rec: &recorder{waiters: map[evKey][]chan struct{}{}, gates: map[*fakeLink]*gate{}}}
	e.rec.Store(w.rec)
	defer e.rec.Store(nil)

	two := false
	for _, o := range ops {
		if o.c == 1 {
			two = true
		}
		for _, g := range o.batch {
			for _, x := range g {
				if x.c == 1 {
					two = true
				}
			}
		}
	}
	if two {
		// a second identity (second key) with its own peer controller on the SAME bus
		np, err := peer.NewPeer(nil)
		if err != nil {
			panic(err)
		}
		pk, err := np.GetPrivKey(ctx)
		if err != nil {
			panic(err)
		}
		cfg, err := peer_controller.NewConfigWithPrivKey(pk)
		if err != nil {
			panic(err)
		}
		_, _, pref, err := bus.ExecOneOff(ctx, tb.Bus, resolver.NewLoadControllerWithConfig(cfg), nil, nil)
		if err != nil {
			panic(err)
		}
		defer pref.Release()
		w.pids[peerB] = np.GetPeerID()
	}
	// one identity on the bus: every other history constructs the controller WITHOUT a peer id constraint
	// (its identity — the self-link check, the source filter — then comes from the key alone)
	lookupA := w.pids[peerA]
	if !two && e.rng.Intn(2) == 0 {
		lookupA = ""
	}
	w.ctls[0] = w.newCtl(0, peerA, w.pids[peerA], lookupA)
	if two {
		// the second transport has the second identity — or, if its start op says so, the SAME identity
		lpB := peerB
		for _, o := range ops {
			if o.kind == "start" && o.c == 1 {
				lpB = o.lp
				break
			}
		}
		w.ctls[1] = w.newCtl(1, lpB, w.pids[lpB], w.pids[lpB])
	}
	srcsAll := []int{0, 1, 2}
	dsts := []int{1, 2, 3}
	if two {
		srcsAll = []int{0, 1, 2, 4}
		dsts = []int{1, 2, 3, 4}
	}
	observersAdded := false

	for _, o := range ops {
		switch o.kind {
		case "start":
			c := w.ctls[o.c]
			if c.cancel != nil {
				continue
			}
			first := !observersAdded
			// requests for links arrive both BEFORE the transport is constructed (the early filter in
			// resolveEstablishLink cannot apply yet) and after it is up
			early, late := srcsAll, srcsAll
			if e.rng.Intn(2) == 0 {
				early, late = srcsAll[2:], srcsAll[:2]
			}
			if first {
				w.addObservers(early, dsts)
			}
			w.startCtl(c)
			if first {
				w.addObservers(late, dsts)
				observersAdded = true
			}
			c.seq = append(c.seq, o)
		case "shutdown":
			c := w.ctls[o.c]
			if c.cancel != nil {
				w.stopCtl(c)
			}
			c.seq = append(c.seq, o)
		case "reuuid":
			w.getLink(o).uuid.Store(o.uuid)
		case "est", "lost":
			c := w.ctls[o.c]
			if c.getHandler() == nil {
				continue
			}
			w.issue(o)
			c.seq = append(c.seq, o)
		case "estvia":
			c := w.ctls[o.c]
			c.mtx.Lock()
			n := len(c.handlers)
			var h transport.TransportHandler
			if o.g >= 1 && o.g <= n {
				h = c.handlers[o.g-1]
			}
			c.mtx.Unlock()
			if h == nil {
				continue
			}
			fl := w.getLink(o)
			if o.g == n && c.cancel != nil {
				// the handler of the running execution: an ordinary report, awaited through the hook
				ch := w.rec.expect("est", fl)
				h.HandleLinkEstablished(fl)
				select {
				case <-ch:
				case <-time.After(opTimeout):
					w.stuck = "HandleLinkEstablished critical section did not complete"
				}
			} else {
				// a stale handler: Await returns either the cancellation (no critical section) or the old
				// transport (critical section); not awaited through the hook — what the property asks for is
				// observable on the link itself: it gets closed (and the tables are compared at the end)
				mk := w.rec.mark()
				h.HandleLinkEstablished(fl)
				dl := time.Now().Add(w.e.patience())
				for !fl.isClosed() && time.Now().Before(dl) {
					entered := false
					for _, ev := range w.rec.since(mk) {
						if ev.kind == "est" && ev.l == fl {
							entered = true
						}
					}
					if entered {
						// its critical section has run; Close() follows on its own goroutine if the link was refused
						t2 := time.Now().Add(20 * time.Millisecond)
						for !fl.isClosed() && time.Now().Before(t2) {
							time.Sleep(100 * time.Microsecond)
						}
						break
					}
					time.Sleep(100 * time.Microsecond)
				}
			}
			c.seq = append(c.seq, o)
		case "batch":
			w.runBatch(o)
		}
	}
	desc := describe(ops)

	anyRunning := false
	for ci, c := range w.ctls {
		if c == nil {
			continue
		}
		if c.cancel != nil {
			anyRunning = true
		}
		if len(c.seq) == 0 && ci == 1 {
			continue
		}
		opline := "links.hist ops=" + opStrings(c.seq)
		model := e.m.Query(opline)
		mLive := lib.KV(model, "live")
		spec := lib.KV(model, "spec")
		modelCmp := fmt.Sprintf("live=%s bypeer=%s closed=%s", mLive, lib.KV(model, "bypeer"), lib.KV(model, "closed"))
		got := w.settle(c, func(t tables) bool { return t.String() == modelCmp })
		mon := w.stuck
		sp := replaySpec(c.seq)
		key := "links.hist:" + gen
		if mon == "" && got.live != idsOf(sp.live) {
			mon = fmt.Sprintf("after history %s the controller reports links {%s} but the links established and not yet lost are {%s}", desc, got.live, idsOf(sp.live))
		}
		if mon == "" && got.bypeer != got.live {
			mon = "links-by-peer table differs from links-by-uuid table"
		}
		if mon == "" && got.inv != "" {
			mon = got.inv + " (history " + desc + ")"
		}
		if mon == "" && got.closed != idsOf(sp.closed) {
			mon = fmt.Sprintf("after history %s the links closed by the controller are {%s} but the links lost, replaced, rejected or shut down are {%s}", desc, got.closed, idsOf(sp.closed))
		}
		// the strict reading: a link already reported lost is never reported again
		if mon == "" {
			for id := range sp.live {
				if sp.everLost[id] && gen == "est-after-lost" && e.a.Prop == "C06" {
					mon = fmt.Sprintf("link %d is reported although it was reported lost before its establishment was processed (history %s)", id, desc)
					key = "links.hist:est-after-lost"
				}
			}
		}
		br := "hist." + gen
		if spec != mLive {
			// model and spec disagree: the refinement theorem does not cover this history shape
			br = "hist.model-spec-differ"
		}
		e.rep.Compare(opline, modelCmp, got.String(), br, key, mon)
	}

	// C04: directive values + GetPeerLinks
	if anyRunning {
		wantLive := map[int]bool{}
		for _, c := range w.ctls {
			if c != nil {
				for id := range replaySpec(c.seq).live {
					wantLive[id] = true
				}
			}
		}
		seqs := opStrings(w.ctls[0].seq)
		if two {
			seqs += "/" + opStrings(w.ctls[1].seq)
		}
		for _, ob := range w.observers {
			var rop string
			if two {
				rop = fmt.Sprintf("links.resolvebus cs=%s src=%d dst=%d", seqs, ob.src, ob.dst)
			} else {
				rop = fmt.Sprintf("links.resolve ops=%s src=%d dst=%d", seqs, ob.src, ob.dst)
			}
			rm := e.m.Query(rop)
			var got string
			var bad string
			dl := time.Now().Add(e.patience())
			extended := false
			for {
				ob.mtx.Lock()
				var ids []string
				bad = ob.bad
				for _, ml := range ob.vals {
					// property monitor: only links between the requested peers
					if vd := ob.valueVerdict(ml); vd != "" {
						bad = vd
					}
					// which link OBJECT does this value wrap? OpenMountedStream reaches the link's OpenStream
					before := map[int]int{}
					w.linksMtx.Lock()
					for id, l := range w.links {
						before[id] = l.openCount()
					}
					w.linksMtx.Unlock()
					_, _ = ml.OpenMountedStream(ctx, "verif/probe", stream.OpenOpts{})
					w.linksMtx.Lock()
					for id, l := range w.links {
						if l.openCount() != before[id] {
							if two {
								lpIdx := w.ctls[l.ctl].lp
								ids = append(ids, fmt.Sprintf("%d:%d", lpIdx, id))
								if ml.GetLocalPeer() != w.ctls[l.ctl].pid {
									bad = fmt.Sprintf("the value wrapping link %d reports another local peer than the link's transport", id)
								}
							} else {
								ids = append(ids, strconv.Itoa(id))
							}
							if !wantLive[id] {
								bad = fmt.Sprintf("request for a link to peer %d still yields link %d although that link was lost/closed", ob.dst, id)
							}
						}
					}
					w.linksMtx.Unlock()
				}
				if bad == "" {
					bad = ob.everBad
				}
				ob.mtx.Unlock()
				sortIDs(ids)
				if len(ids) == 0 {
					got = "ok _"
				} else {
					got = "ok " + strings.Join(ids, ",")
				}
				// completeness and multiplicity, stated on the observation and the history alone: the request
				// S -> D yields EVERY link established and not yet lost between S (any running local identity if
				// S is unspecified) and D, each once
				incomplete := ""
				have := map[string]int{}
				for _, id := range ids {
					have[id]++
					if have[id] == 2 {
						incomplete = fmt.Sprintf("request %d->%d yields link %s twice", ob.src, ob.dst, id)
					}
				}
				for _, c := range w.ctls {
					if c == nil || c.cancel == nil || (ob.src != 0 && ob.srcID != c.pid) {
						continue
					}
					for id := range replaySpec(c.seq).live {
						w.linksMtx.Lock()
						l := w.links[id]
						w.linksMtx.Unlock()
						if l == nil || l.remote != ob.dstID {
							continue
						}
						tok := strconv.Itoa(id)
						if two {
							tok = fmt.Sprintf("%d:%d", c.lp, id)
						}
						if have[tok] == 0 {
							incomplete = fmt.Sprintf("request for a link %d->%d does not yield link %d, which is established with peer %d and not lost", ob.src, ob.dst, id, ob.dst)
						}
					}
				}
				if got == rm && incomplete == "" {
					break
				}
				if time.Now().After(dl) {
					if incomplete != "" && !extended {
						// a completeness / multiplicity verdict must persist: value emission and retraction are
						// asynchronous (and the patience is cut once a run has disagreements); settle longer, once
						extended = true
						dl = time.Now().Add(3 * time.Second)
						continue
					}
					if bad == "" {
						bad = incomplete
					}
					break
				}
				time.Sleep(200 * time.Microsecond)
			}
			e.rep.Compare(rop, rm, got, "resolve."+map[bool]string{true: "empty", false: "nonempty"}[rm == "ok _"], "links.resolve", bad)
		}
		for _, c := range w.ctls {
			if c == nil || c.cancel == nil {
				continue
			}
			ps := []int{1, 2, 3}
			if two {
				ps = []int{1, 2, 3, 4}
			}
			for _, p := range ps {
				gop := fmt.Sprintf("links.get ops=%s p=%d", opStrings(c.seq), p)
				gm := e.m.Query(gop)
				ids := map[int]bool{}
				bad := ""
				for _, l := range c.ctrl.GetPeerLinks(w.peerOf(p)) {
					if ids[l.(*fakeLink).id] {
						bad = fmt.Sprintf("GetPeerLinks(peer %d) returned link %d twice", p, l.(*fakeLink).id)
					}
					ids[l.(*fakeLink).id] = true
					if l.GetRemotePeer() != w.peerOf(p) {
						bad = "GetPeerLinks returned a link to another peer"
					}
				}
				// the statement itself: the links reported for p = the links established and not yet lost with p
				sp := replaySpec(c.seq)
				for id := range sp.live {
					w.linksMtx.Lock()
					l := w.links[id]
					w.linksMtx.Unlock()
					if l != nil && l.remote == w.peerOf(p) && !ids[id] && bad == "" {
						bad = fmt.Sprintf("GetPeerLinks(peer %d) does not report link %d, which is established and not lost", p, id)
					}
				}
				for id := range ids {
					if !sp.live[id] && bad == "" && !(sp.everLost[id] && gen == "est-after-lost") {
						bad = fmt.Sprintf("GetPeerLinks(peer %d) reports link %d, which is not among the links established and not yet lost", p, id)
					}
				}
				e.rep.Compare(gop, gm, "ok "+idsOf(ids), "get", "links.get", bad)
			}
		}
	}
	for _, ob := range w.observers {
		ob.ref.Release()
	}
	for _, c := range w.ctls {
		if c != nil && c.cancel != nil {
			c.cancel()
			<-c.done
		}
	}
	e.checkRace(desc)
}

// sortIDs sorts "lp:id" / "id" tokens numerically.
func sortIDs(ids []string) {
	keyOf := func(s string) int {
		a, b, ok := strings.Cut(s, ":")
		if !ok {
			n, _ := strconv.Atoi(a)
			return n
		}
		x, _ := strconv.Atoi(a)
		y, _ := strconv.Atoi(b)
		return x*1000000 + y
	}
	sort.Slice(ids, func(i, j int) bool { return keyOf(ids[i]) < keyOf(ids[j]) })
}

// checkRace turns new output of the Go race detector into a disagreement for this history.
func (e *engine) checkRace(desc string) {
	if e.raceLog == "" {
		return
	}
	dat, err := os.ReadFile(e.raceLog)
	if err != nil || int64(len(dat)) <= e.raceOff {
		return
	}
	txt := string(dat[e.raceOff:])
	e.raceOff = int64(len(dat))
	if !strings.Contains(txt, "WARNING: DATA RACE") {
		return
	}
	// name the first bifrost frame of the report
	where := ""
	for _, ln := range strings.Split(txt, "\n") {
		if strings.Contains(ln, "bifrost/transport/controller") && !strings.Contains(ln, "verif_") {
			where = strings.TrimSpace(ln)
			break
		}
	}
	if where == "" {
		// not in the code under verification (bus / test scaffolding): note it, do not fail
		e.rep.Notes = append(e.rep.Notes, "race report outside transport/controller ignored: "+lib.Trunc(strings.ReplaceAll(txt, "\n", " | ")))
		return
	}
	e.rep.Compare("links.race "+desc, "no-race", "race "+where, "race.report", "links.conc:race",
		"the Go race detector reported a data race in the transport controller while link events were delivered ("+where+") during history "+desc)
}

// ---------------------------------------------------------------------------------------
// generators

type ld struct {
	id   int
	uuid uint64
	rem  int
}

func (e *engine) genHistory(mode int) ([]op, string) {
	ops := []op{{kind: "start", lp: 1}}
	gen := "random"
	nl := 2 + e.rng.Intn(3)
	nu := 2 + e.rng.Intn(3) // 2-4 uuids: collisions are the point, but more than two must coexist
	samePeer := e.rng.Intn(3) == 0
	if samePeer {
		nl = 3 + e.rng.Intn(3) // 3-5 links in ONE per-peer bucket
		nu = 4
	}
	var ls []ld
	for i := 1; i <= nl; i++ {
		u := uint64(7 + e.rng.Intn(nu))
		r := 2 + e.rng.Intn(2)
		if samePeer {
			r = 2
			u = uint64(7 + (i-1)%nu)
		}
		if e.rng.Intn(8) == 0 {
			r = 1 // self link
		}
		ls = append(ls, ld{i, u, r})
	}
	// links sharing a uuid must name the same remote peer for the ordinary shapes (uuid is derived from it)
	for i := range ls {
		for j := 0; j < i; j++ {
			if ls[j].uuid == ls[i].uuid && mode != 3 {
				ls[i].rem = ls[j].rem
			}
		}
	}
	established := map[int]bool{}
	lost := map[int]bool{}
	n := 3 + e.rng.Intn(22)
	for k := 0; k < n; k++ {
		l := ls[e.rng.Intn(len(ls))]
		kind := "est"
		switch mode {
		case 0: // well-ordered: est before lost, no re-est after lost
			if established[l.id] && e.rng.Intn(2) == 0 {
				kind = "lost"
			}
			if lost[l.id] {
				kind = "lost" // duplicate loss
			}
		case 1, 3: // late / out-of-order losses across links, duplicates
			if established[l.id] && e.rng.Intn(2) == 0 {
				kind = "lost"
			}
			if lost[l.id] {
				kind = "lost"
			}
			if !established[l.id] && e.rng.Intn(6) == 0 {
				kind = "lost-never"
			}
		case 2: // anything goes (est after lost included)
			if e.rng.Intn(2) == 0 {
				kind = "lost"
			}
		}
		if kind == "lost-never" {
			// loss of a link object that is never established
			ops = append(ops, op{kind: "lost", id: 90 + l.id, uuid: l.uuid, rem: l.rem})
			continue
		}
		if kind == "est" {
			if lost[l.id] && mode != 2 {
				continue
			}
			established[l.id] = true
		} else {
			if established[l.id] {
				lost[l.id] = true
			}
		}
		ops = append(ops, op{kind: kind, id: l.id, uuid: l.uuid, rem: l.rem})
		if e.rng.Intn(25) == 0 {
			ops = append(ops, op{kind: "shutdown"})
			gen = "shutdown"
			// after shutdown further est must be closed
			l2 := ls[e.rng.Intn(len(ls))]
			ops = append(ops, op{kind: "est", id: 50 + l2.id, uuid: l2.uuid, rem: l2.rem})
			break
		}
	}
	if mode == 2 {
		gen = classifyUnordered(ops, gen)
	}
	if mode == 3 {
		gen = "uuid-shared-across-peers"
	}
	return ops, gen
}

// classifyUnordered names an "anything goes" history: est-after-lost iff some link is
// reported established after it was reported lost (known finding F25 when it ends up live).
func classifyUnordered(ops []op, gen string) string {
	if gen == "random" {
		gen = "unordered"
	}
	seenLost := map[int]bool{}
	for _, o := range ops {
		if o.kind == "lost" {
			seenLost[o.id] = true
		}
		if o.kind == "est" && seenLost[o.id] {
			return "est-after-lost"
		}
	}
	return gen
}

// genUuidChange: links whose GetUUID changes after establishment, so that HandleLinkLost takes
// its slow path (the uuid entry is absent or ANOTHER link object; the link is found by
// identity). A link is never reported established again after its uuid changed.
func (e *engine) genUuidChange() ([]op, string) {
	ops := []op{{kind: "start", lp: 1}}
	nl := 3 + e.rng.Intn(3)
	var ls []ld
	for i := 1; i <= nl; i++ {
		ls = append(ls, ld{i, uint64(7 + i - 1), 2 + e.rng.Intn(2)})
	}
	cur := map[int]uint64{}
	live := map[int]bool{}
	changed := map[int]bool{}
	gone := map[int]bool{}
	n := 4 + e.rng.Intn(14)
	for k := 0; k < n; k++ {
		l := ls[e.rng.Intn(len(ls))]
		switch {
		case !live[l.id] && !changed[l.id] && !gone[l.id]:
			ops = append(ops, op{kind: "est", id: l.id, uuid: l.uuid, rem: l.rem})
			live[l.id] = true
			cur[l.id] = l.uuid
			// the establishment replaces whatever is stored under this uuid
			for id := range live {
				if id != l.id && !changed[id] && cur[id] == l.uuid {
					delete(live, id)
					gone[id] = true
				}
			}
		case live[l.id] && !changed[l.id]:
			// change the uuid: to a fresh value, or to the uuid of ANOTHER link (live or not)
			nu := uint64(30 + l.id)
			collide := e.rng.Intn(3) != 0
			if collide {
				o := ls[e.rng.Intn(len(ls))]
				if o.id != l.id {
					nu = o.uuid
				}
			}
			ops = append(ops, op{kind: "reuuid", id: l.id, uuid: nu})
			cur[l.id] = nu
			changed[l.id] = true
			if collide || e.rng.Intn(2) == 0 {
				ops = append(ops, op{kind: "lost", id: l.id, uuid: nu, rem: l.rem})
				delete(live, l.id)
				gone[l.id] = true
			}
		default:
			u := l.uuid
			if c, ok := cur[l.id]; ok {
				u = c
			}
			ops = append(ops, op{kind: "lost", id: l.id, uuid: u, rem: l.rem})
			if live[l.id] {
				delete(live, l.id)
				gone[l.id] = true
			}
		}
	}
	if e.rng.Intn(4) == 0 {
		ops = append(ops, op{kind: "shutdown"})
	}
	return ops, "uuid-change"
}

// genRestart: the controller is shut down and executed again (`start` after `shutdown`).
func (e *engine) genRestart() ([]op, string) {
	ops := []op{{kind: "start", lp: 1}}
	mk := func(base int) []ld {
		var ls []ld
		for i := 1; i <= 2+e.rng.Intn(3); i++ {
			ls = append(ls, ld{base + i, uint64(7 + e.rng.Intn(3)), 2 + e.rng.Intn(2)})
		}
		for i := range ls {
			for j := 0; j < i; j++ {
				if ls[j].uuid == ls[i].uuid {
					ls[i].rem = ls[j].rem
				}
			}
		}
		return ls
	}
	var old []ld
	rounds := 2 + e.rng.Intn(2)
	stale := 0
	for r := 0; r < rounds; r++ {
		ls := mk(10 * r)
		est := map[int]bool{}
		lost := map[int]bool{}
		for k := 0; k < 2+e.rng.Intn(8); k++ {
			// the transport of a PREVIOUS execution reports a fresh link through its own handler (execution
			// r+1 is running): same uuids / peers as the links of the running execution; it must be closed
			// and never entered. Sometimes the report goes through the CURRENT handler by number instead.
			if r > 0 && (k == 1 || e.rng.Intn(4) == 0) && stale < 9 {
				l := ls[e.rng.Intn(len(ls))]
				g := 1 + e.rng.Intn(r)
				if e.rng.Intn(6) == 0 {
					g = r + 1
				}
				ops = append(ops, op{kind: "estvia", g: g, id: 80 + stale, uuid: l.uuid, rem: l.rem})
				stale++
				continue
			}
			// late losses of link objects of the PREVIOUS execution (same uuids as the new ones)
			if len(old) != 0 && e.rng.Intn(4) == 0 {
				l := old[e.rng.Intn(len(old))]
				ops = append(ops, op{kind: "lost", id: l.id, uuid: l.uuid, rem: l.rem})
				continue
			}
			l := ls[e.rng.Intn(len(ls))]
			if (est[l.id] && e.rng.Intn(2) == 0) || lost[l.id] {
				ops = append(ops, op{kind: "lost", id: l.id, uuid: l.uuid, rem: l.rem})
				if est[l.id] {
					lost[l.id] = true
				}
				continue
			}
			ops = append(ops, op{kind: "est", id: l.id, uuid: l.uuid, rem: l.rem})
			est[l.id] = true
		}
		if r == rounds-1 && e.rng.Intn(2) == 0 {
			break
		}
		ops = append(ops, op{kind: "shutdown"})
		if e.rng.Intn(2) == 0 {
			// while down: an establishment (fresh object) is closed, a loss is a no-op
			l := ls[e.rng.Intn(len(ls))]
			ops = append(ops, op{kind: "est", id: 60 + 10*r + l.id%10, uuid: l.uuid, rem: l.rem})
			ops = append(ops, op{kind: "lost", id: l.id, uuid: l.uuid, rem: l.rem})
			if e.rng.Intn(2) == 0 && stale < 9 {
				// … and so is one reported through the handler of any execution so far
				ops = append(ops, op{kind: "estvia", g: 1 + e.rng.Intn(r+1), id: 80 + stale, uuid: l.uuid, rem: l.rem})
				stale++
			}
		}
		if r < rounds-1 {
			ops = append(ops, op{kind: "start", lp: 1})
		}
		old = ls
	}
	return ops, "restart"
}

// genTwo: two controllers (two identities, two transports) on the same bus.
func (e *engine) genTwo() ([]op, string) {
	// every third history: both transports have the SAME identity (one key, two transports on one bus)
	lpB := peerB
	if e.rng.Intn(3) == 0 {
		lpB = peerA
	}
	ops := []op{{kind: "start", c: 0, lp: peerA}, {kind: "start", c: 1, lp: lpB}}
	if e.rng.Intn(2) == 0 {
		ops[0], ops[1] = ops[1], ops[0]
	}
	type cl struct {
		c int
		ld
	}
	var ls []cl
	for c := 0; c < 2; c++ {
		for i := 1; i <= 2+e.rng.Intn(2); i++ {
			// remote peers: 2, 3, and the OTHER local identity (a link between the two transports' peers)
			rems := []int{2, 3, 2, 3, peerB}
			if c == 1 {
				rems = []int{2, 3, 2, 3, peerA}
			}
			r := rems[e.rng.Intn(len(rems))]
			if e.rng.Intn(10) == 0 {
				r = []int{peerA, lpB}[c] // self link
			}
			// both transports use the same uuids: they are independent tables
			ls = append(ls, cl{c, ld{10*c + i, uint64(7 + e.rng.Intn(3)), r}})
		}
	}
	for i := range ls {
		for j := 0; j < i; j++ {
			if ls[j].c == ls[i].c && ls[j].uuid == ls[i].uuid {
				ls[i].rem = ls[j].rem
			}
		}
	}
	est := map[int]bool{}
	lost := map[int]bool{}
	for k := 0; k < 4+e.rng.Intn(12); k++ {
		l := ls[e.rng.Intn(len(ls))]
		kind := "est"
		if (est[l.id] && e.rng.Intn(3) == 0) || lost[l.id] {
			kind = "lost"
		}
		if kind == "est" {
			est[l.id] = true
		} else if est[l.id] {
			lost[l.id] = true
		}
		ops = append(ops, op{kind: kind, c: l.c, id: l.id, uuid: l.uuid, rem: l.rem})
	}
	if e.rng.Intn(5) == 0 {
		ops = append(ops, op{kind: "shutdown", c: e.rng.Intn(2)})
	}
	return ops, "two-controllers"
}

// genConcurrent: a sequential prefix, then one or two batches of up to 6 events fired from
// several goroutines without a barrier.
func (e *engine) genConcurrent() ([]op, string) {
	ops := []op{{kind: "start", lp: 1}}
	next := 1
	newLink := func(uuid uint64, rem int) ld {
		l := ld{next, uuid, rem}
		next++
		return l
	}
	mk := func(kind string, l ld) op { return op{kind: kind, id: l.id, uuid: l.uuid, rem: l.rem} }
	var live []ld
	// sequential prefix
	for i := 0; i < e.rng.Intn(4); i++ {
		l := newLink(uint64(7+i), 2+e.rng.Intn(2))
		ops = append(ops, mk("est", l))
		live = append(live, l)
	}
	nb := 1 + e.rng.Intn(2)
	for b := 0; b < nb; b++ {
		var gs [][]op
		switch shape := e.rng.Intn(6); shape {
		case 0: // the same new link reported by 2-3 goroutines at once (duplicate detection)
			l := newLink(uint64(20+b), 2)
			for i := 0; i < 2+e.rng.Intn(2); i++ {
				gs = append(gs, []op{mk("est", l)})
			}
			if e.rng.Intn(2) == 0 {
				gs = append(gs, []op{mk("est", newLink(l.uuid, 2))})
			}
		case 1: // two new links with one uuid race; the loss of a live link with that uuid arrives too
			u := uint64(7)
			rem := 2
			if len(live) != 0 {
				u, rem = live[0].uuid, live[0].rem
			}
			gs = append(gs, []op{mk("est", newLink(u, rem))}, []op{mk("est", newLink(u, rem))})
			if len(live) != 0 {
				gs = append(gs, []op{mk("lost", live[0])})
				live = live[1:]
			}
		case 2: // duplicate report of a live link races with its loss
			l := newLink(uint64(25+b), 3)
			ops = append(ops, mk("est", l))
			gs = append(gs, []op{mk("est", l)}, []op{mk("lost", l)})
			if e.rng.Intn(2) == 0 {
				gs = append(gs, []op{mk("lost", l)})
			}
		case 3: // one per-peer bucket: several live links to one peer lost at once while new ones arrive
			var bucket []ld
			for i := 0; i < 3+e.rng.Intn(2); i++ {
				l := newLink(uint64(40+10*b+i), 2)
				ops = append(ops, mk("est", l))
				bucket = append(bucket, l)
			}
			for i, l := range bucket {
				if i < 4 && e.rng.Intn(4) != 0 {
					gs = append(gs, []op{mk("lost", l)})
				}
			}
			gs = append(gs, []op{mk("est", newLink(uint64(48+10*b), 2)), mk("est", newLink(uint64(49+10*b), 2))})
		default: // goroutines owning disjoint link objects (shared uuids): est, dup est, lost, late lost
			ng := 2 + e.rng.Intn(3)
			total := 0
			for g := 0; g < ng && total < 6; g++ {
				var seq []op
				l := newLink(uint64(7+e.rng.Intn(2)), 2)
				k := 1 + e.rng.Intn(3)
				if total+k > 6 {
					k = 6 - total
				}
				established := false
				for i := 0; i < k; i++ {
					if established && e.rng.Intn(2) == 0 {
						seq = append(seq, mk("lost", l))
						l = newLink(uint64(7+e.rng.Intn(2)), 2)
						established = false
						continue
					}
					seq = append(seq, mk("est", l))
					established = true
				}
				total += len(seq)
				gs = append(gs, seq)
			}
		}
		ops = append(ops, op{kind: "batch", batch: gs, gate: e.rng.Intn(2) == 0})
		if e.rng.Intn(2) == 0 {
			ops = append(ops, mk("est", newLink(uint64(7+e.rng.Intn(3)), 2+e.rng.Intn(2))))
		}
	}
	return ops, "concurrent"
}

// stress is one history with n rounds of "the same new link reported by three goroutines at
// once, while the loss of the previous round's link arrives".
func stress(n int) []op {
	ops := []op{{kind: "start", lp: 1}}
	for i := 0; i < n; i++ {
		l := op{kind: "est", id: 100 + i, uuid: uint64(7 + i%2), rem: 2}
		gs := [][]op{{l}, {l}, {l}}
		if i > 0 {
			gs = append(gs, []op{{kind: "lost", id: 100 + i - 1, uuid: uint64(7 + (i-1)%2), rem: 2}})
		}
		ops = append(ops, op{kind: "batch", batch: gs, gate: i%4 == 3})
	}
	return ops
}

func (e *engine) run() {
	e.rep.Rule = "histories of 3–25 link events over 2–5 fake link objects sharing 2–4 uuids and 2 remote peers (+ the local peers), up to 5 live links in one per-peer bucket: well-ordered, late/duplicate/never-established losses, same-uuid replacement, shutdown, restart after shutdown, anything-goes (est-after-lost), links whose uuid changes after establishment (HandleLinkLost slow path: uuid entry absent / another link object), two controllers with two identities on one bus, and batches of ≤ 6 events fired from 2–4 goroutines without a barrier (spin barrier or all queued behind the held lock, GetPeerLinks readers hammering the lock; accepted iff the tables are the model's result for an interleaving that keeps per-goroutine order, and for the observed order of the critical sections); every value ever emitted to an EstablishLinkWithPeer handler is checked; engine built with -race (a race report or a fatal runtime error is a confirmed disagreement); each history runs on fresh real Controllers + bus; distinct = distinct history"
	e.rep.Require("hist.random", "hist.shutdown", "hist.unordered", "hist.uuid-change", "hist.restart", "hist.two-controllers", "hist.concurrent",
		"conc.linearize", "conc.trace", "resolve.nonempty", "resolve.empty", "get")
	L := func(kind string, id int, uuid uint64, rem int) op {
		return op{kind: kind, id: id, uuid: uuid, rem: rem}
	}
	LB := func(kind string, id int, uuid uint64, rem int) op {
		return op{kind: kind, c: 1, id: id, uuid: uuid, rem: rem}
	}
	start := op{kind: "start", lp: 1}
	startB := op{kind: "start", c: 1, lp: peerB}
	// mutation sentinels (corpus): the histories that distinguish the obvious wrong variants
	type sent struct {
		gen string
		ops []op
	}
	sentinels := []sent{
		{"random", []op{start, L("est", 1, 7, 2), L("est", 2, 7, 2), L("lost", 1, 7, 2)}},
		{"random", []op{start, L("est", 1, 7, 2), L("est", 1, 7, 2), L("lost", 1, 7, 2), L("lost", 1, 7, 2)}},
		{"random", []op{start, L("est", 1, 7, 1), L("est", 2, 8, 2)}},
		{"random", []op{start, L("est", 1, 7, 2), L("est", 2, 8, 2), L("est", 3, 9, 3), L("lost", 2, 8, 2)}},
		{"shutdown", []op{start, L("est", 1, 7, 2), {kind: "shutdown"}, L("est", 2, 8, 2)}},
		// three and four links in one per-peer bucket; lose the first, a middle one, the last
		{"random", []op{start, L("est", 1, 7, 2), L("est", 2, 8, 2), L("est", 3, 9, 2), L("lost", 1, 7, 2), L("est", 4, 10, 2), L("lost", 3, 9, 2)}},
		{"random", []op{start, L("est", 1, 7, 2), L("est", 2, 8, 2), L("est", 3, 9, 2), L("est", 4, 10, 2), L("lost", 2, 8, 2), L("lost", 4, 10, 2), L("lost", 1, 7, 2)}},
		// "anything goes" without an establishment after a loss
		{"unordered", []op{start, L("lost", 1, 7, 2), L("lost", 2, 8, 3), L("est", 3, 9, 2), L("lost", 3, 9, 2), L("lost", 3, 9, 2)}},
		// uuid changes after establishment: the slow path finds the link by identity when the
		// uuid entry is absent …
		{"uuid-change", []op{start, L("est", 1, 7, 2), L("est", 2, 8, 3), {kind: "reuuid", id: 1, uuid: 31}, L("lost", 1, 31, 2)}},
		// … and when the uuid entry is ANOTHER live link (which must survive, in both tables)
		{"uuid-change", []op{start, L("est", 1, 7, 2), L("est", 2, 8, 3), {kind: "reuuid", id: 1, uuid: 8}, L("lost", 1, 8, 2), L("lost", 2, 8, 3)}},
		{"uuid-change", []op{start, L("est", 1, 7, 2), L("est", 2, 8, 2), {kind: "reuuid", id: 1, uuid: 8}, L("lost", 1, 8, 2)}},
		// … and a link whose uuid changed is still flushed on shutdown, and replaced under its stored uuid
		{"uuid-change", []op{start, L("est", 1, 7, 2), {kind: "reuuid", id: 1, uuid: 31}, {kind: "shutdown"}, start, L("est", 2, 7, 2)}},
		{"uuid-change", []op{start, L("est", 1, 7, 2), {kind: "reuuid", id: 1, uuid: 31}, L("est", 2, 7, 2), L("lost", 1, 31, 2)}},
		// restart: the tables of the previous execution are gone, late losses of its links are no-ops
		{"restart", []op{start, L("est", 1, 7, 2), L("est", 2, 8, 3), {kind: "shutdown"}, start, L("est", 11, 7, 2), L("lost", 1, 7, 2), L("lost", 2, 8, 3)}},
		{"restart", []op{start, L("est", 1, 7, 2), {kind: "shutdown"}, L("est", 61, 7, 2), start, L("est", 11, 8, 2), {kind: "shutdown"}, start, L("est", 21, 8, 3)}},
		// restart, and the transport of the FIRST execution keeps reporting through its own handler: fresh
		// links with the uuid of a live link, of no link, while down; all closed, none entered; a report by
		// number through the handler of the running execution is an ordinary one
		{"restart", []op{start, L("est", 1, 7, 2), {kind: "shutdown"}, start, L("est", 11, 7, 2),
			{kind: "estvia", g: 1, id: 81, uuid: 7, rem: 2}, {kind: "estvia", g: 1, id: 82, uuid: 8, rem: 3}, {kind: "estvia", g: 1, id: 83, uuid: 7, rem: 2},
			{kind: "estvia", g: 1, id: 84, uuid: 9, rem: 2}, {kind: "estvia", g: 1, id: 85, uuid: 7, rem: 2}, {kind: "estvia", g: 1, id: 86, uuid: 10, rem: 3},
			{kind: "estvia", g: 2, id: 12, uuid: 11, rem: 3}, {kind: "shutdown"}, {kind: "estvia", g: 1, id: 87, uuid: 7, rem: 2}, {kind: "estvia", g: 2, id: 88, uuid: 7, rem: 2},
			start, {kind: "estvia", g: 2, id: 89, uuid: 7, rem: 2}, {kind: "estvia", g: 1, id: 90, uuid: 7, rem: 2}, {kind: "estvia", g: 3, id: 21, uuid: 7, rem: 2}}},
		// two transports on one bus: links from S1 and from S2 to the same remote peer, a link
		// between the two local identities, self links of each
		{"two-controllers", []op{start, startB, L("est", 1, 7, 2), LB("est", 11, 7, 2), L("est", 2, 8, peerB), LB("est", 12, 8, peerA), LB("est", 13, 9, peerB), L("est", 3, 9, peerA), LB("est", 14, 10, 3)}},
		// one identity, two transports: the same uuids in both, a request from that identity yields the links of
		// both, a link to the identity itself is a self link on either
		{"two-controllers", []op{start, {kind: "start", c: 1, lp: peerA}, L("est", 1, 7, 2), LB("est", 11, 7, 2), LB("est", 12, 8, 3), L("est", 2, 8, peerB), LB("est", 13, 9, peerA), L("est", 3, 9, peerA), LB("lost", 11, 7, 2)}},
		{"two-controllers", []op{startB, start, LB("est", 11, 7, 2), LB("est", 12, 8, 2), L("est", 1, 7, 3), LB("lost", 11, 7, 2), {kind: "shutdown", c: 1}}},
		// concurrency sentinels (ungated: the goroutines leave a spin barrier together; gated: their
		// first events pile up behind the held lock)
		{"concurrent", []op{start, {kind: "batch", batch: [][]op{{L("est", 1, 7, 2)}, {L("est", 1, 7, 2)}, {L("est", 1, 7, 2)}}}}},
		{"concurrent", []op{start, {kind: "batch", gate: true, batch: [][]op{{L("est", 1, 7, 2)}, {L("est", 1, 7, 2)}, {L("est", 1, 7, 2)}}}}},
		{"concurrent", []op{start, L("est", 1, 7, 2), {kind: "batch", batch: [][]op{{L("est", 2, 7, 2)}, {L("est", 3, 7, 2)}, {L("lost", 1, 7, 2)}}}}},
		{"concurrent", []op{start, L("est", 1, 7, 2), {kind: "batch", gate: true, batch: [][]op{{L("est", 2, 7, 2)}, {L("est", 3, 7, 2)}, {L("lost", 1, 7, 2)}}}}},
		{"concurrent", []op{start, L("est", 1, 7, 2), L("est", 2, 8, 2), L("est", 3, 9, 2), {kind: "batch", gate: true, batch: [][]op{{L("lost", 1, 7, 2)}, {L("lost", 2, 8, 2)}, {L("lost", 3, 9, 2)}, {L("est", 4, 10, 2), L("est", 5, 11, 2)}}}}},
		{"concurrent", []op{start, {kind: "batch", batch: [][]op{{L("est", 1, 7, 2), L("lost", 1, 7, 2)}, {L("est", 2, 7, 2), L("lost", 2, 7, 2)}, {L("est", 3, 8, 3)}}}}},
		{"concurrent", []op{start, startB, {kind: "batch", gate: true, batch: [][]op{{L("est", 1, 7, 2), LB("est", 11, 7, 2)}, {LB("est", 12, 7, 2), L("est", 2, 7, 2)}}}}},
		// many rounds of the duplicate-report race on one controller
		{"concurrent", stress(40)},
	}
	for _, s := range sentinels {
		e.runHistory(s.ops, s.gen)
	}
	// the known-finding witness (strict reading of "a lost link is never reported again")
	e.runHistory([]op{start, L("lost", 1, 7, 2), L("est", 1, 7, 2)}, "est-after-lost")
	n := 40 * e.a.Scale
	for i := 0; i < n; i++ {
		mode := []int{0, 1, 1, 0, 3}[i%5]
		ops, gen := e.genHistory(mode)
		e.runHistory(ops, gen)
	}
	// the audited holes: mode 2, uuid change, restart, two controllers, concurrency
	n2 := 60 * e.a.Scale
	for i := 0; i < n2; i++ {
		var ops []op
		var gen string
		switch []int{2, 4, 5, 6, 7, 7}[i%6] {
		case 2:
			ops, gen = e.genHistory(2)
		case 4:
			ops, gen = e.genUuidChange()
		case 5:
			ops, gen = e.genRestart()
		case 6:
			ops, gen = e.genTwo()
		case 7:
			ops, gen = e.genConcurrent()
		}
		e.runHistory(ops, gen)
	}
}

// supervise runs the engine proper as a child process. Two things cannot be handled inside the
// process that runs the real code: the race detector is configured through GORACE at process
// start (log to a file, keep running: a race report becomes a disagreement of the history
// during which it was written), and a fatal runtime error ("concurrent map read and map
// write", deadlock) kills the process. If the child dies, the supervisor writes the report:
// the history that was running is a confirmed failing input.
func supervise(a *lib.Args) {
	self, err := os.Executable()
	if err != nil {
		panic(err)
	}
	base := filepath.Join(os.TempDir(), fmt.Sprintf("verif-links-%d", os.Getpid()))
	progress := base + ".progress"
	defer os.Remove(progress)
	cmd := exec.Command(self, os.Args[1:]...)
	cmd.Env = append(os.Environ(), "VERIF_LINKS_CHILD=1", "VERIF_LINKS_PROGRESS="+progress)
	if raceEnabled {
		cmd.Env = append(cmd.Env, "GORACE=halt_on_error=0 exitcode=0 log_path="+base+".race", "VERIF_LINKS_RACELOG="+base+".race")
	}
	var tail tailBuf
	cmd.Stdout = os.Stdout
	cmd.Stderr = &tail
	err = cmd.Run()
	matches, _ := filepath.Glob(base + ".race.*")
	for _, m := range matches {
		os.Remove(m)
	}
	if err == nil {
		return
	}
	// the child died
	os.Stderr.Write(tail.buf)
	hist := "(before the first history)"
	if dat, rerr := os.ReadFile(progress); rerr == nil && len(dat) != 0 {
		hist = string(dat)
	}
	what := "fatal error"
	for _, ln := range strings.Split(string(tail.buf), "\n") {
		if strings.HasPrefix(ln, "fatal error:") || strings.HasPrefix(ln, "panic:") {
			what = strings.TrimSpace(ln)
			break
		}
	}
	inCtrl := strings.Contains(string(tail.buf), "bifrost/transport/controller")
	rep := lib.NewReport("links", a)
	rep.Rule = "engine process died"
	mon := ""
	if inCtrl {
		mon = "the process running the real transport controller died (" + what + ", frames in transport/controller) while delivering the link events of history " + hist
	}
	rep.Compare("links.crash "+hist, "alive", "died: "+what, "crash", "links.conc:crash", mon)
	rep.Notes = append(rep.Notes, "child stderr tail: "+lib.Trunc(string(tail.buf)))
	rep.Write(a.Out)
}

// tailBuf keeps the first 64 KiB written to it.
type tailBuf struct{ buf []byte }

func (t *tailBuf) Write(p []byte) (int, error) {
	if len(t.buf) < 64<<10 {
		t.buf = append(t.buf, p...)
	}
	return len(p), nil
}

func main() {
	a := lib.ParseArgs()
	if os.Getenv("VERIF_LINKS_CHILD") == "" {
		supervise(a)
		return
	}
	lg := logrus.New()
	lg.SetLevel(logrus.PanicLevel)
	lg.SetOutput(io.Discard)
	e := &engine{a: a, rng: lib.NewRng(a.Seed), m: lib.NewModel(a.Driver), le: logrus.NewEntry(lg)}
	e.rep = lib.NewReport("links", a)
	e.progress = os.Getenv("VERIF_LINKS_PROGRESS")
	if p := os.Getenv("VERIF_LINKS_RACELOG"); p != "" {
		e.raceLog = p + "." + strconv.Itoa(os.Getpid())
	}
	e.rep.Extra["race_detector"] = raceEnabled
	transport_controller.VerifSetOpHook(e.onOp)
	switch a.Prop {
	case "C04", "C06":
		e.run()
	default:
		fmt.Println("unknown property", a.Prop)
		return
	}
	e.m.Close()
	e.rep.Write(a.Out)
}
