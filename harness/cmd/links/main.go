// Command links is the correspondence engine for C04 and C06: it drives the REAL
// transport_controller.Controller (on a real controller bus with a peer controller) through a
// fake transport and fake links, and compares the link tables, GetPeerLinks, the values of
// EstablishLinkWithPeer directives and the set of closed links with the Lean model after every
// history.
package main

import (
	"context"
	"fmt"
	"io"
	"sort"
	"strconv"
	"strings"
	"sync"
	"time"

	"github.com/aperturerobotics/bifrost/crypto"
	"github.com/aperturerobotics/bifrost/link"
	"github.com/aperturerobotics/bifrost/peer"
	"github.com/aperturerobotics/bifrost/stream"
	"github.com/aperturerobotics/bifrost/testbed"
	"github.com/aperturerobotics/bifrost/transport"
	transport_controller "github.com/aperturerobotics/bifrost/transport/controller"
	"github.com/aperturerobotics/controllerbus/controller"
	"github.com/aperturerobotics/controllerbus/directive"
	"github.com/blang/semver/v4"
	"github.com/sirupsen/logrus"

	"verif/harness/lib"
)

type fakeLink struct {
	id            int
	uuid          uint64
	local, remote peer.ID
	mtx           sync.Mutex
	closed        bool
	closeCh       chan struct{}
	opens         int
}

func newFakeLink(id int, uuid uint64, local, remote peer.ID) *fakeLink {
	return &fakeLink{id: id, uuid: uuid, local: local, remote: remote, closeCh: make(chan struct{})}
}
func (f *fakeLink) GetUUID() uint64                                 { return f.uuid }
func (f *fakeLink) GetTransportUUID() uint64                        { return 99 }
func (f *fakeLink) OpenStream(stream.OpenOpts) (stream.Stream, error) {
	f.mtx.Lock()
	f.opens++
	f.mtx.Unlock()
	return nil, io.EOF
}
func (f *fakeLink) openCount() int { f.mtx.Lock(); defer f.mtx.Unlock(); return f.opens }
func (f *fakeLink) AcceptStream() (stream.Stream, stream.OpenOpts, error) {
	<-f.closeCh
	return nil, stream.OpenOpts{}, io.EOF
}
func (f *fakeLink) GetRemotePeer() peer.ID          { return f.remote }
func (f *fakeLink) GetLocalPeer() peer.ID           { return f.local }
func (f *fakeLink) GetRemoteTransportUUID() uint64  { return 98 }
func (f *fakeLink) Close() error {
	f.mtx.Lock()
	if !f.closed {
		f.closed = true
		close(f.closeCh)
	}
	f.mtx.Unlock()
	return nil
}
func (f *fakeLink) isClosed() bool { f.mtx.Lock(); defer f.mtx.Unlock(); return f.closed }

type fakeTransport struct {
	pid peer.ID
}

func (t *fakeTransport) Execute(ctx context.Context) error { <-ctx.Done(); return nil }
func (t *fakeTransport) GetUUID() uint64                   { return 99 }
func (t *fakeTransport) GetPeerID() peer.ID                { return t.pid }
func (t *fakeTransport) Close() error                      { return nil }

// observer tracks the current values of one EstablishLinkWithPeer directive.
type observer struct {
	mtx  sync.Mutex
	vals map[uint32]link.MountedLink
	bad  string
	src  int
	dst  int
	ref  directive.Reference
}

func (o *observer) HandleValueAdded(_ directive.Instance, v directive.AttachedValue) {
	ml, ok := v.GetValue().(link.MountedLink)
	o.mtx.Lock()
	if !ok {
		o.bad = "value is not a MountedLink"
	} else {
		o.vals[v.GetValueID()] = ml
	}
	o.mtx.Unlock()
}
func (o *observer) HandleValueRemoved(_ directive.Instance, v directive.AttachedValue) {
	o.mtx.Lock()
	delete(o.vals, v.GetValueID())
	o.mtx.Unlock()
}
func (o *observer) HandleInstanceDisposed(directive.Instance) {}

type op struct {
	kind string
	id   int
	uuid uint64
	rem  int
	lp   int
}

func (o op) String() string {
	switch o.kind {
	case "start":
		return "start:" + strconv.Itoa(o.lp)
	case "shutdown":
		return "shutdown"
	}
	return fmt.Sprintf("%s:%d:%d:%d", o.kind, o.id, o.uuid, o.rem)
}

type engine struct {
	a   *lib.Args
	rng *lib.Rng
	m   *lib.Model
	rep *lib.Report
	le  *logrus.Entry
}

func idsOf(m map[int]bool) string {
	var l []int
	for k := range m {
		l = append(l, k)
	}
	sort.Ints(l)
	if len(l) == 0 {
		return "_"
	}
	s := make([]string, len(l))
	for i := range l {
		s[i] = strconv.Itoa(l[i])
	}
	return strings.Join(s, ",")
}

// runHistory executes one history against a fresh controller and returns the canonical
// observation plus the monitor verdict.
func (e *engine) runHistory(ops []op, gen string) {
	ctx, cancel := context.WithCancel(context.Background())
	defer cancel()
	tb, err := testbed.NewTestbed(ctx, e.le, testbed.TestbedOpts{NoEcho: true})
	if err != nil {
		panic(err)
	}
	defer tb.Release()
	localID := tb.PeerID
	peerOf := func(i int) peer.ID {
		switch i {
		case 0:
			return ""
		case 1:
			return localID
		}
		return peer.ID(fmt.Sprintf("fake-remote-peer-%d", i))
	}
	var handler transport.TransportHandler
	handlerCh := make(chan struct{})
	ctor := func(cctx context.Context, le *logrus.Entry, pkey crypto.PrivKey, h transport.TransportHandler) (transport.Transport, error) {
		handler = h
		close(handlerCh)
		return &fakeTransport{pid: localID}, nil
	}
	info := controller.NewInfo("verif/fake-transport", semver.MustParse("0.0.1"), "fake transport")
	ctrl := transport_controller.NewController(e.le, tb.Bus, info, localID, false, ctor)

	links := map[int]*fakeLink{}
	getLink := func(o op) *fakeLink {
		if l, ok := links[o.id]; ok {
			return l
		}
		l := newFakeLink(o.id, o.uuid, localID, peerOf(o.rem))
		links[o.id] = l
		return l
	}
	var ctrlCancel context.CancelFunc
	var ctrlDone chan struct{}
	base := transport_controller.VerifOpsDone()
	issued := int64(0)
	started := false
	var observers []*observer
	waitOps := func() bool {
		deadline := time.Now().Add(5 * time.Second)
		for transport_controller.VerifOpsDone()-base < issued {
			if time.Now().After(deadline) {
				return false
			}
			time.Sleep(50 * time.Microsecond)
		}
		return true
	}
	stuck := ""
	for _, o := range ops {
		switch o.kind {
		case "start":
			if started {
				continue
			}
			started = true
			// requests for links arrive both BEFORE the transport is constructed (the early filter in
			// resolveEstablishLink cannot apply yet) and after it is up
			addObservers := func(srcs []int) {
				for _, src := range srcs {
					for _, dst := range []int{1, 2, 3} {
						ob := &observer{vals: map[uint32]link.MountedLink{}, src: src, dst: dst}
						_, ref, err := tb.Bus.AddDirective(link.NewEstablishLinkWithPeer(peerOf(src), peerOf(dst)), ob)
						if err != nil {
							panic(err)
						}
						ob.ref = ref
						observers = append(observers, ob)
					}
				}
			}
			early := []int{0, 1, 2}
			late := []int{0, 1, 2}
			if e.rng.Intn(2) == 0 {
				early, late = []int{2}, []int{0, 1}
			}
			addObservers(early)
			var cctx context.Context
			cctx, ctrlCancel = context.WithCancel(ctx)
			ctrlDone = make(chan struct{})
			go func() {
				_ = tb.Bus.ExecuteController(cctx, ctrl)
				close(ctrlDone)
			}()
			select {
			case <-handlerCh:
			case <-time.After(5 * time.Second):
				panic("controller did not construct transport")
			}
			if _, err := ctrl.GetTransport(ctx); err != nil {
				panic(err)
			}
			addObservers(late)
		case "shutdown":
			if ctrlCancel != nil {
				ctrlCancel()
				select {
				case <-ctrlDone:
				case <-time.After(5 * time.Second):
					stuck = "controller did not exit"
				}
				ctrlCancel = nil
			}
		case "est":
			if handler == nil {
				continue
			}
			if ctrlCancel == nil {
				// transport exited: the handler returns before its critical section
				handler.HandleLinkEstablished(getLink(o))
				continue
			}
			issued++
			handler.HandleLinkEstablished(getLink(o))
			if !waitOps() {
				stuck = "HandleLinkEstablished critical section did not complete"
			}
		case "lost":
			if handler == nil {
				continue
			}
			issued++
			handler.HandleLinkLost(getLink(o))
			if !waitOps() {
				stuck = "HandleLinkLost critical section did not complete"
			}
		}
	}
	var ss []string
	for _, o := range ops {
		ss = append(ss, o.String())
	}
	opline := "links.hist ops=" + strings.Join(ss, ",")
	model := e.m.Query(opline)
	mLive := lib.KV(model, "live")
	mClosed := lib.KV(model, "closed")

	spec := lib.KV(model, "spec")

	// wait for quiescence: tables, closes and directive values as the model predicts (or timeout)
	observe := func() (string, string, string) {
		byUUID, byPeer := ctrl.VerifSnapshot()
		live := map[int]bool{}
		for _, l := range byUUID {
			live[l.(*fakeLink).id] = true
		}
		bp := map[int]bool{}
		for _, ls := range byPeer {
			for _, l := range ls {
				bp[l.(*fakeLink).id] = true
			}
		}
		cl := map[int]bool{}
		for id, l := range links {
			if l.isClosed() {
				cl[id] = true
			}
		}
		return idsOf(live), idsOf(bp), idsOf(cl)
	}
	deadline := time.Now().Add(3 * time.Second)
	var live, bp, cl string
	for {
		live, bp, cl = observe()
		if live == mLive && bp == lib.KV(model, "bypeer") && cl == mClosed {
			break
		}
		if time.Now().After(deadline) {
			break
		}
		time.Sleep(200 * time.Microsecond)
	}
	impl := fmt.Sprintf("live=%s bypeer=%s closed=%s", live, bp, cl)
	modelCmp := fmt.Sprintf("live=%s bypeer=%s closed=%s", mLive, lib.KV(model, "bypeer"), mClosed)
	mon := stuck
	wantLive, everLost := replaySpec(ops)
	key := "links.hist:" + gen
	if mon == "" && live != idsOf(wantLive) {
		mon = fmt.Sprintf("after history %s the controller reports links {%s} but the links established and not yet lost are {%s}", strings.Join(ss, ","), live, idsOf(wantLive))
	}
	if mon == "" && bp != live {
		mon = "links-by-peer table differs from links-by-uuid table"
	}
	// the strict reading: a link already reported lost is never reported again
	if mon == "" {
		for id := range wantLive {
			if everLost[id] && gen == "est-after-lost" && e.a.Prop == "C06" {
				mon = fmt.Sprintf("link %d is reported although it was reported lost before its establishment was processed (history %s)", id, strings.Join(ss, ","))
				key = "links.hist:est-after-lost"
			}
		}
	}
	br := "hist." + gen
	if spec != mLive {
		// model and spec disagree: the refinement theorem does not cover this history shape
		br = "hist.model-spec-differ"
	}
	e.rep.Compare(opline, modelCmp, impl, br, key, mon)

	// C04: directive values + GetPeerLinks
	if ctrlCancel != nil {
		for _, ob := range observers {
			rop := fmt.Sprintf("links.resolve ops=%s src=%d dst=%d", strings.Join(ss, ","), ob.src, ob.dst)
			rm := e.m.Query(rop)
			var got string
			var bad string
			dl := time.Now().Add(3 * time.Second)
			for {
				ob.mtx.Lock()
				ids := map[int]bool{}
				bad = ob.bad
				for _, ml := range ob.vals {
					// property monitor: only links between the requested peers
					if ml.GetRemotePeer() != peerOf(ob.dst) {
						bad = "link to " + ml.GetRemotePeer().String() + " yielded for a request to peer " + strconv.Itoa(ob.dst)
					}
					if ob.src != 0 && ml.GetLocalPeer() != peerOf(ob.src) {
						bad = "link from " + ml.GetLocalPeer().String() + " yielded for a request from peer " + strconv.Itoa(ob.src)
					}
					if ml.GetRemotePeer() == localID {
						bad = "a link to the local peer itself was yielded"
					}
					// which link OBJECT does this value wrap? OpenMountedStream reaches the link's OpenStream
					before := map[int]int{}
					for id, l := range links {
						before[id] = l.openCount()
					}
					_, _ = ml.OpenMountedStream(ctx, "verif/probe", stream.OpenOpts{})
					for id, l := range links {
						if l.openCount() != before[id] {
							ids[id] = true
							if !wantLive[id] {
								bad = fmt.Sprintf("request for a link to peer %d still yields link %d although that link was lost/closed", ob.dst, id)
							}
						}
					}
				}
				ob.mtx.Unlock()
				got = "ok " + idsOf(ids)
				if got == rm || time.Now().After(dl) {
					break
				}
				time.Sleep(200 * time.Microsecond)
			}
			e.rep.Compare(rop, rm, got, "resolve."+map[bool]string{true: "empty", false: "nonempty"}[rm == "ok _"], "links.resolve", bad)
		}
		for _, p := range []int{1, 2, 3} {
			gop := fmt.Sprintf("links.get ops=%s p=%d", strings.Join(ss, ","), p)
			gm := e.m.Query(gop)
			ids := map[int]bool{}
			bad := ""
			for _, l := range ctrl.GetPeerLinks(peerOf(p)) {
				ids[l.(*fakeLink).id] = true
				if l.GetRemotePeer() != peerOf(p) {
					bad = "GetPeerLinks returned a link to another peer"
				}
			}
			e.rep.Compare(gop, gm, "ok "+idsOf(ids), "get", "links.get", bad)
		}
	}
	for _, ob := range observers {
		ob.ref.Release()
	}
	if ctrlCancel != nil {
		ctrlCancel()
		<-ctrlDone
	}
}


// replaySpec replays a history against the plain statement of the property: the set of links
// established and not yet lost (a newer link with the same uuid replaces the older one).
func replaySpec(ops []op) (map[int]bool, map[int]bool) {
	wantLive := map[int]bool{}
	uu := map[int]uint64{}
	running := false
	everLost := map[int]bool{}
	for _, o := range ops {
		switch o.kind {
		case "start":
			running = true
		case "shutdown":
			running = false
			wantLive = map[int]bool{}
		case "est":
			if !running || o.rem == 1 {
				continue
			}
			if wantLive[o.id] {
				continue
			}
			for id := range wantLive {
				if uu[id] == o.uuid {
					delete(wantLive, id)
				}
			}
			wantLive[o.id] = true
			uu[o.id] = o.uuid
		case "lost":
			delete(wantLive, o.id)
			everLost[o.id] = true
		}
	}
	return wantLive, everLost
}

func (e *engine) genHistory(mode int) ([]op, string) {
	ops := []op{{kind: "start", lp: 1}}
	gen := "random"
	nl := 2 + e.rng.Intn(3)
	type ld struct {
		id   int
		uuid uint64
		rem  int
	}
	var ls []ld
	for i := 1; i <= nl; i++ {
		u := uint64(7 + e.rng.Intn(2)) // few uuids: collisions are the point
		r := 2 + e.rng.Intn(2)
		if e.rng.Intn(8) == 0 {
			r = 1 // self link
		}
		ls = append(ls, ld{i, u, r})
	}
	// links sharing a uuid must name the same remote peer for the ordinary shapes (uuid is derived from it)
	for i := range ls {
		for j := 0; j < i; j++ {
			if ls[j].uuid == ls[i].uuid && mode != 3 {
				ls[i].rem = ls[j].rem
			}
		}
	}
	established := map[int]bool{}
	lost := map[int]bool{}
	n := 3 + e.rng.Intn(22)
	for k := 0; k < n; k++ {
		l := ls[e.rng.Intn(len(ls))]
		kind := "est"
		switch mode {
		case 0: // well-ordered: est before lost, no re-est after lost
			if established[l.id] && e.rng.Intn(2) == 0 {
				kind = "lost"
			}
			if lost[l.id] {
				kind = "lost" // duplicate loss
			}
		case 1, 3: // late / out-of-order losses across links, duplicates
			if established[l.id] && e.rng.Intn(2) == 0 {
				kind = "lost"
			}
			if lost[l.id] {
				kind = "lost"
			}
			if !established[l.id] && e.rng.Intn(6) == 0 {
				kind = "lost-never"
			}
		case 2: // anything goes (est after lost included)
			if e.rng.Intn(2) == 0 {
				kind = "lost"
			}
		}
		if kind == "lost-never" {
			// loss of a link object that is never established
			ops = append(ops, op{kind: "lost", id: 90 + l.id, uuid: l.uuid, rem: l.rem})
			continue
		}
		if kind == "est" {
			if lost[l.id] && mode != 2 {
				continue
			}
			established[l.id] = true
		} else {
			if established[l.id] {
				lost[l.id] = true
			}
		}
		ops = append(ops, op{kind: kind, id: l.id, uuid: l.uuid, rem: l.rem})
		if e.rng.Intn(25) == 0 {
			ops = append(ops, op{kind: "shutdown"})
			gen = "shutdown"
			// after shutdown further est must be closed
			l2 := ls[e.rng.Intn(len(ls))]
			ops = append(ops, op{kind: "est", id: 50 + l2.id, uuid: l2.uuid, rem: l2.rem})
			break
		}
	}
	if mode == 2 {
		gen = "unordered"
		seenLost := map[int]bool{}
		for _, o := range ops {
			if o.kind == "lost" {
				seenLost[o.id] = true
			}
			if o.kind == "est" && seenLost[o.id] {
				gen = "est-after-lost"
			}
		}
	}
	if mode == 3 {
		gen = "uuid-shared-across-peers"
	}
	return ops, gen
}

func (e *engine) run() {
	e.rep.Rule = "histories of 3–25 link events over 2–4 fake link objects sharing 2 uuids and 2 remote peers (+ the local peer): well-ordered, late/duplicate/never-established losses, same-uuid replacement, shutdown, est-after-lost; each run on a fresh real Controller + bus; distinct = distinct history"
	e.rep.Require("hist.random", "hist.shutdown", "resolve.nonempty", "resolve.empty", "get")
	// mutation sentinels (corpus): the histories that distinguish the obvious wrong variants
	sentinels := [][]op{
		{{kind: "start", lp: 1}, {kind: "est", id: 1, uuid: 7, rem: 2}, {kind: "est", id: 2, uuid: 7, rem: 2}, {kind: "lost", id: 1, uuid: 7, rem: 2}},
		{{kind: "start", lp: 1}, {kind: "est", id: 1, uuid: 7, rem: 2}, {kind: "est", id: 1, uuid: 7, rem: 2}, {kind: "lost", id: 1, uuid: 7, rem: 2}, {kind: "lost", id: 1, uuid: 7, rem: 2}},
		{{kind: "start", lp: 1}, {kind: "est", id: 1, uuid: 7, rem: 1}, {kind: "est", id: 2, uuid: 8, rem: 2}},
		{{kind: "start", lp: 1}, {kind: "est", id: 1, uuid: 7, rem: 2}, {kind: "est", id: 2, uuid: 8, rem: 2}, {kind: "est", id: 3, uuid: 9, rem: 3}, {kind: "lost", id: 2, uuid: 8, rem: 2}},
		{{kind: "start", lp: 1}, {kind: "est", id: 1, uuid: 7, rem: 2}, {kind: "shutdown"}, {kind: "est", id: 2, uuid: 8, rem: 2}},
	}
	for _, s := range sentinels {
		g := "random"
		for _, o := range s {
			if o.kind == "shutdown" {
				g = "shutdown"
			}
		}
		e.runHistory(s, g)
	}
	// the known-finding witness (strict reading of "a lost link is never reported again")
	e.runHistory([]op{{kind: "start", lp: 1}, {kind: "lost", id: 1, uuid: 7, rem: 2}, {kind: "est", id: 1, uuid: 7, rem: 2}}, "est-after-lost")
	n := 40 * e.a.Scale
	for i := 0; i < n; i++ {
		mode := []int{0, 1, 1, 0, 3}[i%5]
		ops, gen := e.genHistory(mode)
		e.runHistory(ops, gen)
	}
}

func main() {
	a := lib.ParseArgs()
	lg := logrus.New()
	lg.SetLevel(logrus.PanicLevel)
	lg.SetOutput(io.Discard)
	e := &engine{a: a, rng: lib.NewRng(a.Seed), m: lib.NewModel(a.Driver), le: logrus.NewEntry(lg)}
	e.rep = lib.NewReport("links", a)
	switch a.Prop {
	case "C04", "C06":
		e.run()
	default:
		fmt.Println("unknown property", a.Prop)
		return
	}
	e.m.Close()
	e.rep.Write(a.Out)
}
