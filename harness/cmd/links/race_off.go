//go:build !race

package main

// raceEnabled reports that the engine was built with the Go race detector.
const raceEnabled = false
