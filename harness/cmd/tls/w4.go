// Wave 4: the EXPECTED-PEER argument in forms other than "the identity id of a real Ed25519 key".
//
// The clause: a handshake / link with an expected peer is never accepted or reported for another
// peer — whatever the form of the expected id. ConfigForPeer / HandleConn / DialPeer take a
// peer.ID (a string) that nothing validates, and peer.IDFromBytes only checks the multihash
// framing. So the expected id also ranges over ids that are well formed but from which THIS build
// cannot extract a key (hashed sha2-256 ids, also the hashed id of the very key that answers;
// identity ids embedding an RSA / unknown-typed / wrong-length / garbage key message), alias
// encodings of the answering key's message (field order, trailing unknown field, non-minimal
// varint), and framing accidents (truncated, extended). None of them equals the id derived from
// the presented key, so every one must be refused (refusing such ids outright is fine); an
// implementation that turns the expected id into a key first and skips the check when that fails
// (or compares keys instead of ids) accepts whoever answers.
package main

import (
	"crypto/sha256"

	"github.com/aperturerobotics/bifrost/peer"
)

type oddID struct {
	name string
	id   peer.ID
}

func mh(code byte, digest []byte) peer.ID {
	return peer.ID(append([]byte{code, byte(len(digest))}, digest...))
}

// oddIDs: expected ids derived from the raw Ed25519 key `pub` (the key that will answer) and from
// random bytes; every one differs from specID(pub).
func (e *engine) oddIDs(pub []byte) []oddID {
	proto := specKeyProto(pub)
	h := sha256.Sum256(proto)
	rh := e.rng.Bytes(32)
	rsaMsg := append([]byte{0x08, 0x00, 0x12, 0x20}, e.rng.Bytes(32)...) // KeyType RSA (=0), no unmarshaller registered
	rsaSame := append([]byte{0x08, 0x00, 0x12, 0x20}, pub...)            // RSA-typed message carrying the answering key's bytes
	unkType := append([]byte{0x08, 0x07, 0x12, 0x20}, pub...)            // key type outside the enum
	short := append([]byte{0x08, 0x01, 0x12, 0x1f}, pub[:31]...)         // Ed25519-typed, 31 data bytes
	reorder := append(append([]byte{0x12, 0x20}, pub...), 0x08, 0x01)    // alias: Data before Type
	trailing := append(append([]byte(nil), proto...), 0x18, 0x00)        // alias: trailing unknown field 3
	nonMin := append([]byte{0x08, 0x81, 0x00, 0x12, 0x20}, pub...)       // alias: non-minimal varint for Type=1
	right := []byte(specID(pub))
	out := []oddID{
		{"sha256-of-answering-key", mh(0x12, h[:])},
		{"sha256-random", mh(0x12, rh)},
		{"identity-rsa-typed", mh(0x00, rsaMsg)},
		{"identity-rsa-typed-same-bytes", mh(0x00, rsaSame)},
		{"identity-unknown-key-type", mh(0x00, unkType)},
		{"identity-ed25519-31-bytes", mh(0x00, short)},
		{"identity-garbage", mh(0x00, e.rng.Bytes(36))},
		{"identity-empty-digest", mh(0x00, nil)},
		{"alias-fields-reordered", mh(0x00, reorder)},
		{"alias-trailing-field", mh(0x00, trailing)},
		{"alias-nonminimal-varint", mh(0x00, nonMin)},
		{"sha512-of-answering-key", func() peer.ID { s := sha256.Sum256(h[:]); return mh(0x13, append(s[:], s[:]...)) }()},
		{"truncated", peer.ID(right[:len(right)-1])},
		{"extended", peer.ID(append(append([]byte(nil), right...), 0x00))},
		{"digest-only", peer.ID(proto)},
	}
	return out
}

// oddPick: k consecutive forms starting at position n (round robin).
func (e *engine) oddPick(pub []byte, n, k int) []oddID {
	all := e.oddIDs(pub)
	var out []oddID
	for i := 0; i < k; i++ {
		out = append(out, all[(n+i)%len(all)])
	}
	return out
}
