// Command tls is the correspondence engine for C03 (links are authenticated to the peer that
// holds the key).
//
// Part 1 (inputs): the harness mints REAL X.509 certificates with crypto/x509 — honest ones (the
// repo's own NewIdentity, and hand-minted ones for several certificate key types) and every way
// of getting the binding wrong (re-signed by another certificate key, extension removed /
// duplicated / corrupted, signature over another key or prefix, foreign signer, replayed
// extension, two-certificate chains, expired, unknown critical extensions, …) — and calls the
// real PubKeyFromCertChain and the VerifyPeerCertificate closure of ConfigForPeer(remote) for
// remote ∈ {"", right, wrong}. The features handed to the Lean model (extension list, ASN.1
// decode of the signedKey structure, x509 validity, self-signature, PKIX form of the key) and
// the signature-verification oracle are computed with the Go standard library only.
//
// Part 2 (histories): real in-process QUIC/TLS handshakes between real transport_quic.Transport
// nodes and between an honest node and an adversary that speaks quic-go directly with forged
// certificates; every link handed to HandleLinkEstablished is checked.
package main

import (
	"bytes"
	"context"
	gocrypto "crypto"
	"crypto/ecdsa"
	"crypto/ed25519"
	"crypto/elliptic"
	"crypto/rand"
	"crypto/rsa"
	"crypto/tls"
	"crypto/x509"
	"crypto/x509/pkix"
	"encoding/asn1"
	"fmt"
	"io"
	"math/big"
	"net"
	"os"
	"strconv"
	"strings"
	"sync"
	"time"

	"github.com/aperturerobotics/bifrost/crypto"
	p2ptls "github.com/aperturerobotics/bifrost/crypto/tls"
	"github.com/aperturerobotics/bifrost/link"
	"github.com/aperturerobotics/bifrost/peer"
	"github.com/aperturerobotics/bifrost/transport/common/pconn"
	transport_quic "github.com/aperturerobotics/bifrost/transport/common/quic"
	"github.com/quic-go/quic-go"
	"github.com/sirupsen/logrus"

	"verif/harness/lib"
)

// The specification's constants (libp2p TLS spec), independent of the repository's source.
var specOID = asn1.ObjectIdentifier{1, 3, 6, 1, 4, 1, 53594, 1, 1}

const specPrefix = "libp2p-tls-handshake:"

type signedKeyASN struct {
	PubKey    []byte
	Signature []byte
}

type engine struct {
	a     *lib.Args
	rng   *lib.Rng
	m     *lib.Model
	rep   *lib.Report
	le    *logrus.Entry
	local *p2ptls.Identity
	rsa   *rsa.PrivateKey

	caseNo int // wave 4: rotates the odd expected-id forms over the cases
}

// ---- identity keys -------------------------------------------------------------------------

type idKey struct {
	priv ed25519.PrivateKey
	pub  ed25519.PublicKey
	sk   crypto.PrivKey
	id   peer.ID
}

// specID is the peer ID of a raw Ed25519 public key: identity multihash of the key message.
func specID(pub []byte) peer.ID {
	return peer.ID(append([]byte{0x00, 0x24, 0x08, 0x01, 0x12, 0x20}, pub...))
}

func specKeyProto(pub []byte) []byte {
	return append([]byte{0x08, 0x01, 0x12, byte(len(pub))}, pub...)
}

func (e *engine) newID() *idKey {
	priv := ed25519.NewKeyFromSeed(e.rng.Bytes(32))
	pub := priv.Public().(ed25519.PublicKey)
	sk, err := crypto.UnmarshalEd25519PrivateKey(priv)
	if err != nil {
		panic(err)
	}
	return &idKey{priv: priv, pub: pub, sk: sk, id: specID(pub)}
}

// ---- certificate keys -----------------------------------------------------------------------

type certKey struct {
	signer gocrypto.Signer
	kind   string
}

func (e *engine) newCertKey(kind int) *certKey {
	switch kind % 4 {
	case 0:
		return &certKey{ed25519.NewKeyFromSeed(e.rng.Bytes(32)), "ed25519"}
	case 1:
		k, err := ecdsa.GenerateKey(elliptic.P256(), rand.Reader)
		if err != nil {
			panic(err)
		}
		return &certKey{k, "p256"}
	case 2:
		k, err := ecdsa.GenerateKey(elliptic.P384(), rand.Reader)
		if err != nil {
			panic(err)
		}
		return &certKey{k, "p384"}
	default:
		return &certKey{e.rsa, "rsa"}
	}
}

func pkixOf(pub gocrypto.PublicKey) []byte {
	b, err := x509.MarshalPKIXPublicKey(pub)
	if err != nil {
		panic(err)
	}
	return b
}

// ---- minting ---------------------------------------------------------------------------------

type bindOpts struct {
	keyProto []byte             // key bytes in the extension
	signer   ed25519.PrivateKey // who signs the binding
	prefix   string
	over     []byte // PKIX bytes signed
	critical bool
	oid      asn1.ObjectIdentifier
	sigMod   func([]byte) []byte
	valMod   func([]byte) []byte
}

func bindingExt(o bindOpts) pkix.Extension {
	sig := ed25519.Sign(o.signer, append([]byte(o.prefix), o.over...))
	if o.sigMod != nil {
		sig = o.sigMod(sig)
	}
	val, err := asn1.Marshal(signedKeyASN{PubKey: o.keyProto, Signature: sig})
	if err != nil {
		panic(err)
	}
	if o.valMod != nil {
		val = o.valMod(val)
	}
	oid := o.oid
	if oid == nil {
		oid = specOID
	}
	return pkix.Extension{Id: oid, Critical: o.critical, Value: val}
}

func honestBind(id *idKey, ck *certKey) bindOpts {
	return bindOpts{keyProto: specKeyProto(id.pub), signer: id.priv, prefix: specPrefix, over: pkixOf(ck.signer.Public())}
}

type mintOpts struct {
	key       *certKey
	issuer    *certKey // nil: self-signed
	exts      []pkix.Extension
	notBefore time.Time
	notAfter  time.Time
	eku       []x509.ExtKeyUsage
}

var serial int64 = 1000

func mint(o mintOpts) []byte {
	serial++
	nb, na := o.notBefore, o.notAfter
	if nb.IsZero() {
		nb = time.Now().Add(-time.Hour)
	}
	if na.IsZero() {
		na = time.Now().Add(24 * time.Hour)
	}
	tmpl := &x509.Certificate{
		SerialNumber:    big.NewInt(serial),
		NotBefore:       nb,
		NotAfter:        na,
		Subject:         pkix.Name{SerialNumber: strconv.FormatInt(serial, 10)},
		ExtraExtensions: o.exts,
		ExtKeyUsage:     o.eku,
	}
	iss := o.issuer
	if iss == nil {
		iss = o.key
	}
	der, err := x509.CreateCertificate(rand.Reader, tmpl, tmpl, o.key.signer.Public(), iss.signer)
	if err != nil {
		panic(err)
	}
	return der
}

func mustParse(der []byte) *x509.Certificate {
	c, err := x509.ParseCertificate(der)
	if err != nil {
		panic(err)
	}
	return c
}

func cloneCert(c *x509.Certificate) *x509.Certificate {
	cp := *c
	cp.Extensions = append([]pkix.Extension(nil), c.Extensions...)
	cp.UnhandledCriticalExtensions = append([]asn1.ObjectIdentifier(nil), c.UnhandledCriticalExtensions...)
	return &cp
}

// ---- features handed to the model (standard library only) -------------------------------------

func oidStr(o asn1.ObjectIdentifier) string {
	s := make([]string, len(o))
	for i, x := range o {
		s[i] = strconv.Itoa(x)
	}
	return strings.Join(s, ".")
}

func selfSigned(c *x509.Certificate) bool {
	return c.CheckSignature(c.SignatureAlgorithm, c.RawTBSCertificate, c.Signature) == nil
}

func certWire(c *x509.Certificate) string {
	cp := cloneCert(c)
	cp.UnhandledCriticalExtensions = nil
	pool := x509.NewCertPool()
	pool.AddCert(cp)
	_, verr := cp.Verify(x509.VerifyOptions{Roots: pool})
	vr, ss := "0", "0"
	if verr == nil {
		vr = "1"
	}
	if selfSigned(c) {
		ss = "1"
	}
	pk := "x"
	if b, err := x509.MarshalPKIXPublicKey(c.PublicKey); err == nil {
		pk = lib.Hex(b)
	}
	unh := "_"
	if len(c.UnhandledCriticalExtensions) > 0 {
		var l []string
		for _, o := range c.UnhandledCriticalExtensions {
			l = append(l, oidStr(o))
		}
		unh = strings.Join(l, ";")
	}
	exts := "_"
	if len(c.Extensions) > 0 {
		var l []string
		for _, x := range c.Extensions {
			var sk signedKeyASN
			p := "x"
			if _, err := asn1.Unmarshal(x.Value, &sk); err == nil {
				p = lib.Hex(sk.PubKey) + "+" + lib.Hex(sk.Signature)
			}
			l = append(l, oidStr(x.Id)+"/"+lib.Hex(x.Value)+"/"+p)
		}
		exts = strings.Join(l, ";")
	}
	return vr + ":" + ss + ":" + pk + ":" + unh + ":" + exts
}

func chainArgs(chain []*x509.Certificate) string {
	s := "n=" + strconv.Itoa(len(chain))
	for i, c := range chain {
		s += fmt.Sprintf(" c%d=%s", i, certWire(c))
	}
	return s
}

func rawArgs(raw [][]byte) string {
	s := "n=" + strconv.Itoa(len(raw))
	for i, r := range raw {
		c, err := x509.ParseCertificate(r)
		if err != nil {
			s += fmt.Sprintf(" c%d=!", i)
		} else {
			s += fmt.Sprintf(" c%d=%s", i, certWire(c))
		}
	}
	return s
}

// oracleQuery answers the model's `verify …` requests with crypto/ed25519 directly.
func (e *engine) oracleQuery(op string) string {
	line := op
	for i := 0; i < 3; i++ {
		ans := e.m.Query(line)
		if !strings.HasPrefix(ans, "verify ") {
			return ans
		}
		pk := lib.Unhex(lib.KV(ans, "pk"))
		ok := len(pk) == ed25519.PublicKeySize && ed25519.Verify(ed25519.PublicKey(pk), lib.Unhex(lib.KV(ans, "body")), lib.Unhex(lib.KV(ans, "sig")))
		if ok {
			line += " vbit=1"
		} else {
			line += " vbit=0"
		}
	}
	panic("oracle protocol did not terminate: " + op)
}

// ---- implementation outcome classes -------------------------------------------------------------

func errClass(err error, closure bool) string {
	s := err.Error()
	switch {
	case s == "expected one certificate in the chain":
		return "chainLen"
	case s == "expected certificate to contain the key extension":
		return "noExt"
	case strings.HasPrefix(s, "certificate verification failed"):
		return "x509"
	case strings.HasPrefix(s, "certificate self-signature verification failed"):
		return "selfSig"
	case strings.HasPrefix(s, "unmarshalling signed certificate failed"):
		return "asn1"
	case strings.HasPrefix(s, "unmarshalling public key failed"):
		return "pubKey"
	case s == "signature invalid":
		return "sigInvalid"
	case strings.HasPrefix(s, "peer ID mismatch"):
		return "peerMismatch"
	case strings.HasPrefix(s, "panic processing peer certificate"):
		return "panic"
	case strings.HasPrefix(s, "x509: unsupported public key type"):
		return "pkix"
	case closure && strings.HasPrefix(s, "x509:"):
		return "certParse"
	}
	return "other(" + strings.ReplaceAll(s, " ", "_") + ")"
}

func rawKey(pk crypto.PubKey) []byte {
	if pk == nil {
		return nil
	}
	b, err := pk.Raw()
	if err != nil {
		panic(err)
	}
	return b
}

// propertyAccepts states the acceptance conditions of the property directly (standard library
// only): one certificate, self-signed, currently valid, carrying an extension with the libp2p OID
// whose signature verifies under pk over prefix ‖ SubjectPublicKeyInfo and that names pk.
func propertyAccepts(chain []*x509.Certificate, pk []byte) string {
	if len(chain) != 1 {
		return "the chain is not a single certificate"
	}
	c := chain[0]
	if !selfSigned(c) {
		return "the certificate is not self-signed"
	}
	now := time.Now()
	if now.Before(c.NotBefore) || now.After(c.NotAfter) {
		return "the certificate is outside its validity period"
	}
	if len(pk) != ed25519.PublicKeySize {
		return "the returned key is not an Ed25519 key"
	}
	found := false
	for _, x := range c.Extensions {
		if !x.Id.Equal(specOID) {
			continue
		}
		found = true
		var sk signedKeyASN
		if _, err := asn1.Unmarshal(x.Value, &sk); err != nil {
			continue
		}
		if bytes.Contains(sk.PubKey, pk) && ed25519.Verify(ed25519.PublicKey(pk), append([]byte(specPrefix), c.RawSubjectPublicKeyInfo...), sk.Signature) {
			return ""
		}
	}
	if !found {
		return "the certificate carries no key-binding extension"
	}
	return "no key-binding extension carries a signature by the returned key over prefix‖certificate key"
}

// ---- cases -------------------------------------------------------------------------------------

type tcase struct {
	gen   string
	chain []*x509.Certificate // parsed / synthesised chain for PubKeyFromCertChain
	raw   [][]byte            // raw certificates for the closure (nil: closure not applicable)
	want  int                 // 1 must be accepted as ident, 0 must be refused, -1 no class expectation
	ident *idKey              // the identity an acceptance must name (want=1) / the claimed identity
}

func copyChain(chain []*x509.Certificate) []*x509.Certificate {
	out := make([]*x509.Certificate, len(chain))
	for i, c := range chain {
		out[i] = cloneCert(c)
	}
	return out
}

func branchOf(model string) string {
	f := strings.Fields(model)
	if len(f) == 0 {
		return "?"
	}
	if f[0] == "ok" {
		return "ok"
	}
	if len(f) > 1 {
		return f[1]
	}
	return f[0]
}

func (e *engine) runCase(tc tcase) {
	// --- PubKeyFromCertChain
	op := "tls.pkfc " + chainArgs(tc.chain)
	model := e.oracleQuery(op)
	var got []byte
	impl := lib.Recover(func() string {
		pk, err := p2ptls.PubKeyFromCertChain(copyChain(tc.chain))
		if err != nil {
			return "err " + errClass(err, false)
		}
		got = rawKey(pk)
		return "ok pk=" + lib.Hex(got)
	})
	mon := ""
	switch {
	case strings.HasPrefix(impl, "panic"):
		mon = "PubKeyFromCertChain panics (" + tc.gen + ")"
	case strings.HasPrefix(impl, "ok"):
		if why := propertyAccepts(tc.chain, got); why != "" {
			mon = "PubKeyFromCertChain accepted a chain although " + why + " (" + tc.gen + ")"
		} else if tc.want == 0 {
			mon = "PubKeyFromCertChain accepted a chain of a class that must be refused (" + tc.gen + ")"
		} else if tc.want == 1 && !bytes.Equal(got, tc.ident.pub) {
			mon = "PubKeyFromCertChain returned a key other than the one that signed the certificate key (" + tc.gen + ")"
		}
	default:
		if tc.want == 1 {
			mon = "PubKeyFromCertChain refused an honest certificate: " + impl + " (" + tc.gen + ")"
		}
	}
	e.rep.Compare(op, model, impl, "pkfc."+branchOf(model), "tls.pkfc:"+tc.gen, mon)
	if tc.raw == nil {
		return
	}
	// --- VerifyPeerCertificate closure of ConfigForPeer(remote), remote ∈ {"", right, wrong}
	other := e.newID()
	right := other.id
	if tc.ident != nil {
		right = tc.ident.id
	}
	parsed := make([]*x509.Certificate, 0, len(tc.raw))
	allParse := true
	for _, r := range tc.raw {
		c, err := x509.ParseCertificate(r)
		if err != nil {
			allParse = false
			break
		}
		parsed = append(parsed, c)
	}
	type rmT struct {
		name string
		id   peer.ID
	}
	rms := []rmT{{"any", ""}, {"right", right}, {"wrong", e.newID().id}}
	// wave 4: expected ids that are well formed but keyless / undecodable / alias encodings of the
	// answering key (w4.go) — five (round robin over the 15 forms) for a chain that must be accepted, one otherwise
	rightPub := other.pub
	if tc.ident != nil {
		rightPub = tc.ident.pub
	}
	nOdd := 1
	if tc.want == 1 {
		nOdd = 5
	}
	e.caseNo += nOdd // round robin over the 15 forms
	for _, o := range e.oddPick(rightPub, e.caseNo, nOdd) {
		rms = append(rms, rmT{"odd:" + o.name, o.id})
	}
	for _, rm := range rms {
		op := fmt.Sprintf("tls.vpc remote=%s %s", lib.Hex([]byte(rm.id)), rawArgs(tc.raw))
		model := e.oracleQuery(op)
		var got []byte
		chanBad := ""
		impl := lib.Recover(func() string {
			conf, keyCh := e.local.ConfigForPeer(rm.id)
			err := conf.VerifyPeerCertificate(tc.raw, nil)
			var k crypto.PubKey
			select {
			case k = <-keyCh:
			default:
				chanBad = "the key channel is neither filled nor closed after VerifyPeerCertificate returned"
			}
			if err != nil {
				if k != nil {
					chanBad = "a key was handed out although the handshake was refused"
				}
				return "err " + errClass(err, true)
			}
			if k == nil {
				chanBad = "the handshake was accepted but no key was handed out"
				return "ok pk=?"
			}
			got = rawKey(k)
			return "ok pk=" + lib.Hex(got)
		})
		mon := chanBad
		switch {
		case strings.HasPrefix(impl, "panic") || impl == "err panic":
			mon = "VerifyPeerCertificate panics (" + tc.gen + ")"
		case strings.HasPrefix(impl, "ok"):
			if !allParse {
				mon = "VerifyPeerCertificate accepted an unparsable certificate (" + tc.gen + ")"
			} else if why := propertyAccepts(parsed, got); why != "" {
				mon = "the handshake was accepted although " + why + " (" + tc.gen + ")"
			} else if rm.id != "" && rm.id != specID(got) {
				mon = "the handshake was accepted although the caller required another peer (" + tc.gen + ", remote " + rm.name + ")"
			} else if tc.want == 0 {
				mon = "the handshake was accepted for a chain of a class that must be refused (" + tc.gen + ")"
			} else if tc.want == 1 && !bytes.Equal(got, tc.ident.pub) {
				mon = "the handshake yielded a key other than the one that signed the certificate key (" + tc.gen + ")"
			}
		default:
			if tc.want == 1 && (rm.name == "any" || rm.name == "right") && mon == "" {
				mon = "the handshake with an honest peer was refused: " + impl + " (" + tc.gen + ", remote " + rm.name + ")"
			}
		}
		e.rep.Compare(op, model, impl, "vpc."+branchOf(model), "tls.vpc:"+tc.gen+"/"+rm.name, mon)
		if strings.HasPrefix(rm.name, "odd:") {
			e.rep.Branches["vpc.expect-"+strings.SplitN(rm.name[4:], "-", 2)[0]]++
		}
	}
}

func flip(rng *lib.Rng) func([]byte) []byte {
	return func(b []byte) []byte {
		o := append([]byte(nil), b...)
		o[rng.Intn(len(o))] ^= 1 << rng.Intn(8)
		return o
	}
}

// cases generates one round of every certificate class with fresh keys.
func (e *engine) cases(round int) []tcase {
	var out []tcase
	victim, attacker := e.newID(), e.newID()
	ck := e.newCertKey(round)
	ck2 := e.newCertKey(round + 1)
	add := func(gen string, want int, ident *idKey, ders ...[]byte) {
		if ders == nil {
			ders = [][]byte{}
		}
		chain := make([]*x509.Certificate, len(ders))
		for i, d := range ders {
			chain[i] = mustParse(d)
		}
		out = append(out, tcase{gen: gen, chain: chain, raw: ders, want: want, ident: ident})
	}
	one := func(b bindOpts) []pkix.Extension { return []pkix.Extension{bindingExt(b)} }

	// honest: the repo's own identity code
	{
		id, err := p2ptls.NewIdentity(victim.sk)
		if err != nil {
			panic(err)
		}
		conf, _ := id.ConfigForPeer("")
		der := conf.Certificates[0].Certificate[0]
		add("honest-repo", 1, victim, der)
		// the extension it generated signs the message the model prescribes, under the identity key
		c := mustParse(der)
		op := fmt.Sprintf("tls.signedext pk=%s pkix=%s", lib.Hex(victim.pub), lib.Hex(c.RawSubjectPublicKeyInfo))
		model := e.m.Query(op)
		mon := "NewIdentity's certificate carries no extension with the libp2p OID"
		for _, x := range c.Extensions {
			if oidStr(x.Id) != lib.KV(model, "oid") {
				continue
			}
			var sk signedKeyASN
			if _, err := asn1.Unmarshal(x.Value, &sk); err != nil {
				mon = "the generated extension is not a signedKey structure"
			} else if lib.Hex(sk.PubKey) != lib.KV(model, "pkb") {
				mon = "the generated extension does not carry the identity's public key message"
			} else if !ed25519.Verify(victim.pub, lib.Unhex(lib.KV(model, "body")), sk.Signature) {
				mon = "the generated extension's signature is not by the identity key over prefix‖certificate key"
			} else {
				mon = ""
			}
		}
		e.rep.Compare(op, "x", "x", "signedext", "tls.signedext", mon)
	}
	// honest, hand-minted (spec constants), several certificate key types
	add("honest-minted-"+ck.kind, 1, victim, mint(mintOpts{key: ck, exts: one(honestBind(victim, ck))}))
	hb := honestBind(victim, ck)
	hb.critical = true
	add("honest-critical-ext", 1, victim, mint(mintOpts{key: ck, exts: one(hb)}))
	add("honest-eku-server", 1, victim, mint(mintOpts{key: ck, exts: one(honestBind(victim, ck)), eku: []x509.ExtKeyUsage{x509.ExtKeyUsageServerAuth, x509.ExtKeyUsageClientAuth}}))
	hb = honestBind(victim, ck)
	hb.valMod = func(v []byte) []byte { return append(append([]byte(nil), v...), 0x05, 0x00) }
	add("asn1-trailing-bytes", -1, victim, mint(mintOpts{key: ck, exts: one(hb)}))
	// other (non-key) extensions before the key extension
	add("honest-other-exts-first", 1, victim, mint(mintOpts{key: ck, exts: []pkix.Extension{
		{Id: asn1.ObjectIdentifier{1, 3, 6, 1, 4, 1, 53594, 1, 2}, Value: e.rng.Bytes(5)},
		{Id: asn1.ObjectIdentifier{1, 3, 6, 1, 4, 1, 53594, 1}, Value: e.rng.Bytes(5)},
		bindingExt(honestBind(victim, ck)),
		{Id: asn1.ObjectIdentifier{1, 3, 6, 1, 4, 1, 53594, 1, 1, 1}, Value: e.rng.Bytes(5)},
	}}))

	// not self-signed: certificate for key ck signed by ck2
	add("resigned-by-other-key", 0, victim, mint(mintOpts{key: ck, issuer: ck2, exts: one(honestBind(victim, ck))}))
	// garbage certificate signature
	{
		der := mint(mintOpts{key: ck, exts: one(honestBind(victim, ck))})
		bad := append([]byte(nil), der...)
		bad[len(bad)-1-e.rng.Intn(8)] ^= 0x40
		if c, err := x509.ParseCertificate(bad); err == nil && !selfSigned(c) {
			add("corrupt-cert-signature", 0, victim, bad)
		}
	}
	// extension missing / only near-miss OIDs
	add("no-extension", 0, nil, mint(mintOpts{key: ck}))
	for _, oid := range []asn1.ObjectIdentifier{{1, 3, 6, 1, 4, 1, 53594, 1}, {1, 3, 6, 1, 4, 1, 53594, 1, 1, 1}, {1, 3, 6, 1, 4, 1, 53594, 1, 2}, {1, 3, 6, 1, 4, 1, 53594, 2, 1}, {1, 3, 6, 1, 4, 1, 53595, 1, 1}} {
		b := honestBind(victim, ck)
		b.oid = oid
		add("near-miss-oid", 0, nil, mint(mintOpts{key: ck, exts: one(b)}))
	}
	// corrupted ASN.1
	b := honestBind(victim, ck)
	b.valMod = func(v []byte) []byte { return v[:len(v)-1-e.rng.Intn(len(v)-2)] }
	add("asn1-truncated", 0, victim, mint(mintOpts{key: ck, exts: one(b)}))
	b = honestBind(victim, ck)
	b.valMod = func(v []byte) []byte { return e.rng.Bytes(1 + e.rng.Intn(40)) }
	add("asn1-random", -1, victim, mint(mintOpts{key: ck, exts: one(b)}))
	b = honestBind(victim, ck)
	b.valMod = func(v []byte) []byte { return nil }
	add("asn1-empty", 0, victim, mint(mintOpts{key: ck, exts: one(b)}))
	b = honestBind(victim, ck)
	b.valMod = func(v []byte) []byte { // SEQUENCE of one OCTET STRING only
		o, _ := asn1.Marshal(struct{ A []byte }{specKeyProto(victim.pub)})
		return o
	}
	add("asn1-one-field", 0, victim, mint(mintOpts{key: ck, exts: one(b)}))
	// signature over another key / prefix, tampered, empty
	b = honestBind(victim, ck)
	b.over = pkixOf(ck2.signer.Public())
	add("sig-over-other-key", 0, victim, mint(mintOpts{key: ck, exts: one(b)}))
	for _, p := range []string{"", "libp2p-tls-handshake", "libp2p-tls-handshake::", "Libp2p-tls-handshake:", "bifrost-tls-handshake:"} {
		b = honestBind(victim, ck)
		b.prefix = p
		add("wrong-prefix", 0, victim, mint(mintOpts{key: ck, exts: one(b)}))
	}
	b = honestBind(victim, ck)
	b.sigMod = flip(e.rng)
	add("sig-bitflip", 0, victim, mint(mintOpts{key: ck, exts: one(b)}))
	b = honestBind(victim, ck)
	b.sigMod = func([]byte) []byte { return nil }
	add("sig-empty", 0, victim, mint(mintOpts{key: ck, exts: one(b)}))
	b = honestBind(victim, ck)
	b.sigMod = func(s []byte) []byte { return append(append([]byte(nil), s...), 0) }
	add("sig-extended", 0, victim, mint(mintOpts{key: ck, exts: one(b)}))
	// impersonation: the extension names the victim, the attacker signs
	b = honestBind(victim, ck)
	b.signer = attacker.priv
	add("foreign-signer", 0, victim, mint(mintOpts{key: ck, exts: one(b)}))
	// impersonation: the victim's real extension (for the victim's certificate key) replayed on the attacker's certificate
	add("replayed-extension", 0, victim, mint(mintOpts{key: ck2, exts: one(honestBind(victim, ck))}))
	// the attacker being honest about itself is a valid peer — but it is not the victim
	add("attacker-own-identity", 1, attacker, mint(mintOpts{key: ck2, exts: one(honestBind(attacker, ck2))}))
	// unparsable / non-Ed25519 key messages
	for _, kp := range [][]byte{
		nil,
		e.rng.Bytes(1 + e.rng.Intn(20)),
		append([]byte{0x08, 0x00, 0x12, 0x20}, victim.pub...),            // key type 0
		append([]byte{0x08, 0x02, 0x12, 0x20}, victim.pub...),            // key type 2
		append([]byte{0x08, 0x01, 0x12, 0x1f}, victim.pub[:31]...),       // 31 bytes
		append(append([]byte{0x08, 0x01, 0x12, 0x21}, victim.pub...), 0), // 33 bytes
		{0x08, 0x01},
		append(specKeyProto(victim.pub), 0x1a), // trailing truncated field
	} {
		b = honestBind(victim, ck)
		b.keyProto = kp
		add("bad-key-message", 0, victim, mint(mintOpts{key: ck, exts: one(b)}))
	}
	// non-canonical but decodable key message (fields swapped): whatever the decoder says
	b = honestBind(victim, ck)
	b.keyProto = append(append([]byte{0x12, 0x20}, victim.pub...), 0x08, 0x01)
	add("key-message-swapped-fields", -1, victim, mint(mintOpts{key: ck, exts: one(b)}))
	// a small-order Ed25519 "identity key" (the neutral element): R = neutral, S = 0 verifies for
	// every message, so this identity has no private key and anyone can present it. Outside the
	// idealised signature scheme of the theorems (SigScheme.unforge); recorded, not judged.
	{
		lo := make([]byte, 32)
		lo[0] = 1
		sig := make([]byte, 64)
		sig[0] = 1
		val, _ := asn1.Marshal(signedKeyASN{PubKey: specKeyProto(lo), Signature: sig})
		add("small-order-identity-key", -1, &idKey{pub: lo, id: specID(lo)}, mint(mintOpts{key: ck, exts: []pkix.Extension{{Id: specOID, Value: val}}}))
	}
	// validity period
	add("expired", 0, victim, mint(mintOpts{key: ck, exts: one(honestBind(victim, ck)), notBefore: time.Now().Add(-48 * time.Hour), notAfter: time.Now().Add(-time.Hour)}))
	add("not-yet-valid", 0, victim, mint(mintOpts{key: ck, exts: one(honestBind(victim, ck)), notBefore: time.Now().Add(time.Hour), notAfter: time.Now().Add(48 * time.Hour)}))
	// x509-level refusals without a class expectation from the property
	add("eku-client-only", -1, victim, mint(mintOpts{key: ck, exts: one(honestBind(victim, ck)), eku: []x509.ExtKeyUsage{x509.ExtKeyUsageClientAuth}}))
	add("other-critical-extension", -1, victim, mint(mintOpts{key: ck, exts: []pkix.Extension{bindingExt(honestBind(victim, ck)), {Id: asn1.ObjectIdentifier{1, 2, 3, 4, 5}, Critical: true, Value: []byte{5, 0}}}}))
	hb = honestBind(victim, ck)
	hb.critical = true
	add("critical-ext-and-other-critical", -1, victim, mint(mintOpts{key: ck, exts: []pkix.Extension{{Id: asn1.ObjectIdentifier{1, 2, 3, 4, 5}, Critical: true, Value: []byte{5, 0}}, bindingExt(hb)}}))
	// chain length
	good := mint(mintOpts{key: ck, exts: one(honestBind(victim, ck))})
	good2 := mint(mintOpts{key: ck2, exts: one(honestBind(attacker, ck2))})
	add("zero-certificates", 0, victim)
	add("two-certificates-same", 0, victim, good, good)
	add("two-certificates", 0, victim, good, good2)
	add("two-certificates-second-bad", 0, victim, good, mint(mintOpts{key: ck2}))
	add("three-certificates", 0, victim, good2, good, good)
	// unparsable certificates (closure only: the chain function is given what does parse)
	{
		trunc := good[:len(good)-1-e.rng.Intn(len(good)/2)]
		out = append(out, tcase{gen: "unparsable-cert", chain: nil, raw: [][]byte{trunc}, want: 0, ident: victim})
		out = append(out, tcase{gen: "unparsable-cert-second", chain: nil, raw: [][]byte{good, e.rng.Bytes(30)}, want: 0, ident: victim})
		out = append(out, tcase{gen: "unparsable-cert-first", chain: nil, raw: [][]byte{{0x30, 0x00}, good}, want: 0, ident: victim})
	}
	// duplicated key extension. crypto/x509 refuses to parse such a certificate (closure: parse
	// error); PubKeyFromCertChain is also given the two orders directly on a parsed certificate.
	{
		bad := honestBind(victim, ck)
		bad.signer = attacker.priv
		gb := []pkix.Extension{bindingExt(honestBind(victim, ck)), bindingExt(bad)}
		bg := []pkix.Extension{gb[1], gb[0]}
		derGB := mint(mintOpts{key: ck, exts: gb})
		_, perr := x509.ParseCertificate(derGB)
		if perr != nil {
			out = append(out, tcase{gen: "dup-ext-der", chain: nil, raw: [][]byte{derGB}, want: 0, ident: victim})
		} else {
			add("dup-ext-der-parsable", -1, victim, derGB)
		}
		base := mustParse(good)
		setExts := func(xs []pkix.Extension) *x509.Certificate {
			c := cloneCert(base)
			var keep []pkix.Extension
			for _, x := range c.Extensions {
				if !x.Id.Equal(specOID) {
					keep = append(keep, x)
				}
			}
			c.Extensions = append(keep, xs...)
			return c
		}
		out = append(out, tcase{gen: "dup-ext-first-good-second-bad", chain: []*x509.Certificate{setExts(gb)}, want: -1, ident: victim})
		out = append(out, tcase{gen: "dup-ext-first-bad-second-good", chain: []*x509.Certificate{setExts(bg)}, want: -1, ident: victim})
		// first names the attacker validly?? impossible for this cert key; first corrupt, second good
		out = append(out, tcase{gen: "dup-ext-first-corrupt-second-good", chain: []*x509.Certificate{setExts([]pkix.Extension{{Id: specOID, Value: []byte{0x30}}, gb[0]})}, want: -1, ident: victim})
		// extension removed from a parsed good certificate
		out = append(out, tcase{gen: "ext-removed-struct", chain: []*x509.Certificate{setExts(nil)}, want: 0, ident: victim})
		// nil entry robustness is not part of the property; unhandled critical list given twice
		c := setExts([]pkix.Extension{gb[0]})
		c.UnhandledCriticalExtensions = []asn1.ObjectIdentifier{specOID, specOID}
		out = append(out, tcase{gen: "unhandled-critical-twice", chain: []*x509.Certificate{c}, want: -1, ident: victim})
	}
	// unknown public key algorithm (patched SPKI algorithm OID: no PKIX form, and not self-signed)
	{
		ek := e.newCertKey(0)
		der := mint(mintOpts{key: ek, exts: one(honestBind(victim, ek))})
		spki := mustParse(der).RawSubjectPublicKeyInfo
		if i := bytes.Index(der, spki); i >= 0 {
			if j := bytes.Index(spki, []byte{0x06, 0x03, 0x2b, 0x65, 0x70}); j >= 0 {
				bad := append([]byte(nil), der...)
				bad[i+j+4] = 0x7f
				if _, err := x509.ParseCertificate(bad); err == nil {
					add("unknown-key-algorithm", 0, victim, bad)
				}
			}
		}
	}
	return out
}

// ---- part 2: real QUIC handshakes ----------------------------------------------------------------

type memAddr string

func (a memAddr) Network() string { return "mem" }
func (a memAddr) String() string  { return string(a) }

type memPkt struct {
	data []byte
	from net.Addr
}

// memConn is one end of an in-memory packet pipe.
type memConn struct {
	local   memAddr
	in      chan memPkt
	peer    *memConn
	hub     *memNet // when set, WriteTo routes by destination address (see w3.go)
	closed  chan struct{}
	once    sync.Once
	mu      sync.Mutex
	rd      time.Time
	changed chan struct{}
}

func newMemPair(a, b string) (*memConn, *memConn) {
	x := &memConn{local: memAddr(a), in: make(chan memPkt, 256), closed: make(chan struct{}), changed: make(chan struct{})}
	y := &memConn{local: memAddr(b), in: make(chan memPkt, 256), closed: make(chan struct{}), changed: make(chan struct{})}
	x.peer, y.peer = y, x
	return x, y
}

func (c *memConn) ReadFrom(p []byte) (int, net.Addr, error) {
	for {
		c.mu.Lock()
		rd, changed := c.rd, c.changed
		c.mu.Unlock()
		var tm <-chan time.Time
		var t *time.Timer
		if !rd.IsZero() {
			t = time.NewTimer(time.Until(rd))
			tm = t.C
		}
		select {
		case pk := <-c.in:
			if t != nil {
				t.Stop()
			}
			return copy(p, pk.data), pk.from, nil
		case <-c.closed:
			if t != nil {
				t.Stop()
			}
			return 0, nil, net.ErrClosed
		case <-tm:
			return 0, nil, timeoutErr{}
		case <-changed: // the deadline was changed while blocked: re-evaluate
			if t != nil {
				t.Stop()
			}
		}
	}
}

type timeoutErr struct{}

func (timeoutErr) Error() string   { return "i/o timeout" }
func (timeoutErr) Timeout() bool   { return true }
func (timeoutErr) Temporary() bool { return true }

func (c *memConn) WriteTo(p []byte, to net.Addr) (int, error) {
	select {
	case <-c.closed:
		return 0, net.ErrClosed
	default:
	}
	dst := c.peer
	if c.hub != nil {
		if dst = c.hub.lookup(to); dst == nil {
			return len(p), nil // nobody there: dropped
		}
	}
	select {
	case dst.in <- memPkt{append([]byte(nil), p...), c.local}:
	default: // queue full: drop
	}
	return len(p), nil
}
func (c *memConn) Close() error                       { c.once.Do(func() { close(c.closed) }); return nil }
func (c *memConn) LocalAddr() net.Addr                { return c.local }
func (c *memConn) SetDeadline(t time.Time) error      { return c.SetReadDeadline(t) }
func (c *memConn) SetWriteDeadline(t time.Time) error { return nil }
func (c *memConn) SetReadDeadline(t time.Time) error {
	c.mu.Lock()
	c.rd = t
	close(c.changed)
	c.changed = make(chan struct{})
	c.mu.Unlock()
	return nil
}

// recorder is the TransportHandler of an honest node.
type recorder struct {
	mu    sync.Mutex
	links []link.Link
}

func (r *recorder) HandleLinkEstablished(l link.Link) {
	r.mu.Lock()
	r.links = append(r.links, l)
	r.mu.Unlock()
}
func (r *recorder) HandleLinkLost(link.Link) {}
func (r *recorder) snapshot() []link.Link {
	r.mu.Lock()
	defer r.mu.Unlock()
	return append([]link.Link(nil), r.links...)
}

// hsResult is what the honest node under test reports for one connection attempt.
type hsResult struct {
	handler   []peer.ID // remote peers of the links handed to HandleLinkEstablished
	returned  *peer.ID  // remote peer of the link HandleConn / DialPeer returned (nil: error)
	peerChain [][]byte  // certificates an honest counterpart presented
}

func (r hsResult) String() string {
	if len(r.handler) == 0 {
		return "err"
	}
	return "ok id=" + lib.Hex([]byte(r.handler[0]))
}

// adversaryTLS is a raw TLS configuration presenting the given certificates (no bifrost code).
func adversaryTLS(ders [][]byte, key gocrypto.Signer) *tls.Config {
	return &tls.Config{
		MinVersion:         tls.VersionTLS13,
		InsecureSkipVerify: true,
		ClientAuth:         tls.RequireAnyClientCert,
		NextProtos:         []string{transport_quic.Alpn},
		Certificates:       []tls.Certificate{{Certificate: ders, PrivateKey: key}},
	}
}

var advQuic = &quic.Config{MaxIdleTimeout: 3 * time.Second, EnableDatagrams: true}

// adversary runs the counterpart that speaks quic-go directly.
func adversary(actx context.Context, listen bool, pc net.PacketConn, to net.Addr, conf *tls.Config) {
	if listen {
		ln, err := quic.Listen(pc, conf, advQuic)
		if err != nil {
			return
		}
		defer ln.Close()
		if c, err := ln.Accept(actx); err == nil {
			<-actx.Done()
			c.CloseWithError(0, "")
		}
		return
	}
	if c, err := quic.Dial(actx, pc, to, conf, advQuic); err == nil {
		<-actx.Done()
		c.CloseWithError(0, "")
	}
}

// collect waits (the handler is notified asynchronously) and snapshots the handler's links.
func collect(actx context.Context, rec *recorder, res *hsResult, until time.Duration) {
	deadline := time.Now().Add(until)
	for time.Now().Before(deadline) && actx.Err() == nil {
		if len(rec.snapshot()) > 0 {
			break
		}
		time.Sleep(5 * time.Millisecond)
	}
	time.Sleep(20 * time.Millisecond)
	for _, l := range rec.snapshot() {
		res.handler = append(res.handler, l.GetRemotePeer())
	}
}

// attemptConn runs one handshake between a fresh honest transport_quic.Transport (HandleConn:
// DialSession / ListenSession pinned to `expect`, then NewLink) and a counterpart: an honest
// node (peerKey != nil) or an adversary speaking quic-go directly with `advConf`.
func (e *engine) attemptConn(ctx context.Context, n int, hk *idKey, rec *recorder, hDials bool, expect peer.ID, peerKey *idKey, advConf *tls.Config, wait time.Duration) hsResult {
	a, b := newMemPair("mem-a-"+strconv.Itoa(n), "mem-b-"+strconv.Itoa(n))
	defer a.Close()
	defer b.Close()
	actx, cancel := context.WithTimeout(ctx, wait)
	defer cancel()
	ht, err := transport_quic.NewTransport(actx, e.le, 0, nil, hk.sk, rec, &transport_quic.Opts{}, nil)
	if err != nil {
		panic(err)
	}
	res := hsResult{}
	if peerKey != nil {
		pt, err := transport_quic.NewTransport(actx, e.le, 0, nil, peerKey.sk, &recorder{}, &transport_quic.Opts{}, nil)
		if err != nil {
			panic(err)
		}
		conf, _ := pt.GetIdentity().ConfigForPeer("")
		res.peerChain = conf.Certificates[0].Certificate
		go func() { _, _ = pt.HandleConn(actx, !hDials, b, a.LocalAddr(), "") }()
	} else {
		go adversary(actx, hDials, b, a.LocalAddr(), advConf)
	}
	lnk, err := ht.HandleConn(actx, hDials, a, b.LocalAddr(), expect)
	if err == nil && lnk != nil {
		r := lnk.GetRemotePeer()
		res.returned = &r
		collect(actx, rec, &res, 3*time.Second)
	} else {
		collect(actx, rec, &res, 0)
	}
	return res
}

// attemptPconn is the same through transport/common/pconn (the packet-conn transport under the
// inproc and udp transports): the honest node listens with Execute (BuildIncomingTlsConf, any
// peer) and dials with DialPeer (DialSessionViaTransport unpinned, then the requested-peer check).
func (e *engine) attemptPconn(ctx context.Context, n int, hk *idKey, rec *recorder, hDials bool, expect peer.ID, peerKey *idKey, advConf *tls.Config, wait time.Duration) hsResult {
	a, b := newMemPair("pmem-a-"+strconv.Itoa(n), "pmem-b-"+strconv.Itoa(n))
	defer a.Close()
	defer b.Close()
	actx, cancel := context.WithTimeout(ctx, wait)
	defer cancel()
	parser := func(s string) (net.Addr, error) { return memAddr(s), nil }
	ht, err := pconn.NewTransport(actx, e.le, hk.sk, rec, nil, 0, a, parser, nil)
	if err != nil {
		panic(err)
	}
	go func() { _ = ht.Execute(actx) }()
	res := hsResult{}
	var pt *pconn.Transport
	if peerKey != nil {
		pt, err = pconn.NewTransport(actx, e.le, peerKey.sk, &recorder{}, nil, 0, b, parser, nil)
		if err != nil {
			panic(err)
		}
		conf, _ := pt.GetIdentity().ConfigForPeer("")
		res.peerChain = conf.Certificates[0].Certificate
		go func() { _ = pt.Execute(actx) }()
	} else if hDials {
		go adversary(actx, true, b, a.LocalAddr(), advConf)
	}
	time.Sleep(30 * time.Millisecond) // let the listeners start
	switch {
	case hDials:
		l, _, err := ht.DialPeer(actx, expect, b.LocalAddr().String())
		if err == nil && l != nil {
			r := l.GetRemotePeer()
			res.returned = &r
		}
		collect(actx, rec, &res, time.Second)
	case pt != nil:
		go func() { _, _, _ = pt.DialPeer(actx, "", a.LocalAddr().String()) }()
		collect(actx, rec, &res, wait)
	default:
		go adversary(actx, false, b, a.LocalAddr(), advConf)
		collect(actx, rec, &res, wait)
	}
	return res
}

type job struct {
	via     string // "conn" | "pconn"
	gen     string
	hDials  bool
	expect  string  // "any" | "right" | "wrong" | "odd:<form>" (wave 4, w4.go)
	odd     peer.ID // the expected id of an "odd:" job
	chain   [][]byte
	advKey  gocrypto.Signer
	peerKey *idKey  // honest counterpart
	valid   bool    // the counterpart's certificates are an honest binding for `claimed`
	claimed peer.ID // the identity at the other end (valid) / the identity it pretends to be
	hk      *idKey
	rec     *recorder
	res     hsResult
}

// forgedChains: every way the adversary presents certificates (it always holds the certificate
// key; what it does not hold is the victim's identity key). Each entry yields the chain, the
// identity it claims, and whether the chain is a valid binding for that identity.
func (e *engine) forgedChains(victim, attacker *idKey, ck, ck2 *certKey) map[string]func() ([][]byte, peer.ID, bool) {
	one := func(b bindOpts) []pkix.Extension { return []pkix.Extension{bindingExt(b)} }
	return map[string]func() ([][]byte, peer.ID, bool){
		"replayed-extension": func() ([][]byte, peer.ID, bool) {
			// a genuine extension of the victim (made for the victim's own certificate key) on the adversary's certificate
			vid, err := p2ptls.NewIdentity(victim.sk)
			if err != nil {
				panic(err)
			}
			vconf, _ := vid.ConfigForPeer("")
			ext := pkix.Extension{Id: specOID, Value: []byte{0x30, 0x00}}
			for _, x := range mustParse(vconf.Certificates[0].Certificate[0]).Extensions {
				var sk signedKeyASN
				if _, err := asn1.Unmarshal(x.Value, &sk); err == nil && bytes.Equal(sk.PubKey, specKeyProto(victim.pub)) {
					ext = pkix.Extension{Id: specOID, Value: x.Value}
				}
			}
			return [][]byte{mint(mintOpts{key: ck, exts: []pkix.Extension{ext}})}, victim.id, false
		},
		"foreign-signer": func() ([][]byte, peer.ID, bool) {
			b := honestBind(victim, ck)
			b.signer = attacker.priv
			return [][]byte{mint(mintOpts{key: ck, exts: one(b)})}, victim.id, false
		},
		"no-extension": func() ([][]byte, peer.ID, bool) {
			return [][]byte{mint(mintOpts{key: ck})}, victim.id, false
		},
		"resigned-by-other-key": func() ([][]byte, peer.ID, bool) {
			return [][]byte{mint(mintOpts{key: ck, issuer: ck2, exts: one(honestBind(attacker, ck))})}, attacker.id, false
		},
		"two-certificates": func() ([][]byte, peer.ID, bool) {
			g := mint(mintOpts{key: ck, exts: one(honestBind(attacker, ck))})
			return [][]byte{g, mint(mintOpts{key: ck2, exts: one(honestBind(attacker, ck2))})}, attacker.id, false
		},
		"expired": func() ([][]byte, peer.ID, bool) {
			return [][]byte{mint(mintOpts{key: ck, exts: one(honestBind(attacker, ck)), notBefore: time.Now().Add(-48 * time.Hour), notAfter: time.Now().Add(-time.Hour)})}, attacker.id, false
		},
		"wrong-prefix": func() ([][]byte, peer.ID, bool) {
			b := honestBind(attacker, ck)
			b.prefix = "libp2p-tls-handshake"
			return [][]byte{mint(mintOpts{key: ck, exts: one(b)})}, attacker.id, false
		},
		// a valid peer presenting its own identity (hand-minted certificate, quic-go directly)
		"own-identity": func() ([][]byte, peer.ID, bool) {
			return [][]byte{mint(mintOpts{key: ck, exts: one(honestBind(attacker, ck))})}, attacker.id, true
		},
	}
}

func (e *engine) runHistory() {
	ctx, cancel := context.WithCancel(context.Background())
	defer cancel()
	victim, attacker, other := e.newID(), e.newID(), e.newID()
	refuseWait, okWait := 1500*time.Millisecond, 8*time.Second

	ck := e.newCertKey(1)
	ck2 := e.newCertKey(1)
	// the adversary always holds the certificate key (the TLS handshake itself succeeds); what it
	// does not hold is the victim's identity key
	forged := e.forgedChains(victim, attacker, ck, ck2)
	var jobs []*job
	add := func(via, gen string, hDials bool, expect string) {
		if via == "pconn" && !hDials && expect != "any" {
			return // the pconn listener cannot be pinned to a peer
		}
		j := &job{via: via, gen: gen, hDials: hDials, expect: expect}
		if gen == "honest" {
			j.peerKey, j.claimed, j.valid = victim, victim.id, true
		} else {
			j.chain, j.claimed, j.valid = forged[gen]()
			j.advKey = ck.signer
		}
		jobs = append(jobs, j)
	}
	for _, via := range []string{"conn", "pconn"} {
		for _, f := range []string{"replayed-extension", "foreign-signer", "no-extension", "resigned-by-other-key", "two-certificates", "expired", "wrong-prefix"} {
			add(via, f, false, "any")
			add(via, f, true, "right")
		}
		add(via, "replayed-extension", true, "any")
		add(via, "foreign-signer", false, "right")
		for _, g := range []string{"own-identity", "honest"} {
			for _, hd := range []bool{true, false} {
				for _, ex := range []string{"any", "right", "wrong"} {
					add(via, g, hd, ex)
				}
			}
		}
	}
	if e.a.Scale > 1 {
		n := len(jobs)
		for i := 0; i < n; i++ {
			add(jobs[i].via, jobs[i].gen, jobs[i].hDials, jobs[i].expect)
		}
	}
	// wave 4: a valid peer answers (an honest node / the adversary presenting its own identity), the
	// caller required an id that is well formed but keyless / undecodable / an alias encoding of the
	// answering key (w4.go): HandleConn in both roles (pinned handshake) and pconn DialPeer
	// (unpinned, compared afterwards) must refuse
	for gi, g := range []string{"honest", "own-identity"} {
		pub := map[string][]byte{"honest": victim.pub, "own-identity": attacker.pub}[g]
		forms := e.oddIDs(pub)[:12] // the well-formed multihashes
		picks := []oddID{forms[0], forms[2+gi], forms[4+e.rng.Intn(4)], forms[8+e.rng.Intn(4)]}
		if e.a.Scale > 1 {
			picks = forms
		}
		for k, o := range picks {
			for _, hd := range []bool{true, false} {
				add("conn", g, hd, "odd:"+o.name)
				jobs[len(jobs)-1].odd = o.id
			}
			if k%2 == gi {
				add("pconn", g, true, "odd:"+o.name)
				jobs[len(jobs)-1].odd = o.id
			}
		}
	}
	expectOf := func(j *job) peer.ID {
		switch {
		case j.expect == "right":
			return j.claimed
		case j.expect == "wrong":
			return other.id // a valid identity that is not at the other end
		case strings.HasPrefix(j.expect, "odd:"):
			return j.odd
		}
		return ""
	}
	var wg sync.WaitGroup
	sem := make(chan struct{}, 12)
	for i, j := range jobs {
		j.hk, j.rec = e.newID(), &recorder{}
		wg.Add(1)
		sem <- struct{}{}
		go func(i int, j *job) {
			defer wg.Done()
			defer func() { <-sem }()
			wait := refuseWait
			if j.valid && ((j.expect != "wrong" && !strings.HasPrefix(j.expect, "odd:")) || (j.via == "pconn" && j.hDials)) {
				wait = okWait
			}
			var adv *tls.Config
			if j.peerKey == nil {
				adv = adversaryTLS(j.chain, j.advKey)
			}
			f := e.attemptConn
			if j.via == "pconn" {
				f = e.attemptPconn
			}
			j.res = f(ctx, i, j.hk, j.rec, j.hDials, expectOf(j), j.peerKey, adv, wait)
		}(i, j)
	}
	wg.Wait()
	for _, j := range jobs {
		expect := expectOf(j)
		role := "listen"
		if j.hDials {
			role = "dial"
		}
		gen := j.via + "/" + j.gen + "/" + role + "/" + j.expect
		chain := j.chain
		if j.peerKey != nil {
			chain = j.res.peerChain
		}
		// what the TLS layer was pinned to: HandleConn pins the handshake to the expected peer; the
		// pconn transport dials and listens unpinned (DialPeer compares afterwards)
		pinned := expect
		if j.via == "pconn" {
			pinned = ""
		}
		op := fmt.Sprintf("tls.link remote=%s %s", lib.Hex([]byte(pinned)), rawArgs(chain))
		model := e.oracleQuery(op)
		if strings.HasPrefix(model, "err") {
			model = "err"
		}
		impl := j.res.String()
		// the property, directly
		wantHandler := j.valid && (pinned == "" || pinned == j.claimed)
		wantReturn := j.valid && (expect == "" || expect == j.claimed)
		mon := ""
		for _, r := range j.res.handler {
			if !j.valid {
				mon = "a link was reported as established although the remote's certificates are no valid binding: it names " + r.String() + " (" + gen + ")"
			} else if r != j.claimed {
				mon = "an established link names " + r.String() + ", not the identity that signed the remote certificate key (" + gen + ")"
			} else if !wantHandler {
				mon = "a link was established although the caller required another peer (" + gen + ")"
			}
		}
		if r := j.res.returned; r != nil {
			switch {
			case !wantReturn:
				mon = "the caller was given a link (to " + r.String() + ") although the handshake must be refused (" + gen + ")"
			case *r != j.claimed:
				mon = "the returned link names a peer other than the identity that signed the remote certificate key (" + gen + ")"
			case len(j.res.handler) == 0:
				mon = "the returned link was never reported to the transport handler (" + gen + ")"
			}
		} else if wantReturn && j.hDials {
			mon = "no link was established with an honest, expected peer (" + gen + ")"
		}
		if wantHandler && len(j.res.handler) == 0 {
			mon = "no link was established with an honest, expected peer (" + gen + ")"
		}
		if len(j.res.handler) > 1 {
			mon = "one handshake produced several links (" + gen + ")"
		}
		br := "hist.refused"
		if strings.HasPrefix(model, "ok") {
			br = "hist.established"
		}
		if j.peerKey != nil {
			br += ".honest"
		} else {
			br += ".adversary"
		}
		e.rep.Compare(op+" #"+gen, model, impl, br, "tls.hist:"+gen, mon)
		e.rep.Branches["hist.via-"+j.via]++
		if strings.HasPrefix(j.expect, "odd:") {
			e.rep.Branches["hist.expect-odd."+role]++
		}
	}
}

func (e *engine) run() {
	e.rep.Rule = "real X.509 certificates minted with crypto/x509 (honest via NewIdentity and hand-minted for Ed25519/P-256/P-384/RSA certificate keys; re-signed by another key; corrupt certificate signature; extension missing / near-miss OIDs / duplicated in both orders / corrupted, truncated, random, empty ASN.1; signature over another key, other prefixes, bit-flipped, empty, extended; foreign signer; replayed extension; malformed key messages; expired / not yet valid; EKU; unknown critical extensions; 0/2/3-certificate chains; unparsable certificates; unknown key algorithm) through PubKeyFromCertChain and the VerifyPeerCertificate closure of ConfigForPeer(remote) for remote ∈ {any, right, wrong} and for expected ids that are well formed but keyless / undecodable / alias encodings of the answering key (sha2-256 / sha2-512 multihashes incl. the hash of the answering key, identity ids with RSA-typed / unknown-typed / 31-byte / garbage / empty key messages, reordered-field / trailing-field / non-minimal-varint aliases, truncated / extended framings); plus real in-memory QUIC/TLS handshakes (honest↔honest and honest↔adversary with forged certificates, both roles, with/without expected peer, and a valid peer answering a caller that required such a keyless / alias id: HandleConn both roles, pconn DialPeer, stream-backed HandleConn); the tls.Config fields of ConfigForPeer / BuildIncomingTlsConf; sessions negotiated with a permissive tls.Config (8 forged / valid chains × both roles, and a client without certificate) handed to HandleSession / NewLink / DetermineSessionIdentity; histories on ONE pconn listener and handler (victim; adversary from the victim's address; honest peer, forger and certificate-less client concurrently; a client offering session resumption); transport/common/conn (stream-backed) and the transport/websocket HTTP endpoint (in-memory listener) vs adversary; distinct = distinct op line"
	e.rep.Require("pkfc.ok", "pkfc.chainLen", "pkfc.noExt", "pkfc.x509", "pkfc.selfSig", "pkfc.asn1", "pkfc.pubKey", "pkfc.sigInvalid",
		"vpc.ok", "vpc.certParse", "vpc.peerMismatch", "vpc.chainLen", "vpc.noExt", "vpc.x509", "vpc.selfSig", "vpc.asn1", "vpc.pubKey", "vpc.sigInvalid",
		"signedext", "consts",
		"hist.established.honest", "hist.refused.honest", "hist.established.adversary", "hist.refused.adversary", "hist.via-conn", "hist.via-pconn",
		"vpc.expect-sha256", "vpc.expect-identity", "vpc.expect-alias", "vpc.expect-truncated", "hist.expect-odd.dial", "hist.expect-odd.listen", "conn.expect-odd",
		"config", "sess.established", "sess.refused", "sess.listen", "sess.dial", "lhist.established", "lhist.refused", "lhist.accounted", "conn.established", "conn.refused", "ws.established", "ws.refused")
	// the constants the theorems are stated about are the specification's
	want := "ok oid=" + oidStr(specOID) + " prefix=" + lib.Hex([]byte(specPrefix))
	got := e.m.Query("tls.consts")
	mon := ""
	if got != want {
		mon = "the extension OID / certificate prefix in the source differ from the libp2p TLS specification"
	}
	e.rep.Compare("tls.consts", got, want, "consts", "tls.consts", mon)

	e.rep.Notes = append(e.rep.Notes, "class small-order-identity-key: the neutral-element Ed25519 key verifies a fixed signature for every message (crypto/ed25519); PubKeyFromCertChain accepts it, as does the model given the oracle's answer — outside SigScheme.unforge")
	rounds := 4 * e.a.Scale
	if rounds > 40 {
		rounds = 40
	}
	for r := 0; r < rounds; r++ {
		for _, tc := range e.cases(r) {
			e.runCase(tc)
		}
	}
	e.runHistory()
	e.runW3()
}

func main() {
	a := lib.ParseArgs()
	os.Setenv("QUIC_GO_DISABLE_RECEIVE_BUFFER_WARNING", "true")
	lg := logrus.New()
	lg.SetLevel(logrus.PanicLevel)
	lg.SetOutput(io.Discard)
	e := &engine{a: a, rng: lib.NewRng(a.Seed), m: lib.NewModel(a.Driver), le: logrus.NewEntry(lg)}
	e.rep = lib.NewReport("tls", a)
	if a.Prop != "C03" {
		fmt.Println("unknown property", a.Prop)
		return
	}
	var err error
	e.rsa, err = rsa.GenerateKey(rand.Reader, 2048)
	if err != nil {
		panic(err)
	}
	e.local, err = p2ptls.NewIdentity(e.newID().sk)
	if err != nil {
		panic(err)
	}
	e.run()
	e.m.Close()
	e.rep.Write(a.Out)
}
