// Wave 3 extensions of engine tls (C03):
//   - configCases: the fields of the tls.Config that ConfigForPeer / BuildIncomingTlsConf hand to
//     crypto/tls, stated directly (TLS 1.3 only, a client certificate is demanded, the binding
//     check is installed, tickets are off, one certificate with a one-element chain);
//   - sessionCases: a *quic.Conn negotiated with a PERMISSIVE tls.Config (nothing vetted the peer's
//     chain) is handed to Transport.HandleSession, NewLink and DetermineSessionIdentity: the
//     identity derivation must refuse every chain that is no valid binding on its own;
//   - listenerHistories: ONE honest pconn listener, one handler, a sequence of peers: the victim,
//     then an adversary from the victim's address, then an honest peer, a forger and a client
//     without certificate concurrently, then a client that tries to resume a session;
//   - connCases: the same through transport/common/conn (stream-backed transport).
package main

import (
	"context"
	gocrypto "crypto"
	"crypto/tls"
	"fmt"
	"net"
	"net/http"
	"os"
	"sort"
	"strconv"
	"strings"
	"sync"
	"time"

	"github.com/aperturerobotics/bifrost/link"
	"github.com/aperturerobotics/bifrost/peer"
	transport_conn "github.com/aperturerobotics/bifrost/transport/common/conn"
	"github.com/aperturerobotics/bifrost/transport/common/pconn"
	transport_quic "github.com/aperturerobotics/bifrost/transport/common/quic"
	bws "github.com/aperturerobotics/bifrost/transport/websocket"
	"github.com/aperturerobotics/bifrost/util/rwc"
	websocket "github.com/aperturerobotics/go-websocket"
	"github.com/quic-go/quic-go"

	"verif/harness/lib"
)

// ---- an in-memory packet network with addresses -------------------------------------------------

type memNet struct {
	mu    sync.Mutex
	nodes map[string]*memConn
}

func newMemNet() *memNet { return &memNet{nodes: map[string]*memConn{}} }

// bind gives the address to a new packet conn; a previous holder is closed (its address is taken over).
func (n *memNet) bind(addr string) *memConn {
	c := &memConn{local: memAddr(addr), in: make(chan memPkt, 512), closed: make(chan struct{}), changed: make(chan struct{}), hub: n}
	n.mu.Lock()
	if old := n.nodes[addr]; old != nil {
		old.Close()
	}
	n.nodes[addr] = c
	n.mu.Unlock()
	return c
}

func (n *memNet) lookup(a net.Addr) *memConn {
	if a == nil {
		return nil
	}
	n.mu.Lock()
	defer n.mu.Unlock()
	c := n.nodes[a.String()]
	if c == nil {
		return nil
	}
	select {
	case <-c.closed:
		return nil
	default:
	}
	return c
}

func remoteAddrOf(l link.Link) string {
	if r, ok := l.(interface{ RemoteAddr() net.Addr }); ok && r.RemoteAddr() != nil {
		return r.RemoteAddr().String()
	}
	return "?"
}

// ---- tls.Config fields --------------------------------------------------------------------------

func (e *engine) configCases() {
	id := e.newID()
	other := e.newID()
	tpt, err := transport_quic.NewTransport(context.Background(), e.le, 0, nil, id.sk, &recorder{}, &transport_quic.Opts{}, nil)
	if err != nil {
		panic(err)
	}
	check := func(name string, c *tls.Config, wantAlpn bool, wantNoTickets bool) {
		var bad []string
		if c == nil {
			bad = append(bad, "nil config")
		} else {
			if c.MinVersion != tls.VersionTLS13 {
				bad = append(bad, fmt.Sprintf("MinVersion=%#x (TLS 1.3 required: the proof of possession of the certificate key is the TLS 1.3 CertificateVerify)", c.MinVersion))
			}
			if c.MaxVersion != 0 && c.MaxVersion < tls.VersionTLS13 {
				bad = append(bad, "MaxVersion below TLS 1.3")
			}
			if c.ClientAuth != tls.RequireAnyClientCert {
				bad = append(bad, fmt.Sprintf("ClientAuth=%v (a client certificate must be demanded)", c.ClientAuth))
			}
			if c.VerifyPeerCertificate == nil {
				bad = append(bad, "VerifyPeerCertificate not installed")
			}
			if !c.InsecureSkipVerify && c.VerifyPeerCertificate != nil {
				// allowed but then the web PKI would refuse every self-signed certificate; not a property violation
			}
			if c.InsecureSkipVerify && c.VerifyPeerCertificate == nil && c.VerifyConnection == nil {
				bad = append(bad, "InsecureSkipVerify without any verification callback")
			}
			if len(c.Certificates) != 1 || len(c.Certificates[0].Certificate) != 1 {
				bad = append(bad, "not exactly one certificate with a one-element chain")
			}
			if c.GetCertificate != nil || c.GetClientCertificate != nil {
				bad = append(bad, "certificate callbacks installed")
			}
			if wantAlpn && (len(c.NextProtos) != 1 || c.NextProtos[0] != "bifrost") {
				bad = append(bad, fmt.Sprintf("NextProtos=%v", c.NextProtos))
			}
			if wantNoTickets && !c.SessionTicketsDisabled {
				bad = append(bad, "session tickets enabled (a resumed session skips the certificate exchange)")
			}
		}
		mon := ""
		if len(bad) > 0 {
			mon = name + ": " + strings.Join(bad, "; ")
		}
		e.rep.Compare("tls.config "+name, "ok", map[bool]string{true: "ok", false: "bad"}[len(bad) == 0], "config", "tls.config:"+name, mon)
	}
	for _, r := range []peer.ID{"", other.id} {
		c, _ := tpt.GetIdentity().ConfigForPeer(r)
		check("ConfigForPeer/"+map[bool]string{true: "any", false: "pinned"}[r == ""], c, false, true)
		outer := transport_quic.BuildIncomingTlsConf(tpt.GetIdentity(), r)
		var inner *tls.Config
		got := lib.Recover(func() string {
			if outer == nil || outer.GetConfigForClient == nil {
				return "no GetConfigForClient"
			}
			var err error
			inner, err = outer.GetConfigForClient(&tls.ClientHelloInfo{})
			if err != nil {
				return "err"
			}
			return "ok"
		})
		if got != "ok" {
			e.rep.Compare("tls.config incoming", "ok", got, "config", "tls.config:BuildIncomingTlsConf", "BuildIncomingTlsConf yields no per-client configuration: "+got)
			continue
		}
		check("BuildIncomingTlsConf/"+map[bool]string{true: "any", false: "pinned"}[r == ""], inner, true, true)
		mon := ""
		if !outer.SessionTicketsDisabled {
			mon = "BuildIncomingTlsConf: session tickets enabled on the outer listener configuration"
		}
		e.rep.Compare("tls.config outer", "ok", map[bool]string{true: "ok", false: "bad"}[mon == ""], "config", "tls.config:BuildIncomingTlsConf/outer", mon)
	}
}

// ---- HandleSession / NewLink / DetermineSessionIdentity on an unvetted session -----------------------

// permissive configurations: the TLS handshake succeeds whatever the peer presents.
func permissiveServer(own []tls.Certificate) *tls.Config {
	return &tls.Config{MinVersion: tls.VersionTLS13, Certificates: own, ClientAuth: tls.RequestClientCert, InsecureSkipVerify: true, NextProtos: []string{transport_quic.Alpn}}
}
func permissiveClient(own []tls.Certificate) *tls.Config {
	return &tls.Config{MinVersion: tls.VersionTLS13, Certificates: own, InsecureSkipVerify: true, NextProtos: []string{transport_quic.Alpn}}
}

type sessCase struct {
	gen     string
	listen  bool // the honest side accepted the session (else it dialed)
	chain   [][]byte
	key     gocrypto.Signer
	valid   bool
	claimed peer.ID
}

func (e *engine) sessionCase(ctx context.Context, n int, sc sessCase, hk *idKey) func() {
	nw := newMemNet()
	hpc, apc := nw.bind("sh-"+strconv.Itoa(n)), nw.bind("sa-"+strconv.Itoa(n))
	defer hpc.Close()
	defer apc.Close()
	actx, cancel := context.WithTimeout(ctx, 10*time.Second)
	defer cancel()
	rec := &recorder{}
	ht, err := transport_quic.NewTransport(actx, e.le, 0, nil, hk.sk, rec, &transport_quic.Opts{}, nil)
	if err != nil {
		panic(err)
	}
	idc, _ := ht.GetIdentity().ConfigForPeer("")
	var adv *tls.Config
	if sc.chain == nil {
		adv = &tls.Config{MinVersion: tls.VersionTLS13, InsecureSkipVerify: true, NextProtos: []string{transport_quic.Alpn}}
	} else {
		adv = adversaryTLS(sc.chain, sc.key)
	}
	var sess *quic.Conn
	if sc.listen {
		ln, err := quic.Listen(hpc, permissiveServer(idc.Certificates), advQuic)
		if err != nil {
			panic(err)
		}
		defer ln.Close()
		go adversary(actx, false, apc, hpc.LocalAddr(), adv)
		sess, err = ln.Accept(actx)
		if err != nil {
			sess = nil
		}
	} else {
		go adversary(actx, true, apc, hpc.LocalAddr(), adv)
		for try := 0; try < 50 && sess == nil && actx.Err() == nil; try++ {
			dctx, dc := context.WithTimeout(actx, 2*time.Second)
			sess, err = quic.Dial(dctx, hpc, apc.LocalAddr(), permissiveClient(idc.Certificates), advQuic)
			dc()
			if err != nil {
				sess = nil
				time.Sleep(20 * time.Millisecond)
			}
		}
	}
	role := map[bool]string{true: "listen", false: "dial"}[sc.listen]
	gen := "session/" + sc.gen + "/" + role
	op := fmt.Sprintf("tls.link remote=- %s", rawArgs(sc.chain))
	if sess == nil {
		return func() {
			e.rep.Compare(op+" #"+gen, "x", "no-session", "sess.nosession", "tls.sess:"+gen, "the permissive QUIC/TLS handshake of the harness did not complete (harness fault)")
		}
	}
	// what the peer really presented, as crypto/tls reports it
	var presented [][]byte
	for _, c := range sess.ConnectionState().TLS.PeerCertificates {
		presented = append(presented, c.Raw)
	}
	mon := ""
	if len(presented) != len(sc.chain) {
		mon = fmt.Sprintf("harness fault: the peer presented %d certificates, %d were configured", len(presented), len(sc.chain))
	}
	dsi := lib.Recover(func() string {
		id, _, err := transport_quic.DetermineSessionIdentity(sess)
		if err != nil {
			return "err"
		}
		return "ok id=" + lib.Hex([]byte(id))
	})
	nl := lib.Recover(func() string {
		l, err := transport_quic.NewLink(actx, e.le, &transport_quic.Opts{}, 1, hk.id, hpc.LocalAddr(), sess, func() {})
		if err != nil || l == nil {
			return "err"
		}
		return "ok id=" + lib.Hex([]byte(l.GetRemotePeer()))
	})
	hs := lib.Recover(func() string {
		l, err := ht.HandleSession(actx, sess)
		if err != nil || l == nil {
			return "err"
		}
		return "ok id=" + lib.Hex([]byte(l.GetRemotePeer()))
	})
	// the handler is told asynchronously (`go HandleLinkEstablished`)
	res := hsResult{}
	if strings.HasPrefix(hs, "ok") {
		collect(actx, rec, &res, 3*time.Second)
	} else {
		collect(actx, rec, &res, 0)
	}
	want := "err"
	if sc.valid {
		want = "ok id=" + lib.Hex([]byte(sc.claimed))
	}
	return func() {
		model := e.oracleQuery(op)
		if strings.HasPrefix(model, "err") {
			model = "err"
		}
		for name, got := range map[string]string{"DetermineSessionIdentity": dsi, "NewLink": nl, "HandleSession": hs} {
			if strings.HasPrefix(got, "panic") {
				mon = name + " panics on an unvetted session (" + gen + ")"
			} else if got != want && mon == "" {
				if sc.valid {
					mon = name + " on a session whose peer presented a valid binding for " + sc.claimed.String() + " yields " + got + " (" + gen + ")"
				} else {
					mon = name + " derives an identity (" + got + ") from a session whose peer certificates are no valid binding (" + gen + ")"
				}
			}
		}
		for _, r := range res.handler {
			if !sc.valid {
				mon = "a link was reported as established for a session whose peer certificates are no valid binding: it names " + r.String() + " (" + gen + ")"
			} else if r != sc.claimed {
				mon = "an established link names " + r.String() + ", not the identity that signed the remote certificate key (" + gen + ")"
			}
		}
		if sc.valid && len(res.handler) != 1 && mon == "" {
			mon = fmt.Sprintf("HandleSession reported %d links to the handler for one valid session (%s)", len(res.handler), gen)
		}
		impl := hs
		if dsi != hs || nl != hs {
			impl = "split dsi=" + dsi + " newlink=" + nl + " session=" + hs
		}
		br := "sess.refused"
		if strings.HasPrefix(model, "ok") {
			br = "sess.established"
		}
		e.rep.Compare(op+" #"+gen, model, impl, br, "tls.sess:"+gen, mon)
		e.rep.Branches["sess."+role]++
	}
}

func (e *engine) sessionCases(ctx context.Context) {
	victim, attacker := e.newID(), e.newID()
	ck, ck2 := e.newCertKey(1), e.newCertKey(1)
	forged := e.forgedChains(victim, attacker, ck, ck2)
	names := make([]string, 0, len(forged))
	for k := range forged {
		names = append(names, k)
	}
	sort.Strings(names)
	var cases []sessCase
	for _, g := range names {
		chain, claimed, valid := forged[g]()
		for _, listen := range []bool{true, false} {
			cases = append(cases, sessCase{gen: g, listen: listen, chain: chain, key: ck.signer, valid: valid, claimed: claimed})
		}
	}
	// a client that presents no certificate at all (only possible towards a listener)
	cases = append(cases, sessCase{gen: "no-certificate", listen: true})
	evals := make([]func(), len(cases))
	hks := make([]*idKey, len(cases)) // keys are drawn from the engine's PRNG on this goroutine only
	for i := range hks {
		hks[i] = e.newID()
	}
	var wg sync.WaitGroup
	sem := make(chan struct{}, 8)
	for i, sc := range cases {
		wg.Add(1)
		sem <- struct{}{}
		go func(i int, sc sessCase) {
			defer wg.Done()
			defer func() { <-sem }()
			evals[i] = e.sessionCase(ctx, i, sc, hks[i])
		}(i, sc)
	}
	wg.Wait()
	for _, f := range evals { // the model and the report are used from this goroutine only
		f()
	}
}

// ---- one listener, a sequence of peers ----------------------------------------------------------

type hsExpect struct {
	step   string
	addr   string
	chain  [][]byte
	valid  bool
	id     peer.ID
	before int // number of links the handler had when the step began
}

// rawDial runs a quic-go client with the given configuration; it returns when the server has
// closed the connection, the wait expired, or release is closed.
func rawDial(ctx context.Context, pc net.PacketConn, to net.Addr, conf *tls.Config, release <-chan struct{}, wait time.Duration) (resumed bool, connected bool) {
	dctx, dc := context.WithTimeout(ctx, wait)
	defer dc()
	c, err := quic.Dial(dctx, pc, to, conf, advQuic)
	if err != nil {
		return false, false
	}
	resumed = c.ConnectionState().TLS.DidResume
	select {
	case <-c.Context().Done(): // closed by the server (refused) or lost
	case <-release:
	case <-dctx.Done():
	}
	c.CloseWithError(0, "")
	return resumed, true
}

func (e *engine) listenerHistory(ctx context.Context, n int, step2 string, step3 string, ks []*idKey) func() {
	nw := newMemNet()
	actx, cancel := context.WithTimeout(ctx, 40*time.Second)
	defer cancel()
	rec := &recorder{}
	hk, victim, attacker, honest, att2 := ks[0], ks[1], ks[2], ks[3], ks[4]
	ck, ck2 := e.newCertKey(1), e.newCertKey(1)
	parser := func(s string) (net.Addr, error) { return memAddr(s), nil }
	hpc := nw.bind("H")
	defer hpc.Close()
	ht, err := pconn.NewTransport(actx, e.le, hk.sk, rec, nil, 0, hpc, parser, nil)
	if err != nil {
		panic(err)
	}
	go func() { _ = ht.Execute(actx) }()
	time.Sleep(30 * time.Millisecond)
	tag := fmt.Sprintf("listener#%d[%s,%s]", n, step2, step3)
	var exps []*hsExpect
	waitLinks := func(k int, d time.Duration) {
		dl := time.Now().Add(d)
		for time.Now().Before(dl) && len(rec.snapshot()) < k {
			time.Sleep(5 * time.Millisecond)
		}
	}
	honestDial := func(step, addr string, k *idKey) (context.CancelFunc, *hsExpect) {
		pc := nw.bind(addr)
		pctx, pcancel := context.WithCancel(actx)
		pt, err := pconn.NewTransport(pctx, e.le, k.sk, &recorder{}, nil, 0, pc, parser, nil)
		if err != nil {
			panic(err)
		}
		conf, _ := pt.GetIdentity().ConfigForPeer("")
		ex := &hsExpect{step: step, addr: addr, chain: conf.Certificates[0].Certificate, valid: true, id: k.id, before: len(rec.snapshot())}
		exps = append(exps, ex)
		go func() { _ = pt.Execute(pctx) }()
		go func() { _, _, _ = pt.DialPeer(pctx, "", "H") }()
		return func() { pcancel(); pc.Close() }, ex
	}
	advDial := func(step, addr string, gen string, claimVictim *idKey, who *idKey, cache tls.ClientSessionCache, release <-chan struct{}, done *sync.WaitGroup, resumed *bool) *hsExpect {
		var chain [][]byte
		var claimed peer.ID
		var valid bool
		var conf *tls.Config
		if gen == "no-certificate" {
			conf = &tls.Config{MinVersion: tls.VersionTLS13, InsecureSkipVerify: true, NextProtos: []string{transport_quic.Alpn}}
		} else {
			chain, claimed, valid = e.forgedChains(claimVictim, who, ck, ck2)[gen]()
			conf = adversaryTLS(chain, ck.signer)
		}
		conf.ClientSessionCache = cache
		pc := nw.bind(addr)
		ex := &hsExpect{step: step + "/" + gen, addr: addr, chain: chain, valid: valid, id: claimed, before: len(rec.snapshot())}
		exps = append(exps, ex)
		done.Add(1)
		go func() {
			defer done.Done()
			r, _ := rawDial(actx, pc, memAddr("H"), conf, release, 4*time.Second)
			if resumed != nil {
				*resumed = r
			}
		}()
		return ex
	}

	// step 1: the victim connects from address B
	stopVictim, _ := honestDial("1:victim", "B", victim)
	waitLinks(1, 8*time.Second)
	// step 2: the victim goes away; an adversary takes over address B
	stopVictim()
	var wg2 sync.WaitGroup
	rel2 := make(chan struct{})
	ex2 := advDial("2:from-victims-address", "B", step2, victim, attacker, nil, rel2, &wg2, nil)
	if ex2.valid {
		waitLinks(2, 8*time.Second)
	} else {
		wg2.Wait() // returns once the listener has closed the connection (or after the wait)
	}
	n2 := len(rec.snapshot())
	// step 3: an honest peer, a forger claiming to be that peer, and a client without certificate, concurrently
	var wg3 sync.WaitGroup
	rel3 := make(chan struct{})
	stopHonest, _ := honestDial("3:honest", "C", honest)
	advDial("3:forger", "D", step3, honest, attacker, nil, rel3, &wg3, nil)
	advDial("3:forger", "E", "no-certificate", nil, nil, nil, rel3, &wg3, nil)
	waitLinks(n2+1, 8*time.Second)
	wg3.Wait()
	n3 := len(rec.snapshot())
	// step 4: a valid peer connects twice from F and offers to resume its first session
	cache := tls.NewLRUClientSessionCache(4)
	var res1, res2 bool
	var wg4 sync.WaitGroup
	rel4 := make(chan struct{})
	advDial("4:first", "F", "own-identity", victim, att2, cache, rel4, &wg4, &res1)
	waitLinks(n3+1, 8*time.Second)
	close(rel4)
	wg4.Wait()
	rel5 := make(chan struct{})
	advDial("4:resume", "F", "own-identity", victim, att2, cache, rel5, &wg4, &res2)
	waitLinks(n3+2, 8*time.Second)
	time.Sleep(50 * time.Millisecond)
	links := rec.snapshot()
	close(rel2)
	close(rel3)
	close(rel5)
	wg4.Wait()
	stopHonest()

	// evaluation: the links the handler saw, by remote address in order of arrival
	return func() {
		byAddr := map[string][]peer.ID{}
		for _, l := range links {
			a := remoteAddrOf(l)
			byAddr[a] = append(byAddr[a], l.GetRemotePeer())
		}
		used := map[string]int{}
		for _, ex := range exps {
			op := fmt.Sprintf("tls.link remote=- %s", rawArgs(ex.chain))
			model := e.oracleQuery(op)
			if strings.HasPrefix(model, "err") {
				model = "err"
			}
			impl, mon := "err", ""
			gen := tag + "/" + ex.step
			if ex.valid {
				got := byAddr[ex.addr]
				if used[ex.addr] < len(got) {
					r := got[used[ex.addr]]
					used[ex.addr]++
					impl = "ok id=" + lib.Hex([]byte(r))
					if r != ex.id {
						mon = "the link established from address " + ex.addr + " names " + r.String() + ", not " + ex.id.String() + " whose key signed the certificate presented in that handshake (" + gen + ")"
					}
				} else {
					mon = "no link was established with an honest peer connecting from " + ex.addr + " (" + gen + ")"
				}
			}
			br := "lhist.refused"
			if strings.HasPrefix(model, "ok") {
				br = "lhist.established"
			}
			e.rep.Compare(op+" #"+gen, model, impl, br, "tls.lhist:"+ex.step, mon)
		}
		// every link must be accounted for by a valid handshake from its address
		mon := ""
		for a, got := range byAddr {
			if used[a] < len(got) {
				mon = fmt.Sprintf("the handler was given %d link(s) from address %s (naming %s) but only %d valid binding(s) were presented from there (%s)", len(got), a, got[len(got)-1].String(), used[a], tag)
			}
		}
		if res1 || res2 {
			mon = "the listener resumed a TLS session (no certificate exchange took place in that handshake) (" + tag + ")"
		}
		e.rep.Compare("tls.lhist "+tag, "ok", map[bool]string{true: "ok", false: "bad"}[mon == ""], "lhist.accounted", "tls.lhist:accounting", mon)
	}
}

func (e *engine) listenerHistories(ctx context.Context) {
	type v struct{ s2, s3 string }
	vs := []v{{"replayed-extension", "foreign-signer"}, {"own-identity", "replayed-extension"}, {"foreign-signer", "resigned-by-other-key"}, {"two-certificates", "no-extension"}}
	if e.a.Scale > 1 {
		vs = append(vs, v{"own-identity", "foreign-signer"}, v{"wrong-prefix", "expired"}, v{"no-extension", "two-certificates"}, v{"resigned-by-other-key", "wrong-prefix"})
	}
	evals := make([]func(), len(vs))
	kss := make([][]*idKey, len(vs))
	for i := range kss {
		kss[i] = []*idKey{e.newID(), e.newID(), e.newID(), e.newID(), e.newID()}
	}
	var wg sync.WaitGroup
	for i, x := range vs {
		wg.Add(1)
		go func(i int, x v) {
			defer wg.Done()
			evals[i] = e.listenerHistory(ctx, i, x.s2, x.s3, kss[i])
		}(i, x)
	}
	wg.Wait()
	for _, f := range evals {
		f()
	}
}

// ---- transport/common/conn -----------------------------------------------------------------------

type pipeEnd struct{ net.Conn }

func (e *engine) connCase(ctx context.Context, n int, gen string, hDials bool, pin string, ks []*idKey) func() {
	victim, attacker, other, hk := ks[0], ks[1], ks[2], ks[3]
	ck, ck2 := e.newCertKey(1), e.newCertKey(1)
	chain, claimed, valid := e.forgedChains(victim, attacker, ck, ck2)[gen]()
	// a refusal is "no link until the wait is over" (the listener keeps waiting for another
	// handshake); only an expected link needs the long wait, and that ends with the event
	wait := 1500 * time.Millisecond
	if valid && (pin != "wrong") && !strings.HasPrefix(pin, "odd:") {
		wait = 10 * time.Second
	}
	actx, cancel := context.WithTimeout(ctx, wait)
	defer cancel()
	rec := &recorder{}
	ht, err := transport_conn.NewTransport(actx, e.le, hk.sk, rec, nil, 0, memAddr("ch-"+strconv.Itoa(n)), nil)
	if err != nil {
		panic(err)
	}
	hc, ac := net.Pipe()
	defer hc.Close()
	defer ac.Close()
	var expect peer.ID
	switch pin {
	case "right":
		expect = claimed
	case "wrong":
		expect = other.id
	default:
		if strings.HasPrefix(pin, "odd:") { // wave 4 (w4.go): keyless / alias form of the answering key's id
			for _, o := range e.oddIDs(attacker.pub) {
				if o.name == pin[4:] {
					expect = o.id
				}
			}
		}
	}
	// the adversary frames packets on its end of the stream the same way and speaks quic-go directly
	apc := rwc.NewPacketConn(actx, ac, memAddr("ca-"+strconv.Itoa(n)), memAddr("ch-"+strconv.Itoa(n)), 65000, 10)
	go adversary(actx, hDials, apc, memAddr("ch-"+strconv.Itoa(n)), adversaryTLS(chain, ck.signer))
	res := hsResult{}
	lnk, err := ht.HandleConn(actx, hDials, hc, memAddr("ca-"+strconv.Itoa(n)), expect)
	if err == nil && lnk != nil {
		r := lnk.GetRemotePeer()
		res.returned = &r
		collect(actx, rec, &res, 3*time.Second)
	} else {
		collect(actx, rec, &res, 0)
	}
	role := map[bool]string{true: "dial", false: "listen"}[hDials]
	g := "streamconn/" + gen + "/" + role + "/" + pin
	op := fmt.Sprintf("tls.link remote=%s %s", lib.Hex([]byte(expect)), rawArgs(chain))
	return func() {
		model := e.oracleQuery(op)
		if strings.HasPrefix(model, "err") {
			model = "err"
		}
		want := valid && (expect == "" || expect == claimed)
		mon := ""
		for _, r := range res.handler {
			if !valid {
				mon = "a link was reported as established although the remote's certificates are no valid binding: it names " + r.String() + " (" + g + ")"
			} else if r != claimed {
				mon = "an established link names " + r.String() + ", not the identity that signed the remote certificate key (" + g + ")"
			} else if !want {
				mon = "a link was established although the caller required another peer (" + g + ")"
			}
		}
		if res.returned != nil && !want {
			mon = "the caller was given a link (to " + res.returned.String() + ") although the handshake must be refused (" + g + ")"
		}
		if want && len(res.handler) == 0 {
			mon = "no link was established with a valid, expected peer (" + g + ")"
		}
		br := "conn.refused"
		if strings.HasPrefix(model, "ok") {
			br = "conn.established"
		}
		e.rep.Compare(op+" #"+g, model, res.String(), br, "tls.hist:"+g, mon)
		if strings.HasPrefix(pin, "odd:") {
			e.rep.Branches["conn.expect-odd"]++
		}
	}
}

func (e *engine) connCases(ctx context.Context) {
	type c struct {
		gen    string
		hDials bool
		pin    string
	}
	var cs []c
	for _, g := range []string{"replayed-extension", "foreign-signer", "no-extension", "two-certificates"} {
		cs = append(cs, c{g, false, "any"}, c{g, true, "right"})
	}
	for _, hd := range []bool{true, false} {
		for _, pin := range []string{"any", "right", "wrong"} {
			cs = append(cs, c{"own-identity", hd, pin})
		}
		// wave 4: the required id is keyless / an alias of the answering key's id
		cs = append(cs, c{"own-identity", hd, []string{"odd:sha256-of-answering-key", "odd:identity-rsa-typed-same-bytes"}[e.rng.Intn(2)]},
			c{"own-identity", hd, []string{"odd:alias-fields-reordered", "odd:identity-unknown-key-type"}[e.rng.Intn(2)]})
	}
	evals := make([]func(), len(cs))
	kss := make([][]*idKey, len(cs))
	for i := range kss {
		kss[i] = []*idKey{e.newID(), e.newID(), e.newID(), e.newID()}
	}
	var wg sync.WaitGroup
	sem := make(chan struct{}, 8)
	for i, x := range cs {
		wg.Add(1)
		sem <- struct{}{}
		go func(i int, x c) {
			defer wg.Done()
			defer func() { <-sem }()
			evals[i] = e.connCase(ctx, i, x.gen, x.hDials, x.pin, kss[i])
		}(i, x)
	}
	wg.Wait()
	for _, f := range evals {
		f()
	}
}

// ---- transport/websocket: the HTTP endpoint (ServeHTTP -> HandleConn, any peer) ------------------------

// memListener hands the server ends of in-memory pipes to an http.Server.
type memListener struct {
	ch     chan net.Conn
	closed chan struct{}
	once   sync.Once
}

func (l *memListener) Accept() (net.Conn, error) {
	select {
	case c := <-l.ch:
		return c, nil
	case <-l.closed:
		return nil, net.ErrClosed
	}
}
func (l *memListener) Close() error   { l.once.Do(func() { close(l.closed) }); return nil }
func (l *memListener) Addr() net.Addr { return memAddr("ws-mem") }
func (l *memListener) dial(ctx context.Context, _, _ string) (net.Conn, error) {
	a, b := net.Pipe()
	select {
	case l.ch <- b:
		return a, nil
	case <-l.closed:
		return nil, net.ErrClosed
	case <-ctx.Done():
		return nil, ctx.Err()
	}
}

func (e *engine) wsCase(ctx context.Context, n int, gen string, ks []*idKey) func() {
	victim, attacker, hk := ks[0], ks[1], ks[3]
	ck, ck2 := e.newCertKey(1), e.newCertKey(1)
	chain, claimed, valid := e.forgedChains(victim, attacker, ck, ck2)[gen]()
	wait := 1500 * time.Millisecond
	if valid {
		wait = 10 * time.Second
	}
	actx, cancel := context.WithTimeout(ctx, wait)
	defer cancel()
	rec := &recorder{}
	srv, err := bws.NewWebSocket(actx, e.le, &bws.Config{}, hk.sk, rec)
	if err != nil {
		panic(err)
	}
	ln := &memListener{ch: make(chan net.Conn), closed: make(chan struct{})}
	hs := &http.Server{Handler: srv, BaseContext: func(net.Listener) context.Context { return actx }}
	go func() { _ = hs.Serve(ln) }()
	defer hs.Close()
	defer ln.Close()
	fault := ""
	wc, _, err := websocket.Dial(actx, "ws://ws-mem/", &websocket.DialOptions{
		Subprotocols: []string{transport_quic.Alpn},
		HTTPClient:   &http.Client{Transport: &http.Transport{DialContext: ln.dial}},
	})
	res := hsResult{}
	if err != nil {
		fault = "harness fault: the websocket upgrade over the in-memory listener failed: " + err.Error()
	} else {
		apc := bws.NewPacketConn(actx, wc, memAddr("wa-"+strconv.Itoa(n)), memAddr("ws-mem"))
		go adversary(actx, false, apc, memAddr("ws-mem"), adversaryTLS(chain, ck.signer))
		if valid {
			collect(actx, rec, &res, 8*time.Second)
		} else {
			<-actx.Done()
			collect(context.Background(), rec, &res, 0)
		}
	}
	g := "websocket/" + gen + "/listen/any"
	op := fmt.Sprintf("tls.link remote=- %s", rawArgs(chain))
	return func() {
		model := e.oracleQuery(op)
		if strings.HasPrefix(model, "err") {
			model = "err"
		}
		mon := fault
		for _, r := range res.handler {
			if !valid {
				mon = "a link was reported as established although the remote's certificates are no valid binding: it names " + r.String() + " (" + g + ")"
			} else if r != claimed {
				mon = "an established link names " + r.String() + ", not the identity that signed the remote certificate key (" + g + ")"
			}
		}
		if valid && len(res.handler) == 0 && mon == "" {
			mon = "no link was established with a valid peer (" + g + ")"
		}
		br := "ws.refused"
		if strings.HasPrefix(model, "ok") {
			br = "ws.established"
		}
		e.rep.Compare(op+" #"+g, model, res.String(), br, "tls.hist:"+g, mon)
	}
}

func (e *engine) wsCases(ctx context.Context) {
	gens := []string{"own-identity", "replayed-extension", "foreign-signer", "no-extension", "two-certificates", "resigned-by-other-key"}
	evals := make([]func(), len(gens))
	kss := make([][]*idKey, len(gens))
	for i := range kss {
		kss[i] = []*idKey{e.newID(), e.newID(), e.newID(), e.newID()}
	}
	var wg sync.WaitGroup
	for i, g := range gens {
		wg.Add(1)
		go func(i int, g string) {
			defer wg.Done()
			evals[i] = e.wsCase(ctx, i, g, kss[i])
		}(i, g)
	}
	wg.Wait()
	for _, f := range evals {
		f()
	}
}

func (e *engine) runW3() {
	ctx, cancel := context.WithCancel(context.Background())
	defer cancel()
	t0 := time.Now()
	lap := func(what string) {
		if os.Getenv("VERIF_TIMING") != "" {
			fmt.Fprintf(os.Stderr, "tls w3 %s: %v\n", what, time.Since(t0))
		}
		t0 = time.Now()
	}
	e.configCases()
	e.sessionCases(ctx)
	lap("sessions")
	e.listenerHistories(ctx)
	lap("listener histories")
	e.connCases(ctx)
	lap("stream conn")
	e.wsCases(ctx)
	lap("websocket")
}
