// Command incoming is the correspondence engine for the dispatch clause of C07 and the stream
// clause of C04. It calls the REAL transport_controller.Controller.HandleIncomingStream (directly
// and through the real accept pump of an established link) on a real controller bus, with fake
// links whose local / remote peer IDs differ per case and a scripted chunked stream that records
// Close(), the deadline calls and the bytes left unread; a handler controller registered on the
// bus records every link.HandleMountedStream directive it is asked to resolve and the getters of
// every mounted stream it is handed. The opener side runs the real OpenMountedStream of the
// mounted link that a real EstablishLinkWithPeer directive yields, against a stream whose Write
// can fail or write short, and what it wrote is fed back through HandleIncomingStream.
// Every case is compared with the Lean model (Bifrost.Incoming) and judged by model-independent
// monitors that state the clauses directly.
package main

import (
	"context"
	"errors"
	"fmt"
	"io"
	"os"
	"runtime"
	"strings"
	"sync"
	"time"
	"unicode/utf8"

	"github.com/aperturerobotics/bifrost/crypto"
	"github.com/aperturerobotics/bifrost/link"
	"github.com/aperturerobotics/bifrost/peer"
	peer_controller "github.com/aperturerobotics/bifrost/peer/controller"
	"github.com/aperturerobotics/bifrost/protocol"
	"github.com/aperturerobotics/bifrost/stream"
	"github.com/aperturerobotics/bifrost/testbed"
	"github.com/aperturerobotics/bifrost/transport"
	transport_controller "github.com/aperturerobotics/bifrost/transport/controller"
	"github.com/aperturerobotics/controllerbus/bus"
	"github.com/aperturerobotics/controllerbus/controller"
	"github.com/aperturerobotics/controllerbus/controller/resolver"
	"github.com/aperturerobotics/controllerbus/directive"
	pbl "github.com/aperturerobotics/protobuf-go-lite"
	"github.com/blang/semver/v4"
	"github.com/sirupsen/logrus"

	"verif/harness/hdrgen"
	"verif/harness/lib"
)

const waitLimit = 20 * time.Second

// ---------------------------------------------------------------------------------------------
// fake stream

type fakeStream struct {
	mtx    sync.Mutex
	c      *hcase
	chunks [][]byte
	// stall: when the script is exhausted the peer goes silent (Read blocks until the read
	// deadline, then fails) instead of ending the stream.
	stall bool
	// last: the Read that hands out the final bytes of the script returns them together with io.EOF
	// (n > 0, io.EOF), as quic-go does when data and FIN arrive together.
	last bool
	// hold: when set, the first Read waits until the channel is closed (the peer has opened the
	// stream but not sent anything yet).
	hold chan struct{}
	// stall bookkeeping: whether a read deadline was armed when the read on the silent peer began,
	// and whether the read had to be given up because no deadline was ever armed.
	stallBlocked, stallArmedAtBlock, stallNoDeadline bool
	readDL                                           time.Time
	readArmed                                        bool
	writeArmed                                       bool
	dlCalls                                          int
	closes                                           int
	closedCh                                         chan struct{}
	// writer side
	wmode   string // full | fail | short
	wlimit  int
	written []byte
	writes  int
	// wmode "gate": the first Write takes wsplit bytes, reports that it was entered, and takes the
	// rest of p only when release is closed (a synchronous pipe / flow-controlled stream whose
	// receiver is slow). It never keeps p after it returned. Later writes are taken at once.
	wsplit  int
	entered chan struct{}
	release chan struct{}
}

func newFakeStream(c *hcase, chunks [][]byte) *fakeStream {
	cp := make([][]byte, len(chunks))
	for i := range chunks {
		cp[i] = append([]byte(nil), chunks[i]...)
	}
	return &fakeStream{c: c, chunks: cp, closedCh: make(chan struct{}), wmode: "full"}
}

func (s *fakeStream) Read(p []byte) (int, error) {
	if s.hold != nil {
		select {
		case <-s.hold:
		case <-s.closedCh:
		case <-time.After(waitLimit):
		}
	}
	s.mtx.Lock()
	if s.closes > 0 {
		s.mtx.Unlock()
		return 0, io.ErrClosedPipe
	}
	if len(s.chunks) > 0 && len(s.chunks[0]) == 0 {
		// an empty chunk is a (0, nil) read
		s.chunks = s.chunks[1:]
		if len(s.chunks) == 0 && s.last && !s.stall {
			s.mtx.Unlock()
			return 0, io.EOF
		}
		s.mtx.Unlock()
		return 0, nil
	}
	if len(s.chunks) == 0 {
		if !s.stall {
			s.mtx.Unlock()
			return 0, io.EOF
		}
		dl, armed := s.readDL, s.readArmed
		if !s.stallBlocked {
			s.stallBlocked, s.stallArmedAtBlock = true, armed
		}
		s.mtx.Unlock()
		if !armed {
			// no read deadline: on a real stream this Read would block for as long as the peer
			// stays silent. Give the code a moment to arm one after all, then give up.
			deadline := time.Now().Add(300 * time.Millisecond)
			for time.Now().Before(deadline) && !armed {
				select {
				case <-s.closedCh:
					return 0, io.ErrClosedPipe
				case <-time.After(2 * time.Millisecond):
				}
				s.mtx.Lock()
				dl, armed = s.readDL, s.readArmed
				s.mtx.Unlock()
			}
			if !armed {
				s.mtx.Lock()
				s.stallNoDeadline = true
				s.mtx.Unlock()
				return 0, errors.New("verif: stalled read was never given a deadline")
			}
		}
		t := time.NewTimer(time.Until(dl))
		defer t.Stop()
		select {
		case <-t.C:
			return 0, os.ErrDeadlineExceeded
		case <-s.closedCh:
			return 0, io.ErrClosedPipe
		case <-time.After(waitLimit):
			s.mtx.Lock()
			s.stallNoDeadline = true
			s.mtx.Unlock()
			return 0, errors.New("verif: stalled read outlived its deadline")
		}
	}
	if len(p) == 0 {
		s.mtx.Unlock()
		return 0, nil
	}
	n := copy(p, s.chunks[0])
	if n == len(s.chunks[0]) {
		s.chunks = s.chunks[1:]
	} else {
		s.chunks[0] = s.chunks[0][n:]
	}
	if len(s.chunks) == 0 && s.last && !s.stall {
		s.mtx.Unlock()
		return n, io.EOF
	}
	s.mtx.Unlock()
	return n, nil
}

func (s *fakeStream) Write(p []byte) (int, error) {
	s.mtx.Lock()
	defer s.mtx.Unlock()
	s.writes++
	if s.wmode == "gate" && s.writes == 1 {
		k := min(s.wsplit, len(p))
		s.written = append(s.written, p[:k]...)
		s.mtx.Unlock()
		close(s.entered)
		select {
		case <-s.release:
		case <-s.closedCh:
		case <-time.After(waitLimit):
		}
		s.mtx.Lock()
		s.written = append(s.written, p[k:]...)
		return len(p), nil
	}
	switch s.wmode {
	case "fail":
		n := min(s.wlimit, len(p))
		s.written = append(s.written, p[:n]...)
		return n, errors.New("verif: write failed")
	case "short":
		// a writer that breaks the io.Writer contract: short count, nil error
		n := min(s.wlimit, len(p))
		s.written = append(s.written, p[:n]...)
		return n, nil
	}
	s.written = append(s.written, p...)
	return len(p), nil
}

func (s *fakeStream) SetReadDeadline(t time.Time) error {
	s.mtx.Lock()
	s.readDL, s.readArmed = t, !t.IsZero()
	s.dlCalls++
	s.mtx.Unlock()
	return nil
}

func (s *fakeStream) SetWriteDeadline(t time.Time) error {
	s.mtx.Lock()
	s.writeArmed = !t.IsZero()
	s.dlCalls++
	s.mtx.Unlock()
	return nil
}

func (s *fakeStream) SetDeadline(t time.Time) error {
	s.mtx.Lock()
	s.readDL, s.readArmed, s.writeArmed = t, !t.IsZero(), !t.IsZero()
	s.dlCalls++
	s.mtx.Unlock()
	return nil
}

func (s *fakeStream) Close() error {
	s.mtx.Lock()
	s.closes++
	if s.closes == 1 {
		close(s.closedCh)
	}
	s.mtx.Unlock()
	return nil
}

func (s *fakeStream) armed() bool {
	s.mtx.Lock()
	defer s.mtx.Unlock()
	return s.readArmed || s.writeArmed
}

func (s *fakeStream) closed() bool {
	s.mtx.Lock()
	defer s.mtx.Unlock()
	return s.closes > 0
}

func (s *fakeStream) wrote() []byte {
	s.mtx.Lock()
	defer s.mtx.Unlock()
	return append([]byte(nil), s.written...)
}

var _ stream.Stream = (*fakeStream)(nil)

// ---------------------------------------------------------------------------------------------
// fake link and transport

type fakeLink struct {
	uuid          uint64
	local, remote peer.ID
	mtx           sync.Mutex
	closed        bool
	closeCh       chan struct{}
	acceptQ       chan *fakeStream
	// opener side: what the next OpenStream returns
	openErr  bool
	nextOpen *fakeStream
	opens    int
}

func newFakeLink(uuid uint64, local, remote peer.ID) *fakeLink {
	return &fakeLink{uuid: uuid, local: local, remote: remote, closeCh: make(chan struct{}), acceptQ: make(chan *fakeStream, 4)}
}
func (f *fakeLink) GetUUID() uint64          { return f.uuid }
func (f *fakeLink) GetTransportUUID() uint64 { return 99 }
func (f *fakeLink) OpenStream(stream.OpenOpts) (stream.Stream, error) {
	f.mtx.Lock()
	defer f.mtx.Unlock()
	f.opens++
	if f.openErr || f.nextOpen == nil {
		return nil, errors.New("verif: link cannot open a stream")
	}
	s := f.nextOpen
	f.nextOpen = nil
	return s, nil
}
func (f *fakeLink) AcceptStream() (stream.Stream, stream.OpenOpts, error) {
	select {
	case s := <-f.acceptQ:
		return s, stream.OpenOpts{}, nil
	case <-f.closeCh:
		return nil, stream.OpenOpts{}, io.EOF
	}
}
func (f *fakeLink) GetRemotePeer() peer.ID         { return f.remote }
func (f *fakeLink) GetLocalPeer() peer.ID          { return f.local }
func (f *fakeLink) GetRemoteTransportUUID() uint64 { return 98 }
func (f *fakeLink) Close() error {
	f.mtx.Lock()
	if !f.closed {
		f.closed = true
		close(f.closeCh)
	}
	f.mtx.Unlock()
	return nil
}

var _ link.Link = (*fakeLink)(nil)

type fakeTransport struct{ pid peer.ID }

func (t *fakeTransport) Execute(ctx context.Context) error { <-ctx.Done(); return nil }
func (t *fakeTransport) GetUUID() uint64                   { return 99 }
func (t *fakeTransport) GetPeerID() peer.ID                { return t.pid }
func (t *fakeTransport) Close() error                      { return nil }

// ---------------------------------------------------------------------------------------------
// cases and the handler controller

type dirRec struct{ pid, local, remote string }

type delivery struct {
	pid, peer, ll, lr string
	uuid              uint64
	unread            []byte
	armed             bool
	sameStream        bool // GetStream() is the stream object that was handed to the controller
	ctxDone           bool // the context handed to HandleMountedStream was already done
	handlerCase       int  // the case whose directive resolved the handler that was called
}

// hcase is one stream under test.
type hcase struct {
	id            int
	local, remote peer.ID
	uuid          uint64
	beh           string // nohandler deadline resolvererr wrongtype accepts handlererr
	chunks        [][]byte
	stall         bool
	gen           string
	expect        string // ok | reject | any
	wantPid       []byte
	wantRest      []byte
	via           string // direct | pump
	openerNote    string // for round-trip cases: what the opener wrote and on which link
	gate          chan struct{}
	last          bool          // the stream returns its final bytes together with io.EOF
	hold          chan struct{} // the stream delivers nothing until this is closed
	free          bool          // outcome not determined (link replaced under the stream): monitors only
	ctxMayEnd     bool          // the link context may legitimately end while the stream is handled

	mtx         sync.Mutex
	dirs        []dirRec
	deliveries  []delivery
	dirSeenCh   chan struct{}
	deliveredCh chan struct{}
	strm        *fakeStream
	op, model   string
}

func (c *hcase) addDir(d dirRec) {
	c.mtx.Lock()
	c.dirs = append(c.dirs, d)
	if len(c.dirs) == 1 {
		close(c.dirSeenCh)
	}
	c.mtx.Unlock()
}

func (c *hcase) addDelivery(d delivery) {
	c.mtx.Lock()
	c.deliveries = append(c.deliveries, d)
	if len(c.deliveries) == 1 {
		close(c.deliveredCh)
	}
	c.mtx.Unlock()
}

// streamHandler is the value the handler controller yields for the directive of case c.
type streamHandler struct {
	e *engine
	c *hcase
}

func (h *streamHandler) HandleMountedStream(ctx context.Context, ms link.MountedStream) error {
	d := delivery{
		pid:         string(ms.GetProtocolID()),
		peer:        string(ms.GetPeerID()),
		ll:          string(ms.GetLink().GetLocalPeer()),
		lr:          string(ms.GetLink().GetRemotePeer()),
		uuid:        ms.GetLink().GetLinkUUID(),
		handlerCase: h.c.id,
		ctxDone:     ctx.Err() != nil,
	}
	owner := h.c
	if fs, ok := ms.GetStream().(*fakeStream); ok {
		d.armed = fs.armed()
		d.sameStream = true
		if fs.c != nil {
			owner = fs.c // the case whose stream this is (differs from h.c only if lookups were merged)
		}
	}
	// everything still readable from the stream
	d.unread, _ = io.ReadAll(ms.GetStream())
	owner.addDelivery(d)
	if h.c.gate != nil {
		select {
		case <-h.c.gate:
		case <-time.After(waitLimit):
		}
	}
	if h.c.beh == "handlererr" {
		return errors.New("verif: handler refuses the stream")
	}
	return nil
}

var _ link.MountedStreamHandler = (*streamHandler)(nil)

// handlerCtrl resolves link.HandleMountedStream directives according to the case they belong to.
type handlerCtrl struct{ e *engine }

func (h *handlerCtrl) GetControllerInfo() *controller.Info {
	return controller.NewInfo("verif/stream-handlers", semver.MustParse("0.0.1"), "records and resolves HandleMountedStream")
}
func (h *handlerCtrl) Execute(ctx context.Context) error { return nil }
func (h *handlerCtrl) Close() error                      { return nil }
func (h *handlerCtrl) HandleDirective(ctx context.Context, di directive.Instance) ([]directive.Resolver, error) {
	d, ok := di.GetDirective().(link.HandleMountedStream)
	if !ok {
		return nil, nil
	}
	rec := dirRec{string(d.HandleMountedStreamProtocolID()), string(d.HandleMountedStreamLocalPeerID()), string(d.HandleMountedStreamRemotePeerID())}
	c := h.e.findCase(rec)
	if c == nil {
		h.e.mtx.Lock()
		h.e.stray = append(h.e.stray, rec)
		h.e.mtx.Unlock()
		return nil, nil
	}
	c.addDir(rec)
	switch c.beh {
	case "nohandler":
		return nil, nil
	case "deadline":
		return directive.Resolvers(directive.NewFuncResolver(func(rctx context.Context, rh directive.ResolverHandler) error {
			<-rctx.Done()
			return nil
		})), nil
	case "resolvererr":
		return directive.Resolvers(directive.NewFuncResolver(func(rctx context.Context, rh directive.ResolverHandler) error {
			return errors.New("verif: resolver failed")
		})), nil
	case "wrongtype":
		return directive.Resolvers(directive.NewValueResolver([]string{"not a MountedStreamHandler"})), nil
	}
	return directive.Resolvers(directive.NewValueResolver([]link.MountedStreamHandler{&streamHandler{e: h.e, c: c}})), nil
}

// ---------------------------------------------------------------------------------------------
// engine

type side struct {
	peerID  peer.ID
	ctrl    *transport_controller.Controller
	handler transport.TransportHandler
	tpt     *fakeTransport
}

type engine struct {
	a   *lib.Args
	rng *lib.Rng
	m   *lib.Model
	rep *lib.Report
	le  *logrus.Entry
	ctx context.Context
	tb  *testbed.Testbed
	A   *side
	B   *side
	max int

	mtx      sync.Mutex
	active   map[int]*hcase
	stray    []dirRec
	nextID   int
	nextUU   uint64
	nextPeer int
	// circuit breakers: a tree on which the calls hang must not stall the run for minutes
	hangs     int
	pumpWaits int
}

func (e *engine) register(c *hcase) {
	e.mtx.Lock()
	e.active[c.id] = c
	e.mtx.Unlock()
}

func (e *engine) unregister(c *hcase) {
	e.mtx.Lock()
	delete(e.active, c.id)
	e.mtx.Unlock()
}

// findCase attributes a directive to the stream under test it can only have come from: exact
// (pid, local, remote) of a case expecting that pid; else the link's peer pair; else either peer.
func (e *engine) findCase(r dirRec) *hcase {
	e.mtx.Lock()
	defer e.mtx.Unlock()
	var pair, loose *hcase
	for _, c := range e.active {
		if string(c.local) == r.local && string(c.remote) == r.remote {
			if c.expect != "ok" || string(c.wantPid) == r.pid {
				if len(c.dirsSnapshot()) == 0 {
					return c
				}
			}
			pair = c
		}
	}
	if pair != nil {
		return pair
	}
	for _, c := range e.active {
		if string(c.local) == r.local || string(c.remote) == r.remote || string(c.local) == r.remote || string(c.remote) == r.local {
			loose = c
		}
	}
	if loose == nil && len(e.active) == 1 {
		for _, c := range e.active {
			loose = c
		}
	}
	return loose
}

func (c *hcase) dirsSnapshot() []dirRec {
	c.mtx.Lock()
	defer c.mtx.Unlock()
	return append([]dirRec(nil), c.dirs...)
}

func (e *engine) newCase(local, remote peer.ID, beh string, chunks [][]byte, gen, expect string, wantPid, wantRest []byte) *hcase {
	e.nextID++
	e.nextUU++
	return &hcase{id: e.nextID, local: local, remote: remote, uuid: e.nextUU, beh: beh, chunks: chunks, gen: gen,
		expect: expect, wantPid: wantPid, wantRest: wantRest, via: "direct",
		dirSeenCh: make(chan struct{}), deliveredCh: make(chan struct{})}
}

// freshPeers returns peer IDs no other case uses (so that no two lookups of different cases are
// equivalent directives, which the bus would de-duplicate for a second after the first is released).
func (e *engine) freshPeers() (peer.ID, peer.ID) {
	e.nextPeer++
	n := e.nextPeer
	mk := func(tag string) peer.ID {
		switch e.rng.Intn(4) {
		case 0: // binary, multihash-looking
			return peer.ID(append([]byte{0x00, 0x24, 0x08, 0x01}, []byte(fmt.Sprintf("%s%06d", tag, n))...))
		case 1: // non-UTF-8 bytes
			return peer.ID(append([]byte{0xff, 0xfe}, []byte(fmt.Sprintf("%s%06d", tag, n))...))
		}
		return peer.ID(fmt.Sprintf("verif-%s-%06d", tag, n))
	}
	return mk("L"), mk("R")
}

func showDir(d dirRec) string {
	return lib.Hex([]byte(d.pid)) + "/" + lib.Hex([]byte(d.local)) + "/" + lib.Hex([]byte(d.remote))
}

func showDelivery(d delivery) string {
	a := "0"
	if d.armed {
		a = "1"
	}
	return fmt.Sprintf("%s/%s/%s/%s/%d/%s/%s", lib.Hex([]byte(d.pid)), lib.Hex([]byte(d.peer)), lib.Hex([]byte(d.ll)), lib.Hex([]byte(d.lr)), d.uuid, lib.Hex(d.unread), a)
}

func stripBr(s string) string {
	if i := strings.Index(s, " br="); i >= 0 {
		return s[:i]
	}
	return s
}

func q(b []byte) string {
	s := lib.Hex(b)
	if len(s) > 48 {
		s = s[:48] + "…"
	}
	return s
}

func (e *engine) opLine(c *hcase) string {
	l := ""
	if c.last {
		l = " last=1"
	}
	return fmt.Sprintf("incoming.handle max=%d local=%s remote=%s uuid=%d env=%s chunks=%s%s", e.max, lib.Hex([]byte(c.local)), lib.Hex([]byte(c.remote)), c.uuid, c.beh, lib.HexList(c.chunks), l)
}

// start asks the model, launches the real HandleIncomingStream for the case and returns a channel that
// yields "" when it returned (or, via the pump, when the end state was reached or the wait ran out) or a failure.
func (e *engine) start(c *hcase, s *side, pumpLink *fakeLink) <-chan string {
	done := make(chan string, 1)
	c.op = e.opLine(c)
	c.model = e.m.Query(c.op)
	c.strm = newFakeStream(c, c.chunks)
	c.strm.stall = c.stall
	c.strm.last = c.last
	c.strm.hold = c.hold
	if c.last {
		c.gen += "/final-bytes-with-EOF"
	}
	e.register(c)
	rctx, rcancel := context.WithCancel(e.ctx)
	if c.beh == "nohandler" {
		// nobody will ever answer: the wait ends when the link context ends
		go func() {
			select {
			case <-c.dirSeenCh:
				time.Sleep(5 * time.Millisecond)
			case <-time.After(waitLimit):
			}
			rcancel()
		}()
	}
	if pumpLink != nil {
		c.via = "pump"
		pumpLink.acceptQ <- c.strm
		go func() {
			defer rcancel()
			// the pump gives no completion signal. Synchronisation only (the verdicts do not depend on it):
			// wait, bounded, for the end state the model predicts, then give a wrong extra action
			// (a late Close, a second delivery) a moment to surface.
			wait := 10 * time.Second
			e.mtx.Lock()
			pw := e.pumpWaits
			e.mtx.Unlock()
			if pw >= 3 {
				wait = 200 * time.Millisecond
			}
			deadline := time.After(wait)
			timedOut := false
			if c.free {
				// either end state will do
				select {
				case <-c.deliveredCh:
				case <-c.strm.closedCh:
				case <-deadline:
					timedOut = true
				}
			} else if lib.KV(c.model, "deliv") != "none" {
				select {
				case <-c.deliveredCh:
				case <-deadline:
					timedOut = true
				}
			}
			if !c.free && lib.KV(c.model, "closed") == "1" {
				select {
				case <-c.strm.closedCh:
				case <-deadline:
					timedOut = true
				}
			}
			if timedOut {
				e.mtx.Lock()
				e.pumpWaits++
				e.mtx.Unlock()
			}
			time.Sleep(3 * time.Millisecond)
			done <- ""
		}()
		return done
	}
	go func() {
		defer rcancel()
		res := lib.Recover(func() string {
			s.ctrl.HandleIncomingStream(rctx, s.tpt, newFakeLink(c.uuid, c.local, c.remote), c.strm, stream.OpenOpts{})
			return ""
		})
		done <- res
	}()
	return done
}

// finish waits for the call, compares with the model and evaluates the monitors.
func (e *engine) finish(c *hcase, done <-chan string) {
	op, model := c.op, c.model
	var fail string
	hangLimit := waitLimit + 5*time.Second
	if e.hangs >= 3 {
		hangLimit = 500 * time.Millisecond
	}
	select {
	case fail = <-done:
	case <-time.After(hangLimit):
		fail = "hang"
		e.hangs++
	}
	if c.gate != nil {
		select {
		case <-c.gate:
		default:
			close(c.gate)
		}
	}
	e.unregister(c)
	c.mtx.Lock()
	dirs := append([]dirRec(nil), c.dirs...)
	dels := append([]delivery(nil), c.deliveries...)
	c.mtx.Unlock()
	closed := c.strm.closed()

	disp := "none"
	if len(dirs) == 1 {
		disp = showDir(dirs[0])
	} else if len(dirs) > 1 {
		disp = fmt.Sprintf("multi:%d", len(dirs))
	}
	deliv := "none"
	if len(dels) == 1 {
		deliv = showDelivery(dels[0])
	} else if len(dels) > 1 {
		deliv = fmt.Sprintf("multi:%d", len(dels))
	}
	cl := "0"
	if closed {
		cl = "1"
	}
	impl := fmt.Sprintf("disp=%s deliv=%s closed=%s", disp, deliv, cl)
	if fail != "" {
		impl = fail
	}

	// ---- model-independent monitors: the clauses, stated on this input ----
	// every clause that fails is collected; the one reported first is the one the property run under
	// is about (C04: the stream's peer; C07: dispatch / framing)
	var mons []string
	set := func(s string) { mons = append(mons, s) }
	L, R := string(c.local), string(c.remote)
	where := fmt.Sprintf("(%s, via %s)", c.gen, c.via)
	if strings.HasPrefix(fail, "panic") {
		set("panic in HandleIncomingStream " + where + ": " + fail)
	} else if fail == "hang" {
		set("HandleIncomingStream did not finish " + where)
	}
	for _, d := range dirs {
		if d.local != L || d.remote != R || (c.expect == "ok" && d.pid != string(c.wantPid)) {
			wrote := "the header named " + q(c.wantPid)
			if c.openerNote != "" {
				wrote = c.openerNote
			}
			set(fmt.Sprintf("directive carried pid %s local %s remote %s but %s and the stream arrived on a link %s→%s %s", q([]byte(d.pid)), q([]byte(d.local)), q([]byte(d.remote)), wrote, q([]byte(L)), q([]byte(R)), where))
		}
	}
	if c.expect == "reject" {
		if !closed {
			set("malformed header but the stream was not closed " + where)
		}
		if len(dirs) > 0 {
			set("malformed header but a directive was issued " + where)
		}
		if len(dels) > 0 {
			set("malformed header but the stream was handed to a handler " + where)
		}
	}
	if c.stall {
		c.strm.mtx.Lock()
		blocked, armedAtBlock, noDL := c.strm.stallBlocked, c.strm.stallArmedAtBlock, c.strm.stallNoDeadline
		c.strm.mtx.Unlock()
		if blocked && !armedAtBlock {
			set("the peer went silent mid-header and the read began with NO read deadline armed on the stream: nothing bounds the wait for the header " + where)
		}
		if noDL {
			set("the read on a silent peer was never bounded by a deadline (the stream would stay open for ever) " + where)
		}
	}
	if closed && c.strm.armed() {
		// (harmless on a closed stream, but it shows the clearing of the deadline moved)
		e.rep.Branches["closed.armed"]++
	}
	for _, d := range dels {
		if d.armed {
			set("the stream was handed to the handler with a deadline still armed (the header deadline would cut the application's reads) " + where)
		}
		if d.ctxDone && !c.ctxMayEnd {
			set("the handler was called with a context that was already done " + where)
		}
		if d.peer != R {
			set(fmt.Sprintf("handler received a stream whose peer is %s but the link's remote is %s %s", q([]byte(d.peer)), q([]byte(R)), where))
		}
		if d.ll != L || d.lr != R || d.uuid != c.uuid {
			set(fmt.Sprintf("handler received a stream whose mounted link reports %s→%s uuid %d but the link is %s→%s uuid %d %s", q([]byte(d.ll)), q([]byte(d.lr)), d.uuid, q([]byte(L)), q([]byte(R)), c.uuid, where))
		}
		if !d.sameStream {
			set("handler received a stream object other than the one accepted from the link " + where)
		}
		if d.handlerCase != c.id {
			set(fmt.Sprintf("the stream was handed to a handler that was resolved for another stream's lookup (case %d) %s", d.handlerCase, where))
		}
		found := false
		for _, dr := range dirs {
			if dr.pid == d.pid && dr.local == d.ll && dr.remote == d.peer {
				found = true
			}
		}
		if !found {
			set(fmt.Sprintf("handler received a stream for protocol %s peer %s without a lookup carrying exactly that protocol and those peers %s", q([]byte(d.pid)), q([]byte(d.peer)), where))
		}
		if c.expect == "ok" {
			if d.pid != string(c.wantPid) {
				set(fmt.Sprintf("handler received protocol %s but the header named %s %s", q([]byte(d.pid)), q(c.wantPid), where))
			}
			if string(d.unread) != string(c.wantRest) {
				set(fmt.Sprintf("bytes after the header were consumed or altered: handler could read %s, the opener sent %s after the header %s", q(d.unread), q(c.wantRest), where))
			}
		}
	}
	if len(dels) > 1 {
		set("the stream was handed to a handler more than once " + where)
	}
	if c.expect == "ok" && fail == "" {
		if len(dirs) != 1 {
			set(fmt.Sprintf("valid header: expected exactly one lookup, saw %d %s", len(dirs), where))
		}
		switch c.beh {
		case "accepts":
			if len(dels) != 1 || closed {
				set(fmt.Sprintf("valid header and an accepting handler, but delivered=%d closed=%v %s", len(dels), closed, where))
			}
		case "handlererr":
			if len(dels) != 1 || !closed {
				set(fmt.Sprintf("handler returned an error, but delivered=%d closed=%v %s", len(dels), closed, where))
			}
		default:
			if len(dels) != 0 || !closed {
				set(fmt.Sprintf("lookup failed (%s), but delivered=%d closed=%v %s", c.beh, len(dels), closed, where))
			}
		}
	}
	mon := e.pickMonitor(mons)
	br := "handle." + lib.KV(model, "br")
	if lib.KV(model, "br") == "ok" {
		br += "." + c.beh
	}
	if c.via == "pump" {
		e.rep.Branches["via.pump"]++
	}
	if c.last {
		e.rep.Branches["handle.last."+lib.KV(model, "br")]++
	}
	if c.free {
		// the outcome depends on a race the property says nothing about: only the monitors judge
		e.rep.Compare(op, impl, impl, br, "incoming.handle:"+c.gen, mon)
		return
	}
	e.rep.Compare(op, stripBr(model), impl, br, "incoming.handle:"+c.gen, mon)
}

// pickMonitor returns the verdict to report: for C04 a failed peer clause first.
func (e *engine) pickMonitor(mons []string) string {
	if len(mons) == 0 {
		return ""
	}
	if e.a.Prop == "C04" {
		for _, m := range mons {
			if strings.Contains(m, "whose peer is") || strings.Contains(m, "reports peer") || strings.Contains(m, "mounted link") {
				return m
			}
		}
	}
	return mons[0]
}

func (e *engine) runHandle(c *hcase, s *side) {
	t := time.Now()
	e.finish(c, e.start(c, s, nil))
	if d := time.Since(t); d > 200*time.Millisecond && os.Getenv("VERIF_DEBUG") != "" {
		n := 0
		for _, ch := range c.chunks {
			n += len(ch)
		}
		fmt.Fprintf(os.Stderr, "slow case %s beh=%s bytes=%d chunks=%d: %v\n", c.gen, c.beh, n, len(c.chunks), d)
	}
}

// ---------------------------------------------------------------------------------------------
// generators

func marshalRef(pid []byte) []byte {
	// the wire format stated directly: varint(len(body)) ++ body, body = 0x0a ++ varint(len(pid)) ++ pid
	var body []byte
	if len(pid) > 0 {
		body = append(pbl.AppendVarint([]byte{0x0a}, uint64(len(pid))), pid...)
	}
	return append(pbl.AppendVarint(nil, uint64(len(body))), body...)
}

// prefixSplits returns the 8 ways of cutting the first four bytes into reads; the remainder is
// delivered as one chunk (tailMode 0) or in random pieces.
func (e *engine) prefixSplits(streamBytes []byte) [][][]byte {
	var out [][][]byte
	n := min(4, len(streamBytes))
	for mask := 0; mask < 8; mask++ {
		var chunks [][]byte
		start := 0
		for i := 1; i < n; i++ {
			if mask&(1<<(i-1)) != 0 {
				chunks = append(chunks, append([]byte(nil), streamBytes[start:i]...))
				start = i
			}
		}
		if mask&4 != 0 || len(streamBytes) <= n {
			chunks = append(chunks, append([]byte(nil), streamBytes[start:n]...))
			start = n
		}
		if start < len(streamBytes) {
			if mask%2 == 0 {
				chunks = append(chunks, append([]byte(nil), streamBytes[start:]...))
			} else {
				// the chunk that crosses the 4-byte boundary, then random pieces
				k := min(len(streamBytes), n+1+e.rng.Intn(3))
				chunks = append(chunks, append([]byte(nil), streamBytes[start:k]...))
				chunks = append(chunks, e.rng.Chunk(streamBytes[k:], 2)...)
			}
		}
		out = append(out, chunks)
	}
	return out
}

var behaviours = []string{"accepts", "accepts", "accepts", "handlererr", "wrongtype", "resolvererr"}

// chunkAny splits b by a random mode; long streams only into few large reads (thousands of tiny reads
// cost the model's list-append reader quadratic time; tiny reads are covered on the short headers).
func (e *engine) chunkAny(b []byte) [][]byte {
	mode := e.rng.Intn(4)
	if len(b) > 3000 && (mode == 1 || mode == 2) {
		mode = 3
	}
	return e.rng.Chunk(b, mode)
}

func (e *engine) sprinkleEmpty(chunks [][]byte) [][]byte {
	if e.rng.Intn(4) != 0 {
		return chunks
	}
	k := e.rng.Intn(len(chunks) + 1)
	return append(chunks[:k:k], append([][]byte{{}}, chunks[k:]...)...)
}

func (e *engine) honestPid(n int) []byte {
	pid := hdrgen.ValidUTF8(e.rng, n)
	for len(pid) > n && n > 4 {
		pid = hdrgen.ValidUTF8(e.rng, n-3)
		for len(pid) < n {
			pid = append(pid, 'a')
		}
	}
	return pid
}

func (e *engine) runHandlePopulation(full bool) {
	sides := []*side{e.A, e.B}
	// 1. honest headers: pid length classes around the varint boundaries × chunkings × payloads × lookup answers
	lens := []int{1, 2, 3, 4, 5, 60, 124, 125, 126, 127, 128, 129, 130, 200, 16379, 16380, 16381, 16382, 16383, 16384, 40000, e.max - 5, e.max - 4}
	nHonest := 160 * e.a.Scale
	if !full {
		nHonest = 60 * e.a.Scale
	}
	for i := 0; i < nHonest; i++ {
		n := 1 + e.rng.Intn(60)
		if i < len(lens) {
			n = lens[i]
		}
		pid := e.honestPid(n)
		payload := e.rng.Bytes(e.rng.Intn(40))
		if e.rng.Intn(4) == 0 {
			payload = nil
		}
		hdr := transport_controller.VerifMarshalStreamEstablishHeader(transport_controller.NewStreamEstablish(protocol.ID(pid)))
		sb := append(append([]byte(nil), hdr...), payload...)
		expect := "ok"
		if len(hdr)-varintLen(hdr) > e.max {
			expect = "reject"
		}
		mode := i % 4
		if len(sb) > 3000 && (mode == 1 || mode == 2) {
			// thousands of tiny reads of a long header cost the model's list-append reader quadratic time;
			// the small-read chunkings are covered on the short headers
			mode = 3
		}
		chunks := e.sprinkleEmpty(e.rng.Chunk(sb, mode))
		l, r := e.freshPeers()
		c := e.newCase(l, r, behaviours[i%len(behaviours)], chunks, "honest", expect, pid, payload)
		c.last = i%3 == 1
		e.runHandle(c, sides[i%2])
		if i < 6 {
			// sentinel: the opener wrote the header and closed; header and FIN arrive in one read
			l, r = e.freshPeers()
			hb := marshalRef(pid)
			cs := [][]byte{hb}
			if i%2 == 1 {
				cs = [][]byte{hb[:1+i%3], hb[1+i%3:]}
			}
			c = e.newCase(l, r, "accepts", cs, "header-then-end", expect, pid, nil)
			c.last = true
			e.runHandle(c, sides[i%2])
		}
	}
	// 2. every way of splitting the 4-byte prefix, for headers whose body is shorter than, equal to and
	// longer than what the prefix read already pulled in, with and without payload
	for _, pl := range []int{1, 2, 5, 130} {
		for _, withPayload := range []bool{false, true} {
			pid := e.honestPid(pl)
			var payload []byte
			if withPayload {
				payload = e.rng.Bytes(1 + e.rng.Intn(9))
			}
			sb := append(marshalRef(pid), payload...)
			for k, chunks := range e.prefixSplits(sb) {
				l, r := e.freshPeers()
				beh := "accepts"
				if k == 5 {
					beh = "handlererr"
				}
				c := e.newCase(l, r, beh, chunks, "prefix-split", "ok", pid, payload)
				c.last = k%2 == 0
				e.runHandle(c, sides[k%2])
			}
		}
	}
	// 3. truncated at every offset (and the complete header as the last step)
	for _, pl := range []int{1, 7} {
		pid := e.honestPid(pl)
		hdr := marshalRef(pid)
		for k := 0; k <= len(hdr); k++ {
			l, r := e.freshPeers()
			expect := "reject"
			if k == len(hdr) {
				expect = "ok"
			}
			c := e.newCase(l, r, "accepts", e.rng.Chunk(hdr[:k], e.rng.Intn(3)), "truncated-at-every-offset", expect, pid, nil)
			e.runHandle(c, sides[k%2])
			if k > 0 {
				l, r = e.freshPeers()
				c = e.newCase(l, r, "accepts", e.rng.Chunk(hdr[:k], e.rng.Intn(3)), "truncated-at-every-offset", expect, pid, nil)
				c.last = true
				e.runHandle(c, sides[k%2])
			}
		}
	}
	// 4. the malformed / unusual classes of the framing engine, under a handler that WOULD accept
	nBad := 20 * hdrgen.NumClasses * e.a.Scale
	if !full {
		nBad = 5 * hdrgen.NumClasses * e.a.Scale
	}
	for i := 0; i < nBad; i++ {
		mc := hdrgen.Malformed(e.rng, i, e.max)
		var chunks [][]byte
		if i%3 == 0 && len(mc.Stream) > 0 {
			sp := e.prefixSplits(mc.Stream)
			chunks = sp[e.rng.Intn(len(sp))]
		} else {
			chunks = e.rng.Chunk(mc.Stream, e.rng.Intn(4))
		}
		l, r := e.freshPeers()
		beh := "accepts"
		if i%7 == 3 {
			beh = "handlererr"
		}
		c := e.newCase(l, r, beh, chunks, mc.Gen, mc.Expect, mc.WantPid, mc.WantRest)
		c.last = i%2 == 1
		e.runHandle(c, sides[i%2])
	}
	// 4b. history independence: the outcome for a header must not depend on the streams handled before
	// in this process (pooled / reused decoder state). Under GOMAXPROCS(1) (which makes sync.Pool
	// deterministic) a VALID stream is handled and accepted, then, on the same controller, each
	// state-sensitive malformed class; the expectations are those of the class alone.
	func() {
		prev := runtime.GOMAXPROCS(1)
		defer runtime.GOMAXPROCS(prev)
		sensitive := []int{16, 4, 0, 6, 3, 16, 14, 15}
		for round := 0; round < 3*e.a.Scale; round++ {
			for k, cls := range sensitive {
				s := sides[(round+k)%2]
				pid := append(e.honestPid(3+e.rng.Intn(12)), []byte(fmt.Sprintf("/hist%d.%d", round, k))...)
				l, r := e.freshPeers()
				payload := e.rng.Bytes(e.rng.Intn(4))
				c := e.newCase(l, r, "accepts", e.chunkAny(append(marshalRef(pid), payload...)), "history/valid-first", "ok", pid, payload)
				e.runHandle(c, s)
				mc := hdrgen.Malformed(e.rng, cls, e.max)
				l, r = e.freshPeers()
				c = e.newCase(l, r, "accepts", e.rng.Chunk(mc.Stream, e.rng.Intn(4)), "history/"+mc.Gen, mc.Expect, mc.WantPid, mc.WantRest)
				e.runHandle(c, s)
			}
		}
	}()
	// 5. peers: empty source, empty remote, local == remote, the controller's own peer on either side
	special := [][2]peer.ID{{"", "verif-remote-only"}, {"verif-local-only", ""}, {"", ""}, {"verif-same", "verif-same"},
		{e.A.peerID, e.B.peerID}, {e.B.peerID, e.A.peerID}, {e.A.peerID, e.A.peerID}}
	for i, sp := range special {
		for j, beh := range []string{"accepts", "handlererr", "wrongtype"} {
			pid := append(e.honestPid(3+e.rng.Intn(6)), []byte(fmt.Sprintf("/sp%d.%d.%d", i, j, e.nextID))...)
			payload := e.rng.Bytes(e.rng.Intn(6))
			sb := append(marshalRef(pid), payload...)
			c := e.newCase(sp[0], sp[1], beh, e.chunkAny(sb), "special-peers", "ok", pid, payload)
			e.runHandle(c, sides[i%2])
		}
		mc := hdrgen.Malformed(e.rng, i, e.max)
		c := e.newCase(sp[0], sp[1], "accepts", e.rng.Chunk(mc.Stream, e.rng.Intn(4)), "special-peers/"+mc.Gen, mc.Expect, mc.WantPid, mc.WantRest)
		// these links share peers with the cases above: keep the lookups apart by protocol ID only if accepted
		if mc.Expect == "reject" {
			e.runHandle(c, sides[i%2])
		}
	}
	// 6. the lookup has a real deadline: a resolver that never answers (short timeout through the verif
	// hook), nobody resolving (the wait ends with the link context), and a peer that stalls mid-header
	for i := 0; i < 2; i++ {
		pid := e.honestPid(4 + e.rng.Intn(20))
		payload := e.rng.Bytes(e.rng.Intn(5))
		sb := append(marshalRef(pid), payload...)
		l, r := e.freshPeers()
		pe, ph := transport_controller.VerifSetStreamTimeouts(5*time.Second, 60*time.Millisecond)
		c := e.newCase(l, r, "deadline", e.chunkAny(sb), "lookup-deadline", "ok", pid, payload)
		e.runHandle(c, sides[i%2])
		transport_controller.VerifSetStreamTimeouts(pe, ph)

		l, r = e.freshPeers()
		c = e.newCase(l, r, "nohandler", e.chunkAny(sb), "no-handler", "ok", pid, payload)
		e.runHandle(c, sides[i%2])

		l, r = e.freshPeers()
		pe, ph = transport_controller.VerifSetStreamTimeouts(40*time.Millisecond, time.Minute)
		k := 1 + e.rng.Intn(len(sb)-len(payload)-1)
		c = e.newCase(l, r, "accepts", e.rng.Chunk(sb[:k], e.rng.Intn(3)), "truncated-stall", "reject", pid, nil)
		c.stall = true
		e.runHandle(c, sides[i%2])
		transport_controller.VerifSetStreamTimeouts(pe, ph)
	}
}

func varintLen(h []byte) int {
	_, n := pbl.ConsumeVarint(h)
	if n < 0 {
		return 0
	}
	return n
}

// runPairs holds two streams open at once whose lookups differ in exactly one of protocol ID, local
// peer, remote peer (or have local and remote swapped): each must get its own lookup and handler.
func (e *engine) runPairs() {
	type pr struct {
		name                  string
		samePid, sameL, sameR bool
		swap                  bool
	}
	prs := []pr{{"pair.differ-remote", true, true, false, false}, {"pair.differ-local", true, false, true, false},
		{"pair.differ-pid", false, true, true, false}, {"pair.swapped-peers", true, false, false, true}}
	for round := 0; round < 3*e.a.Scale; round++ {
		for k, p := range prs {
			l1, r1 := e.freshPeers()
			l2, r2 := e.freshPeers()
			if p.sameL {
				l2 = l1
			}
			if p.sameR {
				r2 = r1
			}
			if p.swap {
				l2, r2 = r1, l1
			}
			pid1 := e.honestPid(3 + e.rng.Intn(8))
			pid2 := pid1
			if !p.samePid {
				pid2 = append(append([]byte(nil), pid1...), 'x')
			}
			pay1, pay2 := e.rng.Bytes(1+e.rng.Intn(8)), e.rng.Bytes(1+e.rng.Intn(8))
			c1 := e.newCase(l1, r1, "accepts", e.rng.Chunk(append(marshalRef(pid1), pay1...), e.rng.Intn(4)), p.name, "ok", pid1, pay1)
			c2 := e.newCase(l2, r2, "accepts", e.rng.Chunk(append(marshalRef(pid2), pay2...), e.rng.Intn(4)), p.name, "ok", pid2, pay2)
			if k%2 == 1 {
				c2.beh = "handlererr"
			}
			c1.gate, c2.gate = make(chan struct{}), make(chan struct{})
			d1 := e.start(c1, e.A, nil)
			select {
			case <-c1.deliveredCh:
			case <-time.After(waitLimit):
			}
			sd := e.A
			if p.swap {
				sd = e.B
			}
			d2 := e.start(c2, sd, nil)
			select {
			case <-c2.deliveredCh:
			case <-time.After(2 * time.Second):
				// (a merged lookup delivers case 2's stream under case 1's handler or not at all)
			}
			close(c1.gate)
			close(c2.gate)
			e.finish(c1, d1)
			e.finish(c2, d2)
			e.rep.Branches[p.name]++
		}
	}
}

// ---------------------------------------------------------------------------------------------
// opener side + round trip through established links

// establish reports a fake link to the side's controller and returns the MountedLink that a real
// EstablishLinkWithPeer directive (source given or not) yields for it.
func (e *engine) establish(s *side, fl *fakeLink, withSrc bool) (link.MountedLink, func(), string) {
	before := transport_controller.VerifOpsDone()
	s.handler.HandleLinkEstablished(fl)
	dl := time.Now().Add(waitLimit)
	for transport_controller.VerifOpsDone() == before && time.Now().Before(dl) {
		time.Sleep(50 * time.Microsecond)
	}
	src := peer.ID("")
	if withSrc {
		src = fl.local
	}
	ctx, cancel := context.WithTimeout(e.ctx, waitLimit)
	defer cancel()
	av, _, ref, err := bus.ExecOneOffWithFilter(ctx, e.tb.Bus, link.NewEstablishLinkWithPeer(src, fl.remote), nil, nil,
		func(val directive.AttachedValue) (bool, error) {
			ml, ok := val.GetValue().(link.MountedLink)
			return ok && ml.GetLinkUUID() == fl.uuid, nil
		})
	if err != nil {
		return nil, func() {}, "EstablishLinkWithPeer yielded no link: " + err.Error()
	}
	ml, ok := av.GetValue().(link.MountedLink)
	if !ok {
		ref.Release()
		return nil, func() {}, "EstablishLinkWithPeer value is not a MountedLink"
	}
	rel := func() {
		ref.Release()
		before := transport_controller.VerifOpsDone()
		s.handler.HandleLinkLost(fl)
		dl := time.Now().Add(waitLimit)
		for transport_controller.VerifOpsDone() == before && time.Now().Before(dl) {
			time.Sleep(50 * time.Microsecond)
		}
		_ = fl.Close()
	}
	return ml, rel, ""
}

func (e *engine) runOpen() {
	type wm struct {
		name string
		arg  func(hdrLen int) string
	}
	modes := []wm{
		{"full", func(int) string { return "full" }},
		{"full", func(int) string { return "full" }},
		{"fail", func(n int) string { return fmt.Sprintf("fail:%d", e.rng.Intn(n+1)) }},
		{"fail", func(n int) string { return "fail:0" }},
		{"short", func(n int) string { return fmt.Sprintf("short:%d", e.rng.Intn(n)) }},
		{"openerr", func(int) string { return "openerr" }},
	}
	nOpen := 54 * e.a.Scale
	for i := 0; i < nOpen; i++ {
		// opener side X (A or B); the remote is the other real controller's peer (so that the receiving side is
		// a really established, mirrored link) or a fresh third party
		X, Y := e.A, e.B
		if i%2 == 1 {
			X, Y = e.B, e.A
		}
		mirrored := i%3 != 2
		remote := Y.peerID
		if !mirrored {
			_, remote = e.freshPeers()
		}
		e.nextUU++
		fl := newFakeLink(e.nextUU, X.peerID, remote)
		ml, rel, bad := e.establish(X, fl, i%4 < 2)
		if bad != "" {
			e.rep.Compare(fmt.Sprintf("incoming.open #%d", i), "established link is yielded", bad, "open.setup", "incoming.open:setup", bad)
			continue
		}
		var pid []byte
		switch i % 9 {
		case 7:
			pid = nil // the opener does not validate: an empty ID is written as a zero-length header
		case 8:
			pid = []byte{0x61, 0xff, 0x62} // nor UTF-8
		default:
			pid = append(e.honestPid(1+e.rng.Intn(40)), []byte(fmt.Sprintf("/o%d", i))...)
		}
		if i == 4 {
			pid = e.honestPid(e.max - 4) // longest ID that fits the limit
		}
		if i == 10 {
			pid = e.honestPid(e.max - 3) // one byte too long for the receiver
		}
		hdrRef := marshalRef(pid)
		m := modes[i%len(modes)]
		wr := m.arg(len(hdrRef))
		os := newFakeStream(nil, nil)
		fl.mtx.Lock()
		switch {
		case wr == "openerr":
			fl.openErr = true
		default:
			parts := strings.Split(wr, ":")
			os.wmode = parts[0]
			if len(parts) == 2 {
				fmt.Sscanf(parts[1], "%d", &os.wlimit)
			}
			fl.nextOpen = os
		}
		fl.mtx.Unlock()
		op := fmt.Sprintf("incoming.open local=%s remote=%s uuid=%d pid=%s wr=%s", lib.Hex([]byte(fl.local)), lib.Hex([]byte(fl.remote)), fl.uuid, lib.Hex(pid), wr)
		model := e.m.Query(op)
		var ms link.MountedStream
		var oerr error
		impl := lib.Recover(func() string {
			ms, oerr = ml.OpenMountedStream(e.ctx, protocol.ID(pid), stream.OpenOpts{})
			opened := "1"
			if wr == "openerr" {
				opened = "0"
			}
			mounted := "none"
			if oerr == nil && ms != nil {
				a := "0"
				if fs, ok := ms.GetStream().(*fakeStream); ok && fs.armed() {
					a = "1"
				}
				mounted = fmt.Sprintf("%s/%s/%s/%s/%d/-/%s", lib.Hex([]byte(ms.GetProtocolID())), lib.Hex([]byte(ms.GetPeerID())),
					lib.Hex([]byte(ms.GetLink().GetLocalPeer())), lib.Hex([]byte(ms.GetLink().GetRemotePeer())), ms.GetLink().GetLinkUUID(), a)
			}
			cl := "0"
			if os.closed() {
				cl = "1"
			}
			return fmt.Sprintf("opened=%s written=%s mounted=%s closed=%s", opened, lib.Hex(os.wrote()), mounted, cl)
		})
		// monitors
		var mons []string
		set := func(s string) { mons = append(mons, s) }
		if strings.HasPrefix(impl, "panic") {
			set("panic in OpenMountedStream: " + impl)
		}
		if ml.GetRemotePeer() != fl.remote || ml.GetLocalPeer() != fl.local || ml.GetLinkUUID() != fl.uuid {
			set("the mounted link yielded for the established link reports other peers / uuid than the link")
		}
		if oerr == nil && ms != nil {
			if ms.GetPeerID() != fl.remote {
				set(fmt.Sprintf("the opener's mounted stream reports peer %s but the link's remote is %s", q([]byte(ms.GetPeerID())), q([]byte(fl.remote))))
			}
			if string(ms.GetProtocolID()) != string(pid) {
				set(fmt.Sprintf("the opener's mounted stream reports protocol %s but %s was requested", q([]byte(ms.GetProtocolID())), q(pid)))
			}
			if ms.GetLink().GetLocalPeer() != fl.local || ms.GetLink().GetRemotePeer() != fl.remote || ms.GetLink().GetLinkUUID() != fl.uuid {
				set("the opener's mounted stream reports a mounted link with other peers / uuid than the link it was opened on")
			}
			if ms.GetStream() != stream.Stream(os) {
				set("the opener's mounted stream wraps another stream than the one the link opened")
			}
			if os.closed() {
				set("OpenMountedStream returned a stream it had closed")
			}
			if os.armed() {
				set("OpenMountedStream returned a stream with a deadline still armed (the header write deadline would cut the application's I/O)")
			}
		}
		switch m.name {
		case "full":
			if oerr != nil || ms == nil {
				set("OpenMountedStream failed although the link opened a stream and the write succeeded")
			}
			if string(os.wrote()) != string(hdrRef) {
				set(fmt.Sprintf("OpenMountedStream wrote %s, the header of protocol %s is %s", q(os.wrote()), q(pid), q(hdrRef)))
			}
		case "fail":
			if oerr == nil || ms != nil {
				set("the header write failed but OpenMountedStream returned a mounted stream")
			}
			if !os.closed() {
				set("the header write failed but the stream was not closed")
			}
		case "openerr":
			if oerr == nil || ms != nil {
				set("the link could not open a stream but OpenMountedStream returned a mounted stream")
			}
		}
		e.rep.Compare(op, model, impl, "open."+m.name, "incoming.open:"+m.name, e.pickMonitor(mons))

		// round trip: what the opener put on the wire + a payload, through the receiving side
		wire := os.wrote()
		if wr != "openerr" {
			payload := e.rng.Bytes(e.rng.Intn(20))
			sb := append(append([]byte(nil), wire...), payload...)
			expect, wantRest := "reject", []byte(nil)
			bodyLen := len(hdrRef) - varintLen(hdrRef)
			complete := string(wire) == string(hdrRef)
			if complete && len(pid) > 0 && validUTF8(pid) && bodyLen <= e.max {
				expect, wantRest = "ok", payload
			} else if !complete {
				// a partial header followed by payload bytes is whatever it decodes to: only the
				// expectation-free monitors (peers, lookup ↔ delivery) apply
				expect = "any"
			}
			var c *hcase
			beh := []string{"accepts", "handlererr", "accepts", "wrongtype"}[i%4]
			var rfl *fakeLink
			var rrel func()
			if mirrored {
				// the receiving end of the same connection: link Y→X, really established on Y's controller
				e.nextUU++
				rfl = newFakeLink(e.nextUU, Y.peerID, X.peerID)
				_, rrel, bad = e.establish(Y, rfl, true)
				if bad != "" {
					e.rep.Compare(op+" # receiver", "established", bad, "open.setup", "incoming.open:setup", bad)
					rel()
					continue
				}
				c = e.newCase(rfl.local, rfl.remote, beh, e.chunkAny(sb), "roundtrip."+m.name, expect, pid, wantRest)
				c.uuid = rfl.uuid
			} else {
				c = e.newCase(remote, X.peerID, beh, e.chunkAny(sb), "roundtrip."+m.name, expect, pid, wantRest)
			}
			c.openerNote = fmt.Sprintf("the opener wrote %s on a link %s→%s", q(pid), q([]byte(fl.local)), q([]byte(fl.remote)))
			if rfl != nil {
				e.finish(c, e.start(c, Y, rfl))
				rrel()
			} else {
				e.runHandle(c, Y)
			}
			if c.expect == "ok" {
				e.rep.Branches["roundtrip.ok"]++
			}
		}
		rel()
	}
}

// decodeRef decodes a stream-establish header stated directly on the wire format (varint length,
// field 1 length-delimited); ok only for exactly that shape.
func decodeRef(wire []byte) (pid []byte, rest []byte, ok bool) {
	n, k := pbl.ConsumeVarint(wire)
	if k <= 0 || uint64(len(wire)-k) < n {
		return nil, nil, false
	}
	body, rest := wire[k:k+int(n)], wire[k+int(n):]
	if len(body) == 0 {
		return nil, rest, true
	}
	if body[0] != 0x0a {
		return nil, nil, false
	}
	m, j := pbl.ConsumeVarint(body[1:])
	if j <= 0 || uint64(len(body)-1-j) != m {
		return nil, nil, false
	}
	return body[1+j:], rest, true
}

// runConcurrentOpen: several openers with DIFFERENT protocol IDs inside the real OpenMountedStream at
// the same time (on one link, on several links of one controller, on links of both controllers),
// each on a stream whose Write takes the header in two steps with the second step only after the
// other openers have marshalled and (some of them) finished theirs. What each opener's stream
// received is exactly the header of THAT opener's protocol ID, the payload written afterwards
// follows unchanged, and the receiving side dispatches it under that ID. Half of the rounds run
// with GOMAXPROCS(1) (per-P caches shared by all openers), half with the default.
func (e *engine) runConcurrentOpen() {
	type opener struct {
		X       *side
		fl      *fakeLink
		ml      link.MountedLink
		pid     []byte
		hdrRef  []byte
		s       *fakeStream
		done    chan string
		ms      link.MountedStream
		oerr    error
		hdrSnap []byte
		payload []byte
		op      string
		model   string
	}
	rounds := 12 * e.a.Scale
	for r := 0; r < rounds; r++ {
		k := 2 + r%3
		oneProc := r%2 == 0
		layout := r % 3         // 0: one link; 1: own links, one controller; 2: own links, both controllers
		lenClass := (r / 2) % 4 // 0: equal lengths; 1: growing; 2: shrinking; 3: random
		lateFull := (r/3)%2 == 0
		ops := make([]*opener, k)
		var rels []func()
		bad := ""
		base := e.honestPid(3 + e.rng.Intn(30))
		for i := range ops {
			o := &opener{X: e.A, done: make(chan string, 1)}
			if layout == 2 && i%2 == 1 || layout != 2 && r%4 >= 2 {
				o.X = e.B
			}
			extra := 0
			switch lenClass {
			case 1:
				extra = 5 * i
			case 2:
				extra = 5 * (k - 1 - i)
			case 3:
				extra = e.rng.Intn(60)
				if r%6 == 5 && i == 0 {
					extra = 150 + e.rng.Intn(100) // longer than a small scratch buffer
				}
			}
			o.pid = append(append(append([]byte(nil), base...), []byte(strings.Repeat("x", extra))...), []byte(fmt.Sprintf("/c%d.%d", r%10, i))...)
			o.hdrRef = marshalRef(o.pid)
			o.payload = e.rng.Bytes(1 + e.rng.Intn(12))
			if i > 0 && layout == 0 {
				o.fl, o.ml = ops[0].fl, ops[0].ml
			} else {
				_, remote := e.freshPeers()
				e.nextUU++
				o.fl = newFakeLink(e.nextUU, o.X.peerID, remote)
				var rel func()
				o.ml, rel, bad = e.establish(o.X, o.fl, (r+i)%2 == 0)
				if bad != "" {
					break
				}
				rels = append(rels, rel)
			}
			o.s = newFakeStream(nil, nil)
			o.s.entered, o.s.release = make(chan struct{}), make(chan struct{})
			if !(lateFull && i == k-1) {
				o.s.wmode = "gate"
				o.s.wsplit = []int{0, 1, len(o.hdrRef) / 2, len(o.hdrRef) - 1}[(r+i)%4]
			}
			o.op = fmt.Sprintf("incoming.open local=%s remote=%s uuid=%d pid=%s wr=full", lib.Hex([]byte(o.fl.local)), lib.Hex([]byte(o.fl.remote)), o.fl.uuid, lib.Hex(o.pid))
			o.model = e.m.Query(o.op)
			ops[i] = o
		}
		tag := fmt.Sprintf(" # concurrent openers round %d: %d openers layout=%d lens=%d oneproc=%v latefull=%v", r, k, layout, lenClass, oneProc, lateFull)
		if bad != "" {
			e.rep.Compare("incoming.open"+tag, "established link is yielded", bad, "open.setup", "incoming.open:setup", bad)
			for _, rel := range rels {
				rel()
			}
			continue
		}
		prevProcs := 0
		if oneProc {
			prevProcs = runtime.GOMAXPROCS(1)
		}
		// start the openers one after the other: each is inside Write (or, for the ungated last one, has
		// returned) before the next begins
		for _, o := range ops {
			o := o
			o.fl.mtx.Lock()
			o.fl.nextOpen = o.s
			o.fl.mtx.Unlock()
			go func() {
				o.done <- lib.Recover(func() string {
					o.ms, o.oerr = o.ml.OpenMountedStream(e.ctx, protocol.ID(o.pid), stream.OpenOpts{})
					o.hdrSnap = o.s.wrote()
					return ""
				})
			}()
			if o.s.wmode == "gate" {
				select {
				case <-o.s.entered:
				case res := <-o.done:
					o.done <- res
				case <-time.After(waitLimit):
				}
			} else {
				select {
				case res := <-o.done:
					o.done <- res
				case <-time.After(waitLimit):
				}
			}
		}
		// release the blocked writers: forward, backward or shuffled
		order := make([]int, k)
		for i := range order {
			order[i] = i
		}
		switch r % 3 {
		case 1:
			for i, j := 0, k-1; i < j; i, j = i+1, j-1 {
				order[i], order[j] = order[j], order[i]
			}
		case 2:
			e.rng.Shuffle(k, func(i, j int) { order[i], order[j] = order[j], order[i] })
		}
		fails := make([]string, k)
		for _, i := range order {
			o := ops[i]
			close(o.s.release)
			select {
			case fails[i] = <-o.done:
			case <-time.After(waitLimit + 5*time.Second):
				fails[i] = "hang"
			}
			if fails[i] == "" && o.oerr == nil && o.ms != nil {
				// the application's first bytes
				_, _ = o.ms.GetStream().Write(o.payload)
			}
		}
		if oneProc {
			runtime.GOMAXPROCS(prevProcs)
		}
		for i, o := range ops {
			var mons []string
			set := func(s string) { mons = append(mons, s) }
			who := fmt.Sprintf("opener %d of %d concurrent openers", i+1, k)
			mounted := "none"
			if o.oerr == nil && o.ms != nil {
				a := "0"
				if o.s.armed() {
					a = "1"
				}
				mounted = fmt.Sprintf("%s/%s/%s/%s/%d/-/%s", lib.Hex([]byte(o.ms.GetProtocolID())), lib.Hex([]byte(o.ms.GetPeerID())),
					lib.Hex([]byte(o.ms.GetLink().GetLocalPeer())), lib.Hex([]byte(o.ms.GetLink().GetRemotePeer())), o.ms.GetLink().GetLinkUUID(), a)
			}
			cl := "0"
			if o.s.closed() {
				cl = "1"
			}
			impl := fmt.Sprintf("opened=1 written=%s mounted=%s closed=%s", lib.Hex(o.hdrSnap), mounted, cl)
			if fails[i] != "" {
				impl = fails[i]
				set(who + ": OpenMountedStream did not return normally: " + fails[i])
			}
			wire := o.s.wrote()
			if fails[i] == "" {
				if o.oerr != nil || o.ms == nil {
					set(who + ": OpenMountedStream failed although the link opened a stream and the write succeeded")
				} else {
					if o.ms.GetStream() != stream.Stream(o.s) {
						set(who + ": the mounted stream wraps another stream than the one the link opened for it")
					}
					if string(o.ms.GetProtocolID()) != string(o.pid) || o.ms.GetPeerID() != o.fl.remote {
						set(fmt.Sprintf("%s: the mounted stream reports protocol %s peer %s but %s was requested on a link to %s", who, q([]byte(o.ms.GetProtocolID())), q([]byte(o.ms.GetPeerID())), q(o.pid), q([]byte(o.fl.remote))))
					}
					if o.s.closed() || o.s.armed() {
						set(who + ": OpenMountedStream returned a stream that is closed or has a deadline armed")
					}
				}
				if string(o.hdrSnap) != string(o.hdrRef) {
					what := "which is no header"
					if got, _, ok := decodeRef(o.hdrSnap); ok {
						what = "which names protocol " + q(got)
						for j, p := range ops {
							if j != i && string(got) == string(p.pid) {
								what += fmt.Sprintf(" (the ID opener %d asked for)", j+1)
							}
						}
					}
					fd := 0
					for fd < len(o.hdrSnap) && fd < len(o.hdrRef) && o.hdrSnap[fd] == o.hdrRef[fd] {
						fd++
					}
					what += fmt.Sprintf("; first difference at byte %d of %d", fd, len(o.hdrRef))
					set(fmt.Sprintf("%s asked for protocol %s (header %s) but its stream received %s, %s: a header must reach the stream of the opener that wrote it whatever other openers do meanwhile", who, q(o.pid), q(o.hdrRef), q(o.hdrSnap), what))
				} else if o.oerr == nil && o.ms != nil && string(wire) != string(o.hdrRef)+string(o.payload) {
					set(fmt.Sprintf("%s: after the header the application wrote %s but the stream holds %s after the header", who, q(o.payload), q(wire[min(len(wire), len(o.hdrRef)):])))
				}
			}
			e.rep.Compare(o.op+tag, o.model, impl, "open.concurrent", "incoming.open:concurrent", e.pickMonitor(mons))
			if lenClass == 0 {
				e.rep.Branches["open.concurrent.same-length"]++
			} else {
				e.rep.Branches["open.concurrent.other-length"]++
			}
			if oneProc {
				e.rep.Branches["open.concurrent.one-proc"]++
			}
			if o.s.wmode != "gate" {
				e.rep.Branches["open.concurrent.late-complete"]++
			}
			// what reached the wire, through the receiving side: dispatched under the opener's ID
			if fails[i] == "" && len(wire) > 0 {
				beh := []string{"accepts", "accepts", "handlererr"}[(r+i)%3]
				c := e.newCase(o.fl.remote, o.X.peerID, beh, e.chunkAny(wire), "roundtrip.concurrent", "ok", o.pid, o.payload)
				c.openerNote = fmt.Sprintf("%s wrote %s on a link %s→%s", who, q(o.pid), q([]byte(o.fl.local)), q([]byte(o.fl.remote)))
				Y := e.B
				if o.X == e.B {
					Y = e.A
				}
				e.runHandle(c, Y)
				e.rep.Branches["roundtrip.concurrent"]++
			}
		}
		for _, rel := range rels {
			rel()
		}
	}
}

func validUTF8(b []byte) bool { return utf8.Valid(b) }

// runLinkScenarios: streams on really established links whose situation changes under them.
//   - two streams on ONE link, the first silent: the second must be dispatched and delivered while
//     the first is still waiting for its header (the accept pump must not serialise streams);
//   - a link whose uuid is taken over by a NEW link to another remote while a stream accepted from the
//     old link is still waiting for its header: whatever happens to that stream, a lookup or delivery
//     for it names the OLD link's peers, and a stream on the new link names the new link's;
//   - a link whose remote peer is the controller's own peer (on the controller configured without a
//     peer ID and on the one configured with it) is closed, not listed, and yields nothing.
func (e *engine) runLinkScenarios() {
	sides := []*side{e.A, e.B}
	mkStream := func(tag string, k int) ([]byte, []byte, [][]byte) {
		pid := append(e.honestPid(3+e.rng.Intn(8)), []byte(fmt.Sprintf("/%s%d.%d", tag, k, e.nextID))...)
		payload := e.rng.Bytes(1 + e.rng.Intn(8))
		return pid, payload, e.rng.Chunk(append(marshalRef(pid), payload...), e.rng.Intn(4))
	}
	for round := 0; round < 2*e.a.Scale; round++ {
		for si, Y := range sides {
			// --- two streams on one link
			_, remote := e.freshPeers()
			e.nextUU++
			fl := newFakeLink(e.nextUU, Y.peerID, remote)
			_, rel, bad := e.establish(Y, fl, true)
			if bad != "" {
				e.rep.Compare("incoming.scenario two-streams", "established", bad, "open.setup", "incoming.open:setup", bad)
				continue
			}
			pid1, pay1, ch1 := mkStream("slow", round)
			pid2, pay2, ch2 := mkStream("fast", round)
			c1 := e.newCase(fl.local, fl.remote, "accepts", ch1, "two-streams-one-link/first-silent", "ok", pid1, pay1)
			c2 := e.newCase(fl.local, fl.remote, "accepts", ch2, "two-streams-one-link/second", "ok", pid2, pay2)
			c1.uuid, c2.uuid = fl.uuid, fl.uuid
			c1.hold = make(chan struct{})
			d1 := e.start(c1, Y, fl)
			d2 := e.start(c2, Y, fl)
			e.finish(c2, d2) // while the first stream has not sent a byte
			close(c1.hold)
			e.finish(c1, d1)
			rel()
			e.rep.Branches["scenario.two-streams"]++

			// --- uuid taken over by a link to another remote
			_, r1 := e.freshPeers()
			_, r2 := e.freshPeers()
			e.nextUU++
			uu := e.nextUU
			l1 := newFakeLink(uu, Y.peerID, r1)
			_, rel1, bad := e.establish(Y, l1, true)
			if bad != "" {
				e.rep.Compare("incoming.scenario replaced-link", "established", bad, "open.setup", "incoming.open:setup", bad)
				continue
			}
			pidA, payA, chA := mkStream("old", round)
			cA := e.newCase(l1.local, l1.remote, "accepts", chA, "stream-on-replaced-link/old", "any", pidA, payA)
			cA.uuid, cA.free, cA.ctxMayEnd = uu, true, true
			cA.hold = make(chan struct{})
			dA := e.start(cA, Y, l1)
			// (the pump has taken the stream when its first Read is pending; bounded, synchronisation only)
			for dl := time.Now().Add(2 * time.Second); len(l1.acceptQ) > 0 && time.Now().Before(dl); {
				time.Sleep(50 * time.Microsecond)
			}
			l2 := newFakeLink(uu, Y.peerID, r2)
			_, rel2, bad := e.establish(Y, l2, si == 0)
			if bad != "" {
				e.rep.Compare("incoming.scenario replaced-link", "new link established", bad, "open.setup", "incoming.open:setup", bad)
				close(cA.hold)
				e.finish(cA, dA)
				rel1()
				continue
			}
			close(cA.hold)
			pidB, payB, chB := mkStream("new", round)
			cB := e.newCase(l2.local, l2.remote, "accepts", chB, "stream-on-replaced-link/new", "ok", pidB, payB)
			cB.uuid = uu
			e.finish(cB, e.start(cB, Y, l2))
			e.finish(cA, dA)
			rel2()
			rel1()
			e.rep.Branches["scenario.replaced-link"]++

			// --- self link
			e.nextUU++
			self := newFakeLink(e.nextUU, Y.peerID, Y.peerID)
			before := transport_controller.VerifOpsDone()
			Y.handler.HandleLinkEstablished(self)
			for dl := time.Now().Add(waitLimit); transport_controller.VerifOpsDone() == before && time.Now().Before(dl); {
				time.Sleep(50 * time.Microsecond)
			}
			select {
			case <-self.closeCh:
			case <-time.After(2 * time.Second):
			}
			mon := ""
			self.mtx.Lock()
			cl := self.closed
			self.mtx.Unlock()
			if !cl {
				mon = "a link whose remote peer is the controller's own peer was not closed"
			}
			for _, l := range Y.ctrl.GetPeerLinks(Y.peerID) {
				if l.GetUUID() == self.uuid {
					mon = "a link whose remote peer is the controller's own peer is listed among the links to that peer"
				}
			}
			cfg := "configured with its peer ID"
			if si == 0 {
				cfg = "configured without a peer ID"
			}
			if mon != "" {
				mon += " (controller " + cfg + ")"
				Y.handler.HandleLinkLost(self)
			}
			e.rep.Compare(fmt.Sprintf("incoming.selflink side=%d #%d", si, round), "closed", "closed", "scenario.self-link", "incoming.selflink", mon)
		}
	}
}

// ---------------------------------------------------------------------------------------------

// newSide builds a real transport controller for the peer pid; lookup is the peer ID the controller
// is configured with ("" = whichever peer the bus has).
func (e *engine) newSide(pk crypto.PrivKey, pid peer.ID, lookup peer.ID) *side {
	s := &side{peerID: pid, tpt: &fakeTransport{pid: pid}}
	handlerCh := make(chan struct{})
	ctor := func(cctx context.Context, le *logrus.Entry, pkey crypto.PrivKey, h transport.TransportHandler) (transport.Transport, error) {
		if got, err := peer.IDFromPrivateKey(pkey); err != nil || got != pid {
			panic("verif: the controller resolved another local peer than the one intended")
		}
		s.handler = h
		close(handlerCh)
		return s.tpt, nil
	}
	info := controller.NewInfo("verif/fake-transport", semver.MustParse("0.0.1"), "fake transport")
	s.ctrl = transport_controller.NewController(e.le, e.tb.Bus, info, lookup, false, ctor)
	go func() { _ = e.tb.Bus.ExecuteController(e.ctx, s.ctrl) }()
	select {
	case <-handlerCh:
	case <-time.After(waitLimit):
		panic("controller did not construct transport")
	}
	if _, err := s.ctrl.GetTransport(e.ctx); err != nil {
		panic(err)
	}
	return s
}

func (e *engine) setup() func() {
	ctx, cancel := context.WithCancel(context.Background())
	e.ctx = ctx
	tb, err := testbed.NewTestbed(ctx, e.le, testbed.TestbedOpts{NoEcho: true})
	if err != nil {
		panic(err)
	}
	e.tb = tb
	// a second peer on the same bus, with its own transport controller
	npeer, err := peer.NewPeer(nil)
	if err != nil {
		panic(err)
	}
	pkB, err := npeer.GetPrivKey(ctx)
	if err != nil {
		panic(err)
	}
	pidB, err := peer.IDFromPrivateKey(pkB)
	if err != nil {
		panic(err)
	}
	confB, err := peer_controller.NewConfigWithPrivKey(pkB)
	if err != nil {
		panic(err)
	}
	// side A is configured WITHOUT a peer ID (the common configuration: "use the node's peer"); it is
	// constructed while the testbed's peer is the only one on the bus. Side B names its peer.
	e.A = e.newSide(tb.PrivKey, tb.PeerID, "")
	_, _, refB, err := bus.ExecOneOff(ctx, tb.Bus, resolver.NewLoadControllerWithConfig(confB), nil, nil)
	if err != nil {
		panic(err)
	}
	relH, err := tb.Bus.AddController(ctx, &handlerCtrl{e: e}, nil)
	if err != nil {
		panic(err)
	}
	e.B = e.newSide(pkB, pidB, pidB)
	e.max = int(transport_controller.VerifStreamEstablishMaxPacketSize())
	return func() {
		relH()
		refB.Release()
		cancel()
		tb.Release()
	}
}

func (e *engine) run() {
	e.rep.Rule = "real Controller.HandleIncomingStream (direct and through the accept pump of established links) on a real bus with two transport controllers, fake links with per-case peer IDs (binary, non-UTF-8, empty, equal, swapped between links) and scripted chunked streams: honest headers (pid length classes × chunkings × payloads × lookup answers), all 8 splits of the 4-byte prefix, truncation at every offset, the malformed classes of the framing engine, lookup deadline / no handler / stalled peer, overlapping lookups differing in one field; real OpenMountedStream on mounted links yielded by real EstablishLinkWithPeer directives with failing / short writers, fed back through the receiving side; 2-4 openers with different protocol IDs (equal and different lengths) inside OpenMountedStream at once (one link / several links / both controllers, GOMAXPROCS 1 and default) on streams whose Write takes the header in two steps with the later openers marshalling (and one completing) in between, each stream's bytes and the receiving side's dispatch checked against its own opener's ID; streams that return their final bytes together with io.EOF (header+FIN in one read, truncation at every offset); controller A configured without a peer ID; two streams on one established link (first silent), a stream on a link whose uuid is taken over by a link to another remote, self links; distinct = distinct op line"
	release := e.setup()
	defer release()
	full := e.a.Prop == "C07"
	e.rep.Require("handle.ok.accepts", "handle.ok.handlererr", "handle.ok.wrongtype", "handle.ok.resolvererr",
		"handle.ok.deadline", "handle.ok.nohandler", "handle.io", "handle.badPrefix", "handle.badLen", "handle.badProto", "handle.badPid",
		"open.full", "open.fail", "open.short", "open.openerr", "roundtrip.ok", "via.pump",
		"open.concurrent", "open.concurrent.same-length", "open.concurrent.other-length", "open.concurrent.one-proc", "open.concurrent.late-complete", "roundtrip.concurrent",
		"pair.differ-remote", "pair.differ-local", "pair.differ-pid", "pair.swapped-peers",
		"handle.last.ok", "handle.last.io", "scenario.two-streams", "scenario.replaced-link", "scenario.self-link")
	t0 := time.Now()
	e.runHandlePopulation(full)
	t1 := time.Now()
	e.runPairs()
	t2 := time.Now()
	e.runOpen()
	e.runConcurrentOpen()
	t3 := time.Now()
	e.runLinkScenarios()
	e.rep.Notes = append(e.rep.Notes, fmt.Sprintf("phases: handle %.1fs pairs %.1fs open %.1fs scenarios %.1fs", t1.Sub(t0).Seconds(), t2.Sub(t1).Seconds(), t3.Sub(t2).Seconds(), time.Since(t3).Seconds()))
	e.mtx.Lock()
	stray := append([]dirRec(nil), e.stray...)
	e.mtx.Unlock()
	for _, d := range stray {
		e.rep.Compare("incoming.stray "+showDir(d), "no such lookup", "lookup seen", "stray", "incoming.handle:stray",
			"a HandleMountedStream lookup "+showDir(d)+" matches no stream under test")
	}
}

func main() {
	a := lib.ParseArgs()
	lg := logrus.New()
	lg.SetLevel(logrus.PanicLevel)
	lg.SetOutput(io.Discard)
	e := &engine{a: a, rng: lib.NewRng(a.Seed), m: lib.NewModel(a.Driver), le: logrus.NewEntry(lg), active: map[int]*hcase{}, nextUU: 1000}
	e.rep = lib.NewReport("incoming", a)
	switch a.Prop {
	case "C04", "C07":
		e.run()
	default:
		fmt.Println("unknown property", a.Prop)
		return
	}
	e.m.Close()
	e.rep.Write(a.Out)
}
