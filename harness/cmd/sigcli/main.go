// Command sigcli is the trace-validation engine for the signaling CLIENT (C19, C21, C23): the
// real signaling_rpc_client.Client talks to a scripted relay (honest, dropping, re-opening, or
// malicious: forged / re-attributed / tampered / hand-assembled messages, unsolicited acks and
// clears, stream failures). Every critical section of the client's peer tracker is logged by the
// verif hooks and replayed against the Lean LTS Bifrost.SigC (enabledness, post-state, decidable
// invariants); the verdict handed to the model for every delivered message is the HARNESS's own
// (stdlib) judgement, never the client's. Model-independent monitors state C19 / C21 / C23 on what
// the application observes and on what the client puts on the wire.
//
// Two dimensions of the environment are the engine's, not the Go scheduler's: (i) the CALLERS of
// Recv — long-lived contexts, contexts that are already cancelled / past their deadline when the
// call is made, contexts cancelled concurrently with the delivery of a message, deadlines of a few
// microseconds in polling loops — and what each call RETURNED (logged into the trace as recvret /
// recvend and validated against SigC.recvIter); (ii) the client's WRITES to the relay — a write
// of a chosen request kind (send / ack / clear) can be parked inside the stream's Send (the
// client's main loop is then between its critical section and the return of the write) while the
// relay delivers Opened / Closed / Ack / Clear and waits, by hook event, until the client has
// processed them; the write is then released into an honest relay that drops stale-epoch requests.
package main

import (
	"bytes"
	"context"
	"fmt"
	"io"
	"sort"
	"strconv"
	"strings"
	"sync"
	"time"

	"github.com/aperturerobotics/bifrost/hash"
	signaling "github.com/aperturerobotics/bifrost/signaling/rpc"
	signaling_rpc_client "github.com/aperturerobotics/bifrost/signaling/rpc/client"
	"github.com/aperturerobotics/starpc/srpc"
	"github.com/aperturerobotics/util/backoff"
	"github.com/sirupsen/logrus"

	"verif/harness/lib"
	"verif/harness/quiet"
	"verif/harness/sigoracle"
)

type engine struct {
	a    *lib.Args
	rng  *lib.Rng
	m    *lib.Model
	rep  *lib.Report
	le   *logrus.Entry
	kA   *sigoracle.Key // local client
	kB   *sigoracle.Key // the remote peer of the session
	kC   *sigoracle.Key // a third party
	keys []*sigoracle.Key
}

const idxB = 2

// relayStream is one Session stream of the scripted relay.
type relayStream struct {
	w        *world
	ix       int
	ctx      context.Context
	respCh   chan *signaling.SessionResponse
	fail     chan struct{}
	failOnce sync.Once
	peer     string // the remote peer named by the stream's Init ("" until the Init arrived)
}

// failNow makes the stream fail (once: the client may not have replaced it yet when the relay
// script fails "the current stream" again).
func (r *relayStream) failNow() { r.failOnce.Do(func() { close(r.fail) }) }

func (r *relayStream) Context() context.Context { return r.ctx }
func (r *relayStream) Send(m *signaling.SessionRequest) error {
	if reqKind(m) == "init" && r.w.takeFail("init") {
		// the write of the Init request fails: the client must give the stream up and re-connect
		return io.ErrClosedPipe
	}
	// a gated write: the request is on its way but the write has not returned (back-pressure);
	// the relay sees it only when the gate opens
	if g := r.w.takeGate(reqKind(m), m); g != nil {
		close(g.held)
		select {
		case <-g.release:
		case <-r.ctx.Done():
			return context.Canceled
		}
	}
	r.w.onRequest(r, m)
	return nil
}

// reqKind names the kind of a client request.
func reqKind(m *signaling.SessionRequest) string {
	switch m.GetBody().(type) {
	case *signaling.SessionRequest_Init:
		return "init"
	case *signaling.SessionRequest_SendMsg:
		return "send"
	case *signaling.SessionRequest_AckMsg:
		return "ack"
	case *signaling.SessionRequest_ClearMsg:
		return "clear"
	}
	return "other"
}

// wgate parks the next client->relay write of one request kind inside the stream's Send.
type wgate struct {
	kind    string
	held    chan struct{} // closed once a write is parked
	release chan struct{}
	relOnce sync.Once
	taken   bool
	req     *signaling.SessionRequest
}

func (g *wgate) open() { g.relOnce.Do(func() { close(g.release) }) }

// waitHeld waits until a write is parked at the gate.
func (g *wgate) waitHeld(d time.Duration) bool {
	select {
	case <-g.held:
		return true
	case <-time.After(d):
		return false
	}
}

// armGate arms a gate for the next write of the kind (one gate at a time).
func (w *world) armGate(kind string) *wgate {
	g := &wgate{kind: kind, held: make(chan struct{}), release: make(chan struct{})}
	w.mtx.Lock()
	w.gate = g
	w.mtx.Unlock()
	return g
}

// disarm removes the gate if no write was parked at it and opens it in any case.
func (w *world) disarm(g *wgate) {
	w.mtx.Lock()
	if w.gate == g {
		w.gate = nil
	}
	w.mtx.Unlock()
	g.open()
}

func (w *world) takeGate(kind string, m *signaling.SessionRequest) *wgate {
	w.mtx.Lock()
	defer w.mtx.Unlock()
	g := w.gate
	if g == nil || g.taken || g.kind != kind {
		return nil
	}
	g.taken, g.req = true, m
	w.gate = nil
	return g
}
func (r *relayStream) Recv() (*signaling.SessionResponse, error) {
	select {
	case m := <-r.respCh:
		return m, nil
	case <-r.fail:
		return nil, io.ErrUnexpectedEOF
	case <-r.ctx.Done():
		return nil, context.Canceled
	}
}
func (r *relayStream) RecvTo(m *signaling.SessionResponse) error {
	x, err := r.Recv()
	if err != nil {
		return err
	}
	*m = *x //nolint
	return nil
}
func (r *relayStream) MsgSend(srpc.Message) error { return nil }
func (r *relayStream) MsgRecv(srpc.Message) error { return io.EOF }
func (r *relayStream) CloseSend() error           { return nil }
func (r *relayStream) Close() error               { return nil }

// parkCtx is a context whose Done() parks the caller while armed: it holds a Send call right
// before its select so that an ack and a cancellation can both be pending when it resumes.
type parkCtx struct {
	context.Context
	mtx    sync.Mutex
	armed  bool
	parked chan struct{}
	gate   chan struct{}
}

func (p *parkCtx) Done() <-chan struct{} {
	p.mtx.Lock()
	armed := p.armed
	p.armed = false
	p.mtx.Unlock()
	if armed {
		close(p.parked)
		<-p.gate
	}
	return p.Context.Done()
}

type fakeRelay struct{ w *world }

func (f *fakeRelay) SRPCClient() srpc.Client { return nil }
func (f *fakeRelay) Listen(ctx context.Context, in *signaling.ListenRequest) (signaling.SRPCSignaling_ListenClient, error) {
	return f.w.listen(ctx)
}
func (f *fakeRelay) Session(ctx context.Context) (signaling.SRPCSignaling_SessionClient, error) {
	if f.w.takeFail("session") {
		// the relay cannot be reached: opening the Session RPC fails
		return nil, io.ErrUnexpectedEOF
	}
	r := &relayStream{w: f.w, ctx: ctx, respCh: make(chan *signaling.SessionResponse, 256), fail: make(chan struct{})}
	f.w.mtx.Lock()
	r.ix = len(f.w.streams)
	f.w.streams = append(f.w.streams, r)
	f.w.mtx.Unlock()
	return r, nil
}

// takeFail consumes one scripted failure of the given kind ("session": opening the RPC fails;
// "init": the write of the Init request fails; "listen": opening the Listen RPC fails).
func (w *world) takeFail(kind string) bool {
	w.mtx.Lock()
	defer w.mtx.Unlock()
	if w.fails[kind] > 0 {
		w.fails[kind]--
		w.failed[kind]++
		return true
	}
	return false
}

// lstream is one scripted Listen stream of the relay.
type lstream struct {
	ctx    context.Context
	respCh chan *signaling.ListenResponse
	fail   chan struct{}
}

func (l *lstream) Context() context.Context { return l.ctx }
func (l *lstream) Recv() (*signaling.ListenResponse, error) {
	// what was written before the failure is delivered before the failure
	select {
	case m := <-l.respCh:
		return m, nil
	default:
	}
	select {
	case m := <-l.respCh:
		return m, nil
	case <-l.fail:
		select {
		case m := <-l.respCh:
			return m, nil
		default:
		}
		return nil, io.ErrUnexpectedEOF
	case <-l.ctx.Done():
		return nil, context.Canceled
	}
}
func (l *lstream) RecvTo(m *signaling.ListenResponse) error {
	x, err := l.Recv()
	if err != nil {
		return err
	}
	data, err := x.MarshalVT()
	if err != nil {
		return err
	}
	return m.UnmarshalVT(data)
}
func (l *lstream) MsgSend(srpc.Message) error { return nil }
func (l *lstream) MsgRecv(srpc.Message) error { return io.EOF }
func (l *lstream) CloseSend() error           { return nil }
func (l *lstream) Close() error               { return nil }

// listen is the relay's Listen RPC: refused unless the scenario scripts it.
func (w *world) listen(ctx context.Context) (signaling.SRPCSignaling_ListenClient, error) {
	w.mtx.Lock()
	scripted := w.listenOn
	w.mtx.Unlock()
	if !scripted {
		return nil, io.EOF
	}
	if w.takeFail("listen") {
		return nil, io.ErrUnexpectedEOF
	}
	l := &lstream{ctx: ctx, respCh: make(chan *signaling.ListenResponse, 64), fail: make(chan struct{})}
	w.mtx.Lock()
	w.lstreams = append(w.lstreams, l)
	w.mtx.Unlock()
	return l, nil
}

func (w *world) lstreamsSnapshot() []*lstream {
	w.mtx.Lock()
	defer w.mtx.Unlock()
	return append([]*lstream(nil), w.lstreams...)
}

func (w *world) curListen() *lstream {
	w.mtx.Lock()
	defer w.mtx.Unlock()
	if len(w.lstreams) == 0 {
		return nil
	}
	return w.lstreams[len(w.lstreams)-1]
}

// injected is one RecvMsg the scripted relay delivered, with the HARNESS's own verdict about it.
type injected struct {
	class     string
	seqno     uint64
	mid       int
	v, g      int    // stdlib verdict: verifies under the key of the peer it names / that peer is B
	payload   string // the body the message carries
	wire      []byte
	submitted bool // B's client produced exactly this SessionMsg
	otherDest bool // B submitted it for delivery to another peer
}

// wireReq is one request the client put on the wire.
type wireReq struct {
	stream int
	kind   string // init | send | ack | clear | other
	epoch  uint64
	seqno  uint64
	msg    *signaling.SessionMsg
}

type world struct {
	e          *engine
	mtx        sync.Mutex
	log        []string
	tkr        string // the tracker of this scenario's client (hook lines of other trackers are not ours)
	streams    []*relayStream
	inj        map[uint64]*injected   // by outer message seqno (unique per scenario, except scenario seqno-reuse: the LATEST injection)
	injAll     map[uint64][]*injected // every injection of an outer seqno, in order (scenario seqno-reuse presents a seqno again)
	auto       string                 // relay behaviour on a SendMsg request: "", "ack" (honest: drop stale epochs, acknowledge the rest), "skip-one", "reopen-then-ack"
	epoch      uint64
	acksIssued map[uint64]bool
	sent       map[uint64]bool // seqnos the client transmitted
	wire       []wireReq
	gate       *wgate         // armed gate on the client's writes (nil: writes return at once)
	dropped    int            // stale-epoch SendMsg requests the honest relay dropped
	peerB      string         // peer id string of the remote peer of the session under test
	fails      map[string]int // scripted failures still to come (session / init / listen)
	failed     map[string]int // scripted failures that happened
	listenOn   bool           // the relay serves the Listen RPC (scripted streams)
	lstreams   []*lstream
	wireOther  []wireReq // requests on sessions with peers other than B
}

// note appends a line of the ENGINE's own observations (what a Recv call returned) to the trace.
func (w *world) note(kind string, q uint64) {
	w.mtx.Lock()
	w.log = append(w.log, fmt.Sprintf("ev=%s tkr=%s q=%d", kind, w.tkr, q))
	w.mtx.Unlock()
}

// mark is the current length of the hook log.
func (w *world) mark() int {
	w.mtx.Lock()
	defer w.mtx.Unlock()
	return len(w.log)
}

// waitHook waits until a hook line of this scenario's tracker logged at or after position `from`
// satisfies pred ("the client has processed it").
func (w *world) waitHook(from int, d time.Duration, pred func(line string) bool) bool {
	deadline := time.Now().Add(d)
	for {
		w.mtx.Lock()
		for i := from; i < len(w.log); i++ {
			if kvOf(w.log[i], "tkr") == w.tkr && pred(w.log[i]) {
				w.mtx.Unlock()
				return true
			}
		}
		from = len(w.log)
		w.mtx.Unlock()
		if time.Now().After(deadline) {
			return false
		}
		time.Sleep(50 * time.Microsecond)
	}
}

// hookIs matches a hook line by event kind and (if want != "") its a= field.
func hookIs(ev, want string) func(string) bool {
	return func(line string) bool {
		return strings.HasPrefix(line, "ev="+ev+" ") && (want == "" || kvOf(line, "a") == want)
	}
}

func (w *world) sink(line string) {
	w.mtx.Lock()
	w.log = append(w.log, line)
	w.mtx.Unlock()
}

// lines returns the hook lines of this scenario's tracker.
func (w *world) lines() []string {
	w.mtx.Lock()
	defer w.mtx.Unlock()
	var out []string
	for _, l := range w.log {
		if kvOf(l, "tkr") == w.tkr {
			out = append(out, l)
		}
	}
	return out
}

// cur is the current stream of the session with B (streams are attributed by their Init).
func (w *world) cur() *relayStream {
	w.mtx.Lock()
	defer w.mtx.Unlock()
	for i := len(w.streams) - 1; i >= 0; i-- {
		if w.streams[i].peer == w.peerB {
			return w.streams[i]
		}
	}
	return nil
}

// curOf is the current stream of the session with the given remote peer.
func (w *world) curOf(peer string) *relayStream {
	w.mtx.Lock()
	defer w.mtx.Unlock()
	for i := len(w.streams) - 1; i >= 0; i-- {
		if w.streams[i].peer == peer {
			return w.streams[i]
		}
	}
	return nil
}

func (w *world) respond(r *relayStream, m *signaling.SessionResponse) {
	if r == nil {
		return
	}
	if b, ok := m.GetBody().(*signaling.SessionResponse_AckMsg); ok {
		w.mtx.Lock()
		w.acksIssued[b.AckMsg] = true
		w.mtx.Unlock()
	}
	select {
	case r.respCh <- m:
	default:
	}
}

// onRequest records what the client put on the wire and is the relay's automatic behaviour.
func (w *world) onRequest(r *relayStream, m *signaling.SessionRequest) {
	wr := wireReq{stream: r.ix, epoch: m.GetSessionSeqno(), kind: "other"}
	switch b := m.GetBody().(type) {
	case *signaling.SessionRequest_Init:
		wr.kind = "init"
		w.mtx.Lock()
		r.peer = b.Init.GetPeerId()
		w.mtx.Unlock()
	case *signaling.SessionRequest_SendMsg:
		wr.kind, wr.seqno, wr.msg = "send", b.SendMsg.GetSeqno(), b.SendMsg
	case *signaling.SessionRequest_AckMsg:
		wr.kind, wr.seqno = "ack", b.AckMsg
	case *signaling.SessionRequest_ClearMsg:
		wr.kind, wr.seqno = "clear", b.ClearMsg
	}
	w.mtx.Lock()
	other := r.peer != w.peerB
	if other {
		w.wireOther = append(w.wireOther, wr)
	} else {
		w.wire = append(w.wire, wr)
	}
	w.mtx.Unlock()
	if other {
		return // a session with another peer: recorded apart, no automatic behaviour
	}
	if b, ok := m.GetBody().(*signaling.SessionRequest_SendMsg); ok {
		q := b.SendMsg.GetSeqno()
		w.mtx.Lock()
		w.sent[q] = true
		auto := w.auto
		w.mtx.Unlock()
		switch auto {
		case "ack":
			// the honest relay: a request stamped with another epoch than the session's is dropped
			w.mtx.Lock()
			cur := m.GetSessionSeqno() == w.epoch
			if !cur {
				w.dropped++
			}
			w.mtx.Unlock()
			if cur {
				w.respond(r, &signaling.SessionResponse{Body: &signaling.SessionResponse_AckMsg{AckMsg: q}})
			}
		case "skip-one":
			// the relay received the message but its acknowledgement is not coming (yet); later
			// transmissions are served
			w.mtx.Lock()
			w.auto = "ack"
			w.mtx.Unlock()
		case "reopen-then-ack":
			// the session is re-opened while the send is in flight; the client must re-transmit
			w.mtx.Lock()
			w.auto = "ack"
			w.epoch++
			ep := w.epoch
			w.mtx.Unlock()
			w.respond(r, &signaling.SessionResponse{Body: &signaling.SessionResponse_Opened{Opened: ep}})
		}
	}
}

func (e *engine) mkMsg(key *sigoracle.Key, seqno uint64, payload []byte) *signaling.SessionMsg {
	m, err := signaling.NewSessionMsg(key.SK, hash.HashType_HashType_BLAKE3, payload, seqno)
	if err != nil {
		panic(err)
	}
	return m
}

// quiesce: the hook log is stable and no goroutine of the process is runnable (package quiet).
func (w *world) quiesce(d time.Duration) {
	quiet.Settle(func() int {
		w.mtx.Lock()
		defer w.mtx.Unlock()
		return len(w.log) + len(w.wire)
	}, d, 3, 20*time.Second)
}

func kvOf(line, k string) string {
	i := strings.Index(line, " "+k+"=")
	if i < 0 {
		return ""
	}
	rest := line[i+len(k)+2:]
	if j := strings.IndexByte(rest, ' '); j >= 0 {
		rest = rest[:j]
	}
	return rest
}

func b01(s string) string {
	if s == "true" {
		return "1"
	}
	return "0"
}

// canonical converts the hook log into driver tokens. For recvmsg / recvrej the verdict (v, g) is
// the harness's own judgement of the injected message (stdlib), NOT what the client decided: a
// client that accepts what the harness condemns (or the reverse) no longer replays.
func (w *world) canonical() string {
	lines := w.lines()
	var toks []string
	seenQ := map[uint64]int{} // how many recvmsg / recvrej events named this outer seqno so far
	for _, line := range lines {
		ev := strings.TrimPrefix(strings.SplitN(line, " ", 2)[0], "ev=")
		switch ev { // the engine's own observations of the Recv calls
		case "recvret":
			toks = append(toks, "recvret,q="+kvOf(line, "q"))
			continue
		case "recvend":
			toks = append(toks, "recvend")
			continue
		}
		ti := strings.Index(line, " open=")
		tr := line[ti:]
		snap := fmt.Sprintf("o%s:%s:%s:%s:%s:%s:%s", kvOf(tr, "open"), kvOf(tr, "out"), b01(kvOf(tr, "sent")), b01(kvOf(tr, "acked")), b01(kvOf(tr, "cancel")), kvOf(tr, "recv"), b01(kvOf(tr, "proc")))
		head := line[:ti]
		switch ev {
		case "close":
			toks = append(toks, "close,snap="+snap)
		case "opened":
			toks = append(toks, fmt.Sprintf("opened,e=%s,snap=%s", kvOf(head, "a"), snap))
		case "recvmsg", "recvrej":
			q, _ := strconv.ParseUint(kvOf(head, "a"), 10, 64)
			mid, v, g := 0, 0, 0
			w.mtx.Lock()
			if in := w.inj[q]; in != nil {
				// a seqno presented again (scenario seqno-reuse): the i-th event is the i-th injection
				if all := w.injAll[q]; len(all) > 1 && seenQ[q] < len(all) {
					in = all[seenQ[q]]
				}
				mid, v, g = in.mid, in.v, in.g
			}
			seenQ[q]++
			w.mtx.Unlock()
			if ev == "recvmsg" {
				toks = append(toks, fmt.Sprintf("recvmsg,q=%d,m=%d,v=%d,g=%d,snap=%s", q, mid, v, g, snap))
			} else {
				toks = append(toks, fmt.Sprintf("recvmsg,q=%d,m=%d,v=%d,g=%d", q, mid, v, g))
			}
		case "clearmsg":
			toks = append(toks, fmt.Sprintf("clearmsg,k=%s,snap=%s", kvOf(head, "a"), snap))
		case "ackmsg":
			toks = append(toks, fmt.Sprintf("ackmsg,k=%s,snap=%s", kvOf(head, "a"), snap))
		case "txloop":
			toks = append(toks, fmt.Sprintf("txloop,req=%s,snap=%s", loopReq(head), snap))
		case "sendstep":
			res := "-"
			if kvOf(head, "acked") == "true" {
				res = "ok"
			}
			toks = append(toks, fmt.Sprintf("sendstep,id=%s,m=%s,call=%s:%s:%s,snap=%s", kvOf(head, "a"), kvOf(head, "a"), b01(kvOf(head, "flag")), kvOf(head, "ss"), res, snap))
		case "sendcancel":
			toks = append(toks, fmt.Sprintf("sendcancel,id=%s,m=%s,snap=%s", kvOf(head, "a"), kvOf(head, "a"), snap))
		case "recvstep":
			toks = append(toks, fmt.Sprintf("recvstep,got=%s,snap=%s", b01(kvOf(head, "flag")), snap))
		}
	}
	if len(toks) == 0 {
		return "_"
	}
	return strings.Join(toks, ";")
}

// loopReq renders the request a txloop hook line says the main loop decided on.
func loopReq(head string) string {
	ep := kvOf(head, "epoch")
	if x := kvOf(head, "cancelmsg"); x != "0" {
		return "clear:" + ep + ":" + x
	} else if x := kvOf(head, "sendmsg"); x != "0" {
		return "send:" + ep + ":" + x
	} else if x := kvOf(head, "ackmsg"); x != "0" {
		return "ack:" + ep + ":" + x
	}
	return "none"
}

type sendRes struct {
	seqno uint64
	err   error
	done  bool
	must  bool // the relay is working for this send: it must succeed
}

// expected harness verdicts (v, g) per injection class: a self-check of the generators against the oracle
var classVerdict = map[string][2]int{
	"authentic": {1, 1}, "authentic-for-other-peer": {1, 1}, "keyed-authentic": {1, 1}, "seqno-rewritten": {1, 1},
	"altered-copy": {0, 1}, "tampered": {0, 1}, "claimed-sender": {0, 1}, "third-party": {1, 0}, "self": {1, 0},
	"attached-foreign-key": {0, 1}, "attached-victim-key": {0, 1}, "other-context": {0, 1}, "other-context-keyed": {0, 1},
	"empty-signature": {0, 1}, "unsigned": {0, 1}, "nil-body": {0, 0}, "empty-data": {0, 1}, "no-sender": {0, 0},
}

// forgeries are all classes the client must refuse.
var forgeries = []string{"altered-copy", "tampered", "claimed-sender", "third-party", "self", "attached-foreign-key", "attached-victim-key",
	"other-context", "other-context-keyed", "empty-signature", "unsigned", "nil-body", "empty-data", "no-sender"}

func (e *engine) scenario(kind string, n int) {
	w := &world{e: e, inj: map[uint64]*injected{}, injAll: map[uint64][]*injected{}, acksIssued: map[uint64]bool{}, sent: map[uint64]bool{}, epoch: 1, peerB: e.kB.IDStr, fails: map[string]int{}, failed: map[string]int{}}
	if kind == "open-failure" {
		// the relay cannot be reached at first, then the Init write fails once
		w.fails["session"] = 1 + e.rng.Intn(3)
		w.fails["init"] = 1
	}
	signaling_rpc_client.VerifSetSink(w.sink)
	defer signaling_rpc_client.VerifSetSink(nil)
	cl, err := signaling_rpc_client.NewClient(e.le, &fakeRelay{w: w}, e.kA.SK, &backoff.Backoff{BackoffKind: backoff.BackoffKind_BackoffKind_CONSTANT, Constant: &backoff.Constant{Interval: 1}})
	if err != nil {
		panic(err)
	}
	ctx, cancel := context.WithCancel(context.Background())
	defer cancel()
	ref := cl.AddPeerRef(e.kB.IDStr)
	defer ref.Release()
	w.mtx.Lock()
	w.tkr = ref.VerifTrackerID()
	w.mtx.Unlock()
	// the application's listen handler: every call is recorded (scenario listen-handler)
	var lmtx sync.Mutex
	var lcalls []string
	if kind == "listen-handler" {
		w.listenOn = true
		w.fails["listen"] = 1 + e.rng.Intn(2)
		cl.SetListenHandler(func(_ context.Context, reset, added bool, pid string) {
			lmtx.Lock()
			switch {
			case reset:
				lcalls = append(lcalls, "reset")
				if pid != "" || added {
					lcalls = append(lcalls, "reset-with-peer:"+pid)
				}
			case added:
				lcalls = append(lcalls, "add:"+pid)
			default:
				lcalls = append(lcalls, "del:"+pid)
			}
			lmtx.Unlock()
		})
	}
	// a second session of the same client, with the third party C (scenario two-sessions)
	var refC *signaling_rpc_client.ClientPeerRef
	if kind == "two-sessions" {
		refC = cl.AddPeerRef(e.kC.IDStr)
		defer refC.Release()
	}
	cl.SetContext(ctx)
	sess := signaling_rpc_client.NewSessionWithRef(ref) // the signaling.SignalPeerSession the transports use
	var actions []string
	act := func(s string) { actions = append(actions, s) }
	// wait for the first stream
	for i := 0; i < 100000 && w.cur() == nil; i++ {
		time.Sleep(100 * time.Microsecond)
	}
	var rmtx sync.Mutex
	var received []*signaling.SessionMsg // returned by ClientPeerRef.Recv
	var receivedData [][]byte            // returned by Session.Recv (the body only)
	var sends []*sendRes
	var apps sync.WaitGroup
	nextInj := uint64(100)
	startSendOpt := func(timeout time.Duration, must bool) *sendRes {
		sr := &sendRes{must: must}
		rmtx.Lock()
		sends = append(sends, sr)
		rmtx.Unlock()
		payload := e.rng.Bytes(4)
		apps.Add(1)
		go func() {
			defer apps.Done()
			sctx, scancel := context.WithTimeout(ctx, timeout)
			defer scancel()
			m, err := ref.Send(sctx, payload)
			rmtx.Lock()
			sr.err, sr.done = err, true
			if m != nil {
				sr.seqno = m.GetSeqno()
			}
			rmtx.Unlock()
		}()
		return sr
	}
	startSend := func(timeout time.Duration) { startSendOpt(timeout, false) }
	forceRef := false // true: the next Recv calls go through ClientPeerRef.Recv (the whole SessionMsg is handed over)
	// ---- the callers of Recv ----
	// Every Recv call of the scenario goes through recvCall: it records what the call RETURNED (only
	// a nil-error return hands a message to the application) and logs it into the trace. All calls
	// are cancelled and awaited before the verdict, so "returned" is complete when the monitors run.
	var recvWG sync.WaitGroup
	var recvCancels []context.CancelFunc
	var recvCanceled, recvCalls int
	var returnedSeq []uint64 // sequence numbers of the messages returned by Recv calls (nil error)
	recvCall := func(rctx context.Context, viaSession bool) bool {
		var q uint64
		if viaSession {
			data, err := sess.Recv(rctx)
			if err == nil {
				rmtx.Lock()
				receivedData = append(receivedData, data)
				w.mtx.Lock()
				// which injected message is this body? Bodies are unique per injection except for
				// re-presented copies of a message; among the candidates it is the one that a Recv
				// critical section took (hook, logged before the call returned) more often than calls
				// have returned it so far
				var cands []uint64
				for _, in := range w.inj {
					if in.payload == string(data) {
						cands = append(cands, in.seqno)
					}
				}
				sort.Slice(cands, func(i, j int) bool { return cands[i] < cands[j] })
				for _, c := range cands {
					taken, ret := 0, 0
					for _, l := range w.log {
						if strings.HasPrefix(l, "ev=recvstep ") && kvOf(l, "tkr") == w.tkr && kvOf(l, "flag") == "true" && kvOf(l, "recv") == fmt.Sprint(c) {
							taken++
						}
					}
					for _, x := range returnedSeq {
						if x == c {
							ret++
						}
					}
					if taken > ret {
						q = c
						break
					}
				}
				if q == 0 && len(cands) > 0 {
					q = cands[0]
				}
				w.mtx.Unlock()
				if q != 0 {
					returnedSeq = append(returnedSeq, q)
				}
				rmtx.Unlock()
			}
		} else {
			m, err := ref.Recv(rctx)
			if err == nil && m != nil {
				q = m.GetSeqno()
				rmtx.Lock()
				received = append(received, m)
				returnedSeq = append(returnedSeq, q)
				rmtx.Unlock()
			}
		}
		rmtx.Lock()
		recvCalls++
		if q == 0 {
			recvCanceled++
		}
		rmtx.Unlock()
		w.note("recvret", q)
		return q != 0
	}
	// recvCtx builds the caller's context: live (deadline `timeout`), cancelled (already cancelled),
	// expired (deadline in the past), short (deadline a few microseconds away), cancel-soon
	// (cancelled by a timer a few microseconds after the call started).
	recvCtx := func(mode string, timeout time.Duration) (context.Context, context.CancelFunc) {
		switch mode {
		case "cancelled":
			c, cc := context.WithCancel(ctx)
			cc()
			return c, cc
		case "expired":
			return context.WithDeadline(ctx, time.Now().Add(-time.Second))
		case "short":
			return context.WithTimeout(ctx, timeout)
		case "cancel-soon":
			c, cc := context.WithCancel(ctx)
			t := time.AfterFunc(timeout, cc)
			return c, func() { t.Stop(); cc() }
		}
		return context.WithTimeout(ctx, timeout)
	}
	startRecvMode := func(mode string, timeout time.Duration) chan bool {
		viaSession := e.rng.Intn(2) == 0 && !forceRef
		rctx, rcancel := recvCtx(mode, timeout)
		rmtx.Lock()
		recvCancels = append(recvCancels, rcancel)
		rmtx.Unlock()
		res := make(chan bool, 1)
		apps.Add(1)
		recvWG.Add(1)
		go func() {
			defer apps.Done()
			defer recvWG.Done()
			defer rcancel()
			res <- recvCall(rctx, viaSession)
		}()
		return res
	}
	startRecv := func(timeout time.Duration) { startRecvMode("live", timeout) }
	// anyRecv: a Recv whose caller is drawn from all kinds of callers
	anyRecv := func(timeout time.Duration) string {
		mode := "live"
		switch e.rng.Intn(8) {
		case 0:
			mode = "cancelled"
		case 1:
			mode = "expired"
		case 2:
			mode, timeout = "short", time.Duration(1+e.rng.Intn(300))*time.Microsecond
		case 3:
			mode, timeout = "cancel-soon", time.Duration(e.rng.Intn(300))*time.Microsecond
		}
		startRecvMode(mode, timeout)
		return mode
	}
	// poller: an application polling Recv `k` times with done / nearly done contexts
	startPoller := func(mode string, k int) chan int {
		viaSession := e.rng.Intn(2) == 0 && !forceRef
		ds := make([]time.Duration, k)
		gaps := make([]time.Duration, k)
		for i := range ds {
			ds[i] = time.Duration(1+e.rng.Intn(200)) * time.Microsecond
			gaps[i] = time.Duration(e.rng.Intn(120)) * time.Microsecond
		}
		res := make(chan int, 1)
		apps.Add(1)
		recvWG.Add(1)
		go func() {
			defer apps.Done()
			defer recvWG.Done()
			got := 0
			for i := 0; i < k && ctx.Err() == nil; i++ {
				rctx, rc := recvCtx(mode, ds[i])
				if recvCall(rctx, viaSession) {
					got++
				}
				rc()
				if gaps[i] > 0 {
					time.Sleep(gaps[i])
				}
			}
			res <- got
		}()
		return res
	}
	var lastAuthentic *signaling.SessionMsg
	var lastAuthenticMid int
	var forceSeq uint64 // non-zero: the next injection carries this outer sequence number
	inject := func(how string) {
		if (how == "altered-copy" || how == "seqno-rewritten") && lastAuthentic == nil {
			how = "tampered"
		}
		if how == "nil-recvmsg" { // a RecvMsg response without a message: nothing to accept, nothing to log
			w.respond(w.cur(), &signaling.SessionResponse{Body: &signaling.SessionResponse_RecvMsg{}})
			return
		}
		nextInj++
		q := nextInj
		mid := int(q)
		if forceSeq != 0 {
			// scenario seqno-reuse: the outer sequence number is presented AGAIN (the sender's counter
			// restarted); the message itself is new (own payload, own message id)
			nextInj--
			q, forceSeq = forceSeq, 0
			w.mtx.Lock()
			mid = int(q) + 1000*len(w.injAll[q])
			w.mtx.Unlock()
		}
		payload := append(e.rng.Bytes(6), byte(q), byte(q>>8), byte(mid>>8), byte(mid>>16))
		in := &injected{class: how, seqno: q, mid: mid}
		var m *signaling.SessionMsg
		switch how {
		case "authentic":
			m = e.mkMsg(e.kB, q, payload)
			in.submitted = true
			lastAuthentic, lastAuthenticMid = m, in.mid
		case "keyed-authentic": // B's own (redundant) public key attached
			m = sigoracle.KeyedAuthentic(e.kB, payload, q)
			in.submitted = true
		case "altered-copy": // signature and sender of the last authentic message, other payload
			m = lastAuthentic.CloneVT()
			m.Seqno = q
			m.SignedMsg.Data = payload
		case "seqno-rewritten": // the last authentic message, only the outer (unsigned) sequence number changed
			m = lastAuthentic.CloneVT()
			m.Seqno = q
			in.mid = lastAuthenticMid
		case "authentic-for-other-peer":
			m = e.mkMsg(e.kB, q, payload)
			in.submitted = true
			in.otherDest = true
		case "third-party": // validly signed by C, presented on the session with B (re-attribution)
			m = e.mkMsg(e.kC, q, payload)
		case "self": // validly signed by A itself
			m = e.mkMsg(e.kA, q, payload)
		case "tampered":
			m = e.mkMsg(e.kB, q, payload)
			m.SignedMsg.Data[0] ^= 0x40
		default:
			fm, ok := sigoracle.Forged(how, e.kB, e.kC, payload, q)
			if !ok {
				panic("unknown injection class " + how)
			}
			m = fm
		}
		v, claimed := sigoracle.Verdict(e.keys, m)
		in.v = v
		if claimed == idxB {
			in.g = 1
		}
		if want, ok := classVerdict[how]; !ok || want != [2]int{in.v, in.g} {
			panic(fmt.Sprintf("harness self-check: injection class %s: oracle verdict v=%d g=%d, construction says %v", how, in.v, in.g, want))
		}
		in.payload = string(m.GetSignedMsg().GetData())
		in.wire, _ = m.MarshalVT()
		w.mtx.Lock()
		w.inj[q] = in
		w.injAll[q] = append(w.injAll[q], in)
		w.mtx.Unlock()
		w.respond(w.cur(), &signaling.SessionResponse{Body: &signaling.SessionResponse_RecvMsg{RecvMsg: m}})
	}
	jitter := func() {
		switch e.rng.Intn(3) {
		case 0:
			time.Sleep(time.Duration(e.rng.Intn(200)) * time.Microsecond)
		case 1:
			w.quiesce(300 * time.Microsecond)
		}
	}
	open := func() uint64 {
		w.mtx.Lock()
		w.epoch++
		ep := w.epoch
		w.mtx.Unlock()
		w.respond(w.cur(), &signaling.SessionResponse{Body: &signaling.SessionResponse_Opened{Opened: ep}})
		return ep
	}
	setAuto := func(a string) {
		w.mtx.Lock()
		w.auto = a
		w.mtx.Unlock()
	}
	// waitDone waits until the Send call has returned and reports whether it returned success
	waitDone := func(sr *sendRes, d time.Duration) bool {
		deadline := time.Now().Add(d)
		for {
			rmtx.Lock()
			done, err := sr.done, sr.err
			rmtx.Unlock()
			if done || time.Now().After(deadline) {
				return done && err == nil
			}
			time.Sleep(100 * time.Microsecond)
		}
	}
	// startSendCtx: a Send whose caller the scenario cancels itself
	startSendCtx := func(sctx context.Context) *sendRes {
		sr := &sendRes{}
		rmtx.Lock()
		sends = append(sends, sr)
		rmtx.Unlock()
		payload := e.rng.Bytes(4)
		apps.Add(1)
		go func() {
			defer apps.Done()
			m, err := ref.Send(sctx, payload)
			rmtx.Lock()
			sr.err, sr.done = err, true
			if m != nil {
				sr.seqno = m.GetSeqno()
			}
			rmtx.Unlock()
		}()
		return sr
	}
	// newOnWire waits for a SendMsg request on the wire that was not there at position `from`
	newOnWire := func(from int, d time.Duration) uint64 {
		deadline := time.Now().Add(d)
		for {
			w.mtx.Lock()
			for i := from; i < len(w.wire); i++ {
				if w.wire[i].kind == "send" {
					q := w.wire[i].seqno
					w.mtx.Unlock()
					return q
				}
			}
			w.mtx.Unlock()
			if time.Now().After(deadline) {
				return 0
			}
			time.Sleep(50 * time.Microsecond)
		}
	}
	wireLen := func() int {
		w.mtx.Lock()
		defer w.mtx.Unlock()
		return len(w.wire)
	}
	// mustRecvs: messages a working relay delivered in an open, undisturbed session with a live
	// Recv waiting: they must be handed over
	var mustRecvs []uint64
	var harnessErr string
	var sentinelKey, sentinelMon string // a sentinel's own (model independent) expectation that failed
	sentinel := func(k, m string) {
		if sentinelMon == "" {
			sentinelKey, sentinelMon = k, m
		}
	}
	const hookWait = 15 * time.Second
	expectHook := func(from int, ev, want string) {
		if !w.waitHook(from, hookWait, hookIs(ev, want)) && harnessErr == "" {
			harnessErr = fmt.Sprintf("the client did not process %s(%s) within %v", ev, want, hookWait)
		}
	}
	// disturb delivers a response to the client while one of its writes is parked and waits until
	// the client has processed it; it returns the description of what was done
	disturb := func(what string, q uint64) string {
		from := w.mark()
		switch what {
		case "opened":
			ep := open()
			expectHook(from, "opened", fmt.Sprint(ep))
			return fmt.Sprintf("relay delivers Opened(%d), client processed it", ep)
		case "closed-opened":
			w.respond(w.cur(), &signaling.SessionResponse{Body: &signaling.SessionResponse_Closed{Closed: true}})
			expectHook(from, "close", "")
			w.quiesce(300 * time.Microsecond)
			from = w.mark()
			ep := open()
			expectHook(from, "opened", fmt.Sprint(ep))
			w.quiesce(300 * time.Microsecond) // a waiting Send re-installs its message
			return fmt.Sprintf("relay delivers Closed then Opened(%d), client processed both", ep)
		case "ack":
			w.respond(w.cur(), &signaling.SessionResponse{Body: &signaling.SessionResponse_AckMsg{AckMsg: q}})
			expectHook(from, "ackmsg", fmt.Sprint(q))
			w.quiesce(300 * time.Microsecond)
			return fmt.Sprintf("relay delivers Ack(%d), client processed it", q)
		case "clear":
			w.respond(w.cur(), &signaling.SessionResponse{Body: &signaling.SessionResponse_ClearMsg{ClearMsg: q}})
			expectHook(from, "clearmsg", fmt.Sprint(q))
			return fmt.Sprintf("relay delivers Clear(%d), client processed it", q)
		}
		return "nothing"
	}
	// serveProbe: after a disturbance the relay is honest again: a Send must complete and a
	// delivered message must reach a waiting Recv
	serveProbe := func() bool {
		setAuto("ack")
		sr := startSendOpt(10*time.Second, true)
		ok := waitDone(sr, 12*time.Second)
		from := w.mark()
		inject("authentic") // replaces whatever was pending
		mustRecvs = append(mustRecvs, nextInj)
		expectHook(from, "recvmsg", fmt.Sprint(nextInj))
		res := startRecvMode("live", 5*time.Second)
		select {
		case <-res:
		case <-time.After(6 * time.Second):
		}
		w.quiesce(300 * time.Microsecond)
		return ok
	}
	// freshStream waits until the client has replaced the stream `old` (after a failure / a rejected message)
	freshStream := func(old *relayStream) {
		deadline := time.Now().Add(3 * time.Second)
		for w.cur() == old && time.Now().Before(deadline) {
			time.Sleep(100 * time.Microsecond)
		}
	}
	progress := false
	switch kind {
	case "honest":
		progress = true
		w.auto = "ack"
		open()
		for i := 0; i < n; i++ {
			startSendOpt(10*time.Second, true)
			startRecv(400 * time.Millisecond)
			if e.rng.Intn(2) == 0 {
				anyRecv(400 * time.Millisecond)
			}
			inject("authentic")
			jitter()
		}
		act("honest relay: open, ack every send, deliver authentic messages (Recv callers of all kinds)")
	case "seqno-reuse":
		// C21 sentinel (wave 5): the outer sequence number of a message is NOT unique over the life
		// of this client's tracker: the remote sender's counter restarts at 1 whenever ITS tracker is
		// re-created (it released its reference and took a new one, or its process restarted) while
		// this client keeps its reference. Conversation after conversation the honest relay presents
		// NEW authentic messages under sequence numbers this client has seen, handed to the
		// application and acknowledged before - after Closed+Opened, after a bare Opened (the
		// partner re-attached), after a failure of this client's own stream, and (n odd) also within
		// one epoch. Every one of them must be handed to a waiting Recv (in order), and only then
		// acknowledged (the wire monitors below); "acknowledged" must never mean "recognised".
		progress = true
		forceRef = true
		w.auto = "ack"
		open()
		w.quiesce(300 * time.Microsecond)
		lens := []int{1, 1, 2, 3, 2, 1}
		okAll := true
		for c := 0; c < len(lens) && okAll; c++ {
			if c > 0 {
				switch (c + n) % 4 {
				case 0:
					act(disturb("closed-opened", 0))
				case 1:
					act(disturb("opened", 0))
				case 2:
					old := w.cur()
					old.failNow()
					freshStream(old)
					from := w.mark()
					ep := open()
					expectHook(from, "opened", fmt.Sprint(ep))
					act(fmt.Sprintf("the client's stream fails, it re-connects, relay delivers Opened(%d)", ep))
				case 3:
					act("same epoch")
				}
				w.quiesce(300 * time.Microsecond)
			}
			for i := 1; i <= lens[c] && okAll; i++ {
				from := w.mark()
				forceSeq = uint64(100 + i)
				inject("authentic")
				w.mtx.Lock()
				want := w.inj[uint64(100+i)]
				w.mtx.Unlock()
				expectHook(from, "recvmsg", fmt.Sprint(100+i))
				res := startRecvMode("live", 5*time.Second)
				got := false
				select {
				case got = <-res:
				case <-time.After(6 * time.Second):
				}
				rmtx.Lock()
				handed := got && len(received) > 0 && string(received[len(received)-1].GetSignedMsg().GetData()) == want.payload
				rmtx.Unlock()
				if !handed {
					okAll = false
					sentinel("sigcli.progress-recv:"+kind, fmt.Sprintf("conversation %d: a NEW authentic message of the remote peer (message id %d) delivered by a working relay under sequence number %d - which an earlier, different message had carried (the sender's counter restarted) - was not handed to the application although a Recv was waiting (Recv returned a message: %v)", c+1, want.mid, 100+i, got))
				}
				w.quiesce(300 * time.Microsecond) // the client acknowledges it
			}
			act(fmt.Sprintf("relay delivers %d new authentic message(s) under sequence numbers 101.., a live Recv takes each", lens[c]))
		}
		startSendOpt(10*time.Second, true) // and the other direction still works
	case "reopen-in-flight":
		// F11 sentinel: Opened(e+1) arrives while Send's message is pending; then it is acked
		progress = true
		w.auto = "reopen-then-ack"
		open()
		startSendOpt(10*time.Second, true)
		act("open; send; relay re-opens in flight; then acks the re-transmission")
		w.quiesce(500 * time.Microsecond)
		startSendOpt(10*time.Second, true) // a later send must not be blocked
		act("second send")
	case "stream-failure-in-flight":
		// C23: the SENDER's stream fails while its message is in flight (transmitted, not acked); the
		// client re-connects, the session re-opens, and the pending Send must still complete
		progress = true
		w.auto = ""
		open()
		for i := 0; i < n; i++ {
			sr := startSendOpt(10*time.Second, true)
			// wait until the message is on the wire, then kill the stream
			for k := 0; k < 100000; k++ {
				w.mtx.Lock()
				on := false
				for _, x := range w.wire {
					if x.kind == "send" && x.stream == len(w.streams)-1 {
						on = true
					}
				}
				w.mtx.Unlock()
				if on {
					break
				}
				time.Sleep(100 * time.Microsecond)
			}
			old := w.cur()
			old.failNow()
			freshStream(old)
			w.mtx.Lock()
			w.auto = "ack"
			w.mtx.Unlock()
			open()
			for k := 0; k < 100000; k++ {
				rmtx.Lock()
				d := sr.done
				rmtx.Unlock()
				if d {
					break
				}
				time.Sleep(100 * time.Microsecond)
			}
			w.mtx.Lock()
			w.auto = ""
			w.mtx.Unlock()
		}
		act("rounds of: Send; once the message is on the wire the stream fails; client re-connects; relay re-opens and acks the re-transmission")
	case "cancel-then-send":
		// C23: a Send whose caller gives up after 1 ms (never acknowledged) followed by a Send that
		// the relay acknowledges: the client must wake up, withdraw the first and complete the second
		progress = true
		w.auto = ""
		open()
		for i := 0; i < n; i++ {
			w.mtx.Lock()
			w.auto = ""
			w.mtx.Unlock()
			startSendOpt(time.Millisecond, false)
			if e.rng.Intn(2) == 0 {
				time.Sleep(time.Duration(e.rng.Intn(3000)) * time.Microsecond)
			} else {
				w.quiesce(300 * time.Microsecond)
			}
			w.mtx.Lock()
			w.auto = "ack"
			w.mtx.Unlock()
			startSendOpt(10*time.Second, true)
			w.quiesce(300 * time.Microsecond)
		}
		act("rounds of: Send with a 1 ms deadline that the relay never acknowledges; then a Send that it does acknowledge")
	case "cancel-after-ack":
		// the ack for m arrives while the caller of Send(m) is about to be cancelled: whichever
		// way the race goes, a LATER Send must still wait for its own ack
		w.auto = ""
		open()
		w.quiesce(300 * time.Microsecond) // the tracker is open before the first Send looks at it
		for i := 0; i < n; i++ {
			inner, icancel := context.WithCancel(ctx)
			pc := &parkCtx{Context: inner, armed: true, parked: make(chan struct{}), gate: make(chan struct{})}
			sr := &sendRes{}
			rmtx.Lock()
			sends = append(sends, sr)
			rmtx.Unlock()
			before := map[uint64]bool{}
			w.mtx.Lock()
			for x := range w.sent {
				before[x] = true
			}
			w.mtx.Unlock()
			fin := make(chan struct{})
			payload := e.rng.Bytes(4)
			apps.Add(1)
			go func() {
				defer apps.Done()
				m, err := ref.Send(pc, payload)
				rmtx.Lock()
				sr.err, sr.done = err, true
				if m != nil {
					sr.seqno = m.GetSeqno()
				}
				rmtx.Unlock()
				close(fin)
			}()
			select {
			case <-pc.parked:
			case <-time.After(3 * time.Second):
			}
			// the tracker transmits m on its own; ack it while the caller is parked
			var q uint64
			for t0 := time.Now(); q == 0 && time.Since(t0) < time.Second; {
				w.mtx.Lock()
				for x := range w.sent {
					if !before[x] {
						q = x
					}
				}
				w.mtx.Unlock()
				if q == 0 {
					time.Sleep(100 * time.Microsecond)
				}
			}
			if q != 0 {
				w.respond(w.cur(), &signaling.SessionResponse{Body: &signaling.SessionResponse_AckMsg{AckMsg: q}})
			}
			w.quiesce(300 * time.Microsecond)
			icancel()
			close(pc.gate)
			select {
			case <-fin:
			case <-time.After(3 * time.Second):
			}
			w.quiesce(300 * time.Microsecond)
			// probe: never acknowledged by the relay, so it must not report success
			startSend(15 * time.Millisecond)
			time.Sleep(20 * time.Millisecond)
			w.quiesce(300 * time.Microsecond)
		}
		act("rounds of: Send(m) parked before its select; relay acks m; caller cancelled; then a probe Send that the relay never acks")
	case "recv-cancelled":
		// C21: Recv callers whose context is done. A message is pending and the application calls Recv
		// with an already cancelled / expired context; a waiting caller is cancelled concurrently with
		// the delivery; applications poll with deadlines of a few microseconds. Whatever a call does, a
		// message may be marked processed (= acknowledged to the sender) only by a call that RETURNS it.
		progress = true
		setAuto("ack")
		open()
		w.quiesce(300 * time.Microsecond)
		for i := 0; i < n; i++ {
			modes := []string{"pending|cancelled", "pending|expired", "concurrent-cancel", "poll-short", "poll-cancelled"}
			mode := modes[i%len(modes)]
			if i >= len(modes) {
				mode = modes[e.rng.Intn(len(modes))]
			}
			switch mode {
			case "pending|cancelled", "pending|expired":
				from := w.mark()
				inject("authentic")
				q := nextInj
				expectHook(from, "recvmsg", fmt.Sprint(q))
				if e.rng.Intn(2) == 0 {
					startSendOpt(10*time.Second, true)
				}
				cm := strings.TrimPrefix(mode, "pending|")
				got := <-startRecvMode(cm, 0)
				again := <-startRecvMode(cm, 0) // nothing pending any more: this one returns Canceled
				act(fmt.Sprintf("relay delivers message %d, client accepted it (pending); application calls Recv with an already %s context (returned the message: %v); calls it again (returned a message: %v)", q, cm, got, again))
			case "concurrent-cancel":
				rctx, rc := context.WithCancel(ctx)
				rmtx.Lock()
				recvCancels = append(recvCancels, rc)
				rmtx.Unlock()
				viaSession := e.rng.Intn(2) == 0
				res := make(chan bool, 1)
				apps.Add(1)
				recvWG.Add(1)
				go func() {
					defer apps.Done()
					defer recvWG.Done()
					res <- recvCall(rctx, viaSession)
				}()
				w.quiesce(300 * time.Microsecond) // the caller waits
				d1 := time.Duration(e.rng.Intn(80)) * time.Microsecond
				d2 := time.Duration(e.rng.Intn(80)) * time.Microsecond
				var both sync.WaitGroup
				both.Add(1)
				go func() { defer both.Done(); time.Sleep(d1); rc() }()
				time.Sleep(d2)
				inject("authentic")
				q := nextInj
				both.Wait()
				got := <-res
				act(fmt.Sprintf("a Recv is waiting; its context is cancelled (after %v) while the relay delivers message %d (after %v): the call returned the message: %v", d1, q, d2, got))
				w.quiesce(300 * time.Microsecond)
				if !got {
					// the message is still pending: a later caller gets it
					<-startRecvMode("live", 5*time.Second)
				}
			case "poll-short", "poll-cancelled":
				pm := "short"
				if mode == "poll-cancelled" {
					pm = []string{"cancelled", "expired"}[e.rng.Intn(2)]
				}
				k := 30 + e.rng.Intn(30)
				res := startPoller(pm, k)
				nm := 2 + e.rng.Intn(3)
				for j := 0; j < nm; j++ {
					time.Sleep(time.Duration(e.rng.Intn(400)) * time.Microsecond)
					inject("authentic")
					if e.rng.Intn(3) == 0 {
						startSendOpt(10*time.Second, true)
					}
				}
				got := <-res
				act(fmt.Sprintf("application polls Recv %d times with %s contexts while the relay delivers %d messages: %d returned", k, pm, nm, got))
			}
			w.quiesce(300 * time.Microsecond)
		}
	case "reopen-during-write":
		// C23: the client's SendMsg write is parked (the main loop has picked the message and is
		// inside the stream's Send); the relay announces a re-open (or Closed + re-open, or the ack)
		// and waits until the client has processed it; the write is released; the honest relay drops
		// the stale-epoch request. The pending Send must complete (re-transmission in the new epoch).
		progress = true
		setAuto("ack")
		open()
		w.quiesce(300 * time.Microsecond)
		for i := 0; i < n; i++ {
			kinds := []string{"opened", "closed-opened", "ack"}
			what := kinds[i%len(kinds)]
			if i >= len(kinds) {
				what = kinds[e.rng.Intn(len(kinds))]
			}
			g := w.armGate("send")
			sr := startSendOpt(10*time.Second, true)
			if !g.waitHeld(hookWait) {
				w.disarm(g)
				if harnessErr == "" {
					harnessErr = "the client never started to write the SendMsg request"
				}
				break
			}
			q := g.req.GetSendMsg().GetSeqno()
			ep0 := g.req.GetSessionSeqno()
			did := disturb(what, q)
			g.open()
			ok := waitDone(sr, 12*time.Second)
			act(fmt.Sprintf("Send(%d): the client's SendMsg write (epoch %d) is held; %s; the write is released (honest relay: stale-epoch requests are dropped, current ones acknowledged); Send completed: %v", q, ep0, did, ok))
			w.quiesce(300 * time.Microsecond)
			if !ok {
				break
			}
		}
		if harnessErr == "" {
			startSendOpt(10*time.Second, true) // a later send must not be blocked
			act("one more Send")
		}
	case "gated-writes":
		// the same for every request kind and both directions: a write of kind send / ack / clear is
		// parked while the relay delivers Opened / Closed+Opened / Ack / Clear (each awaited by hook
		// event), or a response is withheld until the client has done something (cancelled a Send);
		// afterwards the relay is honest and a probe Send and a probe delivery must complete
		progress = true
		open()
		w.quiesce(300 * time.Microsecond)
		rounds := []string{"send|opened", "ack|opened", "clear|opened", "resp|opened-after-send", "ack|closed-opened", "clear|ack", "ack|cancel+ack", "resp|ack-after-clear",
			"send|closed-opened", "ack|clear", "clear|closed-opened", "send|ack", "resp|closed-after-send"}
		for i := 0; i < n; i++ {
			round := rounds[i%len(rounds)]
			if i >= len(rounds) {
				round = rounds[e.rng.Intn(len(rounds))]
			}
			parts := strings.SplitN(round, "|", 2)
			kind, what := parts[0], parts[1]
			bad := false
			switch kind {
			case "send":
				setAuto("ack")
				g := w.armGate("send")
				sr := startSendOpt(10*time.Second, true)
				if !g.waitHeld(hookWait) {
					w.disarm(g)
					bad = true
					break
				}
				q := g.req.GetSendMsg().GetSeqno()
				did := disturb(what, q)
				g.open()
				ok := waitDone(sr, 12*time.Second)
				act(fmt.Sprintf("Send(%d): SendMsg write held; %s; write released; Send completed: %v", q, did, ok))
				bad = !ok
			case "ack":
				// the client acknowledges a delivered message: the AckMsg write is parked
				setAuto("")
				var sr *sendRes
				var sc context.CancelFunc
				var sq uint64
				if what == "cancel+ack" {
					// a Send is in flight (transmitted, not acknowledged) before the ack write is parked
					var sctx context.Context
					sctx, sc = context.WithCancel(ctx)
					from := wireLen()
					sr = startSendCtx(sctx)
					sq = newOnWire(from, hookWait)
				}
				g := w.armGate("ack")
				from := w.mark()
				inject("authentic")
				q := nextInj
				expectHook(from, "recvmsg", fmt.Sprint(q))
				res := startRecvMode("live", 5*time.Second)
				if !g.waitHeld(hookWait) {
					w.disarm(g)
					if sc != nil {
						sc()
					}
					bad = true
					break
				}
				<-res
				var did string
				if what == "cancel+ack" {
					// the caller gives up while the main loop is parked in the ack write; then the relay
					// acknowledges the withdrawn message before the client could send its clear
					from := w.mark()
					sc()
					expectHook(from, "sendcancel", fmt.Sprint(sq))
					waitDone(sr, hookWait)
					did = fmt.Sprintf("the caller of the in-flight Send(%d) gives up; ", sq) + disturb("ack", sq)
				} else {
					did = disturb(what, q)
				}
				g.open()
				if sc != nil {
					sc()
				}
				act(fmt.Sprintf("relay delivers message %d, application receives it; the client's AckMsg write is held; %s; write released", q, did))
			case "resp":
				// the other direction: a response of the relay is withheld until the client has got to a
				// chosen point (observed on the wire / by hook event)
				switch what {
				case "opened-after-send", "closed-after-send":
					// the relay has the message (epoch n) and, before acknowledging it, announces a re-open
					setAuto("skip-one")
					from := wireLen()
					sr := startSendOpt(10*time.Second, true)
					q := newOnWire(from, hookWait)
					did := disturb(map[string]string{"opened-after-send": "opened", "closed-after-send": "closed-opened"}[what], q)
					ok := waitDone(sr, 12*time.Second)
					act(fmt.Sprintf("Send(%d) is on the wire, not acknowledged; %s; the relay serves the re-transmission; Send completed: %v", q, did, ok))
					bad = q == 0 || !ok
				case "ack-after-clear":
					// the acknowledgement of a withdrawn message arrives after the client's ClearMsg
					setAuto("")
					sctx, sc := context.WithCancel(ctx)
					from := wireLen()
					sr := startSendCtx(sctx)
					q := newOnWire(from, hookWait)
					mk := w.mark()
					sc()
					expectHook(mk, "sendcancel", fmt.Sprint(q))
					waitDone(sr, hookWait)
					if !w.waitHook(mk, hookWait, func(l string) bool {
						return strings.HasPrefix(l, "ev=txloop ") && kvOf(l, "cancelmsg") == fmt.Sprint(q)
					}) {
						bad = true
					}
					w.quiesce(300 * time.Microsecond)
					did := disturb("ack", q)
					act(fmt.Sprintf("Send(%d) transmitted, caller gives up, the client sent its ClearMsg; only then: %s", q, did))
				}
			case "clear":
				// a Send is transmitted, never acknowledged, its caller gives up: the ClearMsg write is parked
				setAuto("")
				sctx, sc := context.WithCancel(ctx)
				from := wireLen()
				sr := startSendCtx(sctx)
				q := newOnWire(from, hookWait)
				g := w.armGate("clear")
				sc()
				if q == 0 || !g.waitHeld(hookWait) {
					w.disarm(g)
					bad = true
					break
				}
				waitDone(sr, hookWait)
				did := disturb(what, q)
				g.open()
				act(fmt.Sprintf("Send(%d) transmitted, never acknowledged, caller gives up; the client's ClearMsg write is held; %s; write released", q, did))
			}
			w.quiesce(300 * time.Microsecond)
			if bad {
				if harnessErr == "" {
					harnessErr = "gated round " + round + " did not reach its gate or its Send did not complete"
				}
				act("round " + round + " incomplete")
				break
			}
			if !serveProbe() {
				act("the probe Send after round " + round + " did not complete")
				break
			}
		}
	case "clear-other":
		// C21 (client side of "acks and clears only affect the message they name"): a delivered
		// message survives withdrawals and acknowledgements naming OTHER messages (and an
		// acknowledgement naming itself: acks concern outgoing messages); a Send in flight is not
		// completed by acknowledgements of other messages nor disturbed by a withdrawal naming it
		// (withdrawals concern incoming messages) and completes on its own acknowledgement.
		progress = true
		setAuto("")
		open()
		w.quiesce(300 * time.Microsecond)
		for i := 0; i < n; i++ {
			from := w.mark()
			inject("authentic")
			q := nextInj
			expectHook(from, "recvmsg", fmt.Sprint(q))
			var did []string
			for _, k := range []uint64{q + 1, q - 1, uint64(1 + e.rng.Intn(4))} {
				did = append(did, disturb("clear", k))
			}
			did = append(did, disturb("ack", q))
			w.quiesce(300 * time.Microsecond)
			mustRecvs = append(mustRecvs, q)
			res := startRecvMode("live", 5*time.Second)
			select {
			case <-res:
			case <-time.After(6 * time.Second):
			}
			act(fmt.Sprintf("relay delivers message %d, client accepted it; %s; then the application calls Recv", q, strings.Join(did, "; ")))
			// the sender's half
			wl := wireLen()
			sr := startSendOpt(10*time.Second, true)
			sq := newOnWire(wl, hookWait)
			if sq == 0 {
				harnessErr = "the client never transmitted its message"
				break
			}
			did = nil
			for _, k := range []uint64{sq + 1, sq + 2} {
				did = append(did, disturb("ack", k))
			}
			if sq > 1 {
				did = append(did, disturb("ack", sq-1))
			}
			did = append(did, disturb("clear", sq))
			w.quiesce(300 * time.Microsecond)
			rmtx.Lock()
			early := sr.done
			rmtx.Unlock()
			if early {
				sentinel("sigcli.ackclear:"+kind, fmt.Sprintf("Send of message %d returned although the relay had only acknowledged OTHER messages (%s)", sq, strings.Join(did, "; ")))
			}
			did = append(did, disturb("ack", sq))
			ok := waitDone(sr, 12*time.Second)
			act(fmt.Sprintf("Send(%d) is on the wire; %s; Send completed: %v", sq, strings.Join(did, "; "), ok))
			w.quiesce(300 * time.Microsecond)
		}
	case "open-failure":
		// C23 "client stream failure and retry", failure to OPEN: the Session RPC cannot be opened
		// (k times), then the write of the Init request fails; the client must keep retrying; once the
		// relay is reachable the session opens and sends / deliveries are served
		progress = true
		setAuto("ack")
		gaveUp := func(when string) {
			w.mtx.Lock()
			fs, fi := w.failed["session"], w.failed["init"]
			w.mtx.Unlock()
			sentinel("sigcli.progress:"+kind, fmt.Sprintf("%s: opening the Session RPC had failed %d times and the Init write %d times; the relay is reachable again but the client has no session stream (it stopped retrying)", when, fs, fi))
		}
		if w.cur() == nil {
			gaveUp("at start")
			break
		}
		open()
		for i := 0; i < n; i++ {
			if w.cur() == nil {
				break
			}
			startSendOpt(10*time.Second, true)
			from := w.mark()
			inject("authentic")
			mustRecvs = append(mustRecvs, nextInj)
			expectHook(from, "recvmsg", fmt.Sprint(nextInj))
			select {
			case <-startRecvMode("live", 5*time.Second):
			case <-time.After(6 * time.Second):
			}
			w.quiesce(300 * time.Microsecond)
			if i == 0 {
				// and again in mid-session: the stream fails, re-opening fails twice, the Init write once
				w.mtx.Lock()
				w.fails["session"], w.fails["init"] = 2, 1
				w.mtx.Unlock()
				old := w.cur()
				old.failNow()
				freshStream(old)
				for t0 := time.Now(); time.Since(t0) < 10*time.Second; time.Sleep(200 * time.Microsecond) {
					w.mtx.Lock()
					left := w.fails["session"] + w.fails["init"]
					w.mtx.Unlock()
					if left == 0 && w.cur() != nil && w.cur() != old {
						break
					}
				}
				if c := w.cur(); c == nil || c == old {
					gaveUp("after a stream failure in mid-session")
					break
				}
				open()
			}
		}
		w.mtx.Lock()
		act(fmt.Sprintf("opening the Session RPC failed %d times and the Init write %d times (at start and after a stream failure in mid-session); then the relay is honest: sends and deliveries", w.failed["session"], w.failed["init"]))
		if (w.failed["session"] < 3 || w.failed["init"] < 2) && sentinelMon == "" {
			harnessErr = "the scripted open failures were not all consumed"
		}
		w.mtx.Unlock()
	case "two-sessions":
		// C19 "sender == session peer" with two sessions of one client (B and C): a message signed by
		// C presented on the session with B, and one signed by B presented on the session with C, must
		// be refused; each session hands over only its own peer's messages; the attribution accessors
		// name the right peers.
		w.auto = ""
		open()
		for i := 0; i < 100000 && w.curOf(e.kC.IDStr) == nil; i++ {
			time.Sleep(100 * time.Microsecond)
		}
		sC := w.curOf(e.kC.IDStr)
		if sC == nil {
			harnessErr = "the session with C was never opened"
			break
		}
		w.respond(sC, &signaling.SessionResponse{Body: &signaling.SessionResponse_Opened{Opened: 1}})
		if ref.GetRemotePeerID() != e.kB.ID || ref.GetLocalPeerID() != e.kA.ID || sess.GetRemotePeerID() != e.kB.ID || sess.GetLocalPeerID() != e.kA.ID ||
			refC.GetRemotePeerID() != e.kC.ID || refC.GetLocalPeerID() != e.kA.ID {
			sentinel("sigcli.attribution:"+kind, fmt.Sprintf("the attribution accessors of the sessions name the wrong peers: session with B says remote=%s local=%s, session with C says remote=%s local=%s (A=%s B=%s C=%s)",
				ref.GetRemotePeerID(), ref.GetLocalPeerID(), refC.GetRemotePeerID(), refC.GetLocalPeerID(), e.kA.IDStr, e.kB.IDStr, e.kC.IDStr))
		}
		var cGot []*signaling.SessionMsg
		var cWG sync.WaitGroup
		recvC := func(d time.Duration) {
			cWG.Add(1)
			apps.Add(1)
			go func() {
				defer apps.Done()
				defer cWG.Done()
				rctx, rc := context.WithTimeout(ctx, d)
				defer rc()
				if m, err := refC.Recv(rctx); err == nil && m != nil {
					rmtx.Lock()
					cGot = append(cGot, m)
					rmtx.Unlock()
				}
			}()
		}
		cq := uint64(5000)
		var cAuthentic []uint64
		for i := 0; i < n; i++ {
			cq++
			payload := append(e.rng.Bytes(6), byte(cq), byte(cq>>8))
			switch e.rng.Intn(3) {
			case 0: // C's own message on C's session
				cAuthentic = append(cAuthentic, cq)
				w.respond(w.curOf(e.kC.IDStr), &signaling.SessionResponse{Body: &signaling.SessionResponse_RecvMsg{RecvMsg: e.mkMsg(e.kC, cq, payload)}})
				recvC(300 * time.Millisecond)
				act("relay delivers an authentic message of C on the session with C")
			case 1: // B's message presented on C's session: re-attribution
				old := w.curOf(e.kC.IDStr)
				w.respond(old, &signaling.SessionResponse{Body: &signaling.SessionResponse_RecvMsg{RecvMsg: e.mkMsg(e.kB, cq, payload)}})
				recvC(100 * time.Millisecond)
				w.quiesce(300 * time.Microsecond)
				for t0 := time.Now(); w.curOf(e.kC.IDStr) == old && time.Since(t0) < 3*time.Second; {
					time.Sleep(100 * time.Microsecond)
				}
				w.respond(w.curOf(e.kC.IDStr), &signaling.SessionResponse{Body: &signaling.SessionResponse_Opened{Opened: uint64(2 + i)}})
				act("relay presents an authentic message of B on the session with C")
			case 2: // C's message presented on B's session
				old := w.cur()
				startRecv(100 * time.Millisecond)
				inject("third-party")
				w.quiesce(300 * time.Microsecond)
				freshStream(old)
				open()
				act("relay presents an authentic message of C on the session with B")
			}
			if e.rng.Intn(2) == 0 {
				inject("authentic")
				startRecv(300 * time.Millisecond)
			}
			w.quiesce(300 * time.Microsecond)
		}
		cWG.Wait()
		rmtx.Lock()
		for _, m := range cGot {
			okq := false
			for _, x := range cAuthentic {
				okq = okq || x == m.GetSeqno()
			}
			if !sigoracle.AuthenticFrom(e.kC, m) || !okq {
				sentinel("sigcli.recv:forged", fmt.Sprintf("the session with C handed the application a message (seqno %d, sender field %s) that is not an authentic message of C delivered on that session", m.GetSeqno(), sigoracle.From(m)))
			}
		}
		rmtx.Unlock()
	case "listen-handler":
		// C24 (client side): the Listen RPC feeds the application's handler: every SetPeer / ClearPeer
		// with a peer id is handed over in order, a stream failure resets the list, the client
		// re-opens the Listen RPC (also when opening it fails) and follows the new stream
		var want []string
		ids := []string{e.kB.IDStr, e.kC.IDStr, e.kA.IDStr}
		for round := 0; round < n; round++ {
			var l *lstream
			for t0 := time.Now(); time.Since(t0) < 10*time.Second; time.Sleep(200 * time.Microsecond) {
				if c := w.curListen(); c != nil && (round == 0 || len(w.lstreamsSnapshot()) > round) {
					l = c
					break
				}
			}
			if l == nil {
				harnessErr = "the client did not (re-)open the Listen RPC"
				break
			}
			k := 2 + e.rng.Intn(5)
			for j := 0; j < k; j++ {
				id := ids[e.rng.Intn(len(ids))]
				switch e.rng.Intn(5) {
				case 0:
					l.respCh <- &signaling.ListenResponse{Body: &signaling.ListenResponse_ClearPeer{ClearPeer: id}}
					want = append(want, "del:"+id)
				case 1: // empty ids and empty responses carry nothing
					l.respCh <- &signaling.ListenResponse{Body: &signaling.ListenResponse_SetPeer{SetPeer: ""}}
					l.respCh <- &signaling.ListenResponse{Body: &signaling.ListenResponse_ClearPeer{ClearPeer: ""}}
					l.respCh <- &signaling.ListenResponse{}
				default:
					l.respCh <- &signaling.ListenResponse{Body: &signaling.ListenResponse_SetPeer{SetPeer: id}}
					want = append(want, "add:"+id)
				}
			}
			close(l.fail)
			want = append(want, "reset")
			act(fmt.Sprintf("listen stream %d: %d announcements / withdrawals, then the stream fails", round, k))
		}
		// wait (bounded, by observation) until the handler has seen everything
		for t0 := time.Now(); time.Since(t0) < 10*time.Second; time.Sleep(200 * time.Microsecond) {
			lmtx.Lock()
			nn := len(lcalls)
			lmtx.Unlock()
			if nn >= len(want) {
				break
			}
		}
		w.quiesce(300 * time.Microsecond)
		lmtx.Lock()
		got := append([]string(nil), lcalls...)
		lmtx.Unlock()
		if len(got) > len(want) {
			got = got[:len(want)+1]
		}
		short := func(l []string) string {
			var o []string
			for _, x := range l {
				for i, k := range []*sigoracle.Key{e.kA, e.kB, e.kC} {
					x = strings.Replace(x, k.IDStr, string(rune('A'+i)), 1)
				}
				o = append(o, x)
			}
			return strings.Join(o, " ")
		}
		if short(got) != short(want) && harnessErr == "" {
			sentinel("sigcli.listen:"+kind, fmt.Sprintf("the listen handler was called with [%s] but the relay's Listen streams carried [%s] (every announcement / withdrawal with a peer id, in order; a reset when a stream ends)", short(got), short(want)))
		}
		w.mtx.Lock()
		if w.failed["listen"] == 0 {
			harnessErr = "opening the Listen RPC never failed"
		}
		w.mtx.Unlock()
	case "controller-sessions":
		// C24 (client side), the controller's handler of the Listen announcements
		// (Controller.handlePeerWantsSession + session trackers): the peers towards which the client
		// holds an automatically created session (a live Session stream naming that peer) must be
		// exactly announcements minus withdrawals, a reset withdraws all, an id that is no peer id
		// and the client's own id are ignored, repeated announcements are idempotent.
		kD := sigoracle.NewKey(e.rng.Bytes(32))
		ctl := signaling_rpc_client.VerifNewControllerWithClient(ctx, e.le, &signaling_rpc_client.Config{DisableListen: true}, cl)
		names := map[string]string{e.kC.IDStr: "C", kD.IDStr: "D", e.kA.IDStr: "A(self)", "not-a-peer-id": "garbage", "": "empty"}
		livePeers := func() string {
			var out []string
			for _, id := range []string{e.kC.IDStr, kD.IDStr, e.kA.IDStr} {
				w.mtx.Lock()
				live := false
				for _, r := range w.streams {
					if r.peer == id && r.ctx.Err() == nil {
						live = true
					}
				}
				w.mtx.Unlock()
				if live {
					out = append(out, names[id])
				}
			}
			return strings.Join(out, " ")
		}
		want := map[string]bool{}
		wantStr := func() string {
			var out []string
			for _, id := range []string{e.kC.IDStr, kD.IDStr} {
				if want[id] {
					out = append(out, names[id])
				}
			}
			return strings.Join(out, " ")
		}
		script := []string{"add C", "add D", "add C", "del C", "add garbage", "add A", "reset", "add D", "del C", "add C", "del D", "add empty", "reset"}
		for i := 0; i < n; i++ {
			script = append(script, []string{"add C", "add D", "del C", "del D", "reset", "add A", "add garbage"}[e.rng.Intn(7)])
		}
		ids := map[string]string{"C": e.kC.IDStr, "D": kD.IDStr, "A": e.kA.IDStr, "garbage": "not-a-peer-id", "empty": ""}
		for _, st := range script {
			f := strings.Fields(st)
			switch f[0] {
			case "add":
				ctl.VerifHandlePeerWantsSession(ctx, false, true, ids[f[1]])
				if f[1] == "C" || f[1] == "D" {
					want[ids[f[1]]] = true
				}
			case "del":
				ctl.VerifHandlePeerWantsSession(ctx, false, false, ids[f[1]])
				delete(want, ids[f[1]])
			case "reset":
				ctl.VerifHandlePeerWantsSession(ctx, true, false, "")
				want = map[string]bool{}
			}
			// settle: the trackers open / close their Session streams asynchronously
			for t0 := time.Now(); livePeers() != wantStr() && time.Since(t0) < 3*time.Second; {
				w.quiesce(300 * time.Microsecond)
			}
			w.quiesce(300 * time.Microsecond)
			if got := livePeers(); got != wantStr() {
				sentinel("sigcli.listen-sessions:"+kind, fmt.Sprintf("after the announcements / withdrawals [%s] the peers with an announced, not withdrawn session request are [%s] but the client holds automatically created sessions (live Session streams) towards [%s]", strings.Join(script[:1+indexOf(script, st)], "; "), wantStr(), got))
				break
			}
		}
		act("controller listen handler: " + strings.Join(script, "; "))
	case "altered-retransmission":
		// an authentic message is delivered; the relay then presents the same signature and
		// sender again with another payload (looks like the retransmission after a re-open)
		w.auto = ""
		open()
		for i := 0; i < n; i++ {
			inject("authentic")
			startRecv(300 * time.Millisecond)
			w.quiesce(300 * time.Microsecond)
			if i%2 == 1 {
				open()
			}
			old := w.cur()
			inject("altered-copy")
			startRecv(300 * time.Millisecond)
			w.quiesce(300 * time.Microsecond)
			freshStream(old)
			open()
		}
		act("rounds of: deliver authentic M; [re-open]; deliver M's signature and sender with another payload")
	case "forgery-classes":
		// C19 sentinel: with the session open and the application waiting in Recv, the relay delivers
		// one message of every forgery class (each must be refused: the session routine fails and
		// re-connects), with authentic messages (plain and with B's own key attached) in between
		w.auto = ""
		open()
		classes := append([]string(nil), forgeries...)
		classes = append(classes, "keyed-authentic", "authentic", "nil-recvmsg")
		e.rng.Shuffle(len(classes), func(i, j int) { classes[i], classes[j] = classes[j], classes[i] })
		inject("authentic")
		startRecv(300 * time.Millisecond)
		w.quiesce(300 * time.Microsecond)
		for _, c := range classes {
			old := w.cur()
			startRecv(40 * time.Millisecond)
			inject(c)
			w.quiesce(300 * time.Microsecond)
			act("inject " + c)
			if c != "keyed-authentic" && c != "authentic" && c != "nil-recvmsg" {
				freshStream(old)
				open()
			}
		}
		time.Sleep(45 * time.Millisecond)
	case "seqno-rewrite":
		// Known finding (format level): SessionMsg.seqno is outside the signature, so the relay can
		// re-present an authentic message of B under another sequence number and the client accepts it
		w.auto = ""
		forceRef = true
		open()
		inject("authentic")
		startRecv(300 * time.Millisecond)
		w.quiesce(300 * time.Microsecond)
		inject("seqno-rewritten")
		startRecv(300 * time.Millisecond)
		w.quiesce(300 * time.Microsecond)
		act("deliver authentic M; deliver M again with only the outer sequence number changed")
	case "replay":
		// Known finding (format level): a message B signed for delivery to ANOTHER peer (or in an
		// earlier session) carries no destination/session, so the relay can replay it to A.
		w.auto = ""
		open()
		startRecv(500 * time.Millisecond)
		inject("authentic-for-other-peer")
		act("relay replays to A a message that B submitted for delivery to peer C")
	case "malicious":
		w.auto = ""
		open()
		for i := 0; i < n; i++ {
			switch e.rng.Intn(14) {
			case 0:
				inject("third-party")
				act("inject third-party")
			case 1:
				inject("tampered")
				act("inject tampered")
			case 2:
				inject("claimed-sender")
				act("inject claimed-sender")
			case 3:
				inject("self")
				act("inject self-signed")
			case 4:
				inject("authentic")
				act("inject authentic")
			case 5:
				if e.rng.Intn(2) == 0 {
					inject("authentic")
					act("inject authentic")
				} else {
					inject("altered-copy")
					act("inject altered copy of the last authentic message")
				}
			case 6:
				k := uint64(1 + e.rng.Intn(4))
				w.respond(w.cur(), &signaling.SessionResponse{Body: &signaling.SessionResponse_AckMsg{AckMsg: k}})
				act(fmt.Sprintf("unsolicited ack %d", k))
			case 7:
				k := uint64(100 + e.rng.Intn(6))
				w.respond(w.cur(), &signaling.SessionResponse{Body: &signaling.SessionResponse_ClearMsg{ClearMsg: k}})
				act(fmt.Sprintf("clear %d", k))
			case 8:
				if e.rng.Intn(2) == 0 {
					open()
					act("re-open")
				} else {
					w.respond(w.cur(), &signaling.SessionResponse{Body: &signaling.SessionResponse_Closed{Closed: true}})
					act("closed")
				}
			case 9:
				startSend(time.Duration(1+e.rng.Intn(5)) * time.Millisecond)
				act("send (short deadline)")
			case 10:
				act("recv (" + anyRecv(300*time.Millisecond) + " caller)")
			case 11:
				if r := w.cur(); r != nil && e.rng.Intn(3) == 0 {
					r.failNow()
					act("stream failure")
					time.Sleep(3 * time.Millisecond)
					open()
				}
			case 12:
				classes := append(append([]string(nil), forgeries...), "keyed-authentic", "nil-recvmsg")
				c := classes[e.rng.Intn(len(classes))]
				inject(c)
				act("inject " + c)
			case 13:
				open()
				inject("authentic")
				startRecv(300 * time.Millisecond)
				act("re-open; inject authentic; recv")
			}
			jitter()
		}
	}
	w.quiesce(2 * time.Millisecond)
	// let pending short-deadline sends expire
	time.Sleep(8 * time.Millisecond)
	w.quiesce(2 * time.Millisecond)
	if progress {
		// progress with a working relay: every send the relay serves completes
		deadline := time.Now().Add(30 * time.Second)
		for time.Now().Before(deadline) {
			rmtx.Lock()
			all := true
			for _, s := range sends {
				if !s.done {
					all = false
				}
			}
			rmtx.Unlock()
			if all {
				break
			}
			time.Sleep(time.Millisecond)
		}
		w.quiesce(2 * time.Millisecond)
	}
	// no write stays parked, and every Recv call of the scenario has returned before the verdict:
	// the callers still waiting are cancelled (a cancelled caller that finds nothing returns Canceled)
	w.mtx.Lock()
	if g := w.gate; g != nil {
		w.gate = nil
		g.open()
	}
	w.mtx.Unlock()
	rmtx.Lock()
	for _, c := range recvCancels {
		c()
	}
	rmtx.Unlock()
	recvStuck := false
	{
		fin := make(chan struct{})
		go func() { recvWG.Wait(); close(fin) }()
		select {
		case <-fin:
			w.note("recvend", 0)
		case <-time.After(10 * time.Second):
			recvStuck = true
		}
	}
	w.quiesce(2 * time.Millisecond)
	// A verdict is taken at quiescence; if a monitor fires or the replay diverges, settle longer and
	// evaluate everything again (what is reported is what persists on the complete log).
	var trace, op, model, mon, key string
	okSends := 0
	for attempt := 0; ; attempt++ {
		trace = w.canonical()
		op = "sigc.trace evs=" + trace
		model = e.m.Query(op)
		mon = ""
		key = "sigcli.trace:" + kind
		// monitors are ranked: a violation outranks a known finding
		rank := 0
		set := func(r int, k, m string) {
			if r > rank {
				rank, key, mon = r, k, m
			}
		}
		// ---- model-independent monitors ----
		if sentinelMon != "" {
			set(3, sentinelKey, sentinelMon)
		}
		rmtx.Lock()
		w.mtx.Lock()
		// C19 on what ClientPeerRef.Recv returned: judged on the returned message itself with the stdlib
		for _, m := range received {
			in := w.inj[m.GetSeqno()]
			wire, _ := m.MarshalVT()
			for _, x := range w.injAll[m.GetSeqno()] { // a seqno presented more than once: the injection with exactly these bytes
				if in != nil && !bytes.Equal(in.wire, wire) && bytes.Equal(x.wire, wire) {
					in = x
				}
			}
			switch {
			case !sigoracle.AuthenticFrom(e.kB, m):
				set(3, "sigcli.recv:forged", fmt.Sprintf("the application was handed a message (seqno %d, injection class %s) that does not verify under the key of the session's remote peer over the body it carries (stdlib)", m.GetSeqno(), classOf(in)))
			case in == nil || !bytes.Equal(in.wire, wire):
				set(3, "sigcli.recv:forged", fmt.Sprintf("the application was handed a message (seqno %d) that the relay never delivered in that form", m.GetSeqno()))
			case in.v != 1 || in.g != 1:
				set(3, "sigcli.recv:forged", fmt.Sprintf("the application was handed a message (seqno %d, injection class %s) that was not signed by the remote peer of the session over that payload", m.GetSeqno(), in.class))
			case in.otherDest:
				set(1, "sigcli.recv:cross-destination", "the application was handed a message from B that B had submitted for delivery to a different peer (the signed message names neither destination nor session, so a relay can replay it)")
			case !in.submitted:
				set(1, "sigcli.recv:seqno-rewritten", "the application was handed an authentic message of B whose sequence number the relay had rewritten (SessionMsg.seqno is not covered by the signature): the client accepted a message the relay modified")
			}
		}
		// C19 on what Session.Recv returned (the body only): some authentic message of B carries it
		for _, data := range receivedData {
			var auth, authHere int
			for _, in := range w.inj {
				if in.payload == string(data) && in.v == 1 && in.g == 1 {
					auth++
					if !in.otherDest {
						authHere++
					}
				}
			}
			switch {
			case auth == 0:
				set(3, "sigcli.recv:forged", fmt.Sprintf("the application was handed a body (Session.Recv, %x) that no message signed by the remote peer of the session carries", data))
			case authHere == 0:
				set(1, "sigcli.recv:cross-destination", "the application was handed a message from B that B had submitted for delivery to a different peer (the signed message names neither destination nor session, so a relay can replay it)")
			}
		}
		// C21: Send success only after an ack for that very message
		okSends = 0
		pending := 0
		okSeq := map[uint64]bool{}
		for _, s := range sends {
			if !s.done {
				pending++
				continue
			}
			if s.err == nil {
				okSends++
				okSeq[s.seqno] = true
				if !w.acksIssued[s.seqno] {
					set(3, "sigcli.send:unacked", fmt.Sprintf("Send of message %d reported success but the relay never acknowledged that message", s.seqno))
				}
			}
		}
		// C21 on the wire: what the client transmitted is what its main loop decided (hook), acks name
		// messages the application received, clears name messages the client had sent and whose Send failed
		var decided []string
		for _, line := range w.linesLocked() {
			if strings.HasPrefix(line, "ev=txloop ") {
				ti := strings.Index(line, " open=")
				if r := loopReq(line[:ti]); r != "none" {
					decided = append(decided, r)
				}
			}
		}
		var onWire []string
		deliveredSeq := map[uint64]bool{}
		for _, m := range received {
			deliveredSeq[m.GetSeqno()] = true
		}
		for _, data := range receivedData {
			for _, in := range w.inj {
				if in.payload == string(data) {
					deliveredSeq[in.seqno] = true
				}
			}
		}
		// C21 (receiver's half): a message is marked processed — and thereby acknowledged to its
		// sender — only by a Recv call that RETURNS it (nil error) to the application. Every Recv call
		// has returned by now, so the messages taken by Recv critical sections (hook: recvstep with
		// flag=true; its snapshot names the message) must be exactly the messages the calls returned.
		if recvStuck {
			set(3, "sigcli.recv:stuck", "a Recv call did not return within 10 s after its context was cancelled")
		}
		takenCnt := map[uint64]int{}
		var takenOrder []uint64
		for _, line := range w.linesLocked() {
			if strings.HasPrefix(line, "ev=recvstep ") && kvOf(line, "flag") == "true" {
				q, _ := strconv.ParseUint(kvOf(line, "recv"), 10, 64)
				takenCnt[q]++
				takenOrder = append(takenOrder, q)
			}
		}
		retCnt := map[uint64]int{}
		for _, q := range returnedSeq {
			retCnt[q]++
		}
		sentBefore := map[[2]uint64]bool{} // (stream, seqno)
		for _, x := range w.wire {
			switch x.kind {
			case "init":
				continue
			case "send":
				onWire = append(onWire, fmt.Sprintf("send:%d:%d", x.epoch, x.seqno))
				sentBefore[[2]uint64{uint64(x.stream), x.seqno}] = true
				if !sigoracle.AuthenticFrom(e.kA, x.msg) {
					set(3, "sigcli.wire:unsigned", fmt.Sprintf("the client transmitted message %d that does not verify under its own key (stdlib)", x.seqno))
				}
			case "ack":
				onWire = append(onWire, fmt.Sprintf("ack:%d:%d", x.epoch, x.seqno))
				// every Recv call has returned by now: deliveredSeq is everything the application was handed
				if !recvStuck && !deliveredSeq[x.seqno] {
					set(3, "sigcli.wire:ack-undelivered", fmt.Sprintf("the client acknowledged message %d to its sender, but no Recv call ever returned that message to the application (%d of %d Recv calls returned context.Canceled)", x.seqno, recvCanceled, recvCalls))
				}
			case "clear":
				onWire = append(onWire, fmt.Sprintf("clear:%d:%d", x.epoch, x.seqno))
				if !sentBefore[[2]uint64{uint64(x.stream), x.seqno}] {
					set(3, "sigcli.wire:clear-unsent", fmt.Sprintf("the client withdrew message %d, which it had not transmitted on that stream", x.seqno))
				}
				if okSeq[x.seqno] {
					set(3, "sigcli.wire:clear-acked", fmt.Sprintf("the client withdrew message %d although its Send reported success", x.seqno))
				}
			default:
				onWire = append(onWire, "other")
			}
		}
		if !recvStuck {
			for _, q := range takenOrder {
				if takenCnt[q] > retCnt[q] {
					set(3, "sigcli.recv:taken-not-returned", fmt.Sprintf("a Recv critical section took message %d and marked it processed (so it is acknowledged to its sender) but no Recv call returned it to the application (%d of %d Recv calls returned context.Canceled)", q, recvCanceled, recvCalls))
					break
				}
			}
			for q, c := range retCnt {
				if c > takenCnt[q] {
					set(3, "sigcli.recv:returned-not-taken", fmt.Sprintf("a Recv call returned message %d more often (%d) than Recv critical sections took it (%d)", q, c, takenCnt[q]))
				}
			}
		}
		if strings.Join(onWire, ";") != strings.Join(decided, ";") {
			set(2, "sigcli.wire:mismatch", fmt.Sprintf("the requests the client put on the wire [%s] are not the requests its main loop decided on [%s] (an ack/clear/send naming another message or epoch)", lib.Trunc(strings.Join(onWire, ";")), lib.Trunc(strings.Join(decided, ";"))))
		}
		if progress {
			for _, s := range sends {
				if s.must && (!s.done || s.err != nil) {
					set(3, "sigcli.progress:"+kind, "with a working relay (session open, sends acknowledged) a pending Send did not succeed: "+fmt.Sprint(s.err))
				}
			}
			for _, q := range mustRecvs {
				if !deliveredSeq[q] {
					set(3, "sigcli.progress-recv:"+kind, fmt.Sprintf("message %d, delivered by a working relay in an open session, was not handed to the application although a Recv was waiting", q))
				}
			}
		}
		w.mtx.Unlock()
		rmtx.Unlock()
		_ = pending
		if (rank < 2 && strings.HasPrefix(model, "ok ")) || attempt >= 3 {
			break
		}
		w.quiesce(time.Duration(5*(attempt+1)) * time.Millisecond)
	}
	impl := "ok"
	mshort := model
	if strings.HasPrefix(model, "ok ") {
		mshort = "ok"
	} else {
		impl = "trace-accepted-by-real-client"
	}
	br := "trace." + kind
	e.rep.Case("sigc.trace["+kind+"] "+strings.Join(actions, "; "), mshort, impl, br, true)
	if mshort != impl || mon != "" {
		d := lib.Disagreement{Op: truncN(strings.Join(actions, "; "), 3000) + " || " + op, Model: model, Impl: impl, Branch: br, Key: key}
		if len(d.Op) > 6000 {
			d.Op = d.Op[:6000] + "…"
		}
		if mon != "" {
			d.Monitor, d.What = "confirmed", mon
		} else {
			d.Monitor, d.What = "unconfirmed", "the real client took a step that is not a step of the model: "+lib.Trunc(model)
		}
		e.rep.Disagree(d)
	} else if harnessErr != "" {
		// the scripted schedule could not be driven (a gate was not reached, an awaited hook event did
		// not come): the tie did not exercise what it is there for
		e.rep.Disagree(lib.Disagreement{Op: truncN(strings.Join(actions, "; "), 3000), Model: mshort, Impl: impl, Branch: br, Key: "sigcli.schedule:" + kind,
			Monitor: "unconfirmed", What: "the scripted schedule could not be driven on the real client: " + harnessErr})
	}
	e.rep.Extra["events"] = e.rep.Extra["events"].(int) + strings.Count(trace, ";") + 1
	e.rep.Extra["sends_ok"] = e.rep.Extra["sends_ok"].(int) + okSends
	rmtx.Lock()
	e.rep.Extra["delivered"] = e.rep.Extra["delivered"].(int) + len(received) + len(receivedData)
	e.rep.Extra["delivered_via_session"] = e.rep.Extra["delivered_via_session"].(int) + len(receivedData)
	rmtx.Unlock()
	w.mtx.Lock()
	e.rep.Extra["wire_requests"] = e.rep.Extra["wire_requests"].(int) + len(w.wire)
	e.rep.Extra["stale_requests_dropped_by_honest_relay"] = e.rep.Extra["stale_requests_dropped_by_honest_relay"].(int) + w.dropped
	w.mtx.Unlock()
	rmtx.Lock()
	e.rep.Extra["recv_calls"] = e.rep.Extra["recv_calls"].(int) + recvCalls
	e.rep.Extra["recv_calls_returned_canceled"] = e.rep.Extra["recv_calls_returned_canceled"].(int) + recvCanceled
	rmtx.Unlock()
	cancel()
	cl.ClearContext()
	// the application goroutines of this scenario end with its context
	fin := make(chan struct{})
	go func() { apps.Wait(); close(fin) }()
	select {
	case <-fin:
	case <-time.After(10 * time.Second):
	}
}

// linesLocked is lines() for callers already holding w.mtx.
func (w *world) linesLocked() []string {
	var out []string
	for _, l := range w.log {
		if kvOf(l, "tkr") == w.tkr {
			out = append(out, l)
		}
	}
	return out
}

// truncN shortens a schedule description for the replay.
func truncN(s string, n int) string {
	if len(s) > n {
		return s[:n] + "…"
	}
	return s
}

// indexOf is the index of the first occurrence of x (by identity of position: scripts may repeat steps, the prefix shown is then the shortest).
func indexOf(l []string, x string) int {
	for i, y := range l {
		if y == x {
			return i
		}
	}
	return len(l) - 1
}

func classOf(in *injected) string {
	if in == nil {
		return "?"
	}
	return in.class
}

func (e *engine) run() {
	e.rep.Rule = "the real signaling client against a scripted relay: honest (open, ack, deliver), re-open while a send is in flight (F11 sentinel), the sender's stream failing with a message in flight, a 1 ms Send followed by a served Send, ack racing the caller's cancellation followed by a never-acknowledged probe Send, an authentic message followed by its signature re-presented with another payload, every forgery class with the application waiting (third-party / tampered / altered-copy / claimed-sender / self-signed; hand-assembled: foreign key attached, victim key attached + foreign signature, other signing context, empty signature, unsigned, nil body, empty body, no sender), an authentic message with only its outer sequence number rewritten, malicious random schedules of all of these with unsolicited acks and clears, re-opens, closes, stream failures and concurrent Send (incl. short deadlines = cancel) and Recv calls (half of them through Session.Recv); Recv CALLERS of every kind (long-lived, already cancelled, past their deadline, cancelled concurrently with a delivery, polling with deadlines of a few microseconds) with every call's return value logged into the trace (recvret / recvend) and all calls awaited before the verdict; GATED WRITES: the client's write of a chosen request kind (send / ack / clear) is parked inside the stream's Send while the relay delivers Opened / Closed+Opened / Ack / Clear and waits by hook event until the client processed it, then released into an honest relay that drops stale-epoch requests (reopen-during-write, gated-writes), each followed by a probe Send and a probe delivery that must complete; every tracker critical section replayed on the Lean LTS with the harness's own verdict per message; wire requests compared with the main loop's decisions; acks on the wire and messages taken by Recv critical sections compared with what Recv calls RETURNED; distinct = distinct schedule"
	for _, k := range []string{"events", "sends_ok", "delivered", "delivered_via_session", "wire_requests", "recv_calls", "recv_calls_returned_canceled", "stale_requests_dropped_by_honest_relay"} {
		e.rep.Extra[k] = 0
	}
	if e.a.Prop == "C24" {
		// C24, client side only: the consumer of the relay's announcements
		e.rep.Rule = "client side of the Listen announcements: Client.SetListenHandler / executeListenRoutine against scripted Listen streams (opening fails first, announcements / withdrawals with and without ids, stream failures => reset and re-listen) and Controller.handlePeerWantsSession + session trackers (bus-less Controller, hook): live automatically created Session streams = announcements minus withdrawals"
		e.rep.Require("trace.listen-handler", "trace.controller-sessions")
		for i := 0; i < 3*e.a.Scale; i++ {
			e.scenario("listen-handler", 2+e.rng.Intn(4))
			e.scenario("controller-sessions", 4+e.rng.Intn(12))
		}
		return
	}
	e.rep.Require("trace.honest", "trace.reopen-in-flight", "trace.malicious", "trace.cancel-after-ack", "trace.altered-retransmission", "trace.forgery-classes", "trace.stream-failure-in-flight", "trace.cancel-then-send",
		"trace.recv-cancelled", "trace.reopen-during-write", "trace.gated-writes")
	e.rep.Require("trace.clear-other", "trace.open-failure", "trace.two-sessions", "trace.listen-handler", "trace.controller-sessions")
	e.rep.Require("trace.seqno-reuse")
	for i := 0; i < 2; i++ {
		e.scenario("seqno-reuse", i)
	}
	e.scenario("controller-sessions", 6)
	e.scenario("clear-other", 2)
	e.scenario("open-failure", 2)
	e.scenario("two-sessions", 6)
	e.scenario("listen-handler", 3)
	e.scenario("reopen-during-write", 3)
	e.scenario("recv-cancelled", 5)
	e.scenario("gated-writes", 13)
	e.scenario("reopen-in-flight", 1)
	e.scenario("cancel-after-ack", 4)
	e.scenario("altered-retransmission", 3)
	e.scenario("forgery-classes", 1)
	e.scenario("stream-failure-in-flight", 2)
	e.scenario("cancel-then-send", 3)
	if e.a.Prop == "C19" {
		e.rep.Require("trace.replay", "trace.seqno-rewrite")
		e.scenario("replay", 1)
		e.scenario("seqno-rewrite", 1)
	}
	for i := 0; i < 3*e.a.Scale; i++ {
		e.scenario("honest", 2+e.rng.Intn(4))
	}
	for i := 0; i < 25*e.a.Scale; i++ {
		e.scenario("malicious", 8+e.rng.Intn(25))
	}
	if e.a.Scale > 1 {
		for i := 0; i < e.a.Scale; i++ {
			e.scenario("forgery-classes", 1)
			e.scenario("stream-failure-in-flight", 1+e.rng.Intn(3))
			e.scenario("cancel-then-send", 1+e.rng.Intn(4))
			e.scenario("recv-cancelled", 3+e.rng.Intn(8))
			e.scenario("reopen-during-write", 2+e.rng.Intn(5))
			e.scenario("gated-writes", 5+e.rng.Intn(12))
			e.scenario("clear-other", 1+e.rng.Intn(4))
			e.scenario("open-failure", 1+e.rng.Intn(3))
			e.scenario("two-sessions", 3+e.rng.Intn(8))
			e.scenario("listen-handler", 1+e.rng.Intn(4))
		}
	}
}

func main() {
	a := lib.ParseArgs()
	lg := logrus.New()
	lg.SetLevel(logrus.PanicLevel)
	lg.SetOutput(io.Discard)
	e := &engine{a: a, rng: lib.NewRng(a.Seed), m: lib.NewModel(a.Driver), le: logrus.NewEntry(lg)}
	e.rep = lib.NewReport("sigcli", a)
	e.kA = sigoracle.NewKey(e.rng.Bytes(32))
	e.kB = sigoracle.NewKey(e.rng.Bytes(32))
	e.kC = sigoracle.NewKey(e.rng.Bytes(32))
	e.keys = []*sigoracle.Key{nil, e.kA, e.kB, e.kC}
	switch a.Prop {
	case "C19", "C21", "C23", "C24":
		e.run()
	default:
		fmt.Println("unknown property", a.Prop)
		return
	}
	e.m.Close()
	e.rep.Write(a.Out)
}
