// Command sigcli is the trace-validation engine for the signaling CLIENT (C19, C21, C23): the
// real signaling_rpc_client.Client talks to a scripted relay (honest, dropping, re-opening, or
// malicious: forged / re-attributed / tampered messages, unsolicited acks and clears, stream
// failures). Every critical section of the client's peer tracker is logged by the verif hooks
// and replayed against the Lean LTS Bifrost.SigC (enabledness, post-state, decidable invariants);
// model-independent monitors state C19 / C21 on what the application observes.
package main

import (
	"context"
	"fmt"
	"io"
	"strconv"
	"strings"
	"sync"
	"time"

	"github.com/aperturerobotics/bifrost/crypto"
	"github.com/aperturerobotics/bifrost/hash"
	"github.com/aperturerobotics/bifrost/peer"
	signaling "github.com/aperturerobotics/bifrost/signaling/rpc"
	signaling_rpc_client "github.com/aperturerobotics/bifrost/signaling/rpc/client"
	"github.com/aperturerobotics/starpc/srpc"
	"github.com/aperturerobotics/util/backoff"
	"github.com/sirupsen/logrus"

	"verif/harness/lib"
)

type engine struct {
	a   *lib.Args
	rng *lib.Rng
	m   *lib.Model
	rep *lib.Report
	le  *logrus.Entry
	kA  crypto.PrivKey // local client
	kB  crypto.PrivKey // the remote peer of the session
	kC  crypto.PrivKey // a third party
	idB peer.ID
}

// relayStream is one Session stream of the scripted relay.
type relayStream struct {
	w      *world
	ctx    context.Context
	respCh chan *signaling.SessionResponse
	fail   chan struct{}
	mtx    sync.Mutex
	reqs   []*signaling.SessionRequest
}

func (r *relayStream) Context() context.Context { return r.ctx }
func (r *relayStream) Send(m *signaling.SessionRequest) error {
	r.mtx.Lock()
	r.reqs = append(r.reqs, m)
	r.mtx.Unlock()
	r.w.onRequest(r, m)
	return nil
}
func (r *relayStream) Recv() (*signaling.SessionResponse, error) {
	select {
	case m := <-r.respCh:
		return m, nil
	case <-r.fail:
		return nil, io.ErrUnexpectedEOF
	case <-r.ctx.Done():
		return nil, context.Canceled
	}
}
func (r *relayStream) RecvTo(m *signaling.SessionResponse) error {
	x, err := r.Recv()
	if err != nil {
		return err
	}
	*m = *x //nolint
	return nil
}
func (r *relayStream) MsgSend(srpc.Message) error { return nil }
func (r *relayStream) MsgRecv(srpc.Message) error { return io.EOF }
func (r *relayStream) CloseSend() error           { return nil }
func (r *relayStream) Close() error               { return nil }

// parkCtx is a context whose Done() parks the caller while armed: it holds a Send call right
// before its select so that an ack and a cancellation can both be pending when it resumes.
type parkCtx struct {
	context.Context
	mtx    sync.Mutex
	armed  bool
	parked chan struct{}
	gate   chan struct{}
}

func (p *parkCtx) Done() <-chan struct{} {
	p.mtx.Lock()
	armed := p.armed
	p.armed = false
	p.mtx.Unlock()
	if armed {
		close(p.parked)
		<-p.gate
	}
	return p.Context.Done()
}

type fakeRelay struct{ w *world }

func (f *fakeRelay) SRPCClient() srpc.Client { return nil }
func (f *fakeRelay) Listen(ctx context.Context, in *signaling.ListenRequest) (signaling.SRPCSignaling_ListenClient, error) {
	return nil, io.EOF
}
func (f *fakeRelay) Session(ctx context.Context) (signaling.SRPCSignaling_SessionClient, error) {
	r := &relayStream{w: f.w, ctx: ctx, respCh: make(chan *signaling.SessionResponse, 256), fail: make(chan struct{})}
	f.w.mtx.Lock()
	f.w.streams = append(f.w.streams, r)
	f.w.mtx.Unlock()
	return r, nil
}

type injected struct {
	seqno     uint64
	mid       int
	authentic bool // signed by B over this exact payload
	v, g      int
	payload   string
	otherDest bool // B submitted it for delivery to another peer
}

type world struct {
	e          *engine
	mtx        sync.Mutex
	log        []string
	streams    []*relayStream
	inj        map[uint64]*injected // by message seqno (unique per scenario)
	auto       string               // relay behaviour on a SendMsg request: "", "ack", "reopen-then-ack", "drop"
	epoch      uint64
	acksIssued map[uint64]bool
	sent       map[uint64]bool // seqnos the client transmitted
}

func (w *world) sink(line string) {
	w.mtx.Lock()
	w.log = append(w.log, line)
	w.mtx.Unlock()
}

func (w *world) cur() *relayStream {
	w.mtx.Lock()
	defer w.mtx.Unlock()
	if len(w.streams) == 0 {
		return nil
	}
	return w.streams[len(w.streams)-1]
}

func (w *world) respond(r *relayStream, m *signaling.SessionResponse) {
	if r == nil {
		return
	}
	if b, ok := m.GetBody().(*signaling.SessionResponse_AckMsg); ok {
		w.mtx.Lock()
		w.acksIssued[b.AckMsg] = true
		w.mtx.Unlock()
	}
	select {
	case r.respCh <- m:
	default:
	}
}

// onRequest is the relay's automatic behaviour.
func (w *world) onRequest(r *relayStream, m *signaling.SessionRequest) {
	if b, ok := m.GetBody().(*signaling.SessionRequest_SendMsg); ok {
		q := b.SendMsg.GetSeqno()
		w.mtx.Lock()
		w.sent[q] = true
		auto := w.auto
		w.mtx.Unlock()
		switch auto {
		case "ack":
			if m.GetSessionSeqno() == w.epoch {
				w.respond(r, &signaling.SessionResponse{Body: &signaling.SessionResponse_AckMsg{AckMsg: q}})
			}
		case "reopen-then-ack":
			// the session is re-opened while the send is in flight; the client must re-transmit
			w.mtx.Lock()
			w.auto = "ack"
			w.epoch++
			ep := w.epoch
			w.mtx.Unlock()
			w.respond(r, &signaling.SessionResponse{Body: &signaling.SessionResponse_Opened{Opened: ep}})
		}
	}
}

func (e *engine) mkMsg(key crypto.PrivKey, seqno uint64, payload []byte) *signaling.SessionMsg {
	m, err := signaling.NewSessionMsg(key, hash.HashType_HashType_BLAKE3, payload, seqno)
	if err != nil {
		panic(err)
	}
	return m
}

func (w *world) quiesce(d time.Duration) {
	stable, last := 0, -1
	for i := 0; i < 3000 && stable < 3; i++ {
		time.Sleep(d)
		w.mtx.Lock()
		n := len(w.log)
		w.mtx.Unlock()
		if n == last {
			stable++
		} else {
			stable, last = 0, n
		}
	}
}

func kvOf(line, k string) string {
	i := strings.Index(line, " "+k+"=")
	if i < 0 {
		return ""
	}
	rest := line[i+len(k)+2:]
	if j := strings.IndexByte(rest, ' '); j >= 0 {
		rest = rest[:j]
	}
	return rest
}

func b01(s string) string {
	if s == "true" {
		return "1"
	}
	return "0"
}

// canonical converts the hook log into driver tokens.
func (w *world) canonical() string {
	w.mtx.Lock()
	lines := append([]string(nil), w.log...)
	w.mtx.Unlock()
	var toks []string
	for _, line := range lines {
		ev := strings.TrimPrefix(strings.SplitN(line, " ", 2)[0], "ev=")
		ti := strings.Index(line, " open=")
		tr := line[ti:]
		snap := fmt.Sprintf("o%s:%s:%s:%s:%s:%s:%s", kvOf(tr, "open"), kvOf(tr, "out"), b01(kvOf(tr, "sent")), b01(kvOf(tr, "acked")), b01(kvOf(tr, "cancel")), kvOf(tr, "recv"), b01(kvOf(tr, "proc")))
		head := line[:ti]
		switch ev {
		case "close":
			toks = append(toks, "close,snap="+snap)
		case "opened":
			toks = append(toks, fmt.Sprintf("opened,e=%s,snap=%s", kvOf(head, "a"), snap))
		case "recvmsg":
			q, _ := strconv.ParseUint(kvOf(head, "a"), 10, 64)
			mid := 0
			if in := w.inj[q]; in != nil {
				mid = in.mid
			}
			toks = append(toks, fmt.Sprintf("recvmsg,q=%d,m=%d,v=1,g=1,snap=%s", q, mid, snap))
		case "recvrej":
			q, _ := strconv.ParseUint(kvOf(head, "a"), 10, 64)
			mid := 0
			if in := w.inj[q]; in != nil {
				mid = in.mid
			}
			if kvOf(head, "b") == "0" {
				toks = append(toks, fmt.Sprintf("recvmsg,q=%d,m=%d,v=0,g=1", q, mid))
			} else {
				toks = append(toks, fmt.Sprintf("recvmsg,q=%d,m=%d,v=1,g=0", q, mid))
			}
		case "clearmsg":
			toks = append(toks, fmt.Sprintf("clearmsg,k=%s,snap=%s", kvOf(head, "a"), snap))
		case "ackmsg":
			toks = append(toks, fmt.Sprintf("ackmsg,k=%s,snap=%s", kvOf(head, "a"), snap))
		case "txloop":
			req := "none"
			ep := kvOf(head, "epoch")
			if x := kvOf(head, "cancelmsg"); x != "0" {
				req = "clear:" + ep + ":" + x
			} else if x := kvOf(head, "sendmsg"); x != "0" {
				req = "send:" + ep + ":" + x
			} else if x := kvOf(head, "ackmsg"); x != "0" {
				req = "ack:" + ep + ":" + x
			}
			toks = append(toks, fmt.Sprintf("txloop,req=%s,snap=%s", req, snap))
		case "sendstep":
			res := "-"
			if kvOf(head, "acked") == "true" {
				res = "ok"
			}
			toks = append(toks, fmt.Sprintf("sendstep,id=%s,m=%s,call=%s:%s:%s,snap=%s", kvOf(head, "a"), kvOf(head, "a"), b01(kvOf(head, "flag")), kvOf(head, "ss"), res, snap))
		case "sendcancel":
			toks = append(toks, fmt.Sprintf("sendcancel,id=%s,m=%s,snap=%s", kvOf(head, "a"), kvOf(head, "a"), snap))
		case "recvstep":
			toks = append(toks, fmt.Sprintf("recvstep,got=%s,snap=%s", b01(kvOf(head, "flag")), snap))
		}
	}
	if len(toks) == 0 {
		return "_"
	}
	return strings.Join(toks, ";")
}

type sendRes struct {
	seqno uint64
	err   error
	done  bool
}

func (e *engine) scenario(kind string, n int) {
	w := &world{e: e, inj: map[uint64]*injected{}, acksIssued: map[uint64]bool{}, sent: map[uint64]bool{}, epoch: 1}
	signaling_rpc_client.VerifSetSink(w.sink)
	defer signaling_rpc_client.VerifSetSink(nil)
	cl, err := signaling_rpc_client.NewClient(e.le, &fakeRelay{w: w}, e.kA, &backoff.Backoff{BackoffKind: backoff.BackoffKind_BackoffKind_CONSTANT, Constant: &backoff.Constant{Interval: 1}})
	if err != nil {
		panic(err)
	}
	ctx, cancel := context.WithCancel(context.Background())
	defer cancel()
	cl.SetContext(ctx)
	ref := cl.AddPeerRef(e.idB.String())
	defer ref.Release()
	var actions []string
	act := func(s string) { actions = append(actions, s) }
	// wait for the first stream
	for i := 0; i < 2000 && w.cur() == nil; i++ {
		time.Sleep(100 * time.Microsecond)
	}
	var rmtx sync.Mutex
	var received []*signaling.SessionMsg
	var sends []*sendRes
	nextInj := uint64(100)
	startSend := func(timeout time.Duration) {
		sr := &sendRes{}
		rmtx.Lock()
		sends = append(sends, sr)
		rmtx.Unlock()
		go func() {
			sctx, scancel := context.WithTimeout(ctx, timeout)
			defer scancel()
			m, err := ref.Send(sctx, e.rng.Bytes(4))
			rmtx.Lock()
			sr.err, sr.done = err, true
			if m != nil {
				sr.seqno = m.GetSeqno()
			}
			rmtx.Unlock()
		}()
	}
	startRecv := func(timeout time.Duration) {
		go func() {
			rctx, rcancel := context.WithTimeout(ctx, timeout)
			defer rcancel()
			m, err := ref.Recv(rctx)
			if err == nil && m != nil {
				rmtx.Lock()
				received = append(received, m)
				rmtx.Unlock()
			}
		}()
	}
	var lastAuthentic *signaling.SessionMsg
	inject := func(how string) {
		if how == "altered-copy" && lastAuthentic == nil {
			how = "tampered"
		}
		nextInj++
		q := nextInj
		payload := e.rng.Bytes(6)
		in := &injected{seqno: q, mid: int(q), payload: string(payload)}
		var m *signaling.SessionMsg
		switch how {
		case "authentic":
			m = e.mkMsg(e.kB, q, payload)
			in.authentic, in.v, in.g = true, 1, 1
			lastAuthentic = m
		case "altered-copy": // signature and sender of the last authentic message, other payload
			m = lastAuthentic.CloneVT()
			m.Seqno = q
			m.SignedMsg.Data = payload
			in.v, in.g = 0, 1
		case "authentic-for-other-peer":
			m = e.mkMsg(e.kB, q, payload)
			in.authentic, in.v, in.g = true, 1, 1
			in.otherDest = true
		case "third-party": // validly signed by C, presented on the session with B (re-attribution)
			m = e.mkMsg(e.kC, q, payload)
			in.v, in.g = 1, 0
		case "self": // validly signed by A itself
			m = e.mkMsg(e.kA, q, payload)
			in.v, in.g = 1, 0
		case "tampered":
			m = e.mkMsg(e.kB, q, payload)
			m.SignedMsg.Data[0] ^= 0x40
			in.v, in.g = 0, 1
		case "claimed-sender": // signed by C but claiming to be from B
			m = e.mkMsg(e.kC, q, payload)
			m.SignedMsg.FromPeerId = e.idB.String()
			in.v, in.g = 0, 1
		}
		w.mtx.Lock()
		w.inj[q] = in
		w.mtx.Unlock()
		w.respond(w.cur(), &signaling.SessionResponse{Body: &signaling.SessionResponse_RecvMsg{RecvMsg: m}})
	}
	jitter := func() {
		switch e.rng.Intn(3) {
		case 0:
			time.Sleep(time.Duration(e.rng.Intn(200)) * time.Microsecond)
		case 1:
			w.quiesce(300 * time.Microsecond)
		}
	}
	open := func() {
		w.mtx.Lock()
		w.epoch++
		ep := w.epoch
		w.mtx.Unlock()
		w.respond(w.cur(), &signaling.SessionResponse{Body: &signaling.SessionResponse_Opened{Opened: ep}})
	}
	switch kind {
	case "honest":
		w.auto = "ack"
		open()
		for i := 0; i < n; i++ {
			startSend(3 * time.Second)
			startRecv(400 * time.Millisecond)
			inject("authentic")
			jitter()
		}
		act("honest relay: open, ack every send, deliver authentic messages")
	case "reopen-in-flight":
		// F11 sentinel: Opened(e+1) arrives while Send's message is pending; then it is acked
		w.auto = "reopen-then-ack"
		open()
		startSend(3 * time.Second)
		act("open; send; relay re-opens in flight; then acks the re-transmission")
		w.quiesce(500 * time.Microsecond)
		startSend(3 * time.Second) // a later send must not be blocked
		act("second send")
	case "cancel-after-ack":
		// the ack for m arrives while the caller of Send(m) is about to be cancelled: whichever
		// way the race goes, a LATER Send must still wait for its own ack
		w.auto = ""
		open()
		for i := 0; i < n; i++ {
			inner, icancel := context.WithCancel(ctx)
			pc := &parkCtx{Context: inner, armed: true, parked: make(chan struct{}), gate: make(chan struct{})}
			sr := &sendRes{}
			rmtx.Lock()
			sends = append(sends, sr)
			rmtx.Unlock()
			before := map[uint64]bool{}
			w.mtx.Lock()
			for x := range w.sent {
				before[x] = true
			}
			w.mtx.Unlock()
			fin := make(chan struct{})
			go func() {
				m, err := ref.Send(pc, e.rng.Bytes(4))
				rmtx.Lock()
				sr.err, sr.done = err, true
				if m != nil {
					sr.seqno = m.GetSeqno()
				}
				rmtx.Unlock()
				close(fin)
			}()
			select {
			case <-pc.parked:
			case <-time.After(2 * time.Second):
			}
			// the tracker transmits m on its own; ack it while the caller is parked
			var q uint64
			for k := 0; k < 2000 && q == 0; k++ {
				w.mtx.Lock()
				for x := range w.sent {
					if !before[x] {
						q = x
					}
				}
				w.mtx.Unlock()
				if q == 0 {
					time.Sleep(100 * time.Microsecond)
				}
			}
			if q != 0 {
				w.respond(w.cur(), &signaling.SessionResponse{Body: &signaling.SessionResponse_AckMsg{AckMsg: q}})
			}
			w.quiesce(300 * time.Microsecond)
			icancel()
			close(pc.gate)
			select {
			case <-fin:
			case <-time.After(2 * time.Second):
			}
			w.quiesce(300 * time.Microsecond)
			// probe: never acknowledged by the relay, so it must not report success
			startSend(15 * time.Millisecond)
			time.Sleep(20 * time.Millisecond)
			w.quiesce(300 * time.Microsecond)
			// drop the probe at the relay so that the next round starts clean
		}
		act("rounds of: Send(m) parked before its select; relay acks m; caller cancelled; then a probe Send that the relay never acks")
	case "altered-retransmission":
		// an authentic message is delivered; the relay then presents the same signature and
		// sender again with another payload (looks like the retransmission after a re-open)
		w.auto = ""
		open()
		for i := 0; i < n; i++ {
			inject("authentic")
			startRecv(300 * time.Millisecond)
			w.quiesce(300 * time.Microsecond)
			if i%2 == 1 {
				open()
			}
			inject("altered-copy")
			startRecv(300 * time.Millisecond)
			w.quiesce(300 * time.Microsecond)
		}
		act("rounds of: deliver authentic M; [re-open]; deliver M's signature and sender with another payload")
	case "replay":
		// Known finding (format level): a message B signed for delivery to ANOTHER peer (or in an
		// earlier session) carries no destination/session, so the relay can replay it to A.
		w.auto = ""
		open()
		startRecv(500 * time.Millisecond)
		inject("authentic-for-other-peer")
		act("relay replays to A a message that B submitted for delivery to peer C")
	case "malicious":
		w.auto = ""
		open()
		for i := 0; i < n; i++ {
			switch e.rng.Intn(12) {
			case 0:
				inject("third-party")
				act("inject third-party")
			case 1:
				inject("tampered")
				act("inject tampered")
			case 2:
				inject("claimed-sender")
				act("inject claimed-sender")
			case 3:
				inject("self")
				act("inject self-signed")
			case 4:
				inject("authentic")
				act("inject authentic")
			case 5:
				if e.rng.Intn(2) == 0 {
					inject("authentic")
					act("inject authentic")
				} else {
					inject("altered-copy")
					act("inject altered copy of the last authentic message")
				}
			case 6:
				k := uint64(1 + e.rng.Intn(4))
				w.respond(w.cur(), &signaling.SessionResponse{Body: &signaling.SessionResponse_AckMsg{AckMsg: k}})
				act(fmt.Sprintf("unsolicited ack %d", k))
			case 7:
				k := uint64(100 + e.rng.Intn(6))
				w.respond(w.cur(), &signaling.SessionResponse{Body: &signaling.SessionResponse_ClearMsg{ClearMsg: k}})
				act(fmt.Sprintf("clear %d", k))
			case 8:
				if e.rng.Intn(2) == 0 {
					open()
					act("re-open")
				} else {
					w.respond(w.cur(), &signaling.SessionResponse{Body: &signaling.SessionResponse_Closed{Closed: true}})
					act("closed")
				}
			case 9:
				startSend(time.Duration(1+e.rng.Intn(5)) * time.Millisecond)
				act("send (short deadline)")
			case 10:
				startRecv(300 * time.Millisecond)
				act("recv")
			case 11:
				if r := w.cur(); r != nil && e.rng.Intn(3) == 0 {
					close(r.fail)
					act("stream failure")
					time.Sleep(3 * time.Millisecond)
					open()
				}
			}
			jitter()
		}
	}
	w.quiesce(2 * time.Millisecond)
	// let pending short-deadline sends expire
	time.Sleep(8 * time.Millisecond)
	w.quiesce(2 * time.Millisecond)
	trace := w.canonical()
	op := "sigc.trace evs=" + trace
	model := e.m.Query(op)
	mon := ""
	key := "sigcli.trace:" + kind
	// ---- model-independent monitors ----
	rmtx.Lock()
	for _, m := range received {
		in := w.inj[m.GetSeqno()]
		if in == nil || !in.authentic || string(m.GetSignedMsg().GetData()) != in.payload {
			mon = fmt.Sprintf("the application was handed a message (seqno %d) that was not signed by the remote peer of the session over that payload", m.GetSeqno())
			key = "sigcli.recv:forged"
		} else if in.otherDest {
			mon = "the application was handed a message from B that B had submitted for delivery to a different peer (the signed message names neither destination nor session, so a relay can replay it)"
			key = "sigcli.recv:cross-destination"
		}
	}
	okSends, pending := 0, 0
	for _, s := range sends {
		if !s.done {
			pending++
			continue
		}
		if s.err == nil {
			okSends++
			w.mtx.Lock()
			acked := w.acksIssued[s.seqno]
			w.mtx.Unlock()
			if !acked {
				mon = fmt.Sprintf("Send of message %d reported success but the relay never acknowledged that message", s.seqno)
				key = "sigcli.send:unacked"
			}
		}
	}
	rmtx.Unlock()
	if kind == "honest" || kind == "reopen-in-flight" {
		// progress with a working relay: every send completes
		deadline := time.Now().Add(3 * time.Second)
		for time.Now().Before(deadline) {
			rmtx.Lock()
			all := true
			for _, s := range sends {
				if !s.done {
					all = false
				}
			}
			rmtx.Unlock()
			if all {
				break
			}
			time.Sleep(time.Millisecond)
		}
		rmtx.Lock()
		for _, s := range sends {
			if !s.done || s.err != nil {
				mon = "with a working relay (session open, sends acknowledged) a pending Send did not succeed: " + fmt.Sprint(s.err)
				key = "sigcli.progress:" + kind
			}
		}
		rmtx.Unlock()
		trace = w.canonical()
		op = "sigc.trace evs=" + trace
		model = e.m.Query(op)
	}
	impl := "ok"
	mshort := model
	if strings.HasPrefix(model, "ok ") {
		mshort = "ok"
	} else {
		impl = "trace-accepted-by-real-client"
	}
	br := "trace." + kind
	e.rep.Case("sigc.trace["+kind+"] "+strings.Join(actions, "; "), mshort, impl, br, true)
	if mshort != impl || mon != "" {
		d := lib.Disagreement{Op: lib.Trunc(strings.Join(actions, "; ")) + " || " + op, Model: model, Impl: impl, Branch: br, Key: key}
		if len(d.Op) > 6000 {
			d.Op = d.Op[:6000] + "…"
		}
		if mon != "" {
			d.Monitor, d.What = "confirmed", mon
		} else {
			d.Monitor, d.What = "unconfirmed", "the real client took a step that is not a step of the model: "+lib.Trunc(model)
		}
		e.rep.Disagree(d)
	}
	e.rep.Extra["events"] = e.rep.Extra["events"].(int) + strings.Count(trace, ";") + 1
	e.rep.Extra["sends_ok"] = e.rep.Extra["sends_ok"].(int) + okSends
	rmtx.Lock()
	e.rep.Extra["delivered"] = e.rep.Extra["delivered"].(int) + len(received)
	rmtx.Unlock()
	cancel()
	cl.ClearContext()
	time.Sleep(time.Millisecond)
}

func (e *engine) run() {
	e.rep.Rule = "the real signaling client against a scripted relay: honest (open, ack, deliver), re-open while a send is in flight (F11 sentinel), ack racing the caller's cancellation followed by a never-acknowledged probe Send, an authentic message followed by its signature re-presented with another payload, malicious (third-party / tampered / altered-copy / claimed-sender / self-signed messages, unsolicited acks and clears, re-opens, closes, stream failures) with concurrent Send (incl. short deadlines = cancel) and Recv calls; every tracker critical section replayed on the Lean LTS; distinct = distinct schedule"
	e.rep.Require("trace.honest", "trace.reopen-in-flight", "trace.malicious", "trace.cancel-after-ack", "trace.altered-retransmission")
	e.rep.Extra["events"], e.rep.Extra["sends_ok"], e.rep.Extra["delivered"] = 0, 0, 0
	e.scenario("reopen-in-flight", 1)
	e.scenario("cancel-after-ack", 4)
	e.scenario("altered-retransmission", 3)
	if e.a.Prop == "C19" {
		e.scenario("replay", 1)
	}
	for i := 0; i < 3*e.a.Scale; i++ {
		e.scenario("honest", 2+e.rng.Intn(4))
	}
	for i := 0; i < 25*e.a.Scale; i++ {
		e.scenario("malicious", 8+e.rng.Intn(25))
	}
}

func main() {
	a := lib.ParseArgs()
	lg := logrus.New()
	lg.SetLevel(logrus.PanicLevel)
	lg.SetOutput(io.Discard)
	e := &engine{a: a, rng: lib.NewRng(a.Seed), m: lib.NewModel(a.Driver), le: logrus.NewEntry(lg)}
	e.rep = lib.NewReport("sigcli", a)
	mk := func() (crypto.PrivKey, peer.ID) {
		p, err := peer.NewPeer(nil)
		if err != nil {
			panic(err)
		}
		k, _ := p.GetPrivKey(context.Background())
		return k, p.GetPeerID()
	}
	e.kA, _ = mk()
	e.kB, e.idB = mk()
	e.kC, _ = mk()
	switch a.Prop {
	case "C19", "C21", "C23":
		e.run()
	default:
		fmt.Println("unknown property", a.Prop)
		return
	}
	e.m.Close()
	e.rep.Write(a.Out)
}
