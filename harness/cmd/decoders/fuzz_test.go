package main

// Coverage-guided entry point for the flat decoders of C40 (the property's quantifier names
// coverage-guided fuzzing; the engine run uses structured mutation). Not part of ./check:
//
//	cd harness && go test -tags verif ./cmd/decoders -run '^$' -fuzz FuzzFlatDecoders -fuzztime 60s
//
// The seed corpus is the engine's own: every valid encoding of every flat decoder. Without -fuzz,
// `go test` runs each decoder once on every seed of every decoder (cross-feeding).

import (
	"context"
	"strings"
	"testing"

	"github.com/aperturerobotics/bifrost/peer"

	"verif/harness/lib"
)

func FuzzFlatDecoders(f *testing.F) {
	p, err := peer.NewPeer(nil)
	if err != nil {
		f.Fatal(err)
	}
	e := &engine{rng: lib.NewRng(1)}
	e.key, _ = p.GetPrivKey(context.Background())
	var flat []decoder
	for _, d := range e.decoders() {
		if d.flat {
			flat = append(flat, d)
			for _, s := range d.seeds(e) {
				f.Add(s)
			}
		}
	}
	f.Fuzz(func(t *testing.T, b []byte) {
		for _, d := range flat {
			out, alloc := measure(func() string { return d.run(b) })
			if strings.HasPrefix(out, "panic") {
				t.Fatalf("decoder %s panics on %x: %s", d.name, b, out)
			}
			if limit := 64*uint64(len(b)) + 65536; alloc > limit {
				if _, a2 := measure(func() string { return d.run(b) }); a2 > limit {
					t.Fatalf("decoder %s allocated %d bytes for a %d-byte input (limit %d): %x", d.name, a2, len(b), limit, b)
				}
			}
		}
	})
}
