// Command decoders is the correspondence engine for C40: every decoder that processes bytes from
// a remote peer is fed structured mutations of valid encodings, length-lying inputs and random
// bytes under recover(); the outcome class (ok / err / panic) must be a value or an error, the
// allocation of one call is measured against the configured limit, and where a Lean model of the
// decoder exists (stream header, packet framing, protobuf wire decoding of SignedMsg / PublicKey /
// Hash) accept/reject must agree with the model.
package main

import (
	"context"
	"crypto/rand"
	"crypto/sha256"
	"encoding/binary"
	"fmt"
	"io"
	"os"
	"runtime"
	"strings"
	"time"

	"github.com/aperturerobotics/bifrost/crypto"
	"github.com/aperturerobotics/bifrost/envelope"
	"github.com/aperturerobotics/bifrost/hash"
	link_solicit "github.com/aperturerobotics/bifrost/link/solicit"
	"github.com/aperturerobotics/bifrost/peer"
	"github.com/aperturerobotics/bifrost/pubsub/floodsub"
	"github.com/aperturerobotics/bifrost/pubsub/util/pubmessage"
	signaling "github.com/aperturerobotics/bifrost/signaling/rpc"
	stream_packet "github.com/aperturerobotics/bifrost/stream/packet"
	transport_controller "github.com/aperturerobotics/bifrost/transport/controller"
	"github.com/aperturerobotics/bifrost/transport/webrtc"
	"github.com/aperturerobotics/bifrost/util/rwc"
	pbl "github.com/aperturerobotics/protobuf-go-lite"
	"github.com/aperturerobotics/protobuf-go-lite/types/known/timestamppb"
	"github.com/cloudflare/circl/group"

	"verif/harness/lib"
)

type engine struct {
	a   *lib.Args
	rng *lib.Rng
	m   *lib.Model
	rep *lib.Report
	key crypto.PrivKey
}

type byteReader struct {
	b []byte
}

func (r *byteReader) Read(p []byte) (int, error) {
	if len(r.b) == 0 {
		return 0, io.EOF
	}
	n := copy(p, r.b)
	r.b = r.b[n:]
	return n, nil
}
func (r *byteReader) Write(p []byte) (int, error) { return len(p), nil }
func (r *byteReader) Close() error                { return nil }

type addr string

func (a addr) Network() string { return "v" }
func (a addr) String() string  { return string(a) }

// measure runs f and returns its outcome and the bytes allocated by it.
func measure(f func() string) (string, uint64) {
	var m0, m1 runtime.MemStats
	runtime.GC()
	runtime.ReadMemStats(&m0)
	out := lib.Recover(f)
	runtime.ReadMemStats(&m1)
	return out, m1.TotalAlloc - m0.TotalAlloc
}

type decoder struct {
	name  string
	limit uint64 // allowed allocation for one call: configured limit (framed) or k*len+slack (flat)
	flat  bool
	run   func(b []byte) string
	seeds func(e *engine) [][]byte
	// big: near-limit valid encodings; each is run valid and under a few mutations only
	big func(e *engine) [][]byte
}

func okErr(err error) string {
	if err != nil {
		return "err"
	}
	return "ok"
}

func (e *engine) decoders() []decoder {
	hdrMax := transport_controller.VerifStreamEstablishMaxPacketSize()
	// The limits the real code applies are established by the real read loops (loops.go); the two
	// framed decoders below are stream_packet.Session at the documented budget of each protocol.
	solMax := uint64(solicitBudget)
	signed := func() []byte {
		m, _ := peer.NewSignedMsg("ctx", e.key, hash.HashType_HashType_BLAKE3, e.rng.Bytes(20))
		b, _ := m.MarshalVT()
		return b
	}
	packet := func() []byte {
		m, _ := peer.NewSignedMsg("ctx", e.key, hash.HashType_HashType_BLAKE3, e.rng.Bytes(20))
		p := &floodsub.Packet{Publish: []*peer.SignedMsg{m}, Subscriptions: []*floodsub.SubscriptionOpts{{ChannelId: "chan", Subscribe: true}}}
		b, _ := p.MarshalVT()
		return b
	}
	// bigPacket: a valid floodsub packet of about n encoded bytes whose bulk is the signed payload
	bigPacket := func(n int) []byte {
		m, _ := peer.NewSignedMsg("ctx", e.key, hash.HashType_HashType_BLAKE3, e.bulk(n-300))
		p := &floodsub.Packet{Publish: []*peer.SignedMsg{m}, Subscriptions: []*floodsub.SubscriptionOpts{{ChannelId: "chan", Subscribe: true}}}
		b, _ := p.MarshalVT()
		if len(b) > n {
			panic("bigPacket larger than asked")
		}
		return b
	}
	pid, _ := peer.IDFromPrivateKey(e.key)
	// one valid encoding per oneof arm of the signaling session messages (and an empty body)
	sessReqs := func() [][]byte {
		m, _ := signaling.NewSessionMsg(e.key, hash.HashType_HashType_BLAKE3, e.rng.Bytes(10), 3)
		var out [][]byte
		for _, r := range []*signaling.SessionRequest{
			{SessionSeqno: 2, Body: &signaling.SessionRequest_SendMsg{SendMsg: m}},
			{SessionSeqno: 1, Body: &signaling.SessionRequest_Init{Init: &signaling.SessionInit{PeerId: pid.String()}}},
			{SessionSeqno: 3, Body: &signaling.SessionRequest_ClearMsg{ClearMsg: uint64(e.rng.Intn(1000))}},
			{SessionSeqno: 4, Body: &signaling.SessionRequest_AckMsg{AckMsg: uint64(e.rng.Intn(1000))}},
		} {
			b, err := r.MarshalVT()
			if err != nil {
				panic(err)
			}
			out = append(out, b)
		}
		// the message-typed arms present but empty (init = {}, send_msg = {})
		return append(out, []byte{0x12, 0x00}, []byte{0x1a, 0x00}, []byte{0x08, 0x02, 0x1a, 0x02, 0x0a, 0x00})
	}
	sessResps := func() [][]byte {
		m, _ := signaling.NewSessionMsg(e.key, hash.HashType_HashType_BLAKE3, e.rng.Bytes(10), 3)
		var out [][]byte
		for _, r := range []*signaling.SessionResponse{
			{Body: &signaling.SessionResponse_RecvMsg{RecvMsg: m}},
			{Body: &signaling.SessionResponse_Opened{Opened: uint64(1 + e.rng.Intn(1000))}},
			{Body: &signaling.SessionResponse_Closed{Closed: true}},
			{Body: &signaling.SessionResponse_ClearMsg{ClearMsg: uint64(e.rng.Intn(1000))}},
			{Body: &signaling.SessionResponse_AckMsg{AckMsg: uint64(e.rng.Intn(1000))}},
		} {
			b, err := r.MarshalVT()
			if err != nil {
				panic(err)
			}
			out = append(out, b)
		}
		// recv_msg present but empty / with an empty signed message
		return append(out, []byte{0x1a, 0x00}, []byte{0x1a, 0x02, 0x0a, 0x00})
	}
	// one valid WebRTC signal per oneof arm
	const sdpText = "v=0\r\no=- 4596489990601351948 2 IN IP4 127.0.0.1\r\ns=-\r\nt=0 0\r\na=group:BUNDLE 0\r\nm=application 9 UDP/DTLS/SCTP webrtc-datachannel\r\nc=IN IP4 0.0.0.0\r\na=mid:0\r\na=sctp-port:5000\r\n"
	signals := func() []*webrtc.WebRtcSignal {
		return []*webrtc.WebRtcSignal{
			{Body: &webrtc.WebRtcSignal_RequestOffer{RequestOffer: uint64(e.rng.Intn(100))}},
			{Body: &webrtc.WebRtcSignal_Sdp{Sdp: &webrtc.WebRtcSdp{TxSeqno: 1, SdpType: "offer", Sdp: sdpText}}},
			{Body: &webrtc.WebRtcSignal_Sdp{Sdp: &webrtc.WebRtcSdp{TxSeqno: 2, SdpType: "answer", Sdp: sdpText}}},
			{Body: &webrtc.WebRtcSignal_Ice{Ice: &webrtc.WebRtcIce{Candidate: `{"candidate":"candidate:1 1 udp 2130706431 192.168.1.2 54321 typ host","sdpMid":"0","sdpMLineIndex":0}`}}},
		}
	}
	frame := func(p []byte) []byte {
		b := make([]byte, 4)
		binary.LittleEndian.PutUint32(b, uint32(len(p)))
		return append(b, p...)
	}
	pubB, _ := crypto.MarshalPublicKey(e.key.GetPublic())
	privB, _ := crypto.MarshalPrivateKey(e.key)
	return []decoder{
		{name: "streamHeader", limit: hdrMax + 4096, run: func(b []byte) string {
			_, err := transport_controller.VerifReadStreamEstablishHeader(&byteReader{b: b})
			return okErr(err)
		}, seeds: func(e *engine) [][]byte {
			return [][]byte{transport_controller.VerifMarshalStreamEstablishHeader(transport_controller.NewStreamEstablish("test/proto"))}
		}},
		{name: "packetConn", limit: 1500 + 8192, run: func(b []byte) string {
			ctx, cancel := context.WithCancel(context.Background())
			defer cancel()
			pc := rwc.NewPacketConn(ctx, &byteReader{b: b}, addr("l"), addr("r"), 1500, 4)
			buf := make([]byte, 2000)
			got := 0
			for {
				_ = pc.SetReadDeadline(time.Now().Add(5 * time.Second))
				_, _, err := pc.ReadFrom(buf)
				if err != nil {
					if got > 0 && err == io.EOF {
						return "ok"
					}
					return "err"
				}
				got++
			}
		}, seeds: func(e *engine) [][]byte { return [][]byte{append(frame(e.rng.Bytes(30)), frame(e.rng.Bytes(5))...)} }},
		{name: "pubsubSession", limit: pubsubBudget + 65536, run: func(b []byte) string {
			s := stream_packet.NewSession(&byteReader{b: b}, pubsubBudget)
			got := 0
			for {
				if err := s.RecvMsg(&floodsub.Packet{}); err != nil {
					if got > 0 && err == io.EOF {
						return "ok"
					}
					return "err"
				}
				got++
			}
		}, seeds: func(e *engine) [][]byte {
			return [][]byte{frame(packet()), append(frame(packet()), frame(nil)...)}
		}, big: func(e *engine) [][]byte {
			return [][]byte{frame(bigPacket(pubsubBudget - 2 - e.rng.Intn(5000))), append(frame(packet()), frame(bigPacket(pubsubBudget/3+e.rng.Intn(100000)))...)}
		}},
		{name: "solicitSession", limit: solMax + 65536, run: func(b []byte) string {
			s := stream_packet.NewSession(&byteReader{b: b}, uint32(solMax))
			got := 0
			for {
				if err := s.RecvMsg(&link_solicit.SolicitationExchange{}); err != nil {
					if got > 0 && err == io.EOF {
						return "ok"
					}
					return "err"
				}
				got++
			}
		}, seeds: func(e *engine) [][]byte {
			x := &link_solicit.SolicitationExchange{ProtocolHashes: [][]byte{e.rng.Bytes(32), e.rng.Bytes(32)}}
			b, _ := x.MarshalVT()
			return [][]byte{frame(b)}
		}, big: func(e *engine) [][]byte {
			return [][]byte{frame(e.solicitMsg(solicitBudget)), frame(e.solicitMsg(solicitBudget - 1 - e.rng.Intn(2000)))}
		}},
		{name: "floodsubPacket", flat: true, run: func(b []byte) string { return okErr((&floodsub.Packet{}).UnmarshalVT(b)) },
			seeds: func(e *engine) [][]byte { return [][]byte{packet()} },
			big: func(e *engine) [][]byte {
				return [][]byte{bigPacket(pubsubBudget - e.rng.Intn(3000)), bigPacket(60000 + e.rng.Intn(10000))}
			}},
		{name: "solicitExchange", flat: true, run: func(b []byte) string {
			return okErr((&link_solicit.SolicitationExchange{}).UnmarshalVT(b))
		}, seeds: func(e *engine) [][]byte {
			x := &link_solicit.SolicitationExchange{ProtocolHashes: [][]byte{e.rng.Bytes(32)}}
			b, _ := x.MarshalVT()
			return [][]byte{b}
		}, big: func(e *engine) [][]byte { return [][]byte{e.solicitMsg(solicitBudget - e.rng.Intn(100))} }},
		{name: "sessionRequest", flat: true, run: func(b []byte) string {
			r := &signaling.SessionRequest{}
			if err := r.UnmarshalVT(b); err != nil {
				return "err"
			}
			return okErr(r.Validate())
		}, seeds: func(e *engine) [][]byte { return sessReqs() }},
		{name: "sessionResponse", flat: true, run: func(b []byte) string {
			r := &signaling.SessionResponse{}
			if err := r.UnmarshalVT(b); err != nil {
				return "err"
			}
			return okErr(r.Validate())
		}, seeds: func(e *engine) [][]byte { return sessResps() }},
		{name: "listenRequest", flat: true, run: func(b []byte) string {
			return okErr((&signaling.ListenRequest{}).UnmarshalVT(b))
		}, seeds: func(e *engine) [][]byte {
			// the message has no fields: valid encodings are the empty one and unknown fields
			return [][]byte{{}, {0x08, 0x01}, {0x12, 0x03, 'a', 'b', 'c'}, {0x08, 0x96, 0x01, 0x1a, 0x00}}
		}},
		{name: "listenResponse", flat: true, run: func(b []byte) string {
			r := &signaling.ListenResponse{}
			if err := r.UnmarshalVT(b); err != nil {
				return "err"
			}
			// what the client does with it: the body names a remote peer
			var id string
			switch x := r.GetBody().(type) {
			case *signaling.ListenResponse_SetPeer:
				id = x.SetPeer
			case *signaling.ListenResponse_ClearPeer:
				id = x.ClearPeer
			}
			_, err := peer.IDB58Decode(id)
			return okErr(err)
		}, seeds: func(e *engine) [][]byte {
			a, _ := (&signaling.ListenResponse{Body: &signaling.ListenResponse_SetPeer{SetPeer: pid.String()}}).MarshalVT()
			c, _ := (&signaling.ListenResponse{Body: &signaling.ListenResponse_ClearPeer{ClearPeer: pid.String()}}).MarshalVT()
			return [][]byte{a, c}
		}},
		{name: "signedMsg", flat: true, run: func(b []byte) string {
			m, err := peer.UnmarshalSignedMsg(b)
			if err != nil {
				return "err"
			}
			_, _, err = m.ExtractAndVerify("ctx")
			return okErr(err)
		}, seeds: func(e *engine) [][]byte { return [][]byte{signed()} }},
		{name: "envelope", flat: true, run: func(b []byte) string {
			env := &envelope.Envelope{}
			if err := env.UnmarshalVT(b); err != nil {
				return "err"
			}
			_, _, err := envelope.UnlockEnvelope("ctx", env, []crypto.PrivKey{e.key})
			return okErr(err)
		}, seeds: func(e *engine) [][]byte {
			env, err := envelope.BuildEnvelope(rand.Reader, "ctx", e.rng.Bytes(12), []crypto.PubKey{e.key.GetPublic()}, &envelope.EnvelopeConfig{GrantConfigs: []*envelope.EnvelopeGrantConfig{{ShareCount: 1, KeypairIndexes: []uint32{0}}}})
			if err != nil {
				panic(err)
			}
			b, _ := env.MarshalVT()
			return [][]byte{b}
		}},
		{name: "sessionInit", flat: true, run: func(b []byte) string {
			r := &signaling.SessionInit{}
			if err := r.UnmarshalVT(b); err != nil {
				return "err"
			}
			return okErr(r.Validate())
		}, seeds: func(e *engine) [][]byte {
			a, _ := (&signaling.SessionInit{PeerId: pid.String()}).MarshalVT()
			return [][]byte{a, {}}
		}},
		{name: "webrtcSignal", flat: true, run: func(b []byte) string {
			// the plaintext of a signaling message as the WebRTC transport handles it: decode, validate
			// (Validate parses the SDP / the ICE candidate JSON with pion)
			m := &webrtc.WebRtcSignal{}
			if err := m.UnmarshalVT(b); err != nil {
				return "err"
			}
			return okErr(m.Validate())
		}, seeds: func(e *engine) [][]byte {
			var out [][]byte
			for _, m := range signals() {
				b, err := m.MarshalVT()
				if err != nil {
					panic(err)
				}
				out = append(out, b)
			}
			// the message-typed arms present but empty (sdp = {}, ice = {}), an sdp with a type only
			return append(out, []byte{0x12, 0x00}, []byte{0x1a, 0x00}, []byte{0x12, 0x07, 0x12, 0x05, 'o', 'f', 'f', 'e', 'r'})
		}},
		{name: "webrtcSignalSealed", flat: true, run: func(b []byte) string {
			m, err := webrtc.DecodeWebRtcSignal(b, e.key)
			if err != nil {
				return "err"
			}
			return okErr(m.Validate())
		}, seeds: func(e *engine) [][]byte {
			var out [][]byte
			for _, m := range signals() {
				b, err := webrtc.EncodeWebRtcSignal(m, e.key.GetPublic())
				if err != nil {
					panic(err)
				}
				out = append(out, b)
			}
			return out
		}},
		{name: "pubMessageInner", flat: true, run: func(b []byte) string {
			m := &pubmessage.PubMessageInner{}
			if err := m.UnmarshalVT(b); err != nil {
				return "err"
			}
			return okErr(m.Validate())
		}, seeds: func(e *engine) [][]byte {
			a, _ := (&pubmessage.PubMessageInner{Data: e.rng.Bytes(20), Channel: "chan", Timestamp: &timestamppb.Timestamp{Seconds: 1700000000, Nanos: 5}}).MarshalVT()
			c, _ := (&pubmessage.PubMessageInner{Data: e.rng.Bytes(3), Channel: "c"}).MarshalVT()
			return [][]byte{a, c}
		}},
		{name: "envelopeGrantInner", flat: true, run: func(b []byte) string {
			// the plaintext of an envelope grant as UnlockEnvelope handles it: decode, then both scalars of every share
			in := &envelope.EnvelopeGrantInner{}
			if err := in.UnmarshalVT(b); err != nil {
				return "err"
			}
			for _, s := range in.GetShares() {
				id, val := group.Ristretto255.NewScalar(), group.Ristretto255.NewScalar()
				if id.UnmarshalBinary(s.GetId()) != nil || val.UnmarshalBinary(s.GetValue()) != nil {
					return "err"
				}
			}
			return "ok"
		}, seeds: func(e *engine) [][]byte {
			a, _ := (&envelope.EnvelopeGrantInner{Shares: []*envelope.EnvelopeShare{{Id: e.rng.Bytes(32), Value: e.rng.Bytes(32)}, {Id: e.rng.Bytes(32), Value: e.rng.Bytes(32)}}}).MarshalVT()
			return [][]byte{a}
		}},
		{name: "peerIDFromBytes", flat: true, run: func(b []byte) string { _, err := peer.IDFromBytes(b); return okErr(err) },
			seeds: func(e *engine) [][]byte { return [][]byte{[]byte(pid)} }},
		{name: "peerIDB58", flat: true, run: func(b []byte) string {
			id, err := peer.IDB58Decode(string(b))
			if err != nil {
				return "err"
			}
			_, err = id.ExtractPublicKey()
			return okErr(err)
		}, seeds: func(e *engine) [][]byte { return [][]byte{[]byte(pid.String())} }},
		{name: "publicKey", flat: true, run: func(b []byte) string { _, err := crypto.UnmarshalPublicKey(b); return okErr(err) },
			seeds: func(e *engine) [][]byte { return [][]byte{pubB} }},
		{name: "privateKey", flat: true, run: func(b []byte) string { _, err := crypto.UnmarshalPrivateKey(b); return okErr(err) },
			seeds: func(e *engine) [][]byte { return [][]byte{privB} }},
	}
}

// bulk returns n bytes of filler built from a short random block (fast for megabyte payloads).
func (e *engine) bulk(n int) []byte {
	blk := e.rng.Bytes(4096)
	out := make([]byte, 0, n)
	for len(out) < n {
		k := n - len(out)
		if k > len(blk) {
			k = len(blk)
		}
		out = append(out, blk[:k]...)
	}
	return out
}

func (e *engine) mutate(seed []byte, k int) []byte {
	b := append([]byte(nil), seed...)
	switch k % 10 {
	case 0:
		return b
	case 1: // bit flip
		if len(b) > 0 {
			b[e.rng.Intn(len(b))] ^= 1 << e.rng.Intn(8)
		}
	case 2: // truncate
		if len(b) > 0 {
			b = b[:e.rng.Intn(len(b))]
		}
	case 3: // extend with garbage
		b = append(b, e.rng.Bytes(1+e.rng.Intn(8))...)
	case 4: // length lie: replace a byte with a huge varint
		if len(b) > 1 {
			i := e.rng.Intn(len(b))
			v := pbl.AppendVarint(nil, uint64(1)<<uint(20+e.rng.Intn(43)))
			b = append(append(append([]byte(nil), b[:i]...), v...), b[i+1:]...)
		}
	case 5: // 0xff run (max varints / max little-endian lengths)
		if len(b) > 0 {
			i := e.rng.Intn(len(b))
			for j := i; j < len(b) && j < i+10; j++ {
				b[j] = 0xff
			}
		}
	case 6: // random bytes
		b = e.rng.Bytes(e.rng.Intn(64))
	case 7: // duplicate a chunk (repeated fields / nested merges)
		if len(b) > 2 {
			i := e.rng.Intn(len(b) - 1)
			b = append(b, b[i:]...)
		}
	case 9: // tiny length prefix (1..3) in front of a longer body (reads past the announced length)
		if len(b) > 4 {
			b[0] = byte(1 + e.rng.Intn(3))
			if e.rng.Intn(2) == 0 {
				b[1], b[2], b[3] = 0, 0, 0
			}
		}
	case 8: // group / unknown wire types sprinkled in
		b = append([]byte{0x0b, 0x08, 0x01, 0x0c, byte(e.rng.Intn(256))}, b...)
	}
	return b
}

func (e *engine) run() {
	e.rep.Rule = "every network-facing decoder (21, incl. signaling ListenRequest/ListenResponse/SessionInit and one valid encoding per oneof arm of SessionRequest/SessionResponse, the WebRTC signal plain (UnmarshalVT + Validate: pion SDP / ICE JSON parsers) and sealed (DecodeWebRtcSignal), PubMessageInner, EnvelopeGrantInner) × (valid encodings of ordinary and near-limit size; bit flips; truncations; extensions; length lies with 2^20..2^62 varints and 0xff runs; 12 boundary 32-bit length prefixes (2^32-1 … 2^32-8, 2^31, 2^31-1, …) in both byte orders; random bytes; duplicated chunks; group/unknown wire types); outcome must be ok/err (never panic), allocation of one call ≤ the decoder's configured limit (+ slack) or ≤ 64×input+64 KiB for unframed decoders; model comparison where a Lean model exists; distinct = distinct (decoder, input). Sealed messages (crafted from first principles with blake3 / AES / X25519 / XChaCha20-Poly1305 / S2, valid under the AEAD) through DecryptWithPrivKey, DecodeWebRtcSignal and UnlockEnvelope (grant ciphertext): compressed blocks that declare 64 KiB … 2^32-1 bytes with no / a short body and genuine S2 bombs of 1 MiB / 16 MiB / 16 MiB+1 zeros; one call must allocate at most min(declared, 16 MiB) + 64×input + 256 KiB and return ok/err (classes of 1 GiB and 2^32-1 in a child process). Real read loops (floodsub AddPeerStream→readPump; solicit HandleMountedStream and initiateControlStream → runControlStream) on scripted streams: valid traffic of ordinary and near-limit size, announced lengths at / one above / far above the protocol's budget with and without body, garbage, truncation; the receive-buffer sizes the loop passes to Read are compared with the Lean model at the generated call-site limits, and none may exceed the protocol's documented budget"
	ds := e.decoders()
	for _, d := range ds {
		e.rep.Require("dec." + d.name + ".ok")
		e.rep.Require("dec." + d.name + ".err")
	}
	n := 40 * e.a.Scale
	worst := map[string]uint64{}
	// boundary length prefixes: where an arithmetic slip on the announced length (adding a header
	// size, signed conversion, rounding up) wraps or changes sign
	edges := []uint32{0xffffffff, 0xfffffffe, 0xfffffffd, 0xfffffffc, 0xfffffffb, 0xfffffff8, 0xffffff00, 0x80000000, 0x7fffffff, 0x7ffffffc, 0x00010000, 0x0000ffff}
	for _, d := range ds {
		seeds := d.seeds(e)
		var bigs [][]byte
		if d.big != nil {
			bigs = d.big(e)
		}
		bigMut := []int{0, 1, 2, 4}
		// every seed (one per oneof arm / shape) first runs as it is, then the mutation schedule
		for i0 := 0; i0 < len(seeds)+n+2*len(edges)+len(bigs)*len(bigMut); i0++ {
			var b []byte
			i := i0 - len(seeds)
			if i0 < len(seeds) {
				b = append([]byte(nil), seeds[i0]...)
			} else if i >= n+2*len(edges) {
				k := i - n - 2*len(edges)
				b = e.mutate(bigs[k/len(bigMut)], bigMut[k%len(bigMut)])
			} else if i < n {
				// i/10 walks the seeds independently of the mutation kind i%10
				b = e.mutate(seeds[(i+i/10)%len(seeds)], i)
			} else {
				k := i - n
				b = append([]byte(nil), seeds[k%len(seeds)]...)
				for len(b) < 8 {
					b = append(b, 0)
				}
				v := edges[k/2]
				if k%2 == 0 {
					b[0], b[1], b[2], b[3] = byte(v), byte(v>>8), byte(v>>16), byte(v>>24)
				} else {
					b[0], b[1], b[2], b[3] = byte(v>>24), byte(v>>16), byte(v>>8), byte(v)
				}
			}
			out, alloc := measure(func() string { return d.run(b) })
			limit0 := d.limit
			if i >= n+2*len(edges) {
				limit0 += 4 * uint64(len(b)) // near-limit valid messages: the decoded copy of the fields comes on top of the receive buffer
			}
			if d.flat {
				limit0 = 64*uint64(len(b)) + 65536
			}
			// TotalAlloc is process-wide: background goroutines (timers, GC workers) add noise.
			// An over-limit reading counts only if it repeats: take the minimum of up to 4 runs.
			for k := 0; k < 3 && alloc > limit0; k++ {
				if _, a2 := measure(func() string { return d.run(b) }); a2 < alloc {
					alloc = a2
				}
			}
			if alloc > worst[d.name] {
				worst[d.name] = alloc
			}
			mon := ""
			if strings.HasPrefix(out, "panic") {
				mon = fmt.Sprintf("decoder %s panics on %d input bytes: %s", d.name, len(b), lib.Trunc(out))
			}
			limit := d.limit
			if i >= n+2*len(edges) {
				limit += 4 * uint64(len(b)) // receive buffer ≤ configured limit, decoded copies ≤ a small multiple of the input
			}
			if d.flat {
				limit = 64*uint64(len(b)) + 65536
			}
			if alloc > limit && mon == "" {
				mon = fmt.Sprintf("decoder %s allocated %d bytes for a %d-byte input (limit %d)", d.name, alloc, len(b), limit)
			}
			op := fmt.Sprintf("dec.%s in=%s", d.name, lib.Hex(b))
			if len(b) > 2048 {
				h := sha256.Sum256(b)
				op = fmt.Sprintf("dec.%s in=%s… len=%d sha256=%x", d.name, lib.Hex(b[:48]), len(b), h[:8])
			}
			model := out
			// model comparison where one exists
			switch d.name {
			case "streamHeader":
				ans := e.m.Query(fmt.Sprintf("framing.hdr max=%d chunks=%s", transport_controller.VerifStreamEstablishMaxPacketSize(), lib.HexList([][]byte{b})))
				if len(b) == 0 {
					ans = e.m.Query(fmt.Sprintf("framing.hdr max=%d chunks=_", transport_controller.VerifStreamEstablishMaxPacketSize()))
				}
				// the model additionally validates the protocol id; compare only read-level acceptance
				if strings.HasPrefix(ans, "err io") || strings.HasPrefix(ans, "err badPrefix") || strings.HasPrefix(ans, "err badLen") || strings.HasPrefix(ans, "err badProto") {
					model = "err"
				} else {
					model = "ok"
				}
			case "publicKey":
				ans := e.m.Query("codec.unmarshalPub b=" + lib.Hex(b))
				model = strings.SplitN(ans, " ", 2)[0]
			case "peerIDFromBytes":
				ans := e.m.Query("codec.idFromBytes b=" + lib.Hex(b))
				model = strings.SplitN(ans, " ", 2)[0]
			}
			br := "dec." + d.name + "." + strings.SplitN(out, " ", 2)[0]
			e.rep.Compare(op, model, out, br, "decoders."+d.name, mon)
		}
	}
	w := map[string]any{}
	for k, v := range worst {
		w[k] = v
	}
	e.rep.Extra["max_alloc_bytes_per_call"] = w
}

func main() {
	if os.Getenv("VERIF_DECODERS_CHILD") == "sealed" {
		childSealed()
		return
	}
	a := lib.ParseArgs()
	e := &engine{a: a, rng: lib.NewRng(a.Seed), m: lib.NewModel(a.Driver)}
	e.rep = lib.NewReport("decoders", a)
	p, err := peer.NewPeer(nil)
	if err != nil {
		panic(err)
	}
	e.key, _ = p.GetPrivKey(context.Background())
	if a.Prop != "C40" {
		fmt.Println("unknown property", a.Prop)
		return
	}
	e.run()
	e.runSealed()
	e.runLoops()
	e.m.Close()
	e.rep.Write(a.Out)
}
