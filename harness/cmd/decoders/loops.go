package main

// Real read loops for C40. The size limit a decoder applies is not taken from a constant of this
// engine: scripted byte streams are handed to the REAL code paths that build the packet sessions —
//
//	floodsub:  FloodSub.AddPeerStream -> Execute -> streamHandler.executeSession -> readPump
//	solicit:   controlStreamMountedHandler.HandleMountedStream -> runControlStream   (incoming control stream)
//	           Controller.addLink -> keyed routine -> initiateControlStream -> runControlStream (outgoing)
//
// and the stream records the size of every receive buffer the loop asks it to fill (io.ReadFull
// passes the freshly allocated message buffer to Read). That trace is compared with the Lean model
// evaluated at the limits the translator extracted from the call sites (Gen.Limits), and the
// model-independent monitor states the clause directly: no receive buffer for one message is larger
// than the documented budget of that protocol.

import (
	"context"
	"encoding/binary"
	"fmt"
	"io"
	"strconv"
	"strings"
	"sync"
	"time"

	"github.com/aperturerobotics/bifrost/hash"
	"github.com/aperturerobotics/bifrost/link"
	link_solicit "github.com/aperturerobotics/bifrost/link/solicit"
	link_solicit_controller "github.com/aperturerobotics/bifrost/link/solicit/controller"
	"github.com/aperturerobotics/bifrost/peer"
	"github.com/aperturerobotics/bifrost/protocol"
	"github.com/aperturerobotics/bifrost/pubsub"
	"github.com/aperturerobotics/bifrost/pubsub/floodsub"
	"github.com/aperturerobotics/bifrost/stream"
	"github.com/aperturerobotics/controllerbus/directive"
	"github.com/sirupsen/logrus"

	"verif/harness/lib"
)

// Budgets: the independent statement of "configured size limit" per protocol.
//
//	floodsub: "maxMessageSize constrains the message buffer allocation size" — 2,000,000 bytes
//	solicit:  "~16KB, enough for 256 hashes" — 256 hashes * 32 bytes * 2
const (
	pubsubBudget  = 2000000
	solicitBudget = 256 * 32 * 2
)

var quietLog = func() *logrus.Entry {
	l := logrus.New()
	l.SetOutput(io.Discard)
	l.SetLevel(logrus.PanicLevel)
	return logrus.NewEntry(l)
}()

// scriptStream serves scripted bytes and records the read loop's buffer sizes.
type scriptStream struct {
	mu     sync.Mutex
	data   []byte
	pos    int
	allocs []int // len(p) of the first Read of every message body
	maxBuf int   // largest len(p) ever passed to Read
	// framing state (encoding/binary only): what the next fresh Read is
	cont     int  // bytes still missing from the current ReadFull (continuation reads)
	wantBody bool // the header just served announced a non-zero length
	hdr      []byte
	inBody   bool
	closed   chan struct{}
	once     sync.Once
}

func newScriptStream(data []byte) *scriptStream {
	return &scriptStream{data: data, closed: make(chan struct{})}
}

func (s *scriptStream) Read(p []byte) (int, error) {
	s.mu.Lock()
	defer s.mu.Unlock()
	if len(p) > s.maxBuf {
		s.maxBuf = len(p)
	}
	if s.cont == 0 {
		// a fresh io.ReadFull: either the 4-byte header or a message body
		if s.wantBody {
			s.allocs = append(s.allocs, len(p))
			s.inBody = true
		} else {
			s.inBody = false
			s.hdr = s.hdr[:0]
		}
		s.wantBody = false
		s.cont = len(p)
	}
	if s.pos >= len(s.data) {
		return 0, io.EOF
	}
	n := copy(p, s.data[s.pos:])
	if !s.inBody {
		s.hdr = append(s.hdr, s.data[s.pos:s.pos+n]...)
	}
	s.pos += n
	s.cont -= n
	if s.cont < 0 {
		s.cont = 0
	}
	if s.cont == 0 && !s.inBody && len(s.hdr) == 4 {
		s.wantBody = binary.LittleEndian.Uint32(s.hdr) != 0
	}
	return n, nil
}
func (s *scriptStream) Write(p []byte) (int, error)      { return len(p), nil }
func (s *scriptStream) SetReadDeadline(time.Time) error  { return nil }
func (s *scriptStream) SetWriteDeadline(time.Time) error { return nil }
func (s *scriptStream) SetDeadline(time.Time) error      { return nil }
func (s *scriptStream) Close() error {
	s.once.Do(func() { close(s.closed) })
	return nil
}
func (s *scriptStream) wait(d time.Duration) bool {
	select {
	case <-s.closed:
		return true
	case <-time.After(d):
		return false
	}
}
func (s *scriptStream) snapshot() (allocs []int, maxBuf int) {
	s.mu.Lock()
	defer s.mu.Unlock()
	return append([]int(nil), s.allocs...), s.maxBuf
}

var _ stream.Stream = (*scriptStream)(nil)

// fake mounted link / stream
type fLink struct {
	uuid          uint64
	local, remote peer.ID
	open          func() (link.MountedStream, error)
}

func (l *fLink) GetLinkUUID() uint64            { return l.uuid }
func (l *fLink) GetTransportUUID() uint64       { return 7 }
func (l *fLink) GetRemoteTransportUUID() uint64 { return 8 }
func (l *fLink) GetLocalPeer() peer.ID          { return l.local }
func (l *fLink) GetRemotePeer() peer.ID         { return l.remote }
func (l *fLink) OpenMountedStream(ctx context.Context, pid protocol.ID, _ stream.OpenOpts) (link.MountedStream, error) {
	if l.open != nil {
		return l.open()
	}
	return nil, io.ErrClosedPipe
}

type fMStream struct {
	strm   stream.Stream
	remote peer.ID
	lnk    link.MountedLink
	proto  protocol.ID
}

func (s *fMStream) GetStream() stream.Stream     { return s.strm }
func (s *fMStream) GetProtocolID() protocol.ID   { return s.proto }
func (s *fMStream) GetOpenOpts() stream.OpenOpts { return stream.OpenOpts{} }
func (s *fMStream) GetPeerID() peer.ID           { return s.remote }
func (s *fMStream) GetLink() link.MountedLink    { return s.lnk }

// fake directive instance / resolver handler (to obtain the control stream handler through the
// controller's real HandleDirective)
type fInst struct {
	ctx context.Context
	dir directive.Directive
}
type fRef struct{}

func (fRef) Release()                                     {}
func (f *fInst) GetContext() context.Context              { return f.ctx }
func (f *fInst) GetDirective() directive.Directive        { return f.dir }
func (f *fInst) GetDirectiveIdent() string                { return "verif" }
func (f *fInst) GetResolverErrors() []error               { return nil }
func (f *fInst) AddDisposeCallback(cb func()) func()      { return func() {} }
func (f *fInst) CloseIfUnreferenced(inclWeak bool) bool   { return false }
func (f *fInst) Close()                                   {}
func (f *fInst) AddIdleCallback(cb directive.IdleCallback) func() {
	return func() {}
}
func (f *fInst) AddStateCallback(cb directive.StateCallback) func() { return func() {} }
func (f *fInst) AddReference(cb directive.ReferenceHandler, weak bool) directive.Reference {
	return fRef{}
}

type fValHandler struct{ vals []directive.Value }

func (h *fValHandler) AddValue(v directive.Value) (uint32, bool) {
	h.vals = append(h.vals, v)
	return uint32(len(h.vals)), true
}
func (h *fValHandler) RemoveValue(id uint32) (directive.Value, bool)            { return nil, false }
func (h *fValHandler) RemoveValues() []directive.Value                          { return nil }
func (h *fValHandler) CountValues(bool) int                                     { return len(h.vals) }
func (h *fValHandler) ClearValues() []uint32                                    { return nil }
func (h *fValHandler) MarkIdle(bool)                                            {}
func (h *fValHandler) AddValueRemovedCallback(id uint32, cb func()) func()      { return func() {} }
func (h *fValHandler) AddResolverRemovedCallback(cb func()) func()              { return func() {} }
func (h *fValHandler) AddResolver(res directive.Resolver, cb func()) func()     { return func() {} }

// ---------------------------------------------------------------------------------------------

type loopCase struct {
	gen    string
	data   []byte
	strm   *scriptStream
	decode func(b []byte) bool // flat decoder of the protocol's message (is the loop going on?)
}

func le32b(n uint32) []byte {
	b := make([]byte, 4)
	binary.LittleEndian.PutUint32(b, n)
	return b
}

func frameOf(p []byte) []byte { return append(le32b(uint32(len(p))), p...) }

// loopInputs generates streams for a loop whose documented budget is `budget`: valid messages of
// ordinary and near-limit sizes, announced lengths around the budget with and without the body,
// far larger announcements, garbage and truncation. mk(n) returns a VALID message of exactly n
// encoded bytes (n ≥ minValid).
func (e *engine) loopInputs(budget int, minValid int, mk func(n int) []byte, decode func([]byte) bool) []*loopCase {
	var out []*loopCase
	add := func(gen string, data []byte) {
		out = append(out, &loopCase{gen: gen, data: data, strm: newScriptStream(data), decode: decode})
	}
	small := func() []byte { return mk(minValid + e.rng.Intn(300)) }
	// valid traffic, ordinary sizes (several messages, empty messages in between)
	for i := 0; i < 3*e.a.Scale; i++ {
		var d []byte
		for k := 0; k < 1+e.rng.Intn(4); k++ {
			d = append(d, frameOf(small())...)
			if e.rng.Intn(3) == 0 {
				d = append(d, 0, 0, 0, 0)
			}
		}
		add("valid-small", d)
	}
	// valid messages at and just under the budget
	for _, n := range []int{budget, budget - 1, budget - e.rng.Intn(budget/4) - 2, budget / 2} {
		add("valid-near-limit", append(frameOf(mk(n)), frameOf(small())...))
	}
	// a message of exactly budget+1 bytes, body present: must be refused before any buffer is made
	add("over-by-one-with-body", append(frameOf(small()), frameOf(mk(budget+1))...))
	add("over-with-body", frameOf(mk(budget+2+e.rng.Intn(budget/2))))
	// announced lengths around and far above the budget, body absent or short
	for _, n := range []uint32{uint32(budget), uint32(budget + 1), uint32(budget + 2), uint32(2 * budget), uint32(10 * budget), uint32(100 * budget), 1 << 24, 1 << 26, 1<<31 - 1, 1 << 31, 0xfffffffc, 0xffffffff} {
		d := append(frameOf(small()), le32b(n)...)
		d = append(d, e.rng.Bytes(e.rng.Intn(40))...)
		add("announce-"+strconv.FormatUint(uint64(n), 10), d)
	}
	for i := 0; i < 4*e.a.Scale; i++ {
		n := uint32(budget) + uint32(e.rng.Intn(1<<20))
		if e.rng.Intn(2) == 0 {
			n = uint32(e.rng.Int63n(1 << 32))
		}
		add("announce-random", append(le32b(n), e.rng.Bytes(e.rng.Intn(16))...))
	}
	// undecodable body, truncated streams, random bytes
	for i := 0; i < 3*e.a.Scale; i++ {
		g := e.rng.Bytes(1 + e.rng.Intn(60))
		add("garbage-body", append(append(frameOf(small()), frameOf(g)...), frameOf(small())...))
		v := append(frameOf(small()), frameOf(small())...)
		add("truncated", v[:e.rng.Intn(len(v))])
		add("random", e.rng.Bytes(e.rng.Intn(24)))
	}
	add("empty", nil)
	return out
}

// expectAllocs is the independent reading of the clause: cut the stream into frames with
// encoding/binary; a receive buffer may be made only for an announced length within the budget.
// Returns the buffers a loop applying exactly `budget` makes, given which bodies decode.
func expectAllocs(data []byte, budget int, decode func([]byte) bool) (allocs []int, oks []int) {
	for len(data) >= 4 {
		n := int(binary.LittleEndian.Uint32(data))
		data = data[4:]
		if n == 0 {
			continue
		}
		if n > budget {
			return
		}
		allocs = append(allocs, n)
		if len(data) < n {
			return
		}
		ok := decode(data[:n])
		if ok {
			oks = append(oks, 1)
		} else {
			oks = append(oks, 0)
			return
		}
		data = data[n:]
	}
	return
}

func intsArg(l []int) string {
	if len(l) == 0 {
		return "_"
	}
	s := make([]string, len(l))
	for i := range l {
		s[i] = strconv.Itoa(l[i])
	}
	return strings.Join(s, ",")
}

// judge compares one finished loop with the model and evaluates the monitor.
func (e *engine) judge(which, name string, budget int, c *loopCase, finished bool) {
	allocs, maxBuf := c.strm.snapshot()
	_, oks := expectAllocs(c.data, budget, c.decode)
	dataArg := "-"
	if len(c.data) > 4096 {
		// the model is given the stream in a compressed form: long bodies do not matter to the
		// allocation trace beyond their length, so it is told the frame structure instead
		dataArg = ""
	}
	var op, model string
	if dataArg == "" {
		op = fmt.Sprintf("decoders.sessallocf which=%s frames=%s oks=%s", which, frameSummary(c.data), intsArg(oks))
	} else {
		op = fmt.Sprintf("decoders.sessalloc which=%s chunks=%s oks=%s", which, lib.Hex(c.data), intsArg(oks))
	}
	model = e.m.Query(op)
	impl := fmt.Sprintf("allocs=%s", intsArg(allocs))
	mon := ""
	worst := 0
	for _, a := range allocs {
		if a > worst {
			worst = a
		}
	}
	switch {
	case worst > budget:
		mon = fmt.Sprintf("%s read loop allocated a %d-byte receive buffer for one message announced by the remote peer; the size limit of this protocol is %d bytes", name, worst, budget)
	case maxBuf > budget && maxBuf > 4:
		mon = fmt.Sprintf("%s read loop asked the stream to fill a %d-byte buffer; the size limit of this protocol is %d bytes", name, maxBuf, budget)
	case !finished:
		mon = fmt.Sprintf("%s read loop did not finish (stream neither drained to its end nor closed) on a %d-byte input", name, len(c.data))
	}
	br := "loop." + which + "." + strings.SplitN(c.gen, "-", 2)[0]
	e.rep.Compare(trunc400(op), stripKVd(model, "limit"), impl, br, "decoders."+which+":"+c.gen, mon)
}

func trunc400(s string) string {
	if len(s) > 400 {
		return s[:400] + "…"
	}
	return s
}

func stripKVd(s string, key string) string {
	var out []string
	for _, t := range strings.Split(s, " ") {
		if !strings.HasPrefix(t, key+"=") {
			out = append(out, t)
		}
	}
	return strings.Join(out, " ")
}

// frameSummary describes a stream as announced-length:present-bytes pairs (+ trailing bytes).
func frameSummary(data []byte) string {
	var parts []string
	for len(data) >= 4 {
		n := int(binary.LittleEndian.Uint32(data))
		data = data[4:]
		have := n
		if have > len(data) {
			have = len(data)
		}
		parts = append(parts, fmt.Sprintf("%d:%d", n, have))
		data = data[have:]
		if have < n {
			return strings.Join(parts, ",")
		}
	}
	parts = append(parts, fmt.Sprintf("t:%d", len(data)))
	return strings.Join(parts, ",")
}

// ---------------------------------------------------------------------------------------------

func (e *engine) pubsubMsg(n int) []byte {
	// a floodsub Packet of exactly n encoded bytes: one subscription whose channel id pads the
	// encoding (plus a second small one for the sizes a varint boundary makes unreachable)
	fill := strings.Repeat("c", n)
	for _, extra := range [][]*floodsub.SubscriptionOpts{nil, {{ChannelId: "x"}}, {{ChannelId: "xy"}}} {
		lo := n - 16
		if lo < 0 {
			lo = 0
		}
		for pad := lo; pad <= n; pad++ {
			p := &floodsub.Packet{Subscriptions: append([]*floodsub.SubscriptionOpts{{Subscribe: true, ChannelId: fill[:pad]}}, extra...)}
			if sz := p.SizeVT(); sz == n {
				b, _ := p.MarshalVT()
				return b
			} else if sz > n {
				break
			}
		}
	}
	panic(fmt.Sprintf("cannot build a floodsub packet of %d bytes", n))
}

func (e *engine) solicitMsg(n int) []byte {
	// SolicitationExchange{protocol_hashes: [32-byte hashes…, one odd-sized last entry]}
	var hs [][]byte
	left := n
	for left >= 34+34 {
		hs = append(hs, e.rng.Bytes(32))
		left -= 34
	}
	for pad := left; pad >= 0; pad-- {
		x := &link_solicit.SolicitationExchange{ProtocolHashes: append(append([][]byte(nil), hs...), e.rng.Bytes(pad))}
		if x.SizeVT() == n {
			b, _ := x.MarshalVT()
			return b
		}
		if x.SizeVT() < n {
			break
		}
	}
	for pad := left; pad >= 0; pad-- {
		x := &link_solicit.SolicitationExchange{ProtocolHashes: append(append([][]byte(nil), hs...), e.rng.Bytes(pad), []byte{1})}
		if x.SizeVT() == n {
			b, _ := x.MarshalVT()
			return b
		}
		if x.SizeVT() < n {
			break
		}
	}
	panic(fmt.Sprintf("cannot build a solicitation exchange of %d bytes", n))
}

// runFloodsubLoop feeds every case to its own peer stream of one real FloodSub.
func (e *engine) runFloodsubLoop() {
	decode := func(b []byte) bool { return (&floodsub.Packet{}).UnmarshalVT(b) == nil }
	cases := e.loopInputs(pubsubBudget, 8, e.pubsubMsg, decode)
	// a valid signed publication near the limit (the payload carries the bulk)
	{
		big := e.bulk(pubsubBudget - 400)
		m, err := peer.NewSignedMsg("ctx", e.key, hash.HashType_HashType_BLAKE3, big)
		if err == nil {
			p := &floodsub.Packet{Publish: []*peer.SignedMsg{m}}
			if b, err := p.MarshalVT(); err == nil && len(b) <= pubsubBudget {
				d := frameOf(b)
				cases = append(cases, &loopCase{gen: "valid-near-limit-publish", data: d, strm: newScriptStream(d), decode: decode})
			}
		}
	}
	ctx, cancel := context.WithCancel(context.Background())
	defer cancel()
	ps, err := floodsub.NewFloodSub(ctx, quietLog, nil, &floodsub.Config{})
	if err != nil {
		panic(err)
	}
	fs := ps.(*floodsub.FloodSub)
	go func() { _ = fs.Execute(ctx) }()
	local, _ := peer.IDFromPrivateKey(e.key)
	for i, c := range cases {
		rk, _ := peer.NewPeer(nil)
		lnk := &fLink{uuid: uint64(1000 + i), local: local, remote: rk.GetPeerID()}
		tpl := pubsub.NewPeerLinkTuple(lnk)
		fs.AddPeerStream(tpl, i%2 == 0, &fMStream{strm: c.strm, remote: lnk.remote, lnk: lnk, proto: floodsub.FloodSubID})
	}
	for _, c := range cases {
		fin := c.strm.wait(20 * time.Second)
		e.judge("floodsub", "floodsub (AddPeerStream)", pubsubBudget, c, fin)
	}
	fs.Close()
}

// runSolicitLoops feeds every case to the incoming control stream handler and to the outgoing
// control stream of a link of one real solicitation controller.
func (e *engine) runSolicitLoops() {
	decode := func(b []byte) bool { return (&link_solicit.SolicitationExchange{}).UnmarshalVT(b) == nil }
	in := e.loopInputs(solicitBudget, 2, e.solicitMsg, decode)
	outg := e.loopInputs(solicitBudget, 2, e.solicitMsg, decode)
	ctx, cancel := context.WithCancel(context.Background())
	defer cancel()
	c, err := link_solicit_controller.NewController(quietLog, &link_solicit_controller.Config{})
	if err != nil {
		panic(err)
	}
	if err := c.Execute(ctx); err != nil {
		panic(err)
	}
	// two peer ids, ordered
	ka, _ := peer.NewPeer(nil)
	kb, _ := peer.NewPeer(nil)
	lo, hi := ka.GetPeerID(), kb.GetPeerID()
	if hi < lo {
		lo, hi = hi, lo
	}
	// the controller's own handler for incoming bifrost/solicit streams
	res, err := c.HandleDirective(ctx, &fInst{ctx: ctx, dir: link.NewHandleMountedStream(link_solicit_controller.ControlProtocolID, hi, lo)})
	if err != nil || len(res) != 1 {
		panic(fmt.Sprint("solicit controller does not handle its control protocol: ", err, len(res)))
	}
	vh := &fValHandler{}
	if err := res[0].Resolve(ctx, vh); err != nil || len(vh.vals) != 1 {
		panic(fmt.Sprint("cannot obtain the control stream handler: ", err))
	}
	handler := vh.vals[0].(link.MountedStreamHandler)
	// incoming: local is the HIGHER peer id, so the controller does not open a stream itself
	for i, cs := range in {
		lnk := &fLink{uuid: uint64(2000 + i), local: hi, remote: lo}
		ms := &fMStream{strm: cs.strm, remote: lo, lnk: lnk, proto: link_solicit_controller.ControlProtocolID}
		if err := handler.HandleMountedStream(ctx, ms); err != nil {
			panic(err)
		}
	}
	// outgoing: local is the LOWER peer id; registering the link (through an incoming stream
	// that ends at once) makes the controller open its control stream on the link
	for i, cs := range outg {
		cs := cs
		lnk := &fLink{uuid: uint64(5000 + i), local: lo, remote: hi}
		lnk.open = func() (link.MountedStream, error) {
			return &fMStream{strm: cs.strm, remote: hi, lnk: lnk, proto: link_solicit_controller.ControlProtocolID}, nil
		}
		ms := &fMStream{strm: newScriptStream(nil), remote: hi, lnk: lnk, proto: link_solicit_controller.ControlProtocolID}
		if err := handler.HandleMountedStream(ctx, ms); err != nil {
			panic(err)
		}
	}
	for _, cs := range in {
		fin := cs.strm.wait(20 * time.Second)
		e.judge("solicitHandler", "solicit control stream (HandleMountedStream)", solicitBudget, cs, fin)
	}
	for _, cs := range outg {
		fin := cs.strm.wait(20 * time.Second)
		e.judge("solicitInit", "solicit control stream (initiateControlStream)", solicitBudget, cs, fin)
	}
}

// checkLimits compares the limits the translator extracted with the budgets and with the
// accessor of the real package.
func (e *engine) checkLimits() {
	op := "decoders.limits"
	model := e.m.Query(op)
	want := fmt.Sprintf("floodsub=%d floodsubSession=%d solicit=%d solicitInit=%d solicitHandler=%d", pubsubBudget, pubsubBudget, link_solicit_controller.VerifMaxMessageSize(), link_solicit_controller.VerifMaxMessageSize(), link_solicit_controller.VerifMaxMessageSize())
	mon := ""
	if v := int(link_solicit_controller.VerifMaxMessageSize()); v > solicitBudget {
		mon = fmt.Sprintf("the solicit control stream's message size limit is %d bytes; the documented limit (256 hashes of 32 bytes, twice) is %d", v, solicitBudget)
	}
	e.rep.Compare(op, model, want, "loop.limits", "decoders.limits", mon)
}

func (e *engine) runLoops() {
	for _, w := range []string{"floodsub", "solicitHandler", "solicitInit"} {
		e.rep.Require("loop."+w+".valid", "loop."+w+".over", "loop."+w+".announce", "loop."+w+".garbage", "loop."+w+".truncated")
	}
	e.rep.Require("loop.limits")
	e.checkLimits()
	e.runFloodsubLoop()
	e.runSolicitLoops()
}
