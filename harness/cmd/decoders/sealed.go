package main

// Sealed messages (peer.EncryptToPubKey): the plaintext travels S2-compressed inside the AEAD, and
// the compressed block DECLARES its decompressed size. Anyone who knows a public key can seal any
// block to it, so the declared size is attacker-controlled on every path that decrypts bytes from
// a remote peer: peer.DecryptWithPrivKey, webrtc.DecodeWebRtcSignal (signaling relay) and
// envelope.UnlockEnvelope (grant ciphertexts). The mutations of run() never get past the AEAD; the
// cases here are sealed correctly — from first principles, with blake3 / AES / X25519 /
// XChaCha20-Poly1305 / S2 called directly — and lie only about the size.
//
// Clause (stated directly, no model): one call allocates at most min(declared size, sealedBudget)
// plus a small multiple of the input, returns a value or an error, and never panics.

import (
	"bytes"
	"crypto/aes"
	"crypto/ecdh"
	"crypto/ed25519"
	"crypto/rand"
	"crypto/sha512"
	"encoding/binary"
	"fmt"
	"os"
	"os/exec"
	"strconv"
	"strings"
	"time"

	"filippo.io/edwards25519"
	"github.com/aperturerobotics/bifrost/crypto"
	"github.com/aperturerobotics/bifrost/envelope"
	"github.com/aperturerobotics/bifrost/peer"
	"github.com/aperturerobotics/bifrost/transport/webrtc"
	"github.com/klauspost/compress/s2"
	"github.com/zeebo/blake3"
	"golang.org/x/crypto/chacha20poly1305"

	"verif/harness/lib"
)

// sealedBudget is the documented limit of one sealed message (decompressed): the spec side of the
// clause, written here and nowhere taken from /repo.
const sealedBudget = 16 << 20

func b3(ctx string, parts ...[]byte) []byte {
	h := blake3.NewDeriveKey(ctx)
	for _, p := range parts {
		_, _ = h.Write(p)
	}
	return h.Sum(nil)
}

// craftSealed seals body (taken as the compressed block, as is) to pub under ctx with the
// per-message key derived from seed: the construction documented on EncryptToEd25519.
func craftSealed(pub ed25519.PublicKey, ctx string, seed, body []byte) []byte {
	const dom = "bifrost/peer encrypt curve25519 "
	mpriv := ed25519.NewKeyFromSeed(seed)
	mpub := mpriv.Public().(ed25519.PublicKey)
	h := b3(dom+"nonce "+ctx, mpub)
	nonce, x := h[:24], h[24:]
	for i := range nonce {
		nonce[i] ^= x[(i+2)%8]
	}
	pt, err := new(edwards25519.Point).SetBytes(pub)
	if err != nil {
		panic(err)
	}
	tk, err := ecdh.X25519().NewPublicKey(pt.BytesMontgomery())
	if err != nil {
		panic(err)
	}
	sh := sha512.Sum512(seed)
	mk, err := ecdh.X25519().NewPrivateKey(sh[:32])
	if err != nil {
		panic(err)
	}
	ss, err := mk.ECDH(tk)
	if err != nil {
		panic(err)
	}
	aesKey := b3(dom+"prefix "+ctx, pub, nonce[:4])
	out := make([]byte, 36, 36+len(body)+16)
	copy(out, nonce[:4])
	copy(out[4:], mpub)
	blk, err := aes.NewCipher(aesKey[:32])
	if err != nil {
		panic(err)
	}
	blk.Encrypt(out[4:], out[4:])
	a, err := chacha20poly1305.NewX(ss)
	if err != nil {
		panic(err)
	}
	return a.Seal(out, nonce, body, mpub)
}

type sealedPath struct {
	name string
	ctx  func() string
	// wrap places the sealed bytes where the path reads them and returns the call
	run func(ct []byte) string
}

type sealedClass struct {
	name     string
	declared uint64
	body     func(e *engine) []byte
	child    bool // declared size far above the budget: run in a child process
}

func lieBody(n uint64, tail int) func(e *engine) []byte {
	return func(e *engine) []byte {
		b := binary.AppendUvarint(nil, n)
		if tail > 0 {
			// a literal run after the header (tag 0: literal of 1+tail>>2 … keep it well-formed enough to be parsed)
			b = append(b, byte((tail-1)<<2))
			b = append(b, e.rng.Bytes(tail)...)
		}
		return b
	}
}

// zeros compressed with S2 directly: a genuine block of n bytes in a few dozen bytes
func bombBody(n int) func(e *engine) []byte {
	return func(e *engine) []byte { return s2.EncodeBetter(nil, make([]byte, n)) }
}

func sealedClasses() []sealedClass {
	return []sealedClass{
		{name: "declared-64KiB", declared: 64 << 10, body: lieBody(64<<10, 0)},
		{name: "declared-1MiB", declared: 1 << 20, body: lieBody(1<<20, 0)},
		{name: "declared-1MiB+literal", declared: 1 << 20, body: lieBody(1<<20, 20)},
		{name: "declared-budget", declared: sealedBudget, body: lieBody(sealedBudget, 0)},
		{name: "declared-budget+1", declared: sealedBudget + 1, body: lieBody(sealedBudget+1, 0)},
		{name: "declared-2xbudget", declared: 2 * sealedBudget, body: lieBody(2*sealedBudget, 7)},
		{name: "declared-64MiB", declared: 64 << 20, body: lieBody(64<<20, 0)},
		{name: "bomb-1MiB", declared: 1 << 20, body: bombBody(1 << 20)},
		{name: "bomb-budget", declared: sealedBudget, body: bombBody(sealedBudget)},
		{name: "bomb-budget+1", declared: sealedBudget + 1, body: bombBody(sealedBudget + 1)},
		{name: "declared-1GiB", declared: 1 << 30, body: lieBody(1<<30, 0), child: true},
		{name: "declared-2^32-1", declared: 1<<32 - 1, body: lieBody(1<<32-1, 0), child: true},
	}
}

func (e *engine) sealedPaths() []sealedPath {
	// an envelope for e.key whose single grant ciphertext is replaced by the crafted one
	env, err := envelope.BuildEnvelope(rand.Reader, "ctx", []byte("payload"), []crypto.PubKey{e.key.GetPublic()},
		&envelope.EnvelopeConfig{EnvelopeId: "sealed", GrantConfigs: []*envelope.EnvelopeGrantConfig{{ShareCount: 1, KeypairIndexes: []uint32{0}}}})
	if err != nil {
		panic(err)
	}
	return []sealedPath{
		{name: "decryptWithPrivKey", ctx: func() string { return "verif sealed" }, run: func(ct []byte) string {
			_, err := peer.DecryptWithPrivKey(e.key, "verif sealed", ct)
			return okErr(err)
		}},
		{name: "decodeWebRtcSignal", ctx: func() string { return webrtc.SignalingCryptContext }, run: func(ct []byte) string {
			m, err := webrtc.DecodeWebRtcSignal(ct, e.key)
			if err != nil {
				return "err"
			}
			return okErr(m.Validate())
		}},
		{name: "unlockEnvelope", ctx: func() string { return envelope.VerifBuildGrantEncContext("sealed", "ctx", 0) }, run: func(ct []byte) string {
			t := env.CloneVT()
			t.Grants[0].Ciphertexts[0] = ct
			wire, err := t.MarshalVT()
			if err != nil {
				panic(err)
			}
			dec := &envelope.Envelope{}
			if err := dec.UnmarshalVT(wire); err != nil {
				return "err"
			}
			_, _, err = envelope.UnlockEnvelope("ctx", dec, []crypto.PrivKey{e.key})
			return okErr(err)
		}},
	}
}

func sealedLimit(declared uint64, inLen int) uint64 {
	d := declared
	if d > sealedBudget {
		d = sealedBudget
	}
	// the decompressed message, the input, bookkeeping
	return d + 64*uint64(inLen) + 262144
}

// runSealed: every path × every class. The classes far above the budget run in a child process
// (this binary, VERIF_DECODERS_CHILD=sealed) so that an unbounded allocation never lands in the
// engine itself.
func (e *engine) runSealed() {
	pub := e.key.GetPublic().(*crypto.Ed25519PublicKey).GetStdKey()
	privRaw, err := e.key.Raw()
	if err != nil {
		panic(err)
	}
	// the crafting pipeline is the real construction: with the per-message seed EncryptToEd25519
	// derives and an honest S2 block it yields a ciphertext the real code decrypts to the message
	// (otherwise the cases below would die at the AEAD and measure nothing)
	e.rep.Require("sealed.craft-is-valid")
	for i := 0; i < 4; i++ {
		msg := e.rng.Bytes(1 + e.rng.Intn(300))
		ctx := "verif sealed"
		seed := b3("bifrost/peer encrypt curve25519 "+ctx, msg, pub)
		ct := craftSealed(pub, ctx, seed, s2.EncodeBetter(nil, msg))
		got := lib.Recover(func() string {
			d, err := peer.DecryptWithPrivKey(e.key, ctx, ct)
			if err != nil {
				return "err " + err.Error()
			}
			return "ok " + lib.Hex(d)
		})
		mon := ""
		if got != "ok "+lib.Hex(msg) {
			mon = "harness: a message sealed with the documented construction (stdlib pipeline) is not decrypted by peer.DecryptWithPrivKey: " + lib.Trunc(got)
		}
		e.rep.Compare("sealed.craft msg="+lib.Hex(msg), "ok "+lib.Hex(msg), got, "sealed.craft-is-valid", "decoders.sealed:craft", mon)
	}
	for _, p := range e.sealedPaths() {
		for _, c := range sealedClasses() {
			br := "sealed." + p.name + "." + c.name
			e.rep.Require(br)
			body := c.body(e)
			ct := craftSealed(pub, p.ctx(), e.rng.Bytes(32), body)
			op := fmt.Sprintf("sealed.%s class=%s declared=%d in=%s", p.name, c.name, c.declared, lib.Hex(ct))
			if len(ct) > 512 {
				op = fmt.Sprintf("sealed.%s class=%s declared=%d in=%s… len=%d", p.name, c.name, c.declared, lib.Hex(ct[:64]), len(ct))
			}
			var out string
			var alloc uint64
			if c.child {
				out, alloc = sealedChild(p.name, privRaw, ct)
			} else {
				out, alloc = measure(func() string { return p.run(ct) })
				limit := sealedLimit(c.declared, len(ct))
				for k := 0; k < 3 && alloc > limit; k++ {
					if _, a2 := measure(func() string { return p.run(ct) }); a2 < alloc {
						alloc = a2
					}
				}
			}
			limit := sealedLimit(c.declared, len(ct))
			mon := ""
			switch {
			case strings.HasPrefix(out, "panic"):
				mon = fmt.Sprintf("%s panics on a %d-byte sealed message declaring %d bytes: %s", p.name, len(ct), c.declared, lib.Trunc(out))
			case out == "crash" || out == "hang":
				mon = fmt.Sprintf("%s does not return on a %d-byte sealed message declaring %d bytes (child process: %s)", p.name, len(ct), c.declared, out)
			case alloc > limit:
				mon = fmt.Sprintf("%s allocated %d bytes for a %d-byte message sealed to the public key (declared decompressed size %d; limit of one sealed message %d)", p.name, alloc, len(ct), c.declared, sealedBudget)
			case out != "ok" && out != "err":
				mon = "unexpected outcome " + lib.Trunc(out)
			}
			cls := out
			if out != "ok" && out != "err" {
				cls = strings.SplitN(out, " ", 2)[0]
			}
			e.rep.Compare(op, cls, cls, br, "decoders.sealed:"+p.name, mon)
		}
	}
}

// sealedChild runs one (path, ciphertext) in a child process and returns its outcome and allocation.
func sealedChild(path string, privRaw, ct []byte) (string, uint64) {
	cmd := exec.Command(os.Args[0])
	cmd.Env = append(os.Environ(), "VERIF_DECODERS_CHILD=sealed", "VERIF_SEALED_PATH="+path, "VERIF_SEALED_KEY="+lib.Hex(privRaw), "VERIF_SEALED_CT="+lib.Hex(ct), "GOMEMLIMIT=1GiB")
	var buf bytes.Buffer
	cmd.Stdout = &buf
	if err := cmd.Start(); err != nil {
		panic(err)
	}
	done := make(chan error, 1)
	go func() { done <- cmd.Wait() }()
	select {
	case <-done:
	case <-time.After(60 * time.Second):
		_ = cmd.Process.Kill()
		<-done
		return "hang", 0
	}
	f := strings.Fields(strings.TrimSpace(buf.String()))
	if len(f) != 2 {
		return "crash", 0
	}
	n, err := strconv.ParseUint(f[1], 10, 64)
	if err != nil {
		return "crash", 0
	}
	return f[0], n
}

func childSealed() {
	priv, err := crypto.UnmarshalEd25519PrivateKey(lib.Unhex(os.Getenv("VERIF_SEALED_KEY")))
	if err != nil {
		panic(err)
	}
	e := &engine{rng: lib.NewRng(1), key: priv}
	ct := lib.Unhex(os.Getenv("VERIF_SEALED_CT"))
	for _, p := range e.sealedPaths() {
		if p.name == os.Getenv("VERIF_SEALED_PATH") {
			out, alloc := measure(func() string { return p.run(ct) })
			fmt.Printf("%s %d\n", strings.SplitN(out, " ", 2)[0], alloc)
			return
		}
	}
	fmt.Println("crash 0")
}
