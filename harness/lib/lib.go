// Package lib is the shared part of the correspondence harness: seeded PRNG,
// the model-driver subprocess (line protocol), case bookkeeping and the JSON report.
package lib

import (
	"bufio"
	"encoding/hex"
	"encoding/json"
	"flag"
	"fmt"
	"io"
	"math/rand"
	"os"
	"os/exec"
	"sort"
	"strings"
)

// Args are the common command-line arguments of every engine.
type Args struct {
	Prop   string
	Seed   int64
	Tier   string
	Driver string
	Out    string
	Replay string
	Scale  int
}

// ParseArgs parses the common flags.
func ParseArgs() *Args {
	a := &Args{}
	flag.StringVar(&a.Prop, "prop", "", "property id (Cxx)")
	flag.Int64Var(&a.Seed, "seed", 1, "PRNG seed")
	flag.StringVar(&a.Tier, "tier", "quick", "quick|thorough")
	flag.StringVar(&a.Driver, "driver", "", "path to the Lean model driver")
	flag.StringVar(&a.Out, "out", "", "report json path")
	flag.StringVar(&a.Replay, "replay", "", "replay file (json with ops)")
	flag.Parse()
	a.Scale = 1
	if a.Tier == "thorough" {
		a.Scale = 20
	}
	return a
}

// Model is the Lean driver subprocess.
type Model struct {
	cmd *exec.Cmd
	in  io.WriteCloser
	out *bufio.Reader
	N   int
}

// NewModel starts the driver.
func NewModel(path string) *Model {
	cmd := exec.Command(path)
	in, err := cmd.StdinPipe()
	if err != nil {
		panic(err)
	}
	out, err := cmd.StdoutPipe()
	if err != nil {
		panic(err)
	}
	cmd.Stderr = os.Stderr
	if err := cmd.Start(); err != nil {
		fmt.Fprintln(os.Stderr, "cannot start model driver:", err)
		os.Exit(3)
	}
	return &Model{cmd: cmd, in: in, out: bufio.NewReaderSize(out, 1<<20)}
}

// Query sends one op line and reads one result line.
func (m *Model) Query(line string) string {
	if strings.ContainsAny(line, "\n\r") {
		panic("newline in op")
	}
	m.N++
	if _, err := io.WriteString(m.in, line+"\n"); err != nil {
		fmt.Fprintln(os.Stderr, "model driver write failed:", err)
		os.Exit(3)
	}
	res, err := m.out.ReadString('\n')
	if err != nil {
		fmt.Fprintln(os.Stderr, "model driver read failed:", err, "op:", line)
		os.Exit(3)
	}
	res = strings.TrimRight(res, "\r\n")
	if res == "bad-op" {
		fmt.Fprintln(os.Stderr, "model driver rejected op (harness/driver bug):", line)
		os.Exit(3)
	}
	return res
}

// Close stops the driver.
func (m *Model) Close() {
	m.in.Close()
	_ = m.cmd.Wait()
}

// Disagreement is one case where model and implementation differ, or where the
// property monitor flags the implementation.
type Disagreement struct {
	Op      string `json:"op"`
	Model   string `json:"model"`
	Impl    string `json:"impl"`
	Monitor string `json:"monitor"` // "confirmed" (property fails on the real code for this input) | "unconfirmed"
	What    string `json:"what"`    // canonical description, matched against known-findings
	Key     string `json:"key"`     // finding key: engine.op:class
	Branch  string `json:"branch"`
}

// Report is what an engine run produces.
type Report struct {
	Engine        string            `json:"engine"`
	Property      string            `json:"property"`
	Seed          int64             `json:"seed"`
	Tier          string            `json:"tier"`
	Cases         int               `json:"cases"`
	Distinct      int               `json:"distinct_nontrivial"`
	Rule          string            `json:"rule"`
	Branches      map[string]int    `json:"branches"`
	Required      []string          `json:"required_branches"`
	Missing       []string          `json:"missing_branches"`
	Samples       []map[string]any  `json:"samples"`
	Disagreements []Disagreement    `json:"disagreements"`
	Notes         []string          `json:"notes"`
	Extra         map[string]any    `json:"extra,omitempty"`
	seen          map[string]bool
	sampleBy      map[string]int
}

// NewReport builds a report.
func NewReport(engine string, a *Args) *Report {
	return &Report{Engine: engine, Property: a.Prop, Seed: a.Seed, Tier: a.Tier,
		Branches: map[string]int{}, seen: map[string]bool{}, sampleBy: map[string]int{}, Extra: map[string]any{}}
}

// Case records a compared case. branch = the model branch the case hit;
// nontrivial = counts towards distinct_nontrivial.
func (r *Report) Case(op, model, impl, branch string, nontrivial bool) {
	r.Cases++
	r.Branches[branch]++
	if nontrivial && !r.seen[op] {
		r.seen[op] = true
		r.Distinct++
	}
	if r.sampleBy[branch] < 1 && len(r.Samples) < 40 {
		r.sampleBy[branch]++
		o := op
		if len(o) > 400 {
			o = o[:400] + "…"
		}
		mo := model
		if len(mo) > 300 {
			mo = mo[:300] + "…"
		}
		r.Samples = append(r.Samples, map[string]any{"op": o, "model": mo, "impl_agrees": model == impl, "branch": branch})
	}
}

// Disagree records a disagreement / monitor hit.
func (r *Report) Disagree(d Disagreement) {
	if len(r.Disagreements) < 200 {
		r.Disagreements = append(r.Disagreements, d)
	}
}

// Require declares branches that must be hit for the tie to count as exercised.
func (r *Report) Require(b ...string) { r.Required = append(r.Required, b...) }

// Write finalises and writes the report.
func (r *Report) Write(path string) {
	for _, b := range r.Required {
		if r.Branches[b] == 0 {
			r.Missing = append(r.Missing, b)
		}
	}
	sort.Strings(r.Missing)
	if r.Disagreements == nil {
		r.Disagreements = []Disagreement{}
	}
	if r.Samples == nil {
		r.Samples = []map[string]any{}
	}
	dat, err := json.MarshalIndent(r, "", " ")
	if err != nil {
		panic(err)
	}
	if path == "" {
		os.Stdout.Write(dat)
		return
	}
	if err := os.WriteFile(path, dat, 0o644); err != nil {
		panic(err)
	}
}

// Hex encodes bytes for the line protocol ("-" = empty).
func Hex(b []byte) string {
	if len(b) == 0 {
		return "-"
	}
	return hex.EncodeToString(b)
}

// HexList encodes a list of byte strings ("_" = empty list).
func HexList(l [][]byte) string {
	if len(l) == 0 {
		return "_"
	}
	s := make([]string, len(l))
	for i := range l {
		s[i] = Hex(l[i])
	}
	return strings.Join(s, ",")
}

// Rng is the single PRNG all random choices derive from.
type Rng struct{ *rand.Rand }

// NewRng seeds the PRNG.
func NewRng(seed int64) *Rng { return &Rng{rand.New(rand.NewSource(seed))} }

// Bytes returns n random bytes.
func (r *Rng) Bytes(n int) []byte {
	b := make([]byte, n)
	for i := range b {
		b[i] = byte(r.Intn(256))
	}
	return b
}

// Pick returns a random element index weighted uniformly.
func (r *Rng) Pick(n int) int { return r.Intn(n) }

// Chunk splits b into random non-empty chunks according to mode:
// 0 = one chunk, 1 = single bytes, 2 = random sizes, 3 = random with a few large.
func (r *Rng) Chunk(b []byte, mode int) [][]byte {
	if len(b) == 0 {
		return nil
	}
	var out [][]byte
	switch mode {
	case 0:
		return [][]byte{append([]byte(nil), b...)}
	case 1:
		for i := range b {
			out = append(out, []byte{b[i]})
		}
		return out
	}
	for i := 0; i < len(b); {
		max := 8
		if mode == 3 && r.Intn(4) == 0 {
			max = 5000
		}
		n := 1 + r.Intn(max)
		if i+n > len(b) {
			n = len(b) - i
		}
		out = append(out, append([]byte(nil), b[i:i+n]...))
		i += n
	}
	return out
}

// Recover runs f and converts a panic into ("panic", true).
func Recover(f func() string) (res string) {
	defer func() {
		if e := recover(); e != nil {
			res = fmt.Sprintf("panic %v", e)
			if i := strings.IndexByte(res, '\n'); i >= 0 {
				res = res[:i]
			}
			res = strings.ReplaceAll(res, " ", "_")
			res = "panic " + strings.TrimPrefix(res, "panic_")
		}
	}()
	return f()
}

// KV extracts key=value from a model answer.
func KV(s, key string) string {
	for _, t := range strings.Split(s, " ") {
		if strings.HasPrefix(t, key+"=") {
			return t[len(key)+1:]
		}
	}
	return ""
}

// Unhex decodes the line-protocol hex ("-" = empty).
func Unhex(s string) []byte {
	if s == "-" || s == "" {
		return nil
	}
	b, err := hex.DecodeString(s)
	if err != nil {
		panic("bad hex from model: " + s)
	}
	return b
}

// Trunc shortens a string for reports.
func Trunc(s string) string {
	if len(s) > 200 {
		return s[:200] + "…"
	}
	return s
}

// Compare records a case and, if model and impl differ or the monitor fired, a disagreement.
// mon is the model-independent property monitor's verdict ("" = fine).
func (r *Report) Compare(op, model, impl, branch, key, mon string) {
	r.Case(op, model, impl, branch, true)
	if model == impl && mon == "" {
		return
	}
	d := Disagreement{Op: op, Model: Trunc(model), Impl: Trunc(impl), Branch: branch, Key: key}
	if mon != "" {
		d.Monitor, d.What = "confirmed", mon
	} else {
		d.Monitor, d.What = "unconfirmed", "model and implementation disagree ("+key+")"
	}
	r.Disagree(d)
}
