// Package sigoracle is the model-independent authenticity oracle of the signaling engines
// (sigcli, sigsrv, sige2e): "does this SessionMsg verify, under the signaling context, with the
// public key of peer X, over exactly the body it carries, and does it name X as its sender?"
// It is computed with the Go standard library (crypto/ed25519, sha256, sha1) and zeebo/blake3
// directly on the fields of the message; no bifrost verification code is called. It also holds
// the helpers that hand-assemble forged messages (foreign key attached, other context, …).
package sigoracle

import (
	"crypto/ed25519"
	"crypto/sha1"
	"crypto/sha256"
	"strconv"

	"github.com/aperturerobotics/bifrost/crypto"
	"github.com/aperturerobotics/bifrost/hash"
	"github.com/aperturerobotics/bifrost/peer"
	signaling "github.com/aperturerobotics/bifrost/signaling/rpc"
	"github.com/zeebo/blake3"
)

// Context is the signing context of signaling session messages (signaling/rpc/signaling.go,
// encContext): part of the wire format, restated here as the specification constant.
const Context = "bifrost/signaling/rpc session msg 2024-06-05T02:45:07.208906Z"

// OtherContext is a context a message may have been (re-)signed under instead.
const OtherContext = "bifrost/pubsub message 2024-06-05T02:45:07.208906Z"

// Key is one peer: the raw stdlib key pair next to the bifrost objects derived from it.
type Key struct {
	Priv  ed25519.PrivateKey
	Pub   ed25519.PublicKey
	SK    crypto.PrivKey
	ID    peer.ID
	IDStr string
}

// NewKey derives a peer from 32 seed bytes.
func NewKey(seed []byte) *Key {
	priv := ed25519.NewKeyFromSeed(seed)
	sk, err := crypto.UnmarshalEd25519PrivateKey(priv)
	if err != nil {
		panic(err)
	}
	id, err := peer.IDFromPublicKey(sk.GetPublic())
	if err != nil {
		panic(err)
	}
	return &Key{Priv: priv, Pub: priv.Public().(ed25519.PublicKey), SK: sk, ID: id, IDStr: id.String()}
}

// MarshalPub is the wire encoding of the public key (the optional Signature.pub_key field).
func (k *Key) MarshalPub() []byte {
	b, err := crypto.MarshalPublicKey(k.SK.GetPublic())
	if err != nil {
		panic(err)
	}
	return b
}

func stdSum(ht int32, data []byte) []byte {
	switch ht {
	case 1:
		h := sha256.Sum256(data)
		return h[:]
	case 2:
		h := sha1.Sum(data)
		return h[:]
	case 3:
		h := blake3.Sum256(data)
		return h[:]
	}
	return nil
}

// SignBody is the byte string a signature covers: context, hash type and digest of the data
// joined by " - SIGN - " (peer/signature.go; proved injective in Bifrost.Sign).
func SignBody(ctx string, ht int32, data []byte) []byte {
	d := stdSum(ht, data)
	if d == nil {
		return nil
	}
	const sep = " - SIGN - "
	out := append([]byte(ctx), sep...)
	out = append(out, strconv.Itoa(int(ht))...)
	out = append(out, sep...)
	return append(out, d...)
}

// VerifiesUnder reports whether the signed message carries a non-empty body and a signature
// that verifies (stdlib) with `pub` over that body under `ctx`. Sender naming is checked by the
// callers (From).
func VerifiesUnder(pub ed25519.PublicKey, ctx string, sm *peer.SignedMsg) bool {
	if sm == nil || len(sm.GetData()) == 0 || sm.GetSignature() == nil || len(pub) != ed25519.PublicKeySize {
		return false
	}
	sig := sm.GetSignature()
	body := SignBody(ctx, int32(sig.GetHashType()), sm.GetData())
	if body == nil || len(sig.GetSigData()) == 0 {
		return false
	}
	return ed25519.Verify(pub, body, sig.GetSigData())
}

// From is the sender the message claims (empty if there is no signed message).
func From(m *signaling.SessionMsg) string {
	if m == nil || m.SignedMsg == nil {
		return ""
	}
	return m.SignedMsg.FromPeerId
}

// AuthenticFrom: m names k as its sender and verifies under k's key, signaling context.
func AuthenticFrom(k *Key, m *signaling.SessionMsg) bool {
	return m != nil && From(m) == k.IDStr && VerifiesUnder(k.Pub, Context, m.SignedMsg)
}

// Verdict is the harness's own judgement of a message among the known peers `keys`
// (index 0 may be nil): claimed = index of the peer named as sender (0 = none of them),
// v = the signature verifies under THAT peer's key over the carried body (signaling context).
func Verdict(keys []*Key, m *signaling.SessionMsg) (v int, claimed int) {
	from := From(m)
	for i, k := range keys {
		if k != nil && from != "" && k.IDStr == from {
			claimed = i
		}
	}
	if claimed != 0 && VerifiesUnder(keys[claimed].Pub, Context, m.SignedMsg) {
		v = 1
	}
	return v, claimed
}

// rawSig signs (ctx, BLAKE3, data) with the stdlib.
func rawSig(signer *Key, ctx string, data []byte) []byte {
	return ed25519.Sign(signer.Priv, SignBody(ctx, int32(hash.HashType_HashType_BLAKE3), data))
}

// Assemble hand-builds a SessionMsg: sender name `from`, body `data`, signature made by `signer`
// under `ctx` (nil signer = no signature bytes), attached public key `attach` (nil = none).
func Assemble(from string, data []byte, signer *Key, ctx string, attach *Key, seqno uint64) *signaling.SessionMsg {
	sig := &peer.Signature{HashType: hash.HashType_HashType_BLAKE3}
	if signer != nil {
		sig.SigData = rawSig(signer, ctx, data)
	}
	if attach != nil {
		sig.PubKey = attach.MarshalPub()
	}
	return &signaling.SessionMsg{Seqno: seqno, SignedMsg: &peer.SignedMsg{FromPeerId: from, Data: data, Signature: sig}}
}

// Forged builds the message of one forgery class. `victim` is the peer the message pretends to
// come from, `forger` a different key holder. ok=false for an unknown class. The classes:
//
//	attached-foreign-key   body signed by forger, forger's public key attached, sender = victim
//	attached-victim-key    body signed by forger, VICTIM's public key attached, sender = victim
//	claimed-sender         body signed by forger, no key attached, sender = victim
//	other-context          signed by the victim itself but under another signing context
//	other-context-keyed    same, victim's key attached
//	empty-signature        sender = victim, signature object without signature bytes
//	unsigned               sender = victim, no signature object at all
//	nil-body               a SessionMsg without any signed message
//	empty-data             sender = victim, empty body, victim's signature over the empty body
//	no-sender              body signed by forger, forger's key attached, no sender named
func Forged(class string, victim, forger *Key, data []byte, seqno uint64) (*signaling.SessionMsg, bool) {
	switch class {
	case "attached-foreign-key":
		return Assemble(victim.IDStr, data, forger, Context, forger, seqno), true
	case "attached-victim-key":
		return Assemble(victim.IDStr, data, forger, Context, victim, seqno), true
	case "claimed-sender":
		return Assemble(victim.IDStr, data, forger, Context, nil, seqno), true
	case "other-context":
		sm, err := peer.NewSignedMsg(OtherContext, victim.SK, hash.HashType_HashType_BLAKE3, data)
		if err != nil {
			panic(err)
		}
		return &signaling.SessionMsg{Seqno: seqno, SignedMsg: sm}, true
	case "other-context-keyed":
		return Assemble(victim.IDStr, data, victim, OtherContext, victim, seqno), true
	case "empty-signature":
		return Assemble(victim.IDStr, data, nil, Context, nil, seqno), true
	case "unsigned":
		return &signaling.SessionMsg{Seqno: seqno, SignedMsg: &peer.SignedMsg{FromPeerId: victim.IDStr, Data: data}}, true
	case "nil-body":
		return &signaling.SessionMsg{Seqno: seqno}, true
	case "empty-data":
		return Assemble(victim.IDStr, nil, victim, Context, nil, seqno), true
	case "no-sender":
		return Assemble("", data, forger, Context, forger, seqno), true
	}
	return nil, false
}

// ForgedClasses lists the classes of Forged.
var ForgedClasses = []string{"attached-foreign-key", "attached-victim-key", "claimed-sender", "other-context", "other-context-keyed", "empty-signature", "unsigned", "nil-body", "empty-data", "no-sender"}

// KeyedAuthentic is an authentic message of k that additionally carries k's own public key
// (peer.NewSignature with inclPubKey): the attached key is redundant and must not matter.
func KeyedAuthentic(k *Key, data []byte, seqno uint64) *signaling.SessionMsg {
	sig, err := peer.NewSignature(Context, k.SK, hash.HashType_HashType_BLAKE3, data, true)
	if err != nil {
		panic(err)
	}
	return &signaling.SessionMsg{Seqno: seqno, SignedMsg: &peer.SignedMsg{FromPeerId: k.IDStr, Data: data, Signature: sig}}
}
