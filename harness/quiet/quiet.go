// Package quiet is the load-proof quiescence detector of the signaling engines. "The event log
// has not grown for a few milliseconds" is not quiescence on a loaded machine: a handler
// goroutine that has not been scheduled yet logs nothing. Here a state counts as quiescent only
// if, in addition, the Go scheduler itself reports that no goroutine of this process other than
// the caller is runnable, running or inside a system call (a starved goroutine stays "runnable"
// however long the machine makes it wait), for several consecutive samples.
package quiet

import (
	"bytes"
	"runtime"
	"sync"
	"time"
)

var (
	mtx sync.Mutex
	buf = make([]byte, 1<<20)
)

// Busy returns the number of goroutines, other than the calling one, that are runnable, running
// or in a system call right now (as listed by runtime.Stack).
func Busy() int {
	mtx.Lock()
	defer mtx.Unlock()
	var n int
	for {
		n = runtime.Stack(buf, true)
		if n < len(buf) {
			break
		}
		buf = make([]byte, 2*len(buf))
	}
	busy := 0
	first := true
	rest := buf[:n]
	for len(rest) > 0 {
		var line []byte
		if i := bytes.IndexByte(rest, '\n'); i >= 0 {
			line, rest = rest[:i], rest[i+1:]
		} else {
			line, rest = rest, nil
		}
		if !bytes.HasPrefix(line, []byte("goroutine ")) {
			continue
		}
		i := bytes.IndexByte(line, '[')
		if i < 0 {
			continue
		}
		st := line[i+1:]
		if first { // runtime.Stack lists the calling goroutine first
			first = false
			continue
		}
		if bytes.HasPrefix(st, []byte("runnable")) || bytes.HasPrefix(st, []byte("running")) || bytes.HasPrefix(st, []byte("syscall")) {
			busy++
		}
	}
	return busy
}

// Settle waits until, for `rounds` consecutive samples taken `d` apart, no other goroutine is
// busy and stamp() (e.g. the length of the event log) has not changed. It gives up after `max`
// and reports whether quiescence was reached.
func Settle(stamp func() int, d time.Duration, rounds int, max time.Duration) bool {
	deadline := time.Now().Add(max)
	stable, last := 0, -1
	for stable < rounds {
		if time.Now().After(deadline) {
			return false
		}
		time.Sleep(d)
		n := stamp()
		if n == last && Busy() == 0 {
			stable++
		} else {
			stable = 0
			last = n
		}
	}
	return true
}
