module verif/harness

go 1.25.0

require (
	filippo.io/edwards25519 v1.2.0
	github.com/aperturerobotics/bifrost v0.0.0
	github.com/aperturerobotics/cli v1.1.0
	github.com/aperturerobotics/controllerbus v0.53.1
	github.com/aperturerobotics/go-websocket v1.8.15-0.20260329113544-74dbfb8f11c6
	github.com/aperturerobotics/protobuf-go-lite v0.12.2
	github.com/aperturerobotics/starpc v0.49.3
	github.com/aperturerobotics/util v1.33.1
	github.com/blang/semver/v4 v4.0.0
	github.com/cloudflare/circl v1.6.3
	github.com/klauspost/compress v1.18.5
	github.com/mr-tron/base58 v1.3.0
	github.com/quic-go/quic-go v0.59.0
	github.com/sirupsen/logrus v1.9.5-0.20260309202648-9f0600962f75
	github.com/zeebo/blake3 v0.2.4
	golang.org/x/crypto v0.50.0
)

require (
	github.com/aperturerobotics/entitygraph v0.11.0 // indirect
	github.com/aperturerobotics/go-multiaddr v0.16.2-0.20260312224838-f595884c2621 // indirect
	github.com/aperturerobotics/json-iterator-lite v1.0.1-0.20260223122953-12a7c334f634 // indirect
	github.com/bwesterb/go-ristretto v1.2.3 // indirect
	github.com/ghodss/yaml v1.0.0 // indirect
	github.com/google/uuid v1.6.0 // indirect
	github.com/ipfs/go-cid v0.0.7 // indirect
	github.com/klauspost/cpuid/v2 v2.2.10 // indirect
	github.com/libp2p/go-buffer-pool v0.1.0 // indirect
	github.com/libp2p/go-yamux/v4 v4.0.2 // indirect
	github.com/multiformats/go-base32 v0.1.0 // indirect
	github.com/multiformats/go-base36 v0.2.0 // indirect
	github.com/multiformats/go-multibase v0.2.0 // indirect
	github.com/multiformats/go-multihash v0.2.3 // indirect
	github.com/multiformats/go-varint v0.0.7 // indirect
	github.com/oklog/ulid/v2 v2.1.1 // indirect
	github.com/patrickmn/go-cache v2.1.0+incompatible // indirect
	github.com/pion/datachannel v1.6.0 // indirect
	github.com/pion/dtls/v3 v3.1.2 // indirect
	github.com/pion/ice/v4 v4.2.2 // indirect
	github.com/pion/interceptor v0.1.44 // indirect
	github.com/pion/logging v0.2.4 // indirect
	github.com/pion/mdns/v2 v2.1.0 // indirect
	github.com/pion/randutil v0.1.0 // indirect
	github.com/pion/rtcp v1.2.16 // indirect
	github.com/pion/rtp v1.10.1 // indirect
	github.com/pion/sctp v1.9.4 // indirect
	github.com/pion/sdp/v3 v3.0.18 // indirect
	github.com/pion/srtp/v3 v3.0.10 // indirect
	github.com/pion/stun/v3 v3.1.1 // indirect
	github.com/pion/transport/v4 v4.0.1 // indirect
	github.com/pion/turn/v4 v4.1.4 // indirect
	github.com/pion/webrtc/v4 v4.2.11 // indirect
	github.com/pkg/errors v0.9.1 // indirect
	github.com/spaolacci/murmur3 v1.1.0 // indirect
	github.com/wlynxg/anet v0.0.5 // indirect
	github.com/xrash/smetrics v0.0.0-20250705151800-55b8f293f342 // indirect
	golang.org/x/exp v0.0.0-20250408133849-7e4ce0ab07d0 // indirect
	golang.org/x/net v0.52.0 // indirect
	golang.org/x/sys v0.43.0 // indirect
	golang.org/x/time v0.12.0 // indirect
	gopkg.in/yaml.v2 v2.4.0 // indirect
	lukechampine.com/blake3 v1.2.1 // indirect
)

replace github.com/aperturerobotics/bifrost => /repo
