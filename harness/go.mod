module verif/harness

go 1.25.0

require (
	github.com/aperturerobotics/bifrost v0.0.0
	github.com/aperturerobotics/controllerbus v0.53.1
	github.com/aperturerobotics/protobuf-go-lite v0.12.2
	github.com/aperturerobotics/starpc v0.49.3
	github.com/aperturerobotics/util v1.33.1
	github.com/blang/semver/v4 v4.0.0
	github.com/mr-tron/base58 v1.3.0
	github.com/sirupsen/logrus v1.9.5-0.20260309202648-9f0600962f75
	github.com/zeebo/blake3 v0.2.4
)

require (
	filippo.io/edwards25519 v1.2.0 // indirect
	github.com/aperturerobotics/entitygraph v0.11.0 // indirect
	github.com/aperturerobotics/go-websocket v1.8.15-0.20260329113544-74dbfb8f11c6 // indirect
	github.com/aperturerobotics/json-iterator-lite v1.0.1-0.20260223122953-12a7c334f634 // indirect
	github.com/bwesterb/go-ristretto v1.2.3 // indirect
	github.com/cloudflare/circl v1.6.3 // indirect
	github.com/klauspost/compress v1.18.5 // indirect
	github.com/klauspost/cpuid/v2 v2.2.10 // indirect
	github.com/libp2p/go-buffer-pool v0.1.0 // indirect
	github.com/libp2p/go-yamux/v4 v4.0.2 // indirect
	github.com/patrickmn/go-cache v2.1.0+incompatible // indirect
	github.com/pkg/errors v0.9.1 // indirect
	github.com/quic-go/quic-go v0.59.0 // indirect
	golang.org/x/crypto v0.50.0 // indirect
	golang.org/x/net v0.52.0 // indirect
	golang.org/x/sys v0.43.0 // indirect
)

replace github.com/aperturerobotics/bifrost => /repo
