// Package norm generates input-NORMALISATION collision candidates: for a byte-string input x of a
// derivation (salt, context, key material) the pairs (x, N(x)) for every normalisation N a
// derivation could plausibly apply before using x. Shared by the engines that check "different
// inputs give different outputs" (encrypt: C12, C13; envelope: C16-C18).
package norm

import (
	"bytes"
	"crypto/md5"
	"crypto/sha1"
	"crypto/sha256"
	"crypto/sha3"
	"crypto/sha512"
	"encoding/base64"
	"encoding/hex"
	"strings"

	b58 "github.com/mr-tron/base58/base58"
	"github.com/zeebo/blake3"
)

// Input-NORMALISATION collisions. A derivation that first "normalises" one of its inputs — hashes
// a long salt the way HMAC hashes a long key, truncates or pads it to a block, trims or case-folds
// a context — maps two DIFFERENT inputs x and N(x) to the same secret, and anybody who knows the
// public input x can compute N(x). Random pairs never find these; the pairs (x, N(x)) do.
//
// normalisations: every N a derivation could plausibly apply to a byte-string input. For a given x
// the pairs are (x, N(x)) for every N with N(x) != x (and, because N need not be idempotent,
// N(x) itself is a base again one level down for the hash family: (H(x), Pad(H(x)))).

// Fn is one normalisation.
type Fn struct {
	Name string
	F    func(x []byte) []byte
}

// Pad zero-pads x to n bytes (left or right).
func Pad(x []byte, n int, left bool) []byte {
	if len(x) >= n {
		return x
	}
	z := make([]byte, n-len(x))
	if left {
		return append(z, x...)
	}
	return append(clone(x), z...)
}

// Trunc keeps the first n bytes.
func Trunc(x []byte, n int) []byte {
	if len(x) <= n {
		return x
	}
	return clone(x[:n])
}

// HashFns: every hash the repository links (blake3, sha256, sha1, sha512 through ed25519) and the
// usual suspects next to them.
// HashFns: every hash the repository links (blake3, sha256, sha1, sha512 through ed25519) and the
// usual suspects next to them.
var HashFns = []Fn{
	{"blake3-256", func(x []byte) []byte { h := blake3.Sum256(x); return h[:] }},
	{"blake3-512", func(x []byte) []byte { h := blake3.Sum512(x); return h[:] }},
	{"sha256", func(x []byte) []byte { h := sha256.Sum256(x); return h[:] }},
	{"sha1", func(x []byte) []byte { h := sha1.Sum(x); return h[:] }},
	{"sha512", func(x []byte) []byte { h := sha512.Sum512(x); return h[:] }},
	{"sha512/256", func(x []byte) []byte { h := sha512.Sum512_256(x); return h[:] }},
	{"sha384", func(x []byte) []byte { h := sha512.Sum384(x); return h[:] }},
	{"sha224", func(x []byte) []byte { h := sha256.Sum224(x); return h[:] }},
	{"sha3-256", func(x []byte) []byte { h := sha3.Sum256(x); return h[:] }},
	{"md5", func(x []byte) []byte { h := md5.Sum(x); return h[:] }},
	{"blake3-derive-key", func(x []byte) []byte {
		out := make([]byte, 32)
		blake3.DeriveKey("bifrost/peer/derive-key", x, out)
		return out
	}},
}

// unicodeForms: canonically / compatibly equivalent spellings (NFC first, then NFD / NFKC forms),
// written out by hand (no normalisation library is linked).
var unicodeForms = [][2]string{
	{"\u00e9", "e\u0301"},              // e-acute: NFC / NFD
	{"\u00c5", "A\u030a"},              // A-ring
	{"\u212b", "\u00c5"},               // ANGSTROM SIGN / A-ring (singleton)
	{"\ufb01", "fi"},                   // fi ligature (NFKC)
	{"\uff53\uff41", "sa"},             // fullwidth "sa" (NFKC)
	{"\u1e9b\u0323", "\u1e69"},         // the classic NFKC example
	{"\u2126", "\u03a9"},               // OHM SIGN / Omega
	{"\u00a0", " "},                    // no-break space
	{"\u2215", "/"},                    // division slash
	{"\u0130", "i\u0307"},              // dotted capital I lower-cased
	{"\u00df", "ss"},                   // sharp s case-folded
	{"\u017f", "s"},                    // long s case-folded
	{"\u1e9e", "\u00df"},               // capital sharp s / sharp s
	{"\ufeffx", "x"},                   // byte-order mark
	{"\u200bx", "x"},                   // zero-width space
	{"e\u0301\u0323", "e\u0323\u0301"}, // combining-mark order
}

func replaceForms(x []byte, from, to int) []byte {
	s := string(x)
	for _, p := range unicodeForms {
		s = strings.ReplaceAll(s, p[from], p[to])
	}
	return []byte(s)
}

// All returns every plausible N.
func All() []Fn {
	var out []Fn
	for _, h := range HashFns {
		h := h
		out = append(out, h)
		// HMAC: the hashed key is zero-padded to the block size
		out = append(out,
			Fn{h.Name + "+pad64", func(x []byte) []byte { return Pad(h.F(x), 64, false) }},
			Fn{h.Name + "+pad128", func(x []byte) []byte { return Pad(h.F(x), 128, false) }},
			Fn{h.Name + "-hex", func(x []byte) []byte { return []byte(hex.EncodeToString(h.F(x))) }},
		)
		if len(h.F(nil)) > 32 {
			out = append(out, Fn{h.Name + "[:32]", func(x []byte) []byte { return Trunc(h.F(x), 32) }})
		}
	}
	for _, n := range []int{16, 32, 64, 128} {
		n := n
		out = append(out,
			Fn{"truncate-" + itoa(n), func(x []byte) []byte { return Trunc(x, n) }},
			Fn{"keep-last-" + itoa(n), func(x []byte) []byte {
				if len(x) <= n {
					return x
				}
				return clone(x[len(x)-n:])
			}},
			Fn{"zero-pad-" + itoa(n), func(x []byte) []byte { return Pad(x, n, false) }},
			Fn{"zero-pad-left-" + itoa(n), func(x []byte) []byte { return Pad(x, n, true) }},
			Fn{"space-pad-" + itoa(n), func(x []byte) []byte {
				if len(x) >= n {
					return x
				}
				return append(clone(x), bytes.Repeat([]byte{' '}, n-len(x))...)
			}},
			// truncate-or-pad to exactly one block
			Fn{"block-" + itoa(n), func(x []byte) []byte { return Pad(Trunc(x, n), n, false) }},
		)
	}
	out = append(out,
		Fn{"trim-space", func(x []byte) []byte { return bytes.TrimSpace(x) }},
		Fn{"trim-right-space", func(x []byte) []byte { return bytes.TrimRight(x, " \t\r\n") }},
		Fn{"trim-left-space", func(x []byte) []byte { return bytes.TrimLeft(x, " \t\r\n") }},
		Fn{"trim-nul", func(x []byte) []byte { return bytes.Trim(x, "\x00") }},
		Fn{"trim-right-nul", func(x []byte) []byte { return bytes.TrimRight(x, "\x00") }},
		Fn{"cut-at-nul", func(x []byte) []byte { // a C string
			if i := bytes.IndexByte(x, 0); i >= 0 {
				return clone(x[:i])
			}
			return x
		}},
		Fn{"collapse-space", func(x []byte) []byte { return []byte(strings.Join(strings.Fields(string(x)), " ")) }},
		Fn{"lower", func(x []byte) []byte { return bytes.ToLower(x) }},
		Fn{"upper", func(x []byte) []byte { return bytes.ToUpper(x) }},
		Fn{"ascii-lower", func(x []byte) []byte {
			y := clone(x)
			for i, c := range y {
				if c >= 'A' && c <= 'Z' {
					y[i] = c + 32
				}
			}
			return y
		}},
		Fn{"to-valid-utf8", func(x []byte) []byte { return bytes.ToValidUTF8(x, []byte("\ufffd")) }},
		Fn{"drop-invalid-utf8", func(x []byte) []byte { return bytes.ToValidUTF8(x, nil) }},
		Fn{"unicode-decompose", func(x []byte) []byte { return replaceForms(x, 0, 1) }},
		Fn{"unicode-compose", func(x []byte) []byte { return replaceForms(x, 1, 0) }},
		Fn{"hex", func(x []byte) []byte { return []byte(hex.EncodeToString(x)) }},
		Fn{"base64", func(x []byte) []byte { return []byte(base64.StdEncoding.EncodeToString(x)) }},
		Fn{"base58", func(x []byte) []byte { return []byte(b58.Encode(x)) }},
		Fn{"unhex", func(x []byte) []byte {
			if y, err := hex.DecodeString(string(x)); err == nil && len(y) > 0 {
				return y
			}
			return x
		}},
		Fn{"strip-trailing-slash", func(x []byte) []byte { return bytes.TrimRight(x, "/") }},
		Fn{"reverse", Reverse},
	)
	return out
}

// Reverse returns x reversed.
func Reverse(x []byte) []byte {
	y := clone(x)
	for i, j := 0, len(y)-1; i < j; i, j = i+1, j-1 {
		y[i], y[j] = y[j], y[i]
	}
	return y
}

func itoa(n int) string {
	if n == 0 {
		return "0"
	}
	var b []byte
	for ; n > 0; n /= 10 {
		b = append([]byte{byte('0' + n%10)}, b...)
	}
	return string(b)
}

// Pair is (x, N(x)) with N(x) != x.
type Pair struct {
	Name string // the normalisation
	X, Y []byte // Y = N(X), Y != X
}

// Pairs: for every base x and every normalisation N with N(x) != x the pair (x, N(x)); pairs
// with the same (x, y) are listed once, under the first N that produced them.
func Pairs(bases [][]byte) []Pair {
	var out []Pair
	seen := map[string]bool{}
	for _, x := range bases {
		for _, n := range All() {
			y := n.F(clone(x))
			if bytes.Equal(x, y) {
				continue
			}
			k := string(x) + "\x00|\x01" + string(y)
			if seen[k] {
				continue
			}
			seen[k] = true
			out = append(out, Pair{n.Name, clone(x), y})
		}
	}
	return out
}

// ByteBases (rnd(n) = n random bytes): byte strings just below / at / above the typical block sizes (32, 64, 128) and far
// above, plus short ones that padding, trimming, case and unicode folding act on.
func ByteBases(rnd func(n int) []byte) [][]byte {
	var out [][]byte
	for _, n := range []int{1, 15, 31, 32, 33, 63, 64, 65, 100, 127, 128, 129, 200, 1000} {
		out = append(out, rnd(n))
	}
	for _, s := range TextBases {
		out = append(out, []byte(s))
	}
	out = append(out, bytes.Repeat([]byte("Long Text Input \u00e9 "), 9)) // > 128 bytes of text
	return out
}

// TextBases: short inputs that padding, trimming, case and unicode folding act on.
var TextBases = []string{
	"  Salt Value\t\n", "salt\x00\x00\x00", "\x00salt", "sa\x00lt", "SaLt-Value", "caf\u00e9 salt", "cafe\u0301 salt",
	"\uff53\uff41lt", "a  b\tc", "deadbeef00", "path/to/ctx/", "\xff\xfe raw", "Stra\u00dfe \u212b \u2126",
}

func clone(b []byte) []byte { return append([]byte(nil), b...) }
